/-
C23 — Application storage accounting matches stored state.

Model: Model.AppStorage (ledger/eval/appcow.go setKey / delKey / updateCounts / checkCounts / SetAppGlobalSchema,
ledger/eval/applications.go NewBox / SetBox / DelBox, data/transactions/logic/box.go availableAppBox / authorizeBoxAccess and the
box opcodes incl. the app_box_* family variants, ledger/apply/application.go ApplicationCall).  All theorems quantify over
EVERY history of transaction groups whose application calls run effect scripts (every effect sequence, every grouping, accepted
and rejected groups alike); counters are modelled with the code's uint64 wrap / saturation and shown never to wrap / saturate.

FULL (for effect scripts): `box_counters`, `schema_bound`, `counts_match`, `schema_write_rejected`, `dirty_bytes_inv`,
`dirty_bytes_step`, `dirty_sub_exact`.  Hypotheses, all discharged by consensus limits:
  * `groupOK`: schemas in transactions satisfy entries + 1 < 2^64 (WellFormed: ≤ 64 / 16) and the group's i/o budget
    + MaxBoxSize < 2^64 (≤ 16·8·2048 + 32768);
  * `Fits P (historySize gs)`: (#effects of the history + 1) · (MaxAppKeyLen + MaxBoxSize) < 2^64, i.e. fewer than ≈ 5.6·10^14
    effects — needed because TotalBoxBytes uses AddSaturate (beyond that point the counter would saturate and later
    SubSaturate would make it drift; min-balance makes such totals unreachable).
-/
import AlgoVerif.Lemmas.AppStorageGroup
namespace Props.C23
open AlgoVerif.Model.AppStorage

/-- `box_counters` (general form): from any consistent state, after any history of groups, for every application the account's
TotalBoxes is the number of its boxes and TotalBoxBytes is Σ (|name| + |value|). -/
theorem box_counters_from (P : Proto) (n : Nat) (σ0 : State) (gs : List (List Txn)) (h0 : Inv P n σ0)
    (hok : ∀ g, g ∈ gs → groupOK P g) (hfit : Fits P (n + historySize gs)) (a : AppId) :
    (applyGroups P σ0 gs).tb a = ((applyGroups P σ0 gs).boxes a).length ∧
    (applyGroups P σ0 gs).tbb a = boxBytes (applyGroups P σ0 gs) a := by
  have h := applyGroups_inv gs h0 hok hfit
  exact ⟨h.box.tb_eq a, h.box.tbb_eq a⟩

/-- `box_counters`: every history from the empty ledger. -/
theorem box_counters (P : Proto) (gs : List (List Txn)) (hok : ∀ g, g ∈ gs → groupOK P g) (hfit : Fits P (historySize gs))
    (a : AppId) :
    (applyGroups P State.empty gs).tb a = ((applyGroups P State.empty gs).boxes a).length ∧
    (applyGroups P State.empty gs).tbb a = boxBytes (applyGroups P State.empty gs) a := by
  have := box_counters_from P 0 State.empty gs (Inv.empty P) hok (by rw [Nat.zero_add]; exact hfit) a
  exact this

/-- the number of keys of each type within the schema -/
def withinSchema (s : Store) : Prop := countU s.kv ≤ s.max.nui ∧ countB s.kv ≤ s.max.nbs

/-- `schema_bound`: after every history, every application's global state and every (account, application) local state holds
at most as many uint keys / byte-slice keys as its schema allows. -/
theorem schema_bound (P : Proto) (gs : List (List Txn)) (hok : ∀ g, g ∈ gs → groupOK P g) (hfit : Fits P (historySize gs)) :
    (∀ a app, (applyGroups P State.empty gs).apps a = some app → withinSchema app.g) ∧
    (∀ u a s, (applyGroups P State.empty gs).locals u a = some s → withinSchema s) := by
  have h := applyGroups_inv gs (Inv.empty P) hok (by rw [Nat.zero_add]; exact hfit)
  constructor
  · intro a app ha
    have hs := (h.apps_ok a app ha).1
    exact ⟨by rw [← hs.cu]; exact hs.le_u, by rw [← hs.cb]; exact hs.le_b⟩
  · intro u a s ha
    have hs := h.locals_ok u a s ha
    exact ⟨by rw [← hs.cu]; exact hs.le_u, by rw [← hs.cb]; exact hs.le_b⟩

/-- `counts_match`: the stored usage counters (`storageDelta.counts`, what `checkCounts` compares with the schema) equal the
actual numbers of keys of each type — the uint64 decrements / increments of `updateCounts` never wrap, a type change moves the
counter. -/
theorem counts_match (P : Proto) (gs : List (List Txn)) (hok : ∀ g, g ∈ gs → groupOK P g) (hfit : Fits P (historySize gs)) :
    (∀ a app, (applyGroups P State.empty gs).apps a = some app →
        app.g.counts.nui = countU app.g.kv ∧ app.g.counts.nbs = countB app.g.kv) ∧
    (∀ u a s, (applyGroups P State.empty gs).locals u a = some s → s.counts.nui = countU s.kv ∧ s.counts.nbs = countB s.kv) := by
  have h := applyGroups_inv gs (Inv.empty P) hok (by rw [Nat.zero_add]; exact hfit)
  exact ⟨fun a app ha => ⟨(h.apps_ok a app ha).1.cu, (h.apps_ok a app ha).1.cb⟩,
         fun u a s ha => ⟨(h.locals_ok u a s ha).cu, (h.locals_ok u a s ha).cb⟩⟩

/-- `schema_write_rejected`: in a consistent store, writing a NEW key whose type is already at the schema limit fails. -/
theorem schema_write_rejected (P : Proto) (s : Store) (k : Bytes) (v : TVal) (hs : StoreOK s) (hnew : aget s.kv k = none)
    (hfull : (v.isUint = true ∧ countU s.kv = s.max.nui) ∨ (v.isUint = false ∧ countB s.kv = s.max.nbs)) :
    ∀ s', setKey P s k v ≠ .ok s' :=
  setKey_rejects_past_schema hs hnew hfull

/-- … and a successful write keeps the store consistent (counts updated WITH the write, then checked). -/
theorem schema_write_ok (P : Proto) (s s' : Store) (k : Bytes) (v : TVal) (hs : StoreOK s) (h : setKey P s k v = .ok s') :
    StoreOK s' ∧ aget s'.kv k = some v := by
  refine ⟨setKey_ok hs h, ?_⟩
  obtain ⟨he, _⟩ := setKey_eq h
  subst he
  show aget (aset s.kv k v) k = some v
  rw [aget_aset]; simp

/-- `dirty_bytes_inv`: at the end of every accepted group (from a consistent state) in which a program ran, `dirtyBytes` is the
sum over the boxes marked dirty of their CURRENT length, every dirty box exists, and `dirtyBytes ≤ ioBudget`. -/
theorem dirty_bytes_inv (P : Proto) (n : Nat) (σ σ' : State) (g : List Txn) (av' : Avail) (ls : List (List Nat))
    (hi : Inv P n σ) (hok : groupOK P g) (hfit : Fits P (n + groupSize g)) (h : evalGroup P σ g = .ok (σ', av', ls))
    (hstarted : av'.started = true) :
    av'.dirtyBytes = dsum σ' av'.boxes ∧ av'.dirtyBytes ≤ av'.ioBudget ∧
    (∀ r, aget av'.boxes r = some true → (boxLenAt σ' r).isSome) := by
  have hg := (evalGroup_inv hi hok hfit h).2.1 hstarted
  exact ⟨hg.sum, hg.le, hg.dirty_exists⟩

/-- `dirty_bytes_step`: the same invariant holds after EVERY successful opcode (effect), not only at the end of the group. -/
theorem dirty_bytes_step (P : Proto) (n : Nat) (cx : Cx) (σ σ' : State) (av av' : Avail) (e : Effect) (l : List Nat)
    (hi : Inv P n σ) (hg : GInv P σ av) (hfit : Fits P n) (h : evalEffect P cx σ av e = .ok (σ', av', l)) :
    av'.dirtyBytes = dsum σ' av'.boxes ∧ av'.dirtyBytes ≤ av'.ioBudget := by
  have := (evalEffect_inv hi hg hfit h).2.1
  exact ⟨this.sum, this.le⟩

/-- `dirty_sub_exact`: the unsigned `dirtyBytes -= len(content)` of delete / resize on a dirty box never wraps. -/
theorem dirty_sub_exact (P : Proto) (σ : State) (av : Avail) (r : BoxRef) (hg : GInv P σ av) (hd : aget av.boxes r = some true) :
    curLen σ r ≤ av.dirtyBytes ∧ sub64 av.dirtyBytes (curLen σ r) = av.dirtyBytes - curLen σ r := by
  have hge := wsum_ge_of_aget (dw σ) hg.nodup hd
  have hs := hg.sum
  have h1 : curLen σ r ≤ av.dirtyBytes := by
    unfold dsum at hs
    have : dw σ r true = curLen σ r := by unfold dw; simp
    omega
  have hlt : av.dirtyBytes < M64 := by have := hg.le; have := hg.small; omega
  exact ⟨h1, sub64_eq h1 hlt⟩

/-! ## non-vacuity: a concrete history meets every hypothesis and exercises the rules -/

def P0 : Proto := {}

/-- create (schema 1 uint / 1 bytes) with a box; a call that resizes, replaces, type-changes a key; a rejected call (schema) -/
def hist : List (List Txn) :=
  [ [ .fund, .create 1 ⟨1, 1⟩ ⟨1, 0⟩ [] [(0, [120])] [.globalPut [97] (.uint 5), .boxCreate 0 [120] 10, .setFam 1] ],
    [ .call 2 1 .optin [] [(0, [120]), (0, [121])]
        [.boxResize 0 [120] 20, .boxReplace 0 [120] 2 [255, 238], .boxPut 0 [121] [1, 2, 3], .globalPut [97] (.bytes [1]),
         .localPut 2 [97] (.uint 3)] ],
    [ .call 2 1 .noop [] [] [.globalPut [98] (.bytes [2])] ],
    [ .call 2 1 .noop [] [(0, [120])] [.boxDel 0 [120], .globalDel [97]] ] ]

theorem hist_ok : ∀ g, g ∈ hist → groupOK P0 g := by
  intro g hg
  simp only [hist, List.mem_cons, List.not_mem_nil, or_false] at hg
  rcases hg with rfl | rfl | rfl | rfl <;>
    refine ⟨?_, by decide⟩ <;> intro t ht <;> simp only [List.mem_cons, List.not_mem_nil, or_false] at ht
  · rcases ht with rfl | rfl
    · trivial
    · exact ⟨by unfold Schema.small; decide, by unfold Schema.small; decide⟩
  · subst ht; trivial
  · subst ht; trivial
  · subst ht; trivial

theorem hist_fits : Fits P0 (historySize hist) := by unfold Fits; decide

example : (applyGroups P0 State.empty hist).tb 1 = 1 ∧ (applyGroups P0 State.empty hist).tbb 1 = 4 :=
  ⟨by rw [(box_counters P0 hist hist_ok hist_fits 1).1]; decide, by rw [(box_counters P0 hist hist_ok hist_fits 1).2]; decide⟩

/-- the third group of `hist` (a second byte-slice key with schema 1) is rejected: `schema_write_rejected` at work -/
example : setKey P0 { kv := [([97], .bytes [1])], counts := ⟨0, 1⟩, max := ⟨1, 1⟩ } [98] (.bytes [2]) = .error .schemaBytes := rfl

example : StoreOK { kv := [([97], .bytes [1])], counts := ⟨0, 1⟩, max := ⟨1, 1⟩ } :=
  ⟨by unfold keysNodup; decide, by decide, by decide, by decide, by decide, by decide, by decide⟩

/-- `dirty_bytes_inv` / `dirty_sub_exact`: the second group of `hist` ends with two dirty boxes (20 + 3 bytes) and a budget of 2·2048 -/
example : ∃ σ' av' ls, evalGroup P0 (applyGroups P0 State.empty [hist.head!]) (hist.tail.head!) = .ok (σ', av', ls) ∧
    av'.started = true ∧ av'.dirtyBytes = 23 ∧ av'.ioBudget = 4096 := by
  refine ⟨_, _, _, rfl, ?_, ?_, ?_⟩ <;> decide

end Props.C23
