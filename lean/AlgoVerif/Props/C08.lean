import AlgoVerif.Model.AcctUpdates
/-! C08 — ledger queries answer from the block history, not from flush timing (theorems; work in progress). -/
namespace AlgoVerif.Props.C08
open AlgoVerif.Spec.LedgerHistory AlgoVerif.Model.AcctUpdates

/-- the error branches: a round below the tracker DB round / above the latest round is refused, whatever the state -/
theorem roundOffset_out_of_range (σ : State) (rnd : Nat) :
    (rnd < σ.dbRound → roundOffset σ rnd = .error .beforeDb) ∧
    (σ.latest < rnd → roundOffset σ rnd = .error .tooHigh) ∧
    (σ.dbRound ≤ rnd → rnd ≤ σ.latest → roundOffset σ rnd = .ok (rnd - σ.dbRound)) := by
  unfold roundOffset State.latest
  refine ⟨fun h => by simp [h], fun h => ?_, fun h1 h2 => ?_⟩
  · have h1 : ¬ rnd < σ.dbRound := by omega
    have h2 : rnd - σ.dbRound > σ.deltas.length := by omega
    simp [h1, h2]
  · have h3 : ¬ rnd < σ.dbRound := by omega
    have h4 : ¬ rnd - σ.dbRound > σ.deltas.length := by omega
    simp [h3, h4]

end AlgoVerif.Props.C08
