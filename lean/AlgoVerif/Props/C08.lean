import AlgoVerif.Lemmas.AcctUpdatesReach
/-!
# C08 — ledger queries answer from the block history, not from flush timing

`Model.AcctUpdates` is the code-shaped model of accountUpdates (deltas, per-key indexes with ndeltas, LRU caches with
pending-write buffers and not-found sets, tracker DB with its round, block store). `Reach ct σ` is the closure of the
initial state under ALL operations in ANY order: `newBlock` (of a history that stays well formed), `commit k` for every
`k ≤ |deltas|` and `commitUpTo` (the offset the code computes), `reload`, `resetCaches`, `evict`, `flushCaches`, and the
state effects of the four lookups (pending cache writes). Theorems:

* `lookup_refines_*`  every lookup at a served round returns `Spec.LedgerHistory.*At (hist σ) rnd key` — the value obtained by
  applying exactly the blocks `1..rnd` to genesis — whatever was flushed, cached, evicted or reloaded; `validThrough` is a round
  up to which that value does not change;
* `lookup_refines`     the same, uniformly over the four key spaces (`Spec.at`);
* `lookup_flush_independent`  two reachable states with the same block history give the same answers;
* `lookup_out_of_range` the error branches; `lookup_no_retry` the DB-round re-check never fails on reachable states;
* `commit_total`        commitRound / postCommit never hit a constraint failure or a Panicf on reachable states;
* `reload_hist`         a reload (loadFromDisk + replay + flush) keeps the history, hence every answer.
-/
namespace AlgoVerif.Props.C08
open AlgoVerif.Spec.LedgerHistory AlgoVerif.Model.AcctUpdates AlgoVerif.Lemmas.AcctUpdates

/-- LRU re-initialisation (what the harness does after loadFromDisk to get tiny pending buffers) -/
def resetCaches (σ : State) : State :=
  { σ with baseAccounts := (mkCaches σ.cfg).1, baseResources := (mkCaches σ.cfg).2.1, baseKVs := (mkCaches σ.cfg).2.2 }

/-- every state the trackers can be in: all operations, any order. `ct` is the (fixed) type of each creatable index. -/
inductive Reach (ct : Cidx → CType) : State → Prop
  | init (cfg : Cfg) (gen : List (Addr × AcctData)) (hgen : (AMap.keys gen).Nodup) : Reach ct (init cfg gen)
  | newBlock (σ : State) (d : Delta) : Reach ct σ → HistWF ct { σ.hist with blocks := σ.hist.blocks ++ [d] } → Reach ct (newBlock σ d)
  | commit (σ σ' : State) (off : Nat) : Reach ct σ → off ≤ σ.deltas.length → commit σ off = .ok σ' → Reach ct σ'
  | commitUpTo (σ σ' : State) (r : Nat) : Reach ct σ → commitUpTo σ r = .ok σ' → Reach ct σ'
  | reload (σ σ' : State) : Reach ct σ → reload σ = .ok σ' → Reach ct σ'
  | resetCaches (σ : State) : Reach ct σ → Reach ct (resetCaches σ)
  | evict (σ : State) (na nr nk : Nat) : Reach ct σ → Reach ct (evict σ na nr nk)
  | flushCaches (σ : State) : Reach ct σ → Reach ct (flushCaches σ)
  | lookupAcct (σ : State) (rnd : Nat) (a : Addr) : Reach ct σ → Reach ct (lookupAcct σ rnd a).2
  | lookupRes (σ : State) (rnd : Nat) (a : Addr) (c : Cidx) (t : CType) : Reach ct σ → Reach ct (lookupRes σ rnd a c t).2
  | lookupKv (σ : State) (rnd : Nat) (k : Key) : Reach ct σ → Reach ct (lookupKv σ rnd k).2

/-- the history of a state: genesis + every block handed to the ledger (the block store) -/
abbrev hist (σ : State) : History := σ.hist

theorem latest_of_lookup (ct : Cidx → CType) (σ σ' : State) (h : σ'.deltas = σ.deltas ∧ σ'.dbRound = σ.dbRound) :
    σ'.latest = σ.latest := by
  unfold State.latest; rw [h.1, h.2]

/-- the invariant of the design holds on every reachable state, and the trackers have seen every block of the store -/
theorem reach_inv (ct : Cidx → CType) (σ : State) (h : Reach ct σ) : Inv ct σ ∧ Synced σ := by
  induction h with
  | init cfg gen hgen => exact init_inv ct cfg gen hgen
  | newBlock σ d _ hwf ih => exact newBlock_inv ct σ ih.1 ih.2 d hwf
  | commit σ σ' off _ hoff hc ih =>
    rcases commit_inv ct σ ih.1 off hoff with ⟨_, σ'', hc', hinv, hh, hl, _, _⟩ | ⟨_, _, herr⟩
    · rw [hc'] at hc; simp only [Except.ok.injEq] at hc; subst hc
      exact ⟨hinv, by unfold Synced at *; rw [hl, hh]; exact ih.2⟩
    · rw [herr] at hc; simp at hc
  | commitUpTo σ σ' r _ hc ih =>
    obtain ⟨hinv, hh, hl, _⟩ := commitUpTo_inv ct σ ih.1 r σ' hc
    exact ⟨hinv, by unfold Synced at *; rw [hl, hh]; exact ih.2⟩
  | reload σ σ' _ hr ih =>
    obtain ⟨hinv, hs, _⟩ := reload_inv ct σ ih.1 σ' hr
    exact ⟨hinv, hs⟩
  | resetCaches σ _ ih =>
    obtain ⟨cA, cR, cK⟩ := mkCaches_inv σ.cfg (fun a => AMap.get σ.db.accts a) (fun k => AMap.get σ.db.res k)
      (fun k => AMap.get σ.db.kvs k) σ.dbRound
    exact ⟨{ ih.1 with lruA := cA, lruR := cR, lruK := cK }, ih.2⟩
  | evict σ na nr nk _ ih => exact ⟨evict_inv ct σ ih.1 na nr nk, ih.2⟩
  | flushCaches σ _ ih => exact ⟨flushCaches_inv ct σ ih.1, ih.2⟩
  | lookupAcct σ rnd a _ ih =>
    refine ⟨lookupAcct_inv ct σ ih.1 rnd a, ?_⟩
    have : (Model.AcctUpdates.lookupAcct σ rnd a).2.hist = σ.hist ∧ (Model.AcctUpdates.lookupAcct σ rnd a).2.latest = σ.latest := by
      unfold Model.AcctUpdates.lookupAcct acctFromDb State.latest
      repeat' split
      all_goals exact ⟨rfl, rfl⟩
    unfold Synced at *; rw [this.1, this.2]; exact ih.2
  | lookupRes σ rnd a c t _ ih =>
    refine ⟨lookupRes_inv ct σ ih.1 rnd a c t, ?_⟩
    have : (Model.AcctUpdates.lookupRes σ rnd a c t).2.hist = σ.hist ∧ (Model.AcctUpdates.lookupRes σ rnd a c t).2.latest = σ.latest := by
      unfold Model.AcctUpdates.lookupRes resFromDb State.latest
      repeat' split
      all_goals exact ⟨rfl, rfl⟩
    unfold Synced at *; rw [this.1, this.2]; exact ih.2
  | lookupKv σ rnd k _ ih =>
    refine ⟨lookupKv_inv ct σ ih.1 rnd k, ?_⟩
    have : (Model.AcctUpdates.lookupKv σ rnd k).2.hist = σ.hist ∧ (Model.AcctUpdates.lookupKv σ rnd k).2.latest = σ.latest := by
      unfold Model.AcctUpdates.lookupKv kvFromDb State.latest
      repeat' split
      all_goals exact ⟨rfl, rfl⟩
    unfold Synced at *; rw [this.1, this.2]; exact ih.2

/-- on reachable states the latest round is the length of the block history -/
theorem reach_latest (ct : Cidx → CType) (σ : State) (h : Reach ct σ) : σ.latest = (hist σ).latest :=
  (reach_inv ct σ h).2

/-! ### lookups refine the history -/

/-- accounts (lookupWithoutRewards / LookupAccount): the value of the history at `rnd`; `validThrough` is sound -/
theorem lookup_refines_acct (ct : Cidx → CType) (σ : State) (h : Reach ct σ) (rnd : Nat) (a : Addr)
    (h1 : σ.dbRound ≤ rnd) (h2 : rnd ≤ σ.latest) :
    ∃ vt, (lookupAcct σ rnd a).1 = .ok (acctAt (hist σ) rnd a, vt) ∧ rnd ≤ vt ∧ vt ≤ σ.latest ∧
      ∀ r, rnd ≤ r → r ≤ vt → acctAt (hist σ) r a = acctAt (hist σ) rnd a := by
  obtain ⟨vt, g1, g2, g3, g4, _⟩ := lookupAcct_spec ct σ (reach_inv ct σ h).1 rnd a h1 h2
  exact ⟨vt, g1, g2, g3, g4⟩

/-- resources (lookupResource / LookupAsset / LookupApplication), asked with the creatable's own type -/
theorem lookup_refines_res (ct : Cidx → CType) (σ : State) (h : Reach ct σ) (rnd : Nat) (a : Addr) (c : Cidx)
    (h1 : σ.dbRound ≤ rnd) (h2 : rnd ≤ σ.latest) :
    ∃ vt, (lookupRes σ rnd a c (ct c)).1 = .ok (resAt (hist σ) rnd a c (ct c), vt) ∧ rnd ≤ vt ∧ vt ≤ σ.latest ∧
      ∀ r, rnd ≤ r → r ≤ vt → resAt (hist σ) r a c (ct c) = resAt (hist σ) rnd a c (ct c) := by
  obtain ⟨vt, g1, g2, g3, g4, _⟩ := lookupRes_spec ct σ (reach_inv ct σ h).1 rnd a c h1 h2
  exact ⟨vt, g1, g2, g3, g4⟩

/-- boxes (lookupKv / LookupKv) -/
theorem lookup_refines_kv (ct : Cidx → CType) (σ : State) (h : Reach ct σ) (rnd : Nat) (k : Key)
    (h1 : σ.dbRound ≤ rnd) (h2 : rnd ≤ σ.latest) : (lookupKv σ rnd k).1 = .ok (kvAt (hist σ) rnd k) :=
  (lookupKv_spec ct σ (reach_inv ct σ h).1 rnd k h1 h2).1

/-- creators (getCreatorForRound / GetCreatorForRound), any type asked -/
theorem lookup_refines_creator (ct : Cidx → CType) (σ : State) (h : Reach ct σ) (rnd : Nat) (c : Cidx) (t : CType)
    (h1 : σ.dbRound ≤ rnd) (h2 : rnd ≤ σ.latest) : lookupCreator σ rnd c t = .ok (creatorAt (hist σ) rnd c t) :=
  lookupCreator_spec ct σ (reach_inv ct σ h).1 rnd c t h1 h2

/-- the four lookups behind one interface -/
def lookup (σ : State) (rnd : Nat) : QKey → Except Err QVal
  | .acct a => (lookupAcct σ rnd a).1.map (fun r => .acct r.1)
  | .res a c t => (lookupRes σ rnd a c t).1.map (fun r => .res r.1)
  | .kv k => (lookupKv σ rnd k).1.map .kv
  | .creator c t => (lookupCreator σ rnd c t).map .creator

def typed (ct : Cidx → CType) : QKey → Prop
  | .res _ c t => t = ct c
  | _ => True

/-- **C08.** Every lookup at a round the ledger still serves returns the state obtained by applying exactly the blocks up to
    that round to genesis — on every reachable state, i.e. whatever has been flushed, cached, evicted or reloaded. -/
theorem lookup_refines (ct : Cidx → CType) (σ : State) (h : Reach ct σ) (rnd : Nat) (k : QKey) (hk : typed ct k)
    (h1 : σ.dbRound ≤ rnd) (h2 : rnd ≤ σ.latest) : lookup σ rnd k = .ok («at» (hist σ) rnd k) := by
  cases k with
  | acct a =>
    obtain ⟨vt, g, _⟩ := lookup_refines_acct ct σ h rnd a h1 h2
    simp only [lookup, g]; rfl
  | res a c t =>
    simp only [typed] at hk; subst hk
    obtain ⟨vt, g, _⟩ := lookup_refines_res ct σ h rnd a c h1 h2
    simp only [lookup, g]; rfl
  | kv key => simp only [lookup, lookup_refines_kv ct σ h rnd key h1 h2]; rfl
  | creator c t => simp only [lookup, lookup_refines_creator ct σ h rnd c t h1 h2]; rfl

/-- the answer does not depend on which rounds have been flushed, on cache contents, or on restarts: two reachable states
    with the same block history agree on every round both serve -/
theorem lookup_flush_independent (ct : Cidx → CType) (σ₁ σ₂ : State) (h₁ : Reach ct σ₁) (h₂ : Reach ct σ₂)
    (hh : hist σ₁ = hist σ₂) (rnd : Nat) (k : QKey) (hk : typed ct k)
    (a1 : σ₁.dbRound ≤ rnd) (a2 : σ₂.dbRound ≤ rnd) (b : rnd ≤ (hist σ₁).latest) :
    lookup σ₁ rnd k = lookup σ₂ rnd k := by
  rw [lookup_refines ct σ₁ h₁ rnd k hk a1 (by rw [reach_latest ct σ₁ h₁]; exact b),
      lookup_refines ct σ₂ h₂ rnd k hk a2 (by rw [reach_latest ct σ₂ h₂, ← hh]; exact b), hh]

/-- the error branches: below the tracker DB round (`RoundOffsetError`), above the latest round ("too high") -/
theorem lookup_out_of_range (σ : State) (rnd : Nat) (k : QKey) :
    (rnd < σ.dbRound → lookup σ rnd k = .error .beforeDb) ∧ (σ.latest < rnd → lookup σ rnd k = .error .tooHigh) := by
  have hb : rnd < σ.dbRound → roundOffset σ rnd = .error .beforeDb := fun h => by unfold roundOffset; simp [h]
  have ht : σ.latest < rnd → roundOffset σ rnd = .error .tooHigh := fun h => by
    unfold roundOffset State.latest at *
    have h1 : ¬ rnd < σ.dbRound := by omega
    have h2 : rnd - σ.dbRound > σ.deltas.length := by omega
    simp [h1, h2]
  constructor
  · intro h
    cases k <;> simp only [lookup, Model.AcctUpdates.lookupAcct, Model.AcctUpdates.lookupRes, Model.AcctUpdates.lookupKv,
      Model.AcctUpdates.lookupCreator, hb h] <;> rfl
  · intro h
    cases k <;> simp only [lookup, Model.AcctUpdates.lookupAcct, Model.AcctUpdates.lookupRes, Model.AcctUpdates.lookupKv,
      Model.AcctUpdates.lookupCreator, ht h] <;> rfl

/-- the DB-round re-check of the lookups (`persistedData.Round == currentDbRound`) always succeeds on reachable states:
    neither the stale-database error nor the wait-and-retry branch is taken at operation granularity -/
theorem lookup_no_retry (ct : Cidx → CType) (σ : State) (h : Reach ct σ) : σ.db.round = σ.dbRound :=
  (reach_inv ct σ h).1.dbr

/-- commitRound / postCommit never fail on a reachable state: no constraint violation, no rows-affected mismatch, no
    Panicf("inconsistency: flushed ...") — the only refusal is prepareCommit's non-uniform consensus version check, taken
    exactly when the flushed rounds span two consensus versions -/
theorem commit_total (ct : Cidx → CType) (σ : State) (h : Reach ct σ) (off : Nat) (hoff : off ≤ σ.deltas.length) :
    ((off = 0 ∨ σ.versions[1]? = σ.versions[off]?) ∧
      ∃ σ', commit σ off = .ok σ' ∧ Reach ct σ' ∧ hist σ' = hist σ ∧ σ'.dbRound = σ.dbRound + off) ∨
    (off ≠ 0 ∧ σ.versions[1]? ≠ σ.versions[off]? ∧
      commit σ off = .error (.db "attempted to commit series of rounds with non-uniform consensus versions")) := by
  rcases commit_inv ct σ (reach_inv ct σ h).1 off hoff with ⟨hv, σ', hc, _, hh, _, _, hd⟩ | herr
  · exact Or.inl ⟨hv, σ', hc, Reach.commit σ σ' off h hoff hc, hh, hd⟩
  · exact Or.inr herr

/-- restarts: a reload keeps the history (and every reachable state answers from it) -/
theorem reload_hist (ct : Cidx → CType) (σ σ' : State) (h : Reach ct σ) (hr : reload σ = .ok σ') :
    hist σ' = hist σ ∧ Reach ct σ' :=
  ⟨(reload_inv ct σ (reach_inv ct σ h).1 σ' hr).2.2, Reach.reload σ σ' h hr⟩

/-! ### non-vacuity: a concrete well-formed history, flushed half-way, answers from the history -/

namespace Example

def ct : Cidx → CType := fun c => if c ≤ 5 then .asset else .app

def gen : List (Addr × AcctData) := [(1, { bal := 3 })]

/-- round 1: account 1 creates asset 2 and a box -/
def d1 : Delta :=
  { accts := [(1, { bal := 5, ta := 1, tap := 1 })], res := [⟨1, 2, .asset, .val 7, .val 3⟩],
    kvs := [⟨[65], some [1, 2], none⟩], creat := [⟨2, .asset, true, 1⟩] }

/-- round 2: the box is deleted, the holding changes -/
def d2 : Delta :=
  { accts := [(1, { bal := 4, ta := 1, tap := 1 })], res := [⟨1, 2, .asset, .val 7, .val 9⟩], kvs := [⟨[65], none, some [1, 2]⟩] }

theorem wf1 : HistWF ct { gen := gen, blocks := [d1] } where
  genNodup := by decide
  deltas := by
    intro d hd; simp at hd; subst hd
    exact ⟨by decide, by decide, by decide, by decide, by intro r hr; simp [d1] at hr; subst hr; rfl,
           by intro m hm; simp [d1] at hm; subst hm; rfl⟩
  kvOld := by
    intro i d hi m hm
    match i, hi with
    | 0, hi => simp at hi; subst hi; simp [d1] at hm; subst hm; rfl
    | n + 1, hi => simp at hi
  resFull := by
    intro i d hi r hr
    match i, hi with
    | 0, hi => simp at hi; subst hi; simp [d1] at hr; subst hr; exact ⟨by simp, by simp⟩
    | n + 1, hi => simp at hi
  creatFresh := by
    intro i d hi m hm _
    match i, hi with
    | 0, hi => simp at hi; subst hi; rfl
    | n + 1, hi => simp at hi

theorem wf2 : HistWF ct { gen := gen, blocks := [d1, d2] } where
  genNodup := by decide
  deltas := by
    intro d hd; simp at hd
    rcases hd with hd | hd <;> subst hd
    · exact ⟨by decide, by decide, by decide, by decide, by intro r hr; simp [d1] at hr; subst hr; rfl,
             by intro m hm; simp [d1] at hm; subst hm; rfl⟩
    · exact ⟨by decide, by decide, by decide, by decide, by intro r hr; simp [d2] at hr; subst hr; rfl,
             by intro m hm; simp [d2] at hm⟩
  kvOld := by
    intro i d hi m hm
    match i, hi with
    | 0, hi => simp at hi; subst hi; simp [d1] at hm; subst hm; rfl
    | 1, hi => simp at hi; subst hi; simp [d2] at hm; subst hm; rfl
    | n + 2, hi => simp at hi
  resFull := by
    intro i d hi r hr
    match i, hi with
    | 0, hi => simp at hi; subst hi; simp [d1] at hr; subst hr; exact ⟨by simp, by simp⟩
    | 1, hi => simp at hi; subst hi; simp [d2] at hr; subst hr; exact ⟨by simp, by simp⟩
    | n + 2, hi => simp at hi
  creatFresh := by
    intro i d hi m hm _
    match i, hi with
    | 0, hi => simp at hi; subst hi; rfl
    | 1, hi => simp at hi; subst hi; simp [d2] at hm
    | n + 2, hi => simp at hi

def σ2 : State := newBlock (newBlock (init {} gen) d1) d2

theorem reach2 : Reach ct σ2 :=
  Reach.newBlock _ d2 (Reach.newBlock _ d1 (Reach.init {} gen (by decide)) wf1) wf2

/-- the hypotheses of the theorems are met by a state with one round flushed and one in memory, and the answers are the
    history's: at round 1 the box exists, at round 2 it is deleted; the holding is 3 then 9 -/
example : ∃ σ3, commit σ2 1 = .ok σ3 ∧ Reach ct σ3 ∧ σ3.dbRound = 1 ∧ σ3.latest = 2 ∧
    lookup σ3 1 (.kv [65]) = .ok (.kv (some [1, 2])) ∧ lookup σ3 2 (.kv [65]) = .ok (.kv none) ∧
    lookup σ3 1 (.res 1 2 .asset) = .ok (.res ⟨some 7, some 3⟩) ∧ lookup σ3 2 (.res 1 2 .asset) = .ok (.res ⟨some 7, some 9⟩) ∧
    lookup σ3 0 (.acct 1) = .error .beforeDb := by
  rcases commit_total ct σ2 reach2 1 (by decide) with ⟨_, σ3, hc, hr, hh, hd⟩ | ⟨_, hv, _⟩
  · have hd1 : σ3.dbRound = 1 := by rw [hd]; rfl
    have hl : σ3.latest = 2 := by rw [reach_latest ct σ3 hr, hh]; rfl
    refine ⟨σ3, hc, hr, hd1, hl, ?_, ?_, ?_, ?_, ?_⟩
    · rw [lookup_refines ct σ3 hr 1 (.kv [65]) trivial (by omega) (by omega), hh]; rfl
    · rw [lookup_refines ct σ3 hr 2 (.kv [65]) trivial (by omega) (by omega), hh]; rfl
    · rw [lookup_refines ct σ3 hr 1 (.res 1 2 .asset) rfl (by omega) (by omega), hh]; rfl
    · rw [lookup_refines ct σ3 hr 2 (.res 1 2 .asset) rfl (by omega) (by omega), hh]; rfl
    · exact (lookup_out_of_range σ3 0 _).1 (by omega)
  · exact absurd rfl hv

end Example

end AlgoVerif.Props.C08
