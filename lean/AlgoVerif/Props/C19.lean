/-
C19 — Transaction groups apply atomically.

All theorems are about `Model.LedgerCore` (a line-for-line model of ledger/eval/eval.go:TransactionGroup / transaction /
applyTransaction and ledger/eval/cow.go:child / commitToParent / lookups; the real evaluator is tied to it on every run by the
LedgerCore correspondence harness) and quantify over ALL parameters, contexts (stacks of parent layers over a base), evaluator
states and groups of the modelled transaction kinds (payment, keyreg, asset config / transfer / freeze).

The model is functional: every operation takes the parents as a read-only context (`Ctx`) and returns a new innermost layer,
so non-leakage into the parent is manifest; what needs proof is that the layered implementation strategy is sound:
a lookup through child and parents equals the lookup in the merged layer (`layers_lookup`, `commitToParent_merge`), for which the
child must be well-formed (no duplicate keys: built by Upsert) and coherent (its `AssetResourceRecord`s say "absent" only where
the parents show nothing — the reason `putAssetHolding` copies the sibling params it finds), both of which every group's child
is (`group_commit`).  The block-space accounting (`blockTxBytes`, `ErrNoSpace`) is part of the evaluator state (member sizes are inputs).
Not modelled: the `corruptedState` guard, Go map aliasing / pooled child cows (visible to the tie only).
-/
import AlgoVerif.Lemmas.LedgerCoreGroup
namespace Props.C19
open AlgoVerif.Model.LedgerCore AlgoVerif.Lemmas.LedgerCore

/-- what the harness does with a group: a failing group is dropped -/
def tryGroup (P : Params) (x : Ctx) (s : EvalState) (g : List Txn) : EvalState :=
  match evalGroup P x s g with
  | .ok s' => s'
  | .error _ => s

/-- `group_atomic`: if any member fails (or the group is malformed / underpaid / oversized) the evaluator state — top-level
layer, hence every lookup, the txn counter, the fees collected — and the payset are exactly as before, and the rest of the
block is evaluated from that state. -/
theorem group_atomic (P : Params) (x : Ctx) (s : EvalState) (g : List Txn) (e : GErr)
    (h : evalGroup P x s g = .error e) :
    tryGroup P x s g = s ∧ ∀ gs, evalBlock P x s (g :: gs) = evalBlock P x s gs := by
  refine ⟨by simp [tryGroup, h], fun gs => ?_⟩
  show (match evalGroup P x s g with | .ok s' => evalBlock P x s' gs | .error _ => evalBlock P x s gs) = _
  rw [h]

/-- `failed_group_keeps_space`: a rejected group — in particular one rejected with `ErrNoSpace` — charges nothing to the block:
the evaluator's `blockTxBytes` is as before, so the next group sees the same remaining space. -/
theorem failed_group_keeps_space (P : Params) (x : Ctx) (s : EvalState) (g : List Txn) (e : GErr)
    (h : evalGroup P x s g = .error e) : (tryGroup P x s g).txBytes = s.txBytes := by
  simp [tryGroup, h]

/-- an accepted group is charged exactly the encoded sizes of its members, and it fitted -/
theorem accepted_group_space (P : Params) (x : Ctx) (s s' : EvalState) (g : List Txn)
    (h : evalGroup P x s g = .ok s') : s'.txBytes = s.txBytes + groupBytes g := by
  cases g with
  | nil => cases h; simp [groupBytes]
  | cons t r => obtain ⟨child, _, rfl⟩ := evalGroup_ok (by simp) h; rfl

/-- a failure is detected inside the child: nothing of the group's partial effects exists outside `evalGroupChild` -/
theorem group_error_in_child (P : Params) (x : Ctx) (s : EvalState) (g : List Txn) (e : GErr)
    (h : evalGroup P x s g = .error e) : evalGroupChild P x s.top s.txBytes g = .error e := by
  unfold evalGroup at h
  split at h
  · cases h
  · split at h
    · rename_i e' he; cases h; exact he
    · cases h

/-- `group_commit`: an accepted group extends the payset by exactly its members and replaces the top layer by the commit of the
group's child, whose views (accounts, asset params, holdings, creators, counter, seen tx ids) are exactly those seen through the
child at the end of the group. -/
theorem group_commit (P : Params) (x : Ctx) (s s' : EvalState) (g : List Txn) (hg : g ≠ [])
    (h : evalGroup P x s g = .ok s') :
    ∃ child, evalGroupChild P x s.top s.txBytes g = .ok child ∧
      s'.payset = s.payset ++ g ∧ s'.txBytes = s.txBytes + groupBytes g ∧ s'.top = commitToParent child s.top ∧
      (∀ a, acctOf x s'.top a = acctOf (childCtx x s.top) child a) ∧
      (∀ k, paramsOf x s'.top k = paramsOf (childCtx x s.top) child k) ∧
      (∀ k, holdingOf x s'.top k = holdingOf (childCtx x s.top) child k) ∧
      (∀ i, creatorOf x s'.top i = creatorOf (childCtx x s.top) child i) ∧
      counterOf x s'.top = counterOf (childCtx x s.top) child ∧
      (∀ id, seenTx x s'.top id = seenTx (childCtx x s.top) child id) := by
  obtain ⟨child, hc, rfl⟩ := evalGroup_ok hg h
  have hw := evalGroupChild_wf hc
  have hco := evalGroupChild_coherent hc
  exact ⟨child, hc, rfl, rfl, rfl, acctOf_commit x child s.top hw, paramsOf_commit x child s.top hw hco,
    holdingOf_commit x child s.top hw hco, creatorOf_commit x child s.top hw,
    counter_commit child s.top x.parents x.base, seenTx_commit child s.top x.parents x.base⟩

/-- the empty group is accepted and changes nothing -/
theorem group_empty (P : Params) (x : Ctx) (s : EvalState) : evalGroup P x s [] = .ok s := rfl

/-- `commitToParent_merge`: after `MergeAccounts` a key maps to the child's entry when the child has one, else to the parent's
(accounts, asset resource records, creatables); the child's tx ids follow the parent's (Intra re-indexing); txn count and fees add. -/
theorem commitToParent_merge (c p : Layer) (hw : Layer.WF c) :
    (∀ a, alookup a (commitToParent c p).accts = (alookup a c.accts).or (alookup a p.accts)) ∧
    (∀ k, alookup k (commitToParent c p).res = (alookup k c.res).or (alookup k p.res)) ∧
    (∀ i, alookup i (commitToParent c p).creat = (alookup i c.creat).or (alookup i p.creat)) ∧
    (commitToParent c p).txids = p.txids ++ c.txids ∧
    (commitToParent c p).txnCount = p.txnCount + c.txnCount ∧
    (commitToParent c p).fees = (p.fees + c.fees) % M64 :=
  ⟨fun a => alookup_mergeInto c.accts p.accts hw.accts a, fun k => alookup_mergeInto c.res p.res hw.res k,
   fun i => alookup_mergeInto c.creat p.creat hw.creat i, rfl, rfl, rfl⟩

/-- one level of `layers_lookup`: every lookup through child and parent = the lookup in the merged layer -/
theorem layers_lookup_one (c p : Layer) (ps : List Layer) (b : Base) (hw : Layer.WF c) (hc : Coherent ⟨p :: ps, b⟩ c) :
    (∀ a, lookupAcct (commitToParent c p :: ps) b a = lookupAcct (c :: p :: ps) b a) ∧
    (∀ k, lookupParamsD (commitToParent c p :: ps) b k = lookupParamsD (c :: p :: ps) b k) ∧
    (∀ k, lookupHoldingD (commitToParent c p :: ps) b k = lookupHoldingD (c :: p :: ps) b k) ∧
    (∀ i, lookupCreator (commitToParent c p :: ps) b i = lookupCreator (c :: p :: ps) b i) :=
  ⟨lookupAcct_commit c p ps b hw, lookupParamsD_commit c p ps b hw hc, lookupHoldingD_commit c p ps b hw hc,
   lookupCreator_commit c p ps b hw⟩

/-- `layers_lookup`: for a stack of any depth, collapsing all layers into one (commit child into parent, repeatedly) does not
change any lookup.  Induction over the layers. -/
theorem layers_lookup (b : Base) : ∀ (ps : List Layer) (c : Layer), StackOK b (c :: ps) →
    (∀ a, lookupAcct [collapse c ps] b a = lookupAcct (c :: ps) b a) ∧
    (∀ k, lookupParamsD [collapse c ps] b k = lookupParamsD (c :: ps) b k) ∧
    (∀ k, lookupHoldingD [collapse c ps] b k = lookupHoldingD (c :: ps) b k) ∧
    (∀ i, lookupCreator [collapse c ps] b i = lookupCreator (c :: ps) b i) := by
  intro ps
  induction ps with
  | nil => intro c _; exact ⟨fun _ => rfl, fun _ => rfl, fun _ => rfl, fun _ => rfl⟩
  | cons p r ih =>
    intro c ⟨hw, hc, hwp, hcp, hr⟩
    have hok : StackOK b (commitToParent c p :: r) := ⟨wf_commit hwp, coherent_commit hw hc hcp, hr⟩
    obtain ⟨i1, i2, i3, i4⟩ := ih (commitToParent c p) hok
    obtain ⟨o1, o2, o3, o4⟩ := layers_lookup_one c p r b hw hc
    exact ⟨fun a => (i1 a).trans (o1 a), fun k => (i2 k).trans (o2 k), fun k => (i3 k).trans (o3 k),
      fun i => (i4 i).trans (o4 i)⟩

/-- the hypotheses of `layers_lookup` hold for what the evaluator builds: the child of every group, at every point of its
evaluation, is well-formed and coherent with the layers below it -/
theorem child_stack_ok (P : Params) (x : Ctx) (top child : Layer) (used : Nat) (g : List Txn)
    (h : evalGroupChild P x top used g = .ok child) (hx : StackOK x.base (top :: x.parents)) :
    StackOK x.base (child :: top :: x.parents) :=
  ⟨evalGroupChild_wf h, evalGroupChild_coherent h, hx⟩

/-- and the committed top layer is again well-formed and coherent (so the invariant holds along the whole block) -/
theorem top_stack_ok (P : Params) (x : Ctx) (s s' : EvalState) (g : List Txn)
    (h : evalGroup P x s g = .ok s') (hx : StackOK x.base (s.top :: x.parents)) : StackOK x.base (s'.top :: x.parents) := by
  cases g with
  | nil => cases h; exact hx
  | cons t r =>
    obtain ⟨child, hc, rfl⟩ := evalGroup_ok (by simp) h
    obtain ⟨hw, hco, hr⟩ := hx
    exact ⟨wf_commit hw, coherent_commit (evalGroupChild_wf hc) (evalGroupChild_coherent hc) hco, hr⟩

/-! ### non-vacuity: a concrete failing group (second member overspends after the first was applied in the child) and a
concrete accepted one, on a base with two funded accounts -/

def exBase : Base := { accts := [(1, { bal := 5000000 }), (2, { bal := 300000 }), (7, { status := .notPart, bal := 100000 })] }
def exPay (snd rcv amt note : Nat) : Txn :=
  { kind := .pay, sender := snd, fee := 1000, fv := 1, lv := 10, note := note, grp := 1, receiver := rcv, amount := amt }

def failsWith (r : Except GErr EvalState) (e : GErr) : Bool :=
  match r with
  | .error e' => decide (e' = e)
  | .ok _ => false
def okWith (r : Except GErr EvalState) (f : EvalState → Bool) : Bool :=
  match r with
  | .error _ => false
  | .ok s => f s

example : failsWith (evalGroup {} ⟨[], exBase⟩ {} [exPay 1 2 1000000 1, exPay 2 1 9000000 2]) (.overspend, some 1) = true := by decide
example : okWith (evalGroup {} ⟨[], exBase⟩ {} [exPay 1 2 1000000 1, exPay 2 1 1100000 2])
    (fun s => s.payset.length == 2 && (acctOf ⟨[], exBase⟩ s.top 2).bal == 199000) = true := by decide
/-- block space: with 250 bytes left the second member (120 + 131 bytes) does not fit — `ErrNoSpace`, nothing charged; with 251
the group is accepted and charged exactly 251 -/
example : failsWith (evalGroup { maxBytes := 250 } ⟨[], exBase⟩ {}
    [{ exPay 1 2 1000000 1 with size := 120 }, { exPay 2 1 1100000 2 with size := 131 }]) (.noSpace, none) = true := by decide
example : okWith (evalGroup { maxBytes := 251 } ⟨[], exBase⟩ {}
    [{ exPay 1 2 1000000 1 with size := 120 }, { exPay 2 1 1100000 2 with size := 131 }]) (fun s => s.txBytes == 251) = true := by decide
example : StackOK exBase [({} : Layer)] := ⟨wf_empty, coherent_empty _, trivial⟩

/-- a non-trivial instance of the hypotheses of `layers_lookup`: the child of a concrete accepted group over the top layer -/
example : ∃ child, evalGroupChild {} ⟨[], exBase⟩ {} 0 [exPay 1 2 1000000 1, exPay 2 1 1100000 2] = .ok child ∧
    StackOK exBase [child, {}] ∧ child.accts.length = 3 := by
  cases h : evalGroupChild {} ⟨[], exBase⟩ {} 0 [exPay 1 2 1000000 1, exPay 2 1 1100000 2] with
  | error e =>
    have : (evalGroupChild {} ⟨[], exBase⟩ {} 0 [exPay 1 2 1000000 1, exPay 2 1 1100000 2]).isOk = true := by decide
    rw [h] at this; cases this
  | ok child =>
    refine ⟨child, rfl, child_stack_ok {} ⟨[], exBase⟩ {} child 0 _ h ⟨wf_empty, coherent_empty _, trivial⟩, ?_⟩
    have : (match evalGroupChild {} ⟨[], exBase⟩ {} 0 [exPay 1 2 1000000 1, exPay 2 1 1100000 2] with
      | .ok c => c.accts.length | .error _ => 0) = 3 := by decide
    rw [h] at this; exact this

end Props.C19
