/-
C11 — A committed transaction cannot be committed again while valid; an active lease excludes other transactions; both
hold across ledger restarts.

Model: `Model.TxTail` (txTail + the cow layers' duplicate checks + the persisted tail / reloadLedger), tied to the real
code on every run by the correspondence harness `harness/ledger/zz_verif_c11_test.go` (driver `c11`).
Histories: `Lemmas.TxTail.Reach` — any interleaving of
  * a block whose transaction groups the model evaluator accepted one after the other,
  * `committedUpTo(rnd)` notifications of the block queue (increasing rounds),
  * tracker flushes for any written round,
  * restarts (`reloadLedger`: loadFromDisk from the persisted tail, replay of the unflushed blocks, the flush that ends it).
The proofs go through the tail invariant `Lemmas.TxTail.Inv` ("the tail contains every txid / lease of the last MaxTxnLife
rounds, and the persisted tail reaches back MaxTxnLife + DeeperBlockHeaderHistory rounds") and through
`checkDup_history`: under the invariant `txTail.checkDup` answers exactly what the block history says.

Hypotheses, all explicit:
  * `P.strictGuard = false`: the loop guard of `txTail.loadFromDisk` loads a single persisted round too (the tree after
    the C11 `fix:` commit; `reload_old_guard_recommits` shows what the old guard allowed);
  * windows ≤ MaxTxnLife and "alive in the block's round" are NOT assumed: they are established for every block the
    model evaluator accepts (`WellFormed` / `Alive`, modelled) and carried by the invariant;
  * `lease_exclusive*` need `SupportTransactionLeases` and `FixTransactionLeases` (all consensus versions since v23);
  * the `_txid` variant needs "equal txids ⇒ equal lastValid" on the transactions of the history (a txid is a hash of
    the whole transaction).
-/
import AlgoVerif.Lemmas.TxTail
namespace Props.C11
open Model.TxTail Lemmas.TxTail

/-! ## the answers of duplicate detection are a function of the block history -/

/-- For every reachable ledger state (any flush state, before or after any number of restarts) and every transaction
    that is well formed and alive in the next round, `Ledger.CheckDup` answers what the block history says. -/
theorem checkDup_history {P : Params} (hg : P.strictGuard = false) {σ : Ledger} (h : Reach P σ) (t : Tx)
    (ht : TxOK P (σ.latest + 1) t) :
    σ.checkDup P (σ.latest + 1) t = specDup P σ.latest σ.blocks (σ.latest + 1) t :=
  checkDup_spec (reach_inv hg h).1 t ht

/-- `tail_reload`: the retained tail is sufficient — a restart does not change any answer whose window lies within
    MaxTxnLife. -/
theorem tail_reload {P : Params} (hg : P.strictGuard = false) {σ : Ledger} (h : Reach P σ) (t : Tx)
    (ht : TxOK P (σ.latest + 1) t) :
    (σ.reload P).checkDup P ((σ.reload P).latest + 1) t = σ.checkDup P (σ.latest + 1) t := by
  have hr : Reach P (σ.reload P) := Reach.step h (Step.reload σ)
  have hb := reload_blocks P σ
  rw [checkDup_history hg h t ht, checkDup_history hg hr t (by rw [hb.2]; exact ht), hb.1, hb.2]

/-- more generally: two reachable states with the same blocks answer alike, whatever was flushed, pruned or reloaded -/
theorem checkDup_flush_independent {P : Params} (hg : P.strictGuard = false) {σ σ' : Ledger} (h : Reach P σ)
    (h' : Reach P σ') (hb : σ'.blocks = σ.blocks) (hl : σ'.latest = σ.latest) (t : Tx) (ht : TxOK P (σ.latest + 1) t) :
    σ'.checkDup P (σ'.latest + 1) t = σ.checkDup P (σ.latest + 1) t := by
  rw [checkDup_history hg h t ht, checkDup_history hg h' t (by rw [hl]; exact ht), hb, hl]

/-! ## no recommit -/

/-- `no_recommit`: in every history, a transaction of block `r` is in no later block `r'` up to its `lastValid`. -/
theorem no_recommit {P : Params} (hg : P.strictGuard = false) {σ : Ledger} (h : Reach P σ) {r r' : Nat} {t : Tx}
    (hr : r < r') (hr' : r' ≤ σ.latest) (ht : t ∈ σ.blocks r) (hlv : r' ≤ t.lv) : t ∉ σ.blocks r' :=
  fun ht' => (reach_inv hg h).2.once r r' t hr hr' ht hlv t ht' ⟨rfl, rfl⟩

/-- the same by txid, for histories in which a txid determines the transaction's `lastValid` (hash) -/
theorem no_recommit_txid {P : Params} (hg : P.strictGuard = false) {σ : Ledger} (h : Reach P σ)
    (hid : ∀ r r' a b, a ∈ σ.blocks r → b ∈ σ.blocks r' → a.txid = b.txid → a.lv = b.lv)
    {r r' : Nat} {t : Tx} (hr : r < r') (hr' : r' ≤ σ.latest) (ht : t ∈ σ.blocks r) (hlv : r' ≤ t.lv) :
    ∀ t' ∈ σ.blocks r', t'.txid ≠ t.txid :=
  fun t' ht' e => (reach_inv hg h).2.once r r' t hr hr' ht hlv t' ht' ⟨e, hid r' r t' t ht' ht e⟩

/-- and a block never contains a txid twice -/
theorem block_txids_distinct {P : Params} (hg : P.strictGuard = false) {σ : Ledger} (h : Reach P σ) (r : Nat) :
    (σ.blocks r).Pairwise (fun a b => a.txid ≠ b.txid) :=
  (reach_inv hg h).2.ids r

/-- forward form: whatever the evaluator of the next round holds (block cow `blk`, group cow `child`), a transaction
    committed earlier and still valid is rejected — by the tail, or earlier by a cow. -/
theorem committed_rejected {P : Params} (hg : P.strictGuard = false) {σ : Ledger} (h : Reach P σ) {r : Nat} {t : Tx}
    (hr : r ≤ σ.latest) (ht : t ∈ σ.blocks r) (hlv : σ.latest + 1 ≤ t.lv) (blk child : Layer) :
    ∀ child', evalTx P σ.tail (σ.latest + 1) blk child t ≠ .ok child' := by
  intro child' he
  obtain ⟨hI, _⟩ := reach_inv hg h
  have hok := hI.blocks_ok r t ht
  have htx : TxOK P (σ.latest + 1) t := ⟨by have := hok.1; omega, hlv, hok.2.2.1, hok.2.2.2⟩
  unfold evalTx at he
  cases ha : alive (σ.latest + 1) t with
  | some x => rw [ha] at he; cases he
  | none =>
    rw [ha] at he
    cases hc : cowCheckDup P (σ.latest + 1) (baseCheck P σ.tail (σ.latest + 1)) [child, blk] t with
    | ok =>
      have hb := (cow2_ok hc).2.2
      have hs := checkDup_spec hI t htx
      have hb' : σ.checkDup P (σ.latest + 1) t = .ok := hb
      rw [hs] at hb'
      unfold specDup at hb'
      split at hb'
      · cases hb'
      · have : (List.range (σ.latest + 1)).any (fun r => (σ.blocks r).any (fun x => decide (x.lv = t.lv ∧ x.txid = t.txid))) = true := by
          rw [List.any_eq_true]
          refine ⟨r, List.mem_range.mpr (by omega), ?_⟩
          rw [List.any_eq_true]; exact ⟨t, ht, by simp⟩
        rw [if_pos this] at hb'; cases hb'
    | txdup b => rw [hc] at he; cases he
    | lease b => rw [hc] at he; cases he
    | deadEarly => rw [hc] at he; cases he
    | deadLate => rw [hc] at he; cases he
    | malformed => rw [hc] at he; cases he
    | missing => rw [hc] at he; cases he

/-! ## leases -/

/-- `lease_exclusive`: a lease (sender, l ≠ 0) taken by a transaction of round `r` is unavailable to every transaction
    of the rounds `r+1 .. lastValid`. -/
theorem lease_exclusive {P : Params} (hg : P.strictGuard = false) (hfix : P.fixLeases = true) (hsup : P.supLeases = true)
    {σ : Ledger} (h : Reach P σ) {r r' : Nat} {t : Tx} (hr : r < r') (hr' : r' ≤ σ.latest) (ht : t ∈ σ.blocks r)
    (hl : t.lease ≠ 0) (hlv : r' ≤ t.lv) : ∀ t' ∈ σ.blocks r', t'.key ≠ t.key :=
  (reach_inv hg h).2.lease hfix hsup r r' t hr hr' ht hl hlv

/-- … and to every other transaction of its own block -/
theorem lease_exclusive_block {P : Params} (hg : P.strictGuard = false) {σ : Ledger} (h : Reach P σ) {r : Nat} {t t' : Tx}
    (ht : t ∈ σ.blocks r) (ht' : t' ∈ σ.blocks r) (hne : t' ≠ t) (hl : t.lease ≠ 0) : t'.key ≠ t.key := by
  intro hk
  have hl' : t'.lease ≠ 0 := by
    have : t'.lease = t.lease := congrArg Prod.snd hk
    rw [this]; exact hl
  exact pairwise_mem_ne (fun a b h h1 h2 e => h h2 h1 e.symm) ((reach_inv hg h).2.keys r) ht' ht hne hl' hl hk

/-- exactly until expiry: once every holder of the lease has expired (and the txid is new), the ledger lets a
    transaction with that lease through. -/
theorem lease_free_after_expiry {P : Params} (hg : P.strictGuard = false) {σ : Ledger} (h : Reach P σ) (t : Tx)
    (ht : TxOK P (σ.latest + 1) t)
    (hfree : ∀ r, r ≤ σ.latest → ∀ x ∈ σ.blocks r, x.lease ≠ 0 → x.key = t.key → x.lv < σ.latest + 1)
    (hnew : ∀ r, r ≤ σ.latest → ∀ x ∈ σ.blocks r, ¬ (x.lv = t.lv ∧ x.txid = t.txid)) :
    σ.checkDup P (σ.latest + 1) t = .ok := by
  obtain ⟨hI, _⟩ := reach_inv hg h
  rw [checkDup_spec hI t ht]
  unfold specDup
  have h1 : (leaseWindow P (σ.latest + 1) t.fv t.lv).any (histLeaseAt σ.blocks (σ.latest + 1) t.key) = false := by
    rw [Bool.eq_false_iff]
    intro hc
    rw [List.any_eq_true] at hc
    obtain ⟨r, _, hr⟩ := hc
    unfold histLeaseAt at hr
    cases hle : leasesOf (σ.blocks r) t.key with
    | none => rw [hle] at hr; cases hr
    | some e =>
      rw [hle] at hr
      simp only [decide_eq_true_eq] at hr
      obtain ⟨x, hx, hxl, hxk, hxe⟩ := leasesOf_some _ _ _ hle
      by_cases hrl : r ≤ σ.latest
      · have := hfree r hrl x hx hxl hxk; omega
      · rw [hI.blocks_out r (Or.inr (by omega))] at hx; cases hx
  have h2 : (List.range (σ.latest + 1)).any (fun r => (σ.blocks r).any (fun x => decide (x.lv = t.lv ∧ x.txid = t.txid))) = false := by
    rw [Bool.eq_false_iff]
    intro hc
    rw [List.any_eq_true] at hc
    obtain ⟨r, hr, hx⟩ := hc
    rw [List.any_eq_true] at hx
    obtain ⟨x, hx, hd⟩ := hx
    simp only [decide_eq_true_eq] at hd
    exact hnew r (by have := List.mem_range.mp hr; omega) x hx hd
  rw [h1, h2]
  simp

/-! ## the in-block duplicate check (cow layers) -/

/-- `in_block_dup_rejected`: a transaction whose txid is already held by the group's cow or by the block's cow (its
    parent) is never let through: the child consults its parent. -/
theorem in_block_dup_rejected (P : Params) (tail : Tail) (rnd : Nat) (blk child : Layer) (t : Tx)
    (h : ∃ x ∈ child.txs ++ blk.txs, x.txid = t.txid) (ha : alive rnd t = none) :
    evalTx P tail rnd blk child t = .error (.txdup true) ∨ evalTx P tail rnd blk child t = .error (.lease true) := by
  unfold evalTx
  rw [ha]
  rcases cow2_in_block (P := P) (rnd := rnd) (base := baseCheck P tail rnd) h with hc | hc <;> rw [hc]
  · exact Or.inl rfl
  · exact Or.inr rfl

/-- in its own layer the answer is the transaction-in-ledger error -/
theorem in_layer_dup_rejected (P : Params) (tail : Tail) (rnd : Nat) (blk child : Layer) (t : Tx)
    (h : ∃ x ∈ child.txs, x.txid = t.txid) (ha : alive rnd t = none) :
    evalTx P tail rnd blk child t = .error (.txdup true) := by
  unfold evalTx
  rw [ha]
  simp only [cowCheckDup]
  rw [layerCheck_txdup h]

/-- a group is only accepted if its txids are new to the block and pairwise distinct -/
theorem group_accept_distinct {P : Params} {tail : Tail} {rnd : Nat} {blk blk' : Layer} {g : List Tx}
    (hL : LayerOK P (baseCheck P tail rnd) rnd blk) (h : txGroup P tail rnd blk g = .ok blk') :
    (blk.txs ++ g).Pairwise (fun a b => a.txid ≠ b.txid) := by
  obtain ⟨hL', e⟩ := txGroup_ok hL h
  rw [← e]; exact hL'.txs.ids

/-! ## non-vacuity: a concrete history with overlapping windows, a lease, a flush and a restart -/

def P0 : Params := { maxLife := 4, fixLeases := true, supLeases := true, deeper := 1, lookback := 2, strictGuard := false }
def tA : Tx := { txid := 1, fv := 1, lv := 5, snd := 0, lease := 0 }
def tB : Tx := { txid := 2, fv := 1, lv := 5, snd := 1, lease := 3 }
def tC : Tx := { txid := 3, fv := 2, lv := 6, snd := 2, lease := 0 }
def tB' : Tx := { txid := 7, fv := 2, lv := 5, snd := 1, lease := 3 }      -- competes for tB's lease

/-- the evaluator's block for the given groups on `σ` (empty when a group is rejected) -/
def blockOf (P : Params) (σ : Ledger) (groups : List (List Tx)) : Layer :=
  (evalBlock P σ.tail (σ.latest + 1) {} groups).getD {}

theorem reach_block {P : Params} {σ : Ledger} (h : Reach P σ) (groups : List (List Tx))
    (hs : (evalBlock P σ.tail (σ.latest + 1) {} groups).isSome = true) : Reach P (σ.addBlock (blockOf P σ groups)) := by
  unfold blockOf
  cases he : evalBlock P σ.tail (σ.latest + 1) {} groups with
  | none => rw [he] at hs; cases hs
  | some l => exact Reach.step h (Step.block σ groups l he)

def s1 : Ledger := (Ledger.init.addBlock (blockOf P0 Ledger.init [[tA], [tB]])).committedUpTo P0 1
def s2 : Ledger := (s1.addBlock (blockOf P0 s1 [])).committedUpTo P0 2
def s3 : Ledger := (s2.addBlock (blockOf P0 s2 [[tC]])).committedUpTo P0 3
def s4 : Ledger := ((s3.flush P0 3).reload P0)           -- flushed to DB round 1, then restarted

theorem reach_s4 : Reach P0 s4 := by
  have h1 : Reach P0 s1 :=
    Reach.step (reach_block Reach.init [[tA], [tB]] (by decide)) (Step.committed _ 1 (by decide) (by decide))
  have h2 : Reach P0 s2 := Reach.step (reach_block h1 [] (by decide)) (Step.committed _ 2 (by decide) (by decide))
  have h3 : Reach P0 s3 := Reach.step (reach_block h2 [[tC]] (by decide)) (Step.committed _ 3 (by decide) (by decide))
  exact Reach.step (Reach.step h3 (Step.flush _ 3 (by decide))) (Step.reload _)

/-- the hypotheses of `no_recommit` / `lease_exclusive` / `tail_reload` are met by a non-trivial history:
    tA, tB (leased) in block 1, tC in block 3, all still valid in round 4 after a flush to DB round 1 and a restart -/
example : Reach P0 s4 ∧ s4.latest = 3 ∧ s4.db.hi = 1 ∧ tA ∈ s4.blocks 1 ∧ tB ∈ s4.blocks 1 ∧ tC ∈ s4.blocks 3 ∧
    (1 < 3 ∧ 3 ≤ s4.latest ∧ 3 ≤ tA.lv) ∧ tB.lease ≠ 0 := by
  refine ⟨reach_s4, by decide, by decide, by decide, by decide, by decide, by decide, by decide⟩

example : tA ∉ s4.blocks 3 := no_recommit rfl reach_s4 (by decide) (by decide) (by decide : tA ∈ s4.blocks 1) (by decide)

example : TxOK P0 (s4.latest + 1) tA ∧ TxOK P0 (s4.latest + 1) tB' := by
  unfold TxOK; decide

/-- after the restart the real answers are still there: the committed transaction, and the competitor for the lease -/
example : s4.checkDup P0 4 tA = .txdup false ∧ s4.checkDup P0 4 tB' = .lease false ∧ s3.checkDup P0 4 tA = .txdup false := by
  decide

/-- `in_block_dup_rejected` instance: tA sits in the block's cow (the parent), the group's cow is empty -/
example : evalTx P0 Tail.empty 1 (({} : Layer).addTx tA) {} tA = .error (.txdup true) ∨
    evalTx P0 Tail.empty 1 (({} : Layer).addTx tA) {} tA = .error (.lease true) :=
  in_block_dup_rejected P0 Tail.empty 1 _ {} tA ⟨tA, by decide, rfl⟩ (by decide)

/-! ## the loop guard before the C11 fix -/

def P0old : Params := { P0 with strictGuard := true }
def o1 : Ledger := (Ledger.init.addBlock (blockOf P0old Ledger.init [[tA], [tB]])).committedUpTo P0old 1
def o2 : Ledger := (o1.addBlock (blockOf P0old o1 [])).committedUpTo P0old 2
def o3 : Ledger := (o2.addBlock (blockOf P0old o2 [])).committedUpTo P0old 3
def o4 : Ledger := ((o3.flush P0old 3).reload P0old)     -- exactly one persisted round (DB round 1), then a restart

/-- With the old guard (`dbRound > baseRound`) the single persisted round is not loaded: after the restart the
    transaction committed in round 1 (valid until 5) and the competitor for its neighbour's lease pass the ledger's check,
    and the evaluator accepts a block for round 4 that contains tA again. This is the defect the C11 `fix:` commit removed. -/
theorem reload_old_guard_recommits :
    o4.db.hi = 1 ∧ o4.db.lo = 1 ∧ tA ∈ o4.blocks 1 ∧ 4 ≤ tA.lv ∧
    o3.checkDup P0old 4 tA = .txdup false ∧ o4.checkDup P0old 4 tA = .ok ∧ o4.checkDup P0old 4 tB' = .ok ∧
    (evalBlock P0old o4.tail 4 {} [[tA], [tB']]).isSome = true := by
  decide

end Props.C11
