/-
C41 — decoding untrusted bytes is safe and bounded.

Model: `Model.BoundedDecoder` (`dec ty depth old bs`: what a msgp-generated `UnmarshalMsgWithState` does, every collection
read preceded by its allocbound check, with a log of consuming reads and allocation requests).
Premise tie: `all_sites_checked` — every collection-read site the extractor found in the msgp_gen.go files of the current
tree (Gen.MsgpSites) has that shape (`Model.MsgpSite.siteOK`).

  * `dec_total`            the number of consuming reads of ANY run is at most the input length + 1 (no fuel, no depth
                           assumption: each read of a successful prefix is paid for by a consumed byte);
  * `dec_consumes`         a successful decode consumed at least one byte (every header is ≥ 1 byte): the progress
                           argument that makes every loop of the generated code terminate;
  * `decode_depth_bounded` n nested calls into generated decoders need n levels of the depth budget (never refilled), so with the
                           root budget `maxDepth` (= the constant of protocol/codec.go, `depth_limit_tied`) no decode succeeds
                           deeper than 255 nested decoder calls (`depth_bomb_rejected`); the generated code keeps that shape iff
                           every nested call passes its own state `st` — the `call` sites of Gen.MsgpSites;
  * `dec_alloc_bounded`    every allocation the decoder REQUESTS — also on runs that fail later — is `okEv`: for a slice /
                           map `make(T, n)` the exact quantity is the header count n, and n ≤ the declared allocbound (without
                           a bound, `allocbound=-`: n ≤ 2·(2³²−1), what a 32-bit header doubled by map flattening can announce —
                           NOT related to the input length: this is why exemptions must stay off the network paths); for a
                           byte string / string the copy is n bytes with n ≤ the input still left and n ≤ the declared bound;
  * `dec_bounded`          a successful decode into a fresh object whose run never decoded a struct field twice (`NoDupFields`:
                           no ghost `.dup` in the log, i.e. the input names no field of any struct twice) yields an object in
                           which EVERY string, byte string, slice and map, at every path, is within its declared bound (`fits`);
                           `dup_field_exceeds_bound`: without `NoDupFields` the statement is false for maps, as in the real code
                           (KNOWN FINDING duplicate-map-field-accumulates);
  * error totality         `empty_rejected`, `oversized_slice_rejected`, `oversized_map_rejected`, `oversized_bytes_rejected`,
                           `oversized_str_rejected`, `wrong_type_rejected`, `unknown_key_rejected`, `depth_exhausted`,
                           `too_many_array_fields_rejected`: each malformed class yields an `Err` with nothing allocated by the
                           offending read; duplicate keys and trailing bytes are ACCEPTED by the code as written
                           (`duplicate_key_last_wins`, `trailing_bytes_left`) — stated as what the code does.
-/
import AlgoVerif.Model.BoundedDecoder
import AlgoVerif.Lemmas.BoundedDecoder
import AlgoVerif.Lemmas.BoundedDecoderFit
import AlgoVerif.Model.MsgpSite
import AlgoVerif.Gen.MsgpSitesOk
namespace AlgoVerif.Props.C41
open AlgoVerif.Msgpack AlgoVerif.BoundedDecoder AlgoVerif.MsgpSite

/-! ## tie F: the generated code has the shape the model assumes -/

/-- every collection-read site extracted from the msgp_gen.go files of the current tree has its dominating bound check,
needs none (nothing allocated / bounded by the input inside the runtime), or is a documented `allocbound=-` exemption that
no network / downloaded-file decode entry point reaches -/
theorem all_sites_checked : ∀ s ∈ Gen.MsgpSites.chunks.flatten, siteOK s = true := by
  intro s hs
  obtain ⟨c, hc, hsc⟩ := List.mem_flatten.mp hs
  exact List.all_eq_true.mp (Gen.MsgpSites.chunks_ok c hc) s hsc

def errOfDepth : Log × Except Err (Val × Bytes) → Bool
  | (_, .error .depth) => true
  | _ => false

/-! ## termination / progress -/

/-- any run reads at most `input length + 1` times, and a successful run pays every read with a consumed byte -/
theorem dec_total (ty : BTy) (d : Nat) (old : Val) (bs : Bytes) :
    reads (dec ty d old bs).1 ≤ bs.length + 1 ∧
    ∀ v r, (dec ty d old bs).2 = .ok (v, r) → r.length + reads (dec ty d old bs).1 ≤ bs.length := by
  have h := dec_inv ty d old bs
  obtain ⟨_, h2⟩ := h
  constructor
  · cases hx : (dec ty d old bs).2 with
    | error e => rw [hx] at h2; exact h2
    | ok vr => rcases vr with ⟨v, r⟩; rw [hx] at h2; simp only at h2; omega
  · intro v r hx; rw [hx] at h2; exact h2

/-- a successful decode consumed at least one byte -/
theorem dec_consumes (ty : BTy) (d : Nat) (old : Val) (bs : Bytes) (v : Val) (r : Bytes)
    (h : (dec ty d old bs).2 = .ok (v, r)) : r.length < bs.length := by
  have h1 := (dec_total ty d old bs).2 v r h
  have h2 := dec_pos ty d old bs v r h
  omega

/-- the hypothesis is met: `c3` decodes as the bool `true`, one byte consumed -/
example : ∃ v r, (BoundedDecoder.dec .bool 0 (.bool false) [0xc3, 0x01]).2 = .ok (v, r) ∧ r.length = 1 := ⟨_, _, rfl, rfl⟩

/-- nothing decodes from the empty input -/
theorem empty_rejected (ty : BTy) (d : Nat) (old : Val) : ∃ e, (dec ty d old []).2 = .error e := by
  cases h : (dec ty d old []).2 with
  | error e => exact ⟨e, rfl⟩
  | ok vr => rcases vr with ⟨v, r⟩; have := dec_consumes ty d old [] v r h; simp at this

/-! ## bounded recursion -/

/-- `n` nested calls into generated decoders around a type -/
def wrap : Nat → BTy → BTy
  | 0, t => t
  | n+1, t => .named (wrap n t)

/-- every call into a nested generated decoder costs one level of the depth budget and the budget is never refilled (the
model hands `d - 1` down, as the generated code hands its decremented `st` down — tie: every `call` site of Gen.MsgpSites
`passes`): a decode that gets through `n` nested calls had at least `n` levels.  With the root budget `maxDepth` = 255 no
successful decode is nested deeper than 255 decoder calls, whatever the input -/
theorem decode_depth_bounded : ∀ (n : Nat) (t : BTy) (d : Nat) (old : Val) (bs : Bytes) (v : Val) (r : Bytes),
    (BoundedDecoder.dec (wrap n t) d old bs).2 = .ok (v, r) → n ≤ d
  | 0, _, _, _, _, _, _, _ => Nat.zero_le _
  | n+1, t, 0, old, bs, v, r, h => by
    simp only [wrap] at h
    unfold BoundedDecoder.dec at h
    simp [P.fail] at h
  | n+1, t, d+1, old, bs, v, r, h => by
    simp only [wrap] at h
    unfold BoundedDecoder.dec at h
    have := decode_depth_bounded n t d old bs v r h
    omega

/-- the hypothesis is met: two nested calls around a bool decode with two levels (and fail with one) -/
example : (∃ v r, (BoundedDecoder.dec (wrap 2 .bool) 2 (.bool false) [0xc3]).2 = .ok (v, r)) ∧
    errOfDepth (BoundedDecoder.dec (wrap 2 .bool) 1 (.bool false) [0xc3]) = true := ⟨⟨_, _, rfl⟩, rfl⟩

/-- a root decode nested deeper than the limit fails with `ErrMaxDepthExceeded` before it reads the inner value -/
theorem depth_bomb_rejected (t : BTy) (old : Val) (bs : Bytes) (n : Nat) (h : maxDepth < n) :
    ∀ v r, (BoundedDecoder.dec (wrap n t) maxDepth old bs).2 ≠ .ok (v, r) := by
  intro v r hok
  have := decode_depth_bounded n t maxDepth old bs v r hok
  omega

/-- the limit of the model is the constant the current tree sets (`protocol/codec.go`: `msgp.DefaultUnmarshalState.AllowableDepth
= maxMsgpDecodeDepth`, re-extracted on every run into Gen.MsgpSites.maxDepth) -/
theorem depth_limit_tied : Gen.MsgpSites.maxDepth = maxDepth := by decide

/-! ## allocation -/

/-- every allocation request of any run (successful or not) meets `okEv` and was made with no more input left than the
decode started with -/
theorem dec_alloc_bounded (ty : BTy) (d : Nat) (old : Val) (bs : Bytes) :
    ∀ e ∈ (dec ty d old bs).1, okEv e = true ∧
      (∀ k ob n avail, e = .alloc k ob n avail → avail ≤ bs.length) := by
  intro e he
  have h := (dec_inv ty d old bs).1 e he
  cases e with
  | read => exact ⟨rfl, by intro k ob n avail hh; cases hh⟩
  | dup => exact ⟨rfl, by intro k ob n avail hh; cases hh⟩
  | alloc k ob n avail =>
    refine ⟨h.1, ?_⟩
    intro k' ob' n' avail' hh
    cases hh
    exact h.2

/-- what `okEv` says, spelled out: a slice / map request never exceeds the declared bound … -/
theorem okEv_collection {k : AKind} {b n avail : Nat} (hk : k ≠ .bytes) (h : okEv (.alloc k (some b) n avail) = true) : n ≤ b := by
  cases k with
  | bytes => exact absurd rfl hk
  | slice => simpa [okEv] using h
  | map => simpa [okEv] using h

example : okEv (.alloc .slice (some 4) 3 10) = true ∧ okEv (.alloc .map (some 4) 5 10) = false := by decide

/-- … and a byte-string copy never exceeds the input that is left, nor the declared bound -/
theorem okEv_bytes {ob : Option Nat} {n avail : Nat} (h : okEv (.alloc .bytes ob n avail) = true) :
    n ≤ avail ∧ ∀ b, ob = some b → n ≤ b := by
  simp only [okEv, Bool.and_eq_true, decide_eq_true_eq] at h
  refine ⟨h.1, ?_⟩
  intro b hb; subst hb
  simpa [leB] using h.2

example : okEv (.alloc .bytes (some 8) 5 6) = true ∧ okEv (.alloc .bytes none 7 6) = false := by decide

/-! ## error totality: each malformed class is an explicit error, and the offending read allocates nothing -/

/-- a slice header announcing more than the declared bound: `ErrOverflow`, and the log holds the header read only -/
theorem oversized_slice_rejected (b : Nat) (e : BTy) (d : Nat) (old : Val) (bs r : Bytes) (n : Nat) (isnil : Bool)
    (h : rdArrHdr true bs = ([.read], .ok ((n, isnil), r))) (hn : n > b) :
    dec (.slice (some b) e) d old bs = ([.read], .error .overflow) := by
  unfold BoundedDecoder.dec decSlice P.bind
  rw [h]
  simp [over, hn, P.fail]

/-- the hypotheses are met: array32 header announcing 5 elements against a bound of 4 -/
example : rdArrHdr true [0xdd, 0, 0, 0, 5, 0xc0] = ([.read], .ok ((5, false), [0xc0])) ∧ 5 > 4 := by
  constructor
  · rfl
  · decide

/-- the same for a map -/
theorem oversized_map_rejected (b : Nat) (k v : BTy) (d : Nat) (old : Val) (bs r : Bytes) (n : Nat) (isnil : Bool)
    (h : rdMapHdr bs = ([.read], .ok ((n, isnil), r))) (hn : n > b) :
    dec (.map (some b) k v) d old bs = ([.read], .error .overflow) := by
  unfold BoundedDecoder.dec decMap P.bind
  rw [h]
  simp [over, hn, P.fail]

example : rdMapHdr [0xdf, 0xff, 0xff, 0xff, 0xff] = ([.read], .ok ((4294967295, false), [])) ∧ 4294967295 > 16 := by
  constructor
  · rfl
  · decide

/-- a byte string announcing more than the declared bound is rejected BEFORE anything is read or copied -/
theorem oversized_bytes_rejected (b : Nat) (d : Nat) (old : Val) (bs : Bytes) (n : Nat)
    (h : peekBytesLen bs = .ok n) (hn : n > b) :
    dec (.bytes (some b)) d old bs = ([], .error .overflow) := by
  unfold BoundedDecoder.dec decBytes
  simp [h, hn]

/-- bin32 announcing 2³²−1 bytes with nothing behind it -/
example : peekBytesLen [0xc6, 0xff, 0xff, 0xff, 0xff] = .ok 4294967295 := by rfl

theorem oversized_str_rejected (b : Nat) (d : Nat) (old : Val) (bs : Bytes) (n : Nat)
    (h : peekBytesLen bs = .ok n) (hn : n > b) :
    dec (.str (some b)) d old bs = ([], .error .overflow) := by
  unfold BoundedDecoder.dec decStr
  simp [h, hn]

/-- a collection position holding a value of another type (here: an unsigned integer) is a type error -/
theorem wrong_type_rejected (ob : Option Nat) (e : BTy) (d : Nat) (old : Val) (bs r : Bytes) (n : Nat)
    (h : decHd bs = some (.uint n, r)) :
    dec (.slice ob e) d old bs = ([.read], .error .type) := by
  unfold BoundedDecoder.dec decSlice P.bind rdArrHdr
  simp [h]

example : decHd [0x07, 0x01] = some (.uint 7, [0x01]) := by rfl

/-- no depth left: `ErrMaxDepthExceeded`, nothing read -/
theorem depth_exhausted (b : BTy) (old : Val) (bs : Bytes) : dec (.named b) 0 old bs = ([], .error .depth) := by
  unfold BoundedDecoder.dec; rfl

/-- a struct (map form) naming a field the type does not have: `ErrNoField` -/
theorem unknown_key_rejected (fs : List BField) (d : Nat) (old : Val) (bs r r2 : Bytes) (n : Nat) (l2 : Log) (key : Bytes)
    (h : rdStructHdr bs = ([.read], .ok (.mapForm (n + 1) false, r)))
    (hk : rdKey r = (l2, .ok (key, r2)))
    (hf : findField key (decFs fs d) 0 = none) :
    (dec (.struct fs) d old bs).2 = .error .nofield := by
  unfold BoundedDecoder.dec decStruct P.bind
  rw [h]
  simp only
  unfold loopKeys P.bind
  rw [hk]
  simp [hf, P.fail]

/-- {"zz": nil} against the two-field struct of `tyAB` below -/
example : rdStructHdr [0x81, 0xa2, 0x7a, 0x7a, 0xc0] = ([.read], .ok (.mapForm (0 + 1) false, [0xa2, 0x7a, 0x7a, 0xc0])) := by rfl
example : rdKey [0xa2, 0x7a, 0x7a, 0xc0] = ([.read], .ok ([0x7a, 0x7a], [0xc0])) := by rfl
example : (findField [0x7a, 0x7a] (decFs [([0x61], false, .uint 64), ([0x62], false, .uint 64)] 5) 0).isNone = true := by
  simp [decFs, findField]

/-- a struct (array form) with more elements than fields: `ErrTooManyArrayFields` (here: the field-less struct) -/
theorem too_many_array_fields_rejected (d : Nat) (old : Val) (bs r : Bytes) (n : Nat)
    (h : rdStructHdr bs = ([.read], .ok (.arrForm (n + 1), r))) :
    (dec (.struct []) d old bs).2 = .error .toomany := by
  unfold BoundedDecoder.dec decStruct P.bind
  rw [h]
  simp [decFs, seqFields, P.pure, P.fail]

example : rdStructHdr [0x91, 0xc0] = ([.read], .ok (.arrForm (0 + 1), [0xc0])) := by rfl

/-! ## what the code accepts although one might expect a rejection (stated as coded) -/

def tyAB : BTy := .named (.struct [([0x61], false, .uint 64), ([0x62], false, .uint 64)])

/-- the unsigned fields of a decoded struct and the number of bytes left (a decidable view of a result) -/
def uintsLeft : Log × Except Err (Val × Bytes) → Option (List Nat × Nat)
  | (_, .ok (.struct vs, r)) => some (vs.map (fun v => match v with | .uint n => n | _ => 0), r.length)
  | _ => none

def errOf : Log × Except Err (Val × Bytes) → Option Err
  | (_, .error e) => some e
  | _ => none

/-- a duplicate key is decoded again; for a scalar the last value wins: {"a":1,"a":2} gives a = 2, nothing left -/
theorem duplicate_key_last_wins :
    uintsLeft (decodeRoot tyAB [0x82, 0xa1, 0x61, 0x01, 0xa1, 0x61, 0x02]) = some ([2, 0], 0) := by
  decide

/-- trailing bytes are not an error (`DecodeMsgp`: "go-codec compat: allow remaining bytes"): they are handed back -/
theorem trailing_bytes_left :
    uintsLeft (decodeRoot tyAB [0x81, 0xa1, 0x61, 0x01, 0xff, 0xff]) = some ([1, 0], 2) := by
  decide

/-- a truncated message is an error (here: the value of "a" is missing) -/
theorem truncated_rejected : errOf (decodeRoot tyAB [0x81, 0xa1, 0x61]) = some .short := by
  decide

/-! ## bounds of the decoded object -/

/-- the shape of `bookkeeping.BlockHeader.StateProofTracking`: a map field with allocbound 1 -/
def tySpt : BTy := .named (.struct [([0x73, 0x70, 0x74], false, .map (some 1) (.uint 64) (.named (.struct [])))])

def mapLens : Log × Except Err (Val × Bytes) → Option (List Nat)
  | (_, .ok (.struct vs, _)) => some (vs.map fun v => match v with | .map kvs => kvs.length | _ => 0)
  | _ => none

/-- the run never decoded a struct field twice (the ghost `.dup` annotation of the map-form loop never fired) -/
def NoDupFields (l : Log) : Prop := noDup l = true

/-- a successful decode into a fresh object, on an input that names no struct field twice, builds no collection larger
than its declared bound — strings, byte strings, slices and maps, at every path -/
theorem dec_bounded (ty : BTy) (d : Nat) (bs : Bytes) (l : Log) (v : Val) (r : Bytes)
    (h : BoundedDecoder.dec ty d (zero ty) bs = (l, .ok (v, r))) (hnd : NoDupFields l) : fits ty v = true :=
  dec_fit ty d bs l v r h hnd

/-- the hypotheses are met: {"spt":{0:{}}} decodes, without a repeated key, into a map of one entry (bound 1) -/
example : mapLens (decodeRoot tySpt [0x81, 0xa3, 0x73, 0x70, 0x74, 0x81, 0x00, 0x80]) = some [1] ∧
    noDup (decodeRoot tySpt [0x81, 0xa3, 0x73, 0x70, 0x74, 0x81, 0x00, 0x80]).1 = true := by decide

/-- KNOWN FINDING (generated-code shape, real code: `protocol.Decode(82a3737074810080a3737074810180, &BlockHeader{})`):
a map-typed field that the input names twice keeps the existing map and inserts again — the decoded map has 2 entries
although the declared bound is 1 and every single map header passed its check; the run is flagged by the ghost `.dup` -/
theorem dup_field_exceeds_bound :
    mapLens (decodeRoot tySpt [0x82, 0xa3, 0x73, 0x70, 0x74, 0x81, 0x00, 0x80, 0xa3, 0x73, 0x70, 0x74, 0x81, 0x01, 0x80]) = some [2] ∧
    noDup (decodeRoot tySpt [0x82, 0xa3, 0x73, 0x70, 0x74, 0x81, 0x00, 0x80, 0xa3, 0x73, 0x70, 0x74, 0x81, 0x01, 0x80]).1 = false ∧
    errOf (decodeRoot tySpt [0x81, 0xa3, 0x73, 0x70, 0x74, 0x82, 0x00, 0x80, 0x01, 0x80]) = some .overflow := by
  decide

end AlgoVerif.Props.C41
