/-
C39 — State proofs verify iff enough valid signatures back them.

All theorems are about `Model.StateProof` (the model of crypto/stateproof prover.go / verifier.go AS CODED, composed
with the C38 model of weights.go / coinGenerator.go).  Cryptography is a parameter (`Env`): the Merkle-signature check
(`SigScheme`), two vector commitments (`VC`) and the coin XOF `H`.  What is assumed about them appears as HYPOTHESES:
`VCComplete` / `VCSound` / `VCRootDet` (what C37 proves about crypto/merklearray, under C37's hash hypotheses) and
`SigBinding` (ideal signatures: a signature verifies for at most one key / key period / message).

  * `coinIndex_search`          FULL  the binary search maps every coin below the signed weight to the slot with
                                      L ≤ coin < L + weight (cumulative slots, total weight < 2^64).
  * `coin_slot_unique`          FULL  the slot intervals are pairwise disjoint and cover [0, signedWeight): a coin
                                      determines its slot.
  * `honest_proof_verifies`     FULL  signedWeight > provenWeight ∧ numReveals ok ⇒ CreateProof succeeds and Verify
                                      accepts its result (for every well-formed prover state, every H whose script is long
                                      enough, every complete VC).
  * `wf_makeProver`, `wf_add`   FULL  the well-formedness hypothesis is what MakeProver + IsValid/Add establish.
  * `verify_accept_sound`       FULL  (under VC soundness) whatever proof Verify accepts, EVERY coin is backed by a
                                      committed participant and a committed signature slot that verifies for the message
                                      and round, whose interval contains the coin.
  * `tamper_rejected_partial`   PARTIAL  single-field mutations of an accepted proof are rejected: message, round (other
                                      key period), a revealed signature / L / participant key / lifetime / weight, SigCommit,
                                      participants commitment, salt version, an entry of the positions list.  NOT covered
                                      deterministically: SignedWeight (it only re-seeds the coins — `tamper_signedWeight`
                                      says what acceptance then requires), lengthening / shortening the positions list
                                      (`positions_determined`: the list is a function of the coins; C38 bounds its length),
                                      and nothing here is probabilistic.
  * `coinInSlot_nat`, `accepted_positions_positive_weight`  FULL  the verifier's wrapping uint64 comparison is
                                      `L ≤ coin < L+Weight < 2^64` over ℕ; ANY accepted proof (forged arrays included)
                                      answers every coin with a verifying signature of a positive-weight participant.
  * `round_same_period_accepted` FULL  a round in the SAME key period is not distinguishable (as coded).
  * `ledger_context`            FULL  ValidateStateProof accepts iff enabled ∧ attested round on the interval grid ∧
                                      signedWeight ≥ acceptable weight ∧ the verifier built from (votersCommitment,
                                      onlineTotalWeight·threshold/2^32, strengthTarget) accepts at lastAttestedRound;
                                      `acceptableWeight_bounds`: provenWeight ≤ acceptable weight ≤ total.
  * `soundness_probabilistic_Statement`  NOT PROVED (stated only): a proof backed by less than the proven weight is accepted
                                      with probability ≤ 2^-strength over the random oracle H.
-/
import AlgoVerif.Lemmas.StateProof
import AlgoVerif.Props.C38
import Mathlib.Analysis.SpecialFunctions.Log.Basic
namespace Props.C39
open AlgoVerif.Model.StateProof AlgoVerif.Model.StateProofWeights AlgoVerif.Lemmas.StateProof

variable {S RS PS RP PP : Type}

/-! ### hypotheses about the primitives -/

/-- Completeness of a vector commitment on the array `arr` (C37 `prove_verify_vc` for crypto/merklearray; the depth bound
holds for arrays of at most 2^MaxTreeDepth leaves): opening any non-empty set of distinct in-range positions with the
array's own elements is accepted against the array's commitment. -/
def VCComplete {Leaf Root Pf : Type} (vc : VC Leaf Root Pf) (arr : List Leaf) : Prop :=
  ∀ elems : List (Nat × Leaf), elems ≠ [] → (elems.map (·.1)).Nodup → (∀ ie ∈ elems, arr[ie.1]? = some ie.2) →
    ∃ pf, vc.prove arr (elems.map (·.1)) = some pf ∧ vc.verify (vc.commit arr) elems pf = true ∧
      vc.depth pf ≤ MaxTreeDepth

/-- Position-binding soundness against the commitment of `arr` (C37 `verifyVC_sound`; a reveal leaf is never the
padding leaf, by hash-id domain separation). -/
def VCSound {Leaf Root Pf : Type} (vc : VC Leaf Root Pf) (arr : List Leaf) : Prop :=
  ∀ (elems : List (Nat × Leaf)) (pf : Pf), vc.verify (vc.commit arr) elems pf = true →
    ∀ ie ∈ elems, arr[ie.1]? = some ie.2

/-- A Merkle proof recomputes the root from the opened elements: the same elements and proof cannot verify against two
different roots (a structural fact of merklearray.Verify for a non-empty element set; no cryptography). -/
def VCRootDet {Leaf Root Pf : Type} (vc : VC Leaf Root Pf) : Prop :=
  ∀ (r r' : Root) (elems : List (Nat × Leaf)) (pf : Pf), elems ≠ [] →
    vc.verify r elems pf = true → vc.verify r' elems pf = true → r = r'

/-- Ideal signatures: a signature verifies under at most one (key, key period, message). -/
def SigBinding (ss : SigScheme S) : Prop :=
  ∀ pk kr m pk' kr' m' s, ss.verify pk kr m s = true → ss.verify pk' kr' m' s = true → pk = pk' ∧ kr = kr' ∧ m = m'

/-! ### well-formed prover states -/

/-- What MakeProver followed by IsValid + Add establishes (`wf_makeProver`, `wf_add`). -/
structure WF (ss : SigScheme S) (b : Prover S) : Prop where
  len : b.sigs.length = b.participants.length
  L0 : ∀ sl ∈ b.sigs, sl.commit.L = 0
  wellFormed : ∀ sl ∈ b.sigs, ∀ s, sl.commit.sig = some s → ss.wellFormed s = true
  slot : ∀ (i : Nat) (sl : SigSlot S) (pt : Participant), b.sigs[i]? = some sl → b.participants[i]? = some pt →
    (sl.weight = 0 ∧ sl.commit.sig = none) ∨
    (sl.weight = pt.weight ∧ ∃ s, sl.commit.sig = some s ∧ ss.saltOf s = SchemeSaltVersion ∧
      verifyBytes ss pt b.round b.data (some s) = true)
  sw : b.signedWeight = totalW b.sigs
  /-- the participants' total weight fits a uint64 (the online stake does) -/
  bound : totalW b.sigs < two64

/-! ### coinIndex and the slot intervals -/

/-- **coinIndex search lemma** (re-export): on the committed slots every coin below the signed weight is mapped to the
slot with `L ≤ coin < L + weight`. -/
theorem coinIndex_search (ss : SigScheme S) (b : Prover S) (hwf : WF ss b) (coin : Nat) (hc : coin < b.signedWeight) :
    ∃ (p : Nat) (sl : SigSlot S), coinIndex (commitSigs b.sigs) coin = .ok p ∧ (commitSigs b.sigs)[p]? = some sl ∧
      sl.commit.L ≤ coin ∧ coin < sl.commit.L + sl.weight := by
  have hcum := commitSigs_cum b.sigs hwf.L0 hwf.bound
  have htot := commitSigs_totalW b.sigs
  obtain ⟨p, hp, hlen, h1, h2⟩ := coinIndex_spec (commitSigs b.sigs) hcum (by rw [htot]; exact hwf.bound) coin
    (by rw [htot, ← hwf.sw]; exact hc)
  obtain ⟨sl, hsl⟩ : ∃ sl, (commitSigs b.sigs)[p]? = some sl := ⟨(commitSigs b.sigs)[p], by simp [hlen]⟩
  have hL := cum_get hcum hsl
  have hn := pre_succ _ p sl hsl
  exact ⟨p, sl, hp, hsl, by omega, by omega⟩

/-- **A coin determines the slot**: on cumulative slots the intervals `[L_p, L_p + w_p)` are pairwise disjoint and
cover `[0, signedWeight)`. -/
theorem coin_slot_unique (sigs : List (SigSlot S)) (hc : Cum 0 sigs) :
    (∀ (p q : Nat) (slp slq : SigSlot S) (c : Nat), sigs[p]? = some slp → sigs[q]? = some slq →
        slp.commit.L ≤ c → c < slp.commit.L + slp.weight → slq.commit.L ≤ c → c < slq.commit.L + slq.weight → p = q) ∧
    (∀ c, c < totalW sigs → ∃ (p : Nat) (sl : SigSlot S), sigs[p]? = some sl ∧ sl.commit.L ≤ c ∧ c < sl.commit.L + sl.weight) := by
  constructor
  · intro p q slp slq c hp hq h1 h2 h3 h4
    have hLp := cum_get hc hp
    have hLq := cum_get hc hq
    have hnp := pre_succ _ p slp hp
    have hnq := pre_succ _ q slq hq
    exact slot_unique sigs (c := c) ⟨by omega, by omega⟩ ⟨by omega, by omega⟩
  · intro c hlt
    -- the first position whose prefix sum exceeds c
    have key : ∀ n, n ≤ sigs.length → c < pre sigs n →
        ∃ (p : Nat) (sl : SigSlot S), sigs[p]? = some sl ∧ pre sigs p ≤ c ∧ c < pre sigs (p + 1) := by
      intro n
      induction n with
      | zero => intro _ h; simp [pre_zero] at h
      | succ k ih =>
        intro hk h
        by_cases hk' : c < pre sigs k
        · exact ih (by omega) hk'
        · exact ⟨k, sigs[k], by simp [show k < sigs.length by omega], by omega, h⟩
    obtain ⟨p, sl, hsl, h1, h2⟩ := key sigs.length (Nat.le_refl _) (by rw [pre_length]; exact hlt)
    have hL := cum_get hc hsl
    have hn := pre_succ _ p sl hsl
    exact ⟨p, sl, hsl, by omega, by omega⟩

/-! ### completeness -/

/-- **An honest proof verifies.**  For every well-formed prover state whose signed weight exceeds the proven weight and
for which `numReveals` succeeds, `CreateProof` succeeds and `Verify` (with the verifier built from the same participants
commitment, proven weight and strength) accepts the result for the prover's message and round.
Hypotheses: completeness of the two vector commitments on the committed arrays, and an XOF script long enough for the
`nr` coins (rejection sampling terminates). -/
theorem honest_proof_verifies (E : Env S RS PS RP PP) (b : Prover S) (hwf : WF E.ss b)
    (hready : b.signedWeight > b.provenWeight)
    (nr : Nat) (hnr : numReveals b.signedWeight b.lnProvenWeight b.strengthTarget = .ok nr)
    (hvcS : ∀ leaves, slotLeaves E.ss (commitSigs b.sigs) = some leaves → VCComplete E.vcS leaves)
    (hvcP : VCComplete E.vcP b.participants)
    (hxof : ∀ leaves, slotLeaves E.ss (commitSigs b.sigs) = some leaves →
      (coins b.signedWeight nr (E.H (proverSeed E b leaves))).isSome = true) :
    ∃ s, createProof E b = .ok s ∧ verify E (verifierOf E b) b.round b.data s = .ok () := by
  -- the committed slots
  have hcum := commitSigs_cum b.sigs hwf.L0 hwf.bound
  have htot := commitSigs_totalW b.sigs
  have hlen' : (commitSigs b.sigs).length = b.participants.length := by rw [commitSigs_length]; exact hwf.len
  have hwfc : ∀ sl ∈ commitSigs b.sigs, ∀ s, sl.commit.sig = some s → E.ss.wellFormed s = true := by
    intro sl hsl s hs
    obtain ⟨i, hi, hget⟩ := List.mem_iff_getElem.1 hsl
    obtain ⟨sl0, h0, _, hsig⟩ := commitSigs_get b.sigs i sl (by simp [hi, hget])
    exact hwf.wellFormed sl0 (List.mem_of_getElem? h0) s (by rw [← hsig]; exact hs)
  obtain ⟨leaves, hleaves⟩ := slotLeaves_ok E.ss (commitSigs b.sigs) hwfc
  -- the coins
  obtain ⟨cs, hcs⟩ := Option.isSome_iff_exists.1 (hxof leaves hleaves)
  have hswpos : b.signedWeight > 0 := by omega
  obtain ⟨hcslen, hcslt⟩ := Props.C38.coins_in_range b.signedWeight nr _ cs hswpos hcs
  obtain ⟨hnr1, _, _⟩ := Props.C38.reveals_strict _ _ _ _ hnr
  -- the reveal loop
  obtain ⟨st, ps, hrun, hinv, hseq, hfa⟩ := revealLoop_spec (commitSigs b.sigs) b.participants b.signedWeight hlen' hcum
    (by rw [htot]; exact hwf.bound) (by rw [htot]; exact hwf.sw) nr _ cs ⟨[], []⟩ hcs hcslt (revInv_init _ _)
  simp only [List.nil_append] at hseq
  have hpslen : ps.length = nr := by rw [hfa.length_eq, hcslen]
  -- facts about every reveal
  have hentry : ∀ pr ∈ st.reveals, ∃ (sl : SigSlot S) (pt : Participant) (s : S) (leaf : SigLeaf S), (commitSigs b.sigs)[pr.1]? = some sl ∧ b.participants[pr.1]? = some pt ∧
      pr.2 = ⟨sl.commit, pt⟩ ∧ sl.weight = pt.weight ∧ sl.weight ≠ 0 ∧ sl.commit.sig = some s ∧
      E.ss.saltOf s = SchemeSaltVersion ∧ verifyBytes E.ss pt b.round b.data (some s) = true ∧
      leaves[pr.1]? = some leaf ∧ sigLeaf E.ss sl.commit = some leaf := by
    intro pr hpr
    obtain ⟨sl, pt, hsl, hpt, hpr2, hw⟩ := hinv.entry pr hpr
    obtain ⟨sl0, h0, hw0, hsig0⟩ := commitSigs_get b.sigs pr.1 sl hsl
    rcases hwf.slot pr.1 sl0 pt h0 hpt with ⟨hz, _⟩ | ⟨hwe, s, hs, hsalt, hver⟩
    · omega
    obtain ⟨leaf, hleaf, hsl'⟩ := slotLeaves_get E.ss _ leaves hleaves pr.1 sl hsl
    exact ⟨sl, pt, s, leaf, hsl, hpt, hpr2, by omega, hw, by rw [hsig0]; exact hs, hsalt, hver, hleaf, hsl'⟩
  -- the reveals are not empty (nr ≥ 1)
  have hne : st.reveals ≠ [] := by
    intro he
    have : ps ≠ [] := by intro e; rw [e] at hpslen; simp at hpslen; omega
    obtain ⟨p, hp⟩ := List.exists_mem_of_ne_nil ps this
    have := hinv.seq_key p (by rw [hseq]; exact hp)
    rw [he] at this; simp at this
  -- the two vector-commitment openings
  let leafOf : Nat → SigLeaf S := fun p => (leaves[p]?).getD none
  have hleafOf : ∀ pr ∈ st.reveals, leaves[pr.1]? = some (leafOf pr.1) := by
    intro pr hpr
    obtain ⟨_, _, _, leaf, _, _, _, _, _, _, _, _, hleaf, _⟩ := hentry pr hpr
    simp [leafOf, hleaf]
  have hmapS : (st.reveals.map fun pr => (pr.1, leafOf pr.1)).map (·.1) = st.reveals.map (·.1) := by
    simp [List.map_map, Function.comp_def]
  obtain ⟨pfS, hproveS, hverS, hdepS⟩ := hvcS leaves hleaves (st.reveals.map fun pr => (pr.1, leafOf pr.1))
    (by simpa using hne) (by rw [hmapS]; exact hinv.nodup)
    (by
      intro ie hie
      obtain ⟨pr, hpr, rfl⟩ := List.mem_map.1 hie
      exact hleafOf pr hpr)
  rw [hmapS] at hproveS
  have hmapP : (partElems st.reveals).map (·.1) = st.reveals.map (·.1) := by
    simp [partElems, List.map_map, Function.comp_def]
  obtain ⟨pfP, hproveP, hverP, hdepP⟩ := hvcP (partElems st.reveals)
    (by simpa [partElems] using hne) (by rw [hmapP]; exact hinv.nodup)
    (by
      intro ie hie
      obtain ⟨pr, hpr, rfl⟩ := List.mem_map.1 hie
      obtain ⟨sl, pt, _, _, _, hpt, hpr2, _⟩ := hentry pr hpr
      simp [hpt, hpr2])
  rw [hmapP] at hproveP
  -- CreateProof
  refine ⟨⟨E.vcS.commit leaves, b.signedWeight, pfS, pfP, SchemeSaltVersion, st.reveals, st.seq⟩, ?_, ?_⟩
  · unfold createProof
    rw [if_neg (by omega)]
    simp only [hleaves, hnr, hrun, hproveS, hproveP]
  -- Verify
  · unfold verify
    simp only [verifierOf]
    rw [if_neg (by omega)]
    have hw : verifyWeights b.signedWeight b.lnProvenWeight st.seq.length b.strengthTarget = .ok () := by
      rw [hseq, hpslen]; exact Props.C38.reveals_satisfy _ _ _ _ hnr
    simp only [hw]
    have hsalt : saltsOk E.ss SchemeSaltVersion st.reveals = true := by
      apply saltsOk_of
      intro pr hpr
      obtain ⟨sl, pt, s, _, _, _, hpr2, _, _, hs, hsalt, _⟩ := hentry pr hpr
      simp [saltOfSlot, hpr2, hs, hsalt]
    rw [if_neg (by simp [hsalt])]
    have hrev : checkReveals E.ss b.round b.data st.reveals = .ok (st.reveals.map fun pr => (pr.1, leafOf pr.1)) := by
      apply checkReveals_ok
      intro pr hpr
      obtain ⟨sl, pt, s, leaf, _, _, hpr2, _, _, hs, _, hver, hleaf, hsl'⟩ := hentry pr hpr
      refine ⟨?_, ?_⟩
      · rw [hpr2]; simp only [leafOf, hleaf, Option.getD_some]; exact hsl'
      · rw [hpr2]; simp only [hs]; exact hver
    simp only [hrev]
    simp only [hverS, hverP, Bool.true_eq_false, ↓reduceIte]
    -- the coin loop: the verifier derives the prover's seed
    have hseed : (⟨E.vcP.commit b.participants, b.lnProvenWeight, E.vcS.commit leaves, b.signedWeight, b.data⟩ :
        Seed RS RP) = proverSeed E b leaves := rfl
    rw [hseed]
    apply checkCoins_ok b.signedWeight st.reveals st.seq cs
    · rw [hseq, hpslen]; exact hcs
    · rw [hseq]
      apply hfa.imp
      intro p c hp hin
      obtain ⟨pr, hpr, hp1⟩ := List.mem_map.1 (hinv.seq_key p (by rw [hseq]; exact hp))
      obtain ⟨sl, pt, s, _, hsl, _, hpr2, hwe, _, _, _, _, _, _⟩ := hentry pr hpr
      have hpr' : (p, pr.2) ∈ st.reveals := by rw [← hp1]; exact hpr
      refine ⟨pr.2, lookup_of_mem_nodup st.reveals hinv.nodup p pr.2 hpr', ?_⟩
      rw [hp1] at hsl
      have hL := cum_get hcum hsl
      have hn := pre_succ _ p sl hsl
      have hle := pre_le_total (commitSigs b.sigs) (p + 1)
      have hb := hwf.bound
      obtain ⟨h1, h2⟩ := hin
      simp only [coinInSlot, hpr2, Bool.and_eq_true, decide_eq_true_eq]
      rw [Nat.mod_eq_of_lt (by omega)]
      omega


/-! ### the well-formedness hypothesis is what the code establishes -/

theorem wf_makeProver (ss : SigScheme S) (data round pw lnpw : Nat) (parts : List Participant) (st : Nat)
    (b : Prover S) (h : makeProver data round pw lnpw parts st = .ok b) : WF ss b := by
  unfold makeProver at h
  split at h
  · cases h
  · simp only [Except.ok.injEq] at h
    subst h
    have hmem : ∀ sl ∈ List.replicate parts.length (⟨0, ⟨none, 0⟩⟩ : SigSlot S), sl = ⟨0, ⟨none, 0⟩⟩ :=
      fun sl hsl => (List.mem_replicate.1 hsl).2
    refine ⟨by simp, ?_, ?_, ?_, ?_, ?_⟩
    · intro sl hsl; rw [hmem sl hsl]
    · intro sl hsl s hs; rw [hmem sl hsl] at hs; cases hs
    · intro i sl pt hsl _
      have := hmem sl (List.mem_of_getElem? hsl)
      subst this; exact Or.inl ⟨rfl, rfl⟩
    · simp [totalW]
    · simp [totalW, two64]

theorem totalW_set (l : List (SigSlot S)) (i : Nat) (old x : SigSlot S) (h : l[i]? = some old) :
    totalW (l.set i x) + old.weight = totalW l + x.weight := by
  induction l generalizing i with
  | nil => simp at h
  | cons y ys ih =>
    cases i with
    | zero => simp at h; subst h; simp [totalW]; omega
    | succ k =>
      simp at h
      have := ih k h
      simp [totalW] at this ⊢; omega

/-- **IsValid + Add preserve well-formedness** (the new signature is serialisable and the total stays below 2^64). -/
theorem wf_add (ss : SigScheme S) (b : Prover S) (hwf : WF ss b) (pos : Nat) (sig : S)
    (hv : isValid ss b pos sig = .ok ()) (hform : ss.wellFormed sig = true)
    (hbound : ∀ p, b.participants[pos]? = some p → totalW b.sigs + p.weight < two64)
    (b' : Prover S) (h : add b pos sig = .ok b') : WF ss b' := by
  -- IsValid
  unfold isValid at hv
  cases hp : b.participants[pos]? with
  | none => simp [hp] at hv
  | some p =>
    simp only [hp] at hv
    split at hv
    · cases hv
    · split at hv
      · cases hv
      · split at hv
        · cases hv
        · rename_i hw hsalt hver
          have hsalt' : ss.saltOf sig = SchemeSaltVersion := by simpa using hsalt
          have hver' : verifyBytes ss p b.round b.data (some sig) = true := by simpa using hver
          -- Add
          unfold add present at h
          cases hsl : b.sigs[pos]? with
          | none => simp [hsl] at h
          | some sl =>
            simp only [hsl, hp] at h
            by_cases hpres : sl.weight = 0
            · simp only [hpres, bne_self_eq_false, Except.ok.injEq] at h
              subst h
              have hb := hbound p hp
              have hset := totalW_set b.sigs pos sl ⟨p.weight, ⟨some sig, sl.commit.L⟩⟩ hsl
              simp only [hpres, Nat.add_zero] at hset
              have hmemset : ∀ x ∈ b.sigs.set pos ⟨p.weight, ⟨some sig, sl.commit.L⟩⟩,
                  x = ⟨p.weight, ⟨some sig, sl.commit.L⟩⟩ ∨ x ∈ b.sigs := by
                intro x hx
                rcases List.mem_or_eq_of_mem_set hx with h1 | h1
                · exact Or.inr h1
                · exact Or.inl h1
              refine ⟨by simpa using hwf.len, ?_, ?_, ?_, ?_, ?_⟩
              · intro x hx
                rcases hmemset x hx with rfl | hx
                · exact hwf.L0 sl (List.mem_of_getElem? hsl)
                · exact hwf.L0 x hx
              · intro x hx s hs
                rcases hmemset x hx with rfl | hx
                · simp at hs; subst hs; exact hform
                · exact hwf.wellFormed x hx s hs
              · intro i x pt hx hpt
                by_cases hi : i = pos
                · subst hi
                  have hlt : i < b.sigs.length := by
                    have := List.getElem?_eq_some_iff.1 hsl; exact this.1
                  simp only [List.getElem?_set_self hlt, Option.some.injEq] at hx
                  subst hx
                  simp only at hpt
                  rw [hp] at hpt; cases hpt
                  exact Or.inr ⟨rfl, sig, rfl, hsalt', hver'⟩
                · simp only [List.getElem?_set_ne (Ne.symm hi)] at hx
                  exact hwf.slot i x pt hx hpt
              · simp only
                rw [hset, hwf.sw, Nat.mod_eq_of_lt hb]
              · simp only; rw [hset]; exact hb
            · have : (sl.weight != 0) = true := by simp [hpres]
              simp [this] at h

/-! ### what acceptance implies (soundness relative to honest commitments) -/

/-- every reveal of an accepted proof carries a signature that verifies for the message and round -/
theorem accepted_sigs_verify (E : Env S RS PS RP PP) (v : Verifier RP) (round data : Nat) (s : StateProof S RS PS PP)
    (hok : verify E v round data s = .ok ()) :
    ∀ pr ∈ s.reveals, ∃ x, pr.2.slot.sig = some x ∧ pr.2.part.lifetime ≠ 0 ∧
      E.ss.verify pr.2.part.pk (firstRoundInKeyLifetime round pr.2.part.lifetime) data x = true ∧
      E.ss.wellFormed x = true ∧ E.ss.saltOf x = s.saltVersion := by
  obtain ⟨_, _, hsalt, leaves, hrev, _⟩ := (verify_ok_iff E v round data s).1 hok
  obtain ⟨_, hall⟩ := checkReveals_inv E.ss round data s.reveals leaves hrev
  intro pr hpr
  obtain ⟨leaf, hleaf, _, hver⟩ := hall pr hpr
  have hs := saltsOk_inv E.ss _ _ hsalt pr hpr
  unfold verifyBytes at hver
  cases hx : pr.2.slot.sig with
  | none => simp [hx] at hver
  | some x =>
    simp only [hx, Bool.and_eq_true, bne_iff_ne, ne_eq] at hver
    refine ⟨x, rfl, hver.1, hver.2, ?_, ?_⟩
    · unfold sigLeaf at hleaf
      simp only [hx] at hleaf
      by_cases hwfx : E.ss.wellFormed x = true
      · exact hwfx
      · simp [hwfx] at hleaf
    · simpa [saltOfSlot, hx] using hs

/-- **Soundness relative to honest commitments.**  Let `b` be a well-formed prover state, `leaves` its committed
signature slots.  WHATEVER proof `s` (any reveals, positions, proofs, signed weight) the verifier accepts against the
commitment of `leaves` and the participants commitment, under vector-commitment soundness:
  * every reveal IS the committed slot and the committed participant of its position (signature, `L`, key, lifetime,
    weight), the slot holds a signature, and the slot weight is the participant's weight;
  * every coin (drawn for the seed the verifier derives) lies in the committed interval of the position listed for it. -/
theorem verify_accept_sound (E : Env S RS PS RP PP) (b : Prover S) (hwf : WF E.ss b)
    (leaves : List (SigLeaf S)) (hleaves : slotLeaves E.ss (commitSigs b.sigs) = some leaves)
    (hsS : VCSound E.vcS leaves) (hsP : VCSound E.vcP b.participants)
    (v : Verifier RP) (hv : v.partCommit = E.vcP.commit b.participants)
    (round data : Nat) (s : StateProof S RS PS PP) (hc : s.sigCommit = E.vcS.commit leaves)
    (hok : verify E v round data s = .ok ()) :
    (∀ pr ∈ s.reveals, ∃ (sl : SigSlot S) (pt : Participant) (x : S), (commitSigs b.sigs)[pr.1]? = some sl ∧
        b.participants[pr.1]? = some pt ∧ pr.2 = ⟨sl.commit, pt⟩ ∧ sl.commit.sig = some x ∧ sl.weight = pt.weight) ∧
    ∃ cs, coins s.signedWeight s.positions.length
        (E.H ⟨v.partCommit, v.lnProvenWeight, s.sigCommit, s.signedWeight, data⟩) = some cs ∧
      All2 (InSlot (commitSigs b.sigs)) s.positions cs := by
  have hsigs := accepted_sigs_verify E v round data s hok
  obtain ⟨_, _, _, lv, hrev, hvS, hvP, hcoins⟩ := (verify_ok_iff E v round data s).1 hok
  obtain ⟨_, hall⟩ := checkReveals_inv E.ss round data s.reveals lv hrev
  rw [hc] at hvS
  rw [hv] at hvP
  have hcum := commitSigs_cum b.sigs hwf.L0 hwf.bound
  have hreveal : ∀ pr ∈ s.reveals, ∃ (sl : SigSlot S) (pt : Participant) (x : S), (commitSigs b.sigs)[pr.1]? = some sl ∧
      b.participants[pr.1]? = some pt ∧ pr.2 = ⟨sl.commit, pt⟩ ∧ sl.commit.sig = some x ∧ sl.weight = pt.weight := by
    intro pr hpr
    obtain ⟨x, hx, _, _, hwfx, _⟩ := hsigs pr hpr
    obtain ⟨leaf, hleaf, hmem, _⟩ := hall pr hpr
    -- the presented leaf is the committed one
    have hcomm : leaves[pr.1]? = some leaf := hsS lv s.sigProofs hvS (pr.1, leaf) hmem
    have hpart : b.participants[pr.1]? = some pr.2.part :=
      hsP (partElems s.reveals) s.partProofs hvP (pr.1, pr.2.part) (List.mem_map.2 ⟨pr, hpr, rfl⟩)
    have hlt : pr.1 < (commitSigs b.sigs).length := by
      rw [← slotLeaves_length E.ss _ leaves hleaves]
      exact (List.getElem?_eq_some_iff.1 hcomm).1
    obtain ⟨sl, hsl⟩ : ∃ sl, (commitSigs b.sigs)[pr.1]? = some sl := ⟨(commitSigs b.sigs)[pr.1], by simp [hlt]⟩
    obtain ⟨leaf', hleaf', hsl'⟩ := slotLeaves_get E.ss _ leaves hleaves pr.1 sl hsl
    rw [hcomm] at hleaf'; cases hleaf'
    -- both leaves are (signature, L)
    have hl1 : leaf = some (x, pr.2.slot.L) := by
      unfold sigLeaf at hleaf; simp only [hx, hwfx, if_true] at hleaf; cases hleaf; rfl
    have hslsig : ∃ y, sl.commit.sig = some y ∧ leaf = some (y, sl.commit.L) := by
      unfold sigLeaf at hsl'
      cases hy : sl.commit.sig with
      | none => simp only [hy] at hsl'; cases hsl'; cases hl1
      | some y =>
        simp only [hy] at hsl'
        by_cases hwy : E.ss.wellFormed y = true
        · simp only [hwy, if_true] at hsl'; cases hsl'; exact ⟨y, rfl, rfl⟩
        · simp [hwy] at hsl'
    obtain ⟨y, hy, hl2⟩ := hslsig
    rw [hl1] at hl2
    simp only [Option.some.injEq, Prod.mk.injEq] at hl2
    obtain ⟨hxy, hL⟩ := hl2
    subst hxy
    -- the committed slot is a signer's slot: its weight is the participant's weight
    obtain ⟨sl0, h0, hw0, hsig0⟩ := commitSigs_get b.sigs pr.1 sl hsl
    have hweight : sl.weight = pr.2.part.weight := by
      rcases hwf.slot pr.1 sl0 pr.2.part h0 hpart with ⟨_, hnone⟩ | ⟨hwe, _⟩
      · rw [← hsig0, hy] at hnone; cases hnone
      · omega
    refine ⟨sl, pr.2.part, x, hsl, hpart, ?_, hy, hweight⟩
    obtain ⟨pos, ⟨⟨sg, L⟩, part⟩⟩ := pr
    simp only at hx hL hy ⊢
    subst hx
    cases hslc : sl.commit with
    | mk sg' L' =>
      rw [hslc] at hy hL
      simp only at hy hL
      subst hy; subst hL; rfl
  refine ⟨hreveal, ?_⟩
  obtain ⟨cs, hcs, hall2⟩ := checkCoins_inv _ _ _ _ hcoins
  refine ⟨cs, hcs, hall2.imp ?_⟩
  intro p c _ hpc
  obtain ⟨r, hr, hin⟩ := hpc
  obtain ⟨sl, pt, x, hsl, hpt, hr2, _, hw⟩ := hreveal (p, r) (lookup_some_mem p _ r hr)
  simp only at hsl hpt hr2
  have hL := cum_get hcum hsl
  have hn := pre_succ _ p sl hsl
  have hle := pre_le_total (commitSigs b.sigs) (p + 1)
  have htot := commitSigs_totalW b.sigs
  have hb := hwf.bound
  subst hr2
  simp only [coinInSlot, Bool.and_eq_true, decide_eq_true_eq] at hin
  rw [Nat.mod_eq_of_lt (by omega)] at hin
  exact ⟨by omega, by omega⟩


theorem all2_inSlot_lt (sigs : List (SigSlot S)) :
    ∀ (ps cs : List Nat), All2 (InSlot sigs) ps cs → ∀ c ∈ cs, c < totalW sigs := by
  intro ps cs h
  induction h with
  | nil => simp
  | @cons a b _ _ hr _ ih =>
    intro c hc'
    rcases List.mem_cons.1 hc' with rfl | hc'
    · have h1 := pre_le_total sigs (a + 1)
      have h2 : c < pre sigs (a + 1) := hr.2
      omega
    · exact ih c hc'

/-- the coins of an accepted proof all lie below the TRUE signed weight of the committed slots (whatever `SignedWeight`
the proof claims): a proof whose claimed weight exceeds the committed one survives only if no coin lands in the gap -/
theorem accepted_coins_below_signed (E : Env S RS PS RP PP) (b : Prover S) (hwf : WF E.ss b)
    (leaves : List (SigLeaf S)) (hleaves : slotLeaves E.ss (commitSigs b.sigs) = some leaves)
    (hsS : VCSound E.vcS leaves) (hsP : VCSound E.vcP b.participants)
    (v : Verifier RP) (hv : v.partCommit = E.vcP.commit b.participants)
    (round data : Nat) (s : StateProof S RS PS PP) (hc : s.sigCommit = E.vcS.commit leaves)
    (hok : verify E v round data s = .ok ()) :
    ∃ cs, coins s.signedWeight s.positions.length
        (E.H ⟨v.partCommit, v.lnProvenWeight, s.sigCommit, s.signedWeight, data⟩) = some cs ∧
      ∀ c ∈ cs, c < b.signedWeight := by
  obtain ⟨_, cs, hcs, hall⟩ := verify_accept_sound E b hwf leaves hleaves hsS hsP v hv round data s hc hok
  refine ⟨cs, hcs, ?_⟩
  intro c hc'
  have := all2_inSlot_lt (commitSigs b.sigs) _ _ hall c hc'
  rw [commitSigs_totalW, ← hwf.sw] at this
  exact this

/-- **The positions list is a function of the coins**: on cumulative slots two lists that both place every coin in the
interval of its listed position are equal. -/
theorem positions_determined (sigs : List (SigSlot S)) :
    ∀ (ps ps' cs : List Nat), All2 (InSlot sigs) ps cs → All2 (InSlot sigs) ps' cs → ps = ps' := by
  intro ps ps' cs h
  induction h generalizing ps' with
  | nil => intro h'; cases h'; rfl
  | cons hr _ ih =>
    intro h'
    cases h' with
    | cons hr' ht' => rw [slot_unique sigs hr hr', ih _ ht']

/-! ### the coin-in-slot comparison, over the naturals -/

/-- **The verifier's comparison `L <= coin && coin < L+Weight` (uint64, wrapping) over ℕ**: for uint64 operands it holds
exactly when the coin lies in `[L, L+Weight)` AND that interval ends below 2^64.  In particular it never holds for a
zero-weight participant, whatever `L` is.  (The harness ties the real comparison to this predicate on forged proofs: an
exhaustive grid Weight 0..3 × L 0..4 × coins 0..5, and slots at the top of the uint64 range.) -/
theorem coinInSlot_nat (r : Reveal S) (c : Nat) (hL : r.slot.L < two64) (hW : r.part.weight < two64) :
    coinInSlot r c = true ↔
      r.slot.L ≤ c ∧ c < r.slot.L + r.part.weight ∧ r.slot.L + r.part.weight < two64 := by
  simp only [coinInSlot, Bool.and_eq_true, decide_eq_true_eq]
  rw [Props.C38.two64_val] at hL hW ⊢
  omega

theorem coinInSlot_pos_weight (r : Reveal S) (c : Nat) (hL : r.slot.L < two64) (hW : r.part.weight < two64)
    (h : coinInSlot r c = true) : 0 < r.part.weight := by
  have := (coinInSlot_nat r c hL hW).1 h; omega

theorem all2_exists_of_mem {α β : Type} {R : α → β → Prop} {as : List α} {bs : List β} (h : All2 R as bs)
    {a : α} (ha : a ∈ as) : ∃ b, R a b := by
  induction h with
  | nil => simp at ha
  | cons hr _ ih =>
    rcases List.mem_cons.1 ha with rfl | ha
    · exact ⟨_, hr⟩
    · exact ih ha

/-- **No coin is answered by a weightless or unsigned slot** — for ANY accepted proof (no assumption on the
commitments; forged signature arrays included): every listed position is revealed, its reveal carries a signature that
verifies under the revealed participant's key for the message and round, that participant's weight is positive, and some
coin lies in `[L, L+Weight)` over ℕ.  (uint64 fields: `hb`.) -/
theorem accepted_positions_positive_weight (E : Env S RS PS RP PP) (v : Verifier RP) (round data : Nat)
    (s : StateProof S RS PS PP) (hok : verify E v round data s = .ok ())
    (hb : ∀ pr ∈ s.reveals, pr.2.slot.L < two64 ∧ pr.2.part.weight < two64) :
    ∀ p ∈ s.positions, ∃ r x c, s.reveals.lookup p = some r ∧ 0 < r.part.weight ∧
      r.slot.L ≤ c ∧ c < r.slot.L + r.part.weight ∧ r.slot.sig = some x ∧
      E.ss.verify r.part.pk (firstRoundInKeyLifetime round r.part.lifetime) data x = true := by
  obtain ⟨_, _, _, _, _, _, _, hcoins⟩ := (verify_ok_iff E v round data s).1 hok
  obtain ⟨cs, _, hall⟩ := checkCoins_inv _ _ _ _ hcoins
  intro p hp
  obtain ⟨c, r, hr, hin⟩ := all2_exists_of_mem hall hp
  have hmem := lookup_some_mem p _ r hr
  obtain ⟨hL, hW⟩ := hb (p, r) hmem
  obtain ⟨x, hx, _, hv, _⟩ := accepted_sigs_verify E v round data s hok (p, r) hmem
  have h3 := (coinInSlot_nat r c hL hW).1 hin
  exact ⟨r, x, c, hr, by omega, h3.1, h3.2.1, hx, hv⟩

/-! ### tamper rejection -/

/-- a different MESSAGE is rejected (ideal signatures; the proof reveals at least one slot) -/
theorem tamper_message (E : Env S RS PS RP PP) (hbind : SigBinding E.ss) (v : Verifier RP) (round data data' : Nat)
    (s : StateProof S RS PS PP) (hne : s.reveals ≠ []) (hok : verify E v round data s = .ok ()) (hd : data' ≠ data) :
    verify E v round data' s ≠ .ok () := by
  intro hok'
  obtain ⟨pr, hpr⟩ := List.exists_mem_of_ne_nil _ hne
  obtain ⟨x, hx, _, h1, _⟩ := accepted_sigs_verify E v round data s hok pr hpr
  obtain ⟨x', hx', _, h1', _⟩ := accepted_sigs_verify E v round data' s hok' pr hpr
  rw [hx] at hx'; cases hx'
  exact hd (hbind _ _ _ _ _ _ _ h1 h1').2.2.symm

/-- a ROUND in another key period (of some revealed participant) is rejected -/
theorem tamper_round (E : Env S RS PS RP PP) (hbind : SigBinding E.ss) (v : Verifier RP) (round round' data : Nat)
    (s : StateProof S RS PS PP) (hok : verify E v round data s = .ok ())
    (hper : ∃ pr ∈ s.reveals, firstRoundInKeyLifetime round' pr.2.part.lifetime ≠
      firstRoundInKeyLifetime round pr.2.part.lifetime) :
    verify E v round' data s ≠ .ok () := by
  intro hok'
  obtain ⟨pr, hpr, hdiff⟩ := hper
  obtain ⟨x, hx, _, h1, _⟩ := accepted_sigs_verify E v round data s hok pr hpr
  obtain ⟨x', hx', _, h1', _⟩ := accepted_sigs_verify E v round' data s hok' pr hpr
  rw [hx] at hx'; cases hx'
  exact hdiff (hbind _ _ _ _ _ _ _ h1 h1').2.1.symm

theorem checkReveals_round_congr (ss : SigScheme S) (round round' data : Nat) :
    ∀ (reveals : List (Nat × Reveal S)),
      (∀ pr ∈ reveals, firstRoundInKeyLifetime round' pr.2.part.lifetime = firstRoundInKeyLifetime round pr.2.part.lifetime) →
      checkReveals ss round' data reveals = checkReveals ss round data reveals := by
  intro reveals
  induction reveals with
  | nil => intro _; rfl
  | cons pr rest ih =>
    intro h
    have hvb : verifyBytes ss pr.2.part round' data pr.2.slot.sig = verifyBytes ss pr.2.part round data pr.2.slot.sig := by
      unfold verifyBytes; rw [h pr (by simp)]
    simp only [checkReveals, hvb, ih (fun q hq => h q (by simp [hq]))]

/-- **As coded, the round only selects the key period**: a round in the same Merkle-signature key period as the signed
round (for every revealed participant) is accepted as well.  (The ledger fixes the round: ValidateStateProof verifies
at `LastAttestedRound`, a multiple of the state-proof interval, which is also part of the signed message.) -/
theorem round_same_period_accepted (E : Env S RS PS RP PP) (v : Verifier RP) (round round' data : Nat)
    (s : StateProof S RS PS PP) (hok : verify E v round data s = .ok ())
    (hper : ∀ pr ∈ s.reveals, firstRoundInKeyLifetime round' pr.2.part.lifetime =
      firstRoundInKeyLifetime round pr.2.part.lifetime) :
    verify E v round' data s = .ok () := by
  rw [verify_ok_iff] at hok ⊢
  rw [checkReveals_round_congr E.ss round round' data s.reveals hper]
  exact hok

/-- a changed REVEAL (its signature, its `L`, its participant's key, key lifetime or weight; also a reveal swapped with
or moved from another position) is rejected — in fact ANY proof presenting at position `p` something else than the
committed slot and participant is. -/
theorem tamper_reveal (E : Env S RS PS RP PP) (b : Prover S) (hwf : WF E.ss b)
    (leaves : List (SigLeaf S)) (hleaves : slotLeaves E.ss (commitSigs b.sigs) = some leaves)
    (hsS : VCSound E.vcS leaves) (hsP : VCSound E.vcP b.participants)
    (v : Verifier RP) (hv : v.partCommit = E.vcP.commit b.participants) (round data round' data' : Nat)
    (s s' : StateProof S RS PS PP) (hc : s.sigCommit = E.vcS.commit leaves) (hc' : s'.sigCommit = s.sigCommit)
    (hok : verify E v round data s = .ok ())
    (p : Nat) (r r' : Reveal S) (hr : (p, r) ∈ s.reveals) (hr' : (p, r') ∈ s'.reveals) (hne : r' ≠ r) :
    verify E v round' data' s' ≠ .ok () := by
  intro hok'
  obtain ⟨h1, _⟩ := verify_accept_sound E b hwf leaves hleaves hsS hsP v hv round data s hc hok
  obtain ⟨h1', _⟩ := verify_accept_sound E b hwf leaves hleaves hsS hsP v hv round' data' s' (hc'.trans hc) hok'
  obtain ⟨sl, pt, _, hsl, hpt, hr2, _⟩ := h1 (p, r) hr
  obtain ⟨sl', pt', _, hsl', hpt', hr2', _⟩ := h1' (p, r') hr'
  simp only at hsl hpt hr2 hsl' hpt' hr2'
  rw [hsl] at hsl'; cases hsl'
  rw [hpt] at hpt'; cases hpt'
  exact hne (hr2'.trans hr2.symm)

/-- a changed SigCommit is rejected (the Merkle proof recomputes the root) -/
theorem tamper_sigCommit (E : Env S RS PS RP PP) (hdet : VCRootDet E.vcS) (v : Verifier RP) (round data : Nat)
    (s : StateProof S RS PS PP) (hne : s.reveals ≠ []) (hok : verify E v round data s = .ok ())
    (c' : RS) (hc : c' ≠ s.sigCommit) :
    verify E v round data { s with sigCommit := c' } ≠ .ok () := by
  intro hok'
  obtain ⟨_, _, _, lv, hrev, hvS, _⟩ := (verify_ok_iff E v round data s).1 hok
  obtain ⟨_, _, _, lv', hrev', hvS', _⟩ := (verify_ok_iff E v round data _).1 hok'
  simp only at hrev' hvS'
  rw [hrev] at hrev'; cases hrev'
  have hlv : lv ≠ [] := by
    intro e
    have := (checkReveals_inv E.ss round data s.reveals lv hrev).1
    rw [e] at this
    simp at this
    exact hne this
  exact hc (hdet _ _ lv s.sigProofs hlv hvS' hvS)

/-- a changed participants commitment (the verifier's trusted root) is rejected -/
theorem tamper_partCommit (E : Env S RS PS RP PP) (hdet : VCRootDet E.vcP) (v : Verifier RP) (round data : Nat)
    (s : StateProof S RS PS PP) (hne : s.reveals ≠ []) (hok : verify E v round data s = .ok ())
    (c' : RP) (hc : c' ≠ v.partCommit) :
    verify E { v with partCommit := c' } round data s ≠ .ok () := by
  intro hok'
  obtain ⟨_, _, _, lv, _, _, hvP, _⟩ := (verify_ok_iff E v round data s).1 hok
  obtain ⟨_, _, _, lv', _, _, hvP', _⟩ := (verify_ok_iff E _ round data s).1 hok'
  simp only at hvP'
  have hpe : partElems s.reveals ≠ [] := by simpa [partElems] using hne
  exact hc (hdet _ _ _ s.partProofs hpe hvP' hvP)

/-- a changed salt version is rejected -/
theorem tamper_saltVersion (E : Env S RS PS RP PP) (v : Verifier RP) (round data : Nat)
    (s : StateProof S RS PS PP) (hne : s.reveals ≠ []) (hok : verify E v round data s = .ok ())
    (ver' : Nat) (hver : ver' ≠ s.saltVersion) :
    verify E v round data { s with saltVersion := ver' } ≠ .ok () := by
  intro hok'
  obtain ⟨pr, hpr⟩ := List.exists_mem_of_ne_nil _ hne
  obtain ⟨x, hx, _, _, _, h1⟩ := accepted_sigs_verify E v round data s hok pr hpr
  obtain ⟨x', hx', _, _, _, h1'⟩ := accepted_sigs_verify E v round data _ hok' pr hpr
  simp only at hx' h1'
  rw [hx] at hx'; cases hx'
  exact hver (h1'.symm.trans h1)

/-- an edited POSITIONS list of the same length (an entry overwritten, two entries swapped, …) is rejected: against
honest commitments the accepted list is the unique function of the coins -/
theorem tamper_positions (E : Env S RS PS RP PP) (b : Prover S) (hwf : WF E.ss b)
    (leaves : List (SigLeaf S)) (hleaves : slotLeaves E.ss (commitSigs b.sigs) = some leaves)
    (hsS : VCSound E.vcS leaves) (hsP : VCSound E.vcP b.participants)
    (v : Verifier RP) (hv : v.partCommit = E.vcP.commit b.participants) (round data : Nat)
    (s : StateProof S RS PS PP) (hc : s.sigCommit = E.vcS.commit leaves)
    (hok : verify E v round data s = .ok ())
    (ps' : List Nat) (hlen : ps'.length = s.positions.length) (hne : ps' ≠ s.positions) :
    verify E v round data { s with positions := ps' } ≠ .ok () := by
  intro hok'
  obtain ⟨_, cs, hcs, hall⟩ := verify_accept_sound E b hwf leaves hleaves hsS hsP v hv round data s hc hok
  obtain ⟨_, cs', hcs', hall'⟩ := verify_accept_sound E b hwf leaves hleaves hsS hsP v hv round data
    { s with positions := ps' } hc hok'
  simp only at hcs' hall'
  rw [hlen, hcs] at hcs'; cases hcs'
  exact hne (positions_determined _ _ _ _ hall' hall)

/-- **Tamper rejection (PARTIAL).**  Let `s` be a proof accepted for `(round, data)` against the commitments of a
well-formed prover state (e.g. the proof of `honest_proof_verifies`), revealing at least one slot.  Under ideal signatures
(`SigBinding`), vector-commitment soundness (`VCSound`) and root recomputation (`VCRootDet`), each of the following
single-field mutations is REJECTED:
 1. another message;
 2. a round in another key period of a revealed participant;
 3. any change of a reveal at a revealed position: signature, `L`, participant key / key lifetime / weight, reveals
    swapped or moved (whatever else changes besides);
 4. another `SigCommit`;  5. another participants commitment;  6. another salt version;
 7. any same-length edit of the positions list.
NOT covered (see the file header): `SignedWeight` (only `accepted_coins_below_signed`), positions lists of another
length (C38 bounds the length from below; appending the slot of the next coin yields another valid proof), and no
probability statement. -/
theorem tamper_rejected_partial (E : Env S RS PS RP PP) (b : Prover S) (hwf : WF E.ss b)
    (leaves : List (SigLeaf S)) (hleaves : slotLeaves E.ss (commitSigs b.sigs) = some leaves)
    (hbind : SigBinding E.ss) (hsS : VCSound E.vcS leaves) (hsP : VCSound E.vcP b.participants)
    (hdS : VCRootDet E.vcS) (hdP : VCRootDet E.vcP)
    (v : Verifier RP) (hv : v.partCommit = E.vcP.commit b.participants) (round data : Nat)
    (s : StateProof S RS PS PP) (hc : s.sigCommit = E.vcS.commit leaves) (hne : s.reveals ≠ [])
    (hok : verify E v round data s = .ok ()) :
    (∀ data', data' ≠ data → verify E v round data' s ≠ .ok ()) ∧
    (∀ round', (∃ pr ∈ s.reveals, firstRoundInKeyLifetime round' pr.2.part.lifetime ≠
        firstRoundInKeyLifetime round pr.2.part.lifetime) → verify E v round' data s ≠ .ok ()) ∧
    (∀ (s' : StateProof S RS PS PP) (p : Nat) (r r' : Reveal S), s'.sigCommit = s.sigCommit → (p, r) ∈ s.reveals →
        (p, r') ∈ s'.reveals → r' ≠ r → verify E v round data s' ≠ .ok ()) ∧
    (∀ c', c' ≠ s.sigCommit → verify E v round data { s with sigCommit := c' } ≠ .ok ()) ∧
    (∀ c', c' ≠ v.partCommit → verify E { v with partCommit := c' } round data s ≠ .ok ()) ∧
    (∀ ver', ver' ≠ s.saltVersion → verify E v round data { s with saltVersion := ver' } ≠ .ok ()) ∧
    (∀ ps', ps'.length = s.positions.length → ps' ≠ s.positions →
        verify E v round data { s with positions := ps' } ≠ .ok ()) :=
  ⟨fun d' hd => tamper_message E hbind v round data d' s hne hok hd,
   fun r' hp => tamper_round E hbind v round r' data s hok hp,
   fun s' p r r' hc' hr hr' hne' =>
     tamper_reveal E b hwf leaves hleaves hsS hsP v hv round data round data s s' hc hc' hok p r r' hr hr' hne',
   fun c' hc' => tamper_sigCommit E hdS v round data s hne hok c' hc',
   fun c' hc' => tamper_partCommit E hdP v round data s hne hok c' hc',
   fun ver' hver => tamper_saltVersion E v round data s hne hok ver' hver,
   fun ps' hl hn => tamper_positions E b hwf leaves hleaves hsS hsP v hv round data s hc hok ps' hl hn⟩


/-! ### the ledger context (stateproof/verify) -/

/-- **Ledger context.**  `ValidateStateProof` accepts exactly when state proofs are enabled, the attested round is on the
interval grid, the proof's signed weight reaches the acceptable weight for the round at which it is validated, and the
CRYPTOGRAPHIC verifier — built from the context's voters commitment, the proven weight
`onlineTotalWeight · threshold / 2^32` of the attested interval and the protocol's strength target — accepts the proof for
the message hash at the last attested round.  (So all theorems above apply to ledger-validated proofs with
`v = ⟨strengthTarget, ln provenWeight, votersCommitment⟩` and `round = lastAttestedRound`.) -/
theorem ledger_context (E : Env S RS PS RP PP) (ln : Nat → Nat) (ctx : LedgerCtx RP) (s : StateProof S RS PS PP)
    (atRound msgHash : Nat) :
    validateStateProof E ln ctx s atRound msgHash = .ok () ↔
      ctx.interval ≠ 0 ∧ ctx.lastAttestedRound % ctx.interval = 0 ∧
      acceptableWeight ctx.onlineTotalWeight ctx.interval ctx.weightThreshold ctx.lastAttestedRound atRound ≤ s.signedWeight ∧
      ∃ pw, muldiv ctx.onlineTotalWeight ctx.weightThreshold (2 ^ 32) = some pw ∧ pw ≠ 0 ∧
        verify E ⟨ctx.strengthTarget, ln pw, ctx.votersCommitment⟩ ctx.lastAttestedRound msgHash s = .ok () := by
  unfold validateStateProof
  by_cases h1 : ctx.interval = 0
  · simp [h1]
  rw [if_neg h1]
  by_cases h2 : ctx.lastAttestedRound % ctx.interval ≠ 0
  · rw [if_pos h2]; constructor
    · intro h; cases h
    · rintro ⟨_, h, _⟩; exact absurd h h2
  rw [if_neg h2]
  have h2' : ctx.lastAttestedRound % ctx.interval = 0 := by omega
  by_cases h3 : s.signedWeight <
      acceptableWeight ctx.onlineTotalWeight ctx.interval ctx.weightThreshold ctx.lastAttestedRound atRound
  · rw [if_pos h3]; constructor
    · intro h; cases h
    · rintro ⟨_, _, h, _⟩; omega
  rw [if_neg h3]
  cases hm : muldiv ctx.onlineTotalWeight ctx.weightThreshold (2 ^ 32) with
  | none => simp
  | some pw =>
    simp only [Option.some.injEq, exists_eq_left']
    by_cases h4 : pw = 0
    · simp [h4]
    rw [if_neg h4]
    cases hv : verify E ⟨ctx.strengthTarget, ln pw, ctx.votersCommitment⟩ ctx.lastAttestedRound msgHash s with
    | error e => simp
    | ok u => simp only [true_iff]; exact ⟨h1, h2', by omega, h4, trivial⟩

/-- the acceptable weight never drops below the proven weight and never exceeds the online total (uint64 inputs,
threshold a fraction of 2^32): the ledger never accepts a proof whose signed weight is below the proven weight -/
theorem acceptableWeight_bounds (total interval threshold lastAttested firstValid : Nat)
    (ht : total < two64) (hthr : threshold < 2 ^ 32) :
    total * threshold / 2 ^ 32 ≤ acceptableWeight total interval threshold lastAttested firstValid ∧
      acceptableWeight total interval threshold lastAttested firstValid ≤ total := by
  have hpw : total * threshold / 2 ^ 32 ≤ total := by
    apply Nat.div_le_of_le_mul
    calc total * threshold ≤ total * 2 ^ 32 := Nat.mul_le_mul_left _ (Nat.le_of_lt hthr)
      _ = 2 ^ 32 * total := Nat.mul_comm _ _
  have hmd : muldiv total threshold (2 ^ 32) = some (total * threshold / 2 ^ 32) := by
    unfold muldiv
    rw [if_neg (by decide), if_neg (by omega)]
  unfold acceptableWeight
  simp only [hmd]
  split
  · exact ⟨hpw, Nat.le_refl _⟩
  split
  · exact ⟨hpw, Nat.le_refl _⟩
  rw [if_neg (by omega)]
  split
  · exact ⟨Nat.le_refl _, hpw⟩
  rename_i hoff1 hoff2 hlt
  -- the ramp: scaled = (total - pw)·(half - off)/half ≤ total - pw
  have hhalf : 0 < interval / 2 := by omega
  have hscaled : (total - total * threshold / 2 ^ 32) * (interval / 2 - (firstValid - lastAttested - interval / 2)) /
      (interval / 2) ≤ total - total * threshold / 2 ^ 32 := by
    apply Nat.div_le_of_le_mul
    rw [Nat.mul_comm]
    exact Nat.mul_le_mul_right _ (Nat.sub_le _ _)
  obtain ⟨scaled, hsc, hle⟩ : ∃ scaled, muldiv (total - total * threshold / 2 ^ 32)
      (interval / 2 - (firstValid - lastAttested - interval / 2)) (interval / 2) = some scaled ∧
      scaled ≤ total - total * threshold / 2 ^ 32 := by
    refine ⟨_, ?_, hscaled⟩
    unfold muldiv
    rw [if_neg (by omega), if_neg (by omega)]
  simp only [hsc]
  rw [if_neg (by omega)]
  omega

/-! ### the probabilistic half — STATED, NOT PROVED -/

/-- **Not proved.**  The arithmetic heart of "a proof backed by insufficient weight passes only with probability
≤ 2^-strength": whenever the verifier's weight inequality accepts `(signedWeight, lnProvenWeight, nr, strength)` with
`lnProvenWeight ≥ 2^16 · ln provenWeight` (LnIntApproximation rounds up), the fraction of coin vectors in
`[0, signedWeight)^nr` that fall entirely below a weight `W ≤ provenWeight` is at most `2^-strength`:
`(W / signedWeight)^nr ≤ 2^-strength`.  Together with `accepted_coins_below_signed` (an accepted proof has ALL its coins
below the weight that really signed) this bounds, for ONE random-oracle query and an honestly built (cumulative)
signature commitment, the probability that signers of total weight `W ≤ provenWeight` get a proof accepted.  The full
soundness statement of compact certificates (adversarially chosen, possibly overlapping `L` values; `q` oracle queries,
bound `q · 2^-strength`) is a probabilistic statement about the random oracle `H` and is outside what is proved here. -/
def soundness_probabilistic_Statement : Prop :=
  ∀ (signedWeight lnProvenWeight nr strength provenWeight W : Nat),
    verifyWeights signedWeight lnProvenWeight nr strength = .ok () →
    Real.log (provenWeight : ℝ) * 2 ^ 16 ≤ (lnProvenWeight : ℝ) →
    W ≤ provenWeight →
    (W : ℝ) ^ nr * 2 ^ strength ≤ (signedWeight : ℝ) ^ nr

/-! ### the hypotheses are satisfiable: ideal primitives, a concrete prover -/

theorem idealSS_binding : SigBinding idealSS := by
  intro pk kr m pk' kr' m' s h h'
  simp only [idealSS, Bool.and_eq_true, beq_iff_eq] at h h'
  omega

theorem sameSet_refl (xs : List Nat) : sameSet xs xs = true := by
  simp [sameSet, List.all_eq_true]

theorem idealVC_complete {Leaf : Type} [DecidableEq Leaf] (arr : List Leaf) (hd : depthOf arr.length ≤ MaxTreeDepth) :
    VCComplete (idealVC Leaf) arr := by
  intro elems _ _ hel
  have hall : (elems.map (·.1)).all (fun p => decide (p < arr.length)) = true := by
    rw [List.all_eq_true]
    intro p hp
    obtain ⟨ie, hie, rfl⟩ := List.mem_map.1 hp
    have := hel ie hie
    simp only [decide_eq_true_eq]
    exact (List.getElem?_eq_some_iff.1 this).1
  refine ⟨⟨arr, elems.map (·.1), 0, depthOf arr.length⟩, ?_, ?_, hd⟩
  · simp only [idealVC, hall, if_true]
  · simp only [idealVC, beq_self_eq_true, decide_true, sameSet_refl, Bool.and_true, Bool.true_and]
    rw [List.all_eq_true]
    intro ie hie
    simp [hel ie hie]

theorem idealVC_sound {Leaf : Type} [DecidableEq Leaf] (arr : List Leaf) : VCSound (idealVC Leaf) arr := by
  intro elems pf h ie hie
  simp only [idealVC, Bool.and_eq_true, List.all_eq_true, decide_eq_true_eq] at h
  exact h.1.2 ie hie

theorem idealVC_rootDet {Leaf : Type} [DecidableEq Leaf] : VCRootDet (idealVC Leaf) := by
  intro r r' elems pf _ h h'
  simp only [idealVC, Bool.and_eq_true, beq_iff_eq, decide_eq_true_eq] at h h'
  obtain ⟨arr, tag⟩ := r
  obtain ⟨arr', tag'⟩ := r'
  simp only at h h'
  have h1 : tag = 0 := h.1.1.1.1.1
  have h2 : tag' = 0 := h'.1.1.1.1.1
  have h3 : arr = pf.arr := h.1.1.1.2
  have h4 : arr' = pf.arr := h'.1.1.1.2
  subst h1 h2 h3 h4; rfl

/-- three participants (weights 3, 0, 2; keys 7, 8, 9; key lifetime 16), message 1 signed in round 33 -/
def exParts : List Participant := [⟨7, 16, 3⟩, ⟨8, 16, 0⟩, ⟨9, 16, 2⟩]
def exSig (k : Nat) : SymSig := ⟨k, 32, 1, 0, 0⟩
/-- the state after MakeProver(provenWeight 2, strength 4) and Add of participants 0 and 2 -/
def exProver : Prover SymSig :=
  ⟨1, 33, exParts, 45427, 2, 4, [⟨3, ⟨some (exSig 7), 0⟩⟩, ⟨0, ⟨none, 0⟩⟩, ⟨2, ⟨some (exSig 9), 0⟩⟩], 5⟩
/-- an XOF script: one draw is rejected by the sampling threshold of signed weight 5 -/
def exEnv : IEnv := idealEnv fun _ => [14, 18446744073709551615, 1, 8, 2]

/-- the example state IS what the code produces, and is well-formed by `wf_makeProver` / `wf_add` -/
example : ∃ b0 b1, makeProver (S := SymSig) 1 33 2 45427 exParts 4 = .ok b0 ∧ add b0 0 (exSig 7) = .ok b1 ∧
    add b1 2 (exSig 9) = .ok exProver := ⟨_, _, rfl, rfl, rfl⟩

theorem exProver_wf : WF idealSS exProver := by
  have h0 : makeProver (S := SymSig) 1 33 2 45427 exParts 4 =
      .ok ⟨1, 33, exParts, 45427, 2, 4, List.replicate 3 ⟨0, ⟨none, 0⟩⟩, 0⟩ := rfl
  have w0 := wf_makeProver idealSS _ _ _ _ _ _ _ h0
  have w1 := wf_add idealSS _ w0 0 (exSig 7) (by decide) (by decide)
    (by intro p hp; simp [exParts] at hp; subst hp; decide) _ rfl
  exact wf_add idealSS _ w1 2 (exSig 9) (by decide) (by decide)
    (by intro p hp; simp [exParts] at hp; subst hp; decide) _ rfl

/-- every hypothesis of `honest_proof_verifies` holds for the example … -/
example : exProver.signedWeight > exProver.provenWeight ∧
    numReveals exProver.signedWeight exProver.lnProvenWeight exProver.strengthTarget = .ok 4 ∧
    (∀ leaves, slotLeaves exEnv.ss (commitSigs exProver.sigs) = some leaves → VCComplete exEnv.vcS leaves) ∧
    VCComplete exEnv.vcP exProver.participants ∧
    (∀ leaves, slotLeaves exEnv.ss (commitSigs exProver.sigs) = some leaves →
      (coins exProver.signedWeight 4 (exEnv.H (proverSeed exEnv exProver leaves))).isSome = true) := by
  refine ⟨by decide, by decide, ?_, idealVC_complete _ (by decide), ?_⟩
  · intro leaves h
    have : leaves.length = 3 := by rw [slotLeaves_length _ _ _ h]; rfl
    exact idealVC_complete _ (by rw [this]; decide)
  · intro leaves _
    show (coins 5 4 [14, 18446744073709551615, 1, 8, 2]).isSome = true
    decide

/-- … and so does its conclusion, computed: two reveals (positions 2 and 0), four coins 4, 1, 3, 2 -/
example : (match createProof exEnv exProver with
    | .ok s => some (s.positions, s.reveals.map (·.1), verify exEnv (verifierOf exEnv exProver) 33 1 s)
    | .error _ => none) = some ([2, 0, 2, 0], [2, 0], .ok ()) := by decide

/-- the valid example proof, and some of its single-field mutations as the model decides them -/
def exProof : StateProof SymSig (IRoot (SigLeaf SymSig)) (IPf (SigLeaf SymSig)) (IPf Participant) :=
  match createProof exEnv exProver with
  | .ok s => s
  | .error _ => ⟨⟨[], 1⟩, 0, ⟨[], [], 1, 0⟩, ⟨[], [], 1, 0⟩, 0, [], []⟩

def exV : Verifier (IRoot Participant) := verifierOf exEnv exProver

example : verify exEnv exV 33 1 exProof = .ok () := by decide
example : verify exEnv exV 33 2 exProof = .error .sigInvalid := by decide            -- another message
example : verify exEnv exV 49 1 exProof = .error .sigInvalid := by decide            -- another key period
example : verify exEnv exV 47 1 exProof = .ok () := by decide                        -- same key period (32..47)
example : verify exEnv exV 33 1 { exProof with positions := [2, 0, 0, 0] } = .error .coinRange := by decide
example : verify exEnv exV 33 1 { exProof with saltVersion := 1 } = .error .salt := by decide
example : verify exEnv exV 33 1 { exProof with sigCommit := ⟨exProof.sigCommit.arr, 1⟩ } = .error .sigVC := by decide
example : verify exEnv exV 33 1 { exProof with signedWeight := 6 } = .error .coinRange := by decide
example : verify exEnv exV 33 1
    { exProof with reveals := exProof.reveals.map fun pr => (pr.1, { pr.2 with part := { pr.2.part with weight := pr.2.part.weight + 1 } }) }
    = .error .partVC := by decide

/-- every hypothesis of `tamper_rejected_partial` (and of `verify_accept_sound`) holds for the example -/
example : ∃ leaves, slotLeaves exEnv.ss (commitSigs exProver.sigs) = some leaves ∧ SigBinding exEnv.ss ∧
    VCSound exEnv.vcS leaves ∧ VCSound exEnv.vcP exProver.participants ∧ VCRootDet exEnv.vcS ∧ VCRootDet exEnv.vcP ∧
    exV.partCommit = exEnv.vcP.commit exProver.participants ∧ exProof.sigCommit = exEnv.vcS.commit leaves ∧
    exProof.reveals ≠ [] ∧ verify exEnv exV 33 1 exProof = .ok () :=
  ⟨_, rfl, idealSS_binding, idealVC_sound _, idealVC_sound _, idealVC_rootDet, idealVC_rootDet, rfl, by decide,
    by decide, by decide⟩

/-- hypotheses of `coin_slot_unique` / `coinIndex_search` on the example's committed slots (L = 0, 3, 3) -/
example : Cum 0 (commitSigs exProver.sigs) ∧ totalW (commitSigs exProver.sigs) = 5 ∧
    coinIndex (commitSigs exProver.sigs) 3 = .ok 2 ∧ coinIndex (commitSigs exProver.sigs) 2 = .ok 0 :=
  ⟨commitSigs_cum _ exProver_wf.L0 exProver_wf.bound, by decide, by decide, by decide⟩

example : acceptableWeight 1000 16 1288490188 32 32 = 1000 ∧ acceptableWeight 1000 16 1288490188 32 40 = 1000 ∧
    acceptableWeight 1000 16 1288490188 32 44 = 649 ∧ acceptableWeight 1000 16 1288490188 32 48 = 299 := by decide

/-- `ledger_context` on the example: total weight 5, threshold 2^31 (50 %) gives proven weight 2 as in `exProver` -/
example : validateStateProof exEnv (fun _ => 45427) ⟨32, exV.partCommit, 5, 16, 2 ^ 31, 4⟩ exProof 48 1 = .ok () ∧
    validateStateProof exEnv (fun _ => 45427) ⟨32, exV.partCommit, 5, 16, 2 ^ 31, 4⟩ exProof 48 2 = .error (.crypto .sigInvalid) ∧
    validateStateProof exEnv (fun _ => 45427) ⟨33, exV.partCommit, 5, 16, 2 ^ 31, 4⟩ exProof 48 1 = .error .notMultiple ∧
    validateStateProof exEnv (fun _ => 45427) ⟨32, exV.partCommit, 9, 16, 2 ^ 31, 4⟩ exProof 40 1 = .error .insufficientWeight := by
  decide

/-- `accepted_positions_positive_weight` / `coinInSlot_nat`: the uint64 bounds hold for the example, and the comparison
rejects a zero-weight slot at L = 0 for every coin it is asked about -/
example : (∀ pr ∈ exProof.reveals, pr.2.slot.L < two64 ∧ pr.2.part.weight < two64) ∧
    (∀ c < 8, coinInSlot (⟨⟨some (exSig 8), 0⟩, ⟨8, 16, 0⟩⟩ : Reveal SymSig) c = false) ∧
    coinInSlot (⟨⟨some (exSig 8), 1⟩, ⟨8, 16, 18446744073709551615⟩⟩ : Reveal SymSig) 5 = false := by decide

end Props.C39
