import AlgoVerif.Model.Durable
import AlgoVerif.Lemmas.Durable
/-!
# C09 — the ledger recovers to a consistent prefix after a crash

Model: `Model.Durable` (two stores as lists of committed transactions, block queue, tracker registry, crash = reopen from
the two lists).  Everything below holds for EVERY trace accepted by `run` from `init` and EVERY crash point: a crash point is
the state after some prefix of the trace, prefixes of accepted traces are accepted, and a transaction in flight at that
point is not in the lists (torn = not applied; SQLite's journalling is trusted, not modelled).

* `recover_prefix`            FULL (for the model).  With B := block DB round, T := tracker DB round at the crash point:
                              T ≤ B; the `put` transactions are consecutive and the durable blocks are exactly the first B
                              blocks that were added; every round whose waitCommit returned is ≤ B; OpenLedger yields
                              latest = B and, for EVERY tracker, state = replay genesis (blocks 1..B).
* `ack_durable`               FULL.  acknowledged (WaitForCommit / Ledger.Wait / LatestCommitted) ⇒ in every later recovered state:
                              round ≤ reopened latest and the same block.
* `recover_prefix_after_crash` the same for the reopened system itself (`recover`), so the statement also covers traces with
                              several crashes.
* `recover_prefix_tracker_lag` FULL.  The tracker store may be at ANY earlier transaction boundary (a suffix of its committed
                              transactions lost) while the block store is at the crash instant: still consistent.
* `block_lag_unsafe`          the converse is false: a block store at an earlier boundary than the tracker store can leave
                              T > B (so "each store at any boundary not later than the crash instant" is NOT claimed).
* `accounts_round_atomic`     per-transaction atomicity, the invariant the proof rests on: at every instant the tables of every
                              tracker in the tracker DB are the replay of exactly rounds 1..AccountsRound.
* `scheduled_le_committed`    the other invariant: every pending / prepared / committed tracker commit targets a round
                              ≤ lastCommitted.
* `open_ahead_replays_from_genesis` the safety net of trackerDBInitialize (tracker DB ahead of the block DB ⇒ reset + full replay).
* `recoverFromCrash_*`        catchpoint bookkeeping (model `Model.Durable.CatchpointBook`), PARTIAL: see the section at the end.
-/
namespace Props.C09
open AlgoVerif.Model.Durable AlgoVerif.Lemmas.Durable

variable {Blk Tid σ : Type}

/-- the crash image of a state: the two stores -/
def crashImage (s : Sys Blk) : List (BlockTxn Blk) × List (TrackTxn Blk) := (s.btx, s.ttx)

/-- the property, as a predicate on a pair of stores, the blocks that were added and the confirmed rounds -/
def RecoversPrefix (ap : Tid → σ → Blk → σ) (g : Tid → σ) (btx : List (BlockTxn Blk)) (ttx : List (TrackTxn Blk))
    (added : List Blk) (confirmed : List Nat) : Prop :=
  let B := blockRound btx
  let T := trackerRound ttx
  let o := openLedger ap g btx ttx
  T ≤ B ∧ Contig 0 btx ∧ blocksOf btx = added.take B ∧ (∀ r, r ∈ confirmed → r ≤ B) ∧
    o.latest = B ∧ ∀ i, o.state i = replay ap g (blocksOf btx) i

theorem recoversPrefix_of_inv {ap : Tid → σ → Blk → σ} {g : Tid → σ} {s : Sys Blk} (h : Inv ap g s) :
    RecoversPrefix ap g s.btx s.ttx s.chain s.confirmed := by
  have hT : trackerRound s.ttx ≤ (blocksOf s.btx).length := by
    have := h.round_le; rw [h.lc_eq] at this; exact this
  refine ⟨hT, h.contig, ?_, ?_, rfl, ?_⟩
  · show blocksOf s.btx = s.chain.take (blocksOf s.btx).length
    rw [h.chain_eq]; simp
  · intro r hr
    have := h.conf_ok r hr
    rw [h.lc_eq] at this; exact this
  · intro i
    show ((blocksOf s.btx).drop (trackerRound (resetIfAhead s.btx s.ttx))).foldl (ap i) (trackerData ap g (resetIfAhead s.btx s.ttx) i)
      = (blocksOf s.btx).foldl (ap i) (g i)
    rw [resetIfAhead_of_le hT, h.data_eq i, h.chain_eq, List.take_append_of_le_length hT, ← List.foldl_append, List.take_append_drop]

/-- **C09** for every trace and every crash point. -/
theorem recover_prefix (ap : Tid → σ → Blk → σ) (g : Tid → σ) (es : List (Ev Blk)) (s : Sys Blk)
    (hrun : run (init Blk) es = some s) :
    RecoversPrefix ap g (crashImage s).1 (crashImage s).2 s.chain s.confirmed :=
  recoversPrefix_of_inv (inv_run (inv_init ap g) hrun)

theorem recover_prefix_at (ap : Tid → σ → Blk → σ) (g : Tid → σ) (es fs : List (Ev Blk)) (s : Sys Blk)
    (hrun : run (init Blk) (es ++ fs) = some s) :
    ∃ c, run (init Blk) es = some c ∧ RecoversPrefix ap g c.btx c.ttx c.chain c.confirmed := by
  rw [run_append] at hrun
  cases hc : run (init Blk) es with
  | none => simp [hc] at hrun
  | some c => exact ⟨c, rfl, recover_prefix ap g es c hc⟩

/-- **acknowledged ⇒ durable.**  A round the ledger has acknowledged (the `waitCommit` step: WaitForCommit returned, the
Ledger.Wait channel is closed, LatestCommitted's first component) is, after a crash at ANY later instant of ANY continuation
of the trace (further crashes included), at most the round of the reopened ledger, and the reopened ledger holds for it the
very block that was added. -/
theorem ack_durable (es fs : List (Ev Blk)) (s c : Sys Blk)
    (hrun : run (init Blk) es = some s) (r : Nat) (hack : r ∈ s.confirmed) (hpos : 0 < r)
    (hcont : run s fs = some c) :
    r ≤ (recover c).lastCommitted ∧ (blocksOf (recover c).btx)[r - 1]? = s.chain[r - 1]? := by
  have hi := inv_run (inv_init (fun (_ : Unit) (u : Unit) (_ : Blk) => u) (fun _ => ())) hrun
  obtain ⟨_, x, hx⟩ := mono_run hcont
  have hr : r ≤ (blocksOf s.btx).length := by
    have := hi.conf_ok r hack; rw [hi.lc_eq] at this; exact this
  have hlt : r - 1 < (blocksOf s.btx).length := by omega
  constructor
  · show r ≤ blockRound c.btx
    unfold blockRound; rw [hx, List.length_append]; omega
  · show (blocksOf c.btx)[r - 1]? = s.chain[r - 1]?
    rw [hx, hi.chain_eq, List.getElem?_append_left hlt, List.getElem?_append_left hlt]

/-- the reopened system is again a system for which everything above holds (several crashes) -/
theorem recover_prefix_after_crash (ap : Tid → σ → Blk → σ) (g : Tid → σ) (es : List (Ev Blk)) (s : Sys Blk)
    (hrun : run (init Blk) es = some s) :
    let r := recover s
    r.lastCommitted = blockRound s.btx ∧ r.dbRound = trackerRound s.ttx ∧ r.chain = blocksOf s.btx ∧
      RecoversPrefix ap g r.btx r.ttx r.chain r.confirmed := by
  have hi := inv_run (inv_init ap g) hrun
  have hT : trackerRound s.ttx ≤ blockRound s.btx := by
    have := hi.round_le; rw [hi.lc_eq] at this; exact this
  refine ⟨rfl, ?_, rfl, recoversPrefix_of_inv (inv_recover hi)⟩
  show trackerRound (resetIfAhead s.btx s.ttx) = trackerRound s.ttx
  rw [resetIfAhead_of_le hT]

/-- per-transaction atomicity of commitRound -/
theorem accounts_round_atomic (ap : Tid → σ → Blk → σ) (g : Tid → σ) (es : List (Ev Blk)) (s : Sys Blk)
    (hrun : run (init Blk) es = some s) (i : Tid) :
    trackerData ap g s.ttx i = replay ap g (s.chain.take (trackerRound s.ttx)) i :=
  (inv_run (inv_init ap g) hrun).data_eq i

/-- commits are scheduled only from notifyCommit(committed) -/
theorem scheduled_le_committed (es : List (Ev Blk)) (s : Sys Blk) (hrun : run (init Blk) es = some s) :
    trackerRound s.ttx ≤ s.lastCommitted ∧ (∀ n, s.pending = some n → n ≤ s.lastCommitted) ∧
      (∀ t, s.phase = .prepared t → t.b ≤ s.lastCommitted) ∧ (∀ n, s.phase = .committed n → n ≤ s.lastCommitted) := by
  have h := inv_run (inv_init (fun (_ : Unit) (u : Unit) (_ : Blk) => u) (fun _ => ())) hrun
  refine ⟨h.round_le, h.pending_ok, ?_, ?_⟩
  · intro t ht
    have hp := h.phase_ok
    unfold PhaseOk at hp
    simp only [ht] at hp
    exact hp.2.2.2.1
  · intro n hn
    have hp := h.phase_ok
    unfold PhaseOk at hp
    simp only [hn] at hp
    rw [← hp.1]; exact h.round_le

/-- the safety net of trackerDBInitialize, for ARBITRARY stores (no invariant needed): a tracker DB that is ahead of the block
DB is reset, and OpenLedger then shows the replay of all durable blocks over genesis (this needs every block 1..B, i.e.
nothing forgotten; it is why a `T > B` image still reopens with the right state in the harness) -/
theorem open_ahead_replays_from_genesis (ap : Tid → σ → Blk → σ) (g : Tid → σ) (btx : List (BlockTxn Blk))
    (ttx : List (TrackTxn Blk)) (h : blockRound btx < trackerRound ttx) (i : Tid) :
    (openLedger ap g btx ttx).state i = replay ap g (blocksOf btx) i ∧ (openLedger ap g btx ttx).trackerRound = 0 := by
  have hr : resetIfAhead btx ttx = [] := by
    unfold resetIfAhead; rw [if_neg (by omega)]
  constructor
  · show ((blocksOf btx).drop (trackerRound (resetIfAhead btx ttx))).foldl (ap i) (trackerData ap g (resetIfAhead btx ttx) i) = _
    rw [hr]; simp [trackerRound, trackerData, replay]
  · show trackerRound (resetIfAhead btx ttx) = 0
    rw [hr]; rfl

/-! ### the tracker store at an earlier boundary -/

/-- the tracker store at ANY of its earlier transaction boundaries, the block store at the crash instant -/
theorem recover_prefix_tracker_lag (ap : Tid → σ → Blk → σ) (g : Tid → σ) (es : List (Ev Blk)) (s : Sys Blk)
    (hrun : run (init Blk) es = some s) (j : Nat) :
    RecoversPrefix ap g s.btx (s.ttx.take j) s.chain s.confirmed := by
  have hi := inv_run (inv_init ap g) hrun
  have hl : Lag ap g s.ttx s.chain s.lastCommitted := by
    refine lag_run (inv_init ap g) ?_ hrun
    intro j
    simp [init, trackerRound, trackerData]
  obtain ⟨h1, h2⟩ := hl j
  have hT : trackerRound (s.ttx.take j) ≤ (blocksOf s.btx).length := by
    rw [hi.lc_eq] at h1; exact h1
  obtain ⟨_, c2, c3, c4, _, _⟩ := recoversPrefix_of_inv hi
  refine ⟨hT, c2, c3, c4, rfl, fun i => ?_⟩
  show ((blocksOf s.btx).drop (trackerRound (resetIfAhead s.btx (s.ttx.take j)))).foldl (ap i)
      (trackerData ap g (resetIfAhead s.btx (s.ttx.take j)) i) = (blocksOf s.btx).foldl (ap i) (g i)
  rw [resetIfAhead_of_le hT, h2 i, hi.chain_eq, List.take_append_of_le_length hT, ← List.foldl_append, List.take_append_drop]

/-! ### non-vacuity: a concrete history (blocks are numbers, the one tracker's state is the list of applied blocks) -/

def apL : Unit → List Nat → Nat → List Nat := fun _ st b => st ++ [b]
def gL : Unit → List Nat := fun _ => []

/-- three blocks; 1..2 flushed, the tracker commit of round 1 is prepared and committed, block 3 still queued,
postCommit not yet run -/
def demo : List (Ev Nat) :=
  [.put 11, .put 12, .flushBegin 2, .put 13, .flushCommit, .waitCommit 2, .notifyCommit (some 1), .commitBegin, .commitTxn]

example : (run (init Nat) demo).isSome = true := by decide

example : (run (init Nat) demo).map (fun s => (blockRound s.btx, trackerRound s.ttx, s.q, s.confirmed,
    (openLedger apL gL s.btx s.ttx).state (), replay apL gL (blocksOf s.btx) ()))
    = some (2, 1, [13], [2], [11, 12], [11, 12]) := by rfl

/-- the hypotheses of `recover_prefix` are met by `demo`, and its conclusion is not trivial there (T = 1 < B = 2 < 3 added) -/
example : ∃ s, run (init Nat) demo = some s ∧ RecoversPrefix apL gL s.btx s.ttx s.chain s.confirmed ∧
    trackerRound s.ttx = 1 ∧ blockRound s.btx = 2 ∧ s.chain.length = 3 := by
  cases h : run (init Nat) demo with
  | none => exact absurd h (by decide)
  | some s =>
    refine ⟨s, rfl, recover_prefix apL gL demo s h, ?_, ?_, ?_⟩
    · have : (run (init Nat) demo).map (fun s => trackerRound s.ttx) = some 1 := by decide
      rw [h] at this; simpa using this
    · have : (run (init Nat) demo).map (fun s => blockRound s.btx) = some 2 := by decide
      rw [h] at this; simpa using this
    · have : (run (init Nat) demo).map (fun s => s.chain.length) = some 3 := by decide
      rw [h] at this; simpa using this

/-- the hypotheses of `ack_durable` are met in `demo`: round 2 is acknowledged and the trace continues with a crash -/
example : (run (init Nat) demo).map (fun s => (decide (2 ∈ s.confirmed), (run s [.crash, .put 23]).isSome)) = some (true, true) := by
  decide

/-- a commit scheduled past the durable block round is not a step of the model -/
example : run (init Nat) [.put 11, .put 12, .flushBegin 1, .flushCommit, .notifyCommit (some 2)] = none := by decide

/-- waitCommit does not return for a block that is only queued -/
example : run (init Nat) [.put 11, .waitCommit 1] = none := by decide

/-- after a crash in `demo` the queued block is gone, the confirmed ones are there, and the system continues -/
example : (run (init Nat) (demo ++ [.crash, .put 23, .flushBegin 1, .flushCommit])).map
    (fun s => (blocksOf s.btx, s.dbRound, s.lastCommitted)) = some ([11, 12, 23], 1, 3) := by decide

/-- **the block store must not lag**: in `demo2` the tracker DB is at round 2; a block DB at its earlier boundary (only the
first `put` transaction) has B = 1 < T = 2, and OpenLedger would present the state of round 2 as the state of round 1. -/
def demo2 : List (Ev Nat) :=
  [.put 11, .flushBegin 1, .flushCommit, .put 12, .flushBegin 1, .flushCommit, .notifyCommit (some 2), .commitBegin, .commitTxn]

theorem block_lag_unsafe : ∃ s, run (init Nat) demo2 = some s ∧
    ¬ RecoversPrefix apL gL (s.btx.take 1) s.ttx s.chain s.confirmed := by
  cases h : run (init Nat) demo2 with
  | none => exact absurd h (by decide)
  | some s =>
    refine ⟨s, rfl, fun hp => ?_⟩
    have h1 : (run (init Nat) demo2).map (fun s => (blockRound (s.btx.take 1), trackerRound s.ttx)) = some (1, 2) := by decide
    rw [h] at h1
    simp only [Option.map_some, Option.some.injEq, Prod.mk.injEq] at h1
    have := hp.1
    simp only [h1.1, h1.2] at this
    omega

/-! ### catchpoint bookkeeping: `recoverFromCrash` (model level only, PARTIAL)

The full statement one would like is `recoverFromCrashIdempotentStatement`.  It is FALSE for the model as the code stands
(`recoverFromCrash_not_idempotent`): a catchpoint whose label is written but whose file is not produced (files disabled, or
the data file is missing) keeps its `unfinishedcatchpoints` row (createCatchpoint returns before DeleteUnfinishedCatchpoint);
the first run then prunes the first-stage row it depends on, so a second run deletes the row instead.  Only the bookkeeping
row differs — proved: the marker is always cleared; when the first run leaves no unfinished row the second run is the
identity (`recoverFromCrash_idempotent_of_finished`); with the stored lookback 0 it is the identity anyway. -/

def recoverFromCrashIdempotentStatement : Prop :=
  ∀ (gen : Bool) (d lb : Nat) (c : CatchpointBook),
    recoverFromCrash gen d lb (recoverFromCrash gen d lb c) = recoverFromCrash gen d lb c

theorem finishCatchpoint_marker (gen : Bool) (lb r : Nat) (c : CatchpointBook) :
    (finishCatchpoint gen lb r c).writingFirstStage = c.writingFirstStage := by
  unfold finishCatchpoint
  split
  · split <;> rfl
  · rfl

theorem finishCatchpoints_marker (gen : Bool) (lb : Nat) (us : List Nat) (c : CatchpointBook) :
    (us.foldl (fun c r => finishCatchpoint gen lb r { c with cpFiles := c.cpFiles.filter (· ≠ r) }) c).writingFirstStage
      = c.writingFirstStage := by
  induction us generalizing c with
  | nil => rfl
  | cons u us ih => simp only [List.foldl_cons]; rw [ih, finishCatchpoint_marker]

theorem finishFirstStageAfterCrash_clears (gen : Bool) (d : Nat) (c : CatchpointBook) :
    (finishFirstStageAfterCrash gen d c).writingFirstStage = false := by
  unfold finishFirstStageAfterCrash
  split
  · rfl
  · rename_i h; simpa using h

/-- after recovery the "writing first stage info" marker is clear: the half-written data file is gone, its info recorded -/
theorem recoverFromCrash_clears_marker (gen : Bool) (d lb : Nat) (c : CatchpointBook) :
    (recoverFromCrash gen d lb c).writingFirstStage = false := by
  unfold recoverFromCrash
  simp only
  split
  · exact finishFirstStageAfterCrash_clears gen d c
  · unfold pruneFirstStage finishCatchpointsAfterCrash
    split
    · show CatchpointBook.writingFirstStage (List.foldl _ _ _) = false
      rw [finishCatchpoints_marker]; exact finishFirstStageAfterCrash_clears gen d c
    · rw [finishCatchpoints_marker]; exact finishFirstStageAfterCrash_clears gen d c

theorem finishFirstStageAfterCrash_idempotent (gen : Bool) (d : Nat) (c : CatchpointBook) :
    finishFirstStageAfterCrash gen d (finishFirstStageAfterCrash gen d c) = finishFirstStageAfterCrash gen d c := by
  have h := finishFirstStageAfterCrash_clears gen d c
  generalize finishFirstStageAfterCrash gen d c = c' at h
  unfold finishFirstStageAfterCrash
  simp [h]

theorem pruneFirstStage_idempotent (d lb : Nat) (c : CatchpointBook) :
    pruneFirstStage d lb (pruneFirstStage d lb c) = pruneFirstStage d lb c := by
  unfold pruneFirstStage
  split
  · rename_i h
    simp only
    congr 1
    · simp [List.filter_filter]
    · rw [List.filter_filter]
      apply List.filter_congr
      intro x _
      simp only [List.mem_filter, decide_eq_true_eq]
      by_cases hx : x ∈ c.firstStage ∧ x ≤ d - lb
      · simp [hx]
      · have : ¬ ((x ∈ c.firstStage ∧ d - lb < x) ∧ x ≤ d - lb) := by omega
        simp [hx, this]
  · rfl

/-- if the first recovery completes every unfinished catchpoint, recovering again changes nothing -/
theorem recoverFromCrash_idempotent_of_finished (gen : Bool) (d lb : Nat) (c : CatchpointBook)
    (hfin : (recoverFromCrash gen d lb c).unfinished = []) :
    recoverFromCrash gen d lb (recoverFromCrash gen d lb c) = recoverFromCrash gen d lb c := by
  have hm := recoverFromCrash_clears_marker gen d lb c
  by_cases hlb : lb = 0
  · subst hlb
    simp only [recoverFromCrash, if_true]
    exact finishFirstStageAfterCrash_idempotent gen d c
  · have hR : recoverFromCrash gen d lb c
        = pruneFirstStage d lb (finishCatchpointsAfterCrash gen lb (finishFirstStageAfterCrash gen d c)) := by
      simp [recoverFromCrash, hlb]
    generalize hc' : recoverFromCrash gen d lb c = c' at hm hfin hR
    have h1 : finishFirstStageAfterCrash gen d c' = c' := by
      unfold finishFirstStageAfterCrash; simp [hm]
    have h2 : finishCatchpointsAfterCrash gen lb c' = c' := by
      unfold finishCatchpointsAfterCrash; rw [hfin]; rfl
    show recoverFromCrash gen d lb c' = c'
    simp only [recoverFromCrash, hlb, if_false, h1, h2]
    rw [hR]; exact pruneFirstStage_idempotent d lb _

/-- a concrete instance of the hypothesis: files are generated, dbRound 20, lookback 4; the first stage of round 20 was
interrupted and the catchpoint of round 20 (accounts round 16) is unfinished; recovery completes both -/
def cpDemo : CatchpointBook :=
  { writingFirstStage := true, firstStage := [16], unfinished := [20], labels := [16], last := some 16, dataFiles := [16], cpFiles := [16] }

example : (recoverFromCrash true 20 4 cpDemo).unfinished = [] ∧ (recoverFromCrash true 20 4 cpDemo).last = some 20 ∧
    (recoverFromCrash true 20 4 cpDemo).cpFiles = [20, 16] ∧ (recoverFromCrash true 20 4 cpDemo).firstStage = [20] := by decide

/-- the unrestricted statement does not hold for the code as it stands (catchpoint tracking without files: `gen = false`) -/
theorem recoverFromCrash_not_idempotent : ¬ recoverFromCrashIdempotentStatement := by
  intro h
  have := h false 20 4 { cpDemo with writingFirstStage := false }
  revert this
  decide

/-- … but what differs is only the bookkeeping row: labels, last label, first-stage rows and files agree (this instance) -/
example :
    let c := { cpDemo with writingFirstStage := false }
    let r1 := recoverFromCrash false 20 4 c
    let r2 := recoverFromCrash false 20 4 r1
    r1.unfinished = [20] ∧ r2.unfinished = [] ∧ r2.labels = r1.labels ∧ r2.last = r1.last ∧ r2.firstStage = r1.firstStage ∧
      r2.dataFiles = r1.dataFiles ∧ r2.cpFiles = r1.cpFiles := by decide

end Props.C09
