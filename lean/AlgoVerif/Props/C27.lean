/-
C27 — Suspension and expiry lists are justified.

About `Model.KnockOffline` (hand model of the knock-offline step of ledger/eval/eval.go:endOfBlock and of
ledger/apply/challenge.go, tied to the real evaluator by correspondence) and, through `Props.C27T.isAbsent_spec`,
about `Gen.Fees.isAbsent` (regenerated from eval.go on every run, tie T).
-/
import AlgoVerif.Model.KnockOffline
import AlgoVerif.Props.C27T
namespace Props.C27
open Model.KnockOffline

/-! ### the justification predicates (the property's vocabulary) -/

/-- the stake-proportional absence rule in closed form -/
def AbsentByRule (S s ls r : Nat) : Prop :=
  ls ≠ 0 ∧ s ≠ 0 ∧ 20 * S / s ≤ 4294967295 ∧ (ls + 20 * S / s) % 2^64 < r

/-- the account fails a challenge that is in effect -/
def ChallengeFailed (ch : Challenge) (a : Addr) (ls : Nat) : Prop :=
  ch.round ≠ 0 ∧ bitsMatch ch.seed a ch.bits = some true ∧ ls < ch.round

/-- an account may be marked expired: it has vote keys and they ran out before this round -/
def ExpiredJustified (env : Env) (st : State) (a : Addr) : Prop :=
  (get st a).hasKey = true ∧ (get st a).voteLast < env.round

/-- an account may be marked absent: online, with a balance, incentive-eligible, and absent by the rule
(stake taken at the balance round, `env.stake`) or failing the active challenge -/
def AbsentJustified (env : Env) (st : State) (a : Addr) : Prop :=
  (get st a).status = .online ∧ (get st a).bal > 0 ∧ (get st a).eligible = true ∧
  (AbsentByRule env.totalStake (env.stake a) (get st a).lastSeen env.round ∨
   ChallengeFailed env.ch a (get st a).lastSeen)

/-! ### tie T: the closed form is the translated Go function -/

theorem absent_spec_iff (S s ls r : Nat) : Spec.Fees.absent S s ls r = true ↔ AbsentByRule S s ls r := by
  unfold Spec.Fees.absent AbsentByRule
  have e : Spec.Fees.M = 2^64 := by decide
  rw [e]
  exact decide_eq_true_iff

/-- the rule the model uses is exactly eval.go:isAbsent on 64-bit operands -/
theorem absent_rule_is_code (S s ls r : Nat) (hS : S < 2^64) (hs : s < 2^64) (hls : ls < 2^64) (hr : r < 2^64) :
    Gen.Fees.isAbsent S s ls r = true ↔ AbsentByRule S s ls r :=
  Props.C27T.isAbsent_spec S s ls r hS hs hls hr

theorem absentOrChallenged_iff (env : Env) (a : Addr) (ls : Nat) :
    isAbsentOrChallenged env a ls = true ↔
      AbsentByRule env.totalStake (env.stake a) ls env.round ∨ ChallengeFailed env.ch a ls := by
  unfold isAbsentOrChallenged Challenge.failed ChallengeFailed
  rw [Bool.or_eq_true, absent_spec_iff]
  simp only [Bool.and_eq_true, bne_iff_ne, ne_eq, beq_iff_eq, decide_eq_true_eq, and_assoc]

/-! ### the two validators, characterised -/

theorem validateExpiredLoop_ok_iff (round : Nat) (st : State) (l seen : List Addr) :
    validateExpiredLoop round st l seen = .ok () ↔
      (∀ a ∈ l, a ∉ seen) ∧ l.Nodup ∧ ∀ a ∈ l, (get st a).hasKey = true ∧ (get st a).voteLast < round := by
  induction l generalizing seen with
  | nil => simp [validateExpiredLoop]
  | cons a rest ih =>
    unfold validateExpiredLoop
    by_cases h1 : a ∈ seen
    · simp [h1]
    by_cases h2 : (get st a).hasKey = true
    · by_cases h3 : (get st a).voteLast ≥ round
      · have : ¬ (get st a).voteLast < round := by omega
        simp [h1, h2, h3, this]
      · have h3' : (get st a).voteLast < round := by omega
        simp only [h1, h2, h3, if_false, Bool.not_true, Bool.false_eq_true]
        rw [ih (a :: seen)]
        simp only [List.mem_cons, not_or, List.nodup_cons, forall_eq_or_imp]
        constructor
        · rintro ⟨hA, hB, hC⟩
          exact ⟨⟨h1, fun b hb => (hA b hb).2⟩, ⟨fun hmem => (hA a hmem).1 rfl, hB⟩, ⟨h2, h3'⟩, hC⟩
        · rintro ⟨⟨_, hA⟩, ⟨hna, hB⟩, _, hC⟩
          exact ⟨fun b hb => ⟨fun e => hna (e ▸ hb), hA b hb⟩, hB, hC⟩
    · have h2' : (get st a).hasKey = false := by simpa using h2
      simp [h1, h2']

/-- `validateExpiredOnlineAccounts` accepts exactly the duplicate-free lists within the maximum all of whose
members have keys that ran out before this round -/
theorem validateExpired_ok_iff (env : Env) (st : State) (l : List Addr) (hv : env.validate = true) :
    validateExpired env st l = .ok () ↔
      l.length ≤ env.maxExpired ∧ l.Nodup ∧ ∀ a ∈ l, ExpiredJustified env st a := by
  unfold validateExpired ExpiredJustified
  simp only [hv, Bool.not_true, Bool.false_eq_true, if_false]
  by_cases hl : l.length > env.maxExpired
  · simp only [hl, if_true]; constructor
    · intro h; cases h
    · intro h; omega
  · simp only [hl, if_false]
    rw [validateExpiredLoop_ok_iff]
    simp only [List.not_mem_nil, not_false_eq_true, implies_true, true_and]
    constructor
    · intro h; exact ⟨by omega, h⟩
    · intro h; exact h.2

theorem validateAbsentLoop_ok_iff (env : Env) (st : State) (l seen : List Addr) :
    validateAbsentLoop env st l seen = .ok () ↔
      (∀ a ∈ l, a ∉ seen) ∧ l.Nodup ∧ ∀ a ∈ l, AbsentJustified env st a := by
  induction l generalizing seen with
  | nil => simp [validateAbsentLoop]
  | cons a rest ih =>
    unfold validateAbsentLoop
    by_cases h1 : a ∈ seen
    · simp [h1]
    by_cases h2 : (get st a).status = .online
    · by_cases h3 : (get st a).bal = 0
      · simp [h1, h2, h3, AbsentJustified]
      · by_cases h4 : (get st a).eligible = true
        · by_cases h5 : isAbsentOrChallenged env a (get st a).lastSeen = true
          · have hj : AbsentJustified env st a :=
              ⟨h2, by omega, h4, (absentOrChallenged_iff env a _).mp h5⟩
            simp only [h1, h2, h3, h4, h5, if_false, if_true, ne_eq, not_true_eq_false, Bool.not_true, Bool.false_eq_true]
            rw [ih (a :: seen)]
            simp only [List.mem_cons, not_or, List.nodup_cons, forall_eq_or_imp]
            constructor
            · rintro ⟨hA, hB, hC⟩
              exact ⟨⟨h1, fun b hb => (hA b hb).2⟩, ⟨fun hmem => (hA a hmem).1 rfl, hB⟩, hj, hC⟩
            · rintro ⟨⟨_, hA⟩, ⟨hna, hB⟩, _, hC⟩
              exact ⟨fun b hb => ⟨fun e => hna (e ▸ hb), hA b hb⟩, hB, hC⟩
          · have hnj : ¬ AbsentJustified env st a := fun hj => h5 ((absentOrChallenged_iff env a _).mpr hj.2.2.2)
            simp only [h1, h2, h3, h4, h5, if_false, ne_eq, not_true_eq_false, Bool.not_true, Bool.false_eq_true]
            constructor
            · intro h; cases h
            · rintro ⟨_, _, hC⟩; exact absurd (hC a (List.mem_cons_self ..)) hnj
        · have h4' : (get st a).eligible = false := by simpa using h4
          simp [h1, h2, h3, h4', AbsentJustified]
    · simp [h1, h2, AbsentJustified]

/-- `validateAbsentOnlineAccounts` accepts exactly the duplicate-free lists within the maximum all of whose
members are online, funded, incentive-eligible and absent by the rule or by a failed challenge -/
theorem validateAbsent_ok_iff (env : Env) (st : State) (l : List Addr) (hv : env.validate = true) :
    validateAbsent env st l = .ok () ↔
      l.length ≤ env.maxAbsent ∧ l.Nodup ∧ ∀ a ∈ l, AbsentJustified env st a := by
  unfold validateAbsent
  simp only [hv, Bool.not_true, Bool.false_eq_true, if_false]
  by_cases hl : l.length > env.maxAbsent
  · simp only [hl, if_true]; constructor
    · intro h; cases h
    · intro h; omega
  · simp only [hl, if_false]
    rw [validateAbsentLoop_ok_iff]
    simp only [List.not_mem_nil, not_false_eq_true, implies_true, true_and]
    constructor
    · intro h; exact ⟨by omega, h⟩
    · intro h; exact h.2

/-! ### the design's two headline theorems -/

/-- validate ok → every listed account has vote keys, voteLastValid < round; no duplicates; within the maximum -/
theorem expired_justified (env : Env) (st : State) (expired : List Addr) (hv : env.validate = true)
    (h : validateExpired env st expired = .ok ()) :
    (∀ a ∈ expired, (get st a).hasKey = true ∧ (get st a).voteLast < env.round) ∧
      expired.Nodup ∧ expired.length ≤ env.maxExpired := by
  obtain ⟨h1, h2, h3⟩ := (validateExpired_ok_iff env st expired hv).mp h
  exact ⟨h3, h2, h1⟩

/-- validate ok → every listed account is online, has a balance, is incentive-eligible and is absent by the
stake-proportional rule or failed the active challenge; no duplicates; within the maximum -/
theorem absent_justified (env : Env) (st : State) (absent : List Addr) (hv : env.validate = true)
    (h : validateAbsent env st absent = .ok ()) :
    (∀ a ∈ absent, (get st a).status = .online ∧ (get st a).bal > 0 ∧ (get st a).eligible = true ∧
        (AbsentByRule env.totalStake (env.stake a) (get st a).lastSeen env.round ∨
         ChallengeFailed env.ch a (get st a).lastSeen)) ∧
      absent.Nodup ∧ absent.length ≤ env.maxAbsent := by
  obtain ⟨h1, h2, h3⟩ := (validateAbsent_ok_iff env st absent hv).mp h
  exact ⟨h3, h2, h1⟩

/-- the same with the rule stated through the Go function itself (regenerated `isAbsent`), for 64-bit operands -/
theorem absent_justified_code (env : Env) (st : State) (absent : List Addr) (hv : env.validate = true)
    (hS : env.totalStake < 2^64) (hs : ∀ a, env.stake a < 2^64) (hr : env.round < 2^64)
    (hls : ∀ a, (get st a).lastSeen < 2^64)
    (h : validateAbsent env st absent = .ok ()) :
    ∀ a ∈ absent, (get st a).status = .online ∧ (get st a).bal > 0 ∧ (get st a).eligible = true ∧
        (Gen.Fees.isAbsent env.totalStake (env.stake a) (get st a).lastSeen env.round = true ∨
         ChallengeFailed env.ch a (get st a).lastSeen) := by
  intro a ha
  obtain ⟨h1, h2, h3, h4⟩ := (absent_justified env st absent hv h).1 a ha
  refine ⟨h1, h2, h3, ?_⟩
  rcases h4 with h4 | h4
  · exact Or.inl ((absent_rule_is_code _ _ _ _ hS (hs a) (hls a) hr).mpr h4)
  · exact Or.inr h4

/-! ### application: reset / suspend touch only the listed accounts -/

/-- state after applying an idempotent update `f` to every listed account, in list order -/
theorem get_foldl_put (f : Acct → Acct) (hf : ∀ v, f (f v) = f v) (l : List Addr) (st : State) (x : Addr) :
    get (l.foldl (fun s a => put s a (f (get s a))) st) x = if x ∈ l then f (get st x) else get st x := by
  induction l generalizing st with
  | nil => simp
  | cons a rest ih =>
    rw [List.foldl_cons, ih, get_put]
    by_cases hxa : x = a
    · subst hxa
      by_cases hr : x ∈ rest <;> simp [hr, hf]
    · by_cases hr : x ∈ rest <;> simp [hr, hxa]

theorem clearOnline_idem (v : Acct) : v.clearOnline.clearOnline = v.clearOnline := rfl
theorem suspend_idem (v : Acct) : v.suspend.suspend = v.suspend := rfl

theorem get_resetExpired (env : Env) (st st1 : State) (l : List Addr) (h : resetExpired env st l = .ok st1) (x : Addr) :
    get st1 x = if x ∈ l then (get st x).clearOnline else get st x := by
  unfold resetExpired at h
  split at h
  · cases h
  · cases h; exact get_foldl_put Acct.clearOnline clearOnline_idem l st x

theorem get_suspendAbsent (st : State) (l : List Addr) (x : Addr) :
    get (suspendAbsent st l) x = if x ∈ l then (get st x).suspend else get st x :=
  get_foldl_put Acct.suspend suspend_idem l st x

/-- `knockOffline` succeeds exactly when its four steps do -/
theorem knockOffline_ok_iff (env : Env) (st st' : State) (E A : List Addr) :
    knockOffline env st E A = .ok st' ↔
      validateExpired env st E = .ok () ∧ ∃ st1, resetExpired env st E = .ok st1 ∧
        validateAbsent env st1 A = .ok () ∧ st' = suspendAbsent st1 A := by
  unfold knockOffline
  cases h1 : validateExpired env st E with
  | error e => simp [bind, Except.bind]
  | ok u =>
    cases h2 : resetExpired env st E with
    | error e => simp [bind, Except.bind]
    | ok st1 =>
      cases h3 : validateAbsent env st1 A with
      | error e => simp [bind, Except.bind, h3]
      | ok u2 =>
        simp only [bind, Except.bind, pure, Except.pure, Except.ok.injEq, true_and, exists_eq_left', h3]
        exact eq_comm

/-- only listed accounts are touched by the end-of-block knock-offline step -/
theorem unlisted_untouched (env : Env) (st st' : State) (E A : List Addr)
    (h : knockOffline env st E A = .ok st') (x : Addr) (hE : x ∉ E) (hA : x ∉ A) : get st' x = get st x := by
  obtain ⟨_, st1, h2, _, rfl⟩ := (knockOffline_ok_iff env st st' E A).mp h
  rw [get_suspendAbsent, if_neg hA, get_resetExpired env st st1 E h2, if_neg hE]

/-- conversely every listed account ends offline: expired ones without keys, absent ones ineligible (keys kept
unless the account was also on the expired list, which validation excludes) -/
theorem listed_knocked (env : Env) (st st' : State) (E A : List Addr)
    (h : knockOffline env st E A = .ok st') (x : Addr) :
    (x ∈ E → (get st' x).status = .offline ∧ (get st' x).hasKey = false ∧ (get st' x).voteLast = 0) ∧
    (x ∈ A → (get st' x).status = .offline ∧ (get st' x).eligible = false) := by
  obtain ⟨_, st1, h2, _, rfl⟩ := (knockOffline_ok_iff env st st' E A).mp h
  rw [get_suspendAbsent, get_resetExpired env st st1 E h2]
  constructor
  · intro hx
    by_cases hA : x ∈ A <;> simp [hA, hx, Acct.suspend, Acct.clearOnline]
  · intro hx
    simp [hx, Acct.suspend]

/-- an account whose status, keys or eligibility changed in the step was on one of the lists -/
theorem changed_only_if_listed (env : Env) (st st' : State) (E A : List Addr)
    (h : knockOffline env st E A = .ok st') (x : Addr) (hx : get st' x ≠ get st x) : x ∈ E ∨ x ∈ A := by
  by_cases hE : x ∈ E
  · exact Or.inl hE
  · by_cases hA : x ∈ A
    · exact Or.inr hA
    · exact absurd (unlisted_untouched env st st' E A h x hE hA) hx

/-! ### the property: an accepted block's lists are justified (and only those are accepted) -/

/-- C27, full statement, over the state the block's transactions left (`st`): the knock-offline step of a
validating evaluator succeeds iff both lists are within their maxima, duplicate-free, disjoint, every expired
member has keys that ran out before this round, and every absent member is online, funded, incentive-eligible and
absent by the stake-proportional rule (stake at the balance round) or failed the active challenge. -/
def C27Statement : Prop :=
  ∀ (env : Env) (st : State) (E A : List Addr), env.validate = true →
    ((∃ st', knockOffline env st E A = .ok st') ↔
      (E.length ≤ env.maxExpired ∧ E.Nodup ∧ (∀ a ∈ E, ExpiredJustified env st a)) ∧
      (A.length ≤ env.maxAbsent ∧ A.Nodup ∧ (∀ a ∈ A, a ∉ E ∧ AbsentJustified env st a)))

theorem absentJustified_congr (env : Env) (st st1 : State) (a : Addr) (h : get st1 a = get st a) :
    AbsentJustified env st1 a ↔ AbsentJustified env st a := by
  unfold AbsentJustified; rw [h]

theorem accepted_iff_justified : C27Statement := by
  intro env st E A hv
  constructor
  · rintro ⟨st', h⟩
    obtain ⟨h1, st1, h2, h3, _⟩ := (knockOffline_ok_iff env st st' E A).mp h
    have hE := (validateExpired_ok_iff env st E hv).mp h1
    obtain ⟨hl, hnd, hj⟩ := (validateAbsent_ok_iff env st1 A hv).mp h3
    refine ⟨hE, hl, hnd, fun a ha => ?_⟩
    have hja := hj a ha
    have hnot : a ∉ E := by
      intro hmem
      have := get_resetExpired env st st1 E h2 a
      rw [if_pos hmem] at this
      have hs := hja.1
      rw [this] at hs
      simp [Acct.clearOnline] at hs
    have hsame : get st1 a = get st a := by
      rw [get_resetExpired env st st1 E h2 a, if_neg hnot]
    exact ⟨hnot, (absentJustified_congr env st st1 a hsame).mp hja⟩
  · rintro ⟨⟨hEl, hEn, hEj⟩, hAl, hAn, hAj⟩
    have h1 : validateExpired env st E = .ok () := (validateExpired_ok_iff env st E hv).mpr ⟨hEl, hEn, hEj⟩
    have h2 : resetExpired env st E = .ok (E.foldl (fun s a => put s a (get s a).clearOnline) st) := by
      unfold resetExpired
      rw [if_neg (by omega)]
    refine ⟨_, (knockOffline_ok_iff env st _ E A).mpr ⟨h1, _, h2, ?_, rfl⟩⟩
    refine (validateAbsent_ok_iff env _ A hv).mpr ⟨hAl, hAn, fun a ha => ?_⟩
    have hsame := get_resetExpired env st _ E h2 a
    rw [if_neg (hAj a ha).1] at hsame
    exact (absentJustified_congr env st _ a hsame).mpr (hAj a ha).2

/-- the direction the property text states: accepted ⇒ justified -/
theorem accepted_block_justified (env : Env) (st st' : State) (E A : List Addr) (hv : env.validate = true)
    (h : knockOffline env st E A = .ok st') :
    (∀ a ∈ E, ExpiredJustified env st a) ∧ (∀ a ∈ A, AbsentJustified env st a) := by
  obtain ⟨⟨_, _, hE⟩, _, _, hA⟩ := (accepted_iff_justified env st E A hv).mp ⟨st', h⟩
  exact ⟨hE, fun a ha => (hA a ha).2⟩

/-! ### generateKnockOfflineAccountsList: the lists it produces are accepted -/

/-- loop invariant of the generator: both lists consist of visited, non-participating, justified, pairwise
distinct accounts and respect the maxima -/
structure GenInv (env : Env) (st : State) (part visited : List Addr) (acc : List Addr × List Addr) : Prop where
  sub1 : ∀ a ∈ acc.1, a ∈ visited
  sub2 : ∀ a ∈ acc.2, a ∈ visited
  np1 : ∀ a ∈ acc.1, a ∉ part
  np2 : ∀ a ∈ acc.2, a ∉ part
  nd1 : acc.1.Nodup
  nd2 : acc.2.Nodup
  disj : ∀ a ∈ acc.2, a ∉ acc.1
  len1 : acc.1.length ≤ env.maxExpired
  len2 : acc.2.length ≤ env.maxAbsent
  j1 : ∀ a ∈ acc.1, ExpiredJustified env st a
  j2 : ∀ a ∈ acc.2, AbsentJustified env st a

theorem genInv_mono (env : Env) (st : State) (part visited : List Addr) (acc : List Addr × List Addr) (a : Addr)
    (h : GenInv env st part visited acc) : GenInv env st part (visited ++ [a]) acc :=
  { h with sub1 := fun b hb => List.mem_append_left _ (h.sub1 b hb),
           sub2 := fun b hb => List.mem_append_left _ (h.sub2 b hb) }

theorem genStep_inv (env : Env) (st : State) (part visited : List Addr) (acc : List Addr × List Addr) (a : Addr)
    (h : GenInv env st part visited acc) (hnew : a ∉ visited) :
    GenInv env st part (visited ++ [a]) (genStep env part acc (candOf st a)) := by
  have hm := genInv_mono env st part visited acc a h
  unfold genStep candOf
  simp only
  split
  · exact hm
  rename_i hbal
  split
  · exact hm
  rename_i hpart
  have hn1 : a ∉ acc.1 := fun hmem => hnew (h.sub1 a hmem)
  have hn2 : a ∉ acc.2 := fun hmem => hnew (h.sub2 a hmem)
  split
  · rename_i hexp
    obtain ⟨hk, hv, hlen⟩ := hexp
    refine { hm with sub1 := ?_, np1 := ?_, nd1 := ?_, disj := ?_, len1 := ?_, j1 := ?_ }
    · intro b hb
      rcases List.mem_append.mp hb with hb | hb
      · exact hm.sub1 b hb
      · exact List.mem_append_right _ hb
    · intro b hb
      rcases List.mem_append.mp hb with hb | hb
      · exact h.np1 b hb
      · rw [List.mem_singleton.mp hb]; exact hpart
    · rw [List.nodup_append]
      refine ⟨h.nd1, (by simp), ?_⟩
      intro x hx y hy hxy
      rw [List.mem_singleton.mp hy] at hxy
      exact hn1 (hxy ▸ hx)
    · intro b hb hmem
      rcases List.mem_append.mp hmem with hmem | hmem
      · exact h.disj b hb hmem
      · rw [List.mem_singleton.mp hmem] at hb; exact hn2 hb
    · rw [List.length_append, List.length_singleton]; omega
    · intro b hb
      rcases List.mem_append.mp hb with hb | hb
      · exact h.j1 b hb
      · rw [List.mem_singleton.mp hb]; exact ⟨hk, hv⟩
  split
  · exact hm
  rename_i hroom
  split
  · rename_i habs
    obtain ⟨hon, hel, hab⟩ := habs
    have hj : AbsentJustified env st a :=
      ⟨hon, Nat.pos_of_ne_zero hbal, hel, (absentOrChallenged_iff env a _).mp hab⟩
    refine { hm with sub2 := ?_, np2 := ?_, nd2 := ?_, disj := ?_, len2 := ?_, j2 := ?_ }
    · intro b hb
      rcases List.mem_append.mp hb with hb | hb
      · exact hm.sub2 b hb
      · exact List.mem_append_right _ hb
    · intro b hb
      rcases List.mem_append.mp hb with hb | hb
      · exact h.np2 b hb
      · rw [List.mem_singleton.mp hb]; exact hpart
    · rw [List.nodup_append]
      refine ⟨h.nd2, (by simp), ?_⟩
      intro x hx y hy hxy
      rw [List.mem_singleton.mp hy] at hxy
      exact hn2 (hxy ▸ hx)
    · intro b hb
      rcases List.mem_append.mp hb with hb | hb
      · exact h.disj b hb
      · rw [List.mem_singleton.mp hb]; exact hn1
    · rw [List.length_append, List.length_singleton]; omega
    · intro b hb
      rcases List.mem_append.mp hb with hb | hb
      · exact h.j2 b hb
      · rw [List.mem_singleton.mp hb]; exact hj
  · exact hm

theorem generate_inv_aux (env : Env) (st : State) (part : List Addr) (addrs visited : List Addr)
    (acc : List Addr × List Addr) (h : GenInv env st part visited acc)
    (hfresh : ∀ a ∈ addrs, a ∉ visited) (hnd : addrs.Nodup) :
    GenInv env st part (visited ++ addrs)
      ((addrs.map (candOf st)).foldl (genStep env part) acc) := by
  induction addrs generalizing visited acc with
  | nil => simpa using h
  | cons a rest ih =>
    rw [List.map_cons, List.foldl_cons]
    have hstep := genStep_inv env st part visited acc a h (hfresh a (List.mem_cons_self ..))
    have hnd' := List.nodup_cons.mp hnd
    have := ih (visited ++ [a]) _ hstep
      (fun b hb hmem => by
        rcases List.mem_append.mp hmem with hmem | hmem
        · exact hfresh b (List.mem_cons_of_mem _ hb) hmem
        · rw [List.mem_singleton.mp hmem] at hb; exact hnd'.1 hb)
      hnd'.2
    simpa [List.append_assoc] using this

/-- whatever order the candidate map is visited in, the generator's lists are justified, duplicate-free, disjoint,
within the maxima and contain none of the node's own participating accounts -/
theorem generated_lists_justified (env : Env) (st : State) (part addrs : List Addr) (hnd : addrs.Nodup) :
    GenInv env st part addrs (generate env part (addrs.map (candOf st))) := by
  have h0 : GenInv env st part [] ([], []) :=
    ⟨by simp, by simp, by simp, by simp, List.nodup_nil, List.nodup_nil, by simp, by simp, by simp, by simp, by simp⟩
  simpa [generate] using generate_inv_aux env st part addrs [] ([], []) h0 (by simp) hnd

/-- the lists produced by generateKnockOfflineAccountsList pass the validators and are applied
(for a duplicate-free candidate set whose entries agree with the end-of-block state) -/
theorem generated_lists_validate (env : Env) (st : State) (part addrs : List Addr) (hnd : addrs.Nodup) :
    ∃ st', knockOffline env st (generate env part (addrs.map (candOf st))).1
      (generate env part (addrs.map (candOf st))).2 = .ok st' := by
  have inv := generated_lists_justified env st part addrs hnd
  by_cases hv : env.validate = true
  · exact (accepted_iff_justified env st _ _ hv).mpr
      ⟨⟨inv.len1, inv.nd1, inv.j1⟩, inv.len2, inv.nd2, fun a ha => ⟨inv.disj a ha, inv.j2 a ha⟩⟩
  · have hv' : env.validate = false := by simpa using hv
    have h2 : resetExpired env st (generate env part (addrs.map (candOf st))).1 =
        .ok ((generate env part (addrs.map (candOf st))).1.foldl (fun s a => put s a (get s a).clearOnline) st) := by
      unfold resetExpired; rw [if_neg (by have := inv.len1; omega)]
    exact ⟨suspendAbsent _ (generate env part (addrs.map (candOf st))).2,
      (knockOffline_ok_iff env st _ _ _).mpr
        ⟨by unfold validateExpired; simp [hv'], _, h2, by unfold validateAbsent; simp [hv'], rfl⟩⟩

/-! ### the challenge mechanism -/

/-- the index guard makes the partial-byte access of `bitsMatch` safe: Go never panics here -/
theorem bitsMatch_never_panics (a b : Addr) (n : Int) : bitsMatch a b n ≠ none := by
  unfold bitsMatch
  split
  · simp
  · rename_i hg
    simp only
    split
    · simp
    · split
      · simp
      · rename_i hk
        cases hda : a.drop (n.toNat / 8) with
        | nil => have := List.drop_eq_nil_iff.mp hda; omega
        | cons x xs =>
          cases hdb : b.drop (n.toNat / 8) with
          | nil => have := List.drop_eq_nil_iff.mp hdb; omega
          | cons y ys => simp

theorem xor_eq_zero_imp (a b : Nat) (h : a ^^^ b = 0) : a = b := by
  have h1 : (a ^^^ b) ^^^ b = a := by rw [Nat.xor_assoc, Nat.xor_self, Nat.xor_zero]
  rw [h] at h1
  simpa using h1.symm

theorem xor_lt_iff_div_eq (x y k : Nat) : x ^^^ y < 2^k ↔ x / 2^k = y / 2^k := by
  have hp : 0 < 2^k := Nat.two_pow_pos k
  rw [← Nat.div_eq_zero_iff_lt hp, ← Nat.shiftRight_eq_div_pow, Nat.shiftRight_xor_distrib,
    Nat.shiftRight_eq_div_pow, Nat.shiftRight_eq_div_pow]
  constructor
  · exact xor_eq_zero_imp _ _
  · intro h; rw [h, Nat.xor_self]

theorem lz8_ge_iff (z r : Nat) (hz : z < 256) (hr1 : 1 ≤ r) (hr7 : r ≤ 7) : leadingZeros8 z ≥ r ↔ z < 2^(8-r) := by
  have : r = 1 ∨ r = 2 ∨ r = 3 ∨ r = 4 ∨ r = 5 ∨ r = 6 ∨ r = 7 := by omega
  unfold leadingZeros8
  rcases this with rfl | rfl | rfl | rfl | rfl | rfl | rfl <;>
    simp only [Nat.reduceSub, Nat.reducePow] <;> (repeat' split) <;> omega

theorem partial_byte_match (x y r : Nat) (hx : x < 256) (hy : y < 256) (hr1 : 1 ≤ r) (hr7 : r ≤ 7) :
    leadingZeros8 (x ^^^ y) ≥ r ↔ x / 2^(8-r) = y / 2^(8-r) := by
  have hz : x ^^^ y < 2^8 := Nat.xor_lt_two_pow (by simpa using hx) (by simpa using hy)
  rw [lz8_ge_iff _ r (by simpa using hz) hr1 hr7, xor_lt_iff_div_eq]

/-- `bitsMatch a b n` for an in-range n: the first ⌊n/8⌋ bytes are equal and the top n mod 8 bits of the next byte are
equal — i.e. the two byte strings agree on their first n bits -/
theorem bitsMatch_spec (a b : Addr) (n : Nat) (hna : n ≤ a.length * 8) (hnb : n ≤ b.length * 8)
    (ha : ∀ x ∈ a, x < 256) (hb : ∀ y ∈ b, y < 256) :
    bitsMatch a b (n : Int) = some true ↔
      a.take (n / 8) = b.take (n / 8) ∧
      (n % 8 = 0 ∨ ∃ x y, a[n / 8]? = some x ∧ b[n / 8]? = some y ∧ x / 2^(8 - n % 8) = y / 2^(8 - n % 8)) := by
  unfold bitsMatch
  have hg : ¬ ((n:Int) < 0 ∨ (n:Int) > (a.length:Int) * 8 ∨ (n:Int) > (b.length:Int) * 8) := by omega
  rw [if_neg hg]
  simp only [Int.toNat_natCast]
  by_cases ht : a.take (n/8) = b.take (n/8)
  · simp only [ht, ne_eq, not_true_eq_false, if_false, true_and]
    by_cases hk : n % 8 = 0
    · simp [hk]
    · simp only [hk, if_false, false_or]
      have hla : n / 8 < a.length := by omega
      have hlb : n / 8 < b.length := by omega
      rw [List.drop_eq_getElem_cons hla, List.drop_eq_getElem_cons hlb]
      simp only [Option.some.injEq, decide_eq_true_eq]
      rw [partial_byte_match _ _ _ (ha _ (List.getElem_mem hla)) (hb _ (List.getElem_mem hlb)) (by omega) (by omega)]
      simp [List.getElem?_eq_getElem hla, List.getElem?_eq_getElem hlb]
  · simp [ht]

/-- an active challenge returned by FindChallenge was issued at the last multiple of the interval, more than one and
at most two grace periods ago, with the seed of that round's header and unchanged payout rules -/
theorem findChallenge_active (rules : Rules) (cur : Nat) (hdr : Nat → Option (Addr × Bool)) (ch : Challenge)
    (h : findChallenge rules cur hdr .active = ch) (hne : ch.round ≠ 0) (hnw : cur + 2 * rules.grace < 2^64) :
    rules.interval ≠ 0 ∧ ch.round = cur - cur % rules.interval ∧ rules.interval ∣ ch.round ∧
      ch.round + rules.grace < cur ∧ cur ≤ ch.round + 2 * rules.grace ∧
      ch.bits = rules.bits ∧ hdr ch.round = some (ch.seed, true) := by
  have e : M64 = 2^64 := by decide
  unfold findChallenge at h
  split at h
  · subst h; exact absurd rfl hne
  rename_i h0
  simp only at h
  split at h
  · subst h; exact absurd rfl hne
  rename_i hout
  have hle : cur - cur % rules.interval ≤ cur := Nat.sub_le _ _
  rw [e] at hout
  have hw1 : (cur - cur % rules.interval + rules.grace) % 2^64 = cur - cur % rules.interval + rules.grace :=
    Nat.mod_eq_of_lt (by omega)
  have hw2 : (2 * rules.grace) % 2^64 = 2 * rules.grace := Nat.mod_eq_of_lt (by omega)
  have hw3 : (cur - cur % rules.interval + 2 * rules.grace) % 2^64 = cur - cur % rules.interval + 2 * rules.grace :=
    Nat.mod_eq_of_lt (by omega)
  rw [hw1, hw2, hw3] at hout
  have hout' : ¬ (cur ≤ cur - cur % rules.interval + rules.grace ∨ cur > cur - cur % rules.interval + 2 * rules.grace) := by
    simpa using hout
  split at h
  · subst h; exact absurd rfl hne
  · rename_i seed same hh
    split at h
    · rename_i hs
      subst h
      refine ⟨by omega, rfl, ?_, ?_, ?_, rfl, ?_⟩
      · exact Nat.dvd_sub_mod cur
      · show cur - cur % rules.interval + rules.grace < cur; omega
      · show cur ≤ cur - cur % rules.interval + 2 * rules.grace; omega
      · simp only; rw [hh, hs]
    · subst h; exact absurd rfl hne

/-- an account suspended on account of the active challenge has not been seen for more than a grace period -/
theorem challenge_failed_lag (rules : Rules) (cur : Nat) (hdr : Nat → Option (Addr × Bool)) (a : Addr) (ls : Nat)
    (hnw : cur + 2 * rules.grace < 2^64)
    (h : ChallengeFailed (findChallenge rules cur hdr .active) a ls) : ls + rules.grace + 1 < cur := by
  obtain ⟨hne, _, hlt⟩ := h
  obtain ⟨_, _, _, hg, _⟩ := findChallenge_active rules cur hdr _ rfl hne hnw
  omega

/-- without a challenge in effect nobody fails it -/
theorem no_challenge_no_failure (a : Addr) (ls : Nat) : ¬ ChallengeFailed Challenge.none a ls :=
  fun h => h.1 rfl

/-! ### non-vacuity: concrete instances of every hypothesis used above -/

def exState : State :=
  [([1], ⟨.online, 5, true, 1, 90, true, 3, 0⟩),        -- keys ran out at 90
   ([2], ⟨.online, 1000, true, 1, 5000, true, 10, 0⟩),   -- stake 500 of 1000: lag 40, last seen 10, round 100
   ([0xA9, 7], ⟨.online, 1000, true, 1, 5000, true, 0, 999⟩),   -- prefix 10101 = seed's, last seen before 1000
   ([3], ⟨.online, 1000, true, 1, 5000, true, 95, 0⟩)]   -- present

def exEnv : Env := ⟨true, 100, 32, 32, 1000, fun _ => 500, Challenge.none⟩
def exEnvCh : Env :=
  ⟨true, 1201, 32, 32, 1000000, fun _ => 500, findChallenge ⟨1000, 200, 5⟩ 1201 (fun _ => some ([0xAF, 0], true)) .active⟩

def isOk {α : Type} : Except Err α → Bool
  | .ok _ => true
  | .error _ => false
def errOf {α : Type} : Except Err α → Option Err
  | .ok _ => none
  | .error e => some e

example : isOk (knockOffline exEnv exState [[1]] [[2]]) = true := by decide
example : errOf (knockOffline exEnv exState [[2]] []) = some .notExpired := by decide
example : errOf (knockOffline exEnv exState [[1]] [[3]]) = some .notAbsent := by decide
example : errOf (knockOffline exEnv exState [[1], [1]] []) = some .dup := by decide
example : errOf (knockOffline exEnv exState [[1]] [[1]]) = some .notOnline := by decide
example : exEnvCh.ch = ⟨1000, [0xAF, 0], 5⟩ := by decide
example : isOk (knockOffline exEnvCh exState [] [[0xA9, 7]]) = true := by decide   -- challenge-absent only
example : errOf (knockOffline exEnvCh exState [] [[2]]) = some .notAbsent := by decide  -- prefix 00000 ≠ 10101, lag 40000
example : exEnv.validate = true ∧ exEnv.totalStake < 2^64 ∧ (∀ a, exEnv.stake a < 2^64) ∧ exEnv.round < 2^64 :=
  ⟨rfl, by decide, fun _ => by show 500 < 2^64; decide, by decide⟩
example : (1201 : Nat) + 2 * (⟨1000, 200, 5⟩ : Rules).grace < 2^64 := by decide
example : AbsentByRule 1000 500 10 100 := by unfold AbsentByRule; decide
example : ([[1], [2], [3]] : List Addr).Nodup := by decide
example : generate exEnv [[3]] ([[1], [2], [3]].map (candOf exState)) = ([[1]], [[2]]) := by decide
example : bitsMatch [0xAF, 0] [0xA9, 7] 5 = some true ∧ bitsMatch [0xAF, 0] [0xA9, 7] 6 = some false := by decide
example : (5 : Nat) ≤ ([0xAF, 0] : Addr).length * 8 ∧ (∀ x ∈ ([0xAF, 0] : Addr), x < 256) ∧ 0xAF / 2^(8 - 5 % 8) = 0xA9 / 2^(8 - 5 % 8) := by decide

end Props.C27
