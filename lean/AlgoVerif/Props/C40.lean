/-
C40 — Consensus objects have one canonical encoding.

Format layer (Base.Msgpack): the encoder `enc` (the byte string both Go encoders are supposed to emit for a
value tree) is inverted by the total decoder `dec`, hence injective and prefix-free; a byte string is canonical
iff it is `enc v` for exactly one canonical tree `v`.

The tie (checks/C40.py) runs, for every msgp-generated type of the repository and many seeded instances,
`protocol.Encode` (msgp) and `protocol.EncodeReflect` (go-codec) on the same object, decodes and re-encodes,
and hands the bytes to the `c40` driver, which evaluates `isCanonicalBytes` — the predicate of
`canonical_bytes_unique` — and prints the decoded tree, compared with the walk of the same bytes by the msgp
library's own read primitives.
-/
import AlgoVerif.Lemmas.Msgpack
import AlgoVerif.Lemmas.MsgpackOrder
namespace Props.C40
open AlgoVerif.Msgpack

theorem wf_of_canon {v : V} (h : Canon v) : WF v := by
  unfold Canon canonB at h
  simp only [Bool.and_eq_true] at h
  exact h.1

/-- decoding an encoding followed by anything returns the tree and exactly the rest (well-formedness = ranges only) -/
theorem dec_enc_append (v : V) (t : Bytes) (h : WF v) : dec (enc v ++ t) = some (v, t) := by
  unfold dec
  apply decF_enc v _ t h
  simp only [List.length_append]; omega

/-- **dec ∘ enc = id** on canonical trees -/
theorem dec_enc (v : V) (h : Canon v) : dec (enc v) = some (v, []) := by
  have := dec_enc_append v [] (wf_of_canon h)
  simpa using this

/-- the encoding is prefix-free: no encoding is a proper prefix of another, concatenations parse uniquely -/
theorem enc_prefix_free (v₁ v₂ : V) (t₁ t₂ : Bytes) (h₁ : WF v₁) (h₂ : WF v₂)
    (h : enc v₁ ++ t₁ = enc v₂ ++ t₂) : v₁ = v₂ ∧ t₁ = t₂ := by
  have e₁ := dec_enc_append v₁ t₁ h₁
  have e₂ := dec_enc_append v₂ t₂ h₂
  rw [h, e₂] at e₁
  simp only [Option.some.injEq, Prod.mk.injEq] at e₁
  exact ⟨e₁.1.symm, e₁.2.symm⟩

/-- **enc is injective** on canonical trees (on well-formed ones, in fact) -/
theorem enc_inj (v₁ v₂ : V) (h₁ : Canon v₁) (h₂ : Canon v₂) (h : enc v₁ = enc v₂) : v₁ = v₂ := by
  have := enc_prefix_free v₁ v₂ [] [] (wf_of_canon h₁) (wf_of_canon h₂) (by simp [h])
  exact this.1

/-- **canonical byte strings**: the decidable predicate the driver evaluates holds exactly for the encodings of
canonical trees … -/
theorem canonical_bytes_iff (bs : Bytes) : isCanonicalBytes bs = true ↔ ∃ v, Canon v ∧ enc v = bs := by
  constructor
  · intro h
    unfold isCanonicalBytes at h
    split at h
    · next v hd =>
      simp only [Bool.and_eq_true, beq_iff_eq] at h
      exact ⟨v, h.1, h.2⟩
    · exact absurd h (by simp)
  · rintro ⟨v, hc, rfl⟩
    unfold isCanonicalBytes
    rw [dec_enc v hc]
    simp only [Bool.and_eq_true, beq_self_eq_true, and_true]
    exact hc

/-- … and such a tree is unique, and is the one `dec` returns: a canonical byte string denotes exactly one value -/
theorem canonical_bytes_unique (bs : Bytes) (h : isCanonicalBytes bs = true) :
    ∃ v, (Canon v ∧ enc v = bs ∧ dec bs = some (v, [])) ∧ ∀ w, Canon w → enc w = bs → w = v := by
  obtain ⟨v, hc, he⟩ := (canonical_bytes_iff bs).mp h
  refine ⟨v, ⟨hc, he, ?_⟩, ?_⟩
  · rw [← he]; exact dec_enc v hc
  · intro w hw hwe
    exact enc_inj w v hw hc (by rw [hwe, he])

/-- anything that is not the canonical encoding of its own decoding is rejected: trailing bytes, non-shortest
integer / length forms, unsorted or duplicate keys -/
theorem noncanonical_rejected (bs : Bytes) (v : V) (r : Bytes) (hd : dec bs = some (v, r))
    (hbad : r ≠ [] ∨ ¬ Canon v ∨ enc v ≠ bs) : isCanonicalBytes bs = false := by
  unfold isCanonicalBytes
  rw [hd]
  cases r with
  | cons a r => rfl
  | nil =>
    rcases hbad with h | h | h
    · exact absurd rfl h
    · simp only [Canon] at h; simp [h]
    · simp [h]

/-! ### the canonical key order (what "sorted map keys" means, and that it is the order the Go sorters use) -/

/-- a canonical map has no duplicate keys -/
theorem canon_map_keys_nodup (kvs : List (V × V)) (h : Canon (.map kvs)) : (kvs.map Prod.fst).Nodup := by
  unfold Canon canonB at h
  simp only [Bool.and_eq_true, sortedB] at h
  exact sortedKeys_nodup _ h.2.1

/-- string keys (struct field names, `map[string]T`): ordered by content — Go's string `<` -/
theorem key_order_str (a b : Bytes) : keyLt (.str a) (.str b) = lexLt a b := keyLt_str a b

/-- unsigned keys (`map[uint64]T`, `map[AssetIndex]T`, …): the order of the ENCODED keys is numeric order, i.e. what
msgp's `SortUint64`-style sorters and go-codec's `uintRvSlice` both produce -/
theorem key_order_uint (a b : Nat) (ha : a < 2^64) (hb : b < 2^64) : keyLt (.uint a) (.uint b) = decide (a < b) :=
  keyLt_uint a b (by simpa using ha) (by simpa using hb)

/-- fixed-size byte keys (`map[Address]T`): ordered by content (`bytes.Compare`) -/
theorem key_order_bin (a b : Bytes) (h : a.length = b.length) : keyLt (.bin a) (.bin b) = lexLt a b := keyLt_bin a b h

example : keyLt (.uint 127) (.uint 128) = true ∧ keyLt (.uint 65536) (.uint 65535) = false := by decide
example : (2:Nat)^64 = 18446744073709551616 := by decide

/-- Struct keys (`map[proposalValue]T`, agreement crash-recovery state only — outside the property): go-codec orders them
by their ENCODING (fields in name order: dig, encdig, oper, oprop), the generated code by `SortProposalValue` (oper first).
For a = {dig: 09, oper: 1}, b = {dig: 01, oper: 2} the canonical (go-codec) order puts b first although a.oper < b.oper:
the two encoders emit such a map differently (informational stream `structkeys` of the check). -/
def exKeyA : V := .map [(.str [0x64, 0x69, 0x67], .bin [9]), (.str [0x6f, 0x70, 0x65, 0x72], .uint 1)]
def exKeyB : V := .map [(.str [0x64, 0x69, 0x67], .bin [1]), (.str [0x6f, 0x70, 0x65, 0x72], .uint 2)]
example : keyLt exKeyB exKeyA = true ∧ keyLt exKeyA exKeyB = false := by decide

-- non-vacuity: a transaction-like canonical tree, its bytes, and three non-canonical variants
def exTree : V := .map [(.str [0x61], .uint 5), (.str [0x62], .arr [.int (-33), .bin [1, 2], .nil])]
example : Canon exTree := by decide
example : enc exTree = [0x82, 0xa1, 0x61, 0x05, 0xa1, 0x62, 0x93, 0xd0, 0xdf, 0xc4, 0x02, 0x01, 0x02, 0xc0] := by decide
example : isCanonicalBytes (enc exTree) = true := by decide
/-- keys out of order -/
example : isCanonicalBytes [0x82, 0xa1, 0x62, 0x01, 0xa1, 0x61, 0x05] = false := by decide
/-- duplicate key -/
example : isCanonicalBytes [0x82, 0xa1, 0x61, 0x01, 0xa1, 0x61, 0x05] = false := by decide
/-- integer 5 at fixed width (uint64) -/
example : isCanonicalBytes [0x81, 0xa1, 0x61, 0xcf, 0, 0, 0, 0, 0, 0, 0, 5] = false := by decide
/-- non-negative integer in the signed family -/
example : isCanonicalBytes [0xd0, 0x05] = false := by decide
/-- trailing byte -/
example : isCanonicalBytes [0x05, 0x00] = false := by decide

end Props.C40
