import AlgoVerif.Lemmas.AcctUpdatesPageResKeys
import AlgoVerif.Lemmas.AcctUpdatesPageKvCaps
import AlgoVerif.Props.C10
/-!
# C10 (deepening) — the code-shaped page functions of the model MEET the page contract on every reachable state

`Props.C10` proves what the page CONTRACT implies (covering, exclusive cursors, page rule). Here the link is closed for the model
itself: `Model.AcctUpdates.pageKv / pageAssets / pageApps` (delta walk backwards, over-request by the number of in-memory deletions,
dbHasMore / dbMaxID cut, delta-only merge with the early exit, sort, truncate; boxes: prefix interval, exclusive cursor, exclusion
set, byte cap with at-least-one, peek, cutoff at the last DB key, merge, trim) are proved to satisfy the contract on EVERY reachable
state (`C08.Reach`: any interleaving of newBlock / commit / commitUpTo / reload / evict / flush / lookups = every memory/disk split).

* `pageKv_meets_contract`   = `C10.PageKvPrefixStatement` for histories whose box keys are byte strings (`KeysAreBytes`; the model's
                              `Key` is a list of naturals — `pageKv_statement_needs_bytes` shows the clause is FALSE for a key with a
                              "byte" > 255, a pure model artefact: Go strings are bytes);
* `pageAssets_meets_contract`, `pageApps_meets_contract` = `C10.PageResPrefixStatement` for histories with the evaluator's creator
                              discipline (`ResWF`: params live at the creator exactly while the creator table names it, a deleted
                              params part existed, an asset's creator holds it);
* `pageKv_within_caps`      every box page is within `limit` and `maxBytes` (single item excepted);
* `pageRes_statement_needs_ResWF`  the asset clause is FALSE for a `HistWF` history where params appear without a creatable
                              modification (creator taken from the params record vs. the creator table) — excluded by `ResWF`;
* `kv_pages_cover_model`, `res_pages_cover_model`  iterating the MODEL's page function from any cursor yields the sorted live list,
                              each element exactly once — every limit ≥ 1 (0 = unlimited for boxes), byte cap, prefix, reachable state.
-/
namespace AlgoVerif.Props.C10Pages
open AlgoVerif.Spec.LedgerHistory AlgoVerif.Model.AcctUpdates AlgoVerif.Lemmas.Pages AlgoVerif.Lemmas.AcctUpdates
open AlgoVerif.Lemmas.PageKv AlgoVerif.Lemmas.PageRes AlgoVerif.Lemmas.PageDb AlgoVerif.Props

/-- on every reachable state the primary keys of the kvstore and resources tables are unique -/
theorem reach_dbKeys (ct : Cidx → CType) (σ : State) (h : C08.Reach ct σ) : DbKeysNodup σ := by
  induction h with
  | init cfg gen _ => exact init_keys cfg gen
  | newBlock σ d _ _ ih => exact ih
  | commit σ σ' off _ _ hc ih => exact commit_keys σ off σ' hc ih
  | commitUpTo σ σ' r _ hc ih => exact commitUpTo_keys σ r σ' hc ih
  | reload σ σ' _ hr ih => exact reload_keys σ σ' hr ih
  | resetCaches σ _ ih => exact ih
  | evict σ na nr nk _ ih => exact ih
  | flushCaches σ _ ih => exact ih
  | lookupAcct σ rnd a _ ih =>
    unfold DbKeysNodup DbKvNodup DbResNodup at *; rw [lookupAcct_db]; exact ih
  | lookupRes σ rnd a c t _ ih =>
    unfold DbKeysNodup DbKvNodup DbResNodup at *; rw [lookupRes_db]; exact ih
  | lookupKv σ rnd k _ ih =>
    unfold DbKeysNodup DbKvNodup DbResNodup at *; rw [lookupKv_db]; exact ih

/-! ### boxes -/

/-- **`page_is_prefix` + `more_iff` for the model's box page.** On every reachable state, at every served round, for every prefix
    with an upper end, cursor, limit (0 = unlimited), byte cap and values flag: the page is the first `n` elements of the sorted live
    list of the HISTORY after the cursor, `n ≥ 1` when there is one, `n ≤ limit` when a limit is given, it is stamped with the
    queried round, and `moreData` is set exactly when something is left. -/
theorem pageKv_meets_contract (ct : Cidx → CType) (σ : State) (hr : C08.Reach ct σ) (hb : KeysAreBytes σ.hist)
    (rnd : Nat) (pfx cursor : Key) (limit maxb : Nat) (vals : Bool)
    (h1 : σ.dbRound ≤ rnd) (h2 : rnd ≤ σ.latest) (hp : (prefixIncr pfx).isSome) :
    ∃ n, Model.AcctUpdates.pageKv σ rnd pfx cursor limit maxb vals =
        .ok ⟨((liveKv σ.hist rnd pfx cursor).take n).map (kvView vals), rnd, decide (n < (liveKv σ.hist rnd pfx cursor).length)⟩ ∧
      (liveKv σ.hist rnd pfx cursor ≠ [] → 0 < n) ∧ (0 < limit → n ≤ limit) :=
  pageKv_spec ct σ (C08.reach_inv ct σ hr).1 (reach_dbKeys ct σ hr).1 hb rnd pfx cursor limit maxb vals h1 h2 hp

/-- `C10.PageKvPrefixStatement`, for byte-string keys -/
def PageKvPrefixStatementBytes : Prop :=
  ∀ (ct : Cidx → CType) (σ : State), C08.Reach ct σ → KeysAreBytes σ.hist →
    ∀ (rnd : Nat) (pfx cursor : Key) (limit maxb : Nat) (vals : Bool),
    σ.dbRound ≤ rnd → rnd ≤ σ.latest → (prefixIncr pfx).isSome →
    ∃ n, Model.AcctUpdates.pageKv σ rnd pfx cursor limit maxb vals =
        .ok ⟨((liveKv σ.hist rnd pfx cursor).take n).map (kvView vals), rnd, decide (n < (liveKv σ.hist rnd pfx cursor).length)⟩ ∧
      (liveKv σ.hist rnd pfx cursor ≠ [] → 0 < n) ∧ (0 < limit → n ≤ limit)

theorem pageKv_statement : PageKvPrefixStatementBytes :=
  fun ct σ hr hb rnd pfx cursor limit maxb vals h1 h2 hp => pageKv_meets_contract ct σ hr hb rnd pfx cursor limit maxb vals h1 h2 hp

/-- **within the caps**: every box page the model returns (any state, any arguments) holds at most `limit` items when a limit is given
    and at most `maxBytes` bytes — unless it is the single item the "at least one" rule always allows -/
theorem pageKv_within_caps (σ : State) (rnd : Nat) (pfx cursor : Key) (limit maxb : Nat) (vals : Bool) (out : KvPageOut)
    (h : Model.AcctUpdates.pageKv σ rnd pfx cursor limit maxb vals = .ok out) :
    (0 < limit → out.items.length ≤ limit) ∧ ((out.items.map kvSz).sum ≤ maxb ∨ out.items.length ≤ 1) :=
  pageKv_caps σ rnd pfx cursor limit maxb vals out h

/-- the model's box pager at a fixed round, as a function of the cursor (an error = an empty final page) -/
def modelKvPager (σ : State) (rnd : Nat) (pfx : Key) (limit maxb : Nat) (vals : Bool) (c : Key) : List (Key × Option Bytes) × Bool :=
  match Model.AcctUpdates.pageKv σ rnd pfx c limit maxb vals with
  | .ok out => (out.items, out.more)
  | .error _ => ([], false)

/-- **C10 (boxes), for the model.** Listing with the model's page function, next-token = last key returned, from any cursor,
    returns every box present at the queried round exactly once, in increasing order, and ends exactly when the last one was
    returned — on every reachable state, for every limit (0 = unlimited), byte cap, prefix and values flag. -/
theorem kv_pages_cover_model (ct : Cidx → CType) (σ : State) (hr : C08.Reach ct σ) (hb : KeysAreBytes σ.hist)
    (rnd : Nat) (pfx cursor : Key) (limit maxb : Nat) (vals : Bool)
    (h1 : σ.dbRound ≤ rnd) (h2 : rnd ≤ σ.latest) (hp : (prefixIncr pfx).isSome)
    (fuel : Nat) (hf : (liveKv σ.hist rnd pfx cursor).length < fuel) :
    (iterPages (modelKvPager σ rnd pfx limit maxb vals) (fun x => x.1) fuel cursor).flatten =
        (liveKv σ.hist rnd pfx cursor).map (kvView vals) ∧
    ∀ p ∈ iterPages (modelKvPager σ rnd pfx limit maxb vals) (fun x => x.1) fuel cursor,
      p ≠ [] ∨ (liveKv σ.hist rnd pfx cursor).map (kvView vals) = [] := by
  apply iterPages_cover (modelKvPager σ rnd pfx limit maxb vals) (fun x => x.1)
    (fun c => (liveKv σ.hist rnd pfx c).map (kvView vals))
  · intro c
    obtain ⟨n, hpage, hpos, _⟩ := pageKv_meets_contract ct σ hr hb rnd pfx c limit maxb vals h1 h2 hp
    refine ⟨n, ?_, ?_, ?_⟩
    · simp only [modelKvPager, hpage, List.map_take]
    · intro hne
      apply hpos
      intro e; apply hne; rw [e]; rfl
    · simp only [modelKvPager, hpage, List.length_map, decide_eq_true_eq]
  · intro c n x hx
    rw [List.getElem?_map] at hx
    cases hy : (liveKv σ.hist rnd pfx c)[n]? with
    | none => rw [hy] at hx; simp at hx
    | some y =>
      rw [hy] at hx
      simp only [Option.map_some, Option.some.injEq] at hx
      subst hx
      show List.map _ (liveKv σ.hist rnd pfx y.1) = _
      rw [liveKv_after σ.hist rnd pfx c n y hy, List.map_drop]
  · rw [List.length_map]; exact hf

/-! ### assets and applications -/

theorem live_assets (σ : State) (a : Addr) (gt : Nat) : live σ a .asset true gt = liveAssets σ.hist σ.latest a gt := rfl

theorem live_apps (σ : State) (a : Addr) (gt : Nat) (wp : Bool) : live σ a .app wp gt = liveApps σ.hist σ.latest a gt wp := by
  unfold live
  rw [liveApps_eq]
  congr 2
  funext c
  simp only [prListed, item, resItem]
  cases (resAt σ.hist σ.latest a c .app).hold.isSome with
  | true => simp
  | false =>
    simp only [Bool.false_or]
    rw [Bool.beq_eq_decide_eq]
    exact decide_eq_decide.mpr Iff.rfl

/-- **`page_is_prefix` for the model's asset page**: the first `limit` assets the account holds at the latest round, after the
    cursor, in increasing order, each with its creator and params as of that round -/
theorem pageAssets_meets_contract (ct : Cidx → CType) (σ : State) (hr : C08.Reach ct σ) (hw : ResWF ct σ.hist)
    (a : Addr) (gt limit : Nat) (hl : 0 < limit) :
    pageAssets σ a gt limit = .ok ⟨(liveAssets σ.hist σ.latest a gt).take limit, σ.latest⟩ := by
  unfold Model.AcctUpdates.pageAssets
  rw [pageRes_spec ct σ (C08.reach_inv ct σ hr).1 (reach_dbKeys ct σ hr).2 hw a gt limit hl .asset true, live_assets]

/-- **`page_is_prefix` for the model's application page**: the first `limit` applications the account is opted into or created -/
theorem pageApps_meets_contract (ct : Cidx → CType) (σ : State) (hr : C08.Reach ct σ) (hw : ResWF ct σ.hist)
    (a : Addr) (gt limit : Nat) (hl : 0 < limit) (wp : Bool) :
    pageApps σ a gt limit wp = .ok ⟨(liveApps σ.hist σ.latest a gt wp).take limit, σ.latest⟩ := by
  unfold Model.AcctUpdates.pageApps
  rw [pageRes_spec ct σ (C08.reach_inv ct σ hr).1 (reach_dbKeys ct σ hr).2 hw a gt limit hl .app wp, live_apps]

/-- `C10.PageResPrefixStatement`, for histories with the evaluator's creator discipline -/
def PageResPrefixStatementWF : Prop :=
  ∀ (ct : Cidx → CType) (σ : State), C08.Reach ct σ → ResWF ct σ.hist → ∀ (a : Addr) (gt limit : Nat) (wp : Bool), 0 < limit →
    pageAssets σ a gt limit = .ok ⟨(liveAssets σ.hist σ.latest a gt).take limit, σ.latest⟩ ∧
    pageApps σ a gt limit wp = .ok ⟨(liveApps σ.hist σ.latest a gt wp).take limit, σ.latest⟩

theorem pageRes_statement : PageResPrefixStatementWF :=
  fun ct σ hr hw a gt limit wp hl =>
    ⟨pageAssets_meets_contract ct σ hr hw a gt limit hl, pageApps_meets_contract ct σ hr hw a gt limit hl wp⟩

/-- the model's pagers as functions of the cursor (an error = an empty page) -/
def modelAssetsPage (σ : State) (a : Addr) (limit : Nat) (gt : Nat) : List ResItem :=
  match pageAssets σ a gt limit with
  | .ok out => out.items
  | .error _ => []

def modelAppsPage (σ : State) (a : Addr) (limit : Nat) (wp : Bool) (gt : Nat) : List ResItem :=
  match pageApps σ a gt limit wp with
  | .ok out => out.items
  | .error _ => []

/-- **C10 (assets / applications), for the model.** Paging with the model's page functions, `id > last id returned`, any limit ≥ 1,
    until a page is shorter than the limit, returns the account's assets (resp. applications) of the latest round exactly once, in
    increasing order — on every reachable state. -/
theorem res_pages_cover_model (ct : Cidx → CType) (σ : State) (hr : C08.Reach ct σ) (hw : ResWF ct σ.hist)
    (a : Addr) (wp : Bool) (limit : Nat) (hl : 0 < limit) (gt fuel : Nat)
    (hfA : (liveAssets σ.hist σ.latest a gt).length < fuel) (hfL : (liveApps σ.hist σ.latest a gt wp).length < fuel) :
    (iterLimit (modelAssetsPage σ a limit) (·.cidx) limit fuel gt).flatten = liveAssets σ.hist σ.latest a gt ∧
    (iterLimit (modelAppsPage σ a limit wp) (·.cidx) limit fuel gt).flatten = liveApps σ.hist σ.latest a gt wp := by
  have e1 : modelAssetsPage σ a limit = fun g => (liveAssets σ.hist σ.latest a g).take limit := by
    funext g; simp only [modelAssetsPage, pageAssets_meets_contract ct σ hr hw a g limit hl]
  have e2 : modelAppsPage σ a limit wp = fun g => (liveApps σ.hist σ.latest a g wp).take limit := by
    funext g; simp only [modelAppsPage, pageApps_meets_contract ct σ hr hw a g limit hl wp]
  rw [e1, e2]
  exact C10.res_pages_cover σ.hist σ.latest a wp limit hl gt fuel hfA hfL

/-! ### non-vacuity: a reachable state with deletions that live only in memory, and a page that needs the over-request -/

namespace Example

def ct : Cidx → CType := C08.Example.ct

def gen : List (Addr × AcctData) := [(1, { bal := 3 })]

/-- round 1: account 1 creates (and holds) assets 2 and 3 and two boxes -/
def d1 : Delta :=
  { accts := [(1, { bal := 5, ta := 2, tap := 2 })],
    res := [⟨1, 2, .asset, .val 7, .val 5⟩, ⟨1, 3, .asset, .val 8, .val 6⟩],
    kvs := [⟨[65, 1], some [9], none⟩, ⟨[65, 2], some [4], none⟩],
    creat := [⟨2, .asset, true, 1⟩, ⟨3, .asset, true, 1⟩] }

/-- round 2: account 1 destroys asset 2 and deletes box [65, 1] -/
def d2 : Delta :=
  { accts := [(1, { bal := 4, ta := 1, tap := 1 })],
    res := [⟨1, 2, .asset, .deleted, .deleted⟩],
    kvs := [⟨[65, 1], none, some [9]⟩],
    creat := [⟨2, .asset, false, 1⟩] }

def exH : History := { gen := gen, blocks := [d1, d2] }

theorem wf1 : HistWF ct { gen := gen, blocks := [d1] } where
  genNodup := by decide
  deltas := by
    intro d hd; simp at hd; subst hd
    exact ⟨by decide, by decide, by decide, by decide,
      by intro r hr; simp [d1] at hr; rcases hr with rfl | rfl <;> rfl,
      by intro m hm; simp [d1] at hm; rcases hm with rfl | rfl <;> rfl⟩
  kvOld := by
    intro i d hi m hm
    match i, hi with
    | 0, hi => simp at hi; subst hi; simp [d1] at hm; rcases hm with rfl | rfl <;> rfl
    | n + 1, hi => simp at hi
  resFull := by
    intro i d hi r hr
    match i, hi with
    | 0, hi => simp at hi; subst hi; simp [d1] at hr; rcases hr with rfl | rfl <;> exact ⟨by simp, by simp⟩
    | n + 1, hi => simp at hi
  creatFresh := by
    intro i d hi m hm _
    match i, hi with
    | 0, hi => simp at hi; subst hi; rfl
    | n + 1, hi => simp at hi

theorem wf2 : HistWF ct exH where
  genNodup := by decide
  deltas := by
    intro d hd; simp [exH] at hd
    rcases hd with hd | hd <;> subst hd
    · exact ⟨by decide, by decide, by decide, by decide,
        by intro r hr; simp [d1] at hr; rcases hr with rfl | rfl <;> rfl,
        by intro m hm; simp [d1] at hm; rcases hm with rfl | rfl <;> rfl⟩
    · exact ⟨by decide, by decide, by decide, by decide,
        by intro r hr; simp [d2] at hr; subst hr; rfl,
        by intro m hm; simp [d2] at hm; subst hm; rfl⟩
  kvOld := by
    intro i d hi m hm
    match i, hi with
    | 0, hi => simp [exH] at hi; subst hi; simp [d1] at hm; rcases hm with rfl | rfl <;> rfl
    | 1, hi => simp [exH] at hi; subst hi; simp [d2] at hm; subst hm; rfl
    | n + 2, hi => simp [exH] at hi
  resFull := by
    intro i d hi r hr
    match i, hi with
    | 0, hi => simp [exH] at hi; subst hi; simp [d1] at hr; rcases hr with rfl | rfl <;> exact ⟨by simp, by simp⟩
    | 1, hi => simp [exH] at hi; subst hi; simp [d2] at hr; subst hr; exact ⟨by simp, by simp⟩
    | n + 2, hi => simp [exH] at hi
  creatFresh := by
    intro i d hi m hm hc
    match i, hi with
    | 0, hi => simp [exH] at hi; subst hi; rfl
    | 1, hi => simp [exH] at hi; subst hi; simp [d2] at hm; subst hm; simp at hc
    | n + 2, hi => simp [exH] at hi

def σ2 : State := newBlock (newBlock (init {} gen) d1) d2

theorem reach2 : C08.Reach ct σ2 :=
  C08.Reach.newBlock _ d2 (C08.Reach.newBlock _ d1 (C08.Reach.init {} gen (by decide)) wf1) wf2

theorem upTo_ge (r : Nat) (hr : 2 ≤ r) : exH.upTo r = [d1, d2] := by
  unfold History.upTo exH
  exact List.take_of_length_le (by simpa using hr)

macro "aomega" : tactic => `(tactic| ((try simp only [Addr, Cidx] at *); omega))

/-- no record of (a, c) anywhere: the resource is empty at every round -/
theorem resAt_default (h : History) (r : Nat) (a : Addr) (c : Cidx) (t : CType)
    (hno : ∀ d ∈ h.blocks, ∀ x ∈ d.res, ¬ (x.addr = a ∧ x.cidx = c)) : resAt h r a c t = {} := by
  unfold resAt
  cases hl : lastIn (fun d => d.res? a c t) (h.upTo r) with
  | none => rfl
  | some v =>
    exfalso
    obtain ⟨d, hd, hf⟩ := lastIn_mem _ _ _ hl
    unfold Delta.res? at hf
    cases hrec : d.resRec? a c t with
    | none => rw [hrec] at hf; simp at hf
    | some rr =>
      obtain ⟨hm, h1, h2, _⟩ := resRec?_some d a c t rr hrec
      exact hno d (List.mem_of_mem_take hd) rr hm ⟨h1, h2⟩

/-- the creator table only names creators of creatable modifications -/
theorem creatorRaw_creator (h : History) (r : Nat) (c : Cidx) (a : Addr) (hc : creatorRaw h r c = some a) :
    ∃ d ∈ h.blocks, ∃ m ∈ d.creat, m.cidx = c ∧ m.creator = a := by
  unfold creatorRaw at hc
  cases hl : lastIn (fun d => d.creat? c) (h.upTo r) with
  | none => rw [hl] at hc; simp at hc
  | some m =>
    rw [hl] at hc
    obtain ⟨d, hd, hf⟩ := lastIn_mem _ _ _ hl
    unfold Delta.creat? at hf
    refine ⟨d, List.mem_of_mem_take hd, m, List.mem_of_find?_eq_some hf, by simpa using List.find?_some hf, ?_⟩
    simp only [Option.bind_some] at hc
    by_cases hcr : m.created = true
    · simpa [hcr] using hc
    · simp [hcr] at hc

theorem resAt_ge (r : Nat) (hr : 2 ≤ r) (a : Addr) (c : Cidx) (t : CType) : resAt exH r a c t = resAt exH 2 a c t := by
  unfold resAt; rw [upTo_ge r hr, upTo_ge 2 (Nat.le_refl _)]

theorem creatorRaw_ge (r : Nat) (hr : 2 ≤ r) (c : Cidx) : creatorRaw exH r c = creatorRaw exH 2 c := by
  unfold creatorRaw; rw [upTo_ge r hr, upTo_ge 2 (Nat.le_refl _)]

theorem rounds_012 (P : Nat → Prop) (h0 : P 0) (h1 : P 1) (h2 : ∀ r, 2 ≤ r → P r) : ∀ r, P r := by
  intro r
  match r with
  | 0 => exact h0
  | 1 => exact h1
  | n + 2 => exact h2 _ (by omega)

theorem ex_other_addr (r : Nat) (a : Addr) (c : Cidx) (t : CType) (ha : a ≠ 1) : resAt exH r a c t = {} := by
  apply resAt_default
  intro d hd x hx
  simp [exH] at hd
  rcases hd with rfl | rfl
  · simp [d1] at hx; rcases hx with rfl | rfl <;> simp <;> aomega
  · simp [d2] at hx; subst hx; simp; aomega

theorem ex_other_cidx (r : Nat) (a : Addr) (c : Cidx) (t : CType) (h2 : c ≠ 2) (h3 : c ≠ 3) : resAt exH r a c t = {} := by
  apply resAt_default
  intro d hd x hx
  simp [exH] at hd
  rcases hd with rfl | rfl
  · simp [d1] at hx; rcases hx with rfl | rfl <;> simp <;> aomega
  · simp [d2] at hx; subst hx; simp; aomega

theorem ex_creator_one (r : Nat) (c : Cidx) (a : Addr) (hc : creatorRaw exH r c = some a) : a = 1 ∧ (c = 2 ∨ c = 3) := by
  obtain ⟨d, hd, m, hm, h1, h2⟩ := creatorRaw_creator exH r c a hc
  simp [exH] at hd
  rcases hd with rfl | rfl
  · simp [d1] at hm; rcases hm with rfl | rfl <;> simp at h1 h2 <;> aomega
  · simp [d2] at hm; subst hm; simp at h1 h2; aomega

theorem exResWF : ResWF ct exH where
  paramsCreator := by
    intro r a c
    by_cases ha : a = 1
    · subst ha
      by_cases h2 : c = 2
      · subst h2
        revert r
        apply rounds_012
        · decide
        · decide
        · intro r hr; rw [resAt_ge r hr, creatorRaw_ge r hr]; decide
      · by_cases h3 : c = 3
        · subst h3
          revert r
          apply rounds_012
          · decide
          · decide
          · intro r hr; rw [resAt_ge r hr, creatorRaw_ge r hr]; decide
        · rw [ex_other_cidx r 1 c _ h2 h3]
          constructor
          · intro h; simp at h
          · intro h; have := (ex_creator_one r c 1 h).2; aomega
    · rw [ex_other_addr r a c _ ha]
      constructor
      · intro h; simp at h
      · intro h; exact absurd (ex_creator_one r c a h).1 ha
  paramsDel := by
    intro i d hi r hr hp
    match i, hi with
    | 0, hi => simp [exH] at hi; subst hi; simp [d1] at hr; rcases hr with rfl | rfl <;> simp at hp
    | 1, hi => simp [exH] at hi; subst hi; simp [d2] at hr; subst hr; decide
    | n + 2, hi => simp [exH] at hi
  assetCreatorHolds := by
    intro r a c _ hp
    by_cases ha : a = 1
    · subst ha
      by_cases h2 : c = 2
      · subst h2
        revert r
        apply rounds_012
        · decide
        · decide
        · intro r hr; rw [resAt_ge r hr]; decide
      · by_cases h3 : c = 3
        · subst h3
          revert r
          apply rounds_012
          · decide
          · decide
          · intro r hr; rw [resAt_ge r hr]; decide
        · rw [ex_other_cidx r 1 c _ h2 h3] at hp; simp at hp
    · rw [ex_other_addr r a c _ ha] at hp; simp at hp

theorem exBytes : KeysAreBytes exH := by
  unfold KeysAreBytes
  decide

theorem exLiveAssets : liveAssets exH 2 1 0 = [⟨3, some 6, some 1, some 8⟩] := by
  rw [liveAssets_eq]
  unfold sortedIds
  have : (dedup exH.cidxs).filter (fun c => decide (0 < c) && (resAt exH 2 1 c .asset).hold.isSome) = [3] := by decide
  rw [this]
  simp only [List.mergeSort_singleton, List.map_cons, List.map_nil]
  decide

theorem exLiveKv : liveKv exH 2 [65] [] = [([65, 2], [4])] := by
  rw [liveKv_eq]
  have : (dedup exH.kvKeys).filter (fun k => hasPrefix [65] k && keyLt [] k && (kvAt exH 2 k).isSome) = [[65, 2]] := by decide
  rw [this]
  simp only [List.mergeSort_singleton]
  decide

example : ∃ σ3, commit σ2 1 = .ok σ3 ∧ C08.Reach ct σ3 ∧ ResWF ct σ3.hist ∧ KeysAreBytes σ3.hist ∧ σ3.dbRound = 1 ∧ σ3.latest = 2 ∧
    (deltaResWalk σ3.deltas 1 0 .asset).numDeleted = 2 ∧
    (AMap.get σ3.db.res (1, 2)).isSome = true ∧ (resAt σ3.hist σ3.latest 1 2 .asset).hold = none ∧
    Model.AcctUpdates.pageAssets σ3 1 0 1 = .ok ⟨[⟨3, some 6, some 1, some 8⟩], 2⟩ ∧
    Model.AcctUpdates.pageKv σ3 2 [65] [] 1 0 true = .ok ⟨[([65, 2], some [4])], 2, false⟩ := by
  rcases C08.commit_total ct σ2 reach2 1 (by decide) with ⟨_, σ3, hc, hr, hh, hd⟩ | ⟨_, hv, _⟩
  · have hH : σ3.hist = exH := by rw [show σ3.hist = σ2.hist from hh]; rfl
    have hd1 : σ3.dbRound = 1 := by rw [hd]; rfl
    have hl : σ3.latest = 2 := by rw [C08.reach_latest ct σ3 hr]; show σ3.hist.latest = 2; rw [hH]; rfl
    have hinv := C08.reach_inv ct σ3 hr
    have hdel : σ3.deltas = [d2] := by rw [synced_deltas ct σ3 hinv.1 hinv.2, hH, hd1]; rfl
    have hw : ResWF ct σ3.hist := by rw [hH]; exact exResWF
    have hb : KeysAreBytes σ3.hist := by rw [hH]; exact exBytes
    refine ⟨σ3, hc, hr, hw, hb, hd1, hl, ?_, ?_, ?_, ?_, ?_⟩
    · rw [hdel]; decide
    · rw [hinv.1.dbR 1 2, hH, hd1]; decide
    · rw [hH, hl]; decide
    · rw [pageAssets_meets_contract ct σ3 hr hw 1 0 1 (by decide), hH, hl, exLiveAssets]; rfl
    · obtain ⟨n, hp, hpos, hle⟩ := pageKv_meets_contract ct σ3 hr hb 2 [65] [] 1 0 true (by omega) (by omega) (by decide)
      rw [hH, exLiveKv] at hp hpos
      have hn : n = 1 := by
        have := hpos (by simp); have := hle (by decide); omega
      subst hn
      rw [hp]; rfl
  · exact absurd rfl hv


theorem exLiveApps (wp : Bool) : liveApps exH 2 1 0 wp = [] := by
  rw [liveApps_eq]
  unfold sortedIds
  have : (dedup exH.cidxs).filter (fun c => decide (0 < c) &&
      ((resAt exH 2 1 c .app).hold.isSome || creatorAt exH 2 c .app == some 1)) = [] := by decide
  rw [this]
  simp [List.mergeSort_nil]

/-- the covering corollaries apply to the state of the example: iterating the model's pagers (limit 1) from the start lists
    exactly the live asset 3 and the live box [65, 2] — the asset and the box deleted in memory are skipped, nothing is repeated -/
example : ∃ σ3, commit σ2 1 = .ok σ3 ∧ C08.Reach ct σ3 ∧
    (iterLimit (modelAssetsPage σ3 1 1) (·.cidx) 1 3 0).flatten = [⟨3, some 6, some 1, some 8⟩] ∧
    (iterPages (modelKvPager σ3 2 [65] 1 0 true) (fun x => x.1) 3 []).flatten = [([65, 2], some [4])] := by
  rcases C08.commit_total ct σ2 reach2 1 (by decide) with ⟨_, σ3, hc, hr, hh, hd⟩ | ⟨_, hv, _⟩
  · have hH : σ3.hist = exH := by rw [show σ3.hist = σ2.hist from hh]; rfl
    have hd1 : σ3.dbRound = 1 := by rw [hd]; rfl
    have hl : σ3.latest = 2 := by rw [C08.reach_latest ct σ3 hr]; show σ3.hist.latest = 2; rw [hH]; rfl
    have hw : ResWF ct σ3.hist := by rw [hH]; exact exResWF
    have hb : KeysAreBytes σ3.hist := by rw [hH]; exact exBytes
    refine ⟨σ3, hc, hr, ?_, ?_⟩
    · have := (res_pages_cover_model ct σ3 hr hw 1 true 1 (by decide) 0 3
        (by rw [hH, hl, exLiveAssets]; decide) (by rw [hH, hl, exLiveApps]; decide)).1
      rw [this, hH, hl, exLiveAssets]
    · have := (kv_pages_cover_model ct σ3 hr hb 2 [65] [] 1 0 true (by omega) (by omega) (by decide) 3
        (by rw [hH, exLiveKv]; decide)).1
      rw [this, hH, exLiveKv]; rfl
  · exact absurd rfl hv


end Example

/-! ### the box clause needs byte-string keys (model artefact) -/

namespace NonByte

def ct : Cidx → CType := fun _ => .asset

/-- one box whose key has a "byte" 256 — impossible for a Go string, expressible in the model's `Key = List Nat` -/
def dK : Delta := { kvs := [⟨[5, 256], some [1], none⟩] }

def hK : History := { gen := [], blocks := [dK] }

theorem wfK : HistWF ct hK where
  genNodup := by decide
  deltas := by
    intro d hd; simp [hK] at hd; subst hd
    exact ⟨by decide, by decide, by decide, by decide, by intro r hr; simp [dK] at hr, by intro m hm; simp [dK] at hm⟩
  kvOld := by
    intro i d hi m hm
    match i, hi with
    | 0, hi => simp [hK] at hi; subst hi; simp [dK] at hm; subst hm; rfl
    | n + 1, hi => simp [hK] at hi
  resFull := by
    intro i d hi r hr
    match i, hi with
    | 0, hi => simp [hK] at hi; subst hi; simp [dK] at hr
    | n + 1, hi => simp [hK] at hi
  creatFresh := by
    intro i d hi m hm _
    match i, hi with
    | 0, hi => simp [hK] at hi; subst hi; simp [dK] at hm
    | n + 1, hi => simp [hK] at hi

def σ1 : State := newBlock (init {} []) dK

theorem reach1 : C08.Reach ct σ1 := C08.Reach.newBlock _ dK (C08.Reach.init {} [] (by decide)) wfK

end NonByte

open NonByte in
/-- `C10.PageKvPrefixStatement` as stated (no restriction on the key alphabet) is FALSE in the model: with the box key [5, 256]
    flushed to the DB, the page for prefix [5, 255] scans the interval [[5,255], [6]) and returns that box although it does not
    carry the prefix. The model's `Key` admits "bytes" above 255; Go strings do not: the clause holds under `KeysAreBytes`. -/
theorem pageKv_statement_needs_bytes : ¬ C10.PageKvPrefixStatement := by
  intro hS
  rcases C08.commit_total ct σ1 reach1 1 (by decide) with ⟨_, σ, _, hr, hh, hd⟩ | ⟨_, hv, _⟩
  · have hH : σ.hist = hK := by rw [show σ.hist = σ1.hist from hh]; rfl
    have hd1 : σ.dbRound = 1 := by rw [hd]; rfl
    have hl : σ.latest = 1 := by rw [C08.reach_latest ct σ hr]; show σ.hist.latest = 1; rw [hH]; rfl
    have hinv := (C08.reach_inv ct σ hr).1
    obtain ⟨n, hp, _, _⟩ := hS ct σ hr 1 [5, 255] [] 0 0 true (by omega) (by omega) (by decide)
    have hlive : liveKv σ.hist 1 [5, 255] [] = [] := by
      rw [hH, liveKv_eq]
      have : (dedup hK.kvKeys).filter (fun k => hasPrefix [5, 255] k && keyLt [] k && (kvAt hK 1 k).isSome) = [] := by decide
      rw [this]; simp [List.mergeSort_nil]
    rw [hlive] at hp
    have hoff : roundOffset σ 1 = .ok 0 := by
      have := roundOffset_ok σ 1 (by omega) (by omega)
      rwa [hd1] at this
    rw [pageKv_eq σ 1 [5, 255] [] 0 0 true 0 [6] hoff (by decide) hinv.dbr] at hp
    have hitems := congrArg KvPageOut.items (Except.ok.inj hp)
    simp only [List.take_nil, List.map_nil] at hitems
    -- the row is in the scan and qualifies
    have hmem : (([5, 256] : Key), ([1] : Bytes)) ∈ σ.db.kvs := get_some_mem (by rw [hinv.dbK, hH, hd1]; decide)
    have hwalk : kvWalk [5, 255] [] (σ.deltas.take 0) = [] := rfl
    rw [hwalk] at hitems
    obtain ⟨j, hj1, _, hj3⟩ := processKvRows_spec (kvRows σ.db [5, 255] [] [6]) [] 0 0 true (AMap.keys ([] : AMap Key (Option Bytes)))
    have hq : (kvRows σ.db [5, 255] [] [6]).filter (fun r => kvQualifies [] (AMap.keys ([] : AMap Key (Option Bytes))) r.1) ≠ [] := by
      intro e
      have : (([5, 256] : Key), ([1] : Bytes)) ∈
          (kvRows σ.db [5, 255] [] [6]).filter (fun r => kvQualifies [] (AMap.keys ([] : AMap Key (Option Bytes))) r.1) := by
        rw [List.mem_filter]
        refine ⟨?_, by decide⟩
        unfold kvRows
        rw [(List.mergeSort_perm _ _).mem_iff, List.mem_filter]
        exact ⟨hmem, by decide⟩
      rw [e] at this; simp at this
    have hj := hj3 hq
    generalize hdbp : processKvRows (kvRows σ.db [5, 255] [] [6]) [] 0 0 true (AMap.keys ([] : AMap Key (Option Bytes))) = dbp at hitems hj1
    have hne : dbp.items ≠ [] := by
      rw [hj1]
      intro e
      have := congrArg List.length e
      simp only [List.length_map, List.length_take, List.length_nil] at this
      have hpos : 0 < ((kvRows σ.db [5, 255] [] [6]).filter
          (fun r => kvQualifies [] (AMap.keys ([] : AMap Key (Option Bytes))) r.1)).length := List.length_pos_iff.mpr hq
      omega
    generalize hall : (dbp.items ++ kvFromDelta [] (kvCutoff dbp) true).mergeSort (fun x y => keyLe x.1 y.1) = all at hitems
    have hallne : all ≠ [] := by
      intro e
      have := congrArg List.length hall
      rw [e, List.length_mergeSort, List.length_append] at this
      have h0 : dbp.items.length = 0 := by simp only [List.length_nil] at this; omega
      exact hne (List.eq_nil_of_length_eq_zero h0)
    cases all with
    | nil => exact hallne rfl
    | cons x xs =>
      have hpos := kvTrim_pos kvSz 0 0 x xs
      have := congrArg List.length hitems
      rw [List.length_take] at this
      simp only [List.length_cons, List.length_nil] at this
      omega
  · exact absurd rfl hv


/-! ### the asset / application clause needs the creator discipline -/

namespace NoCreator

def ct : Cidx → CType := fun _ => .asset

/-- account 1 receives params and a holding of asset 2, but the creator table is never told (no creatable modification):
    `HistWF` allows it, the block evaluator never produces it -/
def dR : Delta := { res := [⟨1, 2, .asset, .val 7, .val 5⟩] }

def hR : History := { gen := [], blocks := [dR] }

theorem wfR : HistWF ct hR where
  genNodup := by decide
  deltas := by
    intro d hd; simp [hR] at hd; subst hd
    exact ⟨by decide, by decide, by decide, by decide, by intro r hr; simp [dR] at hr; subst hr; rfl, by intro m hm; simp [dR] at hm⟩
  kvOld := by
    intro i d hi m hm
    match i, hi with
    | 0, hi => simp [hR] at hi; subst hi; simp [dR] at hm
    | n + 1, hi => simp [hR] at hi
  resFull := by
    intro i d hi r hr
    match i, hi with
    | 0, hi => simp [hR] at hi; subst hi; simp [dR] at hr; subst hr; exact ⟨by simp, by simp⟩
    | n + 1, hi => simp [hR] at hi
  creatFresh := by
    intro i d hi m hm _
    match i, hi with
    | 0, hi => simp [hR] at hi; subst hi; simp [dR] at hm
    | n + 1, hi => simp [hR] at hi

def σ1 : State := newBlock (init {} []) dR

theorem reach1 : C08.Reach ct σ1 := C08.Reach.newBlock _ dR (C08.Reach.init {} [] (by decide)) wfR

end NoCreator

open NoCreator in
/-- `C10.PageResPrefixStatement` as stated (histories only `HistWF`) is FALSE in the model: the page takes the creator of a delta
    entry from the address of the params RECORD, the oracle from the creator TABLE; a history in which params appear without a
    creatable modification separates them. The block evaluator never produces such a history (`ResWF`). -/
theorem pageRes_statement_needs_ResWF : ¬ C10.PageResPrefixStatement := by
  intro hS
  have h := (hS ct σ1 reach1 1 0 1 true (by decide)).1
  have hlat : σ1.latest = 1 := rfl
  have hH : σ1.hist = hR := rfl
  have hlive : liveAssets hR 1 1 0 = [⟨2, some 5, none, none⟩] := by
    rw [liveAssets_eq]
    unfold sortedIds
    have : (dedup hR.cidxs).filter (fun c => decide (0 < c) && (resAt hR 1 1 c .asset).hold.isSome) = [2] := by decide
    rw [this]
    simp only [List.mergeSort_singleton, List.map_cons, List.map_nil]
    decide
  rw [hH, hlat, hlive] at h
  unfold Model.AcctUpdates.pageAssets at h
  rw [pageRes_eq σ1 1 0 1 .asset true (by decide) rfl, dbLimitedResources_eq] at h
  have hRs : dbResSorted σ1.db 1 0 .asset = [] := by
    unfold dbResSorted
    have : σ1.db.res = [] := rfl
    rw [this]; simp
  rw [hRs] at h
  have hacc : (prAcc2 σ1.db (deltaResWalk σ1.deltas 1 0 .asset) 1 1 .asset true
      ((([] : List ((Addr × Cidx) × ResRow)).take (1 + (deltaResWalk σ1.deltas 1 0 .asset).numDeleted)).map (dbJoin σ1.db))
      (1 + (deltaResWalk σ1.deltas 1 0 .asset).numDeleted)).1 = [⟨2, some 5, some 1, some 7⟩] := by decide
  rw [hacc] at h
  simp only [List.mergeSort_singleton] at h
  have := congrArg ResPageOut.items (Except.ok.inj h)
  simp at this


end AlgoVerif.Props.C10Pages
