/-
C44 — the transaction pool only holds transactions that can still commit.

Theorems about `Model.Pool` (data/pools/transactionPool.go) for EVERY ledger evaluator `L : Ledger S τ`, every transaction view,
every configuration and every sequence of `Remember` / `OnNewBlock` / recompute operations (induction over the op sequence):

  pool_inv            after any op sequence the invariant `Inv` holds:
     (b) replay    evaluating the pending groups in order on the latest base evaluator succeeds and yields the pending evaluator
     (a) + (c)     [from (b) and LedgerOK] no pending txid is known to the base ledger (committed in its window); no txid twice
     (d) cap       #pending transactions not exempted as state-proof singletons ≤ TxPoolSize, hence
                   #pending ≤ TxPoolSize + #pending state-proof singletons  (`pool_cap`), ≤ TxPoolSize + 1 when an evaluator chain
                   accepts at most one state-proof singleton (`pool_cap_one`); `cap_plus_one_fails` shows the `+1` bound of the
                   design is NOT an invariant of the code as written (stateproofOverflowed is cleared by every recompute)
     (f) alive     no pending transaction has LastValid < evaluator round
     ids           the pendingTxids key set is exactly the ids of the pending groups, without repetition
  remember_iff        (e) Remember g = ok ↔ cap condition ∧ fee condition ∧ the evaluator accepts g on top of the pending
                      evaluator (directly or on the single retry after ErrNoSpace) and g is not expired for the pool
  remember_ok_state / remember_err_pending   what Remember does to the pending list
  onNewBlock_sublist / onNewBlock_not_committed   a new block only DROPS groups (order kept); no kept group starts with a committed txid
All are full for the model.  Timing (assembly deadlines, OnNewBlock races), a nil evaluator and valid state proofs are outside the model.
-/
import AlgoVerif.Lemmas.Pool
import AlgoVerif.Model.LedgerCore
namespace AlgoVerif.Props.C44
open AlgoVerif.Model.Pool AlgoVerif.Lemmas.Pool

set_option linter.unusedSectionVars false

variable {S τ ι : Type} [DecidableEq ι]

/-- The pool invariant.  `seen s x` = the evaluator in state `s` rejects txid `x` as a duplicate (see `LedgerOK`). -/
structure Inv (V : View τ ι) (C : Cfg) (L : Ledger S τ) (seen : S → ι → Prop) (P : Pool S τ ι) : Prop where
  /-- (b) -/
  replay : Replay L P.base P.pending P.cur
  /-- (a) no pending txid is committed in the ledger within its window (= known to the base evaluator) -/
  notCommitted : ∀ x ∈ idsOf V P.pending, ¬ seen P.base x
  /-- (c) no txid (hence no non-empty group) twice -/
  nodup : (idsOf V P.pending).Nodup
  /-- (d), as coded -/
  cap : nonSpCount V P.pending ≤ C.maxSize
  /-- (f) -/
  alive : ∀ g ∈ P.pending, ∀ t ∈ g, P.round ≤ V.lv t
  /-- pendingTxids -/
  idsMem : ∀ x, x ∈ P.ids ↔ x ∈ idsOf V P.pending
  idsLen : P.ids.length = txCount P.pending

/-- the statement of the design, kept visible: (d) with the single `+1` allowance -/
def CapPlusOneStatement (V : View τ ι) (C : Cfg) (L : Ledger S τ) (start : S) (r : Nat) : Prop :=
  ∀ ops : List (Op S τ ι), txCount (run V C L (init start r) ops).pending ≤ C.maxSize + 1

theorem inv_init (V : View τ ι) (C : Cfg) (L : Ledger S τ) (seen : S → ι → Prop) (start : S) (r : Nat) :
    Inv V C L seen (init start r : Pool S τ ι) := by
  refine ⟨Replay.nil, ?_, ?_, ?_, ?_, ?_, ?_⟩ <;> simp [init, idsOf, nonSpCount, txCount]

/-! ### Remember -/

/-- (e) `Remember g` returns nil exactly when the cap check passes, the fee check passes, and the evaluator accepts `g` on top of the
pending evaluator (directly, or on the one retry after `ErrNoSpace`), `g` not being expired for the pool at that moment. -/
theorem remember_iff (V : View τ ι) (C : Cfg) (L : Ledger S τ) (P : Pool S τ ι) (g : List τ) :
    (remember V C L P g).2 = .ok ↔
      ((checkCap V C P g).1 = true ∧ feeOk V C P.whole P.mult g = true ∧
        ∃ s' w', AddOk V L P.round P.cur P.whole g s' w') := by
  unfold remember
  by_cases hc : (checkCap V C P g).1 = false
  · simp [hc]
  · have hc' : (checkCap V C P g).1 = true := by simpa using hc
    by_cases hf : feeOk V C P.whole P.mult g = false
    · simp [hc', hf]
    · have hf' : feeOk V C P.whole P.mult g = true := by simpa using hf
      simp only [hc', hf', Bool.true_eq_false, if_false, true_and]
      constructor
      · intro h
        have hk : (addEval V L P.round P.cur P.whole g).2.2 = .ok := by
          revert h
          cases (addEval V L P.round P.cur P.whole g).2.2 <;> simp
        exact ⟨_, _, addEval_ok V L P.round P.cur P.whole g hk⟩
      · rintro ⟨s', w', h⟩
        rw [addEval_of_ok V L P.round P.cur P.whole g s' w' h]

/-- on success the group is appended last and the pending evaluator is the accepting evaluator's new state -/
theorem remember_ok_state (V : View τ ι) (C : Cfg) (L : Ledger S τ) (P : Pool S τ ι) (g : List τ)
    (h : (remember V C L P g).2 = .ok) :
    (remember V C L P g).1.pending = P.pending ++ [g] ∧
    AddOk V L P.round P.cur P.whole g (remember V C L P g).1.cur (remember V C L P g).1.whole ∧
    (remember V C L P g).1.ids = insertIds V P.ids g ∧
    (remember V C L P g).1.base = P.base ∧ (remember V C L P g).1.round = P.round := by
  obtain ⟨hc, hf, s', w', hk⟩ := (remember_iff V C L P g).1 h
  have e := addEval_of_ok V L P.round P.cur P.whole g s' w' hk
  unfold remember
  simp only [hc, hf, Bool.true_eq_false, if_false, e]
  refine ⟨?_, ?_, ?_, ?_, ?_⟩ <;> first | trivial | rfl | exact hk

/-- a failing Remember changes neither the pending groups nor the id set; the evaluator is as before or reset once -/
theorem remember_err_state (V : View τ ι) (C : Cfg) (L : Ledger S τ) (P : Pool S τ ι) (g : List τ)
    (h : (remember V C L P g).2 ≠ .ok) :
    (remember V C L P g).1.pending = P.pending ∧ (remember V C L P g).1.ids = P.ids ∧
    (remember V C L P g).1.base = P.base ∧ (remember V C L P g).1.round = P.round ∧
    ((remember V C L P g).1.cur = P.cur ∨ (remember V C L P g).1.cur = L.resetBytes P.cur) := by
  unfold remember at h ⊢
  by_cases hc : (checkCap V C P g).1 = false
  · simp [hc]
  · have hc' : (checkCap V C P g).1 = true := by simpa using hc
    by_cases hf : feeOk V C P.whole P.mult g = false
    · simp [hc', hf]
    · have hf' : feeOk V C P.whole P.mult g = true := by simpa using hf
      simp only [hc', hf', Bool.true_eq_false, if_false] at h ⊢
      have hne : (addEval V L P.round P.cur P.whole g).2.2 ≠ .ok := by
        intro hk; rw [hk] at h; exact h rfl
      have hcur := addEval_fail V L P.round P.cur P.whole g hne
      revert h
      cases hk : (addEval V L P.round P.cur P.whole g).2.2 <;> intro h
      · exact absurd hk hne
      all_goals
        refine ⟨rfl, rfl, rfl, rfl, ?_⟩
        rcases hcur with ⟨h1, _⟩ | ⟨h1, _⟩
        · exact Or.inl h1
        · exact Or.inr h1

theorem remember_err_pending (V : View τ ι) (C : Cfg) (L : Ledger S τ) (P : Pool S τ ι) (g : List τ)
    (h : (remember V C L P g).2 ≠ .ok) : (remember V C L P g).1.pending = P.pending :=
  (remember_err_state V C L P g h).1

theorem checkCap_weight (V : View τ ι) (C : Cfg) (P : Pool S τ ι) (g : List τ) (h : (checkCap V C P g).1 = true) :
    P.ids.length + g.length ≤ C.maxSize ∨ weight V g = 0 := by
  unfold checkCap at h
  by_cases hm : C.maxSize < P.ids.length + g.length
  · rw [if_pos hm] at h
    by_cases hs : isSPSingle V g = true ∧ P.spOver = false
    · right; unfold weight; rw [if_pos hs.1]
    · rw [if_neg hs] at h; cases h
  · left; omega

theorem inv_remember {V : View τ ι} {C : Cfg} {L : Ledger S τ} {seen : S → ι → Prop} (hL : LedgerOK V L seen)
    {P : Pool S τ ι} (hI : Inv V C L seen P) (g : List τ) : Inv V C L seen (remember V C L P g).1 := by
  by_cases h : (remember V C L P g).2 = .ok
  · obtain ⟨hp, hk, hids, hb, hr⟩ := remember_ok_state V C L P g h
    have hrep : Replay L P.base (P.pending ++ [g]) (remember V C L P g).1.cur := hI.replay.addOk hk
    obtain ⟨_, hnd, hnb⟩ := replay_seen hL hrep
    have hcap := checkCap_weight V C P g ((remember_iff V C L P g).1 h).1
    -- the ids of g are new to the key set
    have hfresh : ∀ t ∈ g, V.id t ∉ P.ids := by
      intro t ht hmem
      have h1 : V.id t ∈ idsOf V P.pending := (hI.idsMem _).1 hmem
      rw [idsOf_snoc, List.nodup_append] at hnd
      exact hnd.2.2 _ h1 _ (List.mem_map_of_mem ht) rfl
    have hgnd : (g.map V.id).Nodup := by
      rw [idsOf_snoc, List.nodup_append] at hnd; exact hnd.2.1
    refine ⟨?_, ?_, ?_, ?_, ?_, ?_, ?_⟩
    · rw [hb, hp]; exact hrep
    · rw [hb, hp]; exact hnb
    · rw [hp]; exact hnd
    · rw [hp, nonSpCount_snoc]
      rcases hcap with hc | hc
      · have h1 := nonSpCount_le_txCount V P.pending
        have h2 := weight_le V g
        have h3 := hI.idsLen
        omega
      · have := hI.cap; omega
    · rw [hp, hr]
      intro g' hg' t ht
      rw [List.mem_append, List.mem_singleton] at hg'
      rcases hg' with hg' | rfl
      · exact hI.alive g' hg' t ht
      · exact addOk_alive V L P.round P.cur P.whole _ _ _ hk t ht
    · intro x
      rw [hids, hp, mem_insertIds, idsOf_snoc, List.mem_append, hI.idsMem]
    · rw [hids, hp, txCount_snoc, length_insertIds V g P.ids hfresh hgnd, hI.idsLen]
  · obtain ⟨hp, hids, hb, hr, hcur⟩ := remember_err_state V C L P g h
    refine ⟨?_, ?_, ?_, ?_, ?_, ?_, ?_⟩
    · rw [hb, hp]
      rcases hcur with h1 | h1
      · rw [h1]; exact hI.replay
      · rw [h1]; exact hI.replay.reset
    · rw [hb, hp]; exact hI.notCommitted
    · rw [hp]; exact hI.nodup
    · rw [hp]; exact hI.cap
    · rw [hp, hr]; exact hI.alive
    · rw [hp, hids]; exact hI.idsMem
    · rw [hp, hids]; exact hI.idsLen

/-! ### recompute / OnNewBlock -/

/-- the feeding loop: what it keeps replays on the new evaluator after anything replayed before, is a sublist of what was
pending, is alive in the new round, and does not start with a committed txid -/
theorem refeed_spec (V : View τ ι) (L : Ledger S τ) (round : Nat) (committed : List ι) (start : S) :
    ∀ (gs pre : List (List τ)) (s : S) (w : Nat), Replay L start pre s →
      Replay L start (pre ++ (refeed V L round committed gs s w).1) (refeed V L round committed gs s w).2.1 ∧
      (refeed V L round committed gs s w).1.Sublist gs ∧
      (∀ g ∈ (refeed V L round committed gs s w).1, ∀ t ∈ g, round ≤ V.lv t) ∧
      (∀ g ∈ (refeed V L round committed gs s w).1, ∃ t r, g = t :: r ∧ V.id t ∉ committed) := by
  intro gs
  induction gs with
  | nil =>
    intro pre s w hr
    simp only [refeed, List.append_nil]
    exact ⟨hr, List.Sublist.refl _, by simp, by simp⟩
  | cons g gs ih =>
    intro pre s w hr
    cases g with
    | nil =>
      have e : refeed V L round committed ([] :: gs) s w = refeed V L round committed gs s w := by simp [refeed]
      rw [e]
      obtain ⟨h1, h2, h3, h4⟩ := ih pre s w hr
      exact ⟨h1, h2.cons _, h3, h4⟩
    | cons t r =>
      by_cases hc : V.id t ∈ committed
      · have e : refeed V L round committed ((t :: r) :: gs) s w = refeed V L round committed gs s w := by simp [refeed, hc]
        rw [e]
        obtain ⟨h1, h2, h3, h4⟩ := ih pre s w hr
        exact ⟨h1, h2.cons _, h3, h4⟩
      · by_cases hk : (addEval V L round s w (t :: r)).2.2 = .ok
        · have e : refeed V L round committed ((t :: r) :: gs) s w =
              ((t :: r) :: (refeed V L round committed gs (addEval V L round s w (t :: r)).1 (addEval V L round s w (t :: r)).2.1).1,
               (refeed V L round committed gs (addEval V L round s w (t :: r)).1 (addEval V L round s w (t :: r)).2.1).2) := by
            simp [refeed, hc, hk]
          rw [e]
          have hk' := addEval_ok V L round s w (t :: r) hk
          obtain ⟨h1, h2, h3, h4⟩ := ih (pre ++ [t :: r]) _ (addEval V L round s w (t :: r)).2.1 (hr.addOk hk')
          refine ⟨?_, h2.cons_cons _, ?_, ?_⟩
          · simpa [List.append_assoc] using h1
          · intro g' hg' u hu
            rw [List.mem_cons] at hg'
            rcases hg' with rfl | hg'
            · exact addOk_alive V L round s w _ _ _ hk' u hu
            · exact h3 g' hg' u hu
          · intro g' hg'
            rw [List.mem_cons] at hg'
            rcases hg' with rfl | hg'
            · exact ⟨t, r, rfl, hc⟩
            · exact h4 g' hg'
        · have e : refeed V L round committed ((t :: r) :: gs) s w =
              refeed V L round committed gs (addEval V L round s w (t :: r)).1 (addEval V L round s w (t :: r)).2.1 := by
            simp only [refeed, hc, if_false]
          rw [e]
          obtain ⟨h1, h2, h3, h4⟩ := ih pre _ (addEval V L round s w (t :: r)).2.1 (hr.addEval_fail hk)
          exact ⟨h1, h2.cons _, h3, h4⟩

theorem inv_recompute {V : View τ ι} {C : Cfg} {L : Ledger S τ} {seen : S → ι → Prop} (hL : LedgerOK V L seen)
    {P : Pool S τ ι} (hI : Inv V C L seen P) (start : S) (r : Nat) (committed : List ι) (m : Nat) :
    Inv V C L seen (recompute V L P start r committed m) := by
  obtain ⟨h1, h2, h3, _⟩ := refeed_spec V L r committed start P.pending [] start 0 Replay.nil
  rw [List.nil_append] at h1
  obtain ⟨_, hnd, hnb⟩ := replay_seen hL h1
  refine ⟨h1, hnb, hnd, ?_, h3, ?_, ?_⟩
  · exact Nat.le_trans (nonSpCount_sublist V h2) hI.cap
  · intro x
    show x ∈ List.foldl (insertIds V) [] (refeed V L r committed P.pending start 0).1 ↔ x ∈ idsOf V (refeed V L r committed P.pending start 0).1
    rw [mem_foldl_insertIds]; simp
  · show (List.foldl (insertIds V) [] (refeed V L r committed P.pending start 0).1).length = txCount (refeed V L r committed P.pending start 0).1
    rw [length_foldl_insertIds V _ [] (by simp) hnd]; simp

theorem inv_onNewBlock {V : View τ ι} {C : Cfg} {L : Ledger S τ} {seen : S → ι → Prop} (hL : LedgerOK V L seen)
    {P : Pool S τ ι} (hI : Inv V C L seen P) (b : NewBlock S ι) : Inv V C L seen (onNewBlock V C L P b) := by
  unfold onNewBlock
  split
  · exact hI
  · exact inv_recompute hL hI _ _ _ _

/-- a new block (or a recompute) only DROPS pending groups and keeps the order of the rest -/
theorem onNewBlock_sublist (V : View τ ι) (C : Cfg) (L : Ledger S τ) (P : Pool S τ ι) (b : NewBlock S ι) :
    (onNewBlock V C L P b).pending.Sublist P.pending := by
  unfold onNewBlock
  split
  · exact List.Sublist.refl _
  · exact (refeed_spec V L b.evalRound b.committed b.start P.pending [] b.start 0 Replay.nil).2.1

/-- after a block that is not stale no pending group starts with a txid of the block's `delta.Txids`, and none is empty -/
theorem onNewBlock_not_committed (V : View τ ι) (C : Cfg) (L : Ledger S τ) (P : Pool S τ ι) (b : NewBlock S ι)
    (hb : P.round ≤ b.blockRound) :
    ∀ g ∈ (onNewBlock V C L P b).pending, ∃ t r, g = t :: r ∧ V.id t ∉ b.committed := by
  unfold onNewBlock
  rw [if_neg (by omega)]
  exact (refeed_spec V L b.evalRound b.committed b.start P.pending [] b.start 0 Replay.nil).2.2.2

/-! ### any sequence of operations -/

theorem inv_step {V : View τ ι} {C : Cfg} {L : Ledger S τ} {seen : S → ι → Prop} (hL : LedgerOK V L seen)
    {P : Pool S τ ι} (hI : Inv V C L seen P) (op : Op S τ ι) : Inv V C L seen (step V C L P op) := by
  cases op with
  | remember g => exact inv_remember hL hI g
  | newBlock b => exact inv_onNewBlock hL hI b
  | recompute start r => exact inv_recompute hL hI _ _ _ _

theorem inv_run {V : View τ ι} {C : Cfg} {L : Ledger S τ} {seen : S → ι → Prop} (hL : LedgerOK V L seen)
    (ops : List (Op S τ ι)) : ∀ {P : Pool S τ ι}, Inv V C L seen P → Inv V C L seen (run V C L P ops) := by
  induction ops with
  | nil => intro P h; exact h
  | cons op ops ih => intro P h; exact ih (inv_step hL h op)

/-- **C44.** After any sequence of submissions, new blocks and recomputes on a freshly made pool: (a) no pending txid is known to
the latest base ledger, (b) the pending groups evaluate in order on the latest base to the pending evaluator, (c) no txid twice,
(d) the cap as coded, (f) nothing expired, and pendingTxids is exactly the pending ids. -/
theorem pool_inv {V : View τ ι} {C : Cfg} {L : Ledger S τ} {seen : S → ι → Prop} (hL : LedgerOK V L seen)
    (start : S) (r : Nat) (ops : List (Op S τ ι)) : Inv V C L seen (run V C L (init start r) ops) :=
  inv_run hL ops (inv_init V C L seen start r)

/-- (d) as coded: at most TxPoolSize transactions plus the pending singleton state-proof groups -/
theorem pool_cap {V : View τ ι} {C : Cfg} {L : Ledger S τ} {seen : S → ι → Prop} (hL : LedgerOK V L seen)
    (start : S) (r : Nat) (ops : List (Op S τ ι)) :
    txCount (run V C L (init start r) ops).pending ≤ C.maxSize + spSingles V (run V C L (init start r) ops).pending := by
  have h := (pool_inv (C := C) hL start r ops).cap
  rw [txCount_split V]; omega

/-- (d) in the form of the design, under the extra ledger hypothesis that no evaluator chain accepts two state-proof singletons -/
theorem pool_cap_one {V : View τ ι} {C : Cfg} {L : Ledger S τ} {seen : S → ι → Prop} (hL : LedgerOK V L seen)
    (hSP : ∀ (base : S) (gs : List (List τ)) (s : S), Replay L base gs s → spSingles V gs ≤ 1)
    (start : S) (r : Nat) (ops : List (Op S τ ι)) :
    txCount (run V C L (init start r) ops).pending ≤ C.maxSize + 1 := by
  have h := pool_cap (C := C) hL start r ops
  have h2 := hSP _ _ _ (pool_inv (C := C) hL start r ops).replay
  omega

/-- (c) spelled out: no non-empty group is pending twice (at two positions) -/
theorem no_group_twice {V : View τ ι} {C : Cfg} {L : Ledger S τ} {seen : S → ι → Prop} (hL : LedgerOK V L seen)
    (start : S) (r : Nat) (ops : List (Op S τ ι)) (as bs cs : List (List τ)) (g : List τ)
    (h : (run V C L (init start r) ops).pending = as ++ g :: bs ++ g :: cs) : g = [] := by
  have hnd := (pool_inv (C := C) hL start r ops).nodup
  rw [h] at hnd
  cases g with
  | nil => rfl
  | cons t rest =>
    exfalso
    simp only [idsOf, List.flatten_append, List.flatten_cons, List.map_append, List.map_cons] at hnd
    rw [List.nodup_append] at hnd
    have h1 := hnd.2.2 (V.id t) (by simp) (V.id t) (by simp)
    exact h1 rfl

/-! ### what holds for EVERY evaluator function (no ledger hypothesis at all) -/

/-- (b) and (f) alone -/
structure InvB (V : View τ ι) (L : Ledger S τ) (P : Pool S τ ι) : Prop where
  replay : Replay L P.base P.pending P.cur
  alive : ∀ g ∈ P.pending, ∀ t ∈ g, P.round ≤ V.lv t

theorem invB_remember {V : View τ ι} {C : Cfg} {L : Ledger S τ} {P : Pool S τ ι} (hI : InvB V L P) (g : List τ) :
    InvB V L (remember V C L P g).1 := by
  by_cases h : (remember V C L P g).2 = .ok
  · obtain ⟨hp, hk, _, hb, hr⟩ := remember_ok_state V C L P g h
    refine ⟨?_, ?_⟩
    · rw [hb, hp]; exact hI.replay.addOk hk
    · rw [hp, hr]
      intro g' hg' t ht
      rw [List.mem_append, List.mem_singleton] at hg'
      rcases hg' with hg' | rfl
      · exact hI.alive g' hg' t ht
      · exact addOk_alive V L P.round P.cur P.whole _ _ _ hk t ht
  · obtain ⟨hp, _, hb, hr, hcur⟩ := remember_err_state V C L P g h
    refine ⟨?_, ?_⟩
    · rw [hb, hp]
      rcases hcur with h1 | h1
      · rw [h1]; exact hI.replay
      · rw [h1]; exact hI.replay.reset
    · rw [hp, hr]; exact hI.alive

theorem invB_recompute (V : View τ ι) (L : Ledger S τ) (P : Pool S τ ι) (start : S) (r : Nat) (committed : List ι) (m : Nat) :
    InvB V L (recompute V L P start r committed m) := by
  obtain ⟨h1, _, h3, _⟩ := refeed_spec V L r committed start P.pending [] start 0 Replay.nil
  rw [List.nil_append] at h1
  exact ⟨h1, h3⟩

theorem invB_step {V : View τ ι} {C : Cfg} {L : Ledger S τ} {P : Pool S τ ι} (hI : InvB V L P) (op : Op S τ ι) :
    InvB V L (step V C L P op) := by
  cases op with
  | remember g => exact invB_remember hI g
  | newBlock b =>
    show InvB V L (onNewBlock V C L P b)
    unfold onNewBlock
    split
    · exact hI
    · exact invB_recompute V L P _ _ _ _
  | recompute start r => exact invB_recompute V L P _ _ _ _

/-- **(b) + (f) for every evaluator.** After any op sequence, evaluating the pending groups in order on the latest base evaluator
succeeds and yields the pending evaluator, and nothing pending is expired — whatever function the ledger evaluator is. -/
theorem pool_replay (V : View τ ι) (C : Cfg) (L : Ledger S τ) (start : S) (r : Nat) (ops : List (Op S τ ι)) :
    InvB V L (run V C L (init start r) ops) := by
  have h0 : InvB V L (init start r : Pool S τ ι) := ⟨Replay.nil, by simp [init]⟩
  suffices ∀ (ops : List (Op S τ ι)) (P : Pool S τ ι), InvB V L P → InvB V L (run V C L P ops) from this ops _ h0
  intro ops
  induction ops with
  | nil => intro P h; exact h
  | cons op ops ih => intro P h; exact ih _ (invB_step h op)

/-! ### non-vacuity: a ledger meeting `LedgerOK`, concrete runs, and the counterexample to the `+1` form of (d) -/

namespace Toy

structure Tx where
  id : Nat
  lv : Nat
  fee : Nat
  len : Nat
  sp : Bool
deriving DecidableEq, Repr

def view : View Tx Nat :=
  { id := (·.id), fv := fun _ => 0, lv := (·.lv), fee := (·.fee), len := (·.len), sp := (·.sp), spSender := (·.sp) }

/-- evaluator state = (txids seen: committed in window or accepted, bytes used in the block); a group is rejected when one of its
txids was seen or is repeated, does not fit when the block limit would be exceeded, and is accepted otherwise -/
def ledger (cap : Nat) : Ledger (List Nat × Nat) Tx :=
  { tryGroup := fun s g =>
      if (g.any (fun t => decide (t.id ∈ s.1)) || !decide ((g.map (·.id)).Nodup)) = true then .err "txdup"
      else if cap < s.2 + (g.map (·.len)).sum then .noSpace
      else .ok (s.1 ++ g.map (·.id), s.2 + (g.map (·.len)).sum)
    resetBytes := fun s => (s.1, 0) }

def seen (s : List Nat × Nat) (x : Nat) : Prop := x ∈ s.1

theorem try_ok {cap : Nat} {s : List Nat × Nat} {g : List Tx} {s' : List Nat × Nat} (h : (ledger cap).tryGroup s g = .ok s') :
    (∀ t ∈ g, t.id ∉ s.1) ∧ (g.map (·.id)).Nodup ∧ s' = (s.1 ++ g.map (·.id), s.2 + (g.map (·.len)).sum) := by
  simp only [ledger] at h
  split at h
  · cases h
  · rename_i h1
    split at h
    · cases h
    · injection h with h
      simp only [Bool.or_eq_true, List.any_eq_true, decide_eq_true_eq, Bool.not_eq_eq_eq_not, Bool.not_true,
        decide_eq_false_iff_not, not_or, not_exists, not_and, Decidable.not_not] at h1
      exact ⟨fun t ht => h1.1 t ht, h1.2, h.symm⟩

theorem ledgerOK (cap : Nat) : LedgerOK view (ledger cap) seen where
  fresh := fun h t ht => (try_ok h).1 t ht
  nodup := fun h => (try_ok h).2.1
  record := by
    intro s g s' h x
    rw [(try_ok h).2.2]
    simp [seen, view]
  reset := fun _ _ => Iff.rfl

def pay (id lv : Nat) : Tx := ⟨id, lv, 1000, 250, false⟩
def sp (id lv : Nat) : Tx := ⟨id, lv, 0, 100, true⟩

/-- a run through every branch (TxPoolSize 6, blocks of two transactions, fee factor 2): accept; the same transaction again is
rejected by the evaluator; the block is full → numPendingWholeBlocks 1 on the retry, where transaction 3 (LastValid 1) is expired for
the pool (1 < 1 + 1); a third block's worth → 2, so the fee threshold 2/byte refuses a 100-µAlgo fee; the cap refuses the 7th; the
new block commits transaction 1, the multiplier goes 0 → 1, the rest is re-evaluated in order on the new base (which knows txid 1). -/
example :
    let C : Cfg := ⟨6, 2⟩
    let L := ledger 500
    let low : Tx := ⟨7, 9, 100, 250, false⟩
    let P1 := run view C L (init ([], 0) 1)
      [.remember [pay 1 9], .remember [pay 1 9], .remember [pay 2 9], .remember [pay 3 1], .remember [pay 4 9],
       .remember [pay 5 9], .remember [pay 6 9]]
    let P2 := run view C L P1 [.remember [pay 8 9], .newBlock ⟨1, [1], ([1], 0), 2⟩]
    (P1.pending = [[pay 1 9], [pay 2 9], [pay 4 9], [pay 5 9], [pay 6 9]] ∧ P1.whole = 2 ∧ P1.cur = ([1, 2, 4, 5, 6], 250) ∧
      (remember view C L P1 [pay 1 9]).2 = .err "txdup" ∧ (remember view C L P1 [pay 3 1]).2 = .dead ∧
      (remember view C L P1 [low]).2 = .fee ∧ (remember view C L P1 [pay 8 9]).2 = .ok ∧
      (remember view C L (remember view C L P1 [pay 8 9]).1 [pay 9 9]).2 = .cap) ∧
    P2.pending = [[pay 2 9], [pay 4 9], [pay 5 9], [pay 6 9], [pay 8 9]] ∧ P2.round = 2 ∧ P2.whole = 2 ∧ P2.mult = 1 ∧
      P2.ids.length = 5 ∧ (remember view C L P2 [pay 1 9]).2 = .err "txdup" := by
  decide

/-- the theorems instantiate: after ANY op sequence on this ledger the full invariant holds -/
example (C : Cfg) (ops : List (Op (List Nat × Nat) Tx Nat)) : Inv view C (ledger 500) seen (run view C (ledger 500) (init ([], 0) 1) ops) :=
  pool_inv (ledgerOK 500) _ _ ops

/-- `remember_iff` on a concrete accepting instance (second disjunct of `AddOk`: the retry after ErrNoSpace) -/
example : (remember view ⟨4, 2⟩ (ledger 500) (run view ⟨4, 2⟩ (ledger 500) (init ([], 0) 1) [.remember [pay 1 9], .remember [pay 2 9]])
      [pay 3 9]).2 = .ok ∧
    AddOk view (ledger 500) 1 ([1, 2], 500) 0 [pay 3 9] ([1, 2, 3], 250) 1 := by
  unfold AddOk
  decide

/-- **The `+1` form of (d) in the design is not an invariant of the code as written.**  `stateproofOverflowed` is cleared by every
recompute: with the pool full, one state-proof singleton passes the cap before the block and another one after it (TxPoolSize 1,
three transactions pending), on a ledger that accepts two state-proof transactions in a row (the real one does when state proofs
lag two intervals behind).  What holds is `pool_cap`; `pool_cap_one` needs the at-most-one hypothesis. -/
theorem cap_plus_one_fails : ¬ CapPlusOneStatement view ⟨1, 1⟩ (ledger 1000) ([], 0) 1 := by
  intro h
  have := h [.remember [pay 1 9], .remember [sp 2 9], .newBlock ⟨1, [], ([], 0), 2⟩, .remember [sp 3 9]]
  revert this
  decide

end Toy

/-! ### the pool over the functional ledger model `Model.LedgerCore` (agent lcore): `accepts` = `evalGroup` -/

namespace Core
open AlgoVerif.Model.LedgerCore

/-- ungrouped LedgerCore transactions (`grp = 0`: the txid does not depend on the group); every transaction 250 bytes -/
def view : View Txn TxId :=
  { id := fun t => txid [] t, fv := (·.fv), lv := (·.lv), fee := (·.fee), len := fun _ => 250, sp := fun _ => false,
    spSender := fun _ => false }

/-- `BlockEvaluator.TransactionGroup` as modelled by LedgerCore (no block size limit there: never `ErrNoSpace`) -/
def ledger (P : Params) (x : Ctx) : Ledger EvalState Txn :=
  { tryGroup := fun s g => match evalGroup P x s g with | .ok s' => .ok s' | .error _ => .err "rejected"
    resetBytes := fun s => s }

def x0 : Ctx := { base := { accts := [(1, { bal := 1000000 }), (2, { bal := 1000000 })] } }
def x1 : Ctx := { base := { accts := [(1, { bal := 700000 }), (2, { bal := 1300000 })] } }
def pay (note amt : Nat) : Txn :=
  { kind := .pay, sender := 1, receiver := 2, amount := amt, fee := 1000, fv := 1, lv := 10, note := note }

/-- conflicting spends of one balance on the real evaluation model: 500000 + 300000 fit into account 1, a second 500000 and the
same transaction again do not; after a block that took 300000 out of account 1 (new base `x1`, evaluator of round 6) only the
first pending spend still applies and the recompute drops the other one. -/
example :
    let P1 := run view ⟨10, 1⟩ (ledger { round := 5 } x0) (init {} 5)
      [.remember [pay 1 500000], .remember [pay 2 500000], .remember [pay 3 300000], .remember [pay 1 500000]]
    P1.pending = [[pay 1 500000], [pay 3 300000]] ∧
    (recompute view (ledger { round := 6 } x1) P1 {} 6 [] 0).pending = [[pay 1 500000]] := by
  decide

/-- (b) and (f) hold on it after any op sequence, with no hypothesis to discharge -/
example (P : Params) (x : Ctx) (C : Cfg) (ops : List (Op EvalState Txn TxId)) :
    InvB view (ledger P x) (run view C (ledger P x) (init {} P.round) ops) :=
  pool_replay view C (ledger P x) {} P.round ops

end Core

end AlgoVerif.Props.C44
