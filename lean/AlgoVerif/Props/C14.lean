/-
C14 — Catchpoint labels depend only on the ledger history.

Model: AlgoVerif/Model/Catchpoint.lean — `Hist.label H p hist r` (the label as a function of the history: C15 leaves of the state at
r − lookback, C17 canonical trie root, C15 label buffer) and the tracker's first/second-stage bookkeeping machine `Tr` / `step`
(newBlock, produceCommittingTask with calculateFirstStageRounds, commitRound as one transaction, the post-commit actions one by one,
crash / restart with catchpoint tracking ENABLED or DISABLED for the new lifetime — initializeHashes resets (and, when enabled,
rebuilds) the trie iff the accounts hash round differs from the DB round; commits without tracking leave the trie alone and stamp hash
round 0 — + recoverFromCrash, trie Commit/Evict/reload at any time).  A flush schedule, the restart / crash points, the
enable/disable history and the trie memory configuration are the event list.

FULL (for the model, all histories, all event lists):
  * `labels_sound`                 every label a run creates for round r is `Hist.label … r`;
  * `label_schedule_independent`   two runs over the same history — ANY event lists: flush schedules, tracking switched off and on
                                   again across restarts (with commits in between), restarts, crashes between the
                                   commit transaction and every post-commit action, trie housekeeping — never create different labels
                                   for the same round; `label_sequences_equal`: if they created labels for the same rounds, the
                                   label sequences are equal;
  * `first_stage_recorded_exact`   (bookkeeping invariant) every catchpointfirststageinfo record of a reachable state, whichever
                                   commit range produced it and whether it was written by finishFirstStage or by
                                   finishFirstStageAfterCrash, is the info of exactly ITS round: root of the state at that round,
                                   totals of that round;
  * `first_stage_exact`            calculateFirstStageRounds: when a commit range (oldBase, oldBase+offset] contains an eligible
                                   first-stage round, the new offset ends the commit exactly ON the last such round (≡ −lookback mod
                                   interval), is ≥ 1 and ≤ offset, and no first-stage round is left behind it in the range;
  * `catchpointRounds_spec`        calculateCatchpointRounds returns multiples of the interval in (oldBase, oldBase+offset] above the lookback.
Hypotheses (`HistOK`): |H x| = 32 (crypto.Digest), the genesis rows have distinct keys, and NO TWO DIFFERENT ROWS OF STATES OF THE
HISTORY SHARE A TRIE LEAF (`LeafInj`: no collision of the truncated hash on the rows that occur, and no kv boundary-shift pair — known
finding F2).  Without it the statement is false for the code as it stands: the trie holds a SET, a leaf shared by two boxes is removed
when one of them is deleted, and whether that happens depends on the commit ranges (replayed on two real ledgers by the harness).
PARTIAL:
  * `label_complete_Statement` (every catchpoint round of a crash-free run whose commit ranges each contain at most one first-stage
    round gets its label) is NOT proved; `commit_lands_on_first_stage_partial` proves the step it rests on: such a commit ends on the
    first-stage round and schedules finishFirstStage for it.  The harness checks completeness on every replica (the model predicts the
    exact set of labels, including the ones a sparse schedule skips).
Not modelled: how the tracker DB computes totals / the state-proof, online-accounts and online-round-params hashes of a round (data of
the history here); catchpoint FILE generation; several consensus versions in one history.
-/
import AlgoVerif.Lemmas.Catchpoint
namespace Props.C14
open Model.CatchpointHash Model.MerkleTrie Model.Catchpoint Lemmas.Catchpoint

/-- hypotheses on the hash and the history -/
structure HistOK (H : Bytes → Bytes) (h : Hist) : Prop where
  hashLen : ∀ x, (H x).length = 32
  genKeys : KeysNodup h.genesis
  leafInj : ∀ a b, LeafInj H (h.stateAt a ++ h.stateAt b)

/-- the bookkeeping invariant, part 1 (everything that does not relate `writingFS` to the pending work) -/
structure InvCore (H : Bytes → Bytes) (p : Params) (h : Hist) (σ : Tr) : Prop where
  latest_le : σ.latest ≤ h.rounds.length
  db_le : σ.dbRound ≤ σ.latest
  rows_eq : σ.rows = h.stateAt σ.dbRound
  aux_eq : σ.aux = h.auxAt σ.dbRound
  /-- with tracking enabled the hash round is the DB round … -/
  en_hash : σ.enabled = true → σ.hashRound = σ.dbRound
  /-- … and whenever the hash round is the DB round the trie holds exactly the leaves of the rows -/
  trie_ok : σ.hashRound = σ.dbRound → TrieOK σ.trie (leavesOf H σ.rows)
  /-- finishFirstStage is only ever pending on a valid trie -/
  fs_hash : Act.fs ∈ σ.pending → σ.hashRound = σ.dbRound
  fs_ok : ∀ a i, (a, i) ∈ σ.firstStage → i = infoAt H h a
  unf_ok : ∀ r bh, (r, bh) ∈ σ.unfinished → h.blockHash r = some bh ∧ p.lookback < r
  pend_ok : ∀ r bh, Act.cp r bh ∈ σ.pending → h.blockHash r = some bh ∧ p.lookback < r
  out_ok : ∀ r s, (r, s) ∈ σ.out → h.label H p r = some s

/-- the bookkeeping invariant -/
structure Inv (H : Bytes → Bytes) (p : Params) (h : Hist) (σ : Tr) : Prop extends InvCore H p h σ where
  /-- an unfinished first stage is always scheduled (by commitRound or by recoverFromCrash) -/
  wfs_pend : σ.writingFS = true → Act.fs ∈ σ.pending

theorem keysNodup_stateAt {H : Bytes → Bytes} {h : Hist} (ok : HistOK H h) (a : Nat) : KeysNodup (h.stateAt a) :=
  keysNodup_foldRounds _ ok.genKeys

theorem inv_init {H : Bytes → Bytes} (p : Params) {h : Hist} (ok : HistOK H h) : Inv H p h (Tr.init H h) where
  latest_le := Nat.zero_le _
  db_le := Nat.le_refl _
  rows_eq := by simp [Tr.init, Hist.stateAt]
  aux_eq := by simp [Tr.init, Hist.auxAt]
  en_hash := fun _ => rfl
  trie_ok := fun _ => trieOK_buildTrie ok.hashLen _
  fs_hash := by intro hm; simp [Tr.init] at hm
  fs_ok := by intro a i hm; simp [Tr.init] at hm
  unf_ok := by intro r bh hm; simp [Tr.init] at hm
  pend_ok := by intro r bh hm; simp [Tr.init] at hm
  out_ok := by intro r s hm; simp [Tr.init] at hm
  wfs_pend := by intro hm; simp [Tr.init] at hm

/-! ### arithmetic of produceCommittingTask -/

/-- the least eligible first-stage round of calculateFirstStageRounds -/
def minFS (ob re L : Nat) : Nat := if L < re ∧ ob + 1 < re - L then re - L else ob + 1
def firstR (ob re I L : Nat) : Int := ((minFS ob re L + L + I - 1) / I * I : Nat) - (L : Int)
def lastR (ob off I L : Nat) : Int := ((ob + off + L) / I * I : Nat) - (L : Int)

theorem calc_unfold (ob off re I L : Nat) : calcFirstStageRounds ob off re I L =
    if re = 0 ∨ I = 0 then ⟨false, false, off⟩ else
    if firstR ob re I L ≤ lastR ob off I L then
      ⟨true, decide (firstR ob re I L < lastR ob off I L), (lastR ob off I L - (ob : Int)).toNat⟩
    else ⟨false, false, off⟩ := rfl

theorem calc_newOffset_le (ob off re I L : Nat) : (calcFirstStageRounds ob off re I L).newOffset ≤ off := by
  rw [calc_unfold]
  by_cases hg : re = 0 ∨ I = 0
  · rw [if_pos hg]; exact Nat.le_refl _
  · rw [if_neg hg]
    by_cases hfl : firstR ob re I L ≤ lastR ob off I L
    · rw [if_pos hfl]
      have h1 : (ob + off + L) / I * I ≤ ob + off + L := Nat.div_mul_le_self _ _
      simp only [lastR]
      generalize (ob + off + L) / I * I = y at *
      omega
    · rw [if_neg hfl]; exact Nat.le_refl _

/-- **calculateFirstStageRounds ends the commit exactly on the last first-stage round of the range.** -/
theorem first_stage_exact (ob off re I L : Nat) (hh : (calcFirstStageRounds ob off re I L).has = true) :
    let n := (calcFirstStageRounds ob off re I L).newOffset
    (ob + n + L) % I = 0 ∧ 1 ≤ n ∧ n ≤ off ∧ ∀ a, ob + n < a → a ≤ ob + off → (a + L) % I ≠ 0 := by
  rw [calc_unfold] at hh ⊢
  by_cases hg : re = 0 ∨ I = 0
  · rw [if_pos hg] at hh; simp at hh
  · rw [if_neg hg] at hh ⊢
    simp only [not_or] at hg
    have hI : 0 < I := Nat.pos_of_ne_zero hg.2
    by_cases hfl : firstR ob re I L ≤ lastR ob off I L
    · rw [if_pos hfl]
      simp only
      have hm1 : ob + 1 ≤ minFS ob re L := by unfold minFS; split <;> omega
      simp only [firstR, lastR] at hfl ⊢
      generalize minFS ob re L = m at *
      have hz : m + L ≤ (m + L + I - 1) / I * I := by
        have h1 := Nat.div_add_mod (m + L + I - 1) I
        have h2 := Nat.mod_lt (m + L + I - 1) hI
        rw [Nat.mul_comm] at h1
        generalize (m + L + I - 1) / I * I = z at *
        omega
      have hy : (ob + off + L) / I * I ≤ ob + off + L := Nat.div_mul_le_self _ _
      have hmod : ((ob + off + L) / I * I) % I = 0 := Nat.mul_mod_left _ _
      have hmax : ∀ a, a ≤ ob + off → (a + L) % I = 0 → a + L ≤ (ob + off + L) / I * I := by
        intro a ha hmd
        have h1 : (a + L) / I ≤ (ob + off + L) / I := Nat.div_le_div_right (by omega)
        have h2 : (a + L) / I * I = a + L := by
          have := Nat.div_add_mod (a + L) I
          rw [hmd, Nat.add_zero, Nat.mul_comm] at this
          exact this
        calc a + L = (a + L) / I * I := h2.symm
          _ ≤ (ob + off + L) / I * I := Nat.mul_le_mul_right _ h1
      generalize (ob + off + L) / I * I = y at *
      generalize (m + L + I - 1) / I * I = z at *
      have hyn : ob + (((y : Int) - (L : Int)) - (ob : Int)).toNat + L = y := by omega
      refine ⟨by rw [hyn]; exact hmod, by omega, by omega, ?_⟩
      intro a ha1 ha2 hmd
      have := hmax a ha2 hmd
      omega
    · rw [if_neg hfl] at hh; simp at hh

def cpMin (ob L : Nat) : Nat := if ob + 1 < L + 1 then L + 1 else ob + 1

theorem catchpointRounds_unfold (ob off L I : Nat) : catchpointRounds ob off L I =
    if I = 0 then [] else
    if (ob + off) / I < (cpMin ob L + I - 1) / I then []
    else (List.range ((ob + off) / I + 1 - (cpMin ob L + I - 1) / I)).map fun i => ((cpMin ob L + I - 1) / I + i) * I := rfl

theorem catchpointRounds_spec {ob off L I r : Nat} (hr : r ∈ catchpointRounds ob off L I) :
    L < r ∧ ob < r ∧ r ≤ ob + off ∧ r % I = 0 := by
  rw [catchpointRounds_unfold] at hr
  by_cases hI0 : I = 0
  · rw [if_pos hI0] at hr; cases hr
  · rw [if_neg hI0] at hr
    have hI : 0 < I := Nat.pos_of_ne_zero hI0
    by_cases hlr : (ob + off) / I < (cpMin ob L + I - 1) / I
    · rw [if_pos hlr] at hr; cases hr
    · rw [if_neg hlr] at hr
      obtain ⟨i, hi, rfl⟩ := List.mem_map.1 hr
      rw [List.mem_range] at hi
      have hmn1 : L + 1 ≤ cpMin ob L ∧ ob + 1 ≤ cpMin ob L := by unfold cpMin; split <;> omega
      generalize cpMin ob L = mn at *
      have hz : mn ≤ (mn + I - 1) / I * I := by
        have h1 := Nat.div_add_mod (mn + I - 1) I
        have h2 := Nat.mod_lt (mn + I - 1) hI
        rw [Nat.mul_comm] at h1
        generalize (mn + I - 1) / I * I = z at *
        omega
      have hle : ((mn + I - 1) / I + i) * I ≤ (ob + off) / I * I :=
        Nat.mul_le_mul_right _ (by omega)
      have hy : (ob + off) / I * I ≤ ob + off := Nat.div_mul_le_self _ _
      have hge : (mn + I - 1) / I * I ≤ ((mn + I - 1) / I + i) * I := Nat.mul_le_mul_right _ (by omega)
      refine ⟨by omega, by omega, by omega, Nat.mul_mod_left _ _⟩

/-! ### the invariant is preserved by every event -/

theorem mem_cpHashes {h : Hist} {rs : List Nat} {r : Nat} {bh : Bytes} (hm : (r, bh) ∈ cpHashes h rs) :
    r ∈ rs ∧ h.blockHash r = some bh := by
  unfold cpHashes at hm
  obtain ⟨r', hr', hx⟩ := List.mem_filterMap.1 hm
  cases hb : h.blockHash r' with
  | none => simp [hb] at hx
  | some b =>
    simp only [hb, Option.map_some, Option.some.injEq, Prod.mk.injEq] at hx
    obtain ⟨rfl, rfl⟩ := hx
    exact ⟨hr', hb⟩

theorem label_of_info {H : Bytes → Bytes} {p : Params} {h : Hist} {r : Nat} {bh : Bytes}
    (hb : h.blockHash r = some bh) (hl : p.lookback < r) :
    h.label H p r = some (labelOf H p r bh (infoAt H h (r - p.lookback))) := by
  unfold Hist.label
  rw [if_pos hl, hb]
  rfl

theorem inv_runAct {H : Bytes → Bytes} {p : Params} {h : Hist} (ok : HistOK H h) {σ : Tr} (inv : InvCore H p h σ)
    (a : Act) (ha : ∀ r bh, a = .cp r bh → h.blockHash r = some bh ∧ p.lookback < r)
    (hfs : a = .fs → σ.hashRound = σ.dbRound) : InvCore H p h (runAct H p σ a) := by
  cases a with
  | evict => exact { inv with trie_ok := fun hh => trieOK_op (inv.trie_ok hh) _ }
  | fs =>
    obtain ⟨hroot, htrie⟩ := trieOK_root H (allLen_leaves ok.hashLen σ.rows) (inv.trie_ok (hfs rfl))
    refine { inv with trie_ok := fun _ => htrie, fs_ok := ?_ }
    intro a i hm
    simp only [runAct, insertInfo, List.mem_cons, List.mem_filter] at hm
    rcases hm with hm | hm
    · obtain ⟨rfl, rfl⟩ := Prod.mk.inj hm
      simp only [infoAt, hroot, inv.rows_eq, inv.aux_eq]
    · exact inv.fs_ok a i hm.1
  | cp r bh =>
    obtain ⟨hb, hl⟩ := ha r bh rfl
    have hunf : ∀ r' bh', (r', bh') ∈ σ.unfinished.filter (fun x => x.1 ≠ r) → h.blockHash r' = some bh' ∧ p.lookback < r' :=
      fun r' bh' hm => inv.unf_ok r' bh' (List.mem_filter.1 hm).1
    simp only [runAct]
    cases hli : lookupInfo σ.firstStage (r - p.lookback) with
    | none => exact { inv with unf_ok := hunf }
    | some info =>
      simp only
      refine { inv with unf_ok := hunf, out_ok := ?_ }
      intro r' s hm
      rcases List.mem_append.1 hm with hm | hm
      · exact inv.out_ok r' s hm
      · simp only [List.mem_singleton, Prod.mk.injEq] at hm
        obtain ⟨rfl, rfl⟩ := hm
        unfold lookupInfo at hli
        cases hf : σ.firstStage.find? (fun x => x.1 = r' - p.lookback) with
        | none => simp [hf] at hli
        | some x =>
          simp only [hf, Option.map_some, Option.some.injEq] at hli
          have hx1 : x.1 = r' - p.lookback := by simpa using List.find?_some hf
          have hx := inv.fs_ok x.1 x.2 (List.mem_of_find?_eq_some hf)
          rw [label_of_info hb hl, ← hli, hx, hx1]
  | prune =>
    simp only [runAct]
    split
    · exact { inv with fs_ok := fun a i hm => inv.fs_ok a i (List.mem_filter.1 hm).1 }
    · exact inv

/-- runAct touches neither the pending list nor — except for `fs`, which clears it — the first-stage flag -/
theorem runAct_pending (H : Bytes → Bytes) (p : Params) (σ : Tr) (a : Act) :
    (runAct H p σ a).pending = σ.pending ∧ (a ≠ .fs → (runAct H p σ a).writingFS = σ.writingFS) ∧
      (a = .fs → (runAct H p σ a).writingFS = false) := by
  cases a with
  | evict => exact ⟨rfl, fun _ => rfl, fun h => by cases h⟩
  | fs => exact ⟨rfl, fun h => absurd rfl h, fun _ => rfl⟩
  | cp r bh =>
    simp only [runAct]
    cases lookupInfo σ.firstStage (r - p.lookback) <;> exact ⟨rfl, fun _ => rfl, fun h => by cases h⟩
  | prune =>
    simp only [runAct]
    split <;> exact ⟨rfl, fun _ => rfl, fun h => by cases h⟩

theorem inv_step {H : Bytes → Bytes} {p : Params} {h : Hist} (ok : HistOK H h) {σ : Tr} (inv : Inv H p h σ) (e : Ev) :
    Inv H p h (step H p h σ e) := by
  cases e with
  | block =>
    simp only [step]
    split
    · rename_i hlt
      exact { inv with latest_le := hlt, db_le := Nat.le_succ_of_le inv.db_le }
    · exact inv
  | commit t =>
    simp only [step]
    split
    · rename_i hg
      obtain ⟨hp, hdb, htl, _⟩ := hg
      have hnofs : σ.writingFS = false := by
        cases hw : σ.writingFS with
        | false => rfl
        | true => have := inv.wfs_pend hw; rw [hp] at this; cases this
      cases hen : σ.enabled with
      | true =>
        simp only [if_true]
        have hle := calc_newOffset_le σ.dbRound (t - σ.dbRound) σ.reenable p.interval p.lookback
        generalize calcFirstStageRounds σ.dbRound (t - σ.dbRound) σ.reenable p.interval p.lookback = fs at *
        have hrows : List.foldl applyRound σ.rows ((h.rounds.drop σ.dbRound).take fs.newOffset) = h.stateAt (σ.dbRound + fs.newOffset) := by
          rw [stateAt_add, inv.rows_eq]
        have htrie := trieOK_updateTrie ok.hashLen ((h.rounds.drop σ.dbRound).take fs.newOffset)
          (by rw [inv.rows_eq]; exact keysNodup_stateAt ok _)
          (by rw [hrows, inv.rows_eq]; exact ok.leafInj _ _) (inv.trie_ok (inv.en_hash hen))
        refine ⟨⟨inv.latest_le, by simp only; omega, hrows, rfl, fun _ => rfl, fun _ => htrie, fun _ => rfl, inv.fs_ok, ?_, ?_, inv.out_ok⟩, ?_⟩
        · intro r bh hm
          simp only at hm
          rcases List.mem_append.1 hm with hm | hm
          · exact inv.unf_ok r bh hm
          · obtain ⟨hr, hb⟩ := mem_cpHashes hm
            exact ⟨hb, (catchpointRounds_spec hr).1⟩
        · intro r bh hm
          simp only [List.mem_append, List.mem_cons, List.mem_map, List.not_mem_nil, or_false] at hm
          rcases hm with ((hm | hm) | hm) | hm
          · cases hm
          · split at hm <;> simp at hm
          · obtain ⟨x, hx, hxe⟩ := hm
            obtain ⟨rfl, rfl⟩ := Act.cp.inj hxe
            obtain ⟨hr, hb⟩ := mem_cpHashes (r := x.1) (bh := x.2) hx
            exact ⟨hb, (catchpointRounds_spec hr).1⟩
          · cases hm
        · intro hw
          simp only [hnofs, Bool.false_or] at hw
          simp [hw]
      | false =>
        simp only [Bool.false_eq_true, if_false]
        have hrows : List.foldl applyRound σ.rows ((h.rounds.drop σ.dbRound).take (t - σ.dbRound)) = h.stateAt (σ.dbRound + (t - σ.dbRound)) := by
          rw [stateAt_add, inv.rows_eq]
        refine ⟨⟨inv.latest_le, by simp only; omega, hrows, rfl, ?_, ?_, ?_, inv.fs_ok, inv.unf_ok, ?_, inv.out_ok⟩, ?_⟩
        · intro he; exact absurd he (by simp)
        · intro hh; simp only at hh; omega
        · intro hm; simp at hm
        · intro r bh hm; simp at hm
        · intro hw; simp only at hw; rw [hnofs] at hw; cases hw
    · exact inv
  | tick =>
    simp only [step]
    cases hp : σ.pending with
    | nil => simp only; exact inv
    | cons a rest =>
      simp only
      have core' : InvCore H p h { σ with pending := rest } :=
        { inv.toInvCore with
          pend_ok := fun r bh hm => inv.pend_ok r bh (by rw [hp]; exact List.mem_cons_of_mem _ hm),
          fs_hash := fun hm => inv.fs_hash (by rw [hp]; exact List.mem_cons_of_mem _ hm) }
      have core := inv_runAct ok core' a (fun r bh ha => inv.pend_ok r bh (by rw [hp, ha]; exact List.mem_cons_self ..))
        (fun ha => inv.fs_hash (by rw [hp, ha]; exact List.mem_cons_self ..))
      obtain ⟨hpend, hkeep, hclr⟩ := runAct_pending H p { σ with pending := rest } a
      refine ⟨core, ?_⟩
      intro hw
      rw [hpend]
      by_cases ha : a = .fs
      · rw [hclr ha] at hw; cases hw
      · rw [hkeep ha] at hw
        have := inv.wfs_pend hw
        rw [hp] at this
        rcases List.mem_cons.1 this with e | hm
        · exact absurd e.symm ha
        · exact hm
  | crash en =>
    simp only [step]
    have hrec : ∀ (τ : Tr), τ.writingFS = σ.writingFS → τ.unfinished = σ.unfinished →
        (Act.fs ∈ recoveryActs τ → σ.writingFS = true) ∧ (σ.writingFS = true → Act.fs ∈ recoveryActs τ) ∧
        (∀ r bh, Act.cp r bh ∈ recoveryActs τ → (r, bh) ∈ σ.unfinished) := by
      intro τ hw hu
      refine ⟨?_, ?_, ?_⟩
      · intro hm
        simp only [recoveryActs, List.mem_append] at hm
        rcases hm with hm | hm
        · split at hm
          · rename_i h1; rw [hw] at h1; exact h1
          · cases hm
        · split at hm
          · cases hm
          · rcases List.mem_append.1 hm with hm | hm
            · obtain ⟨x, _, hxe⟩ := List.mem_map.1 hm; cases hxe
            · split at hm <;> simp at hm
      · intro h1
        simp only [recoveryActs, hw, h1, if_true, List.mem_append, List.mem_singleton, true_or]
      · intro r bh hm
        simp only [recoveryActs, List.mem_append] at hm
        rcases hm with hm | hm
        · split at hm <;> simp at hm
        · split at hm
          · cases hm
          · rcases List.mem_append.1 hm with hm | hm
            · obtain ⟨x, hx, hxe⟩ := List.mem_map.1 hm
              obtain ⟨rfl, rfl⟩ := Act.cp.inj hxe
              rw [hu] at hx
              exact hx
            · split at hm <;> simp at hm
    generalize hτ : ({ σ with
      trie := if σ.hashRound ≠ σ.dbRound then (if en then buildTrie H σ.rows else Store.empty) else σ.trie.reload,
      hashRound := if σ.hashRound ≠ σ.dbRound ∧ en then σ.dbRound else σ.hashRound,
      enabled := en, pending := [],
      reenable := if σ.dbRound < σ.latest then σ.dbRound + 1 + p.lookback else 0 } : Tr) = τ
    have e1 : τ.writingFS = σ.writingFS := by rw [← hτ]
    have e2 : τ.unfinished = σ.unfinished := by rw [← hτ]
    obtain ⟨r1, r2, r3⟩ := hrec τ e1 e2
    refine ⟨⟨inv.latest_le, inv.db_le, inv.rows_eq, inv.aux_eq, ?_, ?_, ?_, inv.fs_ok, inv.unf_ok, ?_, inv.out_ok⟩, ?_⟩
    · intro he
      simp only at he ⊢
      by_cases hs : σ.hashRound = σ.dbRound
      · simp [hs]
      · simp [hs, he]
    · intro hh
      simp only at hh ⊢
      by_cases hs : σ.hashRound = σ.dbRound
      · simp only [hs, ne_eq, not_true_eq_false, if_false]
        exact trieOK_op (inv.trie_ok hs) .reload
      · cases en with
        | true => simp only [ne_eq, hs, not_false_eq_true, if_true]; exact trieOK_buildTrie ok.hashLen _
        | false => simp [hs] at hh
    · intro hm
      have hs := inv.fs_hash (inv.wfs_pend (r1 hm))
      simp only
      simp [hs]
    · intro r bh hm
      exact inv.unf_ok r bh (r3 r bh hm)
    · intro hw
      exact r2 hw
  | trie op => exact { inv with trie_ok := fun hh => trieOK_op (inv.trie_ok hh) op }

theorem inv_run {H : Bytes → Bytes} {p : Params} {h : Hist} (ok : HistOK H h) :
    ∀ (evs : List Ev) {σ : Tr}, Inv H p h σ → Inv H p h (run H p h σ evs)
  | [], _, inv => inv
  | e :: es, _, inv => inv_run ok es (inv_step ok inv e)

/-! ### the property -/

/-- every label a run creates is the label the history determines -/
theorem labels_sound {H : Bytes → Bytes} (p : Params) {h : Hist} (ok : HistOK H h) (evs : List Ev) :
    ∀ r s, (r, s) ∈ labels H p h evs → h.label H p r = some s :=
  (inv_run ok evs (inv_init p ok)).out_ok

/-- **C14.** Two runs of the tracker over the same history, with any flush schedules, restarts / crashes and trie housekeeping,
never produce different labels for the same catchpoint round. -/
theorem label_schedule_independent {H : Bytes → Bytes} (p : Params) {h : Hist} (ok : HistOK H h) (evs₁ evs₂ : List Ev)
    {r : Nat} {s₁ s₂ : String} (h₁ : (r, s₁) ∈ labels H p h evs₁) (h₂ : (r, s₂) ∈ labels H p h evs₂) : s₁ = s₂ := by
  have e₁ := labels_sound p ok evs₁ r s₁ h₁
  have e₂ := labels_sound p ok evs₂ r s₂ h₂
  rw [e₁] at e₂
  exact Option.some.inj e₂

theorem seq_eq_of_fst_eq {f : Nat → Option String} : ∀ (l₁ l₂ : List (Nat × String)),
    (∀ r s, (r, s) ∈ l₁ → f r = some s) → (∀ r s, (r, s) ∈ l₂ → f r = some s) →
    l₁.map Prod.fst = l₂.map Prod.fst → l₁ = l₂
  | [], [], _, _, _ => rfl
  | [], _ :: _, _, _, h => by simp at h
  | _ :: _, [], _, _, h => by simp at h
  | (r₁, t₁) :: xs, (r₂, t₂) :: ys, s₁, s₂, h => by
    simp only [List.map_cons, List.cons.injEq] at h
    obtain ⟨hr, h'⟩ := h
    subst hr
    have e₁ := s₁ r₁ t₁ (List.mem_cons_self ..)
    have e₂ := s₂ r₁ t₂ (List.mem_cons_self ..)
    rw [e₁] at e₂
    rw [Option.some.inj e₂, seq_eq_of_fst_eq xs ys (fun r s hm => s₁ r s (List.mem_cons_of_mem _ hm))
      (fun r s hm => s₂ r s (List.mem_cons_of_mem _ hm)) h']

/-- if the two runs created labels for the same rounds (in the same order), the label sequences are equal -/
theorem label_sequences_equal {H : Bytes → Bytes} (p : Params) {h : Hist} (ok : HistOK H h) (evs₁ evs₂ : List Ev)
    (hr : (labels H p h evs₁).map Prod.fst = (labels H p h evs₂).map Prod.fst) :
    labels H p h evs₁ = labels H p h evs₂ :=
  seq_eq_of_fst_eq _ _ (labels_sound p ok evs₁) (labels_sound p ok evs₂) hr

/-- **bookkeeping invariant**: in every reachable state every first-stage record is the info of exactly its round -/
theorem first_stage_recorded_exact {H : Bytes → Bytes} (p : Params) {h : Hist} (ok : HistOK H h) (evs : List Ev) :
    ∀ a i, (a, i) ∈ (run H p h (Tr.init H h) evs).firstStage → i = infoAt H h a :=
  (inv_run ok evs (inv_init p ok)).fs_ok

/-- the tracker DB round of a reachable state never passes the blocks seen, and its rows / totals are those of that round -/
theorem db_state_exact {H : Bytes → Bytes} (p : Params) {h : Hist} (ok : HistOK H h) (evs : List Ev) :
    let σ := run H p h (Tr.init H h) evs
    σ.dbRound ≤ σ.latest ∧ σ.rows = h.stateAt σ.dbRound ∧ σ.aux = h.auxAt σ.dbRound :=
  let inv := inv_run ok evs (inv_init p ok)
  ⟨inv.db_le, inv.rows_eq, inv.aux_eq⟩

/-- a commit whose range contains an eligible first-stage round ends ON that round and schedules finishFirstStage for it -/
theorem commit_lands_on_first_stage_partial (H : Bytes → Bytes) (p : Params) (h : Hist) (σ : Tr) (t : Nat)
    (hg : σ.pending = [] ∧ σ.dbRound < t ∧ t ≤ σ.latest ∧ 0 < p.interval) (hen : σ.enabled = true)
    (hh : (calcFirstStageRounds σ.dbRound (t - σ.dbRound) σ.reenable p.interval p.lookback).has = true) :
    let σ' := step H p h σ (.commit t)
    (σ'.dbRound + p.lookback) % p.interval = 0 ∧ σ.dbRound < σ'.dbRound ∧ σ'.dbRound ≤ t ∧
      Act.fs ∈ σ'.pending ∧ σ'.writingFS = true ∧
      ∀ a, σ'.dbRound < a → a ≤ t → (a + p.lookback) % p.interval ≠ 0 := by
  obtain ⟨h1, h2, h3, h4⟩ := first_stage_exact _ _ _ _ _ hh
  simp only [step, if_pos hg, hen, if_true, hh]
  refine ⟨h1, by omega, by omega, by simp, by simp, ?_⟩
  intro a ha1 ha2
  exact h4 a ha1 (by omega)

/-- the completeness half of the property (NOT proved): in a crash-free run whose commits never skip a first-stage round
(`multi = false`) and whose post-commit work is always completed, every catchpoint round up to the DB round gets a label. -/
def label_complete_Statement (H : Bytes → Bytes) (p : Params) (h : Hist) : Prop :=
  ∀ evs : List Ev, (∀ e ∈ evs, ∀ en, e ≠ Ev.crash en) →
    let σ := run H p h (Tr.init H h) evs
    σ.pending = [] →
    (∀ pre t post, evs = pre ++ Ev.commit t :: post →
      let τ := run H p h (Tr.init H h) pre
      (calcFirstStageRounds τ.dbRound (t - τ.dbRound) τ.reenable p.interval p.lookback).multi = false) →
    ∀ r, 2 * p.lookback < r → r ≤ σ.dbRound → r % p.interval = 0 → ∃ s, (r, s) ∈ σ.out

/-! ### non-vacuity: a concrete history, hash and schedules that meet the hypotheses and create labels -/

/-- a 32-byte "hash" that is injective on short inputs (zero padded), so `LeafInj` holds on the example rows -/
def toyH : Bytes → Bytes := fun b => (0 :: b ++ List.replicate 32 0).take 32

def exAddr (b : UInt8) : Bytes := List.replicate 32 b

def exHist : Hist :=
  { genesis := [.account (exAddr 1) 0 0 [0x81], .kv [1, 2] [3]],
    genesisAux := ⟨[0x80], exAddr 0, exAddr 0, exAddr 0⟩,
    rounds := [
      ⟨exAddr 11, [.put (.account (exAddr 1) 1 0 [0x82])], ⟨[0x81], exAddr 0, exAddr 0, exAddr 0⟩⟩,
      ⟨exAddr 12, [.put (.kv [1, 2] [4]), .put (.account (exAddr 2) 2 0 [0x83])], ⟨[0x82], exAddr 0, exAddr 0, exAddr 0⟩⟩,
      ⟨exAddr 13, [.del (.kv [1, 2])], ⟨[0x83], exAddr 0, exAddr 0, exAddr 0⟩⟩,
      ⟨exAddr 14, [], ⟨[0x83], exAddr 0, exAddr 0, exAddr 0⟩⟩] }

def exParams : Params := ⟨2, 1, 8⟩

/-- every block, then flush round by round -/
def exSchedA : List Ev :=
  [.block, .commit 1, .tick, .tick, .tick, .tick, .block, .commit 2, .tick, .tick, .tick, .tick, .block, .commit 3, .tick, .tick, .tick,
   .tick, .block, .commit 4, .tick, .tick, .tick, .tick]

/-- spanning flushes (the range (0,2] is cut at the first-stage round 1, (1,4] at 3), a crash before finishFirstStage and one
before finishCatchpoint, trie housekeeping -/
def exSchedB : List Ev :=
  [.block, .block, .commit 2, .tick, .crash true, .tick, .tick, .commit 2, .crash true, .tick, .tick, .trie (.evict true), .block, .block,
   .commit 4, .tick, .tick, .trie .reload, .tick, .commit 4, .tick, .tick, .tick]

/-- a lifetime with tracking DISABLED that commits round 1 (the hash round becomes 0), then a restart with tracking enabled (the trie
is rebuilt from the rows): round 2 gets no label (no first-stage record for round 1), round 4 gets the label of the history -/
def exSchedC : List Ev :=
  [.block, .crash false, .commit 1, .tick, .tick, .crash true, .tick, .block, .commit 2, .tick, .tick, .tick, .block, .block,
   .commit 4, .tick, .tick, .tick, .commit 4, .tick, .tick, .tick]

theorem toyH_len (x : Bytes) : (toyH x).length = 32 := by simp [toyH]

theorem exHist_stateAt (a : Nat) : exHist.stateAt a = exHist.stateAt (min a 4) := by
  unfold Hist.stateAt
  by_cases h : a ≤ 4
  · rw [Nat.min_eq_left h]
  · rw [Nat.min_eq_right (by omega), List.take_of_length_le (by simp [exHist]; omega), List.take_of_length_le (by simp [exHist])]

/-- the hypotheses of the theorems are met by a history in which rows are created, updated and deleted -/
theorem exHist_ok : HistOK toyH exHist where
  hashLen := toyH_len
  genKeys := by unfold KeysNodup; decide
  leafInj := by
    intro a b
    rw [exHist_stateAt a, exHist_stateAt b]
    have key : ∀ i, i ≤ 4 → ∀ j, j ≤ 4 → LeafInj toyH (exHist.stateAt i ++ exHist.stateAt j) := by
      unfold LeafInj
      decide
    exact key _ (Nat.min_le_right _ _) _ (Nat.min_le_right _ _)

/-- … and the two schedules create the labels of rounds 2 and 4 -/
example : (labels toyH exParams exHist exSchedA).map Prod.fst = [2, 4] ∧
    (labels toyH exParams exHist exSchedB).map Prod.fst = [2, 4] := by decide

example : (labels toyH exParams exHist exSchedC).map Prod.fst = [4] ∧
    (run toyH exParams exHist (Tr.init toyH exHist) (exSchedC.take 5)).hashRound = 0 ∧
    (run toyH exParams exHist (Tr.init toyH exHist) (exSchedC.take 6)).hashRound = 1 := by decide

example : labels toyH exParams exHist exSchedA = labels toyH exParams exHist exSchedB :=
  label_sequences_equal exParams exHist_ok _ _ (by decide)

end Props.C14
