/-
C14 — Catchpoint labels depend only on the ledger history.

Model: AlgoVerif/Model/Catchpoint.lean — `Hist.label H p hist r` (the label as a function of the history: C15 leaves of the state at
r − lookback, C17 canonical trie root, C15 label buffer) and the tracker's first/second-stage bookkeeping machine `Tr` / `step`
(newBlock, produceCommittingTask with calculateFirstStageRounds, commitRound as one transaction, the post-commit actions one by one,
crash / restart with catchpoint tracking ENABLED or DISABLED for the new lifetime — initializeHashes resets (and, when enabled,
rebuilds) the trie iff the accounts hash round differs from the DB round; commits without tracking leave the trie alone and stamp hash
round 0 — + recoverFromCrash, trie Commit/Evict/reload at any time).  A flush schedule, the restart / crash points, the
enable/disable history and the trie memory configuration are the event list.

FULL (for the model, all histories, all event lists):
  * `labels_sound`                 every label a run creates for round r is `Hist.label … r`;
  * `label_schedule_independent`   two runs over the same history — ANY event lists: flush schedules, tracking switched off and on
                                   again across restarts (with commits in between), restarts, crashes between the
                                   commit transaction and every post-commit action, trie housekeeping — never create different labels
                                   for the same round; `label_sequences_equal`: if they created labels for the same rounds, the
                                   label sequences are equal;
  * `first_stage_recorded_exact`   (bookkeeping invariant) every catchpointfirststageinfo record of a reachable state, whichever
                                   commit range produced it and whether it was written by finishFirstStage or by
                                   finishFirstStageAfterCrash, is the info of exactly ITS round: root of the state at that round,
                                   totals of that round;
  * `first_stage_exact`            calculateFirstStageRounds: when a commit range (oldBase, oldBase+offset] contains an eligible
                                   first-stage round, the new offset ends the commit exactly ON the last such round (≡ −lookback mod
                                   interval), is ≥ 1 and ≤ offset, and no first-stage round is left behind it in the range;
  * `catchpointRounds_spec`        calculateCatchpointRounds returns multiples of the interval in (oldBase, oldBase+offset] above the lookback.
Hypotheses (`HistOK`): |H x| = 32 (crypto.Digest), the genesis rows have distinct keys, and NO TWO DIFFERENT ROWS OF STATES OF THE
HISTORY SHARE A TRIE LEAF (`LeafInj`: no collision of the truncated hash on the rows that occur, and no kv boundary-shift pair — known
finding F2).  Without it the statement is false for the code as it stands: the trie holds a SET, a leaf shared by two boxes is removed
when one of them is deleted, and whether that happens depends on the commit ranges (replayed on two real ledgers by the harness).
  * `label_complete`               COMPLETENESS: in every interval-compatible run (`Compat`: every commit that takes effect covers at most
                                   one first-stage round — `multi = false` — and every restart / crash comes up with tracking
                                   enabled; crashes at ANY point of the post-commit or recovery work, restarts, trie housekeeping and
                                   partial flushes allowed), once the pending work is done EVERY catchpoint round r with lookback < r ≤
                                   DB round, r ≡ 0 mod interval, has a label.  Needs only 0 < lookback (the real lookback is never 0),
                                   no hypothesis on the hash or the history.  `label_complete_exact`: with `HistOK` that label is
                                   `Hist.label hist r`.  `label_complete_crashfree`: the crash-free formulation
                                   (`label_complete_Statement`, compatibility spelled out per commit event).  Built on
                                   `commit_lands_on_first_stage_partial` / `first_stage_exact` plus `fs_in_range_is_end` (with
                                   `multi = false` the only first-stage round in a commit range is the one the commit ends on) and
                                   `mem_catchpointRounds` (calculateCatchpointRounds misses no catchpoint round of the range).
                                   Both hypotheses are necessary (examples at the end): a sparse range skips a catchpoint by design,
                                   and so does a lifetime without tracking.
NOT covered by completeness: runs with lifetimes in which tracking is disabled (catchpoints around such a period are skipped by design;
soundness — `labels_sound`, `label_schedule_independent` — does cover them).
Not modelled: how the tracker DB computes totals / the state-proof, online-accounts and online-round-params hashes of a round (data of
the history here); catchpoint FILE generation; several consensus versions in one history.
-/
import AlgoVerif.Lemmas.Catchpoint
namespace Props.C14
open Model.CatchpointHash Model.MerkleTrie Model.Catchpoint Lemmas.Catchpoint

/-- hypotheses on the hash and the history -/
structure HistOK (H : Bytes → Bytes) (h : Hist) : Prop where
  hashLen : ∀ x, (H x).length = 32
  genKeys : KeysNodup h.genesis
  leafInj : ∀ a b, LeafInj H (h.stateAt a ++ h.stateAt b)

/-- the bookkeeping invariant, part 1 (everything that does not relate `writingFS` to the pending work) -/
structure InvCore (H : Bytes → Bytes) (p : Params) (h : Hist) (σ : Tr) : Prop where
  latest_le : σ.latest ≤ h.rounds.length
  db_le : σ.dbRound ≤ σ.latest
  rows_eq : σ.rows = h.stateAt σ.dbRound
  aux_eq : σ.aux = h.auxAt σ.dbRound
  /-- with tracking enabled the hash round is the DB round … -/
  en_hash : σ.enabled = true → σ.hashRound = σ.dbRound
  /-- … and whenever the hash round is the DB round the trie holds exactly the leaves of the rows -/
  trie_ok : σ.hashRound = σ.dbRound → TrieOK σ.trie (leavesOf H σ.rows)
  /-- finishFirstStage is only ever pending on a valid trie -/
  fs_hash : Act.fs ∈ σ.pending → σ.hashRound = σ.dbRound
  fs_ok : ∀ a i, (a, i) ∈ σ.firstStage → i = infoAt H h a
  unf_ok : ∀ r bh, (r, bh) ∈ σ.unfinished → h.blockHash r = some bh ∧ p.lookback < r
  pend_ok : ∀ r bh, Act.cp r bh ∈ σ.pending → h.blockHash r = some bh ∧ p.lookback < r
  out_ok : ∀ r s, (r, s) ∈ σ.out → h.label H p r = some s

/-- the bookkeeping invariant -/
structure Inv (H : Bytes → Bytes) (p : Params) (h : Hist) (σ : Tr) : Prop extends InvCore H p h σ where
  /-- an unfinished first stage is always scheduled (by commitRound or by recoverFromCrash) -/
  wfs_pend : σ.writingFS = true → Act.fs ∈ σ.pending

theorem keysNodup_stateAt {H : Bytes → Bytes} {h : Hist} (ok : HistOK H h) (a : Nat) : KeysNodup (h.stateAt a) :=
  keysNodup_foldRounds _ ok.genKeys

theorem inv_init {H : Bytes → Bytes} (p : Params) {h : Hist} (ok : HistOK H h) : Inv H p h (Tr.init H h) where
  latest_le := Nat.zero_le _
  db_le := Nat.le_refl _
  rows_eq := by simp [Tr.init, Hist.stateAt]
  aux_eq := by simp [Tr.init, Hist.auxAt]
  en_hash := fun _ => rfl
  trie_ok := fun _ => trieOK_buildTrie ok.hashLen _
  fs_hash := by intro hm; simp [Tr.init] at hm
  fs_ok := by intro a i hm; simp [Tr.init] at hm
  unf_ok := by intro r bh hm; simp [Tr.init] at hm
  pend_ok := by intro r bh hm; simp [Tr.init] at hm
  out_ok := by intro r s hm; simp [Tr.init] at hm
  wfs_pend := by intro hm; simp [Tr.init] at hm

/-! ### arithmetic of produceCommittingTask -/

/-- the least eligible first-stage round of calculateFirstStageRounds -/
def minFS (ob re L : Nat) : Nat := if L < re ∧ ob + 1 < re - L then re - L else ob + 1
def firstR (ob re I L : Nat) : Int := ((minFS ob re L + L + I - 1) / I * I : Nat) - (L : Int)
def lastR (ob off I L : Nat) : Int := ((ob + off + L) / I * I : Nat) - (L : Int)

theorem calc_unfold (ob off re I L : Nat) : calcFirstStageRounds ob off re I L =
    if re = 0 ∨ I = 0 then ⟨false, false, off⟩ else
    if firstR ob re I L ≤ lastR ob off I L then
      ⟨true, decide (firstR ob re I L < lastR ob off I L), (lastR ob off I L - (ob : Int)).toNat⟩
    else ⟨false, false, off⟩ := rfl

theorem calc_newOffset_le (ob off re I L : Nat) : (calcFirstStageRounds ob off re I L).newOffset ≤ off := by
  rw [calc_unfold]
  by_cases hg : re = 0 ∨ I = 0
  · rw [if_pos hg]; exact Nat.le_refl _
  · rw [if_neg hg]
    by_cases hfl : firstR ob re I L ≤ lastR ob off I L
    · rw [if_pos hfl]
      have h1 : (ob + off + L) / I * I ≤ ob + off + L := Nat.div_mul_le_self _ _
      simp only [lastR]
      generalize (ob + off + L) / I * I = y at *
      omega
    · rw [if_neg hfl]; exact Nat.le_refl _

/-- **calculateFirstStageRounds ends the commit exactly on the last first-stage round of the range.** -/
theorem first_stage_exact (ob off re I L : Nat) (hh : (calcFirstStageRounds ob off re I L).has = true) :
    let n := (calcFirstStageRounds ob off re I L).newOffset
    (ob + n + L) % I = 0 ∧ 1 ≤ n ∧ n ≤ off ∧ ∀ a, ob + n < a → a ≤ ob + off → (a + L) % I ≠ 0 := by
  rw [calc_unfold] at hh ⊢
  by_cases hg : re = 0 ∨ I = 0
  · rw [if_pos hg] at hh; simp at hh
  · rw [if_neg hg] at hh ⊢
    simp only [not_or] at hg
    have hI : 0 < I := Nat.pos_of_ne_zero hg.2
    by_cases hfl : firstR ob re I L ≤ lastR ob off I L
    · rw [if_pos hfl]
      simp only
      have hm1 : ob + 1 ≤ minFS ob re L := by unfold minFS; split <;> omega
      simp only [firstR, lastR] at hfl ⊢
      generalize minFS ob re L = m at *
      have hz : m + L ≤ (m + L + I - 1) / I * I := by
        have h1 := Nat.div_add_mod (m + L + I - 1) I
        have h2 := Nat.mod_lt (m + L + I - 1) hI
        rw [Nat.mul_comm] at h1
        generalize (m + L + I - 1) / I * I = z at *
        omega
      have hy : (ob + off + L) / I * I ≤ ob + off + L := Nat.div_mul_le_self _ _
      have hmod : ((ob + off + L) / I * I) % I = 0 := Nat.mul_mod_left _ _
      have hmax : ∀ a, a ≤ ob + off → (a + L) % I = 0 → a + L ≤ (ob + off + L) / I * I := by
        intro a ha hmd
        have h1 : (a + L) / I ≤ (ob + off + L) / I := Nat.div_le_div_right (by omega)
        have h2 : (a + L) / I * I = a + L := by
          have := Nat.div_add_mod (a + L) I
          rw [hmd, Nat.add_zero, Nat.mul_comm] at this
          exact this
        calc a + L = (a + L) / I * I := h2.symm
          _ ≤ (ob + off + L) / I * I := Nat.mul_le_mul_right _ h1
      generalize (ob + off + L) / I * I = y at *
      generalize (m + L + I - 1) / I * I = z at *
      have hyn : ob + (((y : Int) - (L : Int)) - (ob : Int)).toNat + L = y := by omega
      refine ⟨by rw [hyn]; exact hmod, by omega, by omega, ?_⟩
      intro a ha1 ha2 hmd
      have := hmax a ha2 hmd
      omega
    · rw [if_neg hfl] at hh; simp at hh

def cpMin (ob L : Nat) : Nat := if ob + 1 < L + 1 then L + 1 else ob + 1

theorem catchpointRounds_unfold (ob off L I : Nat) : catchpointRounds ob off L I =
    if I = 0 then [] else
    if (ob + off) / I < (cpMin ob L + I - 1) / I then []
    else (List.range ((ob + off) / I + 1 - (cpMin ob L + I - 1) / I)).map fun i => ((cpMin ob L + I - 1) / I + i) * I := rfl

theorem catchpointRounds_spec {ob off L I r : Nat} (hr : r ∈ catchpointRounds ob off L I) :
    L < r ∧ ob < r ∧ r ≤ ob + off ∧ r % I = 0 := by
  rw [catchpointRounds_unfold] at hr
  by_cases hI0 : I = 0
  · rw [if_pos hI0] at hr; cases hr
  · rw [if_neg hI0] at hr
    have hI : 0 < I := Nat.pos_of_ne_zero hI0
    by_cases hlr : (ob + off) / I < (cpMin ob L + I - 1) / I
    · rw [if_pos hlr] at hr; cases hr
    · rw [if_neg hlr] at hr
      obtain ⟨i, hi, rfl⟩ := List.mem_map.1 hr
      rw [List.mem_range] at hi
      have hmn1 : L + 1 ≤ cpMin ob L ∧ ob + 1 ≤ cpMin ob L := by unfold cpMin; split <;> omega
      generalize cpMin ob L = mn at *
      have hz : mn ≤ (mn + I - 1) / I * I := by
        have h1 := Nat.div_add_mod (mn + I - 1) I
        have h2 := Nat.mod_lt (mn + I - 1) hI
        rw [Nat.mul_comm] at h1
        generalize (mn + I - 1) / I * I = z at *
        omega
      have hle : ((mn + I - 1) / I + i) * I ≤ (ob + off) / I * I :=
        Nat.mul_le_mul_right _ (by omega)
      have hy : (ob + off) / I * I ≤ ob + off := Nat.div_mul_le_self _ _
      have hge : (mn + I - 1) / I * I ≤ ((mn + I - 1) / I + i) * I := Nat.mul_le_mul_right _ (by omega)
      refine ⟨by omega, by omega, by omega, Nat.mul_mod_left _ _⟩

/-! ### the invariant is preserved by every event -/

theorem mem_cpHashes {h : Hist} {rs : List Nat} {r : Nat} {bh : Bytes} (hm : (r, bh) ∈ cpHashes h rs) :
    r ∈ rs ∧ h.blockHash r = some bh := by
  unfold cpHashes at hm
  obtain ⟨r', hr', hx⟩ := List.mem_filterMap.1 hm
  cases hb : h.blockHash r' with
  | none => simp [hb] at hx
  | some b =>
    simp only [hb, Option.map_some, Option.some.injEq, Prod.mk.injEq] at hx
    obtain ⟨rfl, rfl⟩ := hx
    exact ⟨hr', hb⟩

theorem label_of_info {H : Bytes → Bytes} {p : Params} {h : Hist} {r : Nat} {bh : Bytes}
    (hb : h.blockHash r = some bh) (hl : p.lookback < r) :
    h.label H p r = some (labelOf H p r bh (infoAt H h (r - p.lookback))) := by
  unfold Hist.label
  rw [if_pos hl, hb]
  rfl

theorem inv_runAct {H : Bytes → Bytes} {p : Params} {h : Hist} (ok : HistOK H h) {σ : Tr} (inv : InvCore H p h σ)
    (a : Act) (ha : ∀ r bh, a = .cp r bh → h.blockHash r = some bh ∧ p.lookback < r)
    (hfs : a = .fs → σ.hashRound = σ.dbRound) : InvCore H p h (runAct H p σ a) := by
  cases a with
  | evict => exact { inv with trie_ok := fun hh => trieOK_op (inv.trie_ok hh) _ }
  | fs =>
    obtain ⟨hroot, htrie⟩ := trieOK_root H (allLen_leaves ok.hashLen σ.rows) (inv.trie_ok (hfs rfl))
    refine { inv with trie_ok := fun _ => htrie, fs_ok := ?_ }
    intro a i hm
    simp only [runAct, insertInfo, List.mem_cons, List.mem_filter] at hm
    rcases hm with hm | hm
    · obtain ⟨rfl, rfl⟩ := Prod.mk.inj hm
      simp only [infoAt, hroot, inv.rows_eq, inv.aux_eq]
    · exact inv.fs_ok a i hm.1
  | cp r bh =>
    obtain ⟨hb, hl⟩ := ha r bh rfl
    have hunf : ∀ r' bh', (r', bh') ∈ σ.unfinished.filter (fun x => x.1 ≠ r) → h.blockHash r' = some bh' ∧ p.lookback < r' :=
      fun r' bh' hm => inv.unf_ok r' bh' (List.mem_filter.1 hm).1
    simp only [runAct]
    cases hli : lookupInfo σ.firstStage (r - p.lookback) with
    | none => exact { inv with unf_ok := hunf }
    | some info =>
      simp only
      refine { inv with unf_ok := hunf, out_ok := ?_ }
      intro r' s hm
      rcases List.mem_append.1 hm with hm | hm
      · exact inv.out_ok r' s hm
      · simp only [List.mem_singleton, Prod.mk.injEq] at hm
        obtain ⟨rfl, rfl⟩ := hm
        unfold lookupInfo at hli
        cases hf : σ.firstStage.find? (fun x => x.1 = r' - p.lookback) with
        | none => simp [hf] at hli
        | some x =>
          simp only [hf, Option.map_some, Option.some.injEq] at hli
          have hx1 : x.1 = r' - p.lookback := by simpa using List.find?_some hf
          have hx := inv.fs_ok x.1 x.2 (List.mem_of_find?_eq_some hf)
          rw [label_of_info hb hl, ← hli, hx, hx1]
  | prune =>
    simp only [runAct]
    split
    · exact { inv with fs_ok := fun a i hm => inv.fs_ok a i (List.mem_filter.1 hm).1 }
    · exact inv

/-- runAct touches neither the pending list nor — except for `fs`, which clears it — the first-stage flag -/
theorem runAct_pending (H : Bytes → Bytes) (p : Params) (σ : Tr) (a : Act) :
    (runAct H p σ a).pending = σ.pending ∧ (a ≠ .fs → (runAct H p σ a).writingFS = σ.writingFS) ∧
      (a = .fs → (runAct H p σ a).writingFS = false) := by
  cases a with
  | evict => exact ⟨rfl, fun _ => rfl, fun h => by cases h⟩
  | fs => exact ⟨rfl, fun h => absurd rfl h, fun _ => rfl⟩
  | cp r bh =>
    simp only [runAct]
    cases lookupInfo σ.firstStage (r - p.lookback) <;> exact ⟨rfl, fun _ => rfl, fun h => by cases h⟩
  | prune =>
    simp only [runAct]
    split <;> exact ⟨rfl, fun _ => rfl, fun h => by cases h⟩

theorem inv_step {H : Bytes → Bytes} {p : Params} {h : Hist} (ok : HistOK H h) {σ : Tr} (inv : Inv H p h σ) (e : Ev) :
    Inv H p h (step H p h σ e) := by
  cases e with
  | block =>
    simp only [step]
    split
    · rename_i hlt
      exact { inv with latest_le := hlt, db_le := Nat.le_succ_of_le inv.db_le }
    · exact inv
  | commit t =>
    simp only [step]
    split
    · rename_i hg
      obtain ⟨hp, hdb, htl, _⟩ := hg
      have hnofs : σ.writingFS = false := by
        cases hw : σ.writingFS with
        | false => rfl
        | true => have := inv.wfs_pend hw; rw [hp] at this; cases this
      cases hen : σ.enabled with
      | true =>
        simp only [if_true]
        have hle := calc_newOffset_le σ.dbRound (t - σ.dbRound) σ.reenable p.interval p.lookback
        generalize calcFirstStageRounds σ.dbRound (t - σ.dbRound) σ.reenable p.interval p.lookback = fs at *
        have hrows : List.foldl applyRound σ.rows ((h.rounds.drop σ.dbRound).take fs.newOffset) = h.stateAt (σ.dbRound + fs.newOffset) := by
          rw [stateAt_add, inv.rows_eq]
        have htrie := trieOK_updateTrie ok.hashLen ((h.rounds.drop σ.dbRound).take fs.newOffset)
          (by rw [inv.rows_eq]; exact keysNodup_stateAt ok _)
          (by rw [hrows, inv.rows_eq]; exact ok.leafInj _ _) (inv.trie_ok (inv.en_hash hen))
        refine ⟨⟨inv.latest_le, by simp only; omega, hrows, rfl, fun _ => rfl, fun _ => htrie, fun _ => rfl, inv.fs_ok, ?_, ?_, inv.out_ok⟩, ?_⟩
        · intro r bh hm
          simp only at hm
          rcases List.mem_append.1 hm with hm | hm
          · exact inv.unf_ok r bh hm
          · obtain ⟨hr, hb⟩ := mem_cpHashes hm
            exact ⟨hb, (catchpointRounds_spec hr).1⟩
        · intro r bh hm
          simp only [List.mem_append, List.mem_cons, List.mem_map, List.not_mem_nil, or_false] at hm
          rcases hm with ((hm | hm) | hm) | hm
          · cases hm
          · split at hm <;> simp at hm
          · obtain ⟨x, hx, hxe⟩ := hm
            obtain ⟨rfl, rfl⟩ := Act.cp.inj hxe
            obtain ⟨hr, hb⟩ := mem_cpHashes (r := x.1) (bh := x.2) hx
            exact ⟨hb, (catchpointRounds_spec hr).1⟩
          · cases hm
        · intro hw
          simp only [hnofs, Bool.false_or] at hw
          simp [hw]
      | false =>
        simp only [Bool.false_eq_true, if_false]
        have hrows : List.foldl applyRound σ.rows ((h.rounds.drop σ.dbRound).take (t - σ.dbRound)) = h.stateAt (σ.dbRound + (t - σ.dbRound)) := by
          rw [stateAt_add, inv.rows_eq]
        refine ⟨⟨inv.latest_le, by simp only; omega, hrows, rfl, ?_, ?_, ?_, inv.fs_ok, inv.unf_ok, ?_, inv.out_ok⟩, ?_⟩
        · intro he; exact absurd he (by simp)
        · intro hh; simp only at hh; omega
        · intro hm; simp at hm
        · intro r bh hm; simp at hm
        · intro hw; simp only at hw; rw [hnofs] at hw; cases hw
    · exact inv
  | tick =>
    simp only [step]
    cases hp : σ.pending with
    | nil => simp only; exact inv
    | cons a rest =>
      simp only
      have core' : InvCore H p h { σ with pending := rest } :=
        { inv.toInvCore with
          pend_ok := fun r bh hm => inv.pend_ok r bh (by rw [hp]; exact List.mem_cons_of_mem _ hm),
          fs_hash := fun hm => inv.fs_hash (by rw [hp]; exact List.mem_cons_of_mem _ hm) }
      have core := inv_runAct ok core' a (fun r bh ha => inv.pend_ok r bh (by rw [hp, ha]; exact List.mem_cons_self ..))
        (fun ha => inv.fs_hash (by rw [hp, ha]; exact List.mem_cons_self ..))
      obtain ⟨hpend, hkeep, hclr⟩ := runAct_pending H p { σ with pending := rest } a
      refine ⟨core, ?_⟩
      intro hw
      rw [hpend]
      by_cases ha : a = .fs
      · rw [hclr ha] at hw; cases hw
      · rw [hkeep ha] at hw
        have := inv.wfs_pend hw
        rw [hp] at this
        rcases List.mem_cons.1 this with e | hm
        · exact absurd e.symm ha
        · exact hm
  | crash en =>
    simp only [step]
    have hrec : ∀ (τ : Tr), τ.writingFS = σ.writingFS → τ.unfinished = σ.unfinished →
        (Act.fs ∈ recoveryActs τ → σ.writingFS = true) ∧ (σ.writingFS = true → Act.fs ∈ recoveryActs τ) ∧
        (∀ r bh, Act.cp r bh ∈ recoveryActs τ → (r, bh) ∈ σ.unfinished) := by
      intro τ hw hu
      refine ⟨?_, ?_, ?_⟩
      · intro hm
        simp only [recoveryActs, List.mem_append] at hm
        rcases hm with hm | hm
        · split at hm
          · rename_i h1; rw [hw] at h1; exact h1
          · cases hm
        · split at hm
          · cases hm
          · rcases List.mem_append.1 hm with hm | hm
            · obtain ⟨x, _, hxe⟩ := List.mem_map.1 hm; cases hxe
            · split at hm <;> simp at hm
      · intro h1
        simp only [recoveryActs, hw, h1, if_true, List.mem_append, List.mem_singleton, true_or]
      · intro r bh hm
        simp only [recoveryActs, List.mem_append] at hm
        rcases hm with hm | hm
        · split at hm <;> simp at hm
        · split at hm
          · cases hm
          · rcases List.mem_append.1 hm with hm | hm
            · obtain ⟨x, hx, hxe⟩ := List.mem_map.1 hm
              obtain ⟨rfl, rfl⟩ := Act.cp.inj hxe
              rw [hu] at hx
              exact hx
            · split at hm <;> simp at hm
    generalize hτ : ({ σ with
      trie := if σ.hashRound ≠ σ.dbRound then (if en then buildTrie H σ.rows else Store.empty) else σ.trie.reload,
      hashRound := if σ.hashRound ≠ σ.dbRound ∧ en then σ.dbRound else σ.hashRound,
      enabled := en, pending := [],
      reenable := if σ.dbRound < σ.latest then σ.dbRound + 1 + p.lookback else 0 } : Tr) = τ
    have e1 : τ.writingFS = σ.writingFS := by rw [← hτ]
    have e2 : τ.unfinished = σ.unfinished := by rw [← hτ]
    obtain ⟨r1, r2, r3⟩ := hrec τ e1 e2
    refine ⟨⟨inv.latest_le, inv.db_le, inv.rows_eq, inv.aux_eq, ?_, ?_, ?_, inv.fs_ok, inv.unf_ok, ?_, inv.out_ok⟩, ?_⟩
    · intro he
      simp only at he ⊢
      by_cases hs : σ.hashRound = σ.dbRound
      · simp [hs]
      · simp [hs, he]
    · intro hh
      simp only at hh ⊢
      by_cases hs : σ.hashRound = σ.dbRound
      · simp only [hs, ne_eq, not_true_eq_false, if_false]
        exact trieOK_op (inv.trie_ok hs) .reload
      · cases en with
        | true => simp only [ne_eq, hs, not_false_eq_true, if_true]; exact trieOK_buildTrie ok.hashLen _
        | false => simp [hs] at hh
    · intro hm
      have hs := inv.fs_hash (inv.wfs_pend (r1 hm))
      simp only
      simp [hs]
    · intro r bh hm
      exact inv.unf_ok r bh (r3 r bh hm)
    · intro hw
      exact r2 hw
  | trie op => exact { inv with trie_ok := fun hh => trieOK_op (inv.trie_ok hh) op }

theorem inv_run {H : Bytes → Bytes} {p : Params} {h : Hist} (ok : HistOK H h) :
    ∀ (evs : List Ev) {σ : Tr}, Inv H p h σ → Inv H p h (run H p h σ evs)
  | [], _, inv => inv
  | e :: es, _, inv => inv_run ok es (inv_step ok inv e)

/-! ### the property -/

/-- every label a run creates is the label the history determines -/
theorem labels_sound {H : Bytes → Bytes} (p : Params) {h : Hist} (ok : HistOK H h) (evs : List Ev) :
    ∀ r s, (r, s) ∈ labels H p h evs → h.label H p r = some s :=
  (inv_run ok evs (inv_init p ok)).out_ok

/-- **C14.** Two runs of the tracker over the same history, with any flush schedules, restarts / crashes and trie housekeeping,
never produce different labels for the same catchpoint round. -/
theorem label_schedule_independent {H : Bytes → Bytes} (p : Params) {h : Hist} (ok : HistOK H h) (evs₁ evs₂ : List Ev)
    {r : Nat} {s₁ s₂ : String} (h₁ : (r, s₁) ∈ labels H p h evs₁) (h₂ : (r, s₂) ∈ labels H p h evs₂) : s₁ = s₂ := by
  have e₁ := labels_sound p ok evs₁ r s₁ h₁
  have e₂ := labels_sound p ok evs₂ r s₂ h₂
  rw [e₁] at e₂
  exact Option.some.inj e₂

theorem seq_eq_of_fst_eq {f : Nat → Option String} : ∀ (l₁ l₂ : List (Nat × String)),
    (∀ r s, (r, s) ∈ l₁ → f r = some s) → (∀ r s, (r, s) ∈ l₂ → f r = some s) →
    l₁.map Prod.fst = l₂.map Prod.fst → l₁ = l₂
  | [], [], _, _, _ => rfl
  | [], _ :: _, _, _, h => by simp at h
  | _ :: _, [], _, _, h => by simp at h
  | (r₁, t₁) :: xs, (r₂, t₂) :: ys, s₁, s₂, h => by
    simp only [List.map_cons, List.cons.injEq] at h
    obtain ⟨hr, h'⟩ := h
    subst hr
    have e₁ := s₁ r₁ t₁ (List.mem_cons_self ..)
    have e₂ := s₂ r₁ t₂ (List.mem_cons_self ..)
    rw [e₁] at e₂
    rw [Option.some.inj e₂, seq_eq_of_fst_eq xs ys (fun r s hm => s₁ r s (List.mem_cons_of_mem _ hm))
      (fun r s hm => s₂ r s (List.mem_cons_of_mem _ hm)) h']

/-- if the two runs created labels for the same rounds (in the same order), the label sequences are equal -/
theorem label_sequences_equal {H : Bytes → Bytes} (p : Params) {h : Hist} (ok : HistOK H h) (evs₁ evs₂ : List Ev)
    (hr : (labels H p h evs₁).map Prod.fst = (labels H p h evs₂).map Prod.fst) :
    labels H p h evs₁ = labels H p h evs₂ :=
  seq_eq_of_fst_eq _ _ (labels_sound p ok evs₁) (labels_sound p ok evs₂) hr

/-- **bookkeeping invariant**: in every reachable state every first-stage record is the info of exactly its round -/
theorem first_stage_recorded_exact {H : Bytes → Bytes} (p : Params) {h : Hist} (ok : HistOK H h) (evs : List Ev) :
    ∀ a i, (a, i) ∈ (run H p h (Tr.init H h) evs).firstStage → i = infoAt H h a :=
  (inv_run ok evs (inv_init p ok)).fs_ok

/-- the tracker DB round of a reachable state never passes the blocks seen, and its rows / totals are those of that round -/
theorem db_state_exact {H : Bytes → Bytes} (p : Params) {h : Hist} (ok : HistOK H h) (evs : List Ev) :
    let σ := run H p h (Tr.init H h) evs
    σ.dbRound ≤ σ.latest ∧ σ.rows = h.stateAt σ.dbRound ∧ σ.aux = h.auxAt σ.dbRound :=
  let inv := inv_run ok evs (inv_init p ok)
  ⟨inv.db_le, inv.rows_eq, inv.aux_eq⟩

/-- a commit whose range contains an eligible first-stage round ends ON that round and schedules finishFirstStage for it -/
theorem commit_lands_on_first_stage_partial (H : Bytes → Bytes) (p : Params) (h : Hist) (σ : Tr) (t : Nat)
    (hg : σ.pending = [] ∧ σ.dbRound < t ∧ t ≤ σ.latest ∧ 0 < p.interval) (hen : σ.enabled = true)
    (hh : (calcFirstStageRounds σ.dbRound (t - σ.dbRound) σ.reenable p.interval p.lookback).has = true) :
    let σ' := step H p h σ (.commit t)
    (σ'.dbRound + p.lookback) % p.interval = 0 ∧ σ.dbRound < σ'.dbRound ∧ σ'.dbRound ≤ t ∧
      Act.fs ∈ σ'.pending ∧ σ'.writingFS = true ∧
      ∀ a, σ'.dbRound < a → a ≤ t → (a + p.lookback) % p.interval ≠ 0 := by
  obtain ⟨h1, h2, h3, h4⟩ := first_stage_exact _ _ _ _ _ hh
  simp only [step, if_pos hg, hen, if_true, hh]
  refine ⟨h1, by omega, by omega, by simp, by simp, ?_⟩
  intro a ha1 ha2
  exact h4 a ha1 (by omega)

/-! ### completeness: every catchpoint round of an interval-compatible schedule gets its label -/

theorem minFS_eq {ob re L : Nat} (h : re ≤ ob + 1 + L) : minFS ob re L = ob + 1 := by
  unfold minFS
  split
  · omega
  · rfl

/-- the smallest first-stage round ≥ m is what calculateFirstStageRounds calls `first` -/
theorem first_le_of_fs {m L I a : Nat} (hI : 0 < I) (hm : m ≤ a) (hmd : (a + L) % I = 0) :
    (m + L + I - 1) / I * I ≤ a + L := by
  have h2 : (a + L) / I * I = a + L := by
    have := Nat.div_add_mod (a + L) I
    rw [hmd, Nat.add_zero, Nat.mul_comm] at this
    exact this
  have h1 : (m + L + I - 1) / I ≤ (a + L) / I := by
    have : (m + L + I - 1) / I < (a + L) / I + 1 := by
      rw [Nat.div_lt_iff_lt_mul hI, Nat.add_mul, h2]
      omega
    omega
  calc (m + L + I - 1) / I * I ≤ (a + L) / I * I := Nat.mul_le_mul_right _ h1
    _ = a + L := h2

/-- with `multi = false` the only first-stage round a commit range can contain is the one the commit ends on -/
theorem fs_in_range_is_end {ob off re I L a : Nat} (hI : 0 < I) (hre0 : re ≠ 0) (hre : re ≤ ob + 1 + L)
    (hmulti : (calcFirstStageRounds ob off re I L).multi = false)
    (ha1 : ob < a) (ha2 : a ≤ ob + (calcFirstStageRounds ob off re I L).newOffset) (hmd : (a + L) % I = 0) :
    (calcFirstStageRounds ob off re I L).has = true ∧ a = ob + (calcFirstStageRounds ob off re I L).newOffset := by
  have hle := calc_newOffset_le ob off re I L
  rw [calc_unfold] at hmulti ha2 hle ⊢
  have hg : ¬(re = 0 ∨ I = 0) := by omega
  rw [if_neg hg] at hmulti ha2 hle ⊢
  have hz := first_le_of_fs (m := ob + 1) (L := L) hI (by omega) hmd
  have hzlo : ob + 1 + L ≤ (ob + 1 + L + I - 1) / I * I := by
    have h1 := Nat.div_add_mod (ob + 1 + L + I - 1) I
    have h2 := Nat.mod_lt (ob + 1 + L + I - 1) hI
    rw [Nat.mul_comm] at h1
    generalize (ob + 1 + L + I - 1) / I * I = z at *
    omega
  have hmax : ∀ b, b ≤ ob + off → (b + L) % I = 0 → b + L ≤ (ob + off + L) / I * I := by
    intro b hb hbd
    have h1 : (b + L) / I ≤ (ob + off + L) / I := Nat.div_le_div_right (by omega)
    have h2 : (b + L) / I * I = b + L := by
      have := Nat.div_add_mod (b + L) I
      rw [hbd, Nat.add_zero, Nat.mul_comm] at this
      exact this
    calc b + L = (b + L) / I * I := h2.symm
      _ ≤ (ob + off + L) / I * I := Nat.mul_le_mul_right _ h1
  simp only [firstR, lastR, minFS_eq hre] at hmulti ha2 hle ⊢
  generalize (ob + 1 + L + I - 1) / I * I = z at *
  by_cases hfl : ((z : Nat) : Int) - (L : Int) ≤ (((ob + off + L) / I * I : Nat) : Int) - (L : Int)
  · rw [if_pos hfl] at hmulti ha2 hle ⊢
    simp only [decide_eq_false_iff_not] at hmulti
    simp only at ha2 hle ⊢
    have hy := hmax a (by omega) hmd
    generalize (ob + off + L) / I * I = y at *
    refine ⟨by first | rfl | trivial, ?_⟩
    omega
  · rw [if_neg hfl] at ha2
    simp only at ha2
    have hy := hmax a ha2 hmd
    generalize (ob + off + L) / I * I = y at *
    omega

theorem newOffset_pos {ob off re I L : Nat} (hoff : 1 ≤ off) : 1 ≤ (calcFirstStageRounds ob off re I L).newOffset := by
  cases hh : (calcFirstStageRounds ob off re I L).has with
  | true => exact (first_stage_exact ob off re I L hh).2.1
  | false =>
    rw [calc_unfold] at hh ⊢
    split at hh
    · rename_i hg; rw [if_pos hg]; exact hoff
    · rename_i hg
      rw [if_neg hg]
      split at hh
      · simp at hh
      · rename_i hfl; rw [if_neg hfl]; exact hoff

/-- calculateCatchpointRounds is complete: every multiple of the interval in the range, above the lookback, is listed -/
theorem mem_catchpointRounds {ob off L I r : Nat} (hI : 0 < I) (hL : L < r) (h1 : ob < r) (h2 : r ≤ ob + off) (hmd : r % I = 0) :
    r ∈ catchpointRounds ob off L I := by
  rw [catchpointRounds_unfold, if_neg (by omega)]
  have hmn : cpMin ob L ≤ r := by unfold cpMin; split <;> omega
  have hk : r / I * I = r := by
    have := Nat.div_add_mod r I
    rw [hmd, Nat.add_zero, Nat.mul_comm] at this
    exact this
  have hlo : (cpMin ob L + I - 1) / I ≤ r / I := by
    have : (cpMin ob L + I - 1) / I < r / I + 1 := by
      rw [Nat.div_lt_iff_lt_mul hI, Nat.add_mul, hk]
      omega
    omega
  have hhi : r / I ≤ (ob + off) / I := Nat.div_le_div_right h2
  rw [if_neg (by omega)]
  refine List.mem_map.2 ⟨r / I - (cpMin ob L + I - 1) / I, List.mem_range.2 (by omega), ?_⟩
  have : (cpMin ob L + I - 1) / I + (r / I - (cpMin ob L + I - 1) / I) = r / I := by omega
  rw [this, hk]

theorem blockHash_isSome {h : Hist} {r : Nat} (h1 : 1 ≤ r) (h2 : r ≤ h.rounds.length) : ∃ bh, h.blockHash r = some bh := by
  cases r with
  | zero => omega
  | succ k =>
    have hk : k < h.rounds.length := by omega
    exact ⟨(h.rounds[k]).blockHash, by simp [Hist.blockHash, List.getElem?_eq_getElem hk]⟩

theorem mem_cpHashes_of {h : Hist} {rs : List Nat} {r : Nat} {bh : Bytes} (hr : r ∈ rs) (hb : h.blockHash r = some bh) :
    (r, bh) ∈ cpHashes h rs := by
  unfold cpHashes
  exact List.mem_filterMap.2 ⟨r, hr, by simp [hb]⟩

/-! lookups in the first-stage table -/

theorem find?_filter_of_imp {α : Type} (p q : α → Bool) (hpq : ∀ x, p x = true → q x = true) :
    ∀ l : List α, (l.filter q).find? p = l.find? p
  | [] => rfl
  | x :: xs => by
    by_cases hq : q x = true
    · rw [List.filter_cons_of_pos hq]
      simp only [List.find?_cons]
      cases p x <;> simp [find?_filter_of_imp p q hpq xs]
    · have hp : p x = false := by
        cases hpx : p x with
        | false => rfl
        | true => exact absurd (hpq x hpx) hq
      rw [List.filter_cons_of_neg hq, List.find?_cons, hp]
      exact find?_filter_of_imp p q hpq xs

theorem lookupInfo_insert (l : List (Nat × Info)) (a a' : Nat) (i : Info) :
    lookupInfo (insertInfo l a i) a' = if a' = a then some i else lookupInfo l a' := by
  unfold lookupInfo insertInfo
  by_cases h : a' = a
  · subst h; simp
  · rw [if_neg h, List.find?_cons]
    have : decide ((a, i).1 = a') = false := by simpa using fun e : a = a' => h e.symm
    rw [this]
    simp only
    rw [find?_filter_of_imp]
    intro x hx
    simp only [decide_eq_true_eq] at hx ⊢
    omega

theorem lookupInfo_prune (l : List (Nat × Info)) (d a : Nat) (h : d < a) :
    lookupInfo (l.filter fun x => decide (d < x.1)) a = lookupInfo l a := by
  unfold lookupInfo
  rw [find?_filter_of_imp]
  intro x hx
  simp only [decide_eq_true_eq] at hx ⊢
  omega

/-! pending work: every `cp` comes before the `prune` of the same batch -/

def NoCpAfterPrune : List Act → Prop
  | [] => True
  | .prune :: rest => (∀ r bh, Act.cp r bh ∉ rest) ∧ NoCpAfterPrune rest
  | _ :: rest => NoCpAfterPrune rest

theorem noCp_of_no_prune : ∀ (l : List Act), Act.prune ∉ l → NoCpAfterPrune l ∧ NoCpAfterPrune (l ++ [Act.prune])
  | [], _ => ⟨trivial, by simp [NoCpAfterPrune]⟩
  | a :: rest, h => by
    have hr : Act.prune ∉ rest := fun hm => h (List.mem_cons_of_mem _ hm)
    have ha : a ≠ Act.prune := fun e => h (e ▸ List.mem_cons_self ..)
    obtain ⟨h1, h2⟩ := noCp_of_no_prune rest hr
    cases a with
    | prune => exact absurd rfl ha
    | evict => exact ⟨h1, h2⟩
    | fs => exact ⟨h1, h2⟩
    | cp _ _ => exact ⟨h1, h2⟩

theorem noCp_tail {a : Act} {rest : List Act} (h : NoCpAfterPrune (a :: rest)) : NoCpAfterPrune rest := by
  cases a with
  | prune => exact h.2
  | evict => exact h
  | fs => exact h
  | cp _ _ => exact h

/-! the schedules the theorem is about -/

/-- an event the completeness theorem admits in state `σ`: a commit that takes effect must not skip a first-stage round
(`multi = false`: its range contains at most one), a restart / crash must come up with tracking enabled -/
def EvOK (p : Params) (σ : Tr) : Ev → Prop
  | .commit t => (σ.pending = [] ∧ σ.dbRound < t ∧ t ≤ σ.latest ∧ 0 < p.interval) →
      (calcFirstStageRounds σ.dbRound (t - σ.dbRound) σ.reenable p.interval p.lookback).multi = false
  | .crash en => en = true
  | _ => True

instance instDecEvOK (p : Params) (σ : Tr) : (e : Ev) → Decidable (EvOK p σ e)
  | .commit t => inferInstanceAs (Decidable ((σ.pending = [] ∧ σ.dbRound < t ∧ t ≤ σ.latest ∧ 0 < p.interval) →
      (calcFirstStageRounds σ.dbRound (t - σ.dbRound) σ.reenable p.interval p.lookback).multi = false))
  | .crash en => inferInstanceAs (Decidable (en = true))
  | .block => isTrue trivial
  | .tick => isTrue trivial
  | .trie _ => isTrue trivial

/-- interval-compatible schedule (crashes and restarts allowed, tracking always enabled) -/
def Compat (H : Bytes → Bytes) (p : Params) (h : Hist) : Tr → List Ev → Prop
  | _, [] => True
  | σ, e :: es => EvOK p σ e ∧ Compat H p h (step H p h σ e) es

instance instDecCompat (H : Bytes → Bytes) (p : Params) (h : Hist) : (σ : Tr) → (evs : List Ev) → Decidable (Compat H p h σ evs)
  | _, [] => isTrue trivial
  | σ, e :: es =>
    have := instDecCompat H p h (step H p h σ e) es
    inferInstanceAs (Decidable (EvOK p σ e ∧ Compat H p h (step H p h σ e) es))

/-- the completeness invariant -/
structure Cmp (p : Params) (h : Hist) (σ : Tr) : Prop where
  latest_le : σ.latest ≤ h.rounds.length
  db_le : σ.dbRound ≤ σ.latest
  en : σ.enabled = true
  re_le : σ.reenable ≤ σ.dbRound + 1 + p.lookback
  re_ne : σ.dbRound < σ.latest → σ.reenable ≠ 0
  lb : σ.unfinished ≠ [] → σ.lookbackState = p.lookback
  wfs_pend : σ.writingFS = true → Act.fs ∈ σ.pending
  shape : NoCpAfterPrune σ.pending
  unf_pend : ∀ r bh, (r, bh) ∈ σ.unfinished → Act.cp r bh ∈ σ.pending
  /-- every first-stage round that is not yet prunable has its record, or is the DB round with finishFirstStage outstanding -/
  fs_win : ∀ a, 1 ≤ a → (a + p.lookback) % p.interval = 0 → a ≤ σ.dbRound → σ.dbRound < a + p.lookback →
    (lookupInfo σ.firstStage a).isSome = true ∨ (σ.writingFS = true ∧ σ.dbRound = a)
  /-- every catchpoint round up to the DB round has its label, or is recorded as unfinished with its first-stage record at hand -/
  cp_done : ∀ r, p.lookback < r → r % p.interval = 0 → r ≤ σ.dbRound →
    (∃ s, (r, s) ∈ σ.out) ∨ (∃ bh, (r, bh) ∈ σ.unfinished ∧ (lookupInfo σ.firstStage (r - p.lookback)).isSome = true)

theorem cmp_init (H : Bytes → Bytes) (p : Params) (h : Hist) : Cmp p h (Tr.init H h) where
  latest_le := Nat.zero_le _
  db_le := Nat.le_refl _
  en := rfl
  re_le := Nat.zero_le _
  re_ne := fun hlt => by simp [Tr.init] at hlt
  lb := fun hne => by simp [Tr.init] at hne
  wfs_pend := fun hw => by simp [Tr.init] at hw
  shape := trivial
  unf_pend := fun r bh hm => by simp [Tr.init] at hm
  fs_win := fun a h1 _ h3 _ => by simp only [Tr.init] at h3; omega
  cp_done := fun r h1 _ h3 => by simp only [Tr.init] at h3; omega

theorem mem_tail_of_ne {α : Type} {x a : α} {rest : List α} (hm : x ∈ a :: rest) (hne : x ≠ a) : x ∈ rest := by
  rcases List.mem_cons.1 hm with e | hm
  · exact absurd e hne
  · exact hm

/-- one post-commit / recovery action -/
theorem cmp_runAct (H : Bytes → Bytes) {p : Params} {h : Hist} (τ : Tr) (a : Act)
    (c : Cmp p h { τ with pending := a :: τ.pending }) : Cmp p h (runAct H p τ a) := by
  have hs : NoCpAfterPrune (a :: τ.pending) := c.shape
  cases a with
  | evict =>
    exact { latest_le := c.latest_le, db_le := c.db_le, en := c.en, re_le := c.re_le, re_ne := c.re_ne, lb := c.lb,
            wfs_pend := fun hw => mem_tail_of_ne (c.wfs_pend hw) (by simp), shape := noCp_tail hs,
            unf_pend := fun r bh hm => mem_tail_of_ne (c.unf_pend r bh hm) (by simp),
            fs_win := c.fs_win, cp_done := c.cp_done }
  | fs =>
    refine { latest_le := c.latest_le, db_le := c.db_le, en := c.en, re_le := c.re_le, re_ne := c.re_ne, lb := c.lb,
             wfs_pend := fun hw => by simp [runAct] at hw, shape := noCp_tail hs,
             unf_pend := fun r bh hm => mem_tail_of_ne (c.unf_pend r bh hm) (by simp), fs_win := ?_, cp_done := ?_ }
    · intro a h1 h2 h3 h4
      left
      show (lookupInfo (insertInfo τ.firstStage τ.dbRound _) a).isSome = true
      rw [lookupInfo_insert]
      by_cases ha : a = τ.dbRound
      · simp [ha]
      · rw [if_neg ha]
        rcases c.fs_win a h1 h2 h3 h4 with hl | ⟨_, hd⟩
        · exact hl
        · exact absurd hd.symm ha
    · intro r h1 h2 h3
      rcases c.cp_done r h1 h2 h3 with ho | ⟨bh, hm, hl⟩
      · exact Or.inl ho
      · refine Or.inr ⟨bh, hm, ?_⟩
        show (lookupInfo (insertInfo τ.firstStage τ.dbRound _) (r - p.lookback)).isSome = true
        rw [lookupInfo_insert]
        split
        · rfl
        · exact hl
  | cp r' bh' =>
    have hunf : ∀ r bh, (r, bh) ∈ τ.unfinished.filter (fun x => x.1 ≠ r') → Act.cp r bh ∈ τ.pending := by
      intro r bh hm
      obtain ⟨hm1, hm2⟩ := List.mem_filter.1 hm
      have hne : r ≠ r' := by simpa using hm2
      exact mem_tail_of_ne (c.unf_pend r bh hm1) (by simp [hne])
    have hlb : τ.unfinished.filter (fun x => x.1 ≠ r') ≠ [] → τ.lookbackState = p.lookback := by
      intro hne
      apply c.lb
      intro e
      apply hne
      show List.filter _ τ.unfinished = []
      rw [show τ.unfinished = [] from e]
      rfl
    simp only [runAct]
    cases hli : lookupInfo τ.firstStage (r' - p.lookback) with
    | none =>
      refine { latest_le := c.latest_le, db_le := c.db_le, en := c.en, re_le := c.re_le, re_ne := c.re_ne, lb := hlb,
               wfs_pend := fun hw => mem_tail_of_ne (c.wfs_pend hw) (by simp), shape := noCp_tail hs,
               unf_pend := hunf, fs_win := c.fs_win, cp_done := ?_ }
      intro r h1 h2 h3
      rcases c.cp_done r h1 h2 h3 with ho | ⟨bh, hm, hl⟩
      · exact Or.inl ho
      · by_cases hr : r = r'
        · subst hr
          have hl' : (lookupInfo τ.firstStage (r - p.lookback)).isSome = true := hl
          rw [hli] at hl'
          cases hl'
        · exact Or.inr ⟨bh, List.mem_filter.2 ⟨hm, by simpa using hr⟩, hl⟩
    | some info =>
      refine { latest_le := c.latest_le, db_le := c.db_le, en := c.en, re_le := c.re_le, re_ne := c.re_ne, lb := hlb,
               wfs_pend := fun hw => mem_tail_of_ne (c.wfs_pend hw) (by simp), shape := noCp_tail hs,
               unf_pend := hunf, fs_win := c.fs_win, cp_done := ?_ }
      intro r h1 h2 h3
      rcases c.cp_done r h1 h2 h3 with ⟨s, ho⟩ | ⟨bh, hm, hl⟩
      · exact Or.inl ⟨s, List.mem_append_left _ ho⟩
      · by_cases hr : r = r'
        · subst hr
          exact Or.inl ⟨_, List.mem_append_right _ (List.mem_singleton.2 rfl)⟩
        · exact Or.inr ⟨bh, List.mem_filter.2 ⟨hm, by simpa using hr⟩, hl⟩
  | prune =>
    have hnounf : ∀ r bh, (r, bh) ∈ τ.unfinished → False := fun r bh hm =>
      hs.1 r bh (mem_tail_of_ne (c.unf_pend r bh hm) (by simp))
    simp only [runAct]
    split
    · refine { latest_le := c.latest_le, db_le := c.db_le, en := c.en, re_le := c.re_le, re_ne := c.re_ne, lb := c.lb,
               wfs_pend := fun hw => mem_tail_of_ne (c.wfs_pend hw) (by simp), shape := hs.2,
               unf_pend := fun r bh hm => absurd hm (fun hm => hnounf r bh hm), fs_win := ?_, cp_done := ?_ }
      · intro a h1 h2 h3 h4
        have h4' : τ.dbRound < a + p.lookback := h4
        rcases c.fs_win a h1 h2 h3 h4 with hl | hw
        · left
          show (lookupInfo (τ.firstStage.filter _) a).isSome = true
          rw [lookupInfo_prune _ _ _ (by omega)]
          exact hl
        · exact Or.inr hw
      · intro r h1 h2 h3
        rcases c.cp_done r h1 h2 h3 with ho | ⟨bh, hm, _⟩
        · exact Or.inl ho
        · exact absurd hm (fun hm => hnounf r bh hm)
    · exact { latest_le := c.latest_le, db_le := c.db_le, en := c.en, re_le := c.re_le, re_ne := c.re_ne, lb := c.lb,
              wfs_pend := fun hw => mem_tail_of_ne (c.wfs_pend hw) (by simp), shape := hs.2,
              unf_pend := fun r bh hm => absurd hm (fun hm => hnounf r bh hm), fs_win := c.fs_win, cp_done := c.cp_done }

theorem cmp_step (H : Bytes → Bytes) {p : Params} {h : Hist} (hL : 0 < p.lookback) {σ : Tr} (c : Cmp p h σ) (e : Ev)
    (hok : EvOK p σ e) : Cmp p h (step H p h σ e) := by
  cases e with
  | block =>
    simp only [step]
    split
    · rename_i hlt
      refine { latest_le := hlt, db_le := Nat.le_succ_of_le c.db_le, en := c.en, re_le := ?_, re_ne := ?_, lb := c.lb,
               wfs_pend := c.wfs_pend, shape := c.shape, unf_pend := c.unf_pend, fs_win := c.fs_win, cp_done := c.cp_done }
      · show (if σ.reenable = 0 then σ.latest + 1 + p.lookback else σ.reenable) ≤ σ.dbRound + 1 + p.lookback
        split
        · rename_i h0
          have : ¬ σ.dbRound < σ.latest := fun hlt' => c.re_ne hlt' h0
          have := c.db_le
          omega
        · exact c.re_le
      · intro _
        show (if σ.reenable = 0 then σ.latest + 1 + p.lookback else σ.reenable) ≠ 0
        split
        · omega
        · assumption
    · exact c
  | commit t =>
    simp only [step]
    split
    · rename_i hg
      have hmulti : (calcFirstStageRounds σ.dbRound (t - σ.dbRound) σ.reenable p.interval p.lookback).multi = false := hok hg
      obtain ⟨hp, hdb, htl, hI⟩ := hg
      simp only [c.en, if_true]
      have hre0 := c.re_ne (by omega)
      have hle := calc_newOffset_le σ.dbRound (t - σ.dbRound) σ.reenable p.interval p.lookback
      have hpos := newOffset_pos (ob := σ.dbRound) (off := t - σ.dbRound) (re := σ.reenable) (I := p.interval) (L := p.lookback) (by omega)
      have hrange : ∀ a, σ.dbRound < a →
          a ≤ σ.dbRound + (calcFirstStageRounds σ.dbRound (t - σ.dbRound) σ.reenable p.interval p.lookback).newOffset →
          (a + p.lookback) % p.interval = 0 →
          (calcFirstStageRounds σ.dbRound (t - σ.dbRound) σ.reenable p.interval p.lookback).has = true ∧
            a = σ.dbRound + (calcFirstStageRounds σ.dbRound (t - σ.dbRound) σ.reenable p.interval p.lookback).newOffset :=
        fun a => fs_in_range_is_end hI hre0 c.re_le hmulti
      have hnofs : σ.writingFS = false := by
        cases hw : σ.writingFS with
        | false => rfl
        | true => have := c.wfs_pend hw; rw [hp] at this; cases this
      have hnounf : σ.unfinished = [] := by
        cases hu : σ.unfinished with
        | nil => rfl
        | cons x xs =>
          have := c.unf_pend x.1 x.2 (by rw [hu]; exact List.mem_cons_self ..)
          rw [hp] at this
          cases this
      generalize calcFirstStageRounds σ.dbRound (t - σ.dbRound) σ.reenable p.interval p.lookback = fs at *
      have hlat := c.latest_le
      refine { latest_le := c.latest_le, db_le := by simp only; omega, en := rfl, re_le := by simp only; have := c.re_le; omega,
               re_ne := fun _ => hre0, lb := fun _ => rfl, wfs_pend := ?_, shape := ?_, unf_pend := ?_, fs_win := ?_, cp_done := ?_ }
      · intro hw
        simp only [hnofs, Bool.false_or] at hw
        simp [hw]
      · refine (noCp_of_no_prune _ ?_).2
        intro hm
        simp only [List.mem_append, List.mem_cons, List.mem_map, List.not_mem_nil, or_false] at hm
        rcases hm with (hm | hm) | hm
        · cases hm
        · split at hm <;> simp at hm
        · obtain ⟨x, _, hx⟩ := hm; cases hx
      · intro r bh hm
        simp only [hnounf, List.nil_append] at hm
        exact List.mem_append_left _ (List.mem_append_right _ (List.mem_map.2 ⟨(r, bh), hm, rfl⟩))
      · intro a h1 h2 h3 h4
        simp only at h3 h4
        by_cases hao : a ≤ σ.dbRound
        · rcases c.fs_win a h1 h2 hao (by omega) with hl | ⟨hw, _⟩
          · exact Or.inl hl
          · rw [hnofs] at hw; cases hw
        · obtain ⟨hh, ha⟩ := hrange a (by omega) h3 h2
          exact Or.inr ⟨by simp [hh], ha.symm⟩
      · intro r h1 h2 h3
        simp only at h3
        by_cases hro : r ≤ σ.dbRound
        · rcases c.cp_done r h1 h2 hro with ho | ⟨bh, hm, _⟩
          · exact Or.inl ho
          · rw [hnounf] at hm; cases hm
        · obtain ⟨bh, hb⟩ := blockHash_isSome (h := h) (r := r) (by omega) (by omega)
          have hmem := mem_cpHashes_of (mem_catchpointRounds hI h1 (by omega) h3 h2) hb
          refine Or.inr ⟨bh, List.mem_append_right _ hmem, ?_⟩
          have hmod : (r - p.lookback + p.lookback) % p.interval = 0 := by rw [Nat.sub_add_cancel (by omega)]; exact h2
          have ha_le : r - p.lookback ≤ σ.dbRound := by
            rcases Nat.lt_or_ge σ.dbRound (r - p.lookback) with hc | hc
            · obtain ⟨_, ha⟩ := hrange (r - p.lookback) hc (by omega) hmod
              omega
            · exact hc
          rcases c.fs_win (r - p.lookback) (by omega) hmod ha_le (by omega) with hl | ⟨hw, _⟩
          · exact hl
          · rw [hnofs] at hw; cases hw
    · exact c
  | tick =>
    simp only [step]
    cases hp : σ.pending with
    | nil => simp only; exact c
    | cons a rest =>
      simp only
      have hσ : ({ ({ σ with pending := rest } : Tr) with pending := a :: ({ σ with pending := rest } : Tr).pending } : Tr) = σ := by
        cases σ
        simp only at hp
        subst hp
        rfl
      exact cmp_runAct H { σ with pending := rest } a (by rw [hσ]; exact c)
  | crash en =>
    have hen : en = true := hok
    subst hen
    simp only [step]
    refine { latest_le := c.latest_le, db_le := c.db_le, en := rfl, re_le := ?_, re_ne := ?_, lb := c.lb, wfs_pend := ?_, shape := ?_,
             unf_pend := ?_, fs_win := c.fs_win, cp_done := c.cp_done }
    · show (if σ.dbRound < σ.latest then σ.dbRound + 1 + p.lookback else 0) ≤ σ.dbRound + 1 + p.lookback
      split <;> omega
    · intro hlt
      show (if σ.dbRound < σ.latest then σ.dbRound + 1 + p.lookback else 0) ≠ 0
      rw [if_pos hlt]; omega
    · intro hw
      have hw' : σ.writingFS = true := hw
      simp [recoveryActs, hw']
    · simp only [recoveryActs]
      generalize hF : (if σ.writingFS = true then [Act.fs] else []) = F
      have hfs : Act.prune ∉ F := by rw [← hF]; split <;> simp
      have hcps : Act.prune ∉ σ.unfinished.map (fun x => Act.cp x.1 x.2) := by
        intro hm; obtain ⟨x, _, hx⟩ := List.mem_map.1 hm; cases hx
      by_cases h0 : σ.lookbackState = 0
      · rw [if_pos h0, List.append_nil]; exact (noCp_of_no_prune _ hfs).1
      · rw [if_neg h0]
        by_cases h1 : σ.lookbackState ≤ σ.dbRound
        · rw [if_pos h1, ← List.append_assoc]
          exact (noCp_of_no_prune _ (by simp only [List.mem_append, not_or]; exact ⟨hfs, hcps⟩)).2
        · rw [if_neg h1, List.append_nil]
          exact (noCp_of_no_prune _ (by simp only [List.mem_append, not_or]; exact ⟨hfs, hcps⟩)).1
    · intro r bh hm
      have hlb := c.lb (List.ne_nil_of_mem hm)
      simp only [recoveryActs]
      have hne : ¬ σ.lookbackState = 0 := by rw [hlb]; omega
      simp only [hne, if_false]
      exact List.mem_append_right _ (List.mem_append_left _ (List.mem_map.2 ⟨(r, bh), hm, rfl⟩))
  | trie op =>
    exact { latest_le := c.latest_le, db_le := c.db_le, en := c.en, re_le := c.re_le, re_ne := c.re_ne, lb := c.lb,
            wfs_pend := c.wfs_pend, shape := c.shape, unf_pend := c.unf_pend, fs_win := c.fs_win, cp_done := c.cp_done }

theorem cmp_run (H : Bytes → Bytes) {p : Params} {h : Hist} (hL : 0 < p.lookback) :
    ∀ (evs : List Ev) {σ : Tr}, Cmp p h σ → Compat H p h σ evs → Cmp p h (run H p h σ evs)
  | [], _, c, _ => c
  | e :: es, _, c, hc => cmp_run H hL es (cmp_step H hL c e hc.1) hc.2

/-- **C14, completeness.** In every interval-compatible run — every commit that takes effect covers at most one first-stage round;
crashes (at any point of the post-commit / recovery work) and restarts are allowed, tracking stays enabled — once the pending work is
done EVERY catchpoint round up to the tracker DB round has a label. -/
theorem label_complete (H : Bytes → Bytes) (p : Params) (h : Hist) (hL : 0 < p.lookback) (evs : List Ev)
    (hc : Compat H p h (Tr.init H h) evs) :
    let σ := run H p h (Tr.init H h) evs
    σ.pending = [] → ∀ r, p.lookback < r → r ≤ σ.dbRound → r % p.interval = 0 → ∃ s, (r, s) ∈ σ.out := by
  intro σ hp r h1 h2 h3
  have c := cmp_run H hL evs (cmp_init H p h) hc
  rcases c.cp_done r h1 h3 h2 with ho | ⟨bh, hm, _⟩
  · exact ho
  · have := c.unf_pend r bh hm
    rw [show (run H p h (Tr.init H h) evs).pending = [] from hp] at this
    cases this

/-- … and with the hypotheses of `labels_sound` that label is the one the history determines -/
theorem label_complete_exact {H : Bytes → Bytes} (p : Params) {h : Hist} (ok : HistOK H h) (hL : 0 < p.lookback) (evs : List Ev)
    (hc : Compat H p h (Tr.init H h) evs) (hp : (run H p h (Tr.init H h) evs).pending = [])
    (r : Nat) (h1 : p.lookback < r) (h2 : r ≤ (run H p h (Tr.init H h) evs).dbRound) (h3 : r % p.interval = 0) :
    ∃ s, h.label H p r = some s ∧ (r, s) ∈ labels H p h evs := by
  obtain ⟨s, hs⟩ := label_complete H p h hL evs hc hp r h1 h2 h3
  exact ⟨s, labels_sound p ok evs r s hs, hs⟩

/-- the crash-free formulation with the compatibility condition spelled out per commit event -/
def label_complete_Statement (H : Bytes → Bytes) (p : Params) (h : Hist) : Prop :=
  0 < p.lookback → ∀ evs : List Ev, (∀ e ∈ evs, ∀ en, e ≠ Ev.crash en) →
    let σ := run H p h (Tr.init H h) evs
    σ.pending = [] →
    (∀ pre t post, evs = pre ++ Ev.commit t :: post →
      let τ := run H p h (Tr.init H h) pre
      (calcFirstStageRounds τ.dbRound (t - τ.dbRound) τ.reenable p.interval p.lookback).multi = false) →
    ∀ r, p.lookback < r → r ≤ σ.dbRound → r % p.interval = 0 → ∃ s, (r, s) ∈ σ.out

theorem compat_of_decomp (H : Bytes → Bytes) (p : Params) (h : Hist) : ∀ (evs : List Ev) (σ₀ : Tr),
    (∀ e ∈ evs, ∀ en, e ≠ Ev.crash en) →
    (∀ pre t post, evs = pre ++ Ev.commit t :: post →
      (calcFirstStageRounds (run H p h σ₀ pre).dbRound (t - (run H p h σ₀ pre).dbRound) (run H p h σ₀ pre).reenable
        p.interval p.lookback).multi = false) →
    Compat H p h σ₀ evs
  | [], _, _, _ => trivial
  | e :: es, σ₀, hnc, hm => by
    refine ⟨?_, compat_of_decomp H p h es (step H p h σ₀ e) (fun e' he' => hnc e' (List.mem_cons_of_mem _ he')) ?_⟩
    · cases e with
      | commit t => exact fun _ => hm [] t es rfl
      | crash en => exact absurd rfl (hnc _ (List.mem_cons_self ..) en)
      | block => trivial
      | tick => trivial
      | trie _ => trivial
    · intro pre t post he
      exact hm (e :: pre) t post (by rw [he]; rfl)

theorem label_complete_crashfree (H : Bytes → Bytes) (p : Params) (h : Hist) : label_complete_Statement H p h := by
  intro hL evs hnc σ hp hm
  exact label_complete H p h hL evs (compat_of_decomp H p h evs _ hnc hm) hp

/-! ### non-vacuity: a concrete history, hash and schedules that meet the hypotheses and create labels -/

/-- a 32-byte "hash" that is injective on short inputs (zero padded), so `LeafInj` holds on the example rows -/
def toyH : Bytes → Bytes := fun b => (0 :: b ++ List.replicate 32 0).take 32

def exAddr (b : UInt8) : Bytes := List.replicate 32 b

def exHist : Hist :=
  { genesis := [.account (exAddr 1) 0 0 [0x81], .kv [1, 2] [3]],
    genesisAux := ⟨[0x80], exAddr 0, exAddr 0, exAddr 0⟩,
    rounds := [
      ⟨exAddr 11, [.put (.account (exAddr 1) 1 0 [0x82])], ⟨[0x81], exAddr 0, exAddr 0, exAddr 0⟩⟩,
      ⟨exAddr 12, [.put (.kv [1, 2] [4]), .put (.account (exAddr 2) 2 0 [0x83])], ⟨[0x82], exAddr 0, exAddr 0, exAddr 0⟩⟩,
      ⟨exAddr 13, [.del (.kv [1, 2])], ⟨[0x83], exAddr 0, exAddr 0, exAddr 0⟩⟩,
      ⟨exAddr 14, [], ⟨[0x83], exAddr 0, exAddr 0, exAddr 0⟩⟩] }

def exParams : Params := ⟨2, 1, 8⟩

/-- every block, then flush round by round -/
def exSchedA : List Ev :=
  [.block, .commit 1, .tick, .tick, .tick, .tick, .block, .commit 2, .tick, .tick, .tick, .tick, .block, .commit 3, .tick, .tick, .tick,
   .tick, .block, .commit 4, .tick, .tick, .tick, .tick]

/-- spanning flushes (the range (0,2] is cut at the first-stage round 1, (1,4] at 3), a crash before finishFirstStage and one
before finishCatchpoint, trie housekeeping -/
def exSchedB : List Ev :=
  [.block, .block, .commit 2, .tick, .crash true, .tick, .tick, .commit 2, .crash true, .tick, .tick, .trie (.evict true), .block, .block,
   .commit 4, .tick, .tick, .trie .reload, .tick, .commit 4, .tick, .tick, .tick]

/-- a lifetime with tracking DISABLED that commits round 1 (the hash round becomes 0), then a restart with tracking enabled (the trie
is rebuilt from the rows): round 2 gets no label (no first-stage record for round 1), round 4 gets the label of the history -/
def exSchedC : List Ev :=
  [.block, .crash false, .commit 1, .tick, .tick, .crash true, .tick, .block, .commit 2, .tick, .tick, .tick, .block, .block,
   .commit 4, .tick, .tick, .tick, .commit 4, .tick, .tick, .tick]

theorem toyH_len (x : Bytes) : (toyH x).length = 32 := by simp [toyH]

theorem exHist_stateAt (a : Nat) : exHist.stateAt a = exHist.stateAt (min a 4) := by
  unfold Hist.stateAt
  by_cases h : a ≤ 4
  · rw [Nat.min_eq_left h]
  · rw [Nat.min_eq_right (by omega), List.take_of_length_le (by simp [exHist]; omega), List.take_of_length_le (by simp [exHist])]

/-- the hypotheses of the theorems are met by a history in which rows are created, updated and deleted -/
theorem exHist_ok : HistOK toyH exHist where
  hashLen := toyH_len
  genKeys := by unfold KeysNodup; decide
  leafInj := by
    intro a b
    rw [exHist_stateAt a, exHist_stateAt b]
    have key : ∀ i, i ≤ 4 → ∀ j, j ≤ 4 → LeafInj toyH (exHist.stateAt i ++ exHist.stateAt j) := by
      unfold LeafInj
      decide
    exact key _ (Nat.min_le_right _ _) _ (Nat.min_le_right _ _)

/-- … and the two schedules create the labels of rounds 2 and 4 -/
example : (labels toyH exParams exHist exSchedA).map Prod.fst = [2, 4] ∧
    (labels toyH exParams exHist exSchedB).map Prod.fst = [2, 4] := by decide

example : (labels toyH exParams exHist exSchedC).map Prod.fst = [4] ∧
    (run toyH exParams exHist (Tr.init toyH exHist) (exSchedC.take 5)).hashRound = 0 ∧
    (run toyH exParams exHist (Tr.init toyH exHist) (exSchedC.take 6)).hashRound = 1 := by decide

example : labels toyH exParams exHist exSchedA = labels toyH exParams exHist exSchedB :=
  label_sequences_equal exParams exHist_ok _ _ (by decide)

/-! non-vacuity and necessity of the hypotheses of `label_complete` -/

/-- both example schedules — round by round, and with spanning ranges, a crash before finishFirstStage, a crash before
finishCatchpoint and trie housekeeping — are interval-compatible, end with no pending work at DB round 4 … -/
example : Compat toyH exParams exHist (Tr.init toyH exHist) exSchedA ∧ Compat toyH exParams exHist (Tr.init toyH exHist) exSchedB ∧
    (run toyH exParams exHist (Tr.init toyH exHist) exSchedB).pending = [] ∧
    (run toyH exParams exHist (Tr.init toyH exHist) exSchedB).dbRound = 4 ∧ 0 < exParams.lookback := by decide

/-- … so `label_complete` yields the labels of both catchpoint rounds (2 and 4) for the schedule with crashes -/
example : ∀ r, r = 2 ∨ r = 4 → ∃ s, (r, s) ∈ labels toyH exParams exHist exSchedB := by
  intro r hr
  have h := label_complete toyH exParams exHist (by decide) exSchedB (by decide) (by decide) r
  rcases hr with rfl | rfl
  · exact h (by decide) (by decide) (by decide)
  · exact h (by decide) (by decide) (by decide)

/-- a SPARSE schedule: one commit over rounds 1..4 covers the first-stage rounds 1 and 3 -/
def exSchedSparse : List Ev :=
  [.block, .block, .block, .block, .commit 4, .tick, .tick, .tick, .tick, .commit 4, .tick, .tick, .tick, .tick]

/-- the compatibility hypothesis is needed: the sparse schedule is not compatible, finishes all its work at DB round 4, and — like
the real tracker ("we skip earlier catchpoints if there is more than one to generate") — has no label for catchpoint round 2 -/
example : ¬ Compat toyH exParams exHist (Tr.init toyH exHist) exSchedSparse ∧
    (run toyH exParams exHist (Tr.init toyH exHist) exSchedSparse).pending = [] ∧
    (run toyH exParams exHist (Tr.init toyH exHist) exSchedSparse).dbRound = 4 ∧
    (labels toyH exParams exHist exSchedSparse).map Prod.fst = [4] := by decide

/-- so is "tracking stays enabled": `exSchedC` (a lifetime without tracking that commits round 1) is not compatible and misses
catchpoint round 2 by design -/
example : ¬ Compat toyH exParams exHist (Tr.init toyH exHist) exSchedC ∧
    (run toyH exParams exHist (Tr.init toyH exHist) exSchedC).pending = [] ∧
    (run toyH exParams exHist (Tr.init toyH exHist) exSchedC).dbRound = 4 := by decide

end Props.C14
