/-
C22 — Asset supply is conserved and holder rules are enforced.

On `Model.LedgerCore`, which mirrors ledger/apply/asset.go (AssetConfig, takeOut, putIn, AssetTransfer, AssetFreeze) and the
asset part of the cow line by line; the real code is tied to it on every run by the LedgerCore harness (profile c22).
Quantification: every parameter set, every context (stack of parent layers over a base), every evaluator state satisfying the
invariant, every transaction / group / sequence of groups of the modelled kinds.  `U` is any duplicate-free list of addresses
containing the senders (holders are shown to stay inside `U`).

The exceptions are the code's own and are part of the statements:
* a transfer of amount 0 touches no holding and needs no opt-in and no unfrozen holding (`zero_amount_needs_nothing`);
* a clawback (`AssetSender` set, sent by the asset's clawback address) ignores the frozen flag on both sides;
* a close-out whose destination holds the asset's params — the creator — bypasses the frozen flag on both sides
  (`frozen_blocks_close`, `close_to_creator_bypasses_freeze`);
* after a destroy, zero-amount holdings of the destroyed asset may remain and can still be closed out.
-/
import AlgoVerif.Lemmas.LedgerCoreSupply
namespace Props.C22
open AlgoVerif.Model.LedgerCore AlgoVerif.Lemmas.LedgerCore

/-- The invariant: holders are in `U`; for every existing asset the params sit at its creator and Σ holdings = total; params
exist only at the creator of an existing asset; every holding of a destroyed / never created asset is 0; no asset id exceeds the
txn counter. -/
abbrev AssetInv := AlgoVerif.Lemmas.LedgerCore.AssetInv

/-- `supply_conserved` (inductive step): the invariant survives every accepted group … -/
theorem supply_conserved_group (P : Params) (x : Ctx) (s s' : EvalState) (g : List Txn) (U : List Addr)
    (hU : U.Nodup) (hs : ∀ t ∈ g, t.sender ∈ U) (hI : AssetInv x s.top U (counterOf x s.top))
    (h : evalGroup P x s g = .ok s') : AssetInv x s'.top U (counterOf x s'.top) :=
  evalGroup_inv hU hs hI h

/-- … hence every sequence of groups tried on an evaluator (failing ones dropped) … -/
theorem supply_conserved_block (P : Params) (x : Ctx) (s : EvalState) (gs : List (List Txn)) (U : List Addr)
    (hU : U.Nodup) (hs : ∀ g ∈ gs, ∀ t ∈ g, t.sender ∈ U) (hI : AssetInv x s.top U (counterOf x s.top)) :
    AssetInv x (evalBlock P x s gs).top U (counterOf x (evalBlock P x s gs).top) :=
  evalBlock_inv hU gs s hs hI

/-- `supply_conserved`: in every state reachable from a ledger without assets by any sequence of groups, for every existing
asset the holdings sum to its total supply (and the params are at the creator). -/
theorem supply_conserved (P : Params) (b : Base) (hr : b.res = []) (hc : b.creators = []) (gs : List (List Txn)) (U : List Addr)
    (hU : U.Nodup) (hs : ∀ g ∈ gs, ∀ t ∈ g, t.sender ∈ U) (i : AssetId) (cr : Addr) :
    let s := evalBlock P ⟨[], b⟩ {} gs
    creatorOf ⟨[], b⟩ s.top i = some cr →
      ∃ p, paramsOf ⟨[], b⟩ s.top (cr, i) = some p ∧ supply ⟨[], b⟩ s.top U i = p.total := by
  intro s hcr
  have := evalBlock_inv (P := P) (x := ⟨[], b⟩) hU gs {} hs (inv_init b U _ hr hc)
  exact this.live i cr hcr

/-- holdings never leave `U`, so the sum over `U` is the sum over all accounts -/
theorem holders_in_universe (P : Params) (x : Ctx) (s : EvalState) (gs : List (List Txn)) (U : List Addr)
    (hU : U.Nodup) (hs : ∀ g ∈ gs, ∀ t ∈ g, t.sender ∈ U) (hI : AssetInv x s.top U (counterOf x s.top))
    (a : Addr) (i : AssetId) (ha : a ∉ U) : holdingOf x (evalBlock P x s gs).top (a, i) = none := by
  cases e : holdingOf x (evalBlock P x s gs).top (a, i) with
  | none => rfl
  | some hd => exact absurd ((evalBlock_inv hU gs s hs hI).closed a i hd e) ha

/-- holdings of a destroyed asset are all zero -/
theorem destroyed_asset_empty (P : Params) (x : Ctx) (s : EvalState) (gs : List (List Txn)) (U : List Addr)
    (hU : U.Nodup) (hs : ∀ g ∈ gs, ∀ t ∈ g, t.sender ∈ U) (hI : AssetInv x s.top U (counterOf x s.top))
    (i : AssetId) (hn : creatorOf x (evalBlock P x s gs).top i = none) (a : Addr) :
    amountOf x (evalBlock P x s gs).top (a, i) = 0 :=
  (evalBlock_inv hU gs s hs hI).gone i hn a

/-! ### the structure of an asset transfer -/

theorem assetTransfer_ok {P : Params} {x : Ctx} {l l' : Layer} {t : Txn} (h : assetTransfer P x l t = .ok l') :
    ∃ src cb l1 l2 l3, xferSource x l t = .ok (src, cb) ∧ optIn P x l t src cb = .ok l1 ∧
      takeOut x l1 src t.asset t.assetAmount cb = .ok l2 ∧ putIn x l2 t.assetReceiver t.asset t.assetAmount cb = .ok l3 ∧
      assetClose x l3 t src cb = .ok l' := by
  unfold assetTransfer at h
  split at h
  · cases h
  · rename_i src cb hs
    split at h
    · cases h
    · rename_i l1 h1
      split at h
      · cases h
      · rename_i l2 h2
        split at h
        · cases h
        · rename_i l3 h3
          exact ⟨src, cb, l1, l2, l3, hs, h1, h2, h3, h⟩

/-- a clawback is a transfer with `AssetSender` set that was sent by the asset's (non-zero) clawback address -/
def IsClawback (x : Ctx) (l : Layer) (t : Txn) : Prop :=
  t.assetSender ≠ 0 ∧ ∃ p cr, getParams x l t.asset = .ok (p, cr) ∧ p.clawback ≠ 0 ∧ t.sender = p.clawback

theorem xferSource_ok {x : Ctx} {l : Layer} {t : Txn} {src : Addr} {cb : Bool} (h : xferSource x l t = .ok (src, cb)) :
    (cb = false ∧ src = t.sender ∧ t.assetSender = 0) ∨ (cb = true ∧ src = t.assetSender ∧ IsClawback x l t) := by
  unfold xferSource at h
  split at h
  · rename_i h0; cases h; exact Or.inl ⟨rfl, rfl, h0⟩
  · rename_i h0
    split at h
    · cases h
    · rename_i p cr hg
      split at h
      · cases h
      · rename_i hc
        cases h
        refine Or.inr ⟨rfl, rfl, h0, p, cr, hg, ?_, ?_⟩
        · intro e; exact hc (Or.inl e)
        · apply Classical.byContradiction; intro e; exact hc (Or.inr e)

/-- `optin_required` + `frozen_blocks` for the transfer part: an accepted transfer of a positive amount finds a holding on both
sides (both parties opted in), and if either holding is frozen the transaction is a clawback. -/
theorem transfer_rules (P : Params) (x : Ctx) (l l' : Layer) (t : Txn) (h : assetTransfer P x l t = .ok l')
    (hpos : 0 < t.assetAmount) :
    ∃ src hs hr, (src = if t.assetSender = 0 then t.sender else t.assetSender) ∧
      holdingOf x l (src, t.asset) = some hs ∧ holdingOf x l (t.assetReceiver, t.asset) = some hr ∧
      t.assetAmount ≤ hs.amount ∧ ((hs.frozen = true ∨ hr.frozen = true) → IsClawback x l t) := by
  obtain ⟨src, cb, l1, l2, l3, hsrc, h1, h2, h3, _⟩ := assetTransfer_ok h
  -- a positive amount is not an opt-in
  have hl1 : l1 = l := by
    unfold optIn at h1
    split at h1
    · rename_i hc; omega
    · cases h1; rfl
  subst hl1
  rcases takeOut_ok h2 with ⟨h0, _⟩ | ⟨_, hs, hes, hfs, hle, rfl⟩
  · omega
  rcases putIn_ok h3 with ⟨h0, _⟩ | ⟨_, hr2, her, hfr, _⟩
  · omega
  -- the receiver's holding before the take-out has the same frozen flag
  have hrcv : ∃ hr, holdingOf x l1 (t.assetReceiver, t.asset) = some hr ∧ hr.frozen = hr2.frozen := by
    rw [holdingOf_putHoldingD _ _ _ _ _ (by simp)] at her
    split at her
    · rename_i e
      have : t.assetReceiver = src := by cases e; rfl
      simp only [Delta.toOption, Option.some.injEq] at her
      exact ⟨hs, by rw [this]; exact hes, by rw [← her]⟩
    · exact ⟨hr2, her, rfl⟩
  obtain ⟨hr, her', hfeq⟩ := hrcv
  have hsrcEq : (src = if t.assetSender = 0 then t.sender else t.assetSender) ∧ (cb = true → IsClawback x l1 t) := by
    rcases xferSource_ok hsrc with ⟨hcb, hs', h0⟩ | ⟨hcb, hs', hcl⟩
    · exact ⟨by rw [if_pos h0]; exact hs', fun e => by rw [hcb] at e; cases e⟩
    · exact ⟨by rw [if_neg hcl.1]; exact hs', fun _ => hcl⟩
  refine ⟨src, hs, hr, hsrcEq.1, hes, her', hle, ?_⟩
  rintro (hf | hf)
  · exact hsrcEq.2 (hfs hf)
  · exact hsrcEq.2 (hfr (by rw [← hfeq]; exact hf))

/-- `optin_required` as a rejection: a positive amount to or from an account that has not opted in is rejected -/
theorem optin_required (P : Params) (x : Ctx) (l : Layer) (t : Txn) (hpos : 0 < t.assetAmount)
    (hno : holdingOf x l (if t.assetSender = 0 then t.sender else t.assetSender, t.asset) = none
           ∨ holdingOf x l (t.assetReceiver, t.asset) = none) :
    ∀ l', assetTransfer P x l t ≠ .ok l' := by
  intro l' h
  obtain ⟨src, hs, hr, hsrc, e1, e2, _⟩ := transfer_rules P x l l' t h hpos
  subst hsrc
  rcases hno with e | e
  · rw [e] at e1; cases e1
  · rw [e] at e2; cases e2

/-- `frozen_blocks` as a rejection: a positive amount out of or into a frozen holding, not sent as a clawback, is rejected -/
theorem frozen_blocks (P : Params) (x : Ctx) (l : Layer) (t : Txn) (hpos : 0 < t.assetAmount) (hncb : t.assetSender = 0)
    (hs hr : Holding) (e1 : holdingOf x l (t.sender, t.asset) = some hs) (e2 : holdingOf x l (t.assetReceiver, t.asset) = some hr)
    (hf : hs.frozen = true ∨ hr.frozen = true) : ∀ l', assetTransfer P x l t ≠ .ok l' := by
  intro l' h
  obtain ⟨src, hs', hr', hsrc, e1', e2', _, hcl⟩ := transfer_rules P x l l' t h hpos
  rw [if_pos hncb] at hsrc
  subst hsrc
  rw [e1] at e1'; cases e1'
  rw [e2] at e2'; cases e2'
  exact (hcl hf).1 hncb

/-- `frozen_blocks` for the close-out part: closing a positive remainder needs a holding at the destination, and if the closed
holding or the destination holding is frozen the destination holds the asset's params (it is the creator). -/
theorem frozen_blocks_close (x : Ctx) (l l' : Layer) (t : Txn) (src : Addr) (cb : Bool) (hct : t.assetCloseTo ≠ 0)
    (h : assetClose x l t src cb = .ok l') :
    cb = false ∧ paramsOf x l (src, t.asset) = none ∧
    ∃ hs, holdingOf x l (src, t.asset) = some hs ∧
      (0 < hs.amount → ∃ l1 hd, takeOut x l src t.asset hs.amount (paramsOf x l (t.assetCloseTo, t.asset)).isSome = .ok l1 ∧
        holdingOf x l1 (t.assetCloseTo, t.asset) = some hd ∧
        ((hs.frozen = true ∨ hd.frozen = true) → (paramsOf x l (t.assetCloseTo, t.asset)).isSome = true)) := by
  unfold assetClose at h
  rw [if_neg hct] at h
  split at h
  · cases h
  · rename_i hcb
    simp only at h
    split at h
    · cases h
    · split at h
      · cases h
      · rename_i hnp
        split at h
        · cases h
        · rename_i hs hes
          have hcbf : cb = false := by
            cases cb with
            | false => rfl
            | true => exact absurd rfl hcb
          have hpn : paramsOf x l (src, t.asset) = none := by
            cases e : paramsOf x l (src, t.asset) with
            | none => rfl
            | some p => rw [e] at hnp; exact absurd rfl hnp
          refine ⟨hcbf, hpn, hs, hes, ?_⟩
          intro hpos
          split at h
          · cases h
          · rename_i l1 h1
            split at h
            · cases h
            · rename_i l2 h2
              rcases takeOut_ok h1 with ⟨h0, _⟩ | ⟨_, hs', hes', hfs, _, _⟩
              · omega
              rcases putIn_ok h2 with ⟨h0, _⟩ | ⟨_, hd, hed, hfd, _⟩
              · omega
              rw [hes] at hes'; cases hes'
              refine ⟨l1, hd, h1, hed, ?_⟩
              rintro (hf | hf)
              · exact hfs hf
              · exact hfd hf

/-- with the invariant, "holds the params of the asset" means "is the creator" -/
theorem params_holder_is_creator (x : Ctx) (l : Layer) (U : List Addr) (n : Nat) (hI : AssetInv x l U n) (a : Addr) (i : AssetId)
    (h : (paramsOf x l (a, i)).isSome = true) : creatorOf x l i = some a := by
  cases e : paramsOf x l (a, i) with
  | none => rw [e] at h; cases h
  | some p => exact hI.owner a i p e

/-- `destroy_requires_all`: an accepted destroy (asset config with empty params on an existing asset) was sent by the asset's
non-zero manager, and the creator holds the entire supply … -/
theorem destroy_requires_all (P : Params) (x : Ctx) (l l' : Layer) (t : Txn) (ctr : Nat)
    (ha : t.asset ≠ 0) (hd : t.params = AssetParams.empty) (h : assetConfig P x l t ctr = .ok l') :
    ∃ p cr, getParams x l t.asset = .ok (p, cr) ∧ p.manager ≠ 0 ∧ t.sender = p.manager ∧
      amountOf x l (cr, t.asset) = p.total ∧ creatorOf x l' t.asset = none := by
  unfold assetConfig at h
  simp only at h
  rw [if_neg ha] at h
  split at h
  · cases h
  · rename_i p cr hg
    split at h
    · cases h
    · rename_i hm
      split at h
      · cases h
      · split at h
        · cases h
        · split at h
          · cases h
          · rename_i hall
            split at h
            · cases h
            · cases h
              refine ⟨p, cr, hg, ?_, ?_, by simpa using hall, ?_⟩
              · intro e; exact hm (Or.inl e)
              · apply Classical.byContradiction; intro e; exact hm (Or.inr e)
              · rw [creatorOf_putParamsD, creatorOf_putHoldingD, creatorOf_putCreatable]; simp

/-- … so that (by the invariant) nobody else holds any of it. -/
theorem destroy_others_hold_nothing (P : Params) (x : Ctx) (l l' : Layer) (t : Txn) (ctr : Nat) (U : List Addr) (n : Nat)
    (hU : U.Nodup) (hI : AssetInv x l U n)
    (ha : t.asset ≠ 0) (hd : t.params = AssetParams.empty) (h : assetConfig P x l t ctr = .ok l') :
    ∃ cr, creatorOf x l t.asset = some cr ∧ ∀ a, a ≠ cr → amountOf x l (a, t.asset) = 0 := by
  obtain ⟨p, cr, hg, _, _, hall, _⟩ := destroy_requires_all P x l l' t ctr ha hd h
  obtain ⟨hcr, hp⟩ := getParams_ok hg
  refine ⟨cr, hcr, ?_⟩
  obtain ⟨p', hp', hsup⟩ := hI.live t.asset cr hcr
  rw [hp] at hp'; cases hp'
  intro a hne
  by_cases haU : a ∈ U
  · by_cases hc' : cr ∈ U
    · exact others_zero_of_sum_eq hU (fun b => amountOf x l (b, t.asset)) hc' (by rw [hall]; exact hsup) a haU hne
    · have h0 : holdingOf x l (cr, t.asset) = none := by
        cases e : holdingOf x l (cr, t.asset) with
        | none => rfl
        | some hd' => exact absurd (hI.closed cr t.asset hd' e) hc'
      rw [amountOf_none h0] at hall
      exact all_zero_of_sum_zero (fun b => amountOf x l (b, t.asset)) (by have := hsup; unfold supply at this; omega) a haU
  · cases e : holdingOf x l (a, t.asset) with
    | none => exact amountOf_none e
    | some hd' => exact absurd (hI.closed a t.asset hd' e) haU

/-- a destroy while somebody else holds part of the supply is rejected -/
theorem destroy_rejected_when_held (P : Params) (x : Ctx) (l : Layer) (t : Txn) (ctr : Nat) (p : AssetParams) (cr : Addr)
    (ha : t.asset ≠ 0) (hd : t.params = AssetParams.empty) (hg : getParams x l t.asset = .ok (p, cr))
    (hne : amountOf x l (cr, t.asset) ≠ p.total) : ∀ l', assetConfig P x l t ctr ≠ .ok l' := by
  intro l' h
  obtain ⟨p', cr', hg', _, _, hall, _⟩ := destroy_requires_all P x l l' t ctr ha hd h
  rw [hg] at hg'; cases hg'
  exact hne hall

/-! ### the code's exceptions, stated -/

/-- zero-amount moves touch nothing: no opt-in and no unfrozen holding is needed -/
theorem zero_amount_needs_nothing (x : Ctx) (l : Layer) (a : Addr) (i : AssetId) (b : Bool) :
    takeOut x l a i 0 b = .ok l ∧ putIn x l a i 0 b = .ok l := ⟨rfl, rfl⟩

/-- clawback ignores freeze: with the bypass set the frozen flag is not consulted -/
theorem clawback_ignores_freeze (x : Ctx) (l : Layer) (a : Addr) (i : AssetId) (amt : Nat) (hd : Holding)
    (he : holdingOf x l (a, i) = some hd) (hpos : amt ≠ 0) (hle : amt ≤ hd.amount) :
    takeOut x l a i amt true = .ok (putHoldingD x l (a, i) (.val { hd with amount := hd.amount - amt })) := by
  unfold takeOut
  rw [if_neg hpos, he]
  simp only
  rw [if_neg (by simp), if_neg (by omega)]

/-- close-to-creator bypasses freeze: the bypass flag of the close-out is "the destination holds the asset's params" -/
theorem close_to_creator_bypasses_freeze (x : Ctx) (l : Layer) (a : Addr) (i : AssetId) (amt : Nat) (hd : Holding)
    (he : holdingOf x l (a, i) = some hd) (hfr : hd.frozen = true) (hpos : amt ≠ 0) (hle : amt ≤ hd.amount) :
    (takeOut x l a i amt true).isOk = true ∧ takeOut x l a i amt false = .error .frozen := by
  constructor
  · rw [clawback_ignores_freeze x l a i amt hd he hpos hle]; rfl
  · unfold takeOut
    rw [if_neg hpos, he]
    simp only
    rw [if_pos (by simp [hfr])]

/-- opting in needs the asset to exist -/
theorem optin_needs_asset (P : Params) (x : Ctx) (l : Layer) (t : Txn) (src : Addr)
    (h0 : t.assetAmount = 0) (hr : t.assetReceiver = src) (hn : holdingOf x l (src, t.asset) = none)
    (hc : creatorOf x l t.asset = none) : optIn P x l t src false = .error .noAsset := by
  unfold optIn
  rw [if_pos ⟨h0, hr, rfl⟩, hn]
  simp only [getParams, hc]

/-! ### non-vacuity: create (total 100), opt-in, transfer 40, freeze the receiver, a further transfer is rejected, the clawback
address takes 10 back, destroy is rejected while account 2 holds 30, account 2 closes out to the creator although frozen,
destroy succeeds -/

def exBase : Base := { accts := [(1, { bal := 5000000 }), (2, { bal := 5000000 }), (7, { status := .notPart, bal := 100000 })] }
def hdr (k : Kind) (snd note : Nat) : Txn := { kind := k, sender := snd, fee := 1000, fv := 1, lv := 10, note := note }
def exCreate : Txn := { hdr .acfg 1 1 with params := ⟨100, 0, false, 1, 0, 1, 1⟩ }
def exOptIn : Txn := { hdr .axfer 2 2 with asset := 1, assetReceiver := 2 }
def exSend : Txn := { hdr .axfer 1 3 with asset := 1, assetAmount := 40, assetReceiver := 2 }
def exFreeze : Txn := { hdr .afrz 1 4 with asset := 1, freezeAccount := 2, frozen := true }
def exSendFrozen : Txn := { hdr .axfer 2 5 with asset := 1, assetAmount := 5, assetReceiver := 1 }
def exClaw : Txn := { hdr .axfer 1 6 with asset := 1, assetAmount := 10, assetSender := 2, assetReceiver := 1 }
def exDestroy (n : Nat) : Txn := { hdr .acfg 1 n with asset := 1 }
def exCloseOut : Txn := { hdr .axfer 2 8 with asset := 1, assetReceiver := 0, assetCloseTo := 1 }

def exRun : EvalState :=
  evalBlock {} ⟨[], exBase⟩ {} [[exCreate], [exOptIn], [exSend], [exFreeze], [exSendFrozen], [exClaw], [exDestroy 7], [exCloseOut]]

example : [0, 1, 2, 7].Nodup := by decide
example : exBase.res = [] ∧ exBase.creators = [] := ⟨rfl, rfl⟩
example : exRun.payset.length = 6 := by decide
example : supply ⟨[], exBase⟩ exRun.top [0, 1, 2, 7] 1 = 100 ∧ amountOf ⟨[], exBase⟩ exRun.top (1, 1) = 100
    ∧ holdingOf ⟨[], exBase⟩ exRun.top (2, 1) = none := by decide
example : creatorOf ⟨[], exBase⟩ (evalBlock {} ⟨[], exBase⟩ exRun [[exDestroy 9]]).top 1 = none := by decide

end Props.C22
