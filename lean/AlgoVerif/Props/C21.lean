/-
C21 — Accounts never end a transaction group below minimum balance (modelled kinds: payments, closes, keyreg, asset
create / opt-in / close-out / destroy; application and box counters are 0 in Model.LedgerCore).

`minBalance P a` IS the regenerated `Gen.Fees.MinBalance` (data/basics/userBalance.go:MinBalance, translated from the current
tree on every run) applied to the account's own counters (`minbalance_is_gen`); `minbalance_formula` gives its closed form.
`minbalance_post` quantifies over every parameter set, context, evaluator state and group.
-/
import AlgoVerif.Lemmas.LedgerCoreMinBal
namespace Props.C21
open AlgoVerif.Model.LedgerCore AlgoVerif.Lemmas.LedgerCore

/-- the tie of the model's min-balance to the source: by definition the translated function on the account's counters -/
theorem minbalance_is_gen (P : Params) (a : Account) :
    minBalance P a = Gen.Fees.MinBalance P.reqs a.totalAssets ⟨0, 0⟩ 0 0 0 0 0 := rfl

/-- `minbalance_formula`: for in-range consensus constants and counters the saturating eight-term sum is
`MinBalance · (1 + TotalAssets)`, saturated at 2^64 − 1 (an unreachable balance). -/
theorem minbalance_formula (P : Params) (a : Account)
    (h1 : P.reqs.MinBalance < 2^64) (h2 : P.reqs.AppFlatParamsMinBalance < 2^64) (h3 : P.reqs.AppFlatOptInMinBalance < 2^64)
    (h4 : P.reqs.BoxFlatMinBalance < 2^64) (h5 : P.reqs.BoxByteMinBalance < 2^64) (h6 : P.reqs.SchemaMinBalancePerEntry < 2^64)
    (h7 : P.reqs.SchemaUintMinBalance < 2^64) (h8 : P.reqs.SchemaBytesMinBalance < 2^64) (hta : a.totalAssets < 2^64) :
    minBalance P a = min (P.reqs.MinBalance * (1 + a.totalAssets)) (2^64 - 1) :=
  minBalance_closed P.reqs a.totalAssets h1 h2 h3 h4 h5 h6 h7 h8 hta

example : minBalance {} { totalAssets := 3 } = 400000 := by decide
/-- the hypotheses of `minbalance_formula` hold for the consensus constants of the current protocol (as emitted by the harness) -/
example : let r : Gen.Fees.basics_BalanceRequirements := ⟨100000, 100000, 100000, 2500, 400, 25000, 3500, 25000⟩
    r.MinBalance < 2^64 ∧ r.AppFlatParamsMinBalance < 2^64 ∧ r.AppFlatOptInMinBalance < 2^64 ∧ r.BoxFlatMinBalance < 2^64 ∧
    r.BoxByteMinBalance < 2^64 ∧ r.SchemaMinBalancePerEntry < 2^64 ∧ r.SchemaUintMinBalance < 2^64 ∧ r.SchemaBytesMinBalance < 2^64 := by decide

/-- what `checkMinBalance` guarantees for one account: fully closed (the zero record), or balance with pending rewards at
least the min balance of ITS OWN post-state (and within `MaximumMinimumBalance` when that is set) -/
abbrev MinBalOK := AlgoVerif.Lemmas.LedgerCore.MinBalOK

/-- `minbalance_post`: after every accepted group, every account in the group's cumulative modified set other than fee sink,
rewards pool and state-proof sender is empty-closed or holds at least the min balance of its post-state — read from the
evaluator's state after the commit. -/
theorem minbalance_post (P : Params) (x : Ctx) (s s' : EvalState) (g : List Txn) (hg : g ≠ [])
    (h : evalGroup P x s g = .ok s') :
    ∃ child, evalGroupChild P x s.top s.txBytes g = .ok child ∧
      ∀ a ∈ modified child, exempt P a = false → MinBalOK P (acctOf x s'.top a) := by
  obtain ⟨child, hc, rfl⟩ := evalGroup_ok hg h
  refine ⟨child, hc, fun a ha he => ?_⟩
  show MinBalOK P (acctOf x (commitToParent child s.top) a)
  rw [acctOf_commit x child s.top (evalGroupChild_wf hc)]
  exact evalGroupChild_checked hc a ha he

/-- … and the modified set contains every account whose record the group changed: an account whose record differs after the
group and is not exempt satisfies the post-condition. -/
theorem minbalance_post_changed (P : Params) (x : Ctx) (s s' : EvalState) (g : List Txn)
    (h : evalGroup P x s g = .ok s') (a : Addr) (hch : acctOf x s'.top a ≠ acctOf x s.top a) (he : exempt P a = false) :
    MinBalOK P (acctOf x s'.top a) := by
  cases g with
  | nil => cases h; exact absurd rfl hch
  | cons t r =>
    obtain ⟨child, hc, hpost⟩ := minbalance_post P x s s' (t :: r) (by simp) h
    obtain ⟨child', hc', rfl⟩ := evalGroup_ok (g := t :: r) (by simp) h
    rw [hc] at hc'; cases hc'
    by_cases hm : a ∈ modified child
    · exact hpost a hm he
    · exfalso
      apply hch
      show acctOf x (commitToParent child s.top) a = _
      rw [acctOf_commit x child s.top (evalGroupChild_wf hc), acctOf_not_modified x s.top child a hm]

/-- the check is applied after EVERY transaction to the cumulative modified set of the child (not only at the end) -/
theorem minbalance_every_txn (P : Params) (x : Ctx) (l l' : Layer) (g : List Txn) (t : Txn)
    (h : evalTxn P x l g t = .ok l') : ∀ a ∈ modified l', exempt P a = false → MinBalOK P (acctOf x l' a) :=
  evalTxn_checked h

/-- accounts modified by earlier members stay in the set -/
theorem modified_monotone (P : Params) (x : Ctx) (l l' : Layer) (g : List Txn) (t : Txn)
    (h : evalTxn P x l g t = .ok l') (a : Addr) (ha : a ∈ modified l) : a ∈ modified l' :=
  modified_steps (evalTxn_steps h) ha

/-- the exemptions are exactly the three special addresses -/
theorem exempt_iff (P : Params) (a : Addr) : exempt P a = true ↔ a = P.feeSink ∨ a = P.rewardsPool ∨ a = P.spSender := by
  simp [exempt, or_assoc]

/-! ### non-vacuity: a payment that leaves the sender exactly at the min balance is accepted, one µAlgo more is rejected;
the receiver (account 3, new) must reach the min balance as well -/

def exBase : Base := { accts := [(1, { bal := 301000 }), (7, { status := .notPart, bal := 100000 })] }
def exPay (amt : Nat) : Txn := { kind := .pay, sender := 1, fee := 1000, fv := 1, lv := 10, note := 1, receiver := 3, amount := amt }

def okWith (r : Except GErr EvalState) (f : EvalState → Bool) : Bool :=
  match r with
  | .error _ => false
  | .ok s => f s
def failsWith (r : Except GErr EvalState) (e : GErr) : Bool :=
  match r with
  | .error e' => decide (e' = e)
  | .ok _ => false

example : okWith (evalGroup {} ⟨[], exBase⟩ {} [exPay 200000]) (fun s => (acctOf ⟨[], exBase⟩ s.top 1).bal == 100000) = true := by decide
example : failsWith (evalGroup {} ⟨[], exBase⟩ {} [exPay 200001]) (.minBal, some 0) = true := by decide
example : failsWith (evalGroup {} ⟨[], exBase⟩ {} [exPay 99999]) (.minBal, some 0) = true := by decide

end Props.C21
