/-
C27 (absence rule) — about `Gen.Fees.isAbsent`, regenerated from ledger/eval/eval.go:isAbsent.
-/
import AlgoVerif.Gen.Fees
import AlgoVerif.Props.C45
namespace Props.C27T
open AlgoVerif.U64 Gen.Basics Gen.Fees Props.C45

/-- The absence rule in closed form: an account with stake `s` (out of `S` online) last seen at `ls` is
absent at round `r` iff it has been seen at all, has stake, its allowed lag ⌊20·S/s⌋ fits in 32 bits, and
`ls + lag < r` (64-bit wrap of the sum made explicit). -/
theorem isAbsent_spec (S s ls r : Nat) (hS : S < 2^64) (hs : s < 2^64) (hls : ls < 2^64) (_hr : r < 2^64) :
    isAbsent S s ls r = true ↔
      ls ≠ 0 ∧ s ≠ 0 ∧ 20 * S / s ≤ 4294967295 ∧ (ls + 20 * S / s) % 2^64 < r := by
  unfold isAbsent
  by_cases h0 : ls = 0
  · simp [h0]
  by_cases h1 : s = 0
  · simp [h1]
  simp only [h0, h1, decide_false, Bool.or_self, Bool.false_eq_true, if_false, ne_eq, not_false_eq_true, true_and]
  rw [muldiv_exact 20 S s (by decide) hS hs]
  have e : (2:Nat)^64 = 18446744073709551616 := by decide
  by_cases hq : 20 * S / s < 2^64
  · have hc : s ≠ 0 ∧ 20 * S / s < 2^64 := ⟨h1, hq⟩
    have hn : ¬ (s = 0 ∨ 2^64 ≤ 20 * S / s) := by omega
    simp only [if_pos hc, hn, decide_false, Bool.false_or]
    by_cases hl : 20 * S / s > 4294967295
    · simp [hl]; omega
    · have hl' : 20 * S / s ≤ 4294967295 := by omega
      simp only [hl, decide_false, Bool.false_eq_true, if_false, hl', true_and, uadd]
      exact decide_eq_true_iff
  · have hc : ¬ (s ≠ 0 ∧ 20 * S / s < 2^64) := fun h => hq h.2
    have hn : (s = 0 ∨ 2^64 ≤ 20 * S / s) := Or.inr (by omega)
    simp only [if_neg hc, hn, decide_true, Bool.true_or, if_true, Bool.false_eq_true, false_iff]
    intro ⟨h, _⟩; rw [e] at hq; omega

/-- small-stake accounts are given proportionally more time; nobody is suspended before 20 rounds -/
theorem absent_needs_lag (S s ls r : Nat) (hS : S < 2^64) (hs : s < 2^64) (hls : ls < 2^64) (hr : r < 2^64)
    (hle : s ≤ S) (hnw : ls + 20 * S / s < 2^64) (h : isAbsent S s ls r = true) : ls + 20 < r := by
  obtain ⟨_, hs0, _, hlt⟩ := (isAbsent_spec S s ls r hS hs hls hr).mp h
  rw [Nat.mod_eq_of_lt hnw] at hlt
  have : 20 ≤ 20 * S / s := by
    rw [Nat.le_div_iff_mul_le (Nat.pos_of_ne_zero hs0)]
    exact Nat.mul_le_mul_left 20 hle
  omega

example : isAbsent 1000000 1000 5 20006 = true := by decide   -- lag 20000: 5 + 20000 < 20006
example : isAbsent 1000000 1000 5 20005 = false := by decide
example : isAbsent 1000000 1000 0 99999999 = false := by decide -- never seen: not considered

end Props.C27T
