/-
C24 — Fees and proposer payouts stay within their limits.
Theorems about definitions REGENERATED from data/basics/overflow.go (FeeForUsage), ledger/eval/eval.go
(CheckGroupFees, ComputeLoad) and data/bookkeeping/block.go (computeBonus, NextCongestionTax), plus a
hand-written model of `proposerPayout`/`validateForPayouts` composed from regenerated helpers.
-/
import AlgoVerif.Gen.Fees
import AlgoVerif.Props.C45
import AlgoVerif.Spec.Arith
import AlgoVerif.Spec.Fees
import AlgoVerif.Props.C24Model
namespace Props.C24
open AlgoVerif.U64 Gen.Basics Gen.Fees Props.C45 Model.C24

/-- FeeForUsage is the exact quotient/remainder of base·usage·multiplier by 10¹² with the carried residue:
rounds up unless an earlier round-up already paid for the fraction; flags every 64-bit overflow. -/
theorem fee_for_usage_exact (base usage mult residue : Nat)
    (hb : base < 2^64) (hu : usage < 2^64) (hm : mult < 2^64) (hr : residue < 2^64) :
    MicroAlgos_FeeForUsage base usage mult residue = Spec.Arith.feeForUsage base usage mult residue := by
  unfold MicroAlgos_FeeForUsage Spec.Arith.feeForUsage
  rw [mul2div_exact base usage mult 1000000000000 hb hu hm (by decide)]
  simp only [M64_eq, Spec.Arith.MAX64] at *
  unfold M64 at *
  generalize base * usage * mult = p
  have hrlt : p % 1000000000000 < 1000000000000 := Nat.mod_lt _ (by decide)
  by_cases hq : p / 1000000000000 < 18446744073709551616
  · have hc : (1000000000000 : Nat) ≠ 0 ∧ p / 1000000000000 < 18446744073709551616 := ⟨by decide, hq⟩
    have hnq : ¬ 18446744073709551616 ≤ p / 1000000000000 := by omega
    rw [if_pos hc]
    simp only [Bool.false_eq_true, if_false, hnq]
    generalize p / 1000000000000 = q at *
    generalize p % 1000000000000 = r at *
    by_cases h1 : r ≤ residue
    · have h1' : ¬ r > residue := by omega
      simp only [h1, if_true, h1', decide_false, Bool.and_false, Bool.false_eq_true, if_false]
      by_cases h0 : r = 0
      · subst h0; simp
      · simp only [h0, decide_false, Bool.false_eq_true, if_false, decide_true, if_true]
        unfold usub
        have : (residue + 2^64 - r % 2^64) % 2^64 = residue - r := by
          have e : (2:Nat)^64 = 18446744073709551616 := by decide
          rw [e]; omega
        rw [this]
    · have h1' : r > residue := by omega
      have h0 : r ≠ 0 := by omega
      simp only [h1, if_false, h1', decide_true, Bool.and_true]
      by_cases hmax : q = 18446744073709551615
      · simp [hmax]
      · simp only [hmax, decide_false, Bool.false_eq_true, if_false, h0]
        unfold uadd usub
        have e : (2:Nat)^64 = 18446744073709551616 := by decide
        rw [e]
        have a1 : (q + 1) % 18446744073709551616 = q + 1 := by omega
        have a2 : (r + 18446744073709551616 - residue % 18446744073709551616) % 18446744073709551616 = r - residue := by omega
        rw [a1, a2]
        have a3 : (1000000000000 + 18446744073709551616 - (r - residue) % 18446744073709551616) % 18446744073709551616
            = 1000000000000 - (r - residue) := by omega
        rw [a3]
  · have hc : ¬ ((1000000000000 : Nat) ≠ 0 ∧ p / 1000000000000 < 18446744073709551616) := fun h => hq h.2
    have hnq : 18446744073709551616 ≤ p / 1000000000000 := by omega
    rw [if_neg hc]
    simp [hnq]

/-- The group fee rule: accepted iff the fees paid cover minFee·usage/10⁶ rounded UP (equivalently
paid·10⁶ ≥ minFee·usage); a required fee that does not fit in 64 bits is rejected. -/
theorem fee_check_iff (paid usage minFee : Nat) (hp : paid < 2^64) (hu : usage < 2^64) (hm : minFee < 2^64) :
    CheckGroupFees paid usage minFee = false ↔ minFee * usage ≤ paid * 1000000 := by
  unfold CheckGroupFees MicroAlgos_LessThan
  rw [fee_for_usage_exact minFee usage 1000000 0 hm hu (by decide) (by decide)]
  unfold Spec.Arith.feeForUsage
  simp only [M64_eq, Spec.Arith.MAX64] at *
  unfold M64 at *
  have hx : minFee * usage * 1000000 / 1000000000000 = minFee * usage / 1000000 := by
    generalize minFee * usage = x; omega
  have hy : minFee * usage * 1000000 % 1000000000000 = (minFee * usage % 1000000) * 1000000 := by
    generalize minFee * usage = x; omega
  rw [hx, hy]
  generalize minFee * usage = x
  by_cases hq : 18446744073709551616 ≤ x / 1000000
  · simp only [hq, if_true]; constructor
    · intro h; cases h
    · intro h; omega
  · simp only [hq, if_false]
    by_cases h1 : x % 1000000 * 1000000 ≤ 0
    · simp only [h1, if_true, Bool.false_eq_true, if_false]
      by_cases h2 : paid < x / 1000000
      · simp only [h2, decide_true, if_true]; constructor
        · intro h; cases h
        · intro h; omega
      · simp only [h2, decide_false, Bool.false_eq_true, if_false]; constructor
        · intro _; omega
        · intro _; trivial
    · simp only [h1, if_false]
      by_cases hmax : x / 1000000 = 18446744073709551615
      · simp only [hmax, if_true]; constructor
        · intro h; cases h
        · intro h; omega
      · simp only [hmax, if_false, Bool.false_eq_true]
        by_cases h2 : paid < x / 1000000 + 1
        · simp only [h2, decide_true, if_true]; constructor
          · intro h; cases h
          · intro h; omega
        · simp only [h2, decide_false, Bool.false_eq_true, if_false]; constructor
          · intro _; omega
          · intro _; trivial

/-! ### Proposer payout (hand-written composition of regenerated helpers, after eval.go:proposerPayout)

    incentive, _ := NewPercent(pct).DivvyAlgos(feesCollected)
    total, o     := OAddA(incentive, bonus);  if o → error
    available    := sinkBalance −sat MinBalance(sink)          (AccountData.AvailableBalance)
    return MinA(total, available)
-/
theorem payout_exact (pct fees bonus sinkBal sinkMin : Nat) (hpct : pct ≤ 100)
    (hf : fees < 2^64) (hb : bonus < 2^64) (hs : sinkBal < 2^64) (hm : sinkMin < 2^64)
    (hno : fees * pct / 100 + bonus < 2^64) :
    proposerPayout pct fees bonus sinkBal sinkMin = some (min (fees * pct / 100 + bonus) (sinkBal - sinkMin)) := by
  unfold proposerPayout NewPercent NewFraction Fraction_DivvyAlgos
  have h100 : ¬ (100 = 0) := by decide
  have hgt : ¬ pct > 100 := by omega
  simp only [h100, decide_false, Bool.false_eq_true, if_false, hgt]
  rw [divvy_sum pct 100 fees hpct (by decide) (by decide) hf]
  simp only []
  have hinc : fees * pct / 100 < 2^64 := by omega
  unfold OAddA OSubA
  rw [oadd_exact 64 _ _ hinc hb, osub_exact 64 sinkBal sinkMin hs hm]
  have hnov : ¬ 2^64 ≤ fees * pct / 100 + bonus := by omega
  simp only [hnov, decide_false, Bool.false_eq_true, if_false, Nat.mod_eq_of_lt hno]
  unfold MinA
  by_cases hle : sinkMin ≤ sinkBal
  · have : ¬ sinkBal < sinkMin := by omega
    simp only [hle, if_true, this, decide_false, Bool.not_false]
    by_cases hlt : fees * pct / 100 + bonus < sinkBal - sinkMin
    · simp [hlt]; omega
    · simp [hlt]; omega
  · have h2 : sinkBal < sinkMin := by omega
    have h3 : sinkBal - sinkMin = 0 := by omega
    simp only [hle, if_false, h2, decide_true, Bool.not_true, Bool.false_eq_true, h3]
    simp

/-- C24 payout bound: whatever is paid never exceeds the fee percentage plus the bonus, nor what the fee
sink holds above its own minimum balance. -/
theorem payout_bound (pct fees bonus sinkBal sinkMin p : Nat) (hpct : pct ≤ 100)
    (hf : fees < 2^64) (hb : bonus < 2^64) (hs : sinkBal < 2^64) (hm : sinkMin < 2^64)
    (hno : fees * pct / 100 + bonus < 2^64)
    (h : proposerPayout pct fees bonus sinkBal sinkMin = some p) :
    p ≤ fees * pct / 100 + bonus ∧ p ≤ sinkBal - sinkMin := by
  rw [payout_exact pct fees bonus sinkBal sinkMin hpct hf hb hs hm hno] at h
  injection h with h; subst h
  exact ⟨Nat.min_le_left _ _, Nat.min_le_right _ _⟩

/-- a header claiming more than the bound is rejected -/
theorem payout_rejected (claimed pct fees bonus sinkBal sinkMin : Nat) (hpct : pct ≤ 100)
    (hf : fees < 2^64) (hb : bonus < 2^64) (hs : sinkBal < 2^64) (hm : sinkMin < 2^64)
    (hno : fees * pct / 100 + bonus < 2^64)
    (hbig : claimed > min (fees * pct / 100 + bonus) (sinkBal - sinkMin)) :
    payoutAccepted claimed pct fees bonus sinkBal sinkMin = false := by
  unfold payoutAccepted
  rw [payout_exact pct fees bonus sinkBal sinkMin hpct hf hb hs hm hno]
  simp; omega

/-- block load is a fraction in [0, 10⁶] -/
theorem compute_load_bounded (blockSize maxSize : Int)
    (h1 : 0 ≤ blockSize) (h2 : blockSize < 9223372036854775808) (h3 : 0 ≤ maxSize) (h4 : maxSize < 9223372036854775808) :
    ComputeLoad blockSize maxSize ≤ 1000000 := by
  unfold ComputeLoad
  split
  rename_i load o _
  split
  · exact Nat.le_refl _
  · exact Nat.min_le_right _ _

/-! The same statements against `Spec.Fees` (what the correspondence driver evaluates). -/
theorem fee_check_spec (paid usage minFee : Nat) (hp : paid < 2^64) (hu : usage < 2^64) (hm : minFee < 2^64) :
    (!CheckGroupFees paid usage minFee) = Spec.Fees.feeOk paid usage minFee := by
  unfold Spec.Fees.feeOk
  have := fee_check_iff paid usage minFee hp hu hm
  by_cases h : minFee * usage ≤ paid * 1000000
  · simp [this.mpr h, h]
  · have : CheckGroupFees paid usage minFee = true := by
      cases hc : CheckGroupFees paid usage minFee
      · exact absurd (this.mp hc) h
      · rfl
    simp [this, h]

theorem payout_spec (pct fees bonus sinkBal sinkMin : Nat) (hpct : pct ≤ 100)
    (hf : fees < 2^64) (hb : bonus < 2^64) (hs : sinkBal < 2^64) (hm : sinkMin < 2^64)
    (hno : fees * pct / 100 + bonus < 2^64) :
    proposerPayout pct fees bonus sinkBal sinkMin = Spec.Fees.payout pct fees bonus sinkBal sinkMin := by
  rw [payout_exact pct fees bonus sinkBal sinkMin hpct hf hb hs hm hno]
  unfold Spec.Fees.payout
  have : fees * pct / 100 + bonus < Spec.Fees.M := by
    have e : (2:Nat)^64 = Spec.Fees.M := by decide
    rw [← e]; exact hno
  rw [if_pos this]

-- Non-vacuity
example : CheckGroupFees 1000 1000000 1000 = false := by decide
example : CheckGroupFees 999 1000000 1000 = true := by decide
example : CheckGroupFees 1001 1000001 1000 = false := by decide     -- 1000.001 rounds up to 1001
example : CheckGroupFees 1000 1000001 1000 = true := by decide
example : proposerPayout 50 1000 5000000 100500 100000 = some 500 := by decide
example : proposerPayout 50 1000 7 100000000 100000 = some 507 := by decide

end Props.C24
