/-
C16 — Catchpoint catchup reproduces the source state and rejects tampering.

Model: AlgoVerif/Model/CatchpointFile.lean — `file s r` (what catchpointFileWriter + repackCatchpoint produce for a state), `restore`
(ProcessStagingBalances for every tar entry incl. the sequencing / resource-count checks and the unique constraints of the staging
tables, BuildMerkleTrie, GetVerifyData, VerifyCatchpoint's label comparison).  `splitChecked = false` is the code before the repair
(the staging table keeps the account data of the FIRST record of an account), `true` the repaired code (continuation records must
repeat the account data); the check selects the variant from what the real accessor does on the same run.

  * `restore_file_partial`     restore (file s r) = ok st with st = s on accounts, resources, kv, online accounts, online round params,
                               totals, and the label recomputed from st is the producer's label (so verification passes).
                               PARTIAL because the well-formedness of the producer's state is stated operationally: `hw` — the rows
                               of s can be inserted into empty staging tables (= the unique keys of accountbase / resources /
                               kvstore / … ) — besides distinct addresses, per-account resource counts equal to the account's
                               totals, and no repeated leaf (`hnd`, fails exactly for a state holding a kv boundary-shift pair: such a
                               catchpoint cannot be restored at all).
  * `tamper_rejected_partial`  if ANY file is accepted against the source label (same label version), then block round, totals,
                               the three verification digests and the LEAF MULTISET of the restored trie are the source's.
                               Contrapositive: a file that decodes to different leaves / totals / verification data fails
                               VerifyCatchpoint.  Hypotheses (local, on the two label computations): `hRender` the rendering
                               round#base32(digest) determines round and digest, `hL` the label hash does not collide on the two
                               buffers, `hRoot` the trie root of the two leaf lists commits to the leaf multiset, 32-byte digests.
                               From equal leaf multisets to equal row contents: Props.C15.state_label_inj_partial (no collision of
                               the truncated hash, no kv boundary-shift pair).
  * `accept_iff_of_same_verify`, `kv_shift_accepted`, `split_account_accepted`
                               two files that stage the same hashes / totals / verification rows are accepted or rejected together,
                               whatever else they stage; witnesses: (1) the kv boundary shift (every variant; known finding F2):
                               box "ab"="c" vs box "a"="bc" — same leaves, different stored box; (2) for `splitChecked = false`:
                               a forged leading record {A, D', more = true} before the honest record of A — same leaves, the staging
                               table holds D'.  `split_account_rejected`: with `splitChecked = true` that file is rejected.
Not proved: that the stored rows are exactly the hashed rows for `splitChecked = true` (tied on every run: the model and the real
accessor agree on all mutations); injectivity of the label rendering (`hRender`); cross-version separation of the label buffers
(a downgraded header needs prefix-freeness of the totals encoding).
-/
import AlgoVerif.Model.CatchpointFile
import AlgoVerif.Props.C15
namespace Props.C16
open Model.CatchpointHash Model.MerkleTrie Model.Catchpoint Model.CatchpointFile

/-! ### folds -/

theorem foldOpt_append {α β : Type} (f : α → β → Option α) (a : α) (l₁ l₂ : List β) :
    foldOpt f a (l₁ ++ l₂) = (foldOpt f a l₁).bind fun a' => foldOpt f a' l₂ := by
  induction l₁ generalizing a with
  | nil => simp [foldOpt]
  | cons b bs ih =>
    simp only [List.cons_append, foldOpt]
    cases f a b with
    | none => rfl
    | some a' => simpa using ih a'

/-- the fields the staging writers never touch -/
structure SameCtl (st st' : Staging) : Prop where
  seenHeader : st'.seenHeader = st.seenHeader
  ver : st'.ver = st.ver
  blocksRound : st'.blocksRound = st.blocksRound
  totals : st'.totals = st.totals
  spEnc : st'.spEnc = st.spEnc
  expecting : st'.expecting = st.expecting
  cnt : st'.cnt = st.cnt

theorem SameCtl.refl (st : Staging) : SameCtl st st := ⟨rfl, rfl, rfl, rfl, rfl, rfl, rfl⟩

theorem SameCtl.trans {a b c : Staging} (h₁ : SameCtl a b) (h₂ : SameCtl b c) : SameCtl a c :=
  ⟨h₂.seenHeader.trans h₁.seenHeader, h₂.ver.trans h₁.ver, h₂.blocksRound.trans h₁.blocksRound, h₂.totals.trans h₁.totals,
   h₂.spEnc.trans h₁.spEnc, h₂.expecting.trans h₁.expecting, h₂.cnt.trans h₁.cnt⟩

theorem writeRec_ctl {H : Bytes → Bytes} {st st' : Staging} {r : Rec} (h : writeRec H st r = some st') : SameCtl st st' := by
  cases r with
  | acct a =>
    simp only [writeRec, writeAcct] at h
    cases h1 : acctHashes H a with
    | none => simp [h1] at h
    | some hs =>
      cases h2 : foldOpt (insertRes a.addr) st.res a.res with
      | none => simp [h1, h2] at h
      | some res =>
        cases h3 : foldOpt insertCreatable st.creatables a.res with
        | none => simp [h1, h2, h3] at h
        | some cr =>
          simp only [h1, h2, h3, Option.bind_some, Option.map_some, Option.some.injEq] at h
          subst h
          exact ⟨rfl, rfl, rfl, rfl, rfl, rfl, rfl⟩
  | kv k v =>
    simp only [writeRec] at h
    split at h
    · cases h
    · cases h; exact ⟨rfl, rfl, rfl, rfl, rfl, rfl, rfl⟩
  | oa a u e =>
    simp only [writeRec] at h
    split at h
    · cases h
    · cases h; exact ⟨rfl, rfl, rfl, rfl, rfl, rfl, rfl⟩
  | orp rn e =>
    simp only [writeRec] at h
    split at h
    · cases h
    · cases h; exact ⟨rfl, rfl, rfl, rfl, rfl, rfl, rfl⟩

theorem writeRecs_ctl {H : Bytes → Bytes} : ∀ (recs : List Rec) {st st' : Staging},
    foldOpt (writeRec H) st recs = some st' → SameCtl st st'
  | [], st, st', h => by simp only [foldOpt, Option.some.injEq] at h; subst h; exact SameCtl.refl _
  | r :: rs, st, st', h => by
    simp only [foldOpt] at h
    cases h1 : writeRec H st r with
    | none => simp [h1] at h
    | some st1 =>
      simp only [h1, Option.bind_some] at h
      exact (writeRec_ctl h1).trans (writeRecs_ctl rs h)

/-! ### the producer's state -/

def countsOK (a : AcctRec) : Prop :=
  let c := a.res.foldl addCounts {}
  c.appParams = a.totalAppParams ∧ c.appLocalStates = a.totalAppLocalStates ∧
    c.assetParams = a.totalAssetParams ∧ c.assets = a.totalAssets

/-- a record that passes the sequencing / counting loop without leaving a trace -/
def Neutral (r : Rec) : Prop :=
  match r with
  | .acct a => a.more = false ∧ countsOK a
  | _ => True

theorem checkRecs_neutral (sc : Bool) : ∀ (recs : List Rec) (st : Staging), (∀ r ∈ recs, Neutral r) →
    st.expecting = none → st.cnt = {} → foldOpt (checkRec sc) st recs = some st
  | [], _, _, _, _ => rfl
  | r :: rs, st, hn, he, hc => by
    have hr := hn r (List.mem_cons_self ..)
    have hst : checkRec sc st r = some st := by
      cases r with
      | acct a =>
        obtain ⟨hm, hcnt⟩ := hr
        simp only [checkRec, checkAcct, he, hc, hm]
        unfold countsOK at hcnt
        simp only at hcnt
        simp only [Bool.not_true, Bool.false_eq_true, if_false, hcnt, and_self, if_true]
        cases st
        simp_all
      | kv _ _ => rfl
      | oa _ _ _ => rfl
      | orp _ _ => rfl
    simp only [foldOpt, hst, Option.bind_some]
    exact checkRecs_neutral sc rs st (fun r hr => hn r (List.mem_cons_of_mem _ hr)) he hc

/-- one chunk of neutral records = the staging writers on them -/
theorem process_chunk_neutral (H : Bytes → Bytes) (sc : Bool) (st : Staging) (recs : List Rec) (rest : File)
    (hh : st.seenHeader = true) (hv : st.ver = verV8) (he : st.expecting = none) (hc : st.cnt = {})
    (hn : ∀ r ∈ recs, Neutral r) :
    foldOpt (processSection H sc) st (nonEmptyChunk recs ++ rest) =
      (foldOpt (writeRec H) st recs).bind fun st' => foldOpt (processSection H sc) st' rest := by
  unfold nonEmptyChunk
  cases recs with
  | nil => simp [foldOpt]
  | cons r rs =>
    simp only [List.isEmpty_cons, Bool.false_eq_true, if_false, List.cons_append, List.nil_append, foldOpt, processSection, hh, hv,
      Bool.not_true]
    have hv5 : (verV8 == verV5) = false := by decide
    rw [hv5]
    simp only [Bool.false_eq_true, if_false]
    have := checkRecs_neutral sc (r :: rs) st hn he hc
    simp only [foldOpt] at this
    rw [this]
    simp only [Option.bind_some]

def acctRecs (s : State) : List Rec := s.accounts.map Rec.acct
def kvRecs (s : State) : List Rec := s.kvs.map fun x => Rec.kv x.1 x.2
def oaRecs (s : State) : List Rec := s.oas.map fun x => Rec.oa x.1.1 x.1.2 x.2
def orpRecs (s : State) : List Rec := s.orps.map fun x => Rec.orp x.1 x.2
def allRecs (s : State) : List Rec := acctRecs s ++ kvRecs s ++ oaRecs s ++ orpRecs s

/-- the staging state after the header and the state-proof section of `file s r` -/
def baseStaging (s : State) (r : Nat) : Staging :=
  { seenHeader := true, ver := verV8, blocksRound := r, totals := s.totals,
    spEnc := if s.spN = 0 then none else some s.spEnc }

theorem process_file (H : Bytes → Bytes) (sc : Bool) (s : State) (r : Nat)
    (hc : ∀ a ∈ s.accounts, a.more = false ∧ countsOK a) :
    foldOpt (processSection H sc) {} (file s r) = foldOpt (writeRec H) (baseStaging s r) (allRecs s) := by
  have hsup : supported verV8 = true := by decide
  have hhead : foldOpt (processSection H sc) {} (file s r) =
      foldOpt (processSection H sc) (baseStaging s r)
        (nonEmptyChunk (acctRecs s) ++ (nonEmptyChunk (kvRecs s) ++ (nonEmptyChunk (oaRecs s) ++ (nonEmptyChunk (orpRecs s) ++ [])))) := by
    unfold file baseStaging acctRecs kvRecs oaRecs orpRecs
    simp only [List.cons_append, List.nil_append, List.append_assoc, List.append_nil, foldOpt, processSection, hsup,
      Bool.not_true, Bool.or_false, Bool.false_eq_true, if_false, Option.bind_some]
    by_cases hn : s.spN = 0
    · simp [hn]
    · simp [hn]
  rw [hhead]
  have neutA : ∀ r ∈ acctRecs s, Neutral r := by
    intro r hr
    obtain ⟨a, ha, rfl⟩ := List.mem_map.1 hr
    exact hc a ha
  have neutK : ∀ r ∈ kvRecs s, Neutral r := by
    intro r hr; obtain ⟨x, _, rfl⟩ := List.mem_map.1 hr; trivial
  have neutO : ∀ r ∈ oaRecs s, Neutral r := by
    intro r hr; obtain ⟨x, _, rfl⟩ := List.mem_map.1 hr; trivial
  have neutP : ∀ r ∈ orpRecs s, Neutral r := by
    intro r hr; obtain ⟨x, _, rfl⟩ := List.mem_map.1 hr; trivial
  -- peel the four chunks; the control fields never change
  have peel : ∀ (st : Staging) (recs : List Rec) (rest : File), SameCtl (baseStaging s r) st → (∀ r ∈ recs, Neutral r) →
      foldOpt (processSection H sc) st (nonEmptyChunk recs ++ rest) =
        (foldOpt (writeRec H) st recs).bind fun st' => foldOpt (processSection H sc) st' rest := by
    intro st recs rest hctl hn
    exact process_chunk_neutral H sc st recs rest (hctl.seenHeader.trans rfl) (hctl.ver.trans rfl) (hctl.expecting.trans rfl)
      (hctl.cnt.trans rfl) hn
  unfold allRecs
  rw [peel _ _ _ (SameCtl.refl _) neutA, foldOpt_append, foldOpt_append, foldOpt_append]
  cases h1 : foldOpt (writeRec H) (baseStaging s r) (acctRecs s) with
  | none => rfl
  | some st1 =>
    have c1 := writeRecs_ctl _ h1
    simp only [Option.bind_some]
    rw [peel _ _ _ c1 neutK]
    cases h2 : foldOpt (writeRec H) st1 (kvRecs s) with
    | none => rfl
    | some st2 =>
      have c2 := c1.trans (writeRecs_ctl _ h2)
      simp only [Option.bind_some]
      rw [peel _ _ _ c2 neutO]
      cases h3 : foldOpt (writeRec H) st2 (oaRecs s) with
      | none => rfl
      | some st3 =>
        have c3 := c2.trans (writeRecs_ctl _ h3)
        simp only [Option.bind_some]
        rw [peel _ _ _ c3 neutP]
        cases h4 : foldOpt (writeRec H) st3 (orpRecs s) with
        | none => rfl
        | some st4 => simp [foldOpt]

/-! ### what the staging writers store -/

def acctRows (as : List AcctRec) : List (Bytes × Bytes) := as.map fun a => (a.addr, a.enc)
def resRows (as : List AcctRec) : List ((Bytes × Nat) × Bytes) :=
  as.flatMap fun a => a.res.map fun r => ((a.addr, r.cidx), r.enc)

theorem insertRes_rows (addr : Bytes) : ∀ (rs : List ResRec) {tbl tbl' : List ((Bytes × Nat) × Bytes)},
    foldOpt (insertRes addr) tbl rs = some tbl' → tbl' = tbl ++ rs.map fun r => ((addr, r.cidx), r.enc)
  | [], tbl, tbl', h => by simp only [foldOpt, Option.some.injEq] at h; simp [h]
  | r :: rs, tbl, tbl', h => by
    simp only [foldOpt, insertRes] at h
    split at h
    · cases h
    · simp only [Option.bind_some] at h
      rw [insertRes_rows addr rs h]
      simp

/-- accounts: with addresses not yet in the table and pairwise distinct, every account's row, resources and hashes are appended -/
theorem writeAccts_rows {H : Bytes → Bytes} : ∀ (as : List AcctRec) {st st' : Staging},
    foldOpt (writeRec H) st (as.map Rec.acct) = some st' →
    (∀ a ∈ as, ∀ x ∈ st.accts, x.1 ≠ a.addr) → (as.map (·.addr)).Nodup →
    ∃ hs, foldOpt (fun acc a => (acctHashes H a).map (acc ++ ·)) [] as = some hs ∧
      st'.accts = st.accts ++ acctRows as ∧ st'.res = st.res ++ resRows as ∧ st'.hashes = st.hashes ++ hs ∧
      st'.kvs = st.kvs ∧ st'.oas = st.oas ∧ st'.orps = st.orps
  | [], st, st', h, _, _ => by
    simp only [List.map_nil, foldOpt, Option.some.injEq] at h
    subst h
    exact ⟨[], rfl, by simp [acctRows], by simp [resRows], by simp, rfl, rfl, rfl⟩
  | a :: as, st, st', h, hfresh, hnd => by
    simp only [List.map_cons, foldOpt, writeRec, writeAcct] at h
    cases h1 : acctHashes H a with
    | none => simp [h1] at h
    | some hs1 =>
      cases h2 : foldOpt (insertRes a.addr) st.res a.res with
      | none => simp [h1, h2] at h
      | some res =>
        cases h3 : foldOpt insertCreatable st.creatables a.res with
        | none => simp [h1, h2, h3] at h
        | some cr =>
          simp only [h1, h2, h3, Option.bind_some, Option.map_some] at h
          have hnew : (st.accts.any fun x => x.1 == a.addr) = false := by
            rw [List.any_eq_false]
            intro x hx
            simpa using hfresh a (List.mem_cons_self ..) x hx
          rw [hnew] at h
          simp only [Bool.false_eq_true, if_false] at h
          have hnd2 : (a.addr :: as.map (·.addr)).Nodup := hnd
          obtain ⟨ha, hnd'⟩ := List.nodup_cons.1 hnd2
          have hfresh' : ∀ b ∈ as, ∀ x ∈ st.accts ++ [(a.addr, a.enc)], x.1 ≠ b.addr := by
            intro b hb x hx
            rcases List.mem_append.1 hx with hx | hx
            · exact hfresh b (List.mem_cons_of_mem _ hb) x hx
            · simp only [List.mem_singleton] at hx
              subst hx
              intro e
              exact ha (List.mem_map.2 ⟨b, hb, e.symm⟩)
          obtain ⟨hs, hhs, e1, e2, e3, e4, e5, e6⟩ := writeAccts_rows as h hfresh' hnd'
          have hres := insertRes_rows a.addr a.res h2
          refine ⟨hs1 ++ hs, ?_, ?_, ?_, ?_, e4, e5, e6⟩
          · simp only [foldOpt, h1, Option.map_some, List.nil_append, Option.bind_some]
            -- the accumulator only prefixes
            have acc : ∀ (l : List AcctRec) (p q : List Bytes),
                foldOpt (fun acc a => (acctHashes H a).map (acc ++ ·)) (p ++ q) l =
                  (foldOpt (fun acc a => (acctHashes H a).map (acc ++ ·)) q l).map (p ++ ·) := by
              intro l
              induction l with
              | nil => intro p q; simp [foldOpt]
              | cons b bs ih =>
                intro p q
                simp only [foldOpt]
                cases acctHashes H b with
                | none => rfl
                | some hb =>
                  simp only [Option.map_some, Option.bind_some]
                  rw [List.append_assoc, ih p (q ++ hb)]
            have := acc as hs1 []
            simp only [List.append_nil] at this
            rw [this, hhs]
            rfl
          · rw [e1]; simp [acctRows]
          · rw [e2, hres]; simp [resRows]
          · rw [e3]; simp

theorem writeKvs_rows {H : Bytes → Bytes} : ∀ (kvs : List (Bytes × Bytes)) {st st' : Staging},
    foldOpt (writeRec H) st (kvs.map fun x => Rec.kv x.1 x.2) = some st' →
    st'.kvs = st.kvs ++ kvs ∧ st'.hashes = st.hashes ++ kvs.map (fun x => kvLeaf H x.1 x.2) ∧
      st'.accts = st.accts ∧ st'.res = st.res ∧ st'.oas = st.oas ∧ st'.orps = st.orps
  | [], st, st', h => by
    simp only [List.map_nil, foldOpt, Option.some.injEq] at h; subst h; simp
  | x :: xs, st, st', h => by
    simp only [List.map_cons, foldOpt, writeRec] at h
    split at h
    · cases h
    · simp only [Option.bind_some] at h
      obtain ⟨e1, e2, e3, e4, e5, e6⟩ := writeKvs_rows xs h
      exact ⟨by rw [e1]; simp, by rw [e2]; simp, e3, e4, e5, e6⟩

theorem writeOas_rows {H : Bytes → Bytes} : ∀ (oas : List ((Bytes × Nat) × Bytes)) {st st' : Staging},
    foldOpt (writeRec H) st (oas.map fun x => Rec.oa x.1.1 x.1.2 x.2) = some st' →
    st'.oas = st.oas ++ oas ∧ st'.hashes = st.hashes ∧ st'.accts = st.accts ∧ st'.res = st.res ∧ st'.kvs = st.kvs ∧
      st'.orps = st.orps
  | [], st, st', h => by
    simp only [List.map_nil, foldOpt, Option.some.injEq] at h; subst h; simp
  | x :: xs, st, st', h => by
    simp only [List.map_cons, foldOpt, writeRec] at h
    split at h
    · cases h
    · simp only [Option.bind_some] at h
      obtain ⟨e1, e2, e3, e4, e5, e6⟩ := writeOas_rows xs h
      exact ⟨by rw [e1]; simp, e2, e3, e4, e5, e6⟩

theorem writeOrps_rows {H : Bytes → Bytes} : ∀ (orps : List (Nat × Bytes)) {st st' : Staging},
    foldOpt (writeRec H) st (orps.map fun x => Rec.orp x.1 x.2) = some st' →
    st'.orps = st.orps ++ orps ∧ st'.hashes = st.hashes ∧ st'.accts = st.accts ∧ st'.res = st.res ∧ st'.kvs = st.kvs ∧
      st'.oas = st.oas
  | [], st, st', h => by
    simp only [List.map_nil, foldOpt, Option.some.injEq] at h; subst h; simp
  | x :: xs, st, st', h => by
    simp only [List.map_cons, foldOpt, writeRec] at h
    split at h
    · cases h
    · simp only [Option.bind_some] at h
      obtain ⟨e1, e2, e3, e4, e5, e6⟩ := writeOrps_rows xs h
      exact ⟨by rw [e1]; simp, e2, e3, e4, e5, e6⟩

/-- **restore (file s) reproduces s and its label.** -/
theorem restore_file_partial (H : Bytes → Bytes) (sc : Bool) (s : State) (r : Nat) (bd0 : Bytes) (blockDigest : Nat → Option Bytes)
    (hbd : blockDigest r = some bd0)
    (hc : ∀ a ∈ s.accounts, a.more = false ∧ countsOK a)
    (hAddr : (s.accounts.map (·.addr)).Nodup)
    {stw : Staging} (hw : foldOpt (writeRec H) (baseStaging s r) (allRecs s) = some stw)
    (hnd : hasDup stw.hashes = false) :
    ∃ label, stateLabel H s r bd0 = some label ∧
      restore H sc blockDigest label (file s r) = .ok stw ∧
      stw.accts = acctRows s.accounts ∧ stw.res = resRows s.accounts ∧ stw.kvs = s.kvs ∧ stw.oas = s.oas ∧ stw.orps = s.orps ∧
      stw.totals = s.totals ∧ stw.blocksRound = r := by
  -- split the writer pass
  unfold allRecs at hw
  rw [foldOpt_append, foldOpt_append, foldOpt_append] at hw
  cases h1 : foldOpt (writeRec H) (baseStaging s r) (acctRecs s) with
  | none => simp [h1] at hw
  | some st1 =>
    simp only [h1, Option.bind_some] at hw
    cases h2 : foldOpt (writeRec H) st1 (kvRecs s) with
    | none => simp [h2] at hw
    | some st2 =>
      simp only [h2, Option.bind_some] at hw
      cases h3 : foldOpt (writeRec H) st2 (oaRecs s) with
      | none => simp [h3] at hw
      | some st3 =>
        simp only [h3, Option.bind_some] at hw
        obtain ⟨hs, hhs, a1, a2, a3, a4, a5, a6⟩ := writeAccts_rows s.accounts h1 (by intro a _ x hx; simp [baseStaging] at hx) hAddr
        obtain ⟨k1, k2, k3, k4, k5, k6⟩ := writeKvs_rows s.kvs h2
        obtain ⟨o1, o2, o3, o4, o5, o6⟩ := writeOas_rows s.oas h3
        obtain ⟨p1, p2, p3, p4, p5, p6⟩ := writeOrps_rows s.orps hw
        have ctl : SameCtl (baseStaging s r) stw :=
          ((writeRecs_ctl _ h1).trans (writeRecs_ctl _ h2)).trans ((writeRecs_ctl _ h3).trans (writeRecs_ctl _ hw))
        have eAccts : stw.accts = acctRows s.accounts := by rw [p3, o3, k3, a1]; simp [baseStaging]
        have eRes : stw.res = resRows s.accounts := by rw [p4, o4, k4, a2]; simp [baseStaging]
        have eKvs : stw.kvs = s.kvs := by rw [p5, o5, k1, a4]; simp [baseStaging]
        have eOas : stw.oas = s.oas := by rw [p6, o1, k5, a5]; simp [baseStaging]
        have eOrps : stw.orps = s.orps := by rw [p1, o6, k6, a6]; simp [baseStaging]
        have eHashes : stw.hashes = hs ++ s.kvs.map (fun x => kvLeaf H x.1 x.2) := by
          rw [p2, o2, k2, a3]; simp [baseStaging]
        have eState : stateHashes H s = some stw.hashes := by
          unfold stateHashes
          rw [hhs, eHashes]
          rfl
        refine ⟨_, by unfold stateLabel; rw [eState]; rfl, ?_, eAccts, eRes, eKvs, eOas, eOrps, ctl.totals.trans rfl,
          ctl.blocksRound.trans rfl⟩
        have hproc : foldOpt (processSection H sc) {} (file s r) = some stw := by
          rw [process_file H sc s r hc]
          unfold allRecs
          rw [foldOpt_append, foldOpt_append, foldOpt_append, h1]
          simp only [Option.bind_some, h2, h3, hw]
        unfold restore
        rw [hproc]
        simp only [buildRoot, hnd, Bool.false_eq_true, if_false, ctl.blocksRound.trans rfl, baseStaging, hbd]
        have hlabel : restoredLabel H stw (verifyData H stw (canonRoot H stw.hashes)) bd0 =
            restoredLabel H
              { ver := verV8, blocksRound := r, totals := s.totals, spEnc := if s.spN = 0 then none else some s.spEnc,
                oas := s.oas, orps := s.orps }
              (verifyData H
                { ver := verV8, blocksRound := r, totals := s.totals, spEnc := if s.spN = 0 then none else some s.spEnc,
                  oas := s.oas, orps := s.orps }
                (canonRoot H stw.hashes)) bd0 := by
          unfold restoredLabel verifyData
          simp only [ctl.ver.trans rfl, ctl.blocksRound.trans rfl, ctl.totals.trans rfl, ctl.spEnc.trans rfl, eOas, eOrps, baseStaging]
        rw [if_pos hlabel]

/-! ### tampering -/

/-- the label parts VerifyCatchpoint hashes for a staged state -/
def partsOf (vd : VerifyData) (bd : Bytes) : LabelParts := ⟨bd, vd.root, vd.totals, vd.sp, vd.oa, vd.orp⟩

theorem restoredLabel_eq (H : Bytes → Bytes) (st : Staging) (vd : VerifyData) (bd : Bytes) :
    restoredLabel H st vd bd = makeLabel H (labelVer st.ver) st.blocksRound (partsOf vd bd) := rfl

/-- **A file accepted against the source label stages the source's leaves, totals and verification data.**
`s`, `r`, `bd0`: the producer's state, catchpoint round and block digest; `hs0` its leaves.  Any file `f'`, any variant. -/
theorem tamper_rejected_partial (H : Bytes → Bytes) (sc : Bool) (blockDigest : Nat → Option Bytes)
    (s : State) (r : Nat) (bd0 : Bytes) (hs0 : List Bytes) (hst : stateHashes H s = some hs0)
    (label : String) (hlabel : stateLabel H s r bd0 = some label)
    (f' : File) (st : Staging) (hok : restore H sc blockDigest label f' = .ok st) (hver : st.ver = verV8)
    -- the two label computations
    (src : VerifyData) (hsrc : src = verifyData H
        { ver := verV8, blocksRound := r, totals := s.totals, spEnc := if s.spN = 0 then none else some s.spEnc,
          oas := s.oas, orps := s.orps } (canonRoot H hs0))
    (hRender : ∀ bd, makeLabel H 8 st.blocksRound (partsOf (verifyData H st (canonRoot H st.hashes)) bd) = makeLabel H 8 r (partsOf src bd0) →
      st.blocksRound = r ∧ H (buffer 8 (partsOf (verifyData H st (canonRoot H st.hashes)) bd)) = H (buffer 8 (partsOf src bd0)))
    (hL : ∀ bd, H (buffer 8 (partsOf (verifyData H st (canonRoot H st.hashes)) bd)) = H (buffer 8 (partsOf src bd0)) →
      buffer 8 (partsOf (verifyData H st (canonRoot H st.hashes)) bd) = buffer 8 (partsOf src bd0))
    (hRoot : canonRoot H st.hashes = canonRoot H hs0 → st.hashes.Perm hs0)
    (hlen : ∀ x, (H x).length = 32) (hrl : ∀ l, (canonRoot H l).length = 32) (hbl : bd0.length = 32)
    (hbl' : ∀ b, blockDigest st.blocksRound = some b → b.length = 32) :
    st.blocksRound = r ∧ st.totals = s.totals ∧
      (verifyData H st (canonRoot H st.hashes)).sp = src.sp ∧ (verifyData H st (canonRoot H st.hashes)).oa = src.oa ∧
      (verifyData H st (canonRoot H st.hashes)).orp = src.orp ∧ st.hashes.Perm hs0 := by
  unfold restore at hok
  cases hp : foldOpt (processSection H sc) {} f' with
  | none => simp [hp] at hok
  | some st1 =>
    simp only [hp] at hok
    cases hb : buildRoot H st1 with
    | none => simp [hb] at hok
    | some root =>
      simp only [hb] at hok
      cases hd : blockDigest st1.blocksRound with
      | none => simp [hd] at hok
      | some bd =>
        simp only [hd] at hok
        split at hok
        · rename_i heq
          cases hok
          have hroot : root = canonRoot H st.hashes := by
            unfold buildRoot at hb
            split at hb
            · cases hb
            · exact (Option.some.inj hb).symm
          subst hroot
          -- the source label, unfolded
          have hsl : label = makeLabel H 8 r (partsOf src bd0) := by
            unfold stateLabel at hlabel
            rw [hst] at hlabel
            simp only [Option.map_some, Option.some.injEq] at hlabel
            rw [← hlabel, hsrc, restoredLabel_eq]
            rfl
          rw [restoredLabel_eq, hsl, hver] at heq
          have hv8 : labelVer verV8 = 8 := by decide
          rw [hv8] at heq
          obtain ⟨hr, hdig⟩ := hRender bd heq
          have hbuf := hL bd hdig
          have wf1 : (partsOf (verifyData H st (canonRoot H st.hashes)) bd).WF := by
            refine ⟨hbl' bd hd, hrl _, hlen _, hlen _, hlen _⟩
          have wf2 : (partsOf src bd0).WF := by
            subst hsrc
            exact ⟨hbl, hrl _, hlen _, hlen _, hlen _⟩
          have hparts := Props.C15.label_buffer_inj wf1 wf2 (by simpa [buffer] using hbuf)
          have e := congrArg LabelParts.balancesRoot hparts
          have et := congrArg LabelParts.totals hparts
          have esp := congrArg LabelParts.spVerificationHash hparts
          have eoa := congrArg LabelParts.onlineAccountsHash hparts
          have eorp := congrArg LabelParts.onlineRoundParamsHash hparts
          simp only [partsOf] at e et esp eoa eorp
          refine ⟨hr, ?_, esp, eoa, eorp, hRoot ?_⟩
          · rw [hsrc] at et; simpa [verifyData] using et
          · rw [hsrc] at e; simpa [verifyData] using e
        · cases hok

/-- two files that stage the same hashes, totals and verification rows are accepted or rejected together -/
theorem accept_iff_of_same_verify (H : Bytes → Bytes) (sc : Bool) (blockDigest : Nat → Option Bytes) (label : String)
    (f₁ f₂ : File) (st₁ st₂ : Staging)
    (h₁ : foldOpt (processSection H sc) {} f₁ = some st₁) (h₂ : foldOpt (processSection H sc) {} f₂ = some st₂)
    (hh : st₁.hashes = st₂.hashes) (hv : st₁.ver = st₂.ver) (hr : st₁.blocksRound = st₂.blocksRound) (ht : st₁.totals = st₂.totals)
    (hs : st₁.spEnc = st₂.spEnc) (ho : st₁.oas = st₂.oas) (hp : st₁.orps = st₂.orps) :
    restore H sc blockDigest label f₁ = .ok st₁ ↔ restore H sc blockDigest label f₂ = .ok st₂ := by
  have key : ∀ root bd, restoredLabel H st₁ (verifyData H st₁ root) bd = restoredLabel H st₂ (verifyData H st₂ root) bd := by
    intro root bd
    unfold restoredLabel verifyData
    simp only [hv, hr, ht, hs, ho, hp]
  unfold restore
  rw [h₁, h₂]
  simp only [buildRoot, hh, hr]
  split
  · simp
  · cases blockDigest st₂.blocksRound with
    | none => simp
    | some bd =>
      simp only [key]
      split <;> simp

/-! ### witnesses -/

def toyH : Bytes → Bytes := Props.C15.toyH

def wAddr : Bytes := List.replicate 32 0x41
/-- app account with one box, 3 box bytes (the C15 witness record) -/
def wAcct (enc : Bytes) (more : Bool) : AcctRec :=
  { addr := wAddr, more := more, updateRound := 5, rewardsBase := 0, totalAppParams := 0, totalAppLocalStates := 0,
    totalAssetParams := 0, totalAssets := 0, enc := enc, res := [] }

def wEnc : Bytes := [0x83, 0xa1, 0x6d, 0x01, 0xa1, 0x6e, 0x03, 0xa1, 0x7a, 0x05]
/-- the same record with another balance -/
def wEncForged : Bytes := [0x84, 0xa1, 0x62, 0x7f, 0xa1, 0x6d, 0x01, 0xa1, 0x6e, 0x03, 0xa1, 0x7a, 0x05]

def wHeader : Section := .header verV8 16 [0x80]

/-- honest file: the app account and its box "ab" = "c" -/
def fileHonest : File := [wHeader, .sp 0 [0x80], .chunk [.acct (wAcct wEnc false)], .chunk [.kv (boxKey 77 [97, 98]) [99]]]
/-- the box boundary shifted: box "a" = "bc" -/
def fileShift : File := [wHeader, .sp 0 [0x80], .chunk [.acct (wAcct wEnc false)], .chunk [.kv (boxKey 77 [97]) [98, 99]]]
/-- a forged leading record of the same account, "more entries follow" -/
def fileSplit : File :=
  [wHeader, .sp 0 [0x80], .chunk [.acct (wAcct wEncForged true), .acct (wAcct wEnc false)], .chunk [.kv (boxKey 77 [97, 98]) [99]]]

def stagedOf (sc : Bool) (f : File) : Option Staging := foldOpt (processSection toyH sc) {} f

/-- **known finding F2 at the file level**: the shifted file stages the same leaves (for EVERY hash: `kv_leaf_collision`) but another
box; hence it is accepted exactly when the honest file is — in both variants of the accessor. -/
theorem kv_shift_accepted (sc : Bool) (blockDigest : Nat → Option Bytes) (label : String) :
    ∃ st₁ st₂, stagedOf sc fileHonest = some st₁ ∧ stagedOf sc fileShift = some st₂ ∧ st₁.kvs ≠ st₂.kvs ∧
      (restore toyH sc blockDigest label fileHonest = .ok st₁ ↔ restore toyH sc blockDigest label fileShift = .ok st₂) := by
  cases sc <;>
  · refine ⟨_, _, rfl, rfl, by decide, ?_⟩
    exact accept_iff_of_same_verify toyH _ blockDigest label fileHonest fileShift _ _ rfl rfl (by decide) rfl rfl rfl rfl rfl rfl

/-- **the split-account defect** (code before the repair, `splitChecked = false`): the file with the forged leading record stages
the honest leaves but stores the forged account data; it is accepted exactly when the honest file is. -/
theorem split_account_accepted (blockDigest : Nat → Option Bytes) (label : String) :
    ∃ st₁ st₂, stagedOf false fileHonest = some st₁ ∧ stagedOf false fileSplit = some st₂ ∧
      st₁.accts = [(wAddr, wEnc)] ∧ st₂.accts = [(wAddr, wEncForged)] ∧
      (restore toyH false blockDigest label fileHonest = .ok st₁ ↔ restore toyH false blockDigest label fileSplit = .ok st₂) := by
  refine ⟨_, _, rfl, rfl, by decide, by decide, ?_⟩
  exact accept_iff_of_same_verify toyH _ blockDigest label fileHonest fileSplit _ _ rfl rfl (by decide) rfl rfl rfl rfl rfl rfl

/-- with the repaired accessor (`splitChecked = true`) that file is rejected while it is being processed -/
theorem split_account_rejected (blockDigest : Nat → Option Bytes) (label : String) :
    restore toyH true blockDigest label fileSplit = .error .process := by
  have : foldOpt (processSection toyH true) {} fileSplit = none := by decide
  unfold restore
  rw [this]

/-! ### non-vacuity of `restore_file_partial` / `tamper_rejected_partial`: the honest witness file is `file` of a state that meets
the hypotheses -/

def wState : State :=
  { accounts := [wAcct wEnc false], kvs := [(boxKey 77 [97, 98], [99])], oas := [], orps := [], totals := [0x80], spN := 0, spEnc := [0x80] }

example : file wState 16 = fileHonest := by decide

example : (∀ a ∈ wState.accounts, a.more = false ∧ countsOK a) ∧ (wState.accounts.map (·.addr)).Nodup ∧
    ∃ stw, foldOpt (writeRec toyH) (baseStaging wState 16) (allRecs wState) = some stw ∧ hasDup stw.hashes = false := by
  refine ⟨?_, by decide, _, rfl, by decide⟩
  intro a ha
  simp only [wState, List.mem_cons, List.not_mem_nil, or_false] at ha
  subst ha
  unfold countsOK
  decide

end Props.C16
