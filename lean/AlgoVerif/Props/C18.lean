/-
C18 — Blocks neither create nor destroy Algos (the transaction groups of a block; modelled kinds).

`money P x l U` = Σ over the addresses of the duplicate-free list `U` of balance + pending rewards at the block's rewards level
(`balWP`: balance + ⌊balance / RewardUnit⌋ · (level − RewardsBase); non-participating accounts: the balance), read through the
layer `l` and its parents — the quantity `AccountTotals.All()` tracks.  All theorems hold for EVERY parameter set, context, state
and transaction / group / block of the modelled kinds, and for every `U` containing the addresses the transactions name
(sender, fee sink, receiver, close-to); accounts outside `U` are not touched.

`block_conserves_partial` is named partial because a real block also withdraws rewards from the pool (`StartEvaluator`) and pays
the proposer (`endOfBlock`), and may contain application calls / inner transactions / heartbeats / state proofs: none of these is
in Model.LedgerCore.  The full statement is kept as `BlockConservesStatement`; the check's monitor watches it on the real code
(sum over all accounts after every group, `AccountTotals.All()` at the end of every block, sum at the start of the next block).
-/
import AlgoVerif.Lemmas.LedgerCoreGroup
import AlgoVerif.Props.C45
namespace Props.C18
open AlgoVerif.Model.LedgerCore AlgoVerif.Lemmas.LedgerCore

/-- `move_conserves`: `roundCowState.Move` only moves money — including its zero-amount shortcut, `src = dst`, the rewards
it credits on both sides (already counted as pending) and `autoHeartbeat`. -/
theorem move_conserves (P : Params) (x : Ctx) (l l' : Layer) (src dst : Addr) (amt : Nat) (U : List Addr)
    (hU : U.Nodup) (hs : src ∈ U) (hd : dst ∈ U) (h : move P x l src dst amt = .ok l') :
    money P x l' U = money P x l U :=
  AlgoVerif.Lemmas.LedgerCore.move_conserves hU hs hd h

/-- `txn_conserves`: fee + effect of every modelled transaction kind (payment with close-to, keyreg incl. the switch to
non-participating, asset config / transfer / freeze) only move money. -/
theorem txn_conserves (P : Params) (x : Ctx) (l l' : Layer) (t : Txn) (ctr : Nat) (U : List Addr)
    (hU : U.Nodup) (hA : ∀ a ∈ txnAddrs P t, a ∈ U) (h : applyTxn P x l t ctr = .ok l') :
    money P x l' U = money P x l U :=
  applyTxn_conserves hU hA h

/-- the same for a whole `BlockEvaluator.transaction` (window, duplicate check, apply, min-balance check, addTx) -/
theorem evalTxn_conserves (P : Params) (x : Ctx) (l l' : Layer) (g : List Txn) (t : Txn) (U : List Addr)
    (hU : U.Nodup) (hA : ∀ a ∈ txnAddrs P t, a ∈ U) (h : evalTxn P x l g t = .ok l') :
    money P x l' U = money P x l U :=
  AlgoVerif.Lemmas.LedgerCore.evalTxn_conserves hU hA h

/-- `group_conserves`: an accepted group (evaluated in a child, committed to the parent) keeps the total -/
theorem group_conserves (P : Params) (x : Ctx) (s s' : EvalState) (g : List Txn) (U : List Addr)
    (hU : U.Nodup) (hA : ∀ a ∈ groupAddrs P g, a ∈ U) (h : evalGroup P x s g = .ok s') :
    money P x s'.top U = money P x s.top U := by
  cases g with
  | nil => cases h; rfl
  | cons t r =>
    obtain ⟨child, hc, rfl⟩ := evalGroup_ok (by simp) h
    show money P x (commitToParent child s.top) U = _
    rw [money_commit P x child s.top (evalGroupChild_wf hc), evalGroupChild_conserves hU hA hc]

/-- a rejected group changes nothing at all (C19), in particular not the total -/
theorem failed_group_conserves (P : Params) (x : Ctx) (s : EvalState) (g : List Txn) (gs : List (List Txn)) (e : GErr)
    (h : evalGroup P x s g = .error e) : evalBlock P x s (g :: gs) = evalBlock P x s gs := by
  show (match evalGroup P x s g with | .ok s' => evalBlock P x s' gs | .error _ => evalBlock P x s gs) = _
  rw [h]

/-- `block_conserves_partial`: any sequence of groups tried on an evaluator (accepted ones committed, failing ones dropped)
keeps the total.  Induction over the groups. -/
theorem block_conserves_partial (P : Params) (x : Ctx) (U : List Addr) (hU : U.Nodup) :
    ∀ (gs : List (List Txn)) (s : EvalState), (∀ g ∈ gs, ∀ a ∈ groupAddrs P g, a ∈ U) →
      money P x (evalBlock P x s gs).top U = money P x s.top U := by
  intro gs
  induction gs with
  | nil => intro s _; rfl
  | cons g r ih =>
    intro s hA
    have hr : ∀ g' ∈ r, ∀ a ∈ groupAddrs P g', a ∈ U := fun g' hg' => hA g' (List.mem_cons_of_mem _ hg')
    show money P x (match evalGroup P x s g with | .ok s' => evalBlock P x s' r | .error _ => evalBlock P x s r).top U = _
    cases hg : evalGroup P x s g with
    | error e => exact ih s hr
    | ok s' =>
      simp only
      rw [ih s' hr]
      exact group_conserves P x s s' g U hU (hA g List.mem_cons_self) hg

/-- The full property for a real block (NOT proved here; needs the models of StartEvaluator / endOfBlock / application calls):
evaluating a whole block from the state at the end of the previous round — rewards withdrawal, all transaction kinds, proposer
payout — keeps Σ balance-with-pending-rewards, the sum being taken at the old level before and at the new level after. -/
def BlockConservesStatement : Prop :=
  ∀ (evalWholeBlock : Params → Base → List (List Txn) → Option Base) (P P' : Params) (b b' : Base) (gs : List (List Txn))
    (U : List Addr), U.Nodup → (∀ a, a ∉ U → b.acct a = Account.zero) →
    evalWholeBlock P b gs = some b' →
    (U.map (fun a => balWP P' (b'.acct a))).sum = (U.map (fun a => balWP P (b.acct a))).sum

/-- pending rewards are counted: an account with pending rewards that pays has them credited, the total is unchanged -/
theorem money_counts_pending (P : Params) (a a' : Account) (h : withRewards P a = .ok a') : a'.bal = balWP P a ∧ balWP P a' = balWP P a :=
  ⟨(withRewards_ok h).1, balWP_withRewards h⟩

/-! ### tie of the model's checked arithmetic to the source (T): `Move` debits with `OSubA` and credits with `OAddA`; the model
tests `fromNew.bal < amt` / `2^64 ≤ toNew.bal + amt` and uses exact `Nat` results — exactly what the regenerated helpers do on
in-range operands (Props.C45). -/

theorem move_debit_tie (a b : Nat) (ha : a < 2^64) (hb : b < 2^64) :
    Gen.Basics.OSubA a b = (if b ≤ a then a - b else a + 2^64 - b, decide (a < b)) := by
  unfold Gen.Basics.OSubA
  simp only
  rw [Props.C45.osub_exact 64 a b ha hb]

theorem move_credit_tie (a b : Nat) (ha : a < 2^64) (hb : b < 2^64) :
    Gen.Basics.OAddA a b = ((a + b) % 2^64, decide (M64 ≤ a + b)) := by
  unfold Gen.Basics.OAddA
  simp only
  rw [Props.C45.oadd_exact 64 a b ha hb]
  rfl

example : Gen.Basics.OSubA 5 7 = (18446744073709551614, true) := by decide

/-! ### non-vacuity: a block of two groups (one fails) at a non-zero rewards level, universe {0,1,2,7} (0 = the zero address, named by absent receivers / close-to) -/

def exP : Params := { level := 5, round := 3 }
def exBase : Base := { accts := [(1, { bal := 5000000, rewardsBase := 2 }), (2, { bal := 300000 }), (7, { status := .notPart, bal := 100000 })] }
def exPay (snd rcv amt note close : Nat) : Txn :=
  { kind := .pay, sender := snd, fee := 1000, fv := 1, lv := 10, note := note, grp := 0, receiver := rcv, amount := amt, closeTo := close }

example : [0, 1, 2, 7].Nodup := by decide
example : ∀ g ∈ [[exPay 1 2 1000000 1 0], [exPay 2 1 9000000 2 0], [exPay 2 7 0 3 1]], ∀ a ∈ groupAddrs exP g, a ∈ [0, 1, 2, 7] := by decide
/-- the total (with 5·3 pending on account 1) is 5400015 before and after; account 2 was closed into account 1 -/
example : money exP ⟨[], exBase⟩ ({} : Layer) [0, 1, 2, 7] = 5400015 := by decide
example : money exP ⟨[], exBase⟩ (evalBlock exP ⟨[], exBase⟩ {} [[exPay 1 2 1000000 1 0], [exPay 2 1 9000000 2 0], [exPay 2 7 0 3 1]]).top [0, 1, 2, 7] = 5400015 := by decide
example : (evalBlock exP ⟨[], exBase⟩ {} [[exPay 1 2 1000000 1 0], [exPay 2 1 9000000 2 0], [exPay 2 7 0 3 1]]).payset.length = 2 := by decide

end Props.C18
