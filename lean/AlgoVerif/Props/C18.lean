import AlgoVerif.Model.LedgerCore
namespace Props.C18
open AlgoVerif.Model.LedgerCore

/-- placeholder while the pipeline is brought up; replaced by the property theorems -/
theorem empty_group_noop (P : Params) (x : Ctx) (s : EvalState) : evalGroup P x s [] = .ok s := rfl

end Props.C18
