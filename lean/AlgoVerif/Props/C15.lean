/-
C15 — A catchpoint label commits to a unique ledger state.

All theorems are about `Model.CatchpointHash` (lean/AlgoVerif/Model/CatchpointHash.lean): the trie-leaf
pre-images of ledger/store/trackerdb/hashing.go and the label buffer of ledger/ledgercore/catchpointlabel.go
AS CODED, the hash a parameter `H`.  The driver `c15` runs the same definitions with SHA-512/256 against
the real hash builders and label makers on every run (leaves, buffers and labels byte-identical).

FULL (no cryptographic hypothesis needed — these are facts of the byte layouts):
  * `account_pre_inj`, `resource_pre_inj`   the account / resource pre-image determines address, creatable
                                            index and encoded record (fixed-width prefixes);
  * `box_key_inj`                           a box key determines the app and the box name;
  * `kind_byte_inj`, `leaf_kind_byte`, `kinds_disjoint`
                                            byte 4 of a leaf is the kind; leaves of different kinds differ;
  * `label_buffer_inj` (+ `_v6`, `_v7`)     the label buffer determines every component: the variable-length
                                            totals are framed by 64 fixed bytes before and 0 / 32 / 96 after;
  * `kv_pre_not_inj`, `box_kv_pre_not_inj`, `kv_leaf_collision`
                                            the kv pre-image `key ‖ value` is NOT injective: two different boxes
                                            of one app have the same pre-image, hence the same leaf for EVERY hash;
  * `state_label_inj_false`                 therefore the full property `state_label_inj_Statement` is FALSE for
                                            the code as it stands, for every hash and every trie-root function
                                            (known finding F2, replayed on the real code by the harnesses).
PARTIAL:
  * `kv_pre_inj_partial`                    equal key lengths ⇒ the kv pre-image is injective;
    `box_kv_pre_inj_partial`                boxes with equal name lengths (any apps) ⇒ injective;
  * `entry_leaf_inj_partial`                two entries with equal leaves have equal contents, unless they are a
                                            kv boundary shift — under "no collision of the truncated hash on the
                                            two pre-images";
  * `state_label_inj_partial`               two states whose leaf multisets are equal have equal content
                                            multisets, unless some pair is a kv boundary shift — hypothesis: no
                                            collision of the truncated hash among the pre-images of the two states;
  * `label_commits_partial`                 the same from equal label digests, with two further LOCAL hypotheses:
                                            the label hash does not collide on the two buffers and the trie root
                                            of the two leaf lists commits to the leaf multiset.
Missing for a full result: (1) the kv pre-image would need a length frame (a change of every node's catchpoint
labels); (2) root-injectivity of the Merkle trie (C17 proves root = function of the element SET; the converse
under collision-freedom is assumed here as `hRoot`); (3) injectivity of the canonical msgpack encoding of the
records / totals (C40) — contents are compared as encoded bytes; (4) the label is the digest; its rendering
`round#base32(digest)` is only tied, not proved injective.
-/
import AlgoVerif.Model.CatchpointHash
namespace Props.C15
open Model.CatchpointHash

/-! ### byte-level helpers -/

theorem u8_ofNat_inj {a b : Nat} (ha : a < 256) (hb : b < 256) (h : UInt8.ofNat a = UInt8.ofNat b) : a = b := by
  have := congrArg UInt8.toNat h
  simp only [UInt8.toNat_ofNat'] at this
  omega

theorem le64_length (n : Nat) : (le64 n).length = 8 := rfl

theorem be64_length (n : Nat) : (be64 n).length = 8 := by simp [be64, le64_length]

/-- `binary.LittleEndian.PutUint64` is injective on uint64. -/
theorem le64_inj {n m : Nat} (hn : n < 2 ^ 64) (hm : m < 2 ^ 64) (h : le64 n = le64 m) : n = m := by
  simp only [le64, List.cons.injEq, and_true] at h
  obtain ⟨h0, h1, h2, h3, h4, h5, h6, h7⟩ := h
  have e0 := u8_ofNat_inj (by omega) (by omega) h0
  have e1 := u8_ofNat_inj (by omega) (by omega) h1
  have e2 := u8_ofNat_inj (by omega) (by omega) h2
  have e3 := u8_ofNat_inj (by omega) (by omega) h3
  have e4 := u8_ofNat_inj (by omega) (by omega) h4
  have e5 := u8_ofNat_inj (by omega) (by omega) h5
  have e6 := u8_ofNat_inj (by omega) (by omega) h6
  have e7 := u8_ofNat_inj (by omega) (by omega) h7
  omega

theorem be64_inj {n m : Nat} (hn : n < 2 ^ 64) (hm : m < 2 ^ 64) (h : be64 n = be64 m) : n = m :=
  le64_inj hn hm (by have := congrArg List.reverse h; simpa [be64] using this)

/-! ### pre-images -/

/-- **account pre-image**: with 32-byte addresses, `addr ‖ enc` determines the address and the encoded record. -/
theorem account_pre_inj {a1 a2 e1 e2 : Bytes} (h1 : a1.length = 32) (h2 : a2.length = 32)
    (h : accountPre a1 e1 = accountPre a2 e2) : a1 = a2 ∧ e1 = e2 :=
  List.append_inj h (h1.trans h2.symm)

example : accountPre (List.replicate 32 7) [1, 2] = accountPre (List.replicate 32 7) [1, 2] ∧
    (List.replicate 32 (7 : UInt8)).length = 32 := by decide

/-- **resource pre-image**: `addr(32) ‖ cidx(8 LE) ‖ enc` determines address, creatable index and record. -/
theorem resource_pre_inj {a1 a2 e1 e2 : Bytes} {c1 c2 : Nat} (h1 : a1.length = 32) (h2 : a2.length = 32)
    (hc1 : c1 < 2 ^ 64) (hc2 : c2 < 2 ^ 64)
    (h : resourcePre a1 c1 e1 = resourcePre a2 c2 e2) : a1 = a2 ∧ c1 = c2 ∧ e1 = e2 := by
  unfold resourcePre at h
  obtain ⟨hac, he⟩ := List.append_inj h (by simp [h1, h2, le64_length])
  obtain ⟨ha, hc⟩ := List.append_inj hac (h1.trans h2.symm)
  exact ⟨ha, le64_inj hc1 hc2 hc, he⟩

example : (List.replicate 32 (0 : UInt8)).length = 32 ∧ (18446744073709551615 : Nat) < 2 ^ 64 ∧
    resourcePre (List.replicate 32 0) 258 [9] = List.replicate 32 0 ++ [2, 1, 0, 0, 0, 0, 0, 0] ++ [9] := by decide

/-- a box key determines the application index and the box name -/
theorem box_key_inj {a1 a2 : Nat} {n1 n2 : Bytes} (h1 : a1 < 2 ^ 64) (h2 : a2 < 2 ^ 64)
    (h : boxKey a1 n1 = boxKey a2 n2) : a1 = a2 ∧ n1 = n2 := by
  unfold boxKey at h
  obtain ⟨hp, hn⟩ := List.append_inj h (by simp [be64_length])
  obtain ⟨_, hb⟩ := List.append_inj hp rfl
  exact ⟨be64_inj h1 h2 hb, hn⟩

/-- **kv pre-image, partial**: keys of equal length ⇒ `key ‖ value` determines key and value. -/
theorem kv_pre_inj_partial {k1 k2 v1 v2 : Bytes} (hl : k1.length = k2.length)
    (h : kvPre k1 v1 = kvPre k2 v2) : k1 = k2 ∧ v1 = v2 :=
  List.append_inj h hl

example : ([1, 2] : Bytes).length = ([3, 4] : Bytes).length := rfl

/-- boxes (of any two apps) whose names have equal length: the pre-image determines app, name and value -/
theorem box_kv_pre_inj_partial {a1 a2 : Nat} {n1 n2 v1 v2 : Bytes} (h1 : a1 < 2 ^ 64) (h2 : a2 < 2 ^ 64)
    (hl : n1.length = n2.length) (h : kvPre (boxKey a1 n1) v1 = kvPre (boxKey a2 n2) v2) :
    a1 = a2 ∧ n1 = n2 ∧ v1 = v2 := by
  obtain ⟨hk, hv⟩ := kv_pre_inj_partial (by simp [boxKey, be64_length, hl]) h
  obtain ⟨ha, hn⟩ := box_key_inj h1 h2 hk
  exact ⟨ha, hn, hv⟩

/-- **kv pre-image is NOT injective** (raw keys "ab"/"c" vs "a"/"bc"). -/
theorem kv_pre_not_inj :
    kvPre [97, 98] [99] = kvPre [97] [98, 99] ∧ (([97, 98] : Bytes), ([99] : Bytes)) ≠ ([97], [98, 99]) := by
  decide

/-- the same for two boxes of ONE app in the real key format `bx: ‖ app(8 BE) ‖ name`:
box "ab" with content "c" and box "a" with content "bc" of app 77. -/
theorem box_kv_pre_not_inj :
    kvPre (boxKey 77 [97, 98]) [99] = kvPre (boxKey 77 [97]) [98, 99] ∧ boxKey 77 [97, 98] ≠ boxKey 77 [97] := by
  decide

/-- for every app, box name and content the boundary can be shifted: general form of the collision -/
theorem box_kv_pre_shift (app : Nat) (name : Bytes) (b : UInt8) (value : Bytes) :
    kvPre (boxKey app (name ++ [b])) value = kvPre (boxKey app name) (b :: value) := by
  simp [kvPre, boxKey, List.append_assoc]

/-- hence the two boxes have the same trie leaf under EVERY hash function (no hash collision involved) -/
theorem kv_leaf_collision (H : Bytes → Bytes) :
    kvLeaf H (boxKey 77 [97, 98]) [99] = kvLeaf H (boxKey 77 [97]) [98, 99] := by
  unfold kvLeaf; rw [box_kv_pre_not_inj.1]

/-- the injectivity statement for the kv pre-image, and its refutation -/
def kv_pre_inj_Statement : Prop :=
  ∀ k1 v1 k2 v2 : Bytes, kvPre k1 v1 = kvPre k2 v2 → k1 = k2 ∧ v1 = v2

theorem kv_pre_inj_false : ¬ kv_pre_inj_Statement := by
  intro h
  have := h [97, 98] [99] [97] [98, 99] kv_pre_not_inj.1
  exact absurd this.1 (by decide)

/-! ### leaves and kinds -/

/-- the leaf as a whole: 4 affinity bytes, the kind byte, the digest without its first byte -/
theorem leaf_shape (H : Bytes → Bytes) (a : Nat) (k : HashKind) (p : Bytes) :
    finishV6 H (hashBufV6 a k) p = affinityPrefix a ++ k.byte :: (H p).drop 1 := rfl

theorem kind_byte_inj {k1 k2 : HashKind} (h : k1.byte = k2.byte) : k1 = k2 := by
  cases k1 <;> cases k2 <;> first | rfl | exact absurd h (by decide)

/-- byte `HashKindEncodingIndex` (= 4) of every leaf is the kind -/
theorem leaf_kind_byte (H : Bytes → Bytes) (a : Nat) (k : HashKind) (p : Bytes) :
    (finishV6 H (hashBufV6 a k) p)[hashKindEncodingIndex]? = some k.byte := rfl

/-- equal leaves ⇔ equal affinity prefix, equal kind, equal truncated digest -/
theorem leaf_eq_iff (H : Bytes → Bytes) (a1 a2 : Nat) (k1 k2 : HashKind) (p1 p2 : Bytes) :
    finishV6 H (hashBufV6 a1 k1) p1 = finishV6 H (hashBufV6 a2 k2) p2 ↔
      affinityPrefix a1 = affinityPrefix a2 ∧ k1 = k2 ∧ (H p1).drop 1 = (H p2).drop 1 := by
  rw [leaf_shape, leaf_shape]
  constructor
  · intro h
    obtain ⟨hp, ht⟩ := List.append_inj h rfl
    simp only [List.cons.injEq] at ht
    exact ⟨hp, kind_byte_inj ht.1, ht.2⟩
  · rintro ⟨hp, hk, ht⟩
    rw [hp, hk, ht]

/-- **kinds are disjoint**: leaves of different kinds are different byte strings, whatever the affinity,
the pre-images and the hash (they differ at byte 4). -/
theorem kinds_disjoint (H : Bytes → Bytes) (a1 a2 : Nat) {k1 k2 : HashKind} (p1 p2 : Bytes) (hk : k1 ≠ k2) :
    finishV6 H (hashBufV6 a1 k1) p1 ≠ finishV6 H (hashBufV6 a2 k2) p2 :=
  fun h => hk ((leaf_eq_iff H a1 a2 k1 k2 p1 p2).1 h).2.1

theorem Entry.leaf_eq (H : Bytes → Bytes) (e : Entry) :
    ∃ a, e.leaf H = finishV6 H (hashBufV6 a e.kind) e.pre := by
  cases e with
  | account a u r enc => exact ⟨accountAffinity u r, rfl⟩
  | resource k a c u enc => exact ⟨u, rfl⟩
  | kv k v => exact ⟨0, rfl⟩

/-- entries of different kinds (account / asset / app / kv) never share a leaf -/
theorem entry_kinds_disjoint (H : Bytes → Bytes) (e1 e2 : Entry) (hk : e1.kind ≠ e2.kind) :
    e1.leaf H ≠ e2.leaf H := by
  obtain ⟨a1, h1⟩ := Entry.leaf_eq H e1
  obtain ⟨a2, h2⟩ := Entry.leaf_eq H e2
  rw [h1, h2]
  exact kinds_disjoint H a1 a2 e1.pre e2.pre hk

/-! ### one entry ↦ one leaf -/

/-- the hash, as used (first digest byte dropped), does not collide on the listed pre-images -/
def NoCollisionOn (H : Bytes → Bytes) (S : List Bytes) : Prop :=
  ∀ p ∈ S, ∀ q ∈ S, (H p).drop 1 = (H q).drop 1 → p = q

/-- the known ambiguity class: two kv rows with different key lengths and the same `key ‖ value` -/
def KvShift (e1 e2 : Entry) : Prop :=
  ∃ k1 v1 k2 v2, e1 = .kv k1 v1 ∧ e2 = .kv k2 v2 ∧ k1.length ≠ k2.length ∧ k1 ++ v1 = k2 ++ v2

/-- **leaf ↦ content, partial**: outside the kv boundary shift, equal leaves mean equal contents. -/
theorem entry_leaf_inj_partial (H : Bytes → Bytes) (e1 e2 : Entry) (w1 : e1.WF) (w2 : e2.WF)
    (hH : NoCollisionOn H [e1.pre, e2.pre]) (hns : ¬ KvShift e1 e2)
    (h : e1.leaf H = e2.leaf H) : e1.content = e2.content := by
  have hk : e1.kind = e2.kind := by
    by_cases hk : e1.kind = e2.kind
    · exact hk
    · exact absurd h (entry_kinds_disjoint H e1 e2 hk)
  have hpre : e1.pre = e2.pre := by
    obtain ⟨a1, h1⟩ := Entry.leaf_eq H e1
    obtain ⟨a2, h2⟩ := Entry.leaf_eq H e2
    rw [h1, h2] at h
    exact hH _ (by simp) _ (by simp) ((leaf_eq_iff H _ _ _ _ _ _).1 h).2.2
  cases e1 with
  | account a1 u1 r1 c1 =>
    cases e2 with
    | account a2 u2 r2 c2 =>
      obtain ⟨ha, hc⟩ := account_pre_inj w1 w2 hpre
      simp [Entry.content, ha, hc]
    | resource k2 a2 i2 u2 c2 =>
      obtain ⟨_, _, hk2⟩ := w2
      simp only [Entry.kind] at hk
      rcases hk2 with rfl | rfl <;> cases hk
    | kv k2 v2 => cases hk
  | resource k1 a1 i1 u1 c1 =>
    obtain ⟨wa1, wi1, hk1⟩ := w1
    cases e2 with
    | account a2 u2 r2 c2 =>
      simp only [Entry.kind] at hk
      rcases hk1 with rfl | rfl <;> cases hk
    | resource k2 a2 i2 u2 c2 =>
      obtain ⟨wa2, wi2, _⟩ := w2
      obtain ⟨ha, hi, hc⟩ := resource_pre_inj wa1 wa2 wi1 wi2 hpre
      simp only [Entry.kind] at hk
      simp [Entry.content, ha, hi, hc, hk]
    | kv k2 v2 =>
      simp only [Entry.kind] at hk
      rcases hk1 with rfl | rfl <;> cases hk
  | kv k1 v1 =>
    cases e2 with
    | account a2 u2 r2 c2 => cases hk
    | resource k2 a2 i2 u2 c2 =>
      obtain ⟨_, _, hk2⟩ := w2
      simp only [Entry.kind] at hk
      rcases hk2 with rfl | rfl <;> cases hk
    | kv k2 v2 =>
      by_cases hl : k1.length = k2.length
      · obtain ⟨hk', hv'⟩ := kv_pre_inj_partial hl hpre
        simp [Entry.content, hk', hv']
      · exact absurd ⟨k1, v1, k2, v2, rfl, rfl, hl, hpre⟩ hns

/-- a toy "hash" that meets `NoCollisionOn` on everything (first byte is the one `finishV6` drops) -/
def toyH : Bytes → Bytes := fun b => 0 :: b

theorem toyH_noCollision (S : List Bytes) : NoCollisionOn toyH S := by
  intro p _ q _ h; simpa [toyH] using h

/-- non-vacuity: an account and a resource row of the same address, not a kv shift, toy hash -/
example : (Entry.account (List.replicate 32 1) 5 0 [0x80]).WF ∧
    (Entry.resource .asset (List.replicate 32 1) 9 5 [0x80]).WF ∧
    NoCollisionOn toyH [(Entry.account (List.replicate 32 1) 5 0 [0x80]).pre,
      (Entry.resource .asset (List.replicate 32 1) 9 5 [0x80]).pre] ∧
    ¬ KvShift (Entry.account (List.replicate 32 1) 5 0 [0x80]) (Entry.resource .asset (List.replicate 32 1) 9 5 [0x80]) := by
  refine ⟨by simp [Entry.WF], ⟨by simp, by decide, Or.inl rfl⟩, toyH_noCollision _, ?_⟩
  rintro ⟨k1, v1, k2, v2, h, _⟩
  cases h

/-! ### label buffer -/

/-- **label buffer (current version)**: with 32-byte digests the buffer determines every component — the
variable-length encoded totals sit between 64 fixed bytes and 96 fixed bytes. -/
theorem label_buffer_inj {p q : LabelParts} (hp : p.WF) (hq : q.WF)
    (h : bufferCurrent p = bufferCurrent q) : p = q := by
  obtain ⟨p1, p2, p3, p4, p5⟩ := hp
  obtain ⟨q1, q2, q3, q4, q5⟩ := hq
  unfold bufferCurrent bufferV7 bufferV6 at h
  obtain ⟨h, e6⟩ := List.append_inj' h (p5.trans q5.symm)
  obtain ⟨h, e5⟩ := List.append_inj' h (p4.trans q4.symm)
  obtain ⟨h, e4⟩ := List.append_inj' h (p3.trans q3.symm)
  obtain ⟨h, e3⟩ := List.append_inj h (by simp [p1, p2, q1, q2])
  obtain ⟨e1, e2⟩ := List.append_inj h (p1.trans q1.symm)
  cases p; cases q; simp_all

theorem label_buffer_v7_inj {p q : LabelParts} (hp : p.WF) (hq : q.WF) (h : bufferV7 p = bufferV7 q) :
    p.blockHash = q.blockHash ∧ p.balancesRoot = q.balancesRoot ∧ p.totals = q.totals ∧
      p.spVerificationHash = q.spVerificationHash := by
  obtain ⟨p1, p2, p3, _, _⟩ := hp
  obtain ⟨q1, q2, q3, _, _⟩ := hq
  unfold bufferV7 bufferV6 at h
  obtain ⟨h, e4⟩ := List.append_inj' h (p3.trans q3.symm)
  obtain ⟨h, e3⟩ := List.append_inj h (by simp [p1, p2, q1, q2])
  obtain ⟨e1, e2⟩ := List.append_inj h (p1.trans q1.symm)
  exact ⟨e1, e2, e3, e4⟩

theorem label_buffer_v6_inj {p q : LabelParts} (hp : p.WF) (hq : q.WF) (h : bufferV6 p = bufferV6 q) :
    p.blockHash = q.blockHash ∧ p.balancesRoot = q.balancesRoot ∧ p.totals = q.totals := by
  obtain ⟨p1, p2, _, _, _⟩ := hp
  obtain ⟨q1, q2, _, _, _⟩ := hq
  unfold bufferV6 at h
  obtain ⟨h, e3⟩ := List.append_inj h (by simp [p1, p2, q1, q2])
  obtain ⟨e1, e2⟩ := List.append_inj h (p1.trans q1.symm)
  exact ⟨e1, e2, e3⟩

/-- every label version: the buffer determines block hash, balances root and totals -/
theorem label_buffer_any_inj (ver : Nat) {p q : LabelParts} (hp : p.WF) (hq : q.WF)
    (h : buffer ver p = buffer ver q) :
    p.blockHash = q.blockHash ∧ p.balancesRoot = q.balancesRoot ∧ p.totals = q.totals := by
  unfold buffer at h
  split at h
  · exact label_buffer_v6_inj hp hq h
  · split at h
    · obtain ⟨a, b, c, _⟩ := label_buffer_v7_inj hp hq h; exact ⟨a, b, c⟩
    · have := label_buffer_inj hp hq h; subst this; exact ⟨rfl, rfl, rfl⟩

example : (LabelParts.mk (List.replicate 32 1) (List.replicate 32 2) [0x80] (List.replicate 32 3)
    (List.replicate 32 4) (List.replicate 32 5)).WF := by simp [LabelParts.WF]

/-! ### states -/

def leaves (H : Bytes → Bytes) (s : List Entry) : List Bytes := s.map (Entry.leaf H)
def contents (s : List Entry) : List Content := s.map Entry.content
def pres (s : List Entry) : List Bytes := s.map Entry.pre

/-- no pair of rows across the two states is a kv boundary shift -/
def NoKvShift (s1 s2 : List Entry) : Prop := ∀ e1 ∈ s1, ∀ e2 ∈ s2, ¬ KvShift e1 e2

theorem perm_map_transfer {α β γ : Type} (f : α → β) (g : α → γ) :
    ∀ (l1 l2 : List α), (∀ a ∈ l1, ∀ b ∈ l2, f a = f b → g a = g b) →
      (l1.map f).Perm (l2.map f) → (l1.map g).Perm (l2.map g) := by
  intro l1
  induction l1 with
  | nil =>
    intro l2 _ h
    have : l2.map f = [] := List.Perm.eq_nil (h.symm)
    have : l2 = [] := by simpa using this
    subst this; exact List.Perm.refl _
  | cons a t ih =>
    intro l2 hinj h
    have hmem : f a ∈ l2.map f := (h.mem_iff).1 (by simp)
    obtain ⟨b, hb, hfb⟩ := List.mem_map.1 hmem
    obtain ⟨s, r, rfl⟩ := List.append_of_mem hb
    have h' : (f a :: t.map f).Perm (f a :: (s ++ r).map f) := by
      have hm : ((s ++ b :: r).map f).Perm (f a :: (s ++ r).map f) := by
        simp only [List.map_append, List.map_cons, hfb]
        exact List.perm_middle
      simpa using h.trans hm
    have ht := ih (s ++ r) (fun x hx y hy => hinj x (by simp [hx]) y (by
      rcases List.mem_append.1 hy with hy | hy
      · simp [hy]
      · simp [hy])) h'.cons_inv
    have hg : g a = g b := hinj a (by simp) b hb hfb.symm
    have : ((a :: t).map g).Perm (g b :: (s ++ r).map g) := by
      simp only [List.map_cons, hg]; exact ht.cons _
    refine this.trans ?_
    simp only [List.map_append, List.map_cons]
    exact List.perm_middle.symm

/-- **A label commits to a unique state — the full property.**  For states given by their rows, the label
digest `H(blockHash ‖ root(leaves) ‖ totals ‖ …)` determines the multiset of row contents.  To be read for a
collision-free `H` and a trie root `root` that commits to the leaf multiset.  It is FALSE for the code as it
stands (`state_label_inj_false`). -/
def labelDigest (H : Bytes → Bytes) (root : List Bytes → Bytes) (ver : Nat) (s : List Entry) (p : LabelParts) : Bytes :=
  H (buffer ver { p with balancesRoot := root (leaves H s) })

def state_label_inj_Statement (H : Bytes → Bytes) (root : List Bytes → Bytes) (ver : Nat) : Prop :=
  ∀ (s1 s2 : List Entry) (p1 p2 : LabelParts), (∀ e ∈ s1, e.WF) → (∀ e ∈ s2, e.WF) →
    labelDigest H root ver s1 p1 = labelDigest H root ver s2 p2 → (contents s1).Perm (contents s2)

/-- address of the app account in the witness (any 32 bytes) -/
def witnessAddr : Bytes := List.replicate 32 0x4d
/-- msgpack of a BaseAccountData with `TotalBoxes (m) = 1`, `TotalBoxBytes (n) = 3`, `UpdateRound (z) = 5` -/
def witnessAppAccount : Entry := .account witnessAddr 5 0 [0x83, 0xa1, 0x6d, 0x01, 0xa1, 0x6e, 0x03, 0xa1, 0x7a, 0x05]
/-- state A: app 77 has the single box "ab" = "c";  state B: app 77 has the single box "a" = "bc".
The app account row is the same in both (one box, 3 box bytes). -/
def witnessA : List Entry := [witnessAppAccount, .kv (boxKey 77 [97, 98]) [99]]
def witnessB : List Entry := [witnessAppAccount, .kv (boxKey 77 [97]) [98, 99]]

/-- **label collision witness**: the two different states have identical leaves under every hash … -/
theorem label_collision_witness (H : Bytes → Bytes) :
    leaves H witnessA = leaves H witnessB ∧ ¬ (contents witnessA).Perm (contents witnessB) ∧
      (∀ e ∈ witnessA, e.WF) ∧ (∀ e ∈ witnessB, e.WF) := by
  refine ⟨?_, ?_, ?_, ?_⟩
  · simp only [leaves, witnessA, witnessB, List.map, Entry.leaf]
    rw [kv_leaf_collision]
  · intro h
    have hm : Content.kv (boxKey 77 [97, 98]) [99] ∈ contents witnessB :=
      (h.mem_iff).1 (by simp [contents, witnessA, Entry.content])
    revert hm; decide
  · intro e he
    simp only [witnessA, List.mem_cons, List.not_mem_nil, or_false] at he
    rcases he with rfl | rfl
    · show witnessAddr.length = 32; decide
    · trivial
  · intro e he
    simp only [witnessB, List.mem_cons, List.not_mem_nil, or_false] at he
    rcases he with rfl | rfl
    · show witnessAddr.length = 32; decide
    · trivial

/-- … hence the full property is false for EVERY hash, trie-root function and label version: the
collision needs no hash collision. -/
theorem state_label_inj_false (H : Bytes → Bytes) (root : List Bytes → Bytes) (ver : Nat) :
    ¬ state_label_inj_Statement H root ver := by
  intro h
  obtain ⟨hl, hne, wA, wB⟩ := label_collision_witness H
  let p : LabelParts := ⟨[], [], [], [], [], []⟩
  exact hne (h witnessA witnessB p p wA wB (by simp only [labelDigest, hl]))

/-- **partial, leaf level**: if no two rows across the states are a kv boundary shift and the truncated hash
does not collide on the pre-images of the two states, then equal leaf multisets ⇒ equal content multisets.
(Contrapositive: states that differ in an account, a resource, or a kv outside the boundary-shift class have
different leaf multisets.) -/
theorem state_label_inj_partial (H : Bytes → Bytes) (s1 s2 : List Entry)
    (w1 : ∀ e ∈ s1, e.WF) (w2 : ∀ e ∈ s2, e.WF)
    (hH : NoCollisionOn H (pres s1 ++ pres s2)) (hns : NoKvShift s1 s2)
    (h : (leaves H s1).Perm (leaves H s2)) : (contents s1).Perm (contents s2) := by
  refine perm_map_transfer (Entry.leaf H) Entry.content s1 s2 ?_ h
  intro a ha b hb hab
  refine entry_leaf_inj_partial H a b (w1 a ha) (w2 b hb) ?_ (hns a ha b hb) hab
  have ma : a.pre ∈ pres s1 ++ pres s2 := List.mem_append.2 (Or.inl (List.mem_map.2 ⟨a, ha, rfl⟩))
  have mb : b.pre ∈ pres s1 ++ pres s2 := List.mem_append.2 (Or.inr (List.mem_map.2 ⟨b, hb, rfl⟩))
  intro p hp q hq hpq
  have hp' : p ∈ pres s1 ++ pres s2 := by
    simp only [List.mem_cons, List.not_mem_nil, or_false] at hp
    rcases hp with rfl | rfl <;> assumption
  have hq' : q ∈ pres s1 ++ pres s2 := by
    simp only [List.mem_cons, List.not_mem_nil, or_false] at hq
    rcases hq with rfl | rfl <;> assumption
  exact hH p hp' q hq' hpq

/-- global form of the hash hypothesis, as usually written -/
theorem state_label_inj_partial_global (H : Bytes → Bytes) (s1 s2 : List Entry)
    (w1 : ∀ e ∈ s1, e.WF) (w2 : ∀ e ∈ s2, e.WF)
    (hH : Function.Injective fun p => (H p).drop 1) (hns : NoKvShift s1 s2)
    (h : (leaves H s1).Perm (leaves H s2)) : (contents s1).Perm (contents s2) :=
  state_label_inj_partial H s1 s2 w1 w2 (fun _ _ _ _ e => hH e) hns h

/-- non-vacuity: two different one-box states that are NOT a boundary shift (equal name lengths), toy hash -/
example : (∀ e ∈ [Entry.kv (boxKey 77 [97, 98]) [99]], e.WF) ∧
    (Function.Injective fun p => (toyH p).drop 1) ∧
    NoKvShift [Entry.kv (boxKey 77 [97, 98]) [99]] [Entry.kv (boxKey 77 [97, 99]) [99]] := by
  refine ⟨fun e _ => by cases e <;> simp_all [Entry.WF], fun a b h => by simpa [toyH] using h, ?_⟩
  intro e1 h1 e2 h2
  simp only [List.mem_cons, List.not_mem_nil, or_false] at h1 h2
  subst h1 h2
  rintro ⟨k1, v1, k2, v2, e1, e2, hl, _⟩
  cases e1; cases e2
  exact hl (by decide)

/-- **partial, label level**: equal label digests ⇒ equal block hash, equal encoded totals and equal content
multisets, outside the boundary-shift class.  Local hypotheses: `hL` the label hash does not collide on the two
buffers; `hRoot` the trie root of these two leaf lists commits to the leaf multiset (not proved here, see
header); `hH` as above; roots are 32-byte digests. -/
theorem label_commits_partial (H : Bytes → Bytes) (root : List Bytes → Bytes) (ver : Nat)
    (s1 s2 : List Entry) (p1 p2 : LabelParts)
    (w1 : ∀ e ∈ s1, e.WF) (w2 : ∀ e ∈ s2, e.WF) (hp1 : p1.WF) (hp2 : p2.WF)
    (hr1 : (root (leaves H s1)).length = 32) (hr2 : (root (leaves H s2)).length = 32)
    (hL : H (buffer ver { p1 with balancesRoot := root (leaves H s1) }) =
            H (buffer ver { p2 with balancesRoot := root (leaves H s2) }) →
          buffer ver { p1 with balancesRoot := root (leaves H s1) } =
            buffer ver { p2 with balancesRoot := root (leaves H s2) })
    (hRoot : root (leaves H s1) = root (leaves H s2) → (leaves H s1).Perm (leaves H s2))
    (hH : NoCollisionOn H (pres s1 ++ pres s2)) (hns : NoKvShift s1 s2)
    (h : labelDigest H root ver s1 p1 = labelDigest H root ver s2 p2) :
    p1.blockHash = p2.blockHash ∧ p1.totals = p2.totals ∧ (contents s1).Perm (contents s2) := by
  have hb := hL h
  have wf1 : ({ p1 with balancesRoot := root (leaves H s1) } : LabelParts).WF :=
    ⟨hp1.1, hr1, hp1.2.2.1, hp1.2.2.2.1, hp1.2.2.2.2⟩
  have wf2 : ({ p2 with balancesRoot := root (leaves H s2) } : LabelParts).WF :=
    ⟨hp2.1, hr2, hp2.2.2.1, hp2.2.2.2.1, hp2.2.2.2.2⟩
  obtain ⟨e1, e2, e3⟩ := label_buffer_any_inj ver wf1 wf2 hb
  exact ⟨e1, e3, state_label_inj_partial H s1 s2 w1 w2 hH hns (hRoot e2)⟩

/-- non-vacuity of `label_commits_partial`: toy hash (injective), a toy 32-byte "root" that separates the two
one-box states below, 32-byte digests; every hypothesis is met by two DIFFERENT states (boxes "ab" and "ac"). -/
def toyRoot : List Bytes → Bytes := fun l => ((l.flatten.drop 5) ++ List.replicate 32 0).take 32

example :
    let s1 := [Entry.kv (boxKey 77 [97, 98]) [99]]
    let s2 := [Entry.kv (boxKey 77 [97, 99]) [99]]
    let p : LabelParts := ⟨List.replicate 32 1, [], [0x80], List.replicate 32 3, List.replicate 32 4, List.replicate 32 5⟩
    (toyRoot (leaves toyH s1)).length = 32 ∧ (toyRoot (leaves toyH s2)).length = 32 ∧
    (∀ b1 b2 : Bytes, toyH b1 = toyH b2 → b1 = b2) ∧
    (toyRoot (leaves toyH s1) = toyRoot (leaves toyH s2) → (leaves toyH s1).Perm (leaves toyH s2)) ∧
    NoCollisionOn toyH (pres s1 ++ pres s2) ∧
    ({ p with balancesRoot := toyRoot (leaves toyH s1) } : LabelParts).WF := by
  refine ⟨by decide, by decide, fun b1 b2 h => by simpa [toyH] using h, fun h => absurd h (by decide),
    toyH_noCollision _, ?_⟩
  simp [LabelParts.WF, toyRoot]

example : (77 : Nat) < 2 ^ 64 ∧ (18446744073709551615 : Nat) < 2 ^ 64 := by decide

end Props.C15
