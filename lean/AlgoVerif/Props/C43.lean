/-
C43 — Peers never deliver oversized or duplicate gossip to handlers.

Theorems about Model.Net (the model of network/limited_reader_slurper.go, network/messageFilter.go, the size / dispatch /
dedup rule of wsPeer.readLoop) and about the tag table regenerated from protocol/tags.go (Gen/Tags.lean).
The correspondence of Model.Net with the real code is re-established on every run by checks/C43.py.

  slurper   : slurp_every_step, slurp_bounded, slurp_bytes, slurp_alloc_slack, slurp_total, reset_reclaims   (FULL: every
              reachable slurper state, every limit, every stream, every chunking script)
  filter    : filter_dedup, filter_no_false_positive, incoming_no_false_positive                             (FULL: every
              well-formed filter, every operation sequence)
  tag table : every_tag_limited, deliver_tags_limited                                                         (FULL, finite table)
  read loop : readloop_delivered_bounded_partial, readloop_dedup_partial     (theorems about the model of ONE loop iteration;
              goroutines, channels, websocket framing and decompression are outside the model — see checks/claims/C43.json)
-/
import AlgoVerif.Model.Net
import AlgoVerif.Lemmas.NetSlurper
import AlgoVerif.Lemmas.NetFilter
namespace Props.C43
open Model.Net Lemmas.NetSlurper

variable {α : Type}

/-! ## slurper -/

/-- After EVERY loop iteration of `Read` (whatever the reader returned, whether the loop goes on or returns), from every
    reachable state: the bytes held are within the message limit, the allocated capacity is within maxAllocation, and
    allocation runs at most one allocation step ahead of the bytes held. -/
theorem slurp_every_step (M : Nat) (s : Slurper α) (hs : WF s M) (r : Reader α) :
    let s' := StepOut.state (s.step r)
    WF s' M ∧ (0 < s'.maxSize → s'.size ≤ s'.maxSize) ∧ s'.capacity ≤ M ∧
      (s'.capacity ≤ s'.base.cap ∨ s'.capacity ≤ s'.size + allocationStep) := by
  have h := step_preserves_wf hs r
  exact ⟨h, h.limit, h.capacity_le, h.capacity_slack⟩

/-- the states the theorems quantify over are the reachable ones: construction, Reset and Read (any reader) keep `WF` -/
theorem reachable_make (base maxAlloc : Nat) : WF (Slurper.make base maxAlloc : Slurper α) maxAlloc := wf_make base maxAlloc

theorem reachable_reset (M : Nat) (s : Slurper α) (hs : WF s M) (n : Nat) : WF (s.reset n) M := wf_reset hs n

theorem loop_preserves_wf (M : Nat) : ∀ (f : Nat) (s : Slurper α) (r : Reader α), WF s M → WF (Slurper.loop f s r).2.1 M := by
  intro f
  induction f with
  | zero => intro s r h; exact h
  | succ f ih =>
    intro s r h
    have hst := step_preserves_wf h r
    unfold Slurper.loop
    cases hs : s.step r with
    | done res s' r' => rw [hs] at hst; exact hst
    | cont s' r' => rw [hs] at hst; exact ih s' r' hst

theorem reachable_read (M : Nat) (s : Slurper α) (hs : WF s M) (r : Reader α) : WF (s.read r).2.1 M :=
  loop_preserves_wf M _ s r hs

/-- `Reset(limit); Read(reader)` on any reachable slurper, any stream, any chunking: establishes `Q`. -/
theorem read_after_reset (M : Nat) (s : Slurper α) (hs : WF s M) (limit : Nat) (stream : List α) (script : List RStep)
    (P : Prop) (hP : P → NoFail script) :
    Q M limit stream P ((s.reset limit).read ⟨stream, script⟩).1 ((s.reset limit).read ⟨stream, script⟩).2.1
      ((s.reset limit).read ⟨stream, script⟩).2.2 := by
  have hw := wf_reset hs limit
  have hJ : J M limit stream P (s.reset limit) ⟨stream, script⟩ :=
    ⟨hw, rfl, by simp [Slurper.reset, Slurper.size], by simp [Slurper.reset, Slurper.bytes], hP⟩
  exact loop_spec _ _ _ hJ (Nat.lt_succ_self _)

/-- slurp_bounded: for every chunking (script without reader errors), after `Reset(limit); Read`:
    Size ≤ limit (when there is a limit), allocated capacity ≤ maxAllocation, the result is nil or ErrIncomingMsgTooLarge,
    and it is ErrIncomingMsgTooLarge IFF the stream holds more than the effective limit
    (`limit`, or maxAllocation when limit = 0 or limit > maxAllocation). -/
theorem slurp_bounded (M : Nat) (s : Slurper α) (hs : WF s M) (limit : Nat) (stream : List α) (script : List RStep)
    (hnf : NoFail script) :
    let out := (s.reset limit).read ⟨stream, script⟩
    (0 < limit → out.2.1.size ≤ limit) ∧ out.2.1.capacity ≤ M ∧
      (out.1 = ReadResult.ok ∨ out.1 = ReadResult.tooLarge) ∧
      (out.1 = ReadResult.tooLarge ↔ effLimit limit M < stream.length) := by
  have q := read_after_reset M s hs limit stream script True (fun _ => hnf)
  intro out
  have hlim := q.wf.limit
  rw [q.max] at hlim
  have hres : out.1 = ReadResult.ok ∨ out.1 = ReadResult.tooLarge := by
    have h1 := q.noIo trivial; have h2 := q.noPanic; have h3 := q.noFuel
    show ((s.reset limit).read ⟨stream, script⟩).1 = _ ∨ _
    cases h : ((s.reset limit).read ⟨stream, script⟩).1 <;> simp_all
  refine ⟨hlim, q.wf.capacity_le, hres, ⟨q.tooLarge, ?_⟩⟩
  intro hlong
  rcases hres with hok | htl
  · have := (q.ok hok).2.2; omega
  · exact htl

/-- slurp_bytes: when `Read` returns nil, `Bytes()` is exactly the stream — for every script, reader errors included. -/
theorem slurp_bytes (M : Nat) (s : Slurper α) (hs : WF s M) (limit : Nat) (stream : List α) (script : List RStep) :
    let out := (s.reset limit).read ⟨stream, script⟩
    out.1 = ReadResult.ok → out.2.1.bytes = stream ∧ out.2.1.size = stream.length := by
  have q := read_after_reset M s hs limit stream script False (fun h => h.elim)
  intro out hok
  have h := (q.ok hok).1
  exact ⟨h, by rw [size_eq_bytes_length]; exact congrArg List.length h⟩

/-- whatever the result, `Bytes()` is a prefix of the stream (nothing is invented or reordered) -/
theorem slurp_prefix (M : Nat) (s : Slurper α) (hs : WF s M) (limit : Nat) (stream : List α) (script : List RStep) :
    ∃ rest, ((s.reset limit).read ⟨stream, script⟩).2.1.bytes ++ rest = stream :=
  (read_after_reset M s hs limit stream script False (fun h => h.elim)).pfx

/-- `Read` always returns (fuel suffices) and never indexes `buffers` out of range -/
theorem slurp_total (M : Nat) (s : Slurper α) (hs : WF s M) (limit : Nat) (stream : List α) (script : List RStep) :
    ((s.reset limit).read ⟨stream, script⟩).1 ≠ ReadResult.outOfFuel ∧
    ((s.reset limit).read ⟨stream, script⟩).1 ≠ ReadResult.panic :=
  let q := read_after_reset M s hs limit stream script False (fun h => h.elim)
  ⟨q.noFuel, q.noPanic⟩

/-- "never buffers more than that limit while reading it": with a limit, the capacity allocated for a message never exceeds
    the base allocation or limit + one allocation step -/
theorem slurp_alloc_slack (M : Nat) (s : Slurper α) (hs : WF s M) :
    0 < s.maxSize → s.capacity ≤ s.base.cap ∨ s.capacity ≤ s.maxSize + allocationStep := by
  intro hpos
  have := hs.limit hpos
  rcases hs.capacity_slack with h | h
  · left; exact h
  · right; omega

/-- reset_reclaims: `Reset` returns every extra buffer to the pool: only the base buffer stays allocated and nothing is held -/
theorem reset_reclaims (M : Nat) (s : Slurper α) (hs : WF s M) (n : Nat) :
    (s.reset n).size = 0 ∧ (s.reset n).capacity = s.base.cap ∧ (s.reset n).remained + s.base.cap = M ∧ (s.reset n).maxSize = n := by
  have := hs.total
  refine ⟨by simp [Slurper.reset, Slurper.size], by simp [Slurper.reset, Slurper.capacity], ?_, rfl⟩
  simp only [Slurper.reset, Slurper.capacity] at this ⊢
  omega

/-! non-vacuity: the hypotheses are met by the read loop's own slurper and a real chunking; concrete runs -/

example : WF (wsSlurper : Slurper Nat) Gen.Tags.maxMessageLength := wf_make _ _

example : NoFail [RStep.chunk 3, RStep.chunkEof 5, RStep.chunk 0] := by
  intro st hst n
  simp at hst
  rcases hst with rfl | rfl | rfl <;> simp

-- 7 bytes against a limit of 6: too large, and only what was committed before the check is held
example : (((Slurper.make 4 10 : Slurper Nat).reset 6).read ⟨[1, 2, 3, 4, 5, 6, 7], [RStep.chunk 3]⟩).1 = ReadResult.tooLarge := by
  decide
example : (((Slurper.make 4 10 : Slurper Nat).reset 6).read ⟨[1, 2, 3, 4, 5, 6, 7], [RStep.chunk 3]⟩).2.1.size ≤ 6 := by
  decide
-- 6 bytes against a limit of 6 through 1-byte and empty reads: delivered intact
example : (((Slurper.make 4 10 : Slurper Nat).reset 6).read ⟨[1, 2, 3, 4, 5, 6], [RStep.chunk 1, RStep.chunk 0, RStep.chunkEof 9]⟩).2.1.bytes
    = [1, 2, 3, 4, 5, 6] := by
  decide
example : effLimit 0 10 = 10 ∧ effLimit 6 10 = 6 ∧ effLimit 11 10 = 10 := by decide

/-! ## tag table (tie F: Gen/Tags.lean is regenerated from protocol/tags.go and network/wsPeer.go on every run) -/

/-- every tag of protocol.TagList has a positive limit no larger than MaxMessageLength (the slurper's maxAllocation) -/
theorem every_tag_limited : ∀ p ∈ Gen.Tags.tagList, 0 < p.2 ∧ p.2 ≤ Gen.Tags.maxMessageLength := by
  decide

/-- every tag the read loop hands to the handlers is in the table, so its limit is positive and is the effective limit -/
theorem deliver_tags_limited : ∀ t ∈ wsDeliverTags,
    0 < limitOf wsTable (tagBytes t) ∧ limitOf wsTable (tagBytes t) ≤ Gen.Tags.maxMessageLength := by
  decide

/-! ## message filter -/

section filter
open Lemmas.NetFilter
variable {δ : Type} [DecidableEq δ]

/-- the filters the theorems quantify over are the reachable ones -/
theorem filter_reachable_make (n M : Nat) (hM : 1 ≤ M) (f : Filter δ) (h : Filter.make n M = some f) :
    FInv f ∧ f.buckets.length = n ∧ f.maxBucketSize = M := by
  have := finv_make hM h
  exact ⟨this.1, this.2.1, this.2.2.1⟩

theorem filter_reachable_check (f : Filter δ) (h : FInv f) (e : δ) (add promote : Bool) :
    FInv (f.checkDigest e add promote).1 := check_inv h e add promote

/-- filter_dedup: once `CheckDigest(d, add=true)` reported `d` as new, every later `CheckDigest(d, ·)` reports it as seen,
    for EVERY sequence of intermediate calls (any digests, including `d` itself, any add/promote flags) in which fewer than
    (buckets − 1) · maxBucketSize calls put another digest into the top bucket (a digest reported new, or promoted). -/
theorem filter_dedup (f0 : Filter δ) (h0 : FInv f0) (d : δ) (p0 : Bool)
    (hnew : (f0.checkDigest d true p0).2 = false) (ops : List (Op δ))
    (hwin : costRun d (f0.checkDigest d true p0).1 ops < (f0.buckets.length - 1) * f0.maxBucketSize) (a p : Bool) :
    ((run (f0.checkDigest d true p0).1 ops).checkDigest d a p).2 = true := by
  have hfind : f0.find d = none := by
    rw [check_result] at hnew
    cases h : f0.find d with
    | none => rfl
    | some _ => rw [h] at hnew; cases hnew
  have hr := check_new_retains h0 d p0 hfind (by omega)
  have hi := check_inv h0 d true p0
  have hr2 := run_retains hi hr ops hwin
  rw [check_result]
  exact retains_found (run_inv hi ops) hr2

/-- the same with the window counted in calls: fewer than (buckets − 1) · maxBucketSize adding calls on other digests -/
theorem filter_dedup_calls (f0 : Filter δ) (h0 : FInv f0) (d : δ) (p0 : Bool)
    (hnew : (f0.checkDigest d true p0).2 = false) (ops : List (Op δ))
    (hwin : cost d ops < (f0.buckets.length - 1) * f0.maxBucketSize) (a p : Bool) :
    ((run (f0.checkDigest d true p0).1 ops).checkDigest d a p).2 = true :=
  filter_dedup f0 h0 d p0 hnew ops (Nat.lt_of_le_of_lt (costRun_le_cost d _ ops) hwin) a p

/-- filter_no_false_positive: a digest is only ever reported as seen if an earlier call added exactly that digest -/
theorem filter_no_false_positive (n M : Nat) (hM : 1 ≤ M) (f0 : Filter δ) (hmk : Filter.make n M = some f0)
    (ops : List (Op δ)) (d : δ) (a p : Bool) (hseen : ((run f0 ops).checkDigest d a p).2 = true) :
    ∃ op ∈ ops, op.1 = d ∧ op.2.1 = true := by
  obtain ⟨hinv, _, _, hempty⟩ := finv_make hM hmk
  have hri := run_inv hinv ops
  rw [check_result] at hseen
  cases hf : (run f0 ops).find d with
  | none => rw [hf] at hseen; cases hseen
  | some idx =>
    obtain ⟨_, hmem⟩ := find_some hri.pos hf
    rcases run_mem_inv hinv ops hmem with ⟨j, hj⟩ | h
    · rw [hempty j] at hj; cases hj
    · exact h

/-- CheckIncomingMessage: with a collision-free hash, a message is reported as a duplicate only if the same tag and the same
    bytes were added before (tags have the fixed length TagLength, so tag ‖ msg splits uniquely) -/
theorem incoming_no_false_positive {β : Type} (H : List β → δ) (hH : Function.Injective H) (nonce : List β)
    (n M : Nat) (hM : 1 ≤ M) (f0 : Filter δ) (hmk : Filter.make n M = some f0)
    (msgs : List ((List β × List β) × Bool × Bool)) (hlen : ∀ m ∈ msgs, m.1.1.length = Gen.Tags.tagLength)
    (tag msg : List β) (htag : tag.length = Gen.Tags.tagLength) (a p : Bool)
    (hseen : ((run f0 (msgs.map (fun m => (H (nonce ++ m.1.1 ++ m.1.2), m.2.1, m.2.2)))).checkIncomingMessage H nonce tag msg a p).2 = true) :
    ∃ m ∈ msgs, m.1 = (tag, msg) ∧ m.2.1 = true := by
  unfold Filter.checkIncomingMessage at hseen
  obtain ⟨op, hop, h1, h2⟩ := filter_no_false_positive n M hM f0 hmk _ _ a p hseen
  obtain ⟨m, hm, rfl⟩ := List.mem_map.mp hop
  refine ⟨m, hm, ?_, h2⟩
  have heq := hH h1
  rw [List.append_assoc, List.append_assoc] at heq
  have h3 := List.append_cancel_left heq
  have h4 := List.append_inj h3 (by rw [hlen m hm, htag])
  exact Prod.ext h4.1 h4.2

/-! non-vacuity and tightness of the window: 3 buckets of 2 -/

/-- `makeMessageFilter(3, 2)` -/
def exFilter : Filter Nat := { buckets := [[], [], []], maxBucketSize := 2, top := 0 }

example : Filter.make 3 2 = some exFilter := rfl
example : FInv exFilter := (finv_make (n := 3) (M := 2) (by decide) rfl).1

-- after `7` was reported new, three insertions of other digests (< (3-1)*2 = 4) leave it in the filter …
example : (exFilter.checkDigest 7 true true).2 = false := by decide
example : ((run (exFilter.checkDigest 7 true true).1 [(1, true, true), (2, true, false), (3, true, true)]).checkDigest 7 true true).2
    = true := by decide
example : costRun 7 (exFilter.checkDigest 7 true true).1 [(1, true, true), (2, true, false), (3, true, true)] = 3 := by decide
-- … and the bound is tight: when `7` itself filled its bucket, the fourth insertion drops it
example : ((run ((exFilter.checkDigest 9 true true).1.checkDigest 7 true true).1
      [(1, true, true), (2, true, false), (3, true, true), (4, true, true)]).checkDigest 7 true true).2 = false := by decide

/-- why the window is counted in insertions into the top bucket and not in "distinct newer digests": a PROMOTION of an
    older digest fills the top bucket as well. 2 buckets of 2 (window 2): `1` is older than `7`; after `7` only ONE new digest
    (`2`) arrives, then the old `1` is seen again with promote = true — and `7` is gone. (The read loop always promotes.) -/
example :
    let f : Filter Nat := { buckets := [[], []], maxBucketSize := 2, top := 0 }
    let f1 := ((f.checkDigest 1 true true).1.checkDigest 7 true true).1
    ((run f1 [(2, true, true), (1, true, true)]).checkDigest 7 true true).2 = false ∧
      costRun 7 f1 [(2, true, true), (1, true, true)] = 2 := by decide

end filter

/-! ## read loop (one iteration, in the configuration of the current source) -/

section readloop
open Lemmas.NetFilter
variable {δ : Type} [DecidableEq δ]

theorem readFull_spec : ∀ (fuel : Nat) (r : Reader α) (k : Nat) (got t : List α) (r1 : Reader α),
    got.length ≤ k → readFull fuel r k got = (some t, r1) → t ++ r1.stream = got ++ r.stream ∧ t.length = k := by
  intro fuel
  induction fuel with
  | zero => intro r k got t r1 _ h; simp [readFull] at h
  | succ f ih =>
    intro r k got t r1 hgot h
    unfold readFull at h
    by_cases hk : got.length ≥ k
    · rw [if_pos hk] at h
      injection h with h1 h2
      injection h1 with h1
      subst h1; subst h2
      exact ⟨rfl, by omega⟩
    · rw [if_neg hk] at h
      have hrs := read_spec r (k - got.length)
      generalize r.read (k - got.length) = out at hrs h
      obtain ⟨bs, err, r'⟩ := out
      have hsplit : bs ++ r'.stream = r.stream := hrs.split
      have hlen : bs.length ≤ k - got.length := hrs.len
      simp only [] at h
      have hlen' : (got ++ bs).length ≤ k := by simp; omega
      cases err with
      | nil =>
        simp only [] at h
        obtain ⟨h1, h2⟩ := ih r' k (got ++ bs) t r1 hlen' h
        exact ⟨by rw [h1, List.append_assoc, hsplit], h2⟩
      | eof =>
        simp only [] at h
        split at h
        · injection h with h1 h2
          injection h1 with h1
          subst h1; subst h2
          exact ⟨by rw [List.append_assoc, hsplit], by omega⟩
        · injection h with h1; cases h1
      | other =>
        simp only [] at h
        split at h
        · injection h with h1 h2
          injection h1 with h1
          subst h1; subst h2
          exact ⟨by rw [List.append_assoc, hsplit], by omega⟩
        · injection h with h1; cases h1

/-- the tags the `switch` lets through all have a positive limit within maxAllocation -/
theorem dispatch_deliver_limited (tag : List Nat) (h : wsDispatch tag = Dispatch.deliver) :
    0 < limitOf wsTable tag ∧ limitOf wsTable tag ≤ Gen.Tags.maxMessageLength := by
  unfold wsDispatch at h
  split at h
  · rename_i hc
    have hm := List.contains_iff_mem.mp hc
    obtain ⟨t, ht, rfl⟩ := List.mem_map.mp hm
    exact deliver_tags_limited t ht
  · cases h

/-- readloop (partial: one iteration of the model, see header): whatever the frame chunking and whatever the state of
    the peer's slurper, a message handed to the handlers carries a tag the `switch` lets through, that tag has a positive size
    limit, the message is no longer than that limit, and it is exactly the bytes that followed the 2-byte tag on the wire. -/
theorem readloop_delivered_bounded_partial (H : List Nat → δ) (nonce : List Nat) (p p' : PeerState Nat)
    (hp : WF p.slurper Gen.Tags.maxMessageLength) (flt flt' : Option (Filter δ)) (r : Reader Nat) (tag data : List Nat)
    (h : readLoopMsg wsTable wsDispatch wsDedupSafe wsClosesEarly H nonce p flt r = (Outcome.delivered tag data, p', flt')) :
    wsDispatch tag = Dispatch.deliver ∧ 0 < limitOf wsTable tag ∧ data.length ≤ limitOf wsTable tag ∧
      tag ++ data = r.stream ∧ tag.length = 2 ∧ WF p'.slurper Gen.Tags.maxMessageLength := by
  unfold readLoopMsg at h
  split at h
  · cases h
  · split at h
    · cases h
    · rename_i tg r1 hrf
      split at h
      · cases h
      · simp only [] at h
        obtain ⟨htagspec, htaglen⟩ := readFull_spec _ r 2 [] tg r1 (by simp) hrf
        have q := read_after_reset Gen.Tags.maxMessageLength p.slurper hp (limitOf wsTable tg) r1.stream r1.script False
          (fun hf => hf.elim)
        have hr1 : (⟨r1.stream, r1.script⟩ : Reader Nat) = r1 := rfl
        rw [hr1] at q
        split at h
        · rename_i s1 r2 hread
          rw [hread] at q
          have hok := q.ok rfl
          have hdel : ∀ (x : PeerState Nat) (y : Option (Filter δ)),
              (Outcome.delivered tg s1.bytes, x, y) = (Outcome.delivered tag data, p', flt') → x.slurper = s1 →
              wsDispatch tg = Dispatch.deliver →
              wsDispatch tag = Dispatch.deliver ∧ 0 < limitOf wsTable tag ∧ data.length ≤ limitOf wsTable tag ∧
                tag ++ data = r.stream ∧ tag.length = 2 ∧ WF p'.slurper Gen.Tags.maxMessageLength := by
            intro x y ho h2 hdisp
            injection ho with h1 hxy
            injection hxy with hx _
            subst hx
            injection h1 with ht hd
            subst ht; subst hd
            have hl := dispatch_deliver_limited tg hdisp
            have heff : effLimit (limitOf wsTable tg) Gen.Tags.maxMessageLength = limitOf wsTable tg := by
              unfold effLimit; rw [if_neg (by omega)]
            refine ⟨hdisp, hl.1, ?_, ?_, htaglen, by rw [h2]; exact q.wf⟩
            · rw [hok.1, ← heff]; exact hok.2.2
            · rw [hok.1]; simpa using htagspec
          split at h
          · cases h
          · rename_i hdisp
            split at h
            · split at h
              · split at h
                · cases h
                · exact hdel _ _ h rfl hdisp
              · exact hdel _ _ h rfl hdisp
            · exact hdel _ _ h rfl hdisp
        · cases h

/-- readloop (partial): a dedup-safe, non-empty message is handed on only if the shared filter reported it as new -/
theorem readloop_dedup_partial (H : List Nat → δ) (nonce : List Nat) (p p' : PeerState Nat)
    (f : Filter δ) (flt' : Option (Filter δ)) (r : Reader Nat) (tag data : List Nat)
    (h : readLoopMsg wsTable wsDispatch wsDedupSafe wsClosesEarly H nonce p (some f) r = (Outcome.delivered tag data, p', flt'))
    (hsafe : wsDedupSafe tag = true) (hne : data ≠ []) :
    (f.checkIncomingMessage H nonce tag data true true).2 = false ∧
      flt' = some (f.checkIncomingMessage H nonce tag data true true).1 := by
  unfold readLoopMsg at h
  split at h
  · cases h
  · split at h
    · cases h
    · split at h
      · cases h
      · simp only [] at h
        split at h
        · split at h
          · cases h
          · split at h
            · split at h
              · cases h
              · rename_i hdup
                injection h with h1 h2
                injection h1 with ht hd
                injection h2 with _ h3
                subst ht; subst hd
                exact ⟨by simpa using hdup, h3.symm⟩
            · rename_i hcond
              have hpos : 0 < data.length := List.length_pos_iff.mpr hne
              injection h with h1 _
              injection h1 with ht hd
              subst ht; subst hd
              exfalso
              apply hcond
              simp [hsafe, hpos]
        · cases h

end readloop

/-- only votes and transactions are de-duplicated on receipt (`dedupSafeTag`, extracted from the current source) -/
theorem dedup_only_safe_tags : Gen.Tags.dedupSafeTags = ["AV", "TX"] := by decide

end Props.C43
