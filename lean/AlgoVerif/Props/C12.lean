/-
C12 — Reported account totals equal the sum over accounts.
Theorems about `Model.Totals` (the hand-written plumbing of ledgercore/totals.go, eval/cow.go CalculateTotals and the
roundTotals slice of acctupdates.go), whose arithmetic is the go2lean translation of data/basics (Gen.Basics, Gen.Rewards;
exactness from Props.C45), and about the translated `All` / `Participating` / `RewardUnits` (Gen.Totals).
-/
import AlgoVerif.Model.Totals
import AlgoVerif.Gen.Totals
import AlgoVerif.Props.C45
namespace Props.C12
open AlgoVerif.U64 Gen.Basics Gen.Rewards AlgoVerif.Model.Totals Props.C45

/-- 2^64 -/
def M : Nat := 18446744073709551616
theorem M_eq : (2:Nat)^64 = M := by decide

/-! ## The overflow tracker in closed form (from the C45 exactness theorems) -/

theorem addA_eq (t : Bool) (a b : Nat) : OverflowTracker_AddA t a b = OverflowTracker_Add t a b := by
  show (match OverflowTracker_Add t a b with | (c_1, t) => (c_1, t)) = OverflowTracker_Add t a b
  rfl
theorem subA_eq (t : Bool) (a b : Nat) : OverflowTracker_SubA t a b = OverflowTracker_Sub t a b := by
  show (match OverflowTracker_Sub t a b with | (c_1, t) => (c_1, t)) = OverflowTracker_Sub t a b
  rfl

theorem ot_add (t : Bool) (a b : Nat) (ha : a < M) (hb : b < M) :
    OverflowTracker_Add t a b = ((a + b) % M, t || decide (M ≤ a + b)) := by
  rw [← M_eq] at *; exact tracker_add t a b ha hb

theorem ot_sub (t : Bool) (a b : Nat) (ha : a < M) (hb : b < M) :
    OverflowTracker_Sub t a b = (if b ≤ a then a - b else a + M - b, t || decide (a < b)) := by
  rw [← M_eq] at *
  unfold OverflowTracker_Sub
  rw [osub_exact 64 a b ha hb]
  cases t <;> by_cases h : a < b <;> simp [h]

theorem ot_mul (t : Bool) (a b : Nat) (ha : a < M) (hb : b < M) :
    OverflowTracker_Mul t a b = (if a * b < M then a * b else 0, t || decide (M ≤ a * b)) := by
  rw [← M_eq] at *
  unfold OverflowTracker_Mul
  rw [omul_exact 64 a b ha hb]
  cases t <;> by_cases h : 2^64 ≤ a * b <;> simp [h]

theorem ot_add_ok (t : Bool) (a b : Nat) (h : a + b < M) : OverflowTracker_Add t a b = (a + b, t) := by
  rw [ot_add t a b (by omega) (by omega), Nat.mod_eq_of_lt h]
  have : ¬ M ≤ a + b := by omega
  simp [this]
theorem ot_sub_ok (t : Bool) (a b : Nat) (ha : a < M) (h : b ≤ a) : OverflowTracker_Sub t a b = (a - b, t) := by
  rw [ot_sub t a b ha (by omega), if_pos h]
  have : ¬ a < b := by omega
  simp [this]
theorem ot_mul_ok (t : Bool) (a b : Nat) (ha : a < M) (hb : b < M) (h : a * b < M) : OverflowTracker_Mul t a b = (a * b, t) := by
  rw [ot_mul t a b ha hb, if_pos h]
  have : ¬ M ≤ a * b := by omega
  simp [this]

/-! ## `basics.WithUpdatedRewards` in closed form (the regenerated definition `Gen.Rewards.WithUpdatedRewards`) -/

/-- a non-participating account is returned untouched -/
theorem with_updated_rewards_np (unit alg rw base L : Nat) :
    WithUpdatedRewards unit 2 alg rw base L = some (alg, rw, base) := by
  unfold WithUpdatedRewards; simp

/-- a participating account at base `b` is credited exactly `⌊alg/unit⌋·(L − b)`; the call fails (the Go code panics) exactly
when `L < b` or the product or the sum leaves 64 bits -/
theorem with_updated_rewards (unit st alg rw base L : Nat) (hst : st ≠ 2)
    (halg : alg < M) (hbase : base < M) (hL : L < M) :
    WithUpdatedRewards unit st alg rw base L =
      if base ≤ L ∧ alg / unit * (L - base) < M ∧ alg + alg / unit * (L - base) < M
      then some (alg + alg / unit * (L - base), uadd 64 rw (alg / unit * (L - base)), L) else none := by
  unfold WithUpdatedRewards
  rw [if_neg (by simpa using hst)]
  have hu : alg / unit < M := Nat.lt_of_le_of_lt (Nat.div_le_self _ _) halg
  have hru : MicroAlgos_RewardUnits alg unit = alg / unit := rfl
  -- zeta only: reducing the nested matches while their discriminants are still the tracker calls makes `whnf` peel 2^64
  simp (config := { iota := false }) only [hru]
  rw [ot_sub false L base hL hbase]
  generalize hc1 : (if base ≤ L then L - base else L + M - base) = c1
  have hc1M : c1 < M := by rw [← hc1]; split <;> omega
  generalize ho1 : (false || decide (L < base)) = o1
  simp only []
  rw [ot_mul _ _ _ hu hc1M]
  simp only []
  generalize hc2 : (if alg / unit * c1 < M then alg / unit * c1 else 0) = c2
  have hc2M : c2 < M := by rw [← hc2]; split <;> omega
  rw [addA_eq, ot_add _ _ _ halg hc2M]
  simp only []
  subst ho1 hc1 hc2
  by_cases hbl : base ≤ L
  · have h1 : ¬ L < base := by omega
    rw [if_pos hbl]
    by_cases hm : alg / unit * (L - base) < M
    · have h2 : ¬ M ≤ alg / unit * (L - base) := by omega
      rw [if_pos hm]
      by_cases hs : alg + alg / unit * (L - base) < M
      · have h3 : ¬ M ≤ alg + alg / unit * (L - base) := by omega
        simp [h1, h2, h3, hbl, hm, hs, Nat.mod_eq_of_lt hs]
      · have h3 : M ≤ alg + alg / unit * (L - base) := by omega
        simp [h3, hs]
    · have h2 : M ≤ alg / unit * (L - base) := by omega
      simp [h2, hm]
  · have h1 : L < base := by omega
    simp [h1, hbl]

/-- `AccountData.Money` does not depend on `RewardedMicroAlgos` -/
theorem money_indep_rewarded (unit st alg rw rw' base L : Nat) :
    (WithUpdatedRewards unit st alg rw base L).map (·.1) = (WithUpdatedRewards unit st alg rw' base L).map (·.1) := by
  unfold WithUpdatedRewards
  by_cases hst : st = 2
  · simp [hst]
  · rw [if_neg (by simpa using hst), if_neg (by simpa using hst)]
    simp (config := { iota := false }) only []
    generalize OverflowTracker_Sub false L base = s
    obtain ⟨c1, o1⟩ := s
    simp only []
    generalize OverflowTracker_Mul o1 (MicroAlgos_RewardUnits alg unit) c1 = m
    obtain ⟨c2, o2⟩ := m
    simp only []
    generalize OverflowTracker_AddA o2 alg c2 = a
    obtain ⟨c3, o3⟩ := a
    cases o3 <;> simp

/-! ## The model's functions in closed form when nothing overflows -/

theorem money_np (unit : Nat) (a : Acct) (L : Nat) (h : a.status = 2) : money unit a L = some a.algos := by
  unfold money; rw [h, with_updated_rewards_np]

theorem money_part (unit : Nat) (a : Acct) (L : Nat) (h : a.status ≠ 2) (halg : a.algos < M) (hb : a.base < M) (hL : L < M) :
    money unit a L =
      if a.base ≤ L ∧ a.algos / unit * (L - a.base) < M ∧ a.algos + a.algos / unit * (L - a.base) < M
      then some (a.algos + a.algos / unit * (L - a.base)) else none := by
  unfold money; rw [with_updated_rewards unit a.status a.algos 0 a.base L h halg hb hL]
  by_cases hc : a.base ≤ L ∧ a.algos / unit * (L - a.base) < M ∧ a.algos + a.algos / unit * (L - a.base) < M
  · rw [if_pos hc, if_pos hc]
  · rw [if_neg hc, if_neg hc]

theorem acctMoney_ge_algos (unit L : Nat) (a : Acct) : a.algos ≤ acctMoney unit L a := by
  unfold acctMoney; split <;> omega

theorem acctUnits_le_algos (unit : Nat) (a : Acct) : acctUnits unit a ≤ a.algos := Nat.div_le_self _ _

/-- `Money` returns the exact balance with pending rewards whenever that fits 64 bits and the level is not below the base -/
theorem money_ok (unit : Nat) (a : Acct) (L : Nat) (hL : L < M) (hb : a.status ≠ 2 → a.base ≤ L)
    (hfit : acctMoney unit L a < M) : money unit a L = some (acctMoney unit L a) := by
  by_cases h : a.status = 2
  · rw [money_np unit a L h]; unfold acctMoney; rw [if_pos h]
  · have hbl := hb h
    have halg : a.algos < M := Nat.lt_of_le_of_lt (acctMoney_ge_algos unit L a) hfit
    unfold acctMoney at hfit ⊢
    rw [if_neg h] at hfit ⊢
    rw [money_part unit a L h halg (by omega) hL, if_pos ⟨hbl, by omega, hfit⟩]

theorem ac_apply_ok (ac : AlgoCount) (rpu : Nat) (ot : Bool) (hu : ac.rewardUnits < M) (hr : rpu < M)
    (h : ac.money + ac.rewardUnits * rpu < M) :
    ac.applyRewards rpu ot = ({ ac with money := ac.money + ac.rewardUnits * rpu }, ot) := by
  unfold AlgoCount.applyRewards
  rw [ot_mul_ok ot _ _ hu hr (by omega)]
  simp only []
  rw [addA_eq, ot_add_ok ot _ _ h]

theorem applyRewards_ok (t : AccountTotals) (L' : Nat) (ot : Bool) (hlev : t.rewardsLevel ≤ L') (hL' : L' < M)
    (hon_u : t.online.rewardUnits < M) (hon : t.online.money + t.online.rewardUnits * (L' - t.rewardsLevel) < M)
    (hoff_u : t.offline.rewardUnits < M) (hoff : t.offline.money + t.offline.rewardUnits * (L' - t.rewardsLevel) < M) :
    applyRewards t L' ot =
      ({ t with rewardsLevel := L',
                online := { t.online with money := t.online.money + t.online.rewardUnits * (L' - t.rewardsLevel) },
                offline := { t.offline with money := t.offline.money + t.offline.rewardUnits * (L' - t.rewardsLevel) } }, ot) := by
  unfold applyRewards
  rw [ot_sub_ok ot L' t.rewardsLevel hL' hlev]
  simp only []
  rw [ac_apply_ok t.online _ ot hon_u (by omega) hon]
  simp only []
  rw [ac_apply_ok t.offline _ ot hoff_u (by omega) hoff]

theorem addAccount_ok (unit : Nat) (t : AccountTotals) (d : Acct) (ot : Bool) (sum : AlgoCount)
    (hg : getField t d.status = some sum) (hL : t.rewardsLevel < M) (hb : d.status ≠ 2 → d.base ≤ t.rewardsLevel)
    (hm : sum.money + acctMoney unit t.rewardsLevel d < M) (hu : sum.rewardUnits + acctUnits unit d < M) :
    addAccount unit t d ot =
      some (setField t d.status ⟨sum.money + acctMoney unit t.rewardsLevel d, sum.rewardUnits + acctUnits unit d⟩, ot) := by
  unfold addAccount
  rw [hg, money_ok unit d t.rewardsLevel hL hb (by omega)]
  simp only []
  rw [addA_eq, ot_add_ok ot _ _ hm]
  simp only []
  have hru : MicroAlgos_RewardUnits d.algos unit = acctUnits unit d := rfl
  rw [hru, ot_add_ok ot _ _ hu]

theorem delAccount_ok (unit : Nat) (t : AccountTotals) (d : Acct) (ot : Bool) (sum : AlgoCount)
    (hg : getField t d.status = some sum) (hL : t.rewardsLevel < M) (hb : d.status ≠ 2 → d.base ≤ t.rewardsLevel)
    (hsm : sum.money < M) (hsu : sum.rewardUnits < M)
    (hm : acctMoney unit t.rewardsLevel d ≤ sum.money) (hu : acctUnits unit d ≤ sum.rewardUnits) :
    delAccount unit t d ot =
      some (setField t d.status ⟨sum.money - acctMoney unit t.rewardsLevel d, sum.rewardUnits - acctUnits unit d⟩, ot) := by
  unfold delAccount
  rw [hg, money_ok unit d t.rewardsLevel hL hb (by omega)]
  simp only []
  rw [subA_eq, ot_sub_ok ot _ _ hsm hm]
  simp only []
  have hru : MicroAlgos_RewardUnits d.algos unit = acctUnits unit d := rfl
  rw [hru, ot_sub_ok ot _ _ hsu hu]

/-! ## Sums over a finite account map -/

def zeroAcct : Acct := {}

/-- contribution of one account to the money of bucket `s` -/
def mOf (unit L s : Nat) (a : Acct) : Nat := if a.status = s then acctMoney unit L a else 0
/-- contribution of one account to the reward units of bucket `s` -/
def uOf (unit s : Nat) (a : Acct) : Nat := if a.status = s then acctUnits unit a else 0

theorem bucketMoney_eq (unit L s : Nat) (dom : List Addr) (A : AMap) :
    bucketMoney unit L s dom A = (dom.map (fun k => mOf unit L s (A k))).sum := rfl
theorem bucketUnits_eq (unit s : Nat) (dom : List Addr) (A : AMap) :
    bucketUnits unit s dom A = (dom.map (fun k => uOf unit s (A k))).sum := rfl
theorem totalMoney_eq (unit L : Nat) (dom : List Addr) (A : AMap) :
    totalMoney unit L dom A = (dom.map (fun k => acctMoney unit L (A k))).sum := rfl

theorem set_same (A : AMap) (k : Addr) (v : Acct) : (A.set k v) k = v := by simp [AMap.set]
theorem set_other (A : AMap) (k x : Addr) (v : Acct) (h : x ≠ k) : (A.set k v) x = A x := by simp [AMap.set, h]
theorem set_set (A : AMap) (k : Addr) (v w : Acct) : (A.set k v).set k w = A.set k w := by
  funext x; by_cases h : x = k <;> simp [AMap.set, h]

theorem sum_map_set_notin (f : Acct → Nat) (dom : List Addr) (A : AMap) (k : Addr) (v : Acct) (hk : k ∉ dom) :
    (dom.map (fun x => f ((A.set k v) x))).sum = (dom.map (fun x => f (A x))).sum := by
  induction dom with
  | nil => rfl
  | cons x xs ih =>
    have hx : x ≠ k := fun h => hk (by simp [h])
    have hxs : k ∉ xs := fun h => hk (by simp [h])
    simp only [List.map_cons, List.sum_cons, set_other A k x v hx, ih hxs]

/-- replacing one account of the map changes a sum by exactly that account's contribution -/
theorem sum_map_set (f : Acct → Nat) (dom : List Addr) (A : AMap) (k : Addr) (v : Acct) (hnd : dom.Nodup) (hk : k ∈ dom) :
    (dom.map (fun x => f ((A.set k v) x))).sum + f (A k) = (dom.map (fun x => f (A x))).sum + f v := by
  induction dom with
  | nil => cases hk
  | cons x xs ih =>
    have hnd' := List.nodup_cons.mp hnd
    by_cases hx : x = k
    · subst hx
      simp only [List.map_cons, List.sum_cons, set_same, sum_map_set_notin f xs A x v hnd'.1]
      omega
    · have hk' : k ∈ xs := by
        rcases List.mem_cons.mp hk with h | h
        · exact absurd h.symm hx
        · exact h
      have := ih hnd'.2 hk'
      simp only [List.map_cons, List.sum_cons, set_other A k x v hx]
      omega

theorem mem_le_sum (f : Acct → Nat) (dom : List Addr) (A : AMap) (k : Addr) (hk : k ∈ dom) :
    f (A k) ≤ (dom.map (fun x => f (A x))).sum := by
  induction dom with
  | nil => cases hk
  | cons x xs ih =>
    simp only [List.map_cons, List.sum_cons]
    rcases List.mem_cons.mp hk with h | h
    · subst h; omega
    · have := ih h; omega

theorem sum_map_le (f g : Acct → Nat) (h : ∀ a, f a ≤ g a) (dom : List Addr) (A : AMap) :
    (dom.map (fun x => f (A x))).sum ≤ (dom.map (fun x => g (A x))).sum := by
  induction dom with
  | nil => simp
  | cons x xs ih => simp only [List.map_cons, List.sum_cons]; have := h (A x); omega

theorem mOf_le (unit L s : Nat) (a : Acct) : mOf unit L s a ≤ acctMoney unit L a := by
  unfold mOf; split <;> omega
theorem uOf_le_mOf (unit L s : Nat) (a : Acct) : uOf unit s a ≤ mOf unit L s a := by
  unfold uOf mOf; split
  · exact Nat.le_trans (acctUnits_le_algos unit a) (acctMoney_ge_algos unit L a)
  · omega
theorem mOf_zero (unit L s : Nat) : mOf unit L s zeroAcct = 0 := by
  unfold mOf acctMoney zeroAcct; simp
theorem uOf_zero (unit s : Nat) : uOf unit s zeroAcct = 0 := by
  unfold uOf acctUnits zeroAcct; simp

theorem bucketMoney_le_total (unit L s : Nat) (dom : List Addr) (A : AMap) :
    bucketMoney unit L s dom A ≤ totalMoney unit L dom A :=
  sum_map_le _ _ (mOf_le unit L s) dom A
theorem bucketUnits_le_money (unit L s : Nat) (dom : List Addr) (A : AMap) :
    bucketUnits unit s dom A ≤ bucketMoney unit L s dom A :=
  sum_map_le _ _ (uOf_le_mOf unit L s) dom A

/-- every status is one of the three known ones (no `statusField` panic) -/
def Valid (dom : List Addr) (A : AMap) : Prop := ∀ k ∈ dom, (A k).status ≤ 2
/-- no participating account has a rewards base above the level (no `WithUpdatedRewards` panic) -/
def BaseOK (dom : List Addr) (A : AMap) (L : Nat) : Prop := ∀ k ∈ dom, (A k).status ≠ 2 → (A k).base ≤ L

theorem three (s : Nat) (h : s ≤ 2) : s = 0 ∨ s = 1 ∨ s = 2 := by omega

theorem getField_Sum (unit : Nat) (dom : List Addr) (A : AMap) (L s : Nat) (hs : s ≤ 2) :
    getField (SumOf unit dom A L) s = some ⟨bucketMoney unit L s dom A, bucketUnits unit s dom A⟩ := by
  rcases three s hs with rfl | rfl | rfl <;> rfl

theorem getField_setField (t : AccountTotals) (s s' : Nat) (c : AlgoCount) (hs : s ≤ 2) (hs' : s' ≤ 2) :
    getField (setField t s c) s' = if s' = s then some c else getField t s' := by
  rcases three s hs with rfl | rfl | rfl <;> rcases three s' hs' with rfl | rfl | rfl <;> simp [getField, setField]

theorem level_setField (t : AccountTotals) (s : Nat) (c : AlgoCount) : (setField t s c).rewardsLevel = t.rewardsLevel := by
  unfold setField; split
  · rfl
  · split <;> rfl

theorem totals_ext (t t' : AccountTotals) (hl : t.rewardsLevel = t'.rewardsLevel)
    (h : ∀ s, s ≤ 2 → getField t s = getField t' s) : t = t' := by
  obtain ⟨on, off, np, l⟩ := t
  obtain ⟨on', off', np', l'⟩ := t'
  have h1 := h 1 (by omega)
  have h0 := h 0 (by omega)
  have h2 := h 2 (by omega)
  simp [getField] at h1 h0 h2
  simp at hl
  subst hl h1 h0 h2
  rfl

theorem level_Sum (unit : Nat) (dom : List Addr) (A : AMap) (L : Nat) : (SumOf unit dom A L).rewardsLevel = L := rfl

/-- `DelAccount` of the account stored at `k` turns the sums of `B` into the sums of `B` without that account -/
theorem del_exact (unit : Nat) (dom : List Addr) (B : AMap) (L' : Nat) (k : Addr) (hnd : dom.Nodup) (hk : k ∈ dom)
    (hv : Valid dom B) (hbase : BaseOK dom B L') (hL' : L' < M) (hfit : totalMoney unit L' dom B < M) (ot : Bool) :
    delAccount unit (SumOf unit dom B L') (B k) ot = some (SumOf unit dom (B.set k zeroAcct) L', ot) := by
  have hs := hv k hk
  have hbm := bucketMoney_le_total unit L' (B k).status dom B
  have hbu := bucketUnits_le_money unit L' (B k).status dom B
  have hmem_m : mOf unit L' (B k).status (B k) ≤ bucketMoney unit L' (B k).status dom B :=
    mem_le_sum (mOf unit L' (B k).status) dom B k hk
  have hmem_u : uOf unit (B k).status (B k) ≤ bucketUnits unit (B k).status dom B :=
    mem_le_sum (uOf unit (B k).status) dom B k hk
  have hm1 : mOf unit L' (B k).status (B k) = acctMoney unit L' (B k) := by simp [mOf]
  have hu1 : uOf unit (B k).status (B k) = acctUnits unit (B k) := by simp [uOf]
  rw [delAccount_ok unit (SumOf unit dom B L') (B k) ot _ (getField_Sum unit dom B L' _ hs) hL' (hbase k hk)
        (by show bucketMoney unit L' (B k).status dom B < M; omega)
        (by show bucketUnits unit (B k).status dom B < M; omega)
        (by show acctMoney unit L' (B k) ≤ bucketMoney unit L' (B k).status dom B; omega)
        (by show acctUnits unit (B k) ≤ bucketUnits unit (B k).status dom B; omega)]
  congr 1; congr 1
  apply totals_ext
  · rw [level_setField]; rfl
  · intro s hs'
    rw [getField_setField _ _ _ _ hs hs', getField_Sum unit dom (B.set k zeroAcct) L' s hs', getField_Sum unit dom B L' s hs']
    have em := sum_map_set (mOf unit L' s) dom B k zeroAcct hnd hk
    have eu := sum_map_set (uOf unit s) dom B k zeroAcct hnd hk
    rw [mOf_zero] at em
    rw [uOf_zero] at eu
    rw [← bucketMoney_eq, ← bucketMoney_eq] at em
    rw [← bucketUnits_eq, ← bucketUnits_eq] at eu
    by_cases hss : s = (B k).status
    · subst hss
      rw [if_pos rfl]
      simp only [level_Sum]
      congr 2 <;> omega
    · rw [if_neg hss]
      have hm0 : mOf unit L' s (B k) = 0 := by simp [mOf, Ne.symm hss]
      have hu0 : uOf unit s (B k) = 0 := by simp [uOf, Ne.symm hss]
      congr 2 <;> omega

/-- `AddAccount` of `v` at an address holding no account turns the sums of `B` into the sums of `B[k := v]` -/
theorem add_exact (unit : Nat) (dom : List Addr) (B : AMap) (L' : Nat) (k : Addr) (v : Acct) (hnd : dom.Nodup) (hk : k ∈ dom)
    (hz : B k = zeroAcct) (hvs : v.status ≤ 2) (hvb : v.status ≠ 2 → v.base ≤ L') (hL' : L' < M)
    (hfit : totalMoney unit L' dom (B.set k v) < M) (ot : Bool) :
    addAccount unit (SumOf unit dom B L') v ot = some (SumOf unit dom (B.set k v) L', ot) := by
  have hbm := bucketMoney_le_total unit L' v.status dom (B.set k v)
  have hbu := bucketUnits_le_money unit L' v.status dom (B.set k v)
  have em := sum_map_set (mOf unit L' v.status) dom B k v hnd hk
  have eu := sum_map_set (uOf unit v.status) dom B k v hnd hk
  rw [hz, mOf_zero, ← bucketMoney_eq, ← bucketMoney_eq] at em
  rw [hz, uOf_zero, ← bucketUnits_eq, ← bucketUnits_eq] at eu
  have hm1 : mOf unit L' v.status v = acctMoney unit L' v := by simp [mOf]
  have hu1 : uOf unit v.status v = acctUnits unit v := by simp [uOf]
  rw [addAccount_ok unit (SumOf unit dom B L') v ot _ (getField_Sum unit dom B L' _ hvs) hL' hvb
        (by show bucketMoney unit L' v.status dom B + acctMoney unit L' v < M; omega)
        (by show bucketUnits unit v.status dom B + acctUnits unit v < M; omega)]
  congr 1; congr 1
  apply totals_ext
  · rw [level_setField]; rfl
  · intro s hs'
    rw [getField_setField _ _ _ _ hvs hs', getField_Sum unit dom (B.set k v) L' s hs', getField_Sum unit dom B L' s hs']
    by_cases hss : s = v.status
    · subst hss
      rw [if_pos rfl]
      simp only [level_Sum]
      congr 2 <;> omega
    · rw [if_neg hss]
      have em' := sum_map_set (mOf unit L' s) dom B k v hnd hk
      have eu' := sum_map_set (uOf unit s) dom B k v hnd hk
      rw [hz, mOf_zero, ← bucketMoney_eq, ← bucketMoney_eq] at em'
      rw [hz, uOf_zero, ← bucketUnits_eq, ← bucketUnits_eq] at eu'
      have hm0 : mOf unit L' s v = 0 := by simp [mOf, Ne.symm hss]
      have hu0 : uOf unit s v = 0 := by simp [uOf, Ne.symm hss]
      congr 2 <;> omega

/-! ## `ApplyRewards`: every participating account is credited `units·(L' − L)` simultaneously -/

theorem mOf_rewards (unit L L' s : Nat) (a : Acct) (hs : s ≠ 2) (hb : a.status ≠ 2 → a.base ≤ L) (hLL : L ≤ L') :
    mOf unit L s a + uOf unit s a * (L' - L) = mOf unit L' s a := by
  unfold mOf uOf
  by_cases h : a.status = s
  · have h2 : a.status ≠ 2 := by omega
    have hbl := hb h2
    simp only [if_pos h, acctMoney, if_neg h2, acctUnits]
    have e : L' - a.base = (L - a.base) + (L' - L) := by omega
    rw [e, Nat.mul_add]; omega
  · simp [if_neg h]

theorem mOf_np_level (unit L L' : Nat) (a : Acct) : mOf unit L 2 a = mOf unit L' 2 a := by
  unfold mOf acctMoney
  by_cases h : a.status = 2 <;> simp [h]

theorem bucket_rewards (unit L L' s : Nat) (dom : List Addr) (A : AMap) (hs : s ≠ 2) (hbase : BaseOK dom A L) (hLL : L ≤ L') :
    bucketMoney unit L s dom A + bucketUnits unit s dom A * (L' - L) = bucketMoney unit L' s dom A := by
  rw [bucketMoney_eq, bucketMoney_eq, bucketUnits_eq]
  induction dom with
  | nil => simp
  | cons x xs ih =>
    have hx := mOf_rewards unit L L' s (A x) hs (hbase x (by simp)) hLL
    have := ih (fun k hk => hbase k (by simp [hk]))
    simp only [List.map_cons, List.sum_cons, Nat.add_mul]
    omega

theorem bucket_np_level (unit L L' : Nat) (dom : List Addr) (A : AMap) :
    bucketMoney unit L 2 dom A = bucketMoney unit L' 2 dom A := by
  rw [bucketMoney_eq, bucketMoney_eq]
  induction dom with
  | nil => rfl
  | cons x xs ih => simp only [List.map_cons, List.sum_cons, ih, mOf_np_level unit L L' (A x)]

theorem rewards_exact (unit : Nat) (dom : List Addr) (A : AMap) (L L' : Nat) (hbase : BaseOK dom A L) (hLL : L ≤ L')
    (hL' : L' < M) (hfit : totalMoney unit L' dom A < M) (ot : Bool) :
    applyRewards (SumOf unit dom A L) L' ot = (SumOf unit dom A L', ot) := by
  have e1 := bucket_rewards unit L L' 1 dom A (by omega) hbase hLL
  have e0 := bucket_rewards unit L L' 0 dom A (by omega) hbase hLL
  have e2 := bucket_np_level unit L L' dom A
  have b1 := bucketMoney_le_total unit L' 1 dom A
  have b0 := bucketMoney_le_total unit L' 0 dom A
  have u1 := bucketUnits_le_money unit L' 1 dom A
  have u0 := bucketUnits_le_money unit L' 0 dom A
  rw [applyRewards_ok (SumOf unit dom A L) L' ot hLL hL'
        (by show bucketUnits unit 1 dom A < M; omega)
        (by show bucketMoney unit L 1 dom A + bucketUnits unit 1 dom A * (L' - L) < M; omega)
        (by show bucketUnits unit 0 dom A < M; omega)
        (by show bucketMoney unit L 0 dom A + bucketUnits unit 0 dom A * (L' - L) < M; omega)]
  congr 1
  show AccountTotals.mk ⟨bucketMoney unit L 1 dom A + bucketUnits unit 1 dom A * (L' - L), bucketUnits unit 1 dom A⟩
        ⟨bucketMoney unit L 0 dom A + bucketUnits unit 0 dom A * (L' - L), bucketUnits unit 0 dom A⟩
        ⟨bucketMoney unit L 2 dom A, bucketUnits unit 2 dom A⟩ L' = SumOf unit dom A L'
  rw [e1, e0, e2]; rfl

/-! ## `All()` of exact sums -/

theorem oaddA_ok (a b : Nat) (h : a + b < M) : OAddA a b = (a + b, false) := by
  have e : OAddA a b = OAdd 64 a b := by
    show (match OAdd 64 a b with | (t_1, overflowed) => (t_1, overflowed)) = OAdd 64 a b
    rfl
  rw [e]; rw [← M_eq] at h
  exact oadd_no_overflow 64 a b (by omega) (by omega) h

theorem buckets_total (unit L : Nat) (dom : List Addr) (A : AMap) (hv : Valid dom A) :
    bucketMoney unit L 1 dom A + bucketMoney unit L 0 dom A + bucketMoney unit L 2 dom A = totalMoney unit L dom A := by
  rw [bucketMoney_eq, bucketMoney_eq, bucketMoney_eq, totalMoney_eq]
  induction dom with
  | nil => rfl
  | cons x xs ih =>
    have := ih (fun k hk => hv k (by simp [hk]))
    have hx : mOf unit L 1 (A x) + mOf unit L 0 (A x) + mOf unit L 2 (A x) = acctMoney unit L (A x) := by
      have h3 := three _ (hv x (by simp))
      unfold mOf
      rcases h3 with h | h | h <;> simp [h]
    simp only [List.map_cons, List.sum_cons]
    omega

theorem all_of_fields (t : AccountTotals) (h : t.online.money + t.offline.money + t.notParticipating.money < M) :
    all t = some (t.online.money + t.offline.money + t.notParticipating.money) := by
  unfold all participating
  rw [oaddA_ok _ _ (by omega)]
  simp only [Bool.false_eq_true, if_false]
  rw [oaddA_ok _ _ (by omega)]
  simp only [Bool.false_eq_true, if_false]
  congr 1; omega

theorem all_Sum (unit L : Nat) (dom : List Addr) (A : AMap) (hv : Valid dom A) (hfit : totalMoney unit L dom A < M) :
    all (SumOf unit dom A L) = some (totalMoney unit L dom A) := by
  have e := buckets_total unit L dom A hv
  rw [all_of_fields (SumOf unit dom A L) (by show bucketMoney unit L 1 dom A + bucketMoney unit L 0 dom A + bucketMoney unit L 2 dom A < M; omega)]
  show some (bucketMoney unit L 1 dom A + bucketMoney unit L 0 dom A + bucketMoney unit L 2 dom A) = _
  rw [e]

/-! ## The loop of `CalculateTotals` -/

theorem valid_set (dom : List Addr) (B : AMap) (k : Addr) (v : Acct) (hv : Valid dom B) (hvs : v.status ≤ 2) :
    Valid dom (B.set k v) := by
  intro x hx
  by_cases h : x = k
  · subst h; rw [set_same]; exact hvs
  · rw [set_other B k x v h]; exact hv x hx

theorem baseOK_set (dom : List Addr) (B : AMap) (L : Nat) (k : Addr) (v : Acct) (hb : BaseOK dom B L)
    (hvb : v.status ≠ 2 → v.base ≤ L) : BaseOK dom (B.set k v) L := by
  intro x hx
  by_cases h : x = k
  · subst h; rw [set_same]; exact hvb
  · rw [set_other B k x v h]; exact hb x hx

theorem baseOK_mono (dom : List Addr) (B : AMap) (L L' : Nat) (hb : BaseOK dom B L) (h : L ≤ L') : BaseOK dom B L' :=
  fun k hk hs => Nat.le_trans (hb k hk hs) h

theorem total_set_zero_le (unit L : Nat) (dom : List Addr) (B : AMap) (k : Addr) (hnd : dom.Nodup) (hk : k ∈ dom) :
    totalMoney unit L dom (B.set k zeroAcct) ≤ totalMoney unit L dom B := by
  have e := sum_map_set (acctMoney unit L) dom B k zeroAcct hnd hk
  have z : acctMoney unit L zeroAcct = 0 := by simp [acctMoney, zeroAcct]
  rw [z, ← totalMoney_eq, ← totalMoney_eq] at e
  omega

/-- the per-modification hypotheses of one block: address known, status known, base not above the new level -/
def ModsOK (dom : List Addr) (L' : Nat) (mods : List (Addr × Acct)) : Prop :=
  ∀ p ∈ mods, p.1 ∈ dom ∧ p.2.status ≤ 2 ∧ (p.2.status ≠ 2 → p.2.base ≤ L')

/-- no intermediate state of the loop exceeds 64 bits: the total money of every prefix-updated map fits -/
def NoOverflow (unit L' : Nat) (dom : List Addr) (B : AMap) (mods : List (Addr × Acct)) : Prop :=
  ∀ n, n ≤ mods.length → totalMoney unit L' dom (applyMods B (mods.take n)) < M

theorem loop_exact (unit : Nat) (dom : List Addr) (parent : AMap) (L' : Nat) (hnd : dom.Nodup) (hL' : L' < M) :
    ∀ (mods : List (Addr × Acct)) (B : AMap), (mods.map Prod.fst).Nodup → ModsOK dom L' mods →
      (∀ p ∈ mods, B p.1 = parent p.1) → Valid dom B → BaseOK dom B L' → NoOverflow unit L' dom B mods → ∀ ot : Bool,
      deltaLoop unit parent mods (SumOf unit dom B L', ot) = some (SumOf unit dom (applyMods B mods) L', ot) := by
  intro mods
  induction mods with
  | nil => intro B _ _ _ _ _ _ ot; rfl
  | cons p rest ih =>
    intro B hn hm hB hv hb hfit ot
    obtain ⟨k, v⟩ := p
    have hn' := List.nodup_cons.mp hn
    obtain ⟨hk, hvs, hvb⟩ := hm (k, v) (by simp)
    have hfit0 : totalMoney unit L' dom B < M := hfit 0 (by simp)
    have hfit1 : totalMoney unit L' dom (B.set k v) < M := hfit 1 (by simp)
    have hz := total_set_zero_le unit L' dom B k hnd hk
    unfold deltaLoop
    rw [← hB (k, v) (by simp)]
    simp only []
    rw [del_exact unit dom B L' k hnd hk hv hb hL' hfit0 ot]
    simp only []
    have hadd := add_exact unit dom (B.set k zeroAcct) L' k v hnd hk (set_same B k zeroAcct) hvs hvb hL'
      (by rw [set_set]; exact hfit1) ot
    rw [set_set] at hadd
    rw [hadd]
    simp only []
    show deltaLoop unit parent rest (SumOf unit dom (B.set k v) L', ot) = some (SumOf unit dom (applyMods (B.set k v) rest) L', ot)
    apply ih (B.set k v) hn'.2 (fun q hq => hm q (by simp [hq]))
    · intro q hq
      have hqk : q.1 ≠ k := by
        intro e
        exact hn'.1 (by rw [← e]; exact List.mem_map.mpr ⟨q, hq, rfl⟩)
      rw [set_other B k q.1 v hqk]
      exact hB q (by simp [hq])
    · exact valid_set dom B k v hv hvs
    · exact baseOK_set dom B L' k v hb hvb
    · intro n hnl
      have := hfit (n + 1) (by simp; omega)
      simpa [applyMods] using this

theorem acctMoney_mono (unit L L' : Nat) (a : Acct) (h : L ≤ L') : acctMoney unit L a ≤ acctMoney unit L' a := by
  unfold acctMoney
  split
  · omega
  · have : a.algos / unit * (L - a.base) ≤ a.algos / unit * (L' - a.base) := Nat.mul_le_mul_left _ (by omega)
    omega

theorem totalMoney_mono (unit L L' : Nat) (dom : List Addr) (A : AMap) (h : L ≤ L') :
    totalMoney unit L dom A ≤ totalMoney unit L' dom A :=
  sum_map_le _ _ (fun a => acctMoney_mono unit L L' a h) dom A

theorem valid_applyMods (dom : List Addr) : ∀ (mods : List (Addr × Acct)) (B : AMap), Valid dom B →
    (∀ p ∈ mods, p.2.status ≤ 2) → Valid dom (applyMods B mods) := by
  intro mods
  induction mods with
  | nil => intro B hv _; exact hv
  | cons p rest ih =>
    intro B hv hm
    obtain ⟨k, v⟩ := p
    exact ih (B.set k v) (valid_set dom B k v hv (hm (k, v) (by simp))) (fun q hq => hm q (by simp [hq]))

theorem baseOK_applyMods (dom : List Addr) (L : Nat) : ∀ (mods : List (Addr × Acct)) (B : AMap), BaseOK dom B L →
    (∀ p ∈ mods, p.2.status ≠ 2 → p.2.base ≤ L) → BaseOK dom (applyMods B mods) L := by
  intro mods
  induction mods with
  | nil => intro B hv _; exact hv
  | cons p rest ih =>
    intro B hv hm
    obtain ⟨k, v⟩ := p
    exact ih (B.set k v) (baseOK_set dom B L k v hv (hm (k, v) (by simp))) (fun q hq => hm q (by simp [hq]))

/-! ## The property theorems -/

/-- everything `CalculateTotals` does before its final comparison, under `NoOverflow` -/
theorem calc_core (unit : Nat) (dom : List Addr) (A : AMap) (L L' : Nat) (mods : List (Addr × Acct))
    (hnd : dom.Nodup) (hkeys : (mods.map Prod.fst).Nodup) (hmods : ModsOK dom L' mods)
    (hv : Valid dom A) (hb : BaseOK dom A L) (hLL : L ≤ L') (hL' : L' < M) (hfit : NoOverflow unit L' dom A mods) :
    deltaLoop unit A mods (applyRewards (SumOf unit dom A L) L' false) = some (SumOf unit dom (applyMods A mods) L', false) := by
  rw [rewards_exact unit dom A L L' hb hLL hL' (hfit 0 (by simp)) false]
  exact loop_exact unit dom A L' hnd hL' mods A hkeys hmods (fun _ _ => rfl) hv (baseOK_mono dom A L L' hb hLL) hfit false

/-- **totals_step.**  If the previous totals are the exact sums of the account map `A` at level `L`, nothing overflows and the
block conserves money, `CalculateTotals` returns the exact sums of the updated map `A ⊕ Δ` at the new level `L'`. -/
theorem totals_step (unit : Nat) (dom : List Addr) (A : AMap) (L L' : Nat) (mods : List (Addr × Acct))
    (hnd : dom.Nodup) (hkeys : (mods.map Prod.fst).Nodup) (hmods : ModsOK dom L' mods)
    (hv : Valid dom A) (hb : BaseOK dom A L) (hLL : L ≤ L') (hL' : L' < M) (hfit : NoOverflow unit L' dom A mods)
    (hcons : totalMoney unit L' dom (applyMods A mods) = totalMoney unit L dom A) :
    calculateTotals unit (SumOf unit dom A L) A mods L' = .ok (SumOf unit dom (applyMods A mods) L') := by
  unfold calculateTotals
  rw [calc_core unit dom A L L' mods hnd hkeys hmods hv hb hLL hL' hfit]
  have hv' := valid_applyMods dom mods A hv (fun p hp => (hmods p hp).2.1)
  have hfitN : totalMoney unit L' dom (applyMods A mods) < M := by
    have := hfit mods.length (Nat.le_refl _); rwa [List.take_length] at this
  have hfitL : totalMoney unit L dom A < M :=
    Nat.lt_of_le_of_lt (totalMoney_mono unit L L' dom A hLL) (hfit 0 (by simp))
  simp only [Bool.false_eq_true, if_false]
  rw [all_Sum unit L' dom _ hv' hfitN, all_Sum unit L dom A hv hfitL]
  simp only [hcons, ne_eq, not_true_eq_false, if_false]

/-- **nonconserving_rejected.**  A delta set that changes the sum of all money makes `CalculateTotals` fail with the
"sum of money changed" error (and never produces totals). -/
theorem nonconserving_rejected (unit : Nat) (dom : List Addr) (A : AMap) (L L' : Nat) (mods : List (Addr × Acct))
    (hnd : dom.Nodup) (hkeys : (mods.map Prod.fst).Nodup) (hmods : ModsOK dom L' mods)
    (hv : Valid dom A) (hb : BaseOK dom A L) (hLL : L ≤ L') (hL' : L' < M) (hfit : NoOverflow unit L' dom A mods)
    (hcons : totalMoney unit L' dom (applyMods A mods) ≠ totalMoney unit L dom A) :
    calculateTotals unit (SumOf unit dom A L) A mods L' =
      .error (.moneyChanged (totalMoney unit L dom A) (totalMoney unit L' dom (applyMods A mods))) := by
  unfold calculateTotals
  rw [calc_core unit dom A L L' mods hnd hkeys hmods hv hb hLL hL' hfit]
  have hv' := valid_applyMods dom mods A hv (fun p hp => (hmods p hp).2.1)
  have hfitN : totalMoney unit L' dom (applyMods A mods) < M := by
    have := hfit mods.length (Nat.le_refl _); rwa [List.take_length] at this
  have hfitL : totalMoney unit L dom A < M :=
    Nat.lt_of_le_of_lt (totalMoney_mono unit L L' dom A hLL) (hfit 0 (by simp))
  simp only [Bool.false_eq_true, if_false]
  rw [all_Sum unit L' dom _ hv' hfitN, all_Sum unit L dom A hv hfitL]
  simp only [ne_eq, hcons, not_false_eq_true, if_true]

/-! ## Overflow branches (separate lemmas): the tracker flag is sticky, a set flag is the "overflowed totals" error -/

theorem ot_add_sticky (a b : Nat) : (OverflowTracker_Add true a b).2 = true := by
  unfold OverflowTracker_Add
  generalize OAdd 64 a b = p
  obtain ⟨r, o⟩ := p
  cases o <;> rfl
theorem ot_sub_sticky (a b : Nat) : (OverflowTracker_Sub true a b).2 = true := by
  unfold OverflowTracker_Sub
  generalize OSub 64 a b = p
  obtain ⟨r, o⟩ := p
  cases o <;> rfl
theorem ot_mul_sticky (a b : Nat) : (OverflowTracker_Mul true a b).2 = true := by
  unfold OverflowTracker_Mul
  generalize OMul 64 a b = p
  obtain ⟨r, o⟩ := p
  cases o <;> rfl

theorem addAccount_sticky (unit : Nat) (t t' : AccountTotals) (d : Acct) (o : Bool)
    (h : addAccount unit t d true = some (t', o)) : o = true := by
  unfold addAccount at h
  split at h
  · cases h
  · split at h
    · cases h
    · simp only [Option.some.injEq, Prod.mk.injEq] at h
      rw [← h.2]
      simp only [addA_eq, ot_add_sticky]

theorem delAccount_sticky (unit : Nat) (t t' : AccountTotals) (d : Acct) (o : Bool)
    (h : delAccount unit t d true = some (t', o)) : o = true := by
  unfold delAccount at h
  split at h
  · cases h
  · split at h
    · cases h
    · simp only [Option.some.injEq, Prod.mk.injEq] at h
      rw [← h.2]
      simp only [subA_eq, ot_sub_sticky]

/-- once the tracker has overflowed it stays overflowed through the rest of the loop -/
theorem deltaLoop_sticky (unit : Nat) (parent : AMap) : ∀ (mods : List (Addr × Acct)) (t t' : AccountTotals) (o : Bool),
    deltaLoop unit parent mods (t, true) = some (t', o) → o = true := by
  intro mods
  induction mods with
  | nil => intro t t' o h; simp [deltaLoop] at h; exact h.2 ▸ rfl
  | cons p rest ih =>
    intro t t' o h
    obtain ⟨k, v⟩ := p
    unfold deltaLoop at h
    split at h
    · cases h
    · rename_i t1 o1 hd
      have e1 := delAccount_sticky unit t t1 (parent k) o1 hd
      subst e1
      split at h
      · cases h
      · rename_i s2 ha
        obtain ⟨t2, o2⟩ := s2
        have e2 := addAccount_sticky unit t1 t2 v o2 ha
        subst e2
        exact ih t2 t' o h

/-- a set tracker flag at the end of the loop is the error "CalculateTotals overflowed totals", whatever the sums are -/
theorem calc_flag_error (unit : Nat) (prev : AccountTotals) (parent : AMap) (mods : List (Addr × Acct)) (L' : Nat) (t : AccountTotals)
    (h : deltaLoop unit parent mods (applyRewards prev L' false) = some (t, true)) :
    calculateTotals unit prev parent mods L' = .error .overflow := by
  unfold calculateTotals; rw [h]; rfl

/-- overflow branch of `ApplyRewards`: a rewards level BELOW the previous one wraps `rewardsLevel - at.RewardsLevel`, so
`CalculateTotals` can only fail (overflow error, or a panic further on) — it never returns totals -/
theorem calc_level_drop (unit : Nat) (prev : AccountTotals) (parent : AMap) (mods : List (Addr × Acct)) (L' : Nat)
    (hprev : prev.rewardsLevel < M) (hdrop : L' < prev.rewardsLevel) :
    calculateTotals unit prev parent mods L' = .error .overflow ∨ calculateTotals unit prev parent mods L' = .error .panic := by
  have hflag : (applyRewards prev L' false).2 = true := by
    unfold applyRewards AlgoCount.applyRewards
    rw [ot_sub false L' prev.rewardsLevel (by omega) hprev]
    have : decide (L' < prev.rewardsLevel) = true := by simpa using hdrop
    simp only [this, Bool.or_true, addA_eq, ot_mul_sticky, ot_add_sticky]
  unfold calculateTotals
  generalize happ : applyRewards prev L' false = s at hflag
  obtain ⟨t0, o0⟩ := s
  simp only at hflag
  subst hflag
  cases hl : deltaLoop unit parent mods (t0, true) with
  | none => right; rfl
  | some r =>
    obtain ⟨t, o⟩ := r
    have := deltaLoop_sticky unit parent mods t0 t o hl
    subst this
    left; rfl

/-- overflow branch of `AlgoCount.applyRewards`: rewards that do not fit set the flag -/
theorem ac_apply_overflow (ac : AlgoCount) (rpu : Nat) (ot : Bool) (hm : ac.money < M) (hu : ac.rewardUnits < M) (hr : rpu < M)
    (h : M ≤ ac.money + ac.rewardUnits * rpu) : (ac.applyRewards rpu ot).2 = true := by
  unfold AlgoCount.applyRewards
  rw [ot_mul ot _ _ hu hr]
  simp only []
  by_cases hp : ac.rewardUnits * rpu < M
  · rw [if_pos hp, addA_eq, ot_add _ _ _ hm hp]
    have : decide (M ≤ ac.money + ac.rewardUnits * rpu) = true := by simpa using h
    simp [this]
  · have : decide (M ≤ ac.rewardUnits * rpu) = true := by simp; omega
    rw [this, Bool.or_true, addA_eq, ot_add_sticky]

/-- overflow branch of `AddAccount`: a bucket that would exceed 64 bits sets the flag (no totals are produced: `calc_flag_error`
with `deltaLoop_sticky`) -/
theorem addAccount_overflow (unit : Nat) (t : AccountTotals) (d : Acct) (ot : Bool) (sum : AlgoCount)
    (hg : getField t d.status = some sum) (hL : t.rewardsLevel < M) (hb : d.status ≠ 2 → d.base ≤ t.rewardsLevel)
    (hsm : sum.money < M) (hfit : acctMoney unit t.rewardsLevel d < M)
    (h : M ≤ sum.money + acctMoney unit t.rewardsLevel d) :
    ∃ t', addAccount unit t d ot = some (t', true) := by
  unfold addAccount
  rw [hg, money_ok unit d t.rewardsLevel hL hb hfit]
  simp only []
  rw [addA_eq, ot_add ot _ _ hsm hfit]
  have : decide (M ≤ sum.money + acctMoney unit t.rewardsLevel d) = true := by simpa using h
  simp only [this, Bool.or_true]
  rw [ot_add_sticky]
  exact ⟨_, rfl⟩

/-- overflow branch of `DelAccount`: removing more than the bucket holds sets the flag -/
theorem delAccount_underflow (unit : Nat) (t : AccountTotals) (d : Acct) (ot : Bool) (sum : AlgoCount)
    (hg : getField t d.status = some sum) (hL : t.rewardsLevel < M) (hb : d.status ≠ 2 → d.base ≤ t.rewardsLevel)
    (hsm : sum.money < M) (hfit : acctMoney unit t.rewardsLevel d < M)
    (h : sum.money < acctMoney unit t.rewardsLevel d) :
    ∃ t', delAccount unit t d ot = some (t', true) := by
  unfold delAccount
  rw [hg, money_ok unit d t.rewardsLevel hL hb hfit]
  simp only []
  rw [subA_eq, ot_sub ot _ _ hsm hfit]
  have : decide (sum.money < acctMoney unit t.rewardsLevel d) = true := by simpa using h
  simp only [this, Bool.or_true]
  rw [ot_sub_sticky]
  exact ⟨_, rfl⟩

/-- panic branch of `statusField`: an unknown status value produces no totals -/
theorem addAccount_unknown_status (unit : Nat) (t : AccountTotals) (d : Acct) (ot : Bool) (h : 2 < d.status) :
    addAccount unit t d ot = none := by
  unfold addAccount getField
  have h1 : d.status ≠ 1 := by omega
  have h0 : d.status ≠ 0 := by omega
  have h2 : d.status ≠ 2 := by omega
  simp [h1, h0, h2]


/-! ## Histories of blocks -/

/-- hypotheses of `totals_step` for every block of a history, each against the account map and level left by its predecessors -/
def GoodHist (unit : Nat) (dom : List Addr) : List Block → AMap → Nat → Prop
  | [], _, _ => True
  | b :: rest, A, L =>
    ((b.mods.map Prod.fst).Nodup ∧ ModsOK dom b.level b.mods ∧ L ≤ b.level ∧ b.level < M ∧ NoOverflow unit b.level dom A b.mods ∧
      totalMoney unit b.level dom (applyMods A b.mods) = totalMoney unit L dom A) ∧
    GoodHist unit dom rest (applyMods A b.mods) b.level

/-- the exact sums after every block of a history (oldest first) and the final account map -/
def sumsAlong (unit : Nat) (dom : List Addr) : List Block → AMap → List AccountTotals × AMap
  | [], A => ([], A)
  | b :: rest, A =>
    let r := sumsAlong unit dom rest (applyMods A b.mods)
    (SumOf unit dom (applyMods A b.mods) b.level :: r.1, r.2)

/-- **totals_history.**  Along any history of blocks that never overflows and conserves money, the totals computed block
after block by `CalculateTotals` (each from its predecessor's totals) are, for EVERY round, the exact per-status sums of
money with pending rewards and of reward units over the accounts of that round. -/
theorem totals_history (unit : Nat) (dom : List Addr) (hnd : dom.Nodup) :
    ∀ (blocks : List Block) (A : AMap) (L : Nat), Valid dom A → BaseOK dom A L → GoodHist unit dom blocks A L →
      replay unit blocks (SumOf unit dom A L) A = .ok (sumsAlong unit dom blocks A) := by
  intro blocks
  induction blocks with
  | nil => intro A L _ _ _; rfl
  | cons b rest ih =>
    intro A L hv hb hg
    obtain ⟨⟨hkeys, hmods, hLL, hL', hfit, hcons⟩, hrest⟩ := hg
    have hstep := totals_step unit dom A L b.level b.mods hnd hkeys hmods hv hb hLL hL' hfit hcons
    have hv' := valid_applyMods dom b.mods A hv (fun p hp => (hmods p hp).2.1)
    have hb' := baseOK_applyMods dom b.level b.mods A (baseOK_mono dom A L b.level hb hLL) (fun p hp => (hmods p hp).2.2)
    have hih := ih (applyMods A b.mods) b.level hv' hb' hrest
    unfold replay
    rw [hstep]
    simp only []
    rw [hih]
    rfl

/-- `All()` is the same in every round of such a history -/
theorem all_constant (unit : Nat) (dom : List Addr) (A : AMap) (L L' : Nat) (mods : List (Addr × Acct))
    (hv : Valid dom A) (hmods : ModsOK dom L' mods) (hLL : L ≤ L') (hfit : NoOverflow unit L' dom A mods)
    (hcons : totalMoney unit L' dom (applyMods A mods) = totalMoney unit L dom A) :
    all (SumOf unit dom (applyMods A mods) L') = all (SumOf unit dom A L) := by
  have hv' := valid_applyMods dom mods A hv (fun p hp => (hmods p hp).2.1)
  have hfitN : totalMoney unit L' dom (applyMods A mods) < M := by
    have := hfit mods.length (Nat.le_refl _); rwa [List.take_length] at this
  have hfitL : totalMoney unit L dom A < M :=
    Nat.lt_of_le_of_lt (totalMoney_mono unit L L' dom A hLL) (hfit 0 (by simp))
  rw [all_Sum unit L' dom _ hv' hfitN, all_Sum unit L dom A hv hfitL, hcons]

/-! ## roundTotals: what `Totals(rnd)` serves, under any interleaving of new blocks, commits and reloads -/

/-- `hist` = the totals of rounds 0, 1, 2, … as produced by the evaluator; the invariant of `accountUpdates` -/
def RTInv (hist : List AccountTotals) (s : RT) : Prop :=
  s.dbRound < hist.length ∧ s.roundTotals = hist.drop s.dbRound ∧ s.dbTotalsRound = s.dbRound ∧ hist[s.dbRound]? = some s.dbTotals

theorem rt_load (row : AccountTotals) : RTInv [row] (RT.load 0 row) := by
  refine ⟨by simp [RT.load], by simp [RT.load], rfl, by simp [RT.load]⟩

theorem rt_newBlock (hist : List AccountTotals) (s : RT) (t : AccountTotals) (h : RTInv hist s) :
    RTInv (hist ++ [t]) (s.newBlock t) := by
  obtain ⟨h1, h2, h3, h4⟩ := h
  refine ⟨by simp [RT.newBlock]; omega, ?_, h3, ?_⟩
  · simp only [RT.newBlock, h2]
    rw [List.drop_append_of_le_length (by omega)]
  · simp only [RT.newBlock]
    rw [List.getElem?_append_left h1]; exact h4

theorem rt_commit (hist : List AccountTotals) (s s' : RT) (offset : Nat) (h : RTInv hist s) (hc : s.commit offset = some s') :
    RTInv hist s' := by
  obtain ⟨h1, h2, h3, h4⟩ := h
  unfold RT.commit at hc
  split at hc
  · cases hc
  · rename_i row hrow
    simp only [Option.some.injEq] at hc
    subst hc
    rw [h2, List.getElem?_drop] at hrow
    have hlt : s.dbRound + offset < hist.length := by
      rcases Nat.lt_or_ge (s.dbRound + offset) hist.length with h | h
      · exact h
      · rw [List.getElem?_eq_none h] at hrow; cases hrow
    refine ⟨hlt, ?_, rfl, hrow⟩
    simp only [h2, List.drop_drop]

/-- `reloadLedger`: the persisted row plus the re-evaluated later rounds give back the same served totals -/
theorem rt_reload (hist : List AccountTotals) (s : RT) (h : RTInv hist s) :
    RTInv hist (s.reload (hist.drop (s.dbRound + 1))) := by
  obtain ⟨h1, h2, h3, h4⟩ := h
  have key : ∀ (later : List AccountTotals) (r : RT), later.foldl RT.newBlock r =
      { r with roundTotals := r.roundTotals ++ later } := by
    intro later
    induction later with
    | nil => intro r; simp
    | cons x xs ih => intro r; simp only [List.foldl_cons, ih, RT.newBlock, List.append_assoc, List.singleton_append]
  unfold RT.reload
  rw [key]
  simp only [RT.load, h3]
  refine ⟨h1, ?_, rfl, h4⟩
  simp only []
  have e : hist.drop s.dbRound = s.dbTotals :: hist.drop (s.dbRound + 1) := by
    rw [List.drop_eq_getElem_cons h1]
    congr 1
    have := List.getElem?_eq_getElem h1
    rw [this] at h4
    exact Option.some.inj h4
  rw [e]; rfl

/-- **served_refines.**  In every state reachable by new blocks / commits / reloads, `Totals(rnd)` answers exactly the
totals of round `rnd` for `dbRound ≤ rnd ≤ latest` and an error otherwise — whatever the flush split is. -/
theorem served_refines (hist : List AccountTotals) (s : RT) (h : RTInv hist s) (rnd : Nat) :
    s.totals rnd = if s.dbRound ≤ rnd ∧ rnd < hist.length then hist[rnd]? else none := by
  obtain ⟨h1, h2, _, _⟩ := h
  unfold RT.totals
  have hlen : s.roundTotals.length = hist.length - s.dbRound := by rw [h2, List.length_drop]
  by_cases hlo : rnd < s.dbRound
  · rw [if_pos hlo, if_neg (by omega)]
  · rw [if_neg hlo]
    simp only []
    by_cases hhi : rnd < hist.length
    · rw [if_neg (by omega), if_pos ⟨by omega, hhi⟩, h2, List.getElem?_drop]
      congr 1; omega
    · rw [if_pos (by omega), if_neg (by omega)]

/-- `LatestTotals` is the newest round -/
theorem latest_refines (hist : List AccountTotals) (s : RT) (h : RTInv hist s) :
    s.latest = (hist.length - 1, hist[hist.length - 1]?) := by
  obtain ⟨h1, h2, _, _⟩ := h
  unfold RT.latest
  have hlen : s.roundTotals.length = hist.length - s.dbRound := by rw [h2, List.length_drop]
  rw [hlen, h2, List.getElem?_drop]
  congr 2 <;> omega


/-! ## The property as stated: every served round reports the sums over the accounts of that round -/

/-- the account map after the first `n` blocks -/
def mapAt : List Block → AMap → Nat → AMap
  | _, A, 0 => A
  | [], A, _ + 1 => A
  | b :: rest, A, n + 1 => mapAt rest (applyMods A b.mods) n
/-- the rewards level after the first `n` blocks -/
def levelAt : List Block → Nat → Nat → Nat
  | _, L, 0 => L
  | [], L, _ + 1 => L
  | b :: rest, _, n + 1 => levelAt rest b.level n

theorem sumsAlong_length (unit : Nat) (dom : List Addr) : ∀ (blocks : List Block) (A : AMap),
    (sumsAlong unit dom blocks A).1.length = blocks.length := by
  intro blocks
  induction blocks with
  | nil => intro A; rfl
  | cons b rest ih => intro A; simp [sumsAlong, ih]

theorem hist_get (unit : Nat) (dom : List Addr) : ∀ (blocks : List Block) (A : AMap) (L n : Nat), n ≤ blocks.length →
    (SumOf unit dom A L :: (sumsAlong unit dom blocks A).1)[n]? = some (SumOf unit dom (mapAt blocks A n) (levelAt blocks L n)) := by
  intro blocks
  induction blocks with
  | nil =>
    intro A L n hn
    have : n = 0 := by simpa using hn
    subst this; rfl
  | cons b rest ih =>
    intro A L n hn
    cases n with
    | zero => rfl
    | succ m =>
      have := ih (applyMods A b.mods) b.level m (by simpa using hn)
      simpa [sumsAlong, mapAt, levelAt] using this

/-- **C12 (model level).**  Take any history of blocks that never overflows and conserves money, evaluated block after block
by `CalculateTotals` from the genesis sums, and any state `s` of the roundTotals bookkeeping reachable over that history
(new blocks, commits of any prefix, reloads: `RTInv`).  Then for every round the ledger serves (`dbRound ≤ rnd ≤ latest`)
the reported totals are the per-status sums of money with pending rewards and of reward units over all accounts at that
round, with that round's rewards level. -/
theorem served_totals_are_sums (unit : Nat) (dom : List Addr) (hnd : dom.Nodup) (blocks : List Block) (A : AMap) (L : Nat)
    (hv : Valid dom A) (hb : BaseOK dom A L) (hg : GoodHist unit dom blocks A L)
    (ts : List AccountTotals) (A' : AMap) (hrun : replay unit blocks (SumOf unit dom A L) A = .ok (ts, A'))
    (s : RT) (hinv : RTInv (SumOf unit dom A L :: ts) s) (rnd : Nat) (hlo : s.dbRound ≤ rnd) (hhi : rnd ≤ blocks.length) :
    s.totals rnd = some (SumOf unit dom (mapAt blocks A rnd) (levelAt blocks L rnd)) := by
  have hh := totals_history unit dom hnd blocks A L hv hb hg
  rw [hh] at hrun
  have ets : ts = (sumsAlong unit dom blocks A).1 := by
    injection hrun with h; exact (congrArg Prod.fst h).symm
  subst ets
  rw [served_refines _ s hinv rnd, if_pos ⟨hlo, by simp [sumsAlong_length]; omega⟩]
  exact hist_get unit dom blocks A L rnd hhi

/-! ## Tie to the translated functions of totals.go (Gen.Totals, regenerated each run) -/

def toGenCount (c : AlgoCount) : Gen.Totals.ledgercore_AlgoCount := ⟨c.money, c.rewardUnits⟩
def toGen (t : AccountTotals) : Gen.Totals.ledgercore_AccountTotals :=
  ⟨toGenCount t.online, toGenCount t.offline, toGenCount t.notParticipating⟩

theorem participating_eq_gen (t : AccountTotals) : participating t = Gen.Totals.AccountTotals_Participating (toGen t) := by
  unfold participating Gen.Totals.AccountTotals_Participating toGen toGenCount
  simp only []

theorem all_eq_gen (t : AccountTotals) : all t = Gen.Totals.AccountTotals_All (toGen t) := by
  unfold all Gen.Totals.AccountTotals_All
  rw [participating_eq_gen]
  cases Gen.Totals.AccountTotals_Participating (toGen t) with
  | none => rfl
  | some p =>
    simp only [toGen, toGenCount]
    rfl

theorem rewardUnits_eq_gen (t : AccountTotals) : rewardUnits t = Gen.Totals.AccountTotals_RewardUnits (toGen t) := by
  unfold rewardUnits Gen.Totals.AccountTotals_RewardUnits toGen toGenCount
  simp only []

/-- the VALUE computed by the translated `applyRewards` is the model's (the translation loses the tracker update made through
the pointer parameter `ot`, which is why the model is hand-written) -/
theorem ac_apply_value_eq_gen (ac : AlgoCount) (rpu : Nat) (ot : Bool) :
    toGenCount (ac.applyRewards rpu ot).1 = Gen.Totals.AlgoCount_applyRewards (toGenCount ac) rpu ot := by
  unfold AlgoCount.applyRewards Gen.Totals.AlgoCount_applyRewards toGenCount
  simp only []

/-! ## Non-vacuity: concrete instances meeting the hypotheses -/

section Examples
/-- three accounts: 1 online (base 3), 2 offline (base 0), 3 not participating; 4 does not exist yet; unit 1000 -/
def exA : AMap := fun k =>
  if k = 1 then ⟨1, 5000, 3⟩ else if k = 2 then ⟨0, 12345, 0⟩ else if k = 3 then ⟨2, 7000, 9⟩ else {}
def exDom : List Addr := [1, 2, 3, 4]
/-- level 5 → 8: account 1 goes offline paying 1000 of its 5025 (5000 + 5·(8−3)), account 4 is created not participating with
1000, account 2 (credited 12·8 = 96 by the level) is not touched: money is conserved, 0 + 96 + 25 − … -/
def exMods : List (Addr × Acct) := [(1, ⟨0, 4025, 8⟩), (4, ⟨2, 1000, 0⟩)]

example : exDom.Nodup := by decide
example : (exMods.map Prod.fst).Nodup := by decide
example : ModsOK exDom 8 exMods := by unfold ModsOK; decide
example : Valid exDom exA := by unfold Valid; decide
example : BaseOK exDom exA 5 := by unfold BaseOK; decide
example : NoOverflow 1000 8 exDom exA exMods := by unfold NoOverflow; decide
example : totalMoney 1000 5 exDom exA = 5010 + 12405 + 7000 := by decide
/-- the rewards of the participating accounts between level 5 and 8 are NOT conserved by themselves … -/
example : totalMoney 1000 8 exDom (applyMods exA exMods) ≠ totalMoney 1000 5 exDom exA := by decide
/-- … so this delta set is rejected (`nonconserving_rejected` applies with these hypotheses) -/
example : calculateTotals 1000 (SumOf 1000 exDom exA 5) exA exMods 8 = .error (.moneyChanged 24415 24466) := by rfl
/-- with the rewards pool (account 3's neighbour: here account 3 itself, not participating) paying the 51 out, money is conserved -/
def exMods' : List (Addr × Acct) := [(1, ⟨0, 4025, 8⟩), (4, ⟨2, 1000, 0⟩), (3, ⟨2, 6949, 9⟩)]
example : (exMods'.map Prod.fst).Nodup := by decide
example : ModsOK exDom 8 exMods' := by unfold ModsOK; decide
example : NoOverflow 1000 8 exDom exA exMods' := by unfold NoOverflow; decide
example : totalMoney 1000 8 exDom (applyMods exA exMods') = totalMoney 1000 5 exDom exA := by decide
example : calculateTotals 1000 (SumOf 1000 exDom exA 5) exA exMods' 8 = .ok (SumOf 1000 exDom (applyMods exA exMods') 8) := by rfl
example : GoodHist 1000 exDom [⟨8, exMods'⟩, ⟨8, []⟩] exA 5 := by
  unfold GoodHist GoodHist GoodHist ModsOK NoOverflow; decide
/-- the composed statement on the two-block history: after a commit of offset 1 round 0 is gone, rounds 1 and 2 are served with their sums -/
example : ((((RT.load 0 (SumOf 1000 exDom exA 5)).newBlock (SumOf 1000 exDom (applyMods exA exMods') 8)).newBlock
    (SumOf 1000 exDom (applyMods exA exMods') 8)).commit 1).map
      (fun s => (s.totals 0, s.totals 2 == some (SumOf 1000 exDom (mapAt [⟨8, exMods'⟩, ⟨8, []⟩] exA 2) 8)))
    = some (none, true) := by decide
/-- `with_updated_rewards`: all three outcomes occur -/
example : WithUpdatedRewards 1000 1 5000 0 3 8 = some (5025, 25, 8) := by decide
example : WithUpdatedRewards 1000 1 5000 0 9 8 = none := by decide
example : WithUpdatedRewards 1 0 18446744073709551615 0 0 1 = none := by decide
example : WithUpdatedRewards 1000 2 5000 7 9 8 = some (5000, 7, 9) := by decide
/-- roundTotals: commit of offset 2 then a reload serve the same rounds as before the reload -/
example : RTInv [({} : AccountTotals)] (RT.load 0 {}) := rt_load {}
example : (RT.load 0 ({} : AccountTotals)).commit 1 = none := by decide
/-- overflow branches are reachable: a bucket at 2^64−1 cannot take one more microalgo -/
example : (addAccount 1000 ⟨⟨0, 0⟩, ⟨18446744073709551615, 0⟩, ⟨0, 0⟩, 0⟩ ⟨0, 1, 0⟩ false).map (·.2) = some true := by decide
end Examples

end Props.C12
