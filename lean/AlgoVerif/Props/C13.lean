import AlgoVerif.Lemmas.OnlineAcctsReload
import AlgoVerif.Lemmas.OnlineAcctsSort
/-!
C13 — consensus sees the right online stake for every round.

`Spec.OnlineHistory` answers from the block history alone; `Model.OnlineAccts` is the `onlineAccounts` tracker as coded
(in-memory deltas, `onlineaccounts` / `onlineroundparamstail` tables with their pruning, `onlineAccountsCache`,
expired-stake cache, voters tracker, commit / reload). The theorems say that on every state the tracker can reach
(`Reach`: genesis, blocks, commits, reloads, queries, cache shrinks — in any order):

* `online_refines`, `circulation_refines`, `top_n_refines` — whenever the tracker has the round's parameters (memory, or for
  top-N the DB) the answer IS the history's answer, errors included;
* `window_served` — every round of the lookback window `[latest+1-MaxBalLookback, latest]` has its parameters in memory,
  so the three answers above are given for it (`online_window`, `circulation_window`, `top_n_window`);
* `lookup_never_wrong`, `circulation_never_wrong`, `top_n_never_wrong`, `voters_refines` — outside the window an answer may
  be refused, but an answer that is given is the history's;
* `prune_keeps_served_rounds`, `reload_keeps_served_rounds`, `schedule_independent` — commits (with their pruning of the
  tables and the cache) and reloads keep the history and therefore every answer of the window.

Hypotheses (all explicit): `GenOK` / `BlockOK` (what the evaluator guarantees about genesis and blocks), one
MaxBalLookback ≥ 1 and positive reward units in the protocol table (`ProtosWF`).
-/
namespace AlgoVerif.Props.C13
open AlgoVerif.Spec.OnlineHistory AlgoVerif.Model.OnlineAccts AlgoVerif.Lemmas.OnlineAccts

/-- the states the tracker can reach; `M` = MaxBalLookback of the case -/
inductive Reach (M : Nat) : State → Prop where
  | init {protos univ gen} (lookback cacheMax : Nat) (ok : GenOK protos univ gen M) :
      Reach M (init protos univ lookback cacheMax gen)
  | shrink {σ} (k : Nat) : Reach M σ → Reach M (shrink σ k)
  | block {σ} (b : Block) : Reach M σ → BlockOK σ b → Reach M (newBlock σ b)
  | commit {σ σ'} (R : Nat) : Reach M σ → commit σ R = .done σ' → Reach M σ'
  | reload {σ σ'} : Reach M σ → reload σ = .done σ' → Reach M σ'
  | lookup {σ} (rnd : Nat) (a : Addr) : Reach M σ → Reach M (lookupOnline σ rnd a).2
  | circ {σ} (rnd voteRnd : Nat) : Reach M σ → Reach M (onlineCirculation σ rnd voteRnd).2
  | top {σ} (rnd voteRnd n : Nat) : Reach M σ → Reach M (topOnline σ rnd voteRnd n).2

/-- every reachable state is a faithful image of the history it was fed -/
theorem reach_inv {M : Nat} {σ : State} (h : Reach M σ) : Inv σ M := by
  induction h with
  | init lookback cacheMax ok => exact init_inv ok lookback cacheMax
  | shrink k _ ih =>
    exact ⟨ih.core.shrink_inv k, InvExp.of_same rfl rfl ih.exp, ih.wf, InvVot.of_same rfl rfl ih.vot⟩
  | block b _ ok ih => exact (ih.newBlock_inv b ok).1
  | commit R _ hc ih =>
    obtain ⟨k1, k2, k3, k4⟩ := ih.core.commit_inv R hc
    refine ⟨k1, InvExp.of_same k2 k3 ih.exp, ?_, ?_⟩
    · rw [k2]; exact ih.wf
    · intro r v hm; rw [k2]; exact ih.vot r v (k4 _ hm)
  | reload _ hr ih => exact (ih.reload_inv hr).1
  | lookup rnd a _ ih =>
    obtain ⟨k1, k2, k3, k4⟩ := ih.core.lookup_inv rnd a
    refine ⟨k1, InvExp.of_same k2 k3 ih.exp, ?_, InvVot.of_same k2 k4 ih.vot⟩
    rw [k2]; exact ih.wf
  | @circ σ0 rnd v _ ih =>
    have hs := onlineCirculation_same σ0 rnd v
    refine ⟨hs.inv ih.core, onlineCirculation_exp ih.core ih.exp rnd v, ?_, InvVot.of_same hs.hist hs.voters ih.vot⟩
    rw [hs.hist]; exact ih.wf
  | @top σ0 rnd v n _ ih =>
    have hs := topOnline_same σ0 rnd v n
    refine ⟨hs.inv ih.core, topOnline_exp ih.core ih.exp rnd v n, ?_, InvVot.of_same hs.hist hs.voters ih.vot⟩
    rw [hs.hist]; exact ih.wf

/-- the history is what was fed: a block appends, nothing else changes it -/
theorem hist_steps {M : Nat} {σ : State} (h : Reach M σ) :
    (∀ b, BlockOK σ b → (newBlock σ b).hist = σ.hist.push b) ∧
    (∀ R σ', commit σ R = .done σ' → σ'.hist = σ.hist) ∧
    (∀ σ', reload σ = .done σ' → σ'.hist = σ.hist) ∧
    (∀ rnd a, (lookupOnline σ rnd a).2.hist = σ.hist) ∧
    (∀ rnd v, (onlineCirculation σ rnd v).2.hist = σ.hist) ∧
    (∀ rnd v n, (topOnline σ rnd v n).2.hist = σ.hist) := by
  have inv := reach_inv h
  exact ⟨fun b ok => (inv.newBlock_inv b ok).2, fun R σ' hc => (inv.core.commit_inv R hc).2.1,
    fun σ' hr => (inv.reload_inv hr).2, fun rnd a => (inv.core.lookup_inv rnd a).2.1,
    fun rnd v => (onlineCirculation_same σ rnd v).hist, fun rnd v n => (topOnline_same σ rnd v n).hist⟩

/-! ### the three answers are the history's -/

/-- **LookupAgreement.** Whenever the round's parameters are in memory, `lookupOnlineAccountData` returns exactly what the
    history implies for that round (balance with the rewards level OF THAT ROUND, voting data, errors included). -/
theorem online_refines {M : Nat} {σ : State} (h : Reach M σ) (rnd : Nat) (a : Addr) (p : Params)
    (hp : paramsAt σ rnd = .ok p) : (lookupOnline σ rnd a).1 = onlineAt σ.hist rnd a :=
  (reach_inv h).core.lookupOnline_eq rnd a p hp

/-- **OnlineCirculation.** Supply of the round minus the stake whose keys expire before `voteRnd` (with the `rnd = 0` case). -/
theorem circulation_refines {M : Nat} {σ : State} (h : Reach M σ) (rnd voteRnd : Nat) (p : Params)
    (hp : paramsAt σ rnd = .ok p) : (onlineCirculation σ rnd voteRnd).1 = circulation σ.hist rnd voteRnd :=
  (reach_inv h).core.circulation_eq (reach_inv h).exp rnd voteRnd p hp

/-- **TopOnlineAccounts** (and with it `VotersForStateProof`): the merge of the DB snapshot with the in-memory deltas,
    sorted, is the history's top-N; the total is supply minus expired stake. Holds whenever the round's totals are found
    in memory or in the DB (so also for the old voters rounds the DB keeps beyond MaxBalLookback). -/
theorem top_n_refines {M : Nat} {σ : State} (h : Reach M σ) (rnd voteRnd n : Nat) (p : Params)
    (hp : totalsEx σ rnd = .ok p) : (topOnline σ rnd voteRnd n).1 = topN σ.hist rnd voteRnd n :=
  (reach_inv h).core.topOnline_eq (reach_inv h).exp (reach_inv h).wf rnd voteRnd n p hp

/-- what the voters tracker holds for a snapshot round is the history's voters of that round -/
theorem voters_refines {M : Nat} {σ : State} (h : Reach M σ) (r : Nat) (v : Voters)
    (hv : (r, (.ok v : VotersVal)) ∈ σ.voters) : votersAt σ.hist r = .ok v :=
  (reach_inv h).vot r v hv

/-! ### the lookback window is served -/

theorem latest_eq {M : Nat} {σ : State} (h : Reach M σ) : σ.latest = σ.hist.latest :=
  (reach_inv h).core.latest_eq

/-- every round agreement can ask about (`latest+1-MaxBalLookback ≤ rnd ≤ latest`) has its parameters in memory, whatever
    was committed, pruned or reloaded -/
theorem window_served {M : Nat} {σ : State} (h : Reach M σ) (rnd : Nat) (h1 : rnd ≤ σ.latest) (h2 : σ.latest + 1 ≤ rnd + M) :
    ∃ p, paramsAt σ rnd = .ok p := by
  have inv := (reach_inv h).core
  have : σ.dbRound ≤ σ.latest := by unfold State.latest; omega
  exact inv.window_served rnd h1 (by omega)

theorem online_window {M : Nat} {σ : State} (h : Reach M σ) (rnd : Nat) (a : Addr) (h1 : rnd ≤ σ.latest)
    (h2 : σ.latest + 1 ≤ rnd + M) : (lookupOnline σ rnd a).1 = onlineAt σ.hist rnd a := by
  obtain ⟨p, hp⟩ := window_served h rnd h1 h2
  exact online_refines h rnd a p hp

theorem circulation_window {M : Nat} {σ : State} (h : Reach M σ) (rnd voteRnd : Nat) (h1 : rnd ≤ σ.latest)
    (h2 : σ.latest + 1 ≤ rnd + M) : (onlineCirculation σ rnd voteRnd).1 = circulation σ.hist rnd voteRnd := by
  obtain ⟨p, hp⟩ := window_served h rnd h1 h2
  exact circulation_refines h rnd voteRnd p hp

theorem top_n_window {M : Nat} {σ : State} (h : Reach M σ) (rnd voteRnd n : Nat) (h1 : rnd ≤ σ.latest)
    (h2 : σ.latest + 1 ≤ rnd + M) : (topOnline σ rnd voteRnd n).1 = topN σ.hist rnd voteRnd n := by
  obtain ⟨p, hp⟩ := window_served h rnd h1 h2
  have : totalsEx σ rnd = .ok p := by unfold totalsEx; rw [hp]
  exact top_n_refines h rnd voteRnd n p this

/-! ### an answer that is given is never wrong -/

theorem lookup_never_wrong {M : Nat} {σ : State} (h : Reach M σ) (rnd : Nat) (a : Addr) (d : OnlineData)
    (hd : (lookupOnline σ rnd a).1 = .ok d) : onlineAt σ.hist rnd a = .ok d := by
  cases hp : paramsAt σ rnd with
  | ok p => rw [← online_refines h rnd a p hp]; exact hd
  | error e =>
    exfalso
    unfold lookupOnline at hd
    split at hd
    · cases hd
    · rw [hp] at hd; cases hd

theorem circulation_never_wrong {M : Nat} {σ : State} (h : Reach M σ) (rnd voteRnd x : Nat)
    (hx : (onlineCirculation σ rnd voteRnd).1 = .ok x) : circulation σ.hist rnd voteRnd = .ok x := by
  cases hp : paramsAt σ rnd with
  | ok p => rw [← circulation_refines h rnd voteRnd p hp]; exact hx
  | error e =>
    exfalso
    unfold onlineCirculation at hx
    rw [hp] at hx; cases hx

theorem top_n_never_wrong {M : Nat} {σ : State} (h : Reach M σ) (rnd voteRnd n : Nat) (res : List TopEntry × Nat)
    (hr : (topOnline σ rnd voteRnd n).1 = .ok res) : topN σ.hist rnd voteRnd n = .ok res := by
  obtain ⟨p, hp⟩ := topOnline_ok_totals hr
  rw [← top_n_refines h rnd voteRnd n p hp]; exact hr

/-! ### invariance under commit (pruning), reload and schedules -/

/-- **commit / prune.** A commit inserts rows, deletes the history below the lookback horizon (keeping the newest
    predecessor of every online account), prunes the parameter table and the cache — and every answer of the lookback
    window is what it was before. -/
theorem prune_keeps_served_rounds {M : Nat} {σ σ' : State} (h : Reach M σ) (R : Nat) (hc : commit σ R = .done σ')
    (rnd : Nat) (h1 : rnd ≤ σ.latest) (h2 : σ.latest + 1 ≤ rnd + M) :
    σ'.hist = σ.hist ∧
    (∀ a, (lookupOnline σ' rnd a).1 = (lookupOnline σ rnd a).1) ∧
    (∀ v, (onlineCirculation σ' rnd v).1 = (onlineCirculation σ rnd v).1) ∧
    (∀ v n, (topOnline σ' rnd v n).1 = (topOnline σ rnd v n).1) := by
  have h' : Reach M σ' := Reach.commit R h hc
  have hh : σ'.hist = σ.hist := ((hist_steps h).2.1 R σ' hc)
  have hl : σ'.latest = σ.latest := by rw [latest_eq h', latest_eq h, hh]
  refine ⟨hh, fun a => ?_, fun v => ?_, fun v n => ?_⟩
  · rw [online_window h' rnd a (by omega) (by omega), online_window h rnd a h1 h2, hh]
  · rw [circulation_window h' rnd v (by omega) (by omega), circulation_window h rnd v h1 h2, hh]
  · rw [top_n_window h' rnd v n (by omega) (by omega), top_n_window h rnd v n h1 h2, hh]

/-- **reload.** Restart from the tables + replay of the blocks after the DB round + the flush at the end of the replay:
    same history, same answers for the lookback window. -/
theorem reload_keeps_served_rounds {M : Nat} {σ σ' : State} (h : Reach M σ) (hr : reload σ = .done σ')
    (rnd : Nat) (h1 : rnd ≤ σ.latest) (h2 : σ.latest + 1 ≤ rnd + M) :
    σ'.hist = σ.hist ∧
    (∀ a, (lookupOnline σ' rnd a).1 = (lookupOnline σ rnd a).1) ∧
    (∀ v, (onlineCirculation σ' rnd v).1 = (onlineCirculation σ rnd v).1) ∧
    (∀ v n, (topOnline σ' rnd v n).1 = (topOnline σ rnd v n).1) := by
  have h' : Reach M σ' := Reach.reload h hr
  have hh : σ'.hist = σ.hist := ((hist_steps h).2.2.1 σ' hr)
  have hl : σ'.latest = σ.latest := by rw [latest_eq h', latest_eq h, hh]
  refine ⟨hh, fun a => ?_, fun v => ?_, fun v n => ?_⟩
  · rw [online_window h' rnd a (by omega) (by omega), online_window h rnd a h1 h2, hh]
  · rw [circulation_window h' rnd v (by omega) (by omega), circulation_window h rnd v h1 h2, hh]
  · rw [top_n_window h' rnd v n (by omega) (by omega), top_n_window h rnd v n h1 h2, hh]

/-- **schedules.** Two trackers that were fed the same history — under whatever commit / reload / query / cache schedule —
    give the same three answers for every round of the lookback window. -/
theorem schedule_independent {M : Nat} {σ₁ σ₂ : State} (h₁ : Reach M σ₁) (h₂ : Reach M σ₂) (hh : σ₁.hist = σ₂.hist)
    (rnd : Nat) (h1 : rnd ≤ σ₁.latest) (h2 : σ₁.latest + 1 ≤ rnd + M) :
    (∀ a, (lookupOnline σ₁ rnd a).1 = (lookupOnline σ₂ rnd a).1) ∧
    (∀ v, (onlineCirculation σ₁ rnd v).1 = (onlineCirculation σ₂ rnd v).1) ∧
    (∀ v n, (topOnline σ₁ rnd v n).1 = (topOnline σ₂ rnd v n).1) := by
  have hl : σ₂.latest = σ₁.latest := by rw [latest_eq h₁, latest_eq h₂, hh]
  refine ⟨fun a => ?_, fun v => ?_, fun v n => ?_⟩
  · rw [online_window h₁ rnd a h1 h2, online_window h₂ rnd a (by omega) (by omega), hh]
  · rw [circulation_window h₁ rnd v h1 h2, circulation_window h₂ rnd v (by omega) (by omega), hh]
  · rw [top_n_window h₁ rnd v n h1 h2, top_n_window h₂ rnd v n (by omega) (by omega), hh]

/-- what the voters tracker holds does not depend on the schedule either: two trackers with the same history that both hold
    voters for a snapshot round hold the same voters -/
theorem voters_schedule_independent {M : Nat} {σ₁ σ₂ : State} (h₁ : Reach M σ₁) (h₂ : Reach M σ₂) (hh : σ₁.hist = σ₂.hist)
    (r : Nat) (v₁ v₂ : Voters) (hv₁ : (r, (.ok v₁ : VotersVal)) ∈ σ₁.voters) (hv₂ : (r, (.ok v₂ : VotersVal)) ∈ σ₂.voters) :
    v₁ = v₂ := by
  have e1 := voters_refines h₁ r v₁ hv₁
  have e2 := voters_refines h₂ r v₂ hv₂
  rw [hh, e2] at e1
  cases e1; rfl

/-! ### the spec itself: sorted, bounded top-N -/

theorem insertTop_length (x : TopEntry) (l : List TopEntry) : (insertTop x l).length = l.length + 1 := by
  induction l with
  | nil => rfl
  | cons y ys ih => unfold insertTop; split <;> simp [ih]

/-- the list `TopOnlineAccounts` returns has at most `n` entries -/
theorem topList_length (hst : Hist) (rnd voteRnd n : Nat) (l : List TopEntry) (h : topList hst rnd voteRnd n = .ok l) :
    l.length ≤ n := by
  unfold topList at h
  split at h
  · cases h
  · simp only at h
    split at h
    · cases h
    · cases h; simp [List.length_take]; omega

/-- the list is in heap order: no later entry would have to come before an earlier one (larger normalised balance first,
    ties by larger address) -/
theorem topList_sorted (hst : Hist) (rnd voteRnd n : Nat) (l : List TopEntry) (h : topList hst rnd voteRnd n = .ok l) :
    l.Pairwise ordered := by
  unfold topList at h
  split at h
  · cases h
  · simp only at h
    split at h
    · cases h
    · cases h
      exact List.Pairwise.sublist (List.take_sublist _ _) (sortTop_sorted _)

/-- … and it is the first `n` of a rearrangement of exactly the candidates: every account that is Online at `rnd` with keys
    valid in `voteRnd` (and nothing else) competes -/
theorem topList_candidates (hst : Hist) (rnd voteRnd n : Nat) (l : List TopEntry) (h : topList hst rnd voteRnd n = .ok l) :
    ∃ cands, collect (hst.univ.map fun a => topCandidate (protoOf hst.protos hst.gen.proto).unit a (acctAt hst rnd a) voteRnd) = .ok cands ∧
      l = (sortTop cands).take n ∧ (sortTop cands).Perm cands := by
  unfold topList at h
  split at h
  · cases h
  · simp only at h
    split at h
    · cases h
    · rename_i cands hc
      cases h
      exact ⟨cands, hc, rfl, sortTop_perm cands⟩

/-! ### non-vacuity: a concrete history with expiry, a suspension, pruning, a reload -/

namespace Example

def p0 : Proto := { unit := 10, mbl := 2, excl := true, spInt := 4, spLb := 1, spTop := 2, spRec := 2 }
def gen : Block :=
  { proto := 0, level := 0, supply := 3000, spNext := 0,
    deltas := [(1, { st := 1, bal := 1000, vf := 0, vl := 3, key := 1 }), (2, { st := 1, bal := 2000, vf := 0, vl := 1000, key := 2 }),
               (3, { st := 0, bal := 500 })] }
def b1 : Block := { proto := 0, level := 1, supply := 3300, spNext := 8, deltas := [] }
-- account 2 is suspended (offline, keys kept), account 3 goes online
def b2 : Block :=
  { proto := 0, level := 2, supply := 1800, spNext := 8,
    deltas := [(2, { st := 0, bal := 2400, rb := 2, vf := 0, vl := 1000, key := 2 }),
               (3, { st := 1, bal := 600, rb := 2, vf := 2, vl := 9, key := 7, ie := true })] }
def b3 : Block := { proto := 0, level := 3, supply := 1960, spNext := 8, deltas := [(1, { st := 1, bal := 1300, rb := 3, vf := 0, vl := 3, key := 1 })] }
def b4 : Block := { proto := 0, level := 3, supply := 660, spNext := 8, deltas := [(1, { st := 0, bal := 1300, rb := 3 })] }

theorem pwf : ProtosWF [p0] 2 := ⟨by decide, by simp [p0], by simp [p0]⟩

theorem genOK : GenOK [p0] [1, 2, 3] gen 2 := by
  refine ⟨pwf, by decide, by decide, ?_⟩
  intro e he hon
  simp only [gen, List.mem_cons, List.mem_nil_iff, or_false] at he
  rcases he with rfl | rfl | rfl
  · exact ⟨by decide, ⟨1000, by decide, by decide⟩, rfl, rfl, rfl⟩
  · exact ⟨by decide, ⟨2000, by decide, by decide⟩, rfl, rfl, rfl⟩
  · cases hon

def s0 : State := init [p0] [1, 2, 3] 0 2500 gen
def s1 : State := newBlock s0 b1
def s2 : State := newBlock s1 b2
def s3 : State := newBlock s2 b3
def s4 : State := newBlock s3 b4

theorem reach0 : Reach 2 s0 := Reach.init 0 2500 genOK

theorem blockOK_of (σ : State) (b : Block) (hp : σ.protos = [p0]) (hu : σ.univ = [1, 2, 3]) (hg : σ.genesisUnit = 10)
    (h1 : b.proto = 0) (h2 : ∀ e ∈ b.deltas, e.1 ∈ [1, 2, 3])
    (h3 : ∀ e ∈ b.deltas, e.2.online = true → e.2.core.votingEmpty = false ∧ normBal 10 e.2.bal e.2.rb ≠ some 0) :
    BlockOK σ b := ⟨by rw [hp, h1]; decide, by rw [hu]; exact h2, by rw [hg]; exact h3⟩

theorem reach1 : Reach 2 s1 := Reach.block b1 reach0 (blockOK_of s0 b1 rfl rfl rfl rfl (by decide) (by decide))
theorem reach2 : Reach 2 s2 := Reach.block b2 reach1 (blockOK_of s1 b2 rfl rfl rfl rfl (by decide) (by decide))
theorem reach3 : Reach 2 s3 := Reach.block b3 reach2 (blockOK_of s2 b3 rfl rfl rfl rfl (by decide) (by decide))
theorem reach4 : Reach 2 s4 := Reach.block b4 reach3 (blockOK_of s3 b4 rfl rfl rfl rfl (by decide) (by decide))

/-- everything is flushed: the DB round becomes 4 and the history below round 3 is pruned -/
def committed : State := match commit s4 4 with | .done σ => σ | _ => s4
theorem commit_done : commit s4 4 = .done committed := by rfl
theorem reachC : Reach 2 committed := Reach.commit 4 reach4 commit_done

/-- the hypotheses of `online_refines` / `circulation_refines` / `top_n_refines` hold for rounds 3 and 4 after the prune … -/
example : ∃ p, paramsAt committed 3 = .ok p := window_served reachC 3 (by decide) (by decide)
example : paramsAt committed 3 = .ok ⟨1960, 3, 0⟩ := by rfl
example : totalsEx committed 3 = .ok ⟨1960, 3, 0⟩ := by rfl
/-- … rounds below the window are refused … -/
example : (lookupOnline committed 1 1).1 = .error .beforeDb := by rfl
/-- … the table really was pruned (account 2: its rows 0 and 2 — the newest below the horizon being the offline row — are
    gone; account 1 keeps rows 3, 4 and its newest predecessor 0) … -/
example : (committed.db 2).length = 0 ∧ (committed.db 1).map (·.upd) = [4, 3, 0] ∧ committed.dbParamsStart = 3 := by decide
/-- … and the answers are the history's: account 1 at round 3 has 1300 µAlgos (rewards base = level), at round 4 it is offline;
    its keys (vl = 3) are expired for vote round 5, so the circulation of round 3 excludes its stake -/
example : (lookupOnline committed 3 1).1 = .ok ⟨1300, 0, 3, 1, false, 0, 0⟩ := by rfl
example : (lookupOnline committed 4 1).1 = .ok {} := by rfl
example : (onlineCirculation committed 3 5).1 = .ok 660 := by rfl
example : onlineAt committed.hist 3 1 = .ok ⟨1300, 0, 3, 1, false, 0, 0⟩ := by
  rw [← online_refines reachC 3 1 ⟨1960, 3, 0⟩ (by rfl)]; rfl
example : (topOnline committed 3 5 2).1 = .ok ([⟨3, 500, 600, 2, 2, 9, 7⟩], 660) := by rfl

/-- the same history with nothing ever flushed answers the same (`schedule_independent` applies: both reachable, same history) -/
example : s4.hist = committed.hist := by rfl
example : (lookupOnline s4 3 1).1 = (lookupOnline committed 3 1).1 :=
  (schedule_independent reach4 reachC (by rfl) 3 (by decide) (by decide)).1 1

/-- a reload of the committed state succeeds and `reload_keeps_served_rounds` applies -/
def reloaded : State := match reload committed with | .done σ => σ | _ => committed
theorem reload_done : reload committed = .done reloaded := by rfl
example : (lookupOnline reloaded 3 1).1 = (lookupOnline committed 3 1).1 :=
  (reload_keeps_served_rounds reachC reload_done 3 (by decide) (by decide)).2.1 1

/-- the voters snapshot of round 3 ((3 + 1) % 4 = 0) is held and `voters_refines` applies to it -/
theorem voters_s4 : (3, (.ok ⟨[(3, 660, 7)], 660⟩ : VotersVal)) ∈ s4.voters := by
  have : s4.voters = [(3, .ok ⟨[(3, 660, 7)], 660⟩)] := by rfl
  rw [this]; exact List.mem_cons_self
example : votersAt s4.hist 3 = .ok ⟨[(3, 660, 7)], 660⟩ := voters_refines reach4 3 _ voters_s4

end Example

end AlgoVerif.Props.C13
