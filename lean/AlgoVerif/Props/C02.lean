/-
C02 — Honest nodes never equivocate, even across crashes.

Model: `Model.AgreementSvc` (attest → persist → checkpoint → release of `agreement/{service,actions,persistence,pseudonode}.go`,
over an abstract player `P : Player Sg E` that gives the attest actions of every `handle`).  All theorems range over ALL
players, ALL label sequences (any interleaving of handle / do(attest) / persisted / do(checkpoint) / release and any number
of crashes at any point) from the initial state.

* `release_after_persist` (FULL for the model): a vote is in ρ only if the crash DB π already holds an image that is a
  point of the current logical run at which that attest had been produced (the image written for the attest's handle, or a
  later one of the same run) — so a restart resumes from a state that "has cast" the vote and re-executes the same attest.
* `release_needs_checkpoint` (FULL): a `release` step is enabled only for a unit whose channel was closed without error,
  which only `checkpoint` after `persisted true` produces (`closed_needs_persisted`).
* `no_equivocation` (FULL for the model, under the named player hypothesis `AttestOnce P`): for every trace, all votes in ρ
  for one (round, period, step) carry one value — before and after any number of crashes.
  `AttestOnce P` — along every event list from `P.init`, all attest actions with one (round, period, step) carry one
  value — is a hypothesis on the abstract player, NOT proved for the real `player`/`rootRouter` here.  Evidence for it:
  `Props.C01.honest_never_equivocates` (no honest node equivocates in any history satisfying the local rules `WF`, in
  particular rule `vote-unique`) together with the NetDrive trace acceptance (c01abs accepts the real runs) and the C02
  acceptor, which evaluates `AttestOnce` on the logical run of every explored trace (`attest-once`).
* `no_equivocation_on_run` (FULL): the same with the hypothesis restricted to the logical run of the final state.
* `no_equivocation_epochs` (FULL): the stale-round restart (`status.Round < Ledger.NextRound()`: the node starts afresh in a
  later round) is outside the state machine; votes of the two runs are for disjoint rounds, so uniqueness composes.
* `zero_state_persisted_allows_equivocation` (FULL, negative): with the restore rule of the code BEFORE commit 7a74b7193e
  (`step P false`: the stash stays zero after a restore, so the re-executed attest persists the zero state) there is a player
  satisfying `AttestOnce` and a trace with two crashes whose ρ holds two different soft votes of one (round, period).

Scope: votes produced by `attest` actions (steps ≥ soft).  Proposal-step votes are released without persistence by design and
are not in the model.  Go channels/goroutines are represented by the order of the labels (the hook trace), not verified.
-/
import AlgoVerif.Lemmas.AgreementSvc
namespace Props.C02
open AlgoVerif.Model.AgreementSvc AlgoVerif.Lemmas.AgreementSvc

variable {Sg E : Type}

/-- the player-level hypothesis: one attest value per (round, period, step) along every run -/
def AttestOnce (P : Player Sg E) : Prop :=
  ∀ (es : List E) (a b : Attest), a ∈ allAtt P es → b ∈ allAtt P es → a.r = b.r → a.p = b.p → a.s = b.s → a.v = b.v

/-- **release_after_persist.** -/
theorem release_after_persist (P : Player Sg E) {ls : List (Label E)} {s : State Sg E}
    (h : run P true (init P) ls = some s) {a : Attest} (ha : a ∈ s.rho) :
    ∃ im, s.pi = some im ∧ im.st = runSt P im.log ∧ im.log <:+ s.log ∧ a ∈ allAtt P im.log := by
  have I := inv_run (inv_init P) h
  obtain ⟨im, him, hmem⟩ := I.rel a ha
  obtain ⟨hok, hle, _⟩ := I.pi_ok im him
  exact ⟨im, him, hok.st_eq, hle.trans I.stash_le, hmem⟩

/-- a crash after a release resumes from a run prefix that already contains the released attest, with the live state of that
prefix (so the same attest is never *decided* again: it is either re-executed from the stored action list or in the past) -/
theorem crash_keeps_released (P : Player Sg E) {ls : List (Label E)} {s s' : State Sg E}
    (h : run P true (init P) ls = some s) (hc : step P true s .crash = some s') {a : Attest} (ha : a ∈ s.rho) :
    a ∈ s'.rho ∧ a ∈ allAtt P s'.log ∧ s'.sg = runSt P s'.log := by
  obtain ⟨im, him, _, _, hmem⟩ := release_after_persist P h ha
  have I' := inv_step (inv_run (inv_init P) h) hc
  simp only [step, him, Option.some.injEq] at hc
  subst hc
  exact ⟨ha, hmem, I'.live⟩

/-- **release_needs_checkpoint.**  `release id` is enabled only if a unit `id` is in phase `closed true`. -/
theorem release_needs_checkpoint (P : Player Sg E) (fixed : Bool) {s s' : State Sg E} {id : Nat}
    (h : step P fixed s (.release id) = some s') :
    ∃ u ∈ s.units, u.id = id ∧ u.ph = .closed true ∧ s'.rho = u.a :: s.rho := by
  simp only [step] at h
  cases hr : updFirst (isClosedOk id) (fun u => u) s.units with
  | none => rw [hr] at h; simp at h
  | some r =>
    obtain ⟨x, us⟩ := r
    rw [hr] at h
    simp only [Option.some.injEq] at h
    subst h
    obtain ⟨pre, post, hl, _, hq, _⟩ := updFirst_spec hr
    simp only [isClosedOk, Bool.and_eq_true, beq_iff_eq] at hq
    exact ⟨x, by rw [hl]; exact List.mem_append_right _ List.mem_cons_self, hq.1, hq.2, rfl⟩

/-- `checkpoint id` closes a channel without error only for a unit whose persist succeeded -/
theorem closed_needs_persisted (P : Player Sg E) (fixed : Bool) {s s' : State Sg E} {id : Nat}
    (h : step P fixed s (.checkpoint id) = some s') :
    ∃ u ∈ s.units, u.id = id ∧ (u.ph = .persisted true ∨ u.ph = .persisted false) := by
  simp only [step] at h
  cases hr : updFirst (isPersisted id) (fun u => setPh (closePh u.ph) u) s.units with
  | none => rw [hr] at h; simp at h
  | some r =>
    obtain ⟨x, us⟩ := r
    obtain ⟨pre, post, hl, _, hq, _⟩ := updFirst_spec hr
    simp only [isPersisted, Bool.and_eq_true, Bool.or_eq_true, beq_iff_eq] at hq
    exact ⟨x, by rw [hl]; exact List.mem_append_right _ List.mem_cons_self, hq.1, hq.2⟩

/-- **no_equivocation.** -/
theorem no_equivocation (P : Player Sg E) (attest_once : AttestOnce P) {ls : List (Label E)} {s : State Sg E}
    (h : run P true (init P) ls = some s) {a b : Attest} (ha : a ∈ s.rho) (hb : b ∈ s.rho)
    (hr : a.r = b.r) (hp : a.p = b.p) (hs : a.s = b.s) : a.v = b.v := by
  have I := inv_run (inv_init P) h
  obtain ⟨im, him, ha'⟩ := I.rel a ha
  obtain ⟨im', him', hb'⟩ := I.rel b hb
  rw [him] at him'
  simp only [Option.some.injEq] at him'
  subst him'
  exact attest_once im.log a b ha' hb' hr hp hs

/-- the form the acceptor establishes: the hypothesis is needed only for the logical run the node is on (the acceptor's rule
`attest-once` evaluates it at every `handle` of the trace player) -/
theorem no_equivocation_on_run (P : Player Sg E) {ls : List (Label E)} {s : State Sg E}
    (h : run P true (init P) ls = some s)
    (once : ∀ a ∈ allAtt P s.log, ∀ b ∈ allAtt P s.log, a.r = b.r → a.p = b.p → a.s = b.s → a.v = b.v)
    {a b : Attest} (ha : a ∈ s.rho) (hb : b ∈ s.rho) (hr : a.r = b.r) (hp : a.p = b.p) (hs : a.s = b.s) : a.v = b.v := by
  obtain ⟨im, him, _, hle, ha'⟩ := release_after_persist P h ha
  obtain ⟨im', him', _, _, hb'⟩ := release_after_persist P h hb
  rw [him] at him'
  simp only [Option.some.injEq] at him'
  subst him'
  exact once a (allAtt_mono P hle ha') b (allAtt_mono P hle hb') hr hp hs

/-- **no_equivocation_epochs.**  Votes of a run that ended below round `R` and of a fresh run started at round `R`. -/
theorem no_equivocation_epochs {rho1 rho2 : List Attest} {R : Nat}
    (h1 : ∀ a ∈ rho1, ∀ b ∈ rho1, a.r = b.r → a.p = b.p → a.s = b.s → a.v = b.v)
    (h2 : ∀ a ∈ rho2, ∀ b ∈ rho2, a.r = b.r → a.p = b.p → a.s = b.s → a.v = b.v)
    (lo : ∀ a ∈ rho1, a.r < R) (hi : ∀ a ∈ rho2, R ≤ a.r) :
    ∀ a ∈ rho1 ++ rho2, ∀ b ∈ rho1 ++ rho2, a.r = b.r → a.p = b.p → a.s = b.s → a.v = b.v := by
  intro a ha b hb hr hp hs
  rcases List.mem_append.1 ha with ha | ha <;> rcases List.mem_append.1 hb with hb | hb
  · exact h1 a ha b hb hr hp hs
  · have := lo a ha; have := hi b hb; omega
  · have := hi a ha; have := lo b hb; omega
  · exact h2 a ha b hb hr hp hs

/-- an instance of the hypotheses of `no_equivocation_epochs`: round-1 votes of the first run, round-2 votes of the fresh run -/
example : (∀ a ∈ [(⟨1, 0, 1, 7⟩ : Attest), ⟨1, 0, 2, 7⟩], a.r < 2) ∧ (∀ a ∈ [(⟨2, 0, 1, 8⟩ : Attest)], 2 ≤ a.r) := by decide

/-! ### non-vacuity and the negative result

The toy player soft-votes the first proposal it sees in round 1, period 0, and nothing afterwards. -/

def toy : Player Bool Nat :=
  ⟨false, fun voted v => if voted then (true, []) else (true, [⟨1, 0, 1, v⟩])⟩

theorem toy_step (e : Nat) (l : List Nat) : runSt toy (e :: l) = true := by
  show (toy.handle (runSt toy l) e).1 = true
  cases runSt toy l <;> rfl

theorem toy_att_true (e : Nat) (l : List Nat) (h : runSt toy l = true) : allAtt toy (e :: l) = allAtt toy l := by
  show (toy.handle (runSt toy l) e).2 ++ allAtt toy l = allAtt toy l
  rw [h]; rfl

theorem toy_att_false (e : Nat) (l : List Nat) (h : runSt toy l = false) :
    allAtt toy (e :: l) = ⟨1, 0, 1, e⟩ :: allAtt toy l := by
  show (toy.handle (runSt toy l) e).2 ++ allAtt toy l = _
  rw [h]; rfl

theorem toy_runs (es : List Nat) : (runSt toy es = false → allAtt toy es = []) ∧ (allAtt toy es).length ≤ 1 := by
  induction es with
  | nil => exact ⟨fun _ => rfl, by simp [allAtt]⟩
  | cons e l ih =>
    have h1 := toy_step e l
    refine ⟨(by intro h; rw [h1] at h; cases h), ?_⟩
    cases hs : runSt toy l with
    | true => rw [toy_att_true e l hs]; exact ih.2
    | false => rw [toy_att_false e l hs, ih.1 hs]; simp

theorem toy_attest_once : AttestOnce toy := by
  intro es a b ha hb _ _ _
  have hlen := (toy_runs es).2
  match hl : allAtt toy es, hlen with
  | [], _ => rw [hl] at ha; simp at ha
  | [x], _ =>
    rw [hl] at ha hb
    simp only [List.mem_singleton] at ha hb
    rw [ha, hb]
  | _ :: _ :: _, h => simp at h

/-- first life: vote 7, persisted, checkpointed, released.  Crash; the restored attest is re-executed.  Crash again.
Third life: proposal 8 arrives. -/
def doubleCrash : List (Label Nat) :=
  [.handle 7, .doAttest 1, .persisted true, .checkpoint 1, .release 1,
   .crash, .doAttest 2, .persisted true, .checkpoint 2, .release 2,
   .crash, .handle 8, .doAttest 3, .persisted true, .checkpoint 3, .release 3]

/-- the same schedule under the fixed restore rule: after the second crash the restored attest is pending again (so the
old trace is not a trace of the fixed machine: `handle 8` is not enabled before it is re-executed); once re-executed, the
proposal 8 produces no attest -/
def doubleCrashFixed : List (Label Nat) :=
  doubleCrash.take 11 ++ [.doAttest 3, .persisted true, .checkpoint 3, .release 3, .handle 8]

/-- the hypotheses of `no_equivocation` are met by a non-trivial instance (two crashes, three releases) -/
example : (run toy true (init toy) doubleCrash).isNone = true := by decide
example : (run toy true (init toy) doubleCrashFixed).map (fun s => (s.rho, s.sg, s.pend)) =
    some ([⟨1, 0, 1, 7⟩, ⟨1, 0, 1, 7⟩, ⟨1, 0, 1, 7⟩], true, []) := by decide

/-- **zero_state_persisted_allows_equivocation.**  With the restore rule of the old code (`fixed = false`) the same trace
runs to the end and releases two different soft votes for (round 1, period 0), although the player never attests twice
along any run. -/
theorem zero_state_persisted_allows_equivocation :
    ∃ (P : Player Bool Nat) (ls : List (Label Nat)) (s : State Bool Nat) (a b : Attest),
      AttestOnce P ∧ run P false (init P) ls = some s ∧ a ∈ s.rho ∧ b ∈ s.rho ∧
      a.r = b.r ∧ a.p = b.p ∧ a.s = b.s ∧ a.v ≠ b.v := by
  have h : (run toy false (init toy) doubleCrash).map (·.rho) =
      some [⟨1, 0, 1, 8⟩, ⟨1, 0, 1, 7⟩, ⟨1, 0, 1, 7⟩] := by decide
  cases hr : run toy false (init toy) doubleCrash with
  | none => rw [hr] at h; simp at h
  | some s =>
    rw [hr] at h
    simp only [Option.map_some, Option.some.injEq] at h
    exact ⟨toy, doubleCrash, s, ⟨1, 0, 1, 8⟩, ⟨1, 0, 1, 7⟩, toy_attest_once, hr, by rw [h]; simp, by rw [h]; simp,
      rfl, rfl, rfl, by decide⟩

/-- what goes wrong, step by step: after the first restart the re-executed attest persists the zero image … -/
example : (run toy false (init toy) (doubleCrash.take 8)).map (fun s => s.pi.map (fun im => (im.st, im.acts))) =
    some (some (false, [])) := by decide
/-- … whereas the fixed rule persists the restored state again -/
example : (run toy true (init toy) (doubleCrash.take 8)).map (fun s => s.pi.map (fun im => (im.st, im.acts))) =
    some (some (true, [⟨1, 0, 1, 7⟩])) := by decide
/-- a vote cannot leave before its checkpoint, nor a checkpoint succeed before the persist -/
example : (run toy true (init toy) [.handle 7, .doAttest 1, .release 1]).isNone = true := by decide
example : (run toy true (init toy) [.handle 7, .doAttest 1, .persisted true, .release 1]).isNone = true := by decide
example : (run toy true (init toy) [.handle 7, .doAttest 1, .checkpoint 1]).isNone = true := by decide
example : (run toy true (init toy) [.handle 7, .doAttest 1, .persisted false, .checkpoint 1, .release 1]).isNone = true := by decide
/-- a crash between attest and persist forgets the vote — which was not released -/
example : (run toy true (init toy) [.handle 7, .doAttest 1, .crash, .handle 8, .doAttest 2, .persisted true,
    .checkpoint 2, .release 2]).map (·.rho) = some [⟨1, 0, 1, 8⟩] := by decide

end Props.C02
