/-
C03 — Every committed block carries a certificate that authenticates it.

The theorems are about PlayerM (`Model.Player`, the executable model of one agreement node: player.go, router.go,
voteAggregator.go, voteAuxiliary.go, voteTracker.go, proposalManager / Store / Tracker.go — tied to the real
rootRouter + player on every run by the PlayerDrive correspondence harness) and range over ALL event lists.

`ensure_cert_valid`: whatever events are delivered, every `ensure` action (the only way a block is handed to the ledger)
carries a certificate with step = cert, round = the payload's block round, proposal-value = value(payload)
(`claimsToAuthenticate`), whose bundle passes the structural bundle verification with every vote a *delivered good* vote
of that (round, period, cert): distinct senders, size bounds, every equivocation pair two good votes for different values,
weight ≥ the cert threshold.  Both emitting paths are covered: the certThreshold branch of `handleThresholdEvent` and the
late-payload branch of `handleMessageEvent` (payload validated after the cert bundle was seen; including the nested
`enterRound` → pipelined threshold recursion).
`ensure_cert_authenticates` composes this with C04 (`tracker_bundle_accepted`, `cert_accept_iff`): the realised
certificate is accepted by the model of `Certificate.Authenticate` for the block.

Hypotheses (what the verifiers in front of the state machine guarantee — never axioms):
* `GoodSpec good`: a vote that passed `unauthenticatedVote.verify` for (round, period, step) has positive weight and
  the weight is a function of the sender (sortition);
* `RunOK`: every vote delivered as voteVerified / inside a bundleVerified without error satisfies `good` for its own
  (round, period, step); a payload delivered as payloadVerified without error is a block of the player's current round
  (`unauthenticatedProposal.validate` checks `entry.Round() == current`, and the crypto verifier cancels requests of
  stale rounds).
-/
import AlgoVerif.Lemmas.PlayerInvHandle
import AlgoVerif.Props.C04
namespace Props.C03
open AlgoVerif.Model AlgoVerif.Model.Player AlgoVerif.Lemmas.Player
open AlgoVerif.Model.VoteTracker (Vote EqVote Bundle)

/-- the tree invariant behind C03 (every tracker refines a history of good votes, every cached freshest bundle is
valid, every stored validated payload sits under its own value and belongs to the round) -/
def Inv (P : Params) (good : Nat → Nat → Nat → Vote → Bool) (σ : State) : Prop := QRoot P good σ.root

/-- a freshly started node (service.go: `makeRootRouter(player{…})`) satisfies the invariant -/
theorem init_inv (P : Params) (good : Nat → Nat → Nat → Vote → Bool) (pl : PlayerF) : Inv P good { pl := pl, root := {} } := by
  intro kv h; exact (List.not_mem_nil h).elim

/-- … and so does a node restored from disk, if the crashed node did -/
theorem persistView_inv (P : Params) (good : Nat → Nat → Nat → Vote → Bool) {σ : State} (h : Inv P good σ) :
    Inv P good (persistView σ) := by
  intro kv hkv
  simp only [persistView, List.mem_map, List.mem_filter] at hkv
  obtain ⟨kv₀, ⟨hm, _⟩, rfl⟩ := hkv
  obtain ⟨h1, h2, h3⟩ := h kv₀ hm
  refine ⟨?_, h2, h3⟩
  intro pkv hp
  simp only [RoundR.persist, List.mem_map] at hp
  obtain ⟨pkv₀, hm₀, rfl⟩ := hp
  exact h1 pkv₀ hm₀

/-- one event keeps the invariant -/
theorem handle_inv (P : Params) (good : Nat → Nat → Nat → Vote → Bool) (hg : GoodSpec good) {σ σ' : State}
    {ev : Player.Event} {acts : List Action} (hI : Inv P good σ) (hev : EventOK good σ ev)
    (h : Player.handle P σ ev = .ok (σ', acts)) : Inv P good σ' :=
  (handle_spec P good hg hI hev h).1

/-- **ensure_cert_valid.** -/
theorem ensure_cert_valid (P : Params) (good : Nat → Nat → Nat → Vote → Bool) (hg : GoodSpec good)
    (σ₀ σ : State) (es : List Player.Event) (ass : List (List Action))
    (hI : Inv P good σ₀) (hev : RunOK P good σ₀ es) (h : Player.run P σ₀ es = .ok (σ, ass)) :
    ∀ as ∈ ass, ∀ pay c, Action.ensure pay c ∈ as →
      c.step = 2 ∧ c.round = pay.round ∧ c.proposal = pay.value ∧
      Bundle.verify ⟨2, P.certT⟩ (good c.round c.period 2) ⟨c.proposal, c.votes, c.eqVotes⟩ = true := by
  intro as has pay c hmem
  exact actsOK_mem P good ((run_spec P good hg es hI hev h).2 as has) _ hmem

/-- **ensure_cert_authenticates.**  The certificate of every `ensure` action, realised with the votes' authenticators,
is accepted by `Certificate.Authenticate` (Model.Bundle, C04) for the block of the payload — given that a good vote is
one that `unauthenticatedVote.verify` accepts with its weight. -/
theorem ensure_cert_authenticates {Cred Sig : Type} (P : Params) (good : Nat → Nat → Nat → Vote → Bool) (hg : GoodSpec good)
    (σ₀ σ : State) (es : List Player.Event) (ass : List (List Action))
    (hI : Inv P good σ₀) (hev : RunOK P good σ₀ es) (h : Player.run P σ₀ es = .ok (σ, ass))
    (env : AlgoVerif.Model.Bundle.Env Cred Sig) (proto : AlgoVerif.Model.Bundle.Params)
    (val : Nat → AlgoVerif.Model.Bundle.Proposal) (hinj : ∀ x y, val x = val y → x = y)
    (cred : Nat → Cred) (sig : Nat → Nat → Sig)
    (as : List Action) (has : as ∈ ass) (pay : Payload) (c : Cert) (hmem : Action.ensure pay c ∈ as)
    (hp : env.params (AlgoVerif.Model.Bundle.paramsRound c.round) = some proto) (hT : proto.certT = P.certT)
    (hvalid : ∀ v, good c.round c.period 2 v = true →
      AlgoVerif.Model.Bundle.verifyVote env ⟨v.sender, c.round, c.period, 2, val v.value⟩ (cred v.sender) (sig v.sender v.value) = .ok v.weight)
    (blk : AlgoVerif.Model.Bundle.Block) (hbr : blk.round = pay.round) (hbd : (val pay.value).blockDigest = blk.digest) :
    ∃ W, AlgoVerif.Model.Bundle.authenticate env
      (Props.C04.realise c.round c.period ⟨2, P.certT⟩ val cred sig ⟨c.proposal, c.votes, c.eqVotes⟩) blk = .ok W := by
  obtain ⟨h1, h2, h3, h4⟩ := ensure_cert_valid P good hg σ₀ σ es ass hI hev h as has pay c hmem
  have hacc := Props.C04.tracker_bundle_accepted env c.round c.period ⟨2, P.certT⟩ proto val hinj cred sig
    (good c.round c.period 2) ⟨c.proposal, c.votes, c.eqVotes⟩ hp
    (by simp [AlgoVerif.Model.Bundle.threshold, hT]) hvalid h4
  refine ⟨_, (Props.C04.cert_accept_iff env _ blk _).mpr ⟨rfl, ?_, ?_, ?_, rfl⟩⟩
  · show c.round = blk.round
    rw [h2, hbr]
  · show (val c.proposal).blockDigest = blk.digest
    rw [h3]; exact hbd
  · exact ((Props.C04.bundle_accept_iff env _ _).mp hacc).1

/-! ### non-vacuity: a concrete run that commits a block, with all hypotheses met -/

section Example

/-- weights are a function of the sender and positive -/
def exGood : Nat → Nat → Nat → Vote → Bool := fun _ _ _ a => a.weight == a.sender + 1

example : GoodSpec exGood where
  pos := by intro r p s a h; simp [exGood] at h; omega
  cons := by intro r p s a b ha hb hs; simp [exGood] at ha hb; omega

def exP : Params := ⟨5, 5, 6, 2, 5, 7, true, 2000, 4000, 4000, 6000, 2000, 300000, 8⟩
def exInit : State := { pl := { round := 5, deadlineDur := 2000 }, root := {} }
/-- a proposal-vote, its validated payload, then two cert votes of weights 3 and 4 (threshold 5) -/
def exEvents : List Player.Event :=
  [.pvote true 0 ⟨9, 5, 0, 51, 3⟩ 0 none, .payload true 0 ⟨51, 5⟩ false,
   .vote true 0 5 0 2 ⟨2, 3, 51⟩, .vote true 0 5 0 2 ⟨3, 4, 51⟩]

/-- Boolean version of `RunOK` for concrete runs -/
def eventOKb (good : Nat → Nat → Nat → Vote → Bool) (σ : State) : Player.Event → Bool
  | .vote verified bad r p s x => !(verified && bad != 2 && bad != 3 && bad != 1) || good r p s x
  | .bundle verified bad r p s value votes eqs =>
    !(verified && bad != 2 && bad != 3 && bad != 1) || (bundleVotes value votes eqs).all (good r p s)
  | .payload verified bad p _ => !(verified && bad != 2 && bad != 1) || p.round == σ.pl.round
  | _ => true

theorem eventOKb_sound (good : Nat → Nat → Nat → Vote → Bool) (σ : State) (e : Player.Event) (h : eventOKb good σ e = true) :
    EventOK good σ e := by
  cases e <;> simp_all [eventOKb, EventOK]
  all_goals (intros; simp_all)

def runOKb (P : Params) (good : Nat → Nat → Nat → Vote → Bool) : State → List Player.Event → Bool
  | _, [] => true
  | σ, e :: rest =>
    eventOKb good σ e && (match Player.handle P σ e with
      | .ok (σ', _) => runOKb P good σ' rest
      | .error _ => true)

theorem runOKb_sound (P : Params) (good : Nat → Nat → Nat → Vote → Bool) : ∀ (es : List Player.Event) (σ : State),
    runOKb P good σ es = true → RunOK P good σ es := by
  intro es
  induction es with
  | nil => intro σ _; trivial
  | cons e rest ih =>
    intro σ h
    simp only [runOKb, Bool.and_eq_true] at h
    refine ⟨eventOKb_sound good σ e h.1, ?_⟩
    intro σ' as hh
    rw [hh] at h
    exact ih σ' h.2

example : RunOK exP exGood exInit exEvents := runOKb_sound exP exGood exEvents exInit (by decide)

/-- the run ends in round 6 and its last event emitted the `ensure` for payload 51 with the two cert votes -/
example : (match Player.run exP exInit exEvents with
    | .ok (σ, ass) => (σ.pl.round, ass.getLast?.map (fun as => as.filter (fun a => match a with | .ensure _ _ => true | _ => false)))
    | .error _ => (0, none)) = (6, some [.ensure ⟨51, 5⟩ ⟨5, 0, 2, 51, [⟨3, 4, 51⟩, ⟨2, 3, 51⟩], []⟩]) := by decide

end Example

end Props.C03
