/-
C28 — Only the current authorizer can authorize a transaction.

The theorems are about Model.Authz (transcribed from verify/txn.go, crypto/multisig.go, pqsig.go, signedtxn.go,
eval.go:transaction, apply.Rekey; tied to the real code by the c28 harnesses).  They hold for EVERY interpretation of
the cryptographic and TEAL parameters (`Env`); the tamper theorems additionally assume ideal signatures / collision-free
address hashes, as explicit hypotheses (`SigBinds`, `SigUnique`, `MsigAddrInj`, `ProgAddrInj`) — never axioms.

  decision logic (full):   msig_iff, pq_iff, lsig_iff, stateless_iff, authz_iff, group_ok_iff, two_kinds_rejected,
                           no_kind_rejected, msig_duplicate_entries_count, msig_threshold_genuine
  tampering (ideal crypto): msig_copied_signature_rejected, sig_binds, msig_binds, pq_binds, tamper_rejected, tamper_rejected_pq, tamper_sig_rejected, tamper_subsig_rejected,
                           msig_params_bound, lsig_contract_program_bound, lsig_delegated_program_bound
  what is NOT guaranteed (as coded): msig_surplus_signature_removable, lsig_does_not_sign_txn
  cache:                   cache_compares_all_fields (FACT regenerated from the source), cache_key_is_txid, same_material_eq, cache_hit_sound
  rekeying:                rekey_changes_authorizer, rekey_to_self_clears, rekey_absent_keeps, after_rekey_only_new_key
-/
import AlgoVerif.Lemmas.Authz
import AlgoVerif.Gen.AuthzCacheKey
namespace Props.C28
open AlgoVerif.Model.Authz AlgoVerif.Spec.Authz AlgoVerif.Lemmas.Authz

variable {T : Types}

/-! ### the decision, kind by kind -/

/-- MultisigVerify accepts exactly the valid multisignatures (Spec.MsigValid) -/
theorem msig_iff (E : Env T) (msg : Msg T) (addr : T.Addr) (m : MSig T) :
    msigVerify E msg addr m = true ↔ MsigValid E msg addr m := msigVerify_iff E msg addr m

/-- PQSig.Verify accepts exactly the valid post-quantum proofs -/
theorem pq_iff (E : Env T) (P : Params) (msg : Msg T) (auth : T.Addr) (p : PQSig T) :
    pqVerify E P msg auth p = .ok () ↔ PqValid E P msg auth p := pqVerify_iff E P msg auth p

/-- logicSigVerify accepts exactly: well-formed program that passes CheckSignature, vouched for by exactly one
    delegation of the authorizer or being the authorizer's contract, and approving -/
theorem lsig_iff (E : Env T) (P : Params) (gi : Nat) (grp : List (STxn T)) (s : STxn T) :
    lsigVerify E P gi grp s = .ok () ↔ LsigValid E P gi grp s := lsigVerify_iff E P gi grp s

/-- the stateless check of one transaction (txnBatchPrep + its signatures): envelope rules ∧ exactly one kind, valid
    for `authorizer s` (or the signature-less state-proof transaction) -/
theorem stateless_iff (E : Env T) (P : Params) (gi : Nat) (grp : List (STxn T)) (s : STxn T) :
    txnOk E P gi grp s = true ↔ EnvelopeOk E P s ∧ Authorized E P gi grp s := txnOk_iff E P gi grp s

/-- SignedTxn.Authorizer -/
theorem authorizer_def (E : Env T) (s : STxn T) :
    authorizer E s = s.authAddr ∧ s.authAddr ≠ E.zeroAddr ∨ authorizer E s = E.sender s.txn ∧ s.authAddr = E.zeroAddr := by
  unfold authorizer
  by_cases h : E.aeq s.authAddr E.zeroAddr = true
  · rw [if_pos h]; exact Or.inr ⟨rfl, (E.aeq_iff _ _).mp h⟩
  · rw [if_neg h]; exact Or.inl ⟨rfl, (E.aeq_false_iff _ _).mp (by simpa using h)⟩

/-- the account's current spending key: its AuthAddr, or the address itself when AuthAddr is zero -/
theorem spendingKey_def (E : Env T) (acctAuth sender : T.Addr) :
    acctAuth = E.zeroAddr ∧ spendingKey E acctAuth sender = sender ∨
    acctAuth ≠ E.zeroAddr ∧ spendingKey E acctAuth sender = acctAuth := by
  unfold spendingKey
  by_cases h : E.aeq acctAuth E.zeroAddr = true
  · rw [if_pos h]; exact Or.inl ⟨(E.aeq_iff _ _).mp h, rfl⟩
  · rw [if_neg h]; exact Or.inr ⟨(E.aeq_false_iff _ _).mp (by simpa using h), rfl⟩

/-- both layers: a transaction is accepted iff exactly one authorization is present, it is valid for the address the
    transaction names as authorizer, and that address is the sender's CURRENT spending key
    (the account's AuthAddr, or the sender itself when not rekeyed: `spendingKey_def`) -/
theorem authz_iff (E : Env T) (P : Params) (gi : Nat) (grp : List (STxn T)) (acctAuth : T.Addr) (s : STxn T) :
    acceptTxn E P gi grp acctAuth s = true ↔
      EnvelopeOk E P s ∧ Authorized E P gi grp s ∧
      authorizer E s = spendingKey E acctAuth (E.sender s.txn) := by
  unfold acceptTxn evalAuthCheck
  rw [Bool.and_eq_true, E.aeq_iff]
  have h := txnOk_iff E P gi grp s
  unfold txnOk at h
  rw [h]
  exact ⟨fun ⟨⟨a, b⟩, c⟩ => ⟨a, b, c⟩, fun ⟨a, b, c⟩ => ⟨⟨a, b⟩, c⟩⟩

/-- verify.TxnGroup accepts a group iff it is non-empty, every member is well formed, the group checks pass and every
    member passes the stateless authorization check at its index -/
theorem group_ok_iff (E : Env T) (P : Params) (grp : List (STxn T)) :
    verifyGroup E P grp = .ok ↔
      grp ≠ [] ∧ (∀ s ∈ grp, E.wellFormed s.txn = true) ∧ E.groupCheck grp = none ∧
      lsigGroupSizeCheck E P grp = .ok () ∧ ∀ j s, grp[j]? = some s → txnOk E P j grp s = true := by
  cases grp with
  | nil => simp [verifyGroup]
  | cons a rest =>
    have hloop := accepted_prepLoop_iff E P (a :: rest) (a :: rest) 0
    simp only [Nat.zero_add] at hloop
    rw [← hloop, ← firstIllFormed_none_iff E (a :: rest) 0]
    unfold verifyGroup groupBatchPrep
    simp only [ne_eq, reduceCtorEq, not_false_eq_true, true_and]
    cases hw : firstIllFormed E 0 (a :: rest) with
    | some i => simp
    | none =>
      cases hg : E.groupCheck (a :: rest) with
      | some gi => simp
      | none =>
        cases hl : lsigGroupSizeCheck E P (a :: rest) with
        | error e => simp
        | ok u =>
          cases hp : prepLoop E P (a :: rest) 0 (a :: rest) with
          | error e => simp [accepted]
          | ok q => cases hb : batchOk E q <;> simp [accepted, hb]

/-- two kinds of authorization together are never accepted -/
theorem two_kinds_rejected (E : Env T) (P : Params) (gi : Nat) (grp : List (STxn T)) (s : STxn T) (k1 k2 : Kind)
    (h1 : Present E s k1) (h2 : Present E s k2) (hne : k1 ≠ k2) : txnOk E P gi grp s = false := by
  cases h : txnOk E P gi grp s
  · rfl
  · exact absurd ((txnOk_iff E P gi grp s).mp h).2 (authorized_two E P gi grp s k1 k2 h1 h2 hne)

/-- no authorization at all is accepted only for the state-proof transaction of the special sender -/
theorem no_kind_rejected (E : Env T) (P : Params) (gi : Nat) (grp : List (STxn T)) (s : STxn T)
    (hn : ∀ k, ¬ Present E s k) (hsp : ¬ (E.sender s.txn = E.stateProofSender ∧ E.isStateProofTx s.txn = true)) :
    txnOk E P gi grp s = false := by
  cases h : txnOk E P gi grp s
  · rfl
  · exact absurd ((authorized_none E P gi grp s hn).mp ((txnOk_iff E P gi grp s).mp h).2) hsp

/-- duplicate keys, as coded: MultisigBatchPrep has no rule against the same key in several subsig entries and counts
    signatures per entry — a 2-of-2 address made of the same key twice is satisfied by that one key holder -/
theorem msig_duplicate_entries_count (E : Env T) (msg : Msg T) (k : T.PK) (g : T.Sig)
    (hk : E.pkIsZero k = false) (hg : E.sigBlank g = false) (hv : E.sigOk k msg g = true) :
    msigVerify E msg (E.msigAddr 1 2 [k, k]) ⟨1, 2, some [⟨k, g⟩, ⟨k, g⟩]⟩ = true := by
  rw [msig_iff]
  refine ⟨⟨k, g⟩, [⟨k, g⟩], rfl, ?_, rfl, by simp, by simp, by simp, rfl, ?_, ?_⟩
  · simp [hk]
  · simp [signatures, hg]
  · intro s hs _
    simp only [List.mem_cons, List.mem_nil_iff, or_false, or_self] at hs
    subst hs; exact hv

/-! ### tampering, under ideal signatures -/

theorem exists_signed_of_signatures (E : Env T) (l : List (SubSig T)) (h : 1 ≤ signatures E l) :
    ∃ x ∈ l, E.sigBlank x.sig = false := by
  unfold signatures at h
  have : (l.filter fun s => !E.sigBlank s.sig) ≠ [] := by
    intro e; rw [e] at h; simp at h
  obtain ⟨x, hx⟩ := List.exists_mem_of_ne_nil _ this
  rw [List.mem_filter] at hx
  exact ⟨x, hx.1, by simpa using hx.2⟩

theorem validFor_of_ok (E : Env T) (P : Params) (gi : Nat) (grp : List (STxn T)) (s : STxn T) (k : Kind)
    (hk : Present E s k) (hacc : txnOk E P gi grp s = true) : ValidFor E P gi grp s k := by
  rcases ((txnOk_iff E P gi grp s).mp hacc).2 with ⟨k0, _, ho, hv⟩ | ⟨hn, _⟩
  · rw [ho k hk]; exact hv
  · exact absurd hk (hn k)

/-- a plain signature binds the transaction bytes and the key it is checked against: the same signature value cannot
    be accepted for a different transaction or under a different authorizer key -/
theorem sig_binds (E : Env T) (P : Params) (hB : SigBinds E) (gi gi' : Nat) (grp grp' : List (STxn T)) (s s' : STxn T)
    (hk : Present E s .sig) (hacc : txnOk E P gi grp s = true)
    (hsame : s'.sig = s.sig) (hacc' : txnOk E P gi' grp' s' = true) :
    s'.txn = s.txn ∧ E.addrKey (authorizer E s') = E.addrKey (authorizer E s) := by
  have hk' : Present E s' .sig := by show E.sigBlank s'.sig = false; rw [hsame]; exact hk
  have h1 : E.sigOk _ _ _ = true := validFor_of_ok E P gi grp s .sig hk hacc
  have h2 : E.sigOk _ _ _ = true := validFor_of_ok E P gi' grp' s' .sig hk' hacc'
  rw [hsame] at h2
  obtain ⟨hpk, hm⟩ := hB _ _ _ _ _ h2 h1
  exact ⟨by injection hm, hpk⟩

/-- a multisignature binds the transaction bytes and the multisig address -/
theorem msig_binds (E : Env T) (P : Params) (hB : SigBinds E) (gi gi' : Nat) (grp grp' : List (STxn T)) (s s' : STxn T)
    (hk : Present E s .msig) (hacc : txnOk E P gi grp s = true)
    (hsame : s'.msig = s.msig) (hacc' : txnOk E P gi' grp' s' = true) :
    s'.txn = s.txn ∧ authorizer E s' = authorizer E s := by
  have hk' : Present E s' .msig := by show s'.msig.blank = false; rw [hsame]; exact hk
  have h1 : MsigValid _ _ _ _ := validFor_of_ok E P gi grp s .msig hk hacc
  have h2 : MsigValid _ _ _ _ := validFor_of_ok E P gi' grp' s' .msig hk' hacc'
  rw [hsame] at h2
  obtain ⟨s0, rest, e1, _, _, ht, _, _, ha, hsg, hall⟩ := h1
  obtain ⟨s0', rest', e2, _, _, _, _, _, ha', _, hall'⟩ := h2
  rw [e1] at e2; cases e2
  obtain ⟨x, hx, hxb⟩ := exists_signed_of_signatures E (s0 :: rest) (by omega)
  obtain ⟨_, hm⟩ := hB _ _ _ _ _ (hall' x hx hxb) (hall x hx hxb)
  exact ⟨by injection hm, by rw [ha, ha']⟩

/-- WHO COUNTS TOWARD THE THRESHOLD: in an accepted multisignature at least `threshold` subsig ENTRIES carry a signature
    that verifies under THAT ENTRY'S OWN key (every present signature is checked against the key of its own slot, none
    is skipped).  With ideal signatures an entry's signature can only have been made by the holder of that entry's key. -/
theorem msig_threshold_genuine (E : Env T) (msg : Msg T) (addr : T.Addr) (m : MSig T) (h : msigVerify E msg addr m = true) :
    m.threshold ≤ (m.subs.filter fun s => !E.sigBlank s.sig && E.sigOk s.key msg s.sig).length := by
  rw [msig_iff] at h
  obtain ⟨s0, rest, e, _, _, _, _, _, _, hsg, hall⟩ := h
  have hs : m.subs = s0 :: rest := by unfold MSig.subs; rw [e]
  rw [hs]
  have : (List.filter (fun s => !E.sigBlank s.sig) (s0 :: rest)) =
      (List.filter (fun s => !E.sigBlank s.sig && E.sigOk s.key msg s.sig) (s0 :: rest)) := by
    apply List.filter_congr
    intro x hx
    cases hb : E.sigBlank x.sig
    · simp [hall x hx hb]
    · simp
  unfold signatures at hsg
  rw [this] at hsg
  exact hsg

/-- A SIGNATURE COPIED INTO ANOTHER MEMBER'S SLOT IS REJECTED: if two subsig entries with DIFFERENT keys carry the same
    non-blank signature value, the multisignature does not verify — one member cannot fill a second member's slot with
    his own signature (a verifier that checks a repeated signature value only once would break exactly this) -/
theorem msig_copied_signature_rejected (E : Env T) (hB : SigBinds E) (msg : Msg T) (addr : T.Addr) (m : MSig T)
    (x y : SubSig T) (hx : x ∈ m.subs) (hy : y ∈ m.subs) (hsame : y.sig = x.sig) (hnb : E.sigBlank x.sig = false)
    (hkeys : x.key ≠ y.key) : msigVerify E msg addr m = false := by
  cases h : msigVerify E msg addr m
  · rfl
  · rw [msig_iff] at h
    have hv := ((msigValid_iff_shape E _ _ _).mp h).2
    have h1 := hv x hx hnb
    have h2 := hv y hy (by rw [hsame]; exact hnb)
    rw [hsame] at h2
    exact absurd (hB _ _ _ _ _ h1 h2).1 hkeys

/-- ANY CHANGE TO THE SIGNED BYTES IS REJECTED: a transaction accepted with a plain signature or a multisignature is
    rejected (at any position of any group) once its transaction bytes differ while the signature material is kept -/
theorem tamper_rejected (E : Env T) (P : Params) (hB : SigBinds E) (gi gi' : Nat) (grp grp' : List (STxn T)) (s s' : STxn T)
    (hk : Present E s .sig ∨ Present E s .msig) (hacc : txnOk E P gi grp s = true)
    (hsig : s'.sig = s.sig) (hmsig : s'.msig = s.msig) (htx : s'.txn ≠ s.txn) :
    txnOk E P gi' grp' s' = false := by
  cases h : txnOk E P gi' grp' s'
  · rfl
  · rcases hk with hk | hk
    · exact absurd (sig_binds E P hB gi gi' grp grp' s s' hk hacc hsig h).1 htx
    · exact absurd (msig_binds E P hB gi gi' grp grp' s s' hk hacc hmsig h).1 htx

/-- a post-quantum proof binds the transaction bytes and the address derived from (scheme, salt, public key) -/
theorem pq_binds (E : Env T) (P : Params) (hB : PqBinds E) (gi gi' : Nat) (grp grp' : List (STxn T)) (s s' : STxn T)
    (hk : Present E s .pq) (hacc : txnOk E P gi grp s = true)
    (hsame : s'.pqsig = s.pqsig) (hacc' : txnOk E P gi' grp' s' = true) :
    s'.txn = s.txn ∧ authorizer E s' = authorizer E s := by
  have hk' : Present E s' .pq := by show s'.pqsig.blank E = false; rw [hsame]; exact hk
  have h1 : PqValid _ _ _ _ _ := validFor_of_ok E P gi grp s .pq hk hacc
  have h2 : PqValid _ _ _ _ _ := validFor_of_ok E P gi' grp' s' .pq hk' hacc'
  rw [hsame] at h2
  obtain ⟨_, hm⟩ := hB _ _ _ _ _ h2.2.2.2.2.2 h1.2.2.2.2.2
  exact ⟨by injection hm, by rw [← h1.2.2.2.1, ← h2.2.2.2.1]⟩

/-- the post-quantum case of `tamper_rejected` -/
theorem tamper_rejected_pq (E : Env T) (P : Params) (hB : PqBinds E) (gi gi' : Nat) (grp grp' : List (STxn T)) (s s' : STxn T)
    (hk : Present E s .pq) (hacc : txnOk E P gi grp s = true) (hsame : s'.pqsig = s.pqsig) (htx : s'.txn ≠ s.txn) :
    txnOk E P gi' grp' s' = false := by
  cases h : txnOk E P gi' grp' s'
  · rfl
  · exact absurd (pq_binds E P hB gi gi' grp grp' s s' hk hacc hsame h).1 htx

/-- ANY CHANGE TO THE SIGNATURE IS REJECTED (plain signature): another non-blank signature value on the same
    transaction for the same authorizer is not accepted.  (Blanking it leaves no authorization: `no_kind_rejected`.) -/
theorem tamper_sig_rejected (E : Env T) (P : Params) (hU : SigUnique E) (gi gi' : Nat) (grp grp' : List (STxn T)) (s s' : STxn T)
    (hk : Present E s .sig) (hacc : txnOk E P gi grp s = true)
    (hk' : Present E s' .sig) (htx : s'.txn = s.txn) (hauth : authorizer E s' = authorizer E s) (hne : s'.sig ≠ s.sig) :
    txnOk E P gi' grp' s' = false := by
  cases h : txnOk E P gi' grp' s'
  · rfl
  · have h1 : E.sigOk _ _ _ = true := validFor_of_ok E P gi grp s .sig hk hacc
    have h2 : E.sigOk _ _ _ = true := validFor_of_ok E P gi' grp' s' .sig hk' h
    rw [htx, hauth] at h2
    exact absurd (hU _ _ _ _ h2 h1) hne

/-- ANY CHANGE TO A SUBSIGNATURE IS REJECTED: in two accepted multisignatures over the same transaction, entries with
    the same key that both carry a signature carry the same signature -/
theorem tamper_subsig_rejected (E : Env T) (P : Params) (hU : SigUnique E) (gi gi' : Nat) (grp grp' : List (STxn T)) (s s' : STxn T)
    (hk : Present E s .msig) (hacc : txnOk E P gi grp s = true)
    (hk' : Present E s' .msig) (hacc' : txnOk E P gi' grp' s' = true) (htx : s'.txn = s.txn)
    (x x' : SubSig T) (hx : x ∈ s.msig.subs) (hx' : x' ∈ s'.msig.subs) (hkey : x'.key = x.key)
    (hb : E.sigBlank x.sig = false) (hb' : E.sigBlank x'.sig = false) : x'.sig = x.sig := by
  have h1 : MsigValid _ _ _ _ := validFor_of_ok E P gi grp s .msig hk hacc
  have h2 : MsigValid _ _ _ _ := validFor_of_ok E P gi' grp' s' .msig hk' hacc'
  have v1 := ((msigValid_iff_shape E _ _ _).mp h1).2 x hx hb
  have v2 := ((msigValid_iff_shape E _ _ _).mp h2).2 x' hx' hb'
  rw [htx, hkey] at v2
  exact hU _ _ _ _ v2 v1

/-- the multisig address commits to version, threshold and the ordered key list: with a collision-free address hash,
    whatever multisignature is accepted for an authorizer has exactly that authorizer's parameters
    (the threshold cannot be lowered, keys cannot be swapped, dropped or added) -/
theorem msig_params_bound (E : Env T) (P : Params) (hI : MsigAddrInj E) (gi gi' : Nat) (grp grp' : List (STxn T)) (s s' : STxn T)
    (hk : Present E s .msig) (hacc : txnOk E P gi grp s = true)
    (hk' : Present E s' .msig) (hacc' : txnOk E P gi' grp' s' = true) (hauth : authorizer E s' = authorizer E s) :
    s'.msig.version = s.msig.version ∧ s'.msig.threshold = s.msig.threshold ∧
      s'.msig.subs.map (·.key) = s.msig.subs.map (·.key) := by
  have h1 : MsigValid _ _ _ _ := validFor_of_ok E P gi grp s .msig hk hacc
  have h2 : MsigValid _ _ _ _ := validFor_of_ok E P gi' grp' s' .msig hk' hacc'
  obtain ⟨s0, rest, e1, _, hv, _, _, _, ha, _, _⟩ := h1
  obtain ⟨s0', rest', e2, _, hv', _, _, _, ha', _, _⟩ := h2
  rw [hauth, ha] at ha'
  obtain ⟨_, ht, hkeys⟩ := hI _ _ _ _ _ _ ha'
  refine ⟨by rw [hv, hv'], ht.symm, ?_⟩
  unfold MSig.subs; rw [e1, e2]; exact hkeys.symm

theorem delegation_of_ok (E : Env T) (P : Params) (gi : Nat) (grp : List (STxn T)) (s : STxn T)
    (hk : Present E s .lsig) (hacc : txnOk E P gi grp s = true) : Delegation E P (authorizer E s) s.lsig := by
  have h : LsigValid _ _ _ _ _ := validFor_of_ok E P gi grp s .lsig hk hacc
  exact h.2.2.2.2.2.1

/-- contract accounts: the address is the program hash; with a collision-free hash no other program is accepted
    (without delegation) for that authorizer -/
theorem lsig_contract_program_bound (E : Env T) (P : Params) (hI : ProgAddrInj E) (gi gi' : Nat) (grp grp' : List (STxn T)) (s s' : STxn T)
    (hk : Present E s .lsig) (hacc : txnOk E P gi grp s = true) (hk' : Present E s' .lsig) (hacc' : txnOk E P gi' grp' s' = true)
    (hnd : E.sigBlank s.lsig.sig = true ∧ s.lsig.msig.blank = true ∧ s.lsig.lmsig.blank = true ∧ s.lsig.pqsig.blank E = true)
    (hnd' : E.sigBlank s'.lsig.sig = true ∧ s'.lsig.msig.blank = true ∧ s'.lsig.lmsig.blank = true ∧ s'.lsig.pqsig.blank E = true)
    (hauth : authorizer E s' = authorizer E s) : s'.lsig.logic = s.lsig.logic := by
  have d1 := delegation_of_ok E P gi grp s hk hacc
  have d2 := delegation_of_ok E P gi' grp' s' hk' hacc'
  cases d1 <;> cases d2 <;> simp_all
  exact hI _ _ hauth

/-- delegated logic signatures: the delegation signature is over the program; kept on another program it is rejected -/
theorem lsig_delegated_program_bound (E : Env T) (P : Params) (hB : SigBinds E) (gi gi' : Nat) (grp grp' : List (STxn T)) (s s' : STxn T)
    (hk : Present E s .lsig) (hacc : txnOk E P gi grp s = true) (hk' : Present E s' .lsig) (hacc' : txnOk E P gi' grp' s' = true)
    (hd : E.sigBlank s.lsig.sig = false) (hsame : s'.lsig.sig = s.lsig.sig) : s'.lsig.logic = s.lsig.logic := by
  have d1 := delegation_of_ok E P gi grp s hk hacc
  have d2 := delegation_of_ok E P gi' grp' s' hk' hacc'
  have hd' : E.sigBlank s'.lsig.sig = false := by rw [hsame]; exact hd
  cases d1 <;> cases d2 <;> simp_all
  rename_i h1 _ _ _ h2
  have := (hB _ _ _ _ _ h2 h1).2
  injection this

/-! ### what the code does NOT guarantee (stated so that nobody reads more into the theorems above) -/

/-- a surplus signature can be removed from an accepted multisignature: if more than `threshold` entries are signed,
    blanking one of them (here: the last entry) leaves a valid multisignature — "any change to the authorization is
    rejected" holds for multisig only in the forms `tamper_subsig_rejected` / `msig_params_bound` -/
theorem msig_surplus_signature_removable (E : Env T) (msg : Msg T) (addr : T.Addr) (v thr : Nat) (l : List (SubSig T))
    (x : SubSig T) (z : T.Sig) (hz : E.sigBlank z = true) (hl : l ≠ [])
    (hvalid : MsigValid E msg addr ⟨v, thr, some (l ++ [x])⟩) (hsurplus : thr + 1 ≤ signatures E (l ++ [x])) :
    MsigValid E msg addr ⟨v, thr, some (l ++ [⟨x.key, z⟩])⟩ := by
  obtain ⟨s0, rest, e, h0, hv, ht1, ht2, hlen, ha, _, hall⟩ := hvalid
  cases l with
  | nil => exact absurd rfl hl
  | cons a t =>
    simp only [Option.some.injEq, List.cons_append, List.cons.injEq] at e
    obtain ⟨rfl, rfl⟩ := e
    refine ⟨a, t ++ [⟨x.key, z⟩], rfl, h0, hv, ht1, ?_, ?_, ?_, ?_, ?_⟩
    · simpa using ht2
    · simpa using hlen
    · simpa using ha
    · unfold signatures at hsurplus ⊢
      simp only [List.filter_cons, List.filter_append, List.filter_nil, List.length_append, hz, Bool.not_true] at hsurplus ⊢
      split at hsurplus <;> split at hsurplus <;> simp_all <;> omega
    · intro s hs hb
      simp only [List.mem_cons, List.mem_append, List.mem_nil_iff, or_false] at hs
      rcases hs with rfl | hs | rfl
      · exact hall _ (by simp) hb
      · exact hall _ (by simp [hs]) hb
      · rw [hz] at hb; cases hb

/-- a logic signature does not sign the transaction: whether the delegation is valid depends on the transaction only
    through the authorizer address (the PROGRAM, run on the transaction, decides — `E.progEval`) -/
theorem lsig_does_not_sign_txn (E : Env T) (P : Params) (s s' : STxn T)
    (hl : s'.lsig = s.lsig) (hauth : authorizer E s' = authorizer E s) :
    Delegation E P (authorizer E s') s'.lsig ↔ Delegation E P (authorizer E s) s.lsig := by
  rw [hl, hauth]

/-! ### rekeying -/

/-- after a rekey to K (K ≠ 0, K ≠ sender) the account's AuthAddr is K: the evaluator accepts exactly the
    transactions of that sender whose authorizer is K — the old key no longer authorizes, K does -/
theorem rekey_changes_authorizer (E : Env T) (old : T.Addr) (t : T.Txn) (K : T.Addr) (s' : STxn T)
    (hK : E.rekeyTo t = K) (hK0 : K ≠ E.zeroAddr) (hKs : K ≠ E.sender t) :
    rekey E old t = K ∧ (evalAuthCheck E (rekey E old t) s' = true ↔ authorizer E s' = K) := by
  have e : rekey E old t = K := by
    unfold rekey
    rw [hK, if_neg (by rw [E.aeq_iff]; exact hK0), if_neg (by rw [E.aeq_iff]; exact hKs)]
  refine ⟨e, ?_⟩
  unfold evalAuthCheck spendingKey
  rw [e, E.aeq_iff, if_neg (by rw [E.aeq_iff]; exact hK0)]

/-- rekeying back to the sender's own address clears AuthAddr: the sender's own key authorizes again -/
theorem rekey_to_self_clears (E : Env T) (old : T.Addr) (t : T.Txn) (s' : STxn T)
    (hK : E.rekeyTo t = E.sender t) (h0 : E.sender t ≠ E.zeroAddr) (hs : E.sender s'.txn = E.sender t) :
    rekey E old t = E.zeroAddr ∧ (evalAuthCheck E (rekey E old t) s' = true ↔ authorizer E s' = E.sender t) := by
  have e : rekey E old t = E.zeroAddr := by
    unfold rekey
    rw [hK, if_neg (by rw [E.aeq_iff]; exact h0), if_pos ((E.aeq_iff _ _).mpr rfl)]
  refine ⟨e, ?_⟩
  unfold evalAuthCheck spendingKey
  rw [e, E.aeq_iff, if_pos ((E.aeq_iff _ _).mpr rfl), hs]

/-- a transaction without RekeyTo leaves the AuthAddr alone -/
theorem rekey_absent_keeps (E : Env T) (old : T.Addr) (t : T.Txn) (h : E.rekeyTo t = E.zeroAddr) : rekey E old t = old := by
  unfold rekey; rw [if_pos ((E.aeq_iff _ _).mpr h)]

/-- both layers after a rekey to K: whatever is accepted from that sender carries exactly one authorization and it is
    valid for K (so with a plain signature: it verifies under K's key, not under the old one) -/
theorem after_rekey_only_new_key (E : Env T) (P : Params) (gi : Nat) (grp : List (STxn T)) (old : T.Addr) (t : T.Txn)
    (K : T.Addr) (s' : STxn T) (hK : E.rekeyTo t = K) (hK0 : K ≠ E.zeroAddr) (hKs : K ≠ E.sender t)
    (hacc : acceptTxn E P gi grp (rekey E old t) s' = true) :
    authorizer E s' = K ∧ Authorized E P gi grp s' ∧
      (Present E s' .sig → E.sigOk (E.addrKey K) (.txn s'.txn) s'.sig = true) := by
  have e := (rekey_changes_authorizer E old t K s' hK hK0 hKs).1
  rw [e] at hacc
  obtain ⟨_, ha, hk⟩ := (authz_iff E P gi grp K s').mp hacc
  rcases spendingKey_def E K (E.sender s'.txn) with ⟨h0, _⟩ | ⟨_, hsp⟩
  · exact absurd h0 hK0
  rw [hsp] at hk
  refine ⟨hk, ha, ?_⟩
  intro hp
  rcases ha with ⟨k0, _, ho, hv⟩ | ⟨hn, _⟩
  · rw [← ho .sig hp] at hv
    have hv' : E.sigOk _ _ _ = true := hv
    rwa [hk] at hv'
  · exact absurd hp (hn .sig)

/-! ### the verified-transaction cache -/

/-- the equality tests of the cache lookup are sound (`==` on arrays, the Equal methods; equal txids ⇒ equal transaction
    bodies is the collision-freeness of the txid hash) -/
def FieldEqSound (Q : FieldEq T) : Prop :=
  (∀ a b, Q.txid a b = true → a = b) ∧ (∀ a b, Q.sig a b = true → a = b) ∧ (∀ a b, Q.msig a b = true → a = b) ∧
  (∀ a b, Q.lsig a b = true → a = b) ∧ (∀ a b, Q.pqsig a b = true → a = b) ∧ (∀ a b, Q.addr a b = true → a = b)

/-- FACT about the current source (regenerated on every run by tools/c28facts): the cache lookup reads EVERY field of the
    SignedTxn that the authorization predicate reads besides the transaction body — Sig, Msig, Lsig, PQsig and AuthAddr.
    Dropping one of them from the comparison (or from a helper it calls) breaks this proof. -/
theorem cache_compares_all_fields : ∀ f : Field, f ∈ Gen.AuthzCacheKey.comparedFields := by
  intro f; cases f <;> decide

/-- … and the cache key is the txid, which covers the transaction body -/
theorem cache_key_is_txid : Gen.AuthzCacheKey.usesTxid = true := by decide

/-- a cached and a presented SignedTxn with the same txid that pass the comparison over all fields are EQUAL — in
    particular they have the same `authorizer` and the same signature container, the only things `Authorized` reads -/
theorem same_material_eq (Q : FieldEq T) (hQ : FieldEqSound Q) (fields : List Field) (hall : ∀ f, f ∈ fields)
    (c s : STxn T) (hm : sameMaterial Q fields c s = true) (ht : c.txn = s.txn) : c = s := by
  obtain ⟨_, h2, h3, h4, h5, h6⟩ := hQ
  unfold sameMaterial at hm
  rw [List.all_eq_true] at hm
  have e1 := h2 _ _ (hm .sig (hall _))
  have e2 := h3 _ _ (hm .msig (hall _))
  have e3 := h4 _ _ (hm .lsig (hall _))
  have e4 := h5 _ _ (hm .pqsig (hall _))
  have e5 := h6 _ _ (hm .authAddr (hall _))
  cases c; cases s
  simp only at e1 e2 e3 e4 e5
  simp only at ht
  subst e1 e2 e3 e4 e5 ht
  rfl

theorem findEntry_spec {C : Type} (Q : FieldEq T) (hQ : FieldEqSound Q) (cache : List (CacheEntry T C)) (t : T.Txn) (e : CacheEntry T C)
    (h : findEntry Q cache t = some e) : e ∈ cache ∧ ∃ s' ∈ e.grp, s'.txn = t := by
  unfold findEntry at h
  refine ⟨List.mem_of_find?_eq_some h, ?_⟩
  have := List.find?_some h
  rw [List.any_eq_true] at this
  obtain ⟨s', hs', ht⟩ := this
  exact ⟨s', hs', hQ.1 _ _ ht⟩

/-- CACHE HIT SOUNDNESS.  If GetUnverifiedTransactionGroups filters a group out as already verified, then every member `s`
    (at index j) was looked up in a cached group `e` — verified earlier in the same context, containing a transaction with
    s's txid — and the SignedTxn `c` at index j of that group agrees with `s` on Sig, Msig, Lsig, PQsig and AuthAddr; when
    `c` is that transaction (same body), `c = s`: the presented SignedTxn IS the verified one, so it is authorized by the
    very authorizer the signature was checked against.  (As coded the lookup does not itself check that the transaction
    at index j is the one with s's txid; the group id inside the txid, re-checked by the evaluator, ties positions.) -/
theorem cache_hit_sound {C : Type} (Q : FieldEq T) (hQ : FieldEqSound Q) (fields : List Field) (hall : ∀ f, f ∈ fields)
    (ctxEq : C → C → Bool) (cache : List (CacheEntry T C)) (ctx : C) :
    ∀ (l : List (STxn T)) (i : Nat), membersCached Q fields ctxEq cache ctx i l = some true →
      ∀ j s, l[j]? = some s → ∃ e ∈ cache, ctxEq e.ctx ctx = true ∧ (∃ s' ∈ e.grp, s'.txn = s.txn) ∧
        ∃ c, e.grp[i + j]? = some c ∧ sameMaterial Q fields c s = true ∧ (c.txn = s.txn → c = s) := by
  intro l
  induction l with
  | nil => intro i _ j s hj; simp at hj
  | cons a rest ih =>
    intro i h j s hj
    unfold membersCached at h
    cases hf : findEntry Q cache a.txn with
    | none => rw [hf] at h; cases h
    | some e =>
      rw [hf] at h
      dsimp only at h
      by_cases hc : (!ctxEq e.ctx ctx) = true
      · rw [if_pos hc] at h; cases h
      rw [if_neg hc] at h
      cases hg : e.grp[i]? with
      | none => rw [hg] at h; cases h
      | some c =>
        rw [hg] at h
        dsimp only at h
        by_cases hm : sameMaterial Q fields c a = true
        · rw [if_pos hm] at h
          cases j with
          | zero =>
            simp only [List.getElem?_cons_zero, Option.some.injEq] at hj
            subst hj
            obtain ⟨hmem, hs'⟩ := findEntry_spec Q hQ cache _ e hf
            exact ⟨e, hmem, by simpa using hc, hs', c, by simpa using hg, hm, fun ht => same_material_eq Q hQ fields hall c _ hm ht⟩
          | succ j =>
            simp only [List.getElem?_cons_succ] at hj
            have := ih (i + 1) h j s hj
            rwa [show i + 1 + j = i + (j + 1) by omega] at this
        · rw [if_neg hm] at h; cases h

/-! ### non-vacuity: a concrete ideal-cryptography instance meets every hypothesis used above -/

namespace Ex

/-- addresses as terms: the free (collision-free) interpretation of the three address hashes -/
inductive A where
  | raw (n : Nat)
  | msig (v thr : Nat) (keys : List Nat)
  | prog (p : Nat)
  | pq (sc salt pk : Nat)
deriving DecidableEq

/-- signed messages, domain separated -/
inductive M where
  | txn (t : Nat) | prog (p : Nat) | msigProg (a : A) (p : Nat) | pqProg (a : A) (p : Nat)
deriving DecidableEq

/-- an ideal signature is the pair (signer, message); `none` is the blank signature.
    A transaction `t` has sender `t / 10` and RekeyTo `t % 10`. -/
@[reducible] def exT : Types := ⟨A, Nat, Option (Nat × M), Nat, Option (Nat × M), Nat, Nat⟩

def code : Msg exT → M
  | .txn t => .txn t
  | .prog p => .prog p
  | .msigProg a p => .msigProg a p
  | .pqProg a p => .pqProg a p

theorem code_inj (m m' : Msg exT) (h : code m = code m') : m = m' := by
  cases m <;> cases m' <;> simp [code] at h <;> simp [h]

def exEnv : Env exT where
  addrEq := inferInstanceAs (DecidableEq A)
  zeroAddr := .raw 0
  stateProofSender := .raw 99
  addrKey := fun a => match a with | .raw n => n | _ => 0
  pkIsZero := fun k => k == 0
  sigBlank := fun s => s.isNone
  pqkEmpty := fun k => k == 0
  pqsEmpty := fun s => s.isNone
  progLen := fun p => p
  progVersion := fun _ => some 1
  sender := fun t => .raw (t / 10)
  rekeyTo := fun t => .raw (t % 10)
  isStateProofTx := fun _ => false
  isHeartbeat := fun _ => false
  msigAddr := A.msig
  progAddr := A.prog
  pqAddr := A.pq
  sigOk := fun pk m s => decide (pk ≠ 0) && decide (s = some (pk, code m))
  pqOk := fun pk m s => decide (pk ≠ 0) && decide (s = some (pk, code m))
  hbProofOk := fun _ => true
  wellFormed := fun _ => true
  groupCheck := fun _ => none
  progCheck := fun _ _ => true
  progEval := fun _ _ => .pass

def exP : Params := ⟨true, true, true, 13, 1000, 16000, false, true, true⟩

theorem exSigBinds : SigBinds exEnv := by
  intro pk m pk' m' s h h'
  simp only [exEnv, Bool.and_eq_true, decide_eq_true_eq] at h h'
  rw [h.2] at h'
  have := h'.2
  simp only [Option.some.injEq, Prod.mk.injEq] at this
  exact ⟨this.1, code_inj _ _ this.2⟩

theorem exSigUnique : SigUnique exEnv := by
  intro pk m s s' h h'
  simp only [exEnv, Bool.and_eq_true, decide_eq_true_eq] at h h'
  rw [h.2, h'.2]

theorem exPqBinds : PqBinds exEnv := by
  intro pk m pk' m' s h h'
  simp only [exEnv, Bool.and_eq_true, decide_eq_true_eq] at h h'
  rw [h.2] at h'
  have := h'.2
  simp only [Option.some.injEq, Prod.mk.injEq] at this
  exact ⟨this.1, code_inj _ _ this.2⟩

theorem exMsigAddrInj : MsigAddrInj exEnv := by
  intro v t k v' t' k' h
  simp only [exEnv] at h
  injection h with a b c
  exact ⟨a, b, c⟩

theorem exProgAddrInj : ProgAddrInj exEnv := by
  intro p p' h
  simp only [exEnv] at h
  injection h

def noMsig : MSig exT := ⟨0, 0, none⟩
def noPQ : PQSig exT := ⟨0, 0, 0, none⟩
def noLsig : LSig exT := ⟨0, none, noMsig, noMsig, noPQ, 0, 0⟩

/-- key 3 signs transaction 30 (sender 3, no rekey) -/
def sSig : STxn exT := ⟨some (3, .txn 30), noMsig, noLsig, noPQ, 30, .raw 0⟩
/-- the same signature on transaction 31 -/
def sSigTampered : STxn exT := { sSig with txn := 31 }
/-- 2-of-3 multisig of keys 1,2,3 signed by 1 and 3, sender = the multisig address rekeyed from account 4 -/
def m23 (s1 s2 s3 : Option (Nat × M)) : MSig exT := ⟨1, 2, some [⟨1, s1⟩, ⟨2, s2⟩, ⟨3, s3⟩]⟩
def sMsig : STxn exT := ⟨none, m23 (some (1, .txn 40)) none (some (3, .txn 40)), noLsig, noPQ, 40, .msig 1 2 [1, 2, 3]⟩
/-- only one of the two required signatures -/
def sMsigShort : STxn exT := { sMsig with msig := m23 (some (1, .txn 40)) none none }
/-- contract account: sender 7's AuthAddr is the hash of program 5 -/
def sLsig : STxn exT := ⟨none, noMsig, { noLsig with logic := 5 }, noPQ, 70, .prog 5⟩
/-- Falcon account: key 6, salt 2 -/
def sPQ : STxn exT := ⟨none, noMsig, noLsig, ⟨schemeFalcon1024, 2, 6, some (6, .txn 80)⟩, 80, .pq schemeFalcon1024 2 6⟩
def sPQTampered : STxn exT := { sPQ with txn := 81 }
/-- two kinds at once -/
def sBoth : STxn exT := { sSig with msig := sMsig.msig }

example : acceptTxn exEnv exP 0 [sSig] (.raw 0) sSig = true := by decide
example : acceptTxn exEnv exP 0 [sMsig] (.msig 1 2 [1, 2, 3]) sMsig = true := by decide
example : acceptTxn exEnv exP 0 [sMsigShort] (.msig 1 2 [1, 2, 3]) sMsigShort = false := by decide
example : acceptTxn exEnv exP 0 [sLsig] (.prog 5) sLsig = true := by decide
example : acceptTxn exEnv exP 0 [sPQ] (.pq schemeFalcon1024 2 6) sPQ = true := by decide
example : txnOk exEnv exP 0 [sPQTampered] sPQTampered = false :=
  tamper_rejected_pq exEnv exP exPqBinds 0 0 [sPQ] [sPQTampered] sPQ sPQTampered
    (show sPQ.pqsig.blank exEnv = false by decide) (by decide) rfl (by decide)
example : txnOk exEnv exP 0 [sBoth] sBoth = false :=
  two_kinds_rejected exEnv exP 0 [sBoth] sBoth .sig .msig (show exEnv.sigBlank sBoth.sig = false by decide)
    (show sBoth.msig.blank = false by decide) (by decide)
example : verifyGroup exEnv exP [sSig, sLsig] = .ok := by decide
example : verifyGroup exEnv exP [sSig, sMsigShort] = .rej ⟨.msigNotWellFormed, 1, .msig .count⟩ := by decide

/-- `tamper_rejected` applies (all hypotheses met) and agrees with evaluation -/
example : txnOk exEnv exP 0 [sSigTampered] sSigTampered = false :=
  tamper_rejected exEnv exP exSigBinds 0 0 [sSig] [sSigTampered] sSig sSigTampered
    (Or.inl (show exEnv.sigBlank sSig.sig = false by decide)) (by decide) rfl rfl (by decide)
example : txnOk exEnv exP 0 [sSigTampered] sSigTampered = false := by decide

/-- rekey: transaction 35 of sender 3 rekeys to key 5; afterwards key 3's signature is refused and key 5's accepted;
    transaction 33 (RekeyTo = sender) clears it again -/
def sOld : STxn exT := ⟨some (3, .txn 30), noMsig, noLsig, noPQ, 30, .raw 0⟩
def sNew : STxn exT := ⟨some (5, .txn 30), noMsig, noLsig, noPQ, 30, .raw 5⟩
example : rekey exEnv (.raw 0) 35 = .raw 5 := by decide
example : acceptTxn exEnv exP 0 [sOld] (rekey exEnv (.raw 0) 35) sOld = false := by decide
example : acceptTxn exEnv exP 0 [sNew] (rekey exEnv (.raw 0) 35) sNew = true := by decide
example : rekey exEnv (.raw 5) 33 = .raw 0 := by decide
example : acceptTxn exEnv exP 0 [sOld] (rekey exEnv (.raw 5) 33) sOld = true := by decide
example : evalAuthCheck exEnv (rekey exEnv (.raw 0) 35) sNew = true ↔ authorizer exEnv sNew = .raw 5 :=
  (rekey_changes_authorizer exEnv (.raw 0) 35 (.raw 5) sNew rfl (by decide) (by decide)).2
/-- member 1's signature copied into member 2's slot of the 2-of-3: rejected, by evaluation and by the theorem -/
def sMsigCopied : STxn exT := { sMsig with msig := m23 (some (1, .txn 40)) (some (1, .txn 40)) none }
example : acceptTxn exEnv exP 0 [sMsigCopied] (.msig 1 2 [1, 2, 3]) sMsigCopied = false := by decide
example : msigVerify exEnv (.txn 40) (.msig 1 2 [1, 2, 3]) sMsigCopied.msig = false :=
  msig_copied_signature_rejected exEnv exSigBinds (.txn 40) _ sMsigCopied.msig ⟨1, some (1, .txn 40)⟩ ⟨2, some (1, .txn 40)⟩
    (by simp [sMsigCopied, m23, MSig.subs]) (by simp [sMsigCopied, m23, MSig.subs]) rfl (by decide) (by decide)
/-- a 2-of-2 of the same key twice: one key holder suffices (as coded) -/
example : msigVerify exEnv (.txn 40) (.msig 1 2 [1, 1]) ⟨1, 2, some [⟨1, some (1, .txn 40)⟩, ⟨1, some (1, .txn 40)⟩]⟩ = true :=
  msig_duplicate_entries_count exEnv (.txn 40) 1 (some (1, .txn 40)) (by decide) (by decide) (by decide)

/-! the cache: real equality tests on the example types -/
instance : DecidableEq (SubSig exT) := fun ⟨k1, s1⟩ ⟨k2, s2⟩ =>
  if h : k1 = k2 ∧ s1 = s2 then isTrue (by cases h.1; cases h.2; rfl) else isFalse (by intro e; cases e; exact h ⟨rfl, rfl⟩)
instance : DecidableEq (MSig exT) := fun ⟨v1, t1, l1⟩ ⟨v2, t2, l2⟩ =>
  if h : v1 = v2 ∧ t1 = t2 ∧ l1 = l2 then isTrue (by cases h.1; cases h.2.1; cases h.2.2; rfl)
  else isFalse (by intro e; cases e; exact h ⟨rfl, rfl, rfl⟩)
instance : DecidableEq (PQSig exT) := fun ⟨a1, b1, c1, d1⟩ ⟨a2, b2, c2, d2⟩ =>
  if h : a1 = a2 ∧ b1 = b2 ∧ c1 = c2 ∧ d1 = d2 then isTrue (by cases h.1; cases h.2.1; cases h.2.2.1; cases h.2.2.2; rfl)
  else isFalse (by intro e; cases e; exact h ⟨rfl, rfl, rfl, rfl⟩)
instance : DecidableEq (LSig exT) := fun ⟨a1, b1, c1, d1, e1, f1, g1⟩ ⟨a2, b2, c2, d2, e2, f2, g2⟩ =>
  if h : a1 = a2 ∧ b1 = b2 ∧ c1 = c2 ∧ d1 = d2 ∧ e1 = e2 ∧ f1 = f2 ∧ g1 = g2 then
    isTrue (by cases h.1; cases h.2.1; cases h.2.2.1; cases h.2.2.2.1; cases h.2.2.2.2.1; cases h.2.2.2.2.2.1; cases h.2.2.2.2.2.2; rfl)
  else isFalse (by intro e; cases e; exact h ⟨rfl, rfl, rfl, rfl, rfl, rfl, rfl⟩)

def exQ : FieldEq exT :=
  ⟨fun a b => decide (a = b), fun a b => decide (a = b), fun a b => decide (a = b), fun a b => decide (a = b),
   fun a b => decide (a = b), fun a b => decide (a = b)⟩

theorem exQSound : FieldEqSound exQ :=
  ⟨fun _ _ h => of_decide_eq_true h, fun _ _ h => of_decide_eq_true h, fun _ _ h => of_decide_eq_true h,
   fun _ _ h => of_decide_eq_true h, fun _ _ h => of_decide_eq_true h, fun _ _ h => of_decide_eq_true h⟩

/-- key 3's signed transaction 30 is in the cache; the same bytes are a hit, the same transaction and signature
    presented with AuthAddr = 5 (what a rekeyed sender would need) is NOT — it goes to full verification and fails there -/
def exCache : List (CacheEntry exT Unit) := [⟨(), [sSig]⟩]
def sSigOtherAuth : STxn exT := { sSig with authAddr := .raw 5 }
example : cacheHit exQ Gen.AuthzCacheKey.comparedFields (fun _ _ => true) exCache () [sSig] = some true := by decide
example : cacheHit exQ Gen.AuthzCacheKey.comparedFields (fun _ _ => true) exCache () [sSigOtherAuth] = some false := by decide
example : (verifyVia exEnv exP exQ Gen.AuthzCacheKey.comparedFields (fun _ _ => true) exCache () [sSigOtherAuth]).1 = .miss .batchFailed := by
  decide
/-- why `cache_compares_all_fields` matters: a lookup that does not compare AuthAddr reports the forged variant as verified -/
example : cacheHit exQ [.sig, .msig, .lsig, .pqsig] (fun _ _ => true) exCache () [sSigOtherAuth] = some true := by decide

end Ex

end Props.C28
