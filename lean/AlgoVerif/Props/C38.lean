/-
C38 — State proof prover and verifier agree on the required reveals.

Theorems about `Model.StateProofWeights` (crypto/stateproof/weights.go, coinGenerator.go, prover.go:Ready).
Notation: for signedWeight ≥ 1 let (y, x, w) = getSubExpressions signedWeight,
  N = numerator = strengthTarget·T·y,   D = denom = x + (w − lnProvenWeight)·y.
The verifier's inequality  n·(x + w·y) ≥ (strengthTarget·T + n·lnProvenWeight)·y  is  n·D ≥ N.
Domain: signedWeight ≥ 1 (`getSubExpressions sw = some _ ↔ sw ≠ 0`); the prover reaches numReveals only
behind `Ready`, i.e. with signedWeight > provenWeight ≥ 0 (`createProof_domain`).
-/
import AlgoVerif.Model.StateProofWeights
import Mathlib.Tactic.Ring
import Mathlib.Tactic.Linarith
namespace Props.C38
open AlgoVerif.Model.StateProofWeights

/-! ### domain -/

theorem sub_some_iff (sw : Nat) : (∃ s, getSubExpressions sw = some s) ↔ 1 ≤ sw := by
  unfold getSubExpressions
  by_cases h : sw = 0
  · subst h; simp
  · rw [if_neg h]; simp; omega

theorem sub_ne_zero {sw : Nat} {s : Sub} (h : getSubExpressions sw = some s) : sw ≠ 0 := by
  intro h0; subst h0; simp [getSubExpressions] at h

/-- outside the domain the prover-side function does not return (the Go code panics) -/
theorem numReveals_zero (lnP st : Nat) : numReveals 0 lnP st = .error .panicAtZero := by
  simp [numReveals, getSubExpressions]

/-- `CreateProof` calls numReveals only with signedWeight > provenWeight, hence inside the domain -/
theorem createProof_domain (cached : Bool) (sw pw lnP st : Nat) (r : Except Err Nat)
    (h : createProofReveals cached sw pw lnP st = some r) :
    pw < sw ∧ 1 ≤ sw ∧ r = numReveals sw lnP st := by
  unfold createProofReveals ready at h
  cases cached with
  | true => simp at h
  | false =>
    by_cases hlt : sw > pw
    · simp [hlt] at h
      exact ⟨hlt, by omega, h.symm⟩
    · simp [hlt] at h

example : createProofReveals false 6000000000000000 2000000000000000 2308960 256 = some (.ok 162) := by decide

/-! ### the two sides as statements about N and D -/

/-- lhs − rhs of the verifier is exactly n·D − N -/
theorem lhs_sub_rhs (s : Sub) (lnP n st : Nat) :
    lhs s n - rhs s lnP n st = (n : Int) * denom s lnP - numerator s st := by
  unfold lhs rhs denom numerator; ring

/-- The verifier accepts exactly: n ≤ MaxReveals, signedWeight ≥ 1 and n·D ≥ N. -/
theorem verifyWeights_ok_iff (sw lnP n st : Nat) :
    verifyWeights sw lnP n st = .ok () ↔
      n ≤ MaxReveals ∧ ∃ s, getSubExpressions sw = some s ∧ numerator s st ≤ (n : Int) * denom s lnP := by
  unfold verifyWeights
  by_cases hn : n > MaxReveals
  · rw [if_pos hn]; constructor
    · intro h; cases h
    · rintro ⟨h, _⟩; omega
  rw [if_neg hn]
  by_cases h0 : sw = 0
  · rw [if_pos h0]; constructor
    · intro h; cases h
    · rintro ⟨_, s, hs, _⟩; exact absurd h0 (sub_ne_zero hs)
  rw [if_neg h0]
  cases hs : getSubExpressions sw with
  | none => exact absurd ((sub_some_iff sw).2 (by omega)) (by simp [hs])
  | some s =>
    have key := lhs_sub_rhs s lnP n st
    by_cases hlt : lhs s n < rhs s lnP n st
    · simp only [if_pos hlt]; constructor
      · intro h; cases h
      · rintro ⟨_, s', hs', hle⟩
        cases hs'; exfalso; linarith
    · simp only [if_neg hlt]; constructor
      · intro _; exact ⟨by omega, s, rfl, by linarith⟩
      · intro _; trivial

/-- Which error the verifier returns. -/
theorem verifyWeights_error (sw lnP n st : Nat) :
    (n > MaxReveals → verifyWeights sw lnP n st = .error .tooManyReveals) ∧
    (n ≤ MaxReveals → sw = 0 → verifyWeights sw lnP n st = .error .zeroSignedWeight) ∧
    (∀ s, n ≤ MaxReveals → getSubExpressions sw = some s → (n : Int) * denom s lnP < numerator s st →
        verifyWeights sw lnP n st = .error .insufficient) := by
  refine ⟨?_, ?_, ?_⟩
  · intro h; unfold verifyWeights; rw [if_pos h]
  · intro h h0; unfold verifyWeights; rw [if_neg (by omega), if_pos h0]
  · intro s h hs hlt
    unfold verifyWeights
    rw [if_neg (by omega), if_neg (sub_ne_zero hs)]
    simp only [hs]
    have key := lhs_sub_rhs s lnP n st
    rw [if_pos (by linarith)]

theorem two64_val : two64 = 18446744073709551616 := by decide

/-- the guard `!quo.IsUint64() || quo.Uint64() >= MaxReveals` fires exactly when ¬(0 ≤ quo < MaxReveals) -/
theorem guard_iff (q : Int) :
    ((!isUint64 q || decide (toUint64 q ≥ MaxReveals)) = true) ↔ ¬ (0 ≤ q ∧ q < (MaxReveals : Int)) := by
  unfold isUint64 toUint64
  rw [two64_val]; unfold MaxReveals
  simp
  omega

/-- behind the guard `quo.Uint64() + 1` is the mathematical q + 1 (no truncation, no wrap) -/
theorem ok_val (q : Int) (h0 : 0 ≤ q) (h1 : q < (MaxReveals : Int)) :
    (((toUint64 q + 1) % two64 : Nat) : Int) = q + 1 := by
  unfold toUint64
  rw [two64_val]; unfold MaxReveals at h1
  omega

/-- What an `ok` of the prover-side function means: D > 0, the quotient q = ⌊N/D⌋ is below MaxReveals,
    and the result is q + 1. -/
theorem numReveals_ok_iff (sw lnP st n : Nat) :
    numReveals sw lnP st = .ok n ↔
      ∃ s, getSubExpressions sw = some s ∧ 0 < denom s lnP ∧ 0 ≤ quotient s lnP st ∧
        quotient s lnP st < (MaxReveals : Int) ∧ (n : Int) = quotient s lnP st + 1 := by
  unfold numReveals
  cases hs : getSubExpressions sw with
  | none => simp
  | some s =>
    simp only [Option.some.injEq, exists_eq_left']
    by_cases hD : denom s lnP ≤ 0
    · rw [if_pos hD]; constructor
      · intro h; cases h
      · rintro ⟨h, _⟩; omega
    rw [if_neg hD]
    by_cases hg : (!isUint64 (quotient s lnP st) || decide (toUint64 (quotient s lnP st) ≥ MaxReveals)) = true
    · simp only [hg, if_true]
      have := (guard_iff _).1 hg
      constructor
      · intro h; cases h
      · rintro ⟨_, h1, h2, _⟩; exact absurd ⟨h1, h2⟩ this
    · simp only [hg]
      have hq : 0 ≤ quotient s lnP st ∧ quotient s lnP st < (MaxReveals : Int) := by
        by_contra hc; exact hg ((guard_iff _).2 hc)
      have hv := ok_val _ hq.1 hq.2
      simp only [Bool.false_eq_true, if_false, Except.ok.injEq]
      constructor
      · intro h; subst h; exact ⟨by omega, hq.1, hq.2, hv⟩
      · rintro ⟨_, _, _, h⟩; omega

/-- y > 0 and N ≥ 0 in the domain -/
theorem sub_y_pos {sw : Nat} {s : Sub} (hs : getSubExpressions sw = some s) : 0 < s.y := by
  unfold getSubExpressions at hs
  split at hs
  · cases hs
  · cases hs; positivity

/-- What ErrTooManyReveals of the prover-side function means: D > 0 and ⌊N/D⌋ ≥ MaxReveals. -/
theorem numReveals_tooMany_iff (sw lnP st : Nat) :
    numReveals sw lnP st = .error .tooManyReveals ↔
      ∃ s, getSubExpressions sw = some s ∧ 0 < denom s lnP ∧ (MaxReveals : Int) ≤ quotient s lnP st := by
  unfold numReveals
  cases hs : getSubExpressions sw with
  | none => simp
  | some s =>
    simp only [Option.some.injEq, exists_eq_left']
    by_cases hD : denom s lnP ≤ 0
    · rw [if_pos hD]; constructor
      · intro h; cases h
      · rintro ⟨h, _⟩; omega
    rw [if_neg hD]
    have hN : 0 ≤ numerator s st := by
      have := sub_y_pos hs
      unfold numerator; positivity
    have hq0 : 0 ≤ quotient s lnP st := Int.ediv_nonneg hN (by omega)
    by_cases hg : (!isUint64 (quotient s lnP st) || decide (toUint64 (quotient s lnP st) ≥ MaxReveals)) = true
    · simp only [hg, if_true, true_iff]
      have := (guard_iff _).1 hg
      exact ⟨by omega, by omega⟩
    · simp only [hg]
      have hq : 0 ≤ quotient s lnP st ∧ quotient s lnP st < (MaxReveals : Int) := by
        by_contra hc; exact hg ((guard_iff _).2 hc)
      simp only [Bool.false_eq_true, if_false]
      constructor
      · intro h; cases h
      · rintro ⟨_, h⟩; omega

/-- integer fact behind the `+ 1`:  D > 0 ⇒ N < (⌊N/D⌋ + 1)·D  and  ⌊N/D⌋·D ≤ N -/
theorem div_bounds (N D : Int) (hD : 0 < D) : N / D * D ≤ N ∧ N < (N / D + 1) * D :=
  ⟨Int.ediv_mul_le N (by omega), Int.lt_ediv_add_one_mul_self N hD⟩

/-! ### the property -/

/-- **Prover ⇒ verifier.** Whenever numReveals returns a count, that count passes verifyWeights
    (for every signedWeight / lnProvenWeight / strengthTarget; the `ok` already implies signedWeight ≥ 1). -/
theorem reveals_satisfy (sw lnP st n : Nat) (h : numReveals sw lnP st = .ok n) :
    verifyWeights sw lnP n st = .ok () := by
  obtain ⟨s, hs, hD, hq0, hq1, hn⟩ := (numReveals_ok_iff sw lnP st n).1 h
  rw [verifyWeights_ok_iff]
  refine ⟨?_, s, hs, ?_⟩
  · simp only [MaxReveals] at hq1 ⊢; omega
  · have := (div_bounds (numerator s st) (denom s lnP) hD).2
    unfold quotient at hn
    rw [hn]; exact Int.le_of_lt this

/-- the count strictly satisfies the inequality (n·D > N) and is within the allocation bound -/
theorem reveals_strict (sw lnP st n : Nat) (h : numReveals sw lnP st = .ok n) :
    1 ≤ n ∧ n ≤ MaxReveals ∧
      ∃ s, getSubExpressions sw = some s ∧ numerator s st < (n : Int) * denom s lnP := by
  obtain ⟨s, hs, hD, hq0, hq1, hn⟩ := (numReveals_ok_iff sw lnP st n).1 h
  refine ⟨by omega, by simp only [MaxReveals] at hq1 ⊢; omega, s, hs, ?_⟩
  have := (div_bounds (numerator s st) (denom s lnP) hD).2
  unfold quotient at hn
  rw [hn]; exact this

example : numReveals 6000000000000000 2308960 256 = .ok 162 := by decide
example : verifyWeights 6000000000000000 2308960 162 256 = .ok () := by decide

/-- **Verifier rejects what violates its inequality.** In the domain (signedWeight ≥ 1), a count n' with
    n'·D < N is rejected (ErrInsufficientSignedWeight, or ErrTooManyReveals when n' > MaxReveals), and every
    count above MaxReveals is rejected whatever the weights. -/
theorem smaller_rejected (sw lnP n' st : Nat) :
    (∀ s, getSubExpressions sw = some s → (n' : Int) * denom s lnP < numerator s st →
        verifyWeights sw lnP n' st = .error (if n' > MaxReveals then .tooManyReveals else .insufficient)) ∧
    (n' > MaxReveals → verifyWeights sw lnP n' st = .error .tooManyReveals) := by
  have E := verifyWeights_error sw lnP n' st
  refine ⟨?_, E.1⟩
  intro s hs hlt
  by_cases hn : n' > MaxReveals
  · rw [if_pos hn]; exact E.1 hn
  · rw [if_neg hn]; exact E.2.2 s (by omega) hs hlt

example : verifyWeights 6000000000000000 2308960 161 256 = .error .insufficient := by decide
example : verifyWeights 6000000000000000 2308960 641 256 = .error .tooManyReveals := by decide

/-- exactly the violating counts are rejected: rejection ⇔ n' > MaxReveals ∨ signedWeight = 0 ∨ n'·D < N -/
theorem rejected_iff (sw lnP n' st : Nat) :
    verifyWeights sw lnP n' st ≠ .ok () ↔
      n' > MaxReveals ∨ sw = 0 ∨
        ∃ s, getSubExpressions sw = some s ∧ (n' : Int) * denom s lnP < numerator s st := by
  rw [Ne, verifyWeights_ok_iff]
  constructor
  · intro h
    by_cases hn : n' > MaxReveals
    · exact Or.inl hn
    by_cases h0 : sw = 0
    · exact Or.inr (Or.inl h0)
    obtain ⟨s, hs⟩ := (sub_some_iff sw).2 (by omega)
    refine Or.inr (Or.inr ⟨s, hs, ?_⟩)
    by_contra hge
    exact h ⟨by omega, s, hs, by omega⟩
  · rintro (h | h | ⟨s, hs, hlt⟩) ⟨hn, s', hs', hle⟩
    · omega
    · exact sub_ne_zero hs' h
    · rw [hs] at hs'; cases hs'; omega

/-- **Minimality of the prover's count.** Every count below n − 1 is rejected by the verifier … -/
theorem below_rejected (sw lnP st n n' : Nat) (h : numReveals sw lnP st = .ok n) (hlt : n' + 1 < n) :
    verifyWeights sw lnP n' st = .error .insufficient := by
  obtain ⟨s, hs, hD, hq0, hq1, hn⟩ := (numReveals_ok_iff sw lnP st n).1 h
  refine (verifyWeights_error sw lnP n' st).2.2 s ?_ hs ?_
  · simp only [MaxReveals] at hq1 ⊢; omega
  · have hb := (div_bounds (numerator s st) (denom s lnP) hD).1
    unfold quotient at hn
    have h1 : (n' : Int) + 1 ≤ numerator s st / denom s lnP := by omega
    have h2 : ((n' : Int) + 1) * denom s lnP ≤ numerator s st / denom s lnP * denom s lnP :=
      Int.mul_le_mul_of_nonneg_right h1 (by omega)
    have h3 : ((n' : Int) + 1) * denom s lnP = (n' : Int) * denom s lnP + denom s lnP := by ring
    omega

/-- … and n − 1 itself is rejected unless D divides N exactly (then n − 1 = N/D meets the non-strict
    inequality with equality: the prover's `+ 1` is one more than needed only in that case). -/
theorem pred_rejected_iff (sw lnP st n : Nat) (h : numReveals sw lnP st = .ok n) :
    verifyWeights sw lnP (n - 1) st = .error .insufficient ↔
      ∃ s, getSubExpressions sw = some s ∧ numerator s st % denom s lnP ≠ 0 := by
  obtain ⟨s, hs, hD, hq0, hq1, hn⟩ := (numReveals_ok_iff sw lnP st n).1 h
  unfold quotient at hn hq0 hq1
  have hcast : ((n - 1 : Nat) : Int) = numerator s st / denom s lnP := by omega
  have hdm := Int.mul_ediv_add_emod (numerator s st) (denom s lnP)
  have hm0 := Int.emod_nonneg (numerator s st) (show denom s lnP ≠ 0 by omega)
  have hcomm : denom s lnP * (numerator s st / denom s lnP) =
      numerator s st / denom s lnP * denom s lnP := by ring
  constructor
  · intro hv
    refine ⟨s, hs, ?_⟩
    intro hz
    have hok : verifyWeights sw lnP (n - 1) st = .ok () := by
      rw [verifyWeights_ok_iff]
      refine ⟨by simp only [MaxReveals] at hq1 ⊢; omega, s, hs, ?_⟩
      rw [hcast]; omega
    rw [hok] at hv; cases hv
  · rintro ⟨s', hs', hne⟩
    rw [hs] at hs'; cases hs'
    refine (verifyWeights_error sw lnP (n - 1) st).2.2 s ?_ hs ?_
    · simp only [MaxReveals] at hq1 ⊢; omega
    · rw [hcast]; omega

example : verifyWeights 16 0 0 0 = .ok () ∧ numReveals 16 0 0 = .ok 1 := by decide

/-- The prover gives up with ErrTooManyReveals only when no count below MaxReveals would verify. -/
theorem tooMany_sound (sw lnP st n' : Nat) (h : numReveals sw lnP st = .error .tooManyReveals)
    (hn : n' < MaxReveals) : verifyWeights sw lnP n' st = .error .insufficient := by
  obtain ⟨s, hs, hD, hq⟩ := (numReveals_tooMany_iff sw lnP st).1 h
  refine (verifyWeights_error sw lnP n' st).2.2 s (by omega) hs ?_
  have hb := (div_bounds (numerator s st) (denom s lnP) hD).1
  unfold quotient at hq
  have h1 : (n' : Int) + 1 ≤ numerator s st / denom s lnP := by omega
  have h2 : ((n' : Int) + 1) * denom s lnP ≤ numerator s st / denom s lnP * denom s lnP :=
    Int.mul_le_mul_of_nonneg_right h1 (by omega)
  have h3 : ((n' : Int) + 1) * denom s lnP = (n' : Int) * denom s lnP + denom s lnP := by ring
  omega

/-- ErrNegativeNumOfRevealsEquation (D ≤ 0) is returned only when no count at all can verify (for N > 0,
    i.e. strengthTarget ≥ 1). -/
theorem negative_sound (sw lnP st n' : Nat) (s : Sub) (hs : getSubExpressions sw = some s)
    (hD : denom s lnP ≤ 0) (hst : 1 ≤ st) :
    numReveals sw lnP st = .error .negativeEquation ∧ verifyWeights sw lnP n' st ≠ .ok () := by
  constructor
  · unfold numReveals; simp only [hs]; rw [if_pos hD]
  · rw [rejected_iff]
    by_cases hn : n' > MaxReveals
    · exact Or.inl hn
    refine Or.inr (Or.inr ⟨s, hs, ?_⟩)
    have hy := sub_y_pos hs
    have hN : 0 < numerator s st := by
      unfold numerator ln2IntApproximation
      have : (0:Int) < (st : Int) := by omega
      positivity
    have : (n' : Int) * denom s lnP ≤ 0 := Int.mul_nonpos_of_nonneg_of_nonpos (by omega) hD
    omega

example : numReveals 1025 454256 256 = .error .tooManyReveals := by decide

/-! ### the defect that the bound check on the quotient removes -/

/-- With the quotient narrowed to uint64 BEFORE the MaxReveals comparison (the formula the code had), there
    are in-domain inputs on which the prover returns a count that the verifier rejects:
    lnProvenWeight = 0 is ln(1); the true quotient is 2^64, whose low 64 bits are 0. -/
theorem truncation_counterexample :
    numRevealsTruncating 2 0 18446337999258812859 = .ok 1 ∧
    verifyWeights 2 0 1 18446337999258812859 = .error .insufficient ∧
    numRevealsTruncating 2 45425 1977582575097750597 = .ok 0 ∧
    verifyWeights 2 45425 0 1977582575097750597 = .error .insufficient ∧
    numRevealsTruncating 2 45425 8558831198220798631 = .ok 6 ∧
    verifyWeights 2 45425 6 8558831198220798631 = .error .insufficient ∧
    numReveals 2 0 18446337999258812859 = .error .tooManyReveals ∧
    numReveals 2 45425 1977582575097750597 = .error .tooManyReveals ∧
    numReveals 2 45425 8558831198220798631 = .error .tooManyReveals := by decide

/-- the two formulas agree whenever the quotient fits: the guard changes no other result -/
theorem truncating_agrees (sw lnP st : Nat) (s : Sub) (hs : getSubExpressions sw = some s)
    (hq0 : 0 ≤ quotient s lnP st) (hq : quotient s lnP st < (two64 : Int) - 1) :
    numRevealsTruncating sw lnP st = numReveals sw lnP st := by
  unfold numRevealsTruncating numReveals truncPlusOne
  simp only [hs]
  by_cases hD : denom s lnP ≤ 0
  · rw [if_pos hD, if_pos hD]
  rw [if_neg hD, if_neg hD]
  generalize quotient s lnP st = q at hq0 hq
  have hval : ((toUint64 q + 1) % two64 : Nat) = q.toNat + 1 := by
    unfold toUint64; rw [two64_val] at hq ⊢; omega
  rw [hval]
  by_cases hg : (!isUint64 q || decide (toUint64 q ≥ MaxReveals)) = true
  · have := (guard_iff q).1 hg
    simp only [hg, if_true]
    rw [if_pos (by unfold MaxReveals at this ⊢; omega)]
  · have hq' : 0 ≤ q ∧ q < (MaxReveals : Int) := by
      by_contra hc; exact hg ((guard_iff q).2 hc)
    simp only [hg, Bool.false_eq_true, if_false]
    rw [if_neg (by unfold MaxReveals at hq' ⊢; omega)]

/-! ### coins -/

/-- the threshold the code computes: ⌊2^64 / signedWeight⌋ · signedWeight (defined iff signedWeight ≥ 1) -/
theorem coin_uniform_threshold (sw : Nat) (hsw : 1 ≤ sw) :
    threshold sw = some (2 ^ 64 / sw * sw) := by
  unfold threshold numberOfBitsPerAttempt
  rw [if_neg (by omega)]

theorem threshold_none_iff (sw : Nat) : threshold sw = none ↔ sw = 0 := by
  unfold threshold; by_cases h : sw = 0 <;> simp [h]

/-- the threshold is a multiple of signedWeight, at most 2^64, and fewer than signedWeight draws are rejected -/
theorem threshold_props (sw t : Nat) (h : threshold sw = some t) :
    sw ∣ t ∧ t ≤ 2 ^ 64 ∧ 2 ^ 64 - t < sw ∧ t = 2 ^ 64 / sw * sw ∧ (sw < 2 ^ 64 → sw ≤ t) := by
  have hsw : 1 ≤ sw := by
    rcases Nat.eq_zero_or_pos sw with h0 | h0
    · rw [(threshold_none_iff sw).2 h0] at h; cases h
    · exact h0
  rw [coin_uniform_threshold sw hsw] at h
  cases h
  generalize (2:Nat) ^ 64 = W
  have h1 : W / sw * sw ≤ W := Nat.div_mul_le_self W sw
  have h2 : W % sw < sw := Nat.mod_lt W hsw
  have h3 : sw * (W / sw) + W % sw = W := Nat.div_add_mod W sw
  have h4 : W / sw * sw = sw * (W / sw) := Nat.mul_comm _ _
  refine ⟨⟨W / sw, h4⟩, h1, by omega, rfl, ?_⟩
  intro hlt
  have : 1 ≤ W / sw := (Nat.one_le_div_iff hsw).2 (by omega)
  calc sw = 1 * sw := by omega
    _ ≤ W / sw * sw := Nat.mul_le_mul_right sw this

theorem nextCoinLoop_spec (sw thr : Nat) (draws : List Nat) (used c u : Nat) (rest : List Nat)
    (h : nextCoinLoop sw thr draws used = some (c, u, rest)) :
    ∃ pre z, draws = pre ++ z :: rest ∧ (∀ p ∈ pre, thr ≤ p) ∧ z < thr ∧ c = z % sw ∧
      u = used + pre.length + 1 := by
  induction draws generalizing used with
  | nil => simp [nextCoinLoop] at h
  | cons z zs ih =>
    unfold nextCoinLoop at h
    by_cases hz : z < thr
    · rw [if_pos hz] at h
      simp only [Option.some.injEq, Prod.mk.injEq] at h
      obtain ⟨h1, h2, h3⟩ := h
      exact ⟨[], z, by simp [h3], by simp, hz, h1.symm, by simp; omega⟩
    · rw [if_neg hz] at h
      obtain ⟨pre, z', h1, h2, h3, h4, h5⟩ := ih (used + 1) h
      refine ⟨z :: pre, z', by simp [h1], ?_, h3, h4, by simp; omega⟩
      intro p hp
      rcases List.mem_cons.1 hp with rfl | hp
      · omega
      · exact h2 p hp

/-- getNextCoin returns `z % signedWeight` for the FIRST draw z below ⌊2^64/sw⌋·sw; all earlier draws were
    rejected because they are ≥ that threshold -/
theorem getNextCoin_spec (sw : Nat) (draws : List Nat) (c u : Nat) (rest : List Nat)
    (h : getNextCoin sw draws = some (c, u, rest)) :
    1 ≤ sw ∧ ∃ pre z, draws = pre ++ z :: rest ∧ (∀ p ∈ pre, 2 ^ 64 / sw * sw ≤ p) ∧
      z < 2 ^ 64 / sw * sw ∧ c = z % sw ∧ u = pre.length + 1 := by
  unfold getNextCoin at h
  cases ht : threshold sw with
  | none => simp [ht] at h
  | some t =>
    simp only [ht] at h
    have hsw : 1 ≤ sw := by
      rcases Nat.eq_zero_or_pos sw with h0 | h0
      · rw [(threshold_none_iff sw).2 h0] at ht; cases ht
      · exact h0
    have := coin_uniform_threshold sw hsw
    rw [ht] at this; cases this
    obtain ⟨pre, z, h1, h2, h3, h4, h5⟩ := nextCoinLoop_spec sw _ draws 0 c u rest h
    exact ⟨hsw, pre, z, h1, h2, h3, h4, by omega⟩

/-- **Every revealed coin lies below the signed weight.** -/
theorem coin_in_range (sw : Nat) (draws : List Nat) (c u : Nat) (rest : List Nat) (hsw : sw > 0)
    (h : getNextCoin sw draws = some (c, u, rest)) : c < sw := by
  obtain ⟨_, _, z, _, _, _, hc, _⟩ := getNextCoin_spec sw draws c u rest h
  rw [hc]; exact Nat.mod_lt z hsw

/-- all coins of a run are in range -/
theorem coins_in_range (sw n : Nat) (draws : List Nat) (cs : List Nat) (hsw : sw > 0)
    (h : coins sw n draws = some cs) : cs.length = n ∧ ∀ c ∈ cs, c < sw := by
  induction n generalizing draws cs with
  | zero => simp [coins] at h; subst h; simp
  | succ k ih =>
    unfold coins at h
    cases hg : getNextCoin sw draws with
    | none => simp [hg] at h
    | some r =>
      obtain ⟨c, u, rest⟩ := r
      simp only [hg] at h
      cases hc : coins sw k rest with
      | none => simp [hc] at h
      | some cs' =>
        simp only [hc, Option.some.injEq] at h
        subst h
        obtain ⟨hl, hr⟩ := ih rest cs' hc
        refine ⟨by simp [hl], ?_⟩
        intro c' hc'
        rcases List.mem_cons.1 hc' with rfl | hc'
        · exact coin_in_range sw draws _ u rest hsw hg
        · exact hr c' hc'

example : getNextCoin 9223372036854775809 [18446744073709551615, 9223372036854775809, 9223372036854775808, 7] =
    some (9223372036854775808, 3, [7]) := by decide

/-- **Uniformity of accepted draws**: `z ↦ (z / sw, z % sw)` is a bijection between the accepted draws
    `[0, ⌊2^64/sw⌋·sw)` and `[0, ⌊2^64/sw⌋) × [0, sw)`: every coin value c < sw has exactly ⌊2^64/sw⌋ accepted
    preimages, namely j·sw + c for j < ⌊2^64/sw⌋. -/
theorem accepted_draws_bijection (sw : Nat) (hsw : 1 ≤ sw) :
    (∀ z, z < 2 ^ 64 / sw * sw → z / sw < 2 ^ 64 / sw ∧ z % sw < sw ∧ z = z / sw * sw + z % sw) ∧
    (∀ j c, j < 2 ^ 64 / sw → c < sw →
        j * sw + c < 2 ^ 64 / sw * sw ∧ (j * sw + c) / sw = j ∧ (j * sw + c) % sw = c) := by
  generalize (2:Nat) ^ 64 / sw = k
  constructor
  · intro z hz
    refine ⟨?_, Nat.mod_lt z hsw, ?_⟩
    · exact (Nat.div_lt_iff_lt_mul hsw).2 hz
    · have := Nat.div_add_mod z sw
      rw [Nat.mul_comm] at this; exact this.symm
  · intro j c hj hc
    refine ⟨?_, ?_, ?_⟩
    · calc j * sw + c < j * sw + sw := by omega
        _ = (j + 1) * sw := by ring
        _ ≤ k * sw := Nat.mul_le_mul_right sw hj
    · rw [Nat.mul_comm, Nat.mul_add_div hsw, Nat.div_eq_of_lt hc]; rfl
    · rw [Nat.mul_comm, Nat.mul_add_mod, Nat.mod_eq_of_lt hc]

/-- below m, exactly the index c itself has residue c -/
theorem countP_small (m c n : Nat) (hn : n ≤ m) :
    (List.range n).countP (fun i => decide (i % m = c)) = if c < n then 1 else 0 := by
  induction n with
  | zero => simp
  | succ n ihn =>
    have hnm : n % m = n := Nat.mod_eq_of_lt (by omega)
    rw [List.range_succ, List.countP_append, ihn (by omega), List.countP_singleton, hnm]
    by_cases h1 : c < n
    · have h2 : ¬ n = c := by omega
      simp only [h1, h2, if_true, decide_false, Bool.false_eq_true, if_false]
      rw [if_pos (by omega)]
    · by_cases h2 : n = c
      · subst h2; simp
      · have h3 : ¬ c < n + 1 := by omega
        simp only [h1, h2, h3, if_false, decide_false, Bool.false_eq_true]

/-- counting form: among the accepted draws exactly ⌊2^64/sw⌋ map to each coin value -/
theorem countP_mod_range (m k c : Nat) (hc : c < m) :
    (List.range (k * m)).countP (fun z => decide (z % m = c)) = k := by
  induction k with
  | zero => simp
  | succ k ih =>
    have hsplit : (k + 1) * m = k * m + m := by ring
    rw [hsplit, List.range_add, List.countP_append, ih, List.countP_map]
    have hone : (List.range m).countP ((fun z => decide (z % m = c)) ∘ fun x => k * m + x) =
        (List.range m).countP (fun i => decide (i % m = c)) := by
      apply List.countP_congr
      intro i _
      simp only [Function.comp, decide_eq_true_eq]
      rw [Nat.mul_comm, Nat.mul_add_mod]
    rw [hone, countP_small m c m (Nat.le_refl m), if_pos hc]

theorem coin_uniform (sw t c : Nat) (ht : threshold sw = some t) (hc : c < sw) :
    (List.range t).countP (fun z => z % sw = c) = 2 ^ 64 / sw := by
  obtain ⟨_, _, _, heq, _⟩ := threshold_props sw t ht
  rw [heq]; exact countP_mod_range sw (2 ^ 64 / sw) c hc

example : threshold 3 = some 18446744073709551615 := by decide
example : threshold 9223372036854775809 = some 9223372036854775809 := by decide

end Props.C38
