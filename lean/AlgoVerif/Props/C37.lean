/-
C37 — Merkle array proofs are complete and sound.

All theorems are about `Model.MerkleArray` (lean/AlgoVerif/Model/MerkleArray.lean), the model of
crypto/merklearray AS CODED, with the hash function a parameter and two source facts as parameters
(`Cfg.fixedOff`, `Cfg.checkDepth`) whose values for the current tree are observed on the real code by
the harness on every run; the driver runs the model variant so selected against the real functions
(digests byte-identical).

  * `prove_verify`            completeness, plain tree: FULL (all arrays ≤ 2^63, all position lists,
                              both encodings, with/without depth check).
  * `verify_sound`            soundness + depth rule, plain tree, fixed-offset encoding: FULL under the
                              stated hypotheses (hash as parameter; single pre-image for the digests of
                              the honest tree; digest size; no all-zero digest; hash-id separation).
  * `verify_unsound_witness`  the code with `copy(buf[len(p.l):], p.r)` is NOT sound: for every
                              3-element array position 3 verifies (defect F1).
  * `vc_depth_unsound_witness`, `depth_unchecked_witness`
                              without the depth check `Proof.TreeDepth` re-maps vector-commitment
                              positions / is ignored (defect F1b).
  * `empty_root_rejects`, `invalid_hash_rejected`, `invalid_hash_unsound_witness`
                              the proof's HashFactory: a valid type never accepts against the empty
                              root; with the validity check an invalid factory is rejected; without it
                              any element verifies against the empty array's root (defect F1c).
  * `verifyVC_sound`          soundness + depth rule, vector commitment (fixed offset + depth check): FULL
                              under the same hypotheses; positions in the padding open only the bottom leaf.
  * `prove_verify_vc`         completeness, vector commitment: full for arrays/position lists; PARTIAL in
                              that the Go map of elements is represented by its bit-reversed-order listing.
  Not proved: invariance of Verify under the enumeration order of the Go element map (tie only);
  sumhash; msgpack proof encodings (SingleLeafProof fixed-length forms).
-/
import AlgoVerif.Lemmas.MerkleArraySound
import AlgoVerif.Lemmas.MerkleArrayVC
namespace Props.C37
open Model.MerkleArray Lemmas.MerkleArray

/-- `Build` on a non-empty array returns the honest chain of layers over the leaf hashes. -/
theorem build_ok (c : Cfg) (hlen : ∀ x, (c.H x).length = c.d) (arr : List Bytes) (hne : arr ≠ []) :
    ∃ rest, build c arr = .ok ⟨arr.map c.H :: rest, arr.length, false⟩ ∧
      Chain c (arr.map c.H :: rest) ∧ AllSized c (arr.map c.H :: rest) := by
  have hs : Sized c (arr.map c.H) := by
    intro h hh; simp only [List.mem_map] at hh; obtain ⟨x, _, rfl⟩ := hh; exact hlen x
  obtain ⟨rest, hb, hc, hsz⟩ := buildFrom_chain c hlen arr.length (arr.map c.H) (by simpa using hne) (by simp) hs
  exact ⟨rest, by simp [build, hne, hb], hc, hsz⟩

theorem root_of_last (lv : List (List Bytes)) (n : Nat) (vc : Bool) (r : Bytes)
    (h : lv[lv.length - 1]? = some [r]) : (Tree.root ⟨lv, n, vc⟩) = some r := by
  simp only [Tree.root, List.getLast?_eq_getElem?, h]

/-- **Completeness (plain tree).**  For every array (≤ 2^63 leaves), every non-empty list of in-range
positions (any order, duplicates allowed), `Prove` succeeds and `Verify` accepts the proof against the
root for exactly those positions with the array's elements — for both encodings of
`pair.ToBeHashed` and with or without the depth check. -/
theorem prove_verify (c : Cfg) (hlen : ∀ x, (c.H x).length = c.d) (hvld : c.hashValid = true)
    (arr : List Bytes) (hsize : arr.length ≤ 2 ^ 63)
    (idxs : List Nat) (hidx : idxs ≠ []) (hin : ∀ i ∈ idxs, i < arr.length)
    (elems : List (Nat × Bytes))
    (hpos : elems.map Prod.fst = dedupAdj (sortNat idxs))
    (hel : ∀ ie ∈ elems, arr[ie.1]? = some ie.2) :
    ∃ t root pf, build c arr = .ok t ∧ t.root = some root ∧ prove t idxs = .ok pf ∧
      pf.depth = t.levels.length - 1 ∧ verify c root elems pf = .ok := by
  have hne : arr ≠ [] := by
    intro e; subst e
    cases idxs with
    | nil => exact hidx rfl
    | cons i t => have := hin i (by simp); simp at this
  obtain ⟨rest, hb, hc, hsz⟩ := build_ok c hlen arr hne
  -- canonical positions
  have hinc := canon_inc idxs
  have hps_ne : dedupAdj (sortNat idxs) ≠ [] := by
    cases idxs with
    | nil => exact absurd rfl hidx
    | cons i t =>
      intro e
      have : i ∈ dedupAdj (sortNat (i :: t)) := (canon_mem _ i).2 (by simp)
      rw [e] at this; simp at this
  have hps_b : ∀ p ∈ dedupAdj (sortNat idxs), p < (arr.map c.H).length := by
    intro p hp; rw [canon_mem] at hp; simpa using hin p hp
  -- depth < 64
  have hD : rest.length < 64 := by
    by_cases hr : rest = []
    · simp [hr]
    · have hgt := chain_size_gt c _ _ rest rfl hc hr
      simp only [List.length_map] at hgt
      by_cases h64 : rest.length < 64
      · exact h64
      · exfalso
        have : 2 ^ 63 ≤ 2 ^ (rest.length - 1) := Nat.pow_le_pow_right (by omega) (by omega)
        omega
  have hle := chain_size_le c _ _ rest rfl hc
  simp only [List.length_map] at hle
  -- the run
  obtain ⟨r, hr, hfin, hloop⟩ := verifyLoop_honest c hlen (arr.map c.H :: rest) (arr.map c.H) rest
    (dedupAdj (sortNat idxs))
    ((proveLevels (arr.map c.H :: rest) (dedupAdj (sortNat idxs))).2.length + elems.length) 0
    rfl hc hsz hps_ne hinc hps_b (by
      have := proveLevels_fuel (arr.map c.H :: rest) (dedupAdj (sortNat idxs)) (by simp) hps_ne
      have hl : elems.length = (dedupAdj (sortNat idxs)).length := by rw [← hpos]; simp
      omega)
  have hany : idxs.any (fun i => arr.length ≤ i) = false := by
    rw [List.any_eq_false]; intro i hi; simpa using hin i hi
  have hprove : prove ⟨arr.map c.H :: rest, arr.length, false⟩ idxs
      = .ok ⟨(proveLevels (arr.map c.H :: rest) (dedupAdj (sortNat idxs))).2, rest.length⟩ := by
    have hn0 : arr.length ≠ 0 := by intro h0; exact hne (List.length_eq_zero_iff.mp h0)
    simp [prove, hidx, hn0, hany, hfin]
  refine ⟨_, r, _, hb, root_of_last _ _ _ r hr, hprove, by simp, ?_⟩
  -- Verify
  have hel_ne : elems ≠ [] := by
    intro e; rw [e] at hpos; simp at hpos; exact hps_ne hpos
  have hbound : elems.any (fun ie => posBound rest.length ≤ ie.1) = false := by
    rw [List.any_eq_false]
    intro ie hie
    have hmem : ie.1 ∈ dedupAdj (sortNat idxs) := by rw [← hpos]; exact List.mem_map_of_mem hie
    have := hps_b ie.1 hmem
    simp only [List.length_map] at this
    simp only [posBound, hD, if_true, decide_eq_true_eq]
    omega
  have hitems : sortItems (elems.map fun ie => (⟨ie.1, c.H ie.2⟩ : Item))
      = itemsOf (arr.map c.H) (dedupAdj (sortNat idxs)) := by
    have e1 : (elems.map fun ie => (⟨ie.1, c.H ie.2⟩ : Item)) = itemsOf (arr.map c.H) (dedupAdj (sortNat idxs)) := by
      rw [← hpos, itemsOf, List.map_map]
      apply List.map_congr_left
      intro ie hie
      have := hel ie hie
      have h2 : (arr.map c.H)[ie.1]? = some (c.H ie.2) := by simp [this]
      simp [sibOf_of_get _ _ _ h2]
    rw [e1]
    apply sortItems_sorted
    simp only [itemsOf, List.pairwise_map]
    exact hinc
  have hbr : ¬ (c.checkHash = true ∧ c.hashValid = false) := by simp [hvld]
  simp only [verify, hbr, hel_ne, if_false, hbound, hitems]
  simp only [Bool.false_eq_true, if_false]
  rw [hloop]
  simp [inspectRoot]


/-- what `Verify … = ok` means operationally -/
theorem verify_ok_inv (c : Cfg) (root : Bytes) (elems : List (Nat × Bytes)) (pf : Proof) (hne : elems ≠ [])
    (hv : verify c root elems pf = .ok) :
    ∃ l' plf, verifyLoop c (pf.path.length + elems.length) 0
        (sortItems (elems.map fun ie => (⟨ie.1, c.H ie.2⟩ : Item))) pf.path = .ok (l', plf) ∧
      (∃ it rest, plf = it :: rest ∧ it.pos = 0 ∧ it.hash = root) ∧
      (c.checkDepth = true → l' = pf.depth) := by
  simp only [verify] at hv
  split at hv
  · simp at hv
  split at hv
  · simp at hv
  · split at hv
    · rename_i e he
      exact absurd hv (verifyLoop_err_ne_ok c _ _ _ _ e he)
    · rename_i r hr
      split at hv
      · rename_i hir
        refine ⟨r.1, r.2, by rw [hr], ?_, ?_⟩
        · cases hpl : r.2 with
          | nil => rw [hpl] at hir; simp [inspectRoot] at hir
          | cons it rest =>
            rw [hpl] at hir
            simp only [inspectRoot] at hir
            split at hir
            · rename_i hcond; exact ⟨it, rest, rfl, hcond.1, hcond.2⟩
            · simp at hir
        · intro hcd
          split at hv
          · rename_i hcond; simp at hv
          · rename_i hcond
            simp only [hcd, true_and, Classical.not_not] at hcond
            exact hcond
      · rename_i hne'
        exact absurd hv hne'

/-- **Soundness (plain tree, fixed-offset encoding).**  If `Verify` accepts `elems` against the root of
the tree built over `arr`, then every presented `(position, element)` is in range and IS the array's
element at that position, and the proof walked exactly the tree's depth (which `Proof.TreeDepth` must
equal when the depth check is present).  Hypotheses: digest size / non-zero digests, single pre-image
for every digest of the honest tree, and hash-id domain separation of leaf pre-images. -/
theorem verify_sound (c : Cfg) (hf : c.fixedOff = true)
    (hlen : ∀ x, (c.H x).length = c.d) (hnz : ∀ x, c.H x ≠ zeros c.d)
    (arr : List Bytes) (t : Tree) (root : Bytes)
    (hb : build c arr = .ok t) (hr : t.root = some root)
    (hup : ∀ L ∈ t.levels, UniquePre c L)
    (hsepA : ∀ e ∈ arr, ¬ nodeTag <+: e)
    (elems : List (Nat × Bytes)) (hsepE : ∀ ie ∈ elems, ¬ nodeTag <+: ie.2) (hne : elems ≠ [])
    (pf : Proof) (hv : verify c root elems pf = .ok) :
    (∀ ie ∈ elems, arr[ie.1]? = some ie.2) ∧
      (c.checkDepth = true → pf.depth = t.levels.length - 1) := by
  obtain ⟨l', plf, hloop, hfin, hdepth⟩ := verify_ok_inv c root elems pf hne hv
  have hpl_hash : ∀ it ∈ sortItems (elems.map fun ie => (⟨ie.1, c.H ie.2⟩ : Item)), IsHash c it := by
    intro it hit
    rw [sortItems_mem] at hit
    simp only [List.mem_map] at hit
    obtain ⟨ie, _, rfl⟩ := hit
    exact ⟨ie.2, rfl⟩
  have hpl_ne : sortItems (elems.map fun ie => (⟨ie.1, c.H ie.2⟩ : Item)) ≠ [] := by
    cases elems with
    | nil => exact absurd rfl hne
    | cons ie rest =>
      intro e
      have : (⟨ie.1, c.H ie.2⟩ : Item) ∈ sortItems (((ie :: rest)).map fun ie => (⟨ie.1, c.H ie.2⟩ : Item)) := by
        rw [sortItems_mem]; simp
      rw [e] at this; simp at this
  have hd : 0 < c.d := by
    cases hd0 : c.d with
    | zero =>
      exfalso
      have h1 := hlen []
      rw [hd0] at h1
      have h2 := hnz []
      rw [hd0] at h2
      exact h2 (by simpa [zeros] using h1)
    | succ k => omega
  by_cases harr : arr = []
  · -- empty array: the root is the empty digest, no hash equals it
    exfalso
    subst harr
    simp only [build, if_true, Except.ok.injEq] at hb
    subst hb
    simp only [Tree.root, List.getLast?_nil, Option.some.injEq] at hr
    subst hr
    obtain ⟨it, rest, rfl, _, hh⟩ := hfin
    obtain ⟨x, hx⟩ := verifyLoop_isHash c _ _ _ _ _ _ hloop hpl_hash it (by simp)
    have := hlen x
    rw [← hx, hh] at this
    simp at this
    omega
  · obtain ⟨rest, hb', hc, hsz⟩ := build_ok c hlen arr harr
    rw [hb'] at hb
    simp only [Except.ok.injEq] at hb
    subst hb
    obtain ⟨r, hlast⟩ := chain_last c _ hc
    have hroot : root = r := by
      have : Tree.root ⟨arr.map c.H :: rest, arr.length, false⟩ = some r := by
        simp only [Tree.root, List.getLast?_eq_getElem?, hlast]
      rw [this] at hr; simp at hr; exact hr.symm
    subst hroot
    have hup0 : UniquePre c (arr.map c.H) := hup _ (by simp)
    have hleaf : ∀ L, (arr.map c.H :: rest)[0]? = some L → ∀ h ∈ L, ∀ b, h ≠ c.H (nodeTag ++ b) := by
      intro L hL h hh b hb
      simp only [List.getElem?_cons_zero, Option.some.injEq] at hL
      subst hL
      have hmem := hh
      simp only [List.mem_map] at hh
      obtain ⟨e, he, rfl⟩ := hh
      have := hup0 _ hmem e (nodeTag ++ b) rfl hb.symm
      exact hsepA e he (by rw [this]; exact List.prefix_append _ _)
    obtain ⟨j, L, hL, harith, _, hgood⟩ := verifyLoop_back c hf hlen hnz _ hc hsz hup hleaf root hlast
      _ 0 _ pf.path l' plf hloop hfin hpl_ne hpl_hash
    -- the walk started at the leaf level
    have hj : j = 0 := by
      cases j with
      | zero => rfl
      | succ j0 =>
        exfalso
        have hjlt : j0 < (arr.map c.H :: rest).length := by
          have := (List.getElem?_eq_some_iff.mp hL).1; omega
        have hL0 : (arr.map c.H :: rest)[j0]? = some (arr.map c.H :: rest)[j0] := List.getElem?_eq_getElem hjlt
        have hstep := chain_step c _ j0 _ L hc hL0 hL
        cases elems with
        | nil => exact hne rfl
        | cons ie erest =>
          have hmem : (⟨ie.1, c.H ie.2⟩ : Item) ∈ sortItems (((ie :: erest)).map fun ie => (⟨ie.1, c.H ie.2⟩ : Item)) := by
            rw [sortItems_mem]; simp
          have hg := hgood _ hmem
          simp only [Good] at hg
          rw [hstep.1, upPure_get] at hg
          cases ha : ((arr.map c.H :: rest)[j0])[2 * ie.1]? with
          | none => rw [ha] at hg; simp at hg
          | some a =>
            rw [ha] at hg
            simp only [Option.map_some, Option.some.injEq] at hg
            have hmemL : c.H ie.2 ∈ L := by
              have := hgood _ hmem
              exact List.mem_of_getElem? this
            have := hup L (List.mem_of_getElem? hL) _ hmemL ie.2 _ rfl hg
            exact hsepE ie (by simp) (by rw [this]; exact List.prefix_append _ _)
    subst hj
    simp only [List.getElem?_cons_zero, Option.some.injEq] at hL
    subst hL
    refine ⟨?_, ?_⟩
    · intro ie hie
      have hmem : (⟨ie.1, c.H ie.2⟩ : Item) ∈ sortItems (elems.map fun ie => (⟨ie.1, c.H ie.2⟩ : Item)) := by
        rw [sortItems_mem]; exact List.mem_map_of_mem hie
      have hg := hgood _ hmem
      simp only [Good, List.getElem?_map] at hg
      cases he : arr[ie.1]? with
      | none => rw [he] at hg; simp at hg
      | some e' =>
        rw [he] at hg
        simp only [Option.map_some, Option.some.injEq] at hg
        have hmemL : c.H ie.2 ∈ arr.map c.H := by
          rw [← hg]; exact List.mem_map_of_mem (List.mem_of_getElem? he)
        rw [hup0 _ hmemL e' ie.2 hg rfl]
    · intro hcd
      have := hdepth hcd
      simp only [List.length_cons] at harith ⊢
      omega


theorem nodeHash_lenl_nil_left (c : Cfg) (hf : c.fixedOff = false) (h : Bytes) (hh : h.length = c.d) :
    nodeHash c [] h = some (node c h []) := by
  simp [nodeHash, pairBytes_lenl_nil_left c h hf hh, node, fit_nil]

/-- **The defect of the pinned tree (F1), as a theorem about the model of the code as written.**
With `copy(buf[len(p.l):], p.r)`, for EVERY 3-element array the honest proof for position 2 also
verifies the same element at position 3, which is out of range (any hash, any digest size). -/
theorem verify_unsound_witness (c : Cfg) (hf : c.fixedOff = false) (hlen : ∀ x, (c.H x).length = c.d)
    (hvld : c.hashValid = true) (a b e : Bytes) :
    ∃ t root pf, build c [a, b, e] = .ok t ∧ t.root = some root ∧ prove t [2] = .ok pf ∧
      verify c root [(2, e)] pf = .ok ∧ verify c root [(3, e)] pf = .ok := by
  have hs0 : Sized c [c.H a, c.H b, c.H e] := by intro h hh; simp at hh; rcases hh with rfl | rfl | rfl <;> exact hlen _
  have hs1 : Sized c [node c (c.H a) (c.H b), node c (c.H e) []] := by
    intro h hh; simp at hh; rcases hh with rfl | rfl <;> simp [node, hlen]
  have hbuild : build c [a, b, e] = .ok ⟨[[c.H a, c.H b, c.H e], upPure c [c.H a, c.H b, c.H e],
      upPure c (upPure c [c.H a, c.H b, c.H e])], 3, false⟩ := by
    simp [build, buildFrom, upLayer_eq c _ hs0, upLayer_eq c _ hs1, upPure]
  refine ⟨_, node c (node c (c.H a) (c.H b)) (node c (c.H e) []), ⟨[[], node c (c.H a) (c.H b)], 2⟩, hbuild, ?_, ?_, ?_, ?_⟩
  · simp [Tree.root, upPure]
  · simp [prove, proveLevels, upP, sortNat, insertNat, dedupAdj, sibOf, upPure]
  · have h1 : nodeHash c (c.H e) [] = some (node c (c.H e) []) := nodeHash_left c _ _ (hlen e)
    have h2 : nodeHash c (node c (c.H a) (c.H b)) (node c (c.H e) []) = some (node c (node c (c.H a) (c.H b)) (node c (c.H e) [])) :=
      nodeHash_left c _ _ (by simp [node, hlen])
    simp [verify, hvld, posBound, sortItems, insertItem, verifyLoop, upV, nodeFor, h1, h2, inspectRoot]
  · have h1 : nodeHash c [] (c.H e) = some (node c (c.H e) []) := nodeHash_lenl_nil_left c hf _ (hlen e)
    have h2 : nodeHash c (node c (c.H a) (c.H b)) (node c (c.H e) []) = some (node c (node c (c.H a) (c.H b)) (node c (c.H e) [])) :=
      nodeHash_left c _ _ (by simp [node, hlen])
    simp [verify, hvld, posBound, sortItems, insertItem, verifyLoop, upV, nodeFor, h1, h2, inspectRoot]


theorem vcLeaves_two (a b : Bytes) : vcLeaves [a, b] = [a, b] := by
  have : Nat.log2 1 = 0 := by decide
  simp [vcLeaves, bitLen, this, List.range_succ, bitrev]

/-- **The second defect of the pinned tree (F1b).**  Without the depth check, `Proof.TreeDepth` is
attacker-chosen and selects the vector-commitment index map: for EVERY 2-element vector commitment the
honest proof for position 1, re-labelled `TreeDepth = 2`, verifies element `b` at position 2
(out of range). -/
theorem vc_depth_unsound_witness (c : Cfg) (hcd : c.checkDepth = false) (hlen : ∀ x, (c.H x).length = c.d)
    (hvld : c.hashValid = true) (a b : Bytes) :
    ∃ t root pf, buildVC c [a, b] = .ok t ∧ t.root = some root ∧ prove t [1] = .ok pf ∧ pf.depth = 1 ∧
      verifyVC c root [(1, b)] pf = .ok ∧ verifyVC c root [(2, b)] ⟨pf.path, 2⟩ = .ok := by
  have hs0 : Sized c [c.H a, c.H b] := by intro h hh; simp at hh; rcases hh with rfl | rfl <;> exact hlen _
  have hbuild : buildVC c [a, b] = .ok ⟨[[c.H a, c.H b], [node c (c.H a) (c.H b)]], 2, true⟩ := by
    simp [buildVC, vcLeaves_two, build, buildFrom, upLayer_eq c _ hs0, upPure]
  have h2 : nodeHash c (c.H a) (c.H b) = some (node c (c.H a) (c.H b)) := nodeHash_left c _ _ (hlen a)
  refine ⟨_, node c (c.H a) (c.H b), ⟨[c.H a], 1⟩, hbuild, ?_, ?_, rfl, ?_, ?_⟩
  · simp [Tree.root]
  · simp [prove, mapIdx, vcIndex, posBound, bitrev, proveLevels, upP, sortNat, insertNat, dedupAdj, sibOf]
  · simp [verifyVC, mapElems, vcIndex, posBound, bitrev, verify, hvld, sortItems, insertItem, verifyLoop, upV, nodeFor, h2, inspectRoot, hcd]
  · simp [verifyVC, mapElems, vcIndex, posBound, bitrev, verify, hvld, sortItems, insertItem, verifyLoop, upV, nodeFor, h2, inspectRoot, hcd]

/-- the same in plain mode: the field is simply not compared with the walk -/
theorem depth_unchecked_witness (c : Cfg) (hcd : c.checkDepth = false) (hlen : ∀ x, (c.H x).length = c.d)
    (hvld : c.hashValid = true) (a b : Bytes) (td : Nat) (h64 : td < 64) :
    ∃ t root pf, build c [a, b] = .ok t ∧ t.root = some root ∧ prove t [0] = .ok pf ∧ pf.depth = 1 ∧
      verify c root [(0, a)] ⟨pf.path, td⟩ = .ok := by
  have hs0 : Sized c [c.H a, c.H b] := by intro h hh; simp at hh; rcases hh with rfl | rfl <;> exact hlen _
  have hbuild : build c [a, b] = .ok ⟨[[c.H a, c.H b], [node c (c.H a) (c.H b)]], 2, false⟩ := by
    simp [build, buildFrom, upLayer_eq c _ hs0, upPure]
  have h2 : nodeHash c (c.H a) (c.H b) = some (node c (c.H a) (c.H b)) := nodeHash_left c _ _ (hlen a)
  have hpos : 0 < 2 ^ td := Nat.pow_pos (by omega)
  refine ⟨_, node c (c.H a) (c.H b), ⟨[c.H b], 1⟩, hbuild, ?_, ?_, rfl, ?_⟩
  · simp [Tree.root]
  · simp [prove, proveLevels, upP, sortNat, insertNat, dedupAdj, sibOf]
  · have : ¬ (2 ^ td ≤ 0) := by omega
    simp [verify, hvld, posBound, h64, this, sortItems, insertItem, verifyLoop, upV, nodeFor, h2, inspectRoot, hcd]


/-! ### non-vacuity: concrete instances meeting the hypotheses -/

/-- a fixed-length toy hash (1 byte): meets `hlen` of `prove_verify` -/
def sumHash (x : Bytes) : Bytes := [x.foldl (· + ·) 1]
def cSum (fixed depth : Bool) : Cfg := ⟨sumHash, 1, fixed, depth, true, true⟩

example : ∀ x, ((cSum false false).H x).length = (cSum false false).d := fun _ => rfl
/-- hypotheses of `prove_verify` on a concrete 5-element array with an unsorted list with duplicates -/
example :
    let arr : List Bytes := [[84, 1], [84, 2], [84, 3], [84, 4], [84, 5]]
    let idxs := [4, 0, 4, 1]
    let elems : List (Nat × Bytes) := [(0, [84, 1]), (1, [84, 2]), (4, [84, 5])]
    arr.length ≤ 2 ^ 63 ∧ idxs ≠ [] ∧ (∀ i ∈ idxs, i < arr.length) ∧
      elems.map Prod.fst = dedupAdj (sortNat idxs) ∧ (∀ ie ∈ elems, arr[ie.1]? = some ie.2) := by
  decide

/-- a hash with a single pre-image for every digest of the honest tree over `[a,b,e]`
(digest size 1, never the zero digest): the table lists the six hashed pre-images of that tree. -/
def tableHash (x : Bytes) : Bytes :=
  if x = [84, 1] then [1] else if x = [84, 2] then [2] else if x = [84, 3] then [3]
  else if x = [77, 65, 1, 2] then [4] else if x = [77, 65, 3, 0] then [5]
  else if x = [77, 65, 4, 5] then [6] else [7]
def cTab (depth : Bool) : Cfg := ⟨tableHash, 1, true, depth, true, true⟩

theorem tableHash_len (x : Bytes) : (tableHash x).length = 1 := by
  unfold tableHash; (repeat' split) <;> rfl

theorem tableHash_nz (x : Bytes) : tableHash x ≠ zeros 1 := by
  unfold tableHash; (repeat' split) <;> decide

theorem tableHash_inv (x : Bytes) (k : UInt8) (h : tableHash x = [k]) :
    (k = 1 ∧ x = [84, 1]) ∨ (k = 2 ∧ x = [84, 2]) ∨ (k = 3 ∧ x = [84, 3]) ∨ (k = 4 ∧ x = [77, 65, 1, 2]) ∨
      (k = 5 ∧ x = [77, 65, 3, 0]) ∨ (k = 6 ∧ x = [77, 65, 4, 5]) ∨ k = 7 := by
  unfold tableHash at h
  (repeat' split at h) <;> simp_all

theorem tableHash_unique (k : UInt8) (hk : k ≠ 7) (x y : Bytes) (hx : tableHash x = [k]) (hy : tableHash y = [k]) :
    x = y := by
  rcases tableHash_inv x k hx with h | h | h | h | h | h | h <;>
    rcases tableHash_inv y k hy with g | g | g | g | g | g | g <;> simp_all

/-- all hypotheses of `verify_sound` hold for the table hash, the array `[a,b,e]`, and the honest proof
of position 2; so does its conclusion. -/
example :
    let c := cTab true
    let arr : List Bytes := [[84, 1], [84, 2], [84, 3]]
    let t : Tree := ⟨[[[1], [2], [3]], [[4], [5]], [[6]]], 3, false⟩
    let elems : List (Nat × Bytes) := [(2, [84, 3])]
    let pf : Proof := ⟨[[], [4]], 2⟩
    c.fixedOff = true ∧ (∀ x, (c.H x).length = c.d) ∧ (∀ x, c.H x ≠ zeros c.d) ∧
      build c arr = .ok t ∧ t.root = some [6] ∧ (∀ L ∈ t.levels, UniquePre c L) ∧
      (∀ e ∈ arr, ¬ nodeTag <+: e) ∧ (∀ ie ∈ elems, ¬ nodeTag <+: ie.2) ∧ elems ≠ [] ∧
      prove t [2] = .ok pf ∧ verify c [6] elems pf = .ok := by
  refine ⟨rfl, tableHash_len, tableHash_nz, by rfl, by decide, ?_, by decide, by decide, by decide, by rfl, by decide⟩
  intro L hL h hh x y hx hy
  simp only [List.mem_cons, List.not_mem_nil, or_false] at hL
  rcases hL with rfl | rfl | rfl <;> simp only [List.mem_cons, List.not_mem_nil, or_false] at hh
  · rcases hh with rfl | rfl | rfl <;> exact tableHash_unique _ (by decide) x y hx hy
  · rcases hh with rfl | rfl <;> exact tableHash_unique _ (by decide) x y hx hy
  · subst hh; exact tableHash_unique _ (by decide) x y hx hy

/-- and the forged position is rejected by the repaired encoding on that instance, accepted by the pinned one -/
example : verify (cTab true) [6] [(3, [84, 3])] ⟨[[], [4]], 2⟩ = .rootMismatch := by decide
example : verify ⟨tableHash, 1, false, false, true, true⟩ [6] [(3, [84, 3])] ⟨[[], [4]], 2⟩ = .ok := by decide

/-- hypotheses of the witnesses are met by any fixed-length hash -/
example : (cSum false true).fixedOff = false ∧ ∀ x, ((cSum false true).H x).length = (cSum false true).d := ⟨rfl, fun _ => rfl⟩
example : (cSum true false).checkDepth = false ∧ ∀ x, ((cSum true false).H x).length = (cSum true false).d := ⟨rfl, fun _ => rfl⟩


/-! ### vector commitment -/

/-- **Soundness (vector commitment, fixed-offset encoding + depth check).**  If
`VerifyVectorCommitment` accepts, then `Proof.TreeDepth` IS the depth of the committed tree and every
presented `(position, element)` is the array's element at that position — or, for a position beyond
the array (inside the power-of-two padding), the domain-separated bottom leaf. -/
theorem verifyVC_sound (c : Cfg) (hf : c.fixedOff = true) (hcd : c.checkDepth = true)
    (hlen : ∀ x, (c.H x).length = c.d) (hnz : ∀ x, c.H x ≠ zeros c.d)
    (arr : List Bytes) (t : Tree) (root : Bytes)
    (hb : buildVC c arr = .ok t) (hr : t.root = some root)
    (hup : ∀ L ∈ t.levels, UniquePre c L)
    (hsepA : ∀ e ∈ arr, ¬ nodeTag <+: e)
    (elems : List (Nat × Bytes)) (hsepE : ∀ ie ∈ elems, ¬ nodeTag <+: ie.2) (hne : elems ≠ [])
    (pf : Proof) (hv : verifyVC c root elems pf = .ok) :
    pf.depth = t.levels.length - 1 ∧
      ∀ ie ∈ elems, arr[ie.1]? = some ie.2 ∨ (arr.length ≤ ie.1 ∧ ie.2 = bottomPre) := by
  -- unfold BuildVectorCommitmentTree
  simp only [buildVC] at hb
  split at hb
  · simp at hb
  · rename_i t0 hb0
    simp only [Except.ok.injEq] at hb
    subst hb
    have hr0 : t0.root = some root := by simpa [Tree.root] using hr
    -- unfold VerifyVectorCommitment
    simp only [verifyVC] at hv
    split at hv
    · simp at hv
    · rename_i el' hmap
      have hm := mapElems_some _ _ _ hmap
      have hms := mapElems_snd _ _ _ hmap
      have hne' : el' ≠ [] := by
        intro e; rw [e] at hm
        have := hm.1; simp at this
        exact hne (List.length_eq_zero_iff.mp this.symm)
      have hvl_ne : vcLeaves arr ≠ [] := by
        intro e
        have := vcLeaves_length arr
        rw [e] at this
        simp only [vcPadded, List.length_nil] at this
        split at this
        · omega
        · have := Nat.pow_pos (a := 2) (n := vcPath arr.length) (by omega); omega
      have hsepA' : ∀ e ∈ vcLeaves arr, ¬ nodeTag <+: e := by
        intro e he
        obtain ⟨m, hm1, hm2⟩ := List.getElem_of_mem he
        have hget : (vcLeaves arr)[m]? = some e := by rw [List.getElem?_eq_getElem hm1, hm2]
        rw [vcLeaves_get arr m (by rw [← vcLeaves_length]; exact hm1)] at hget
        simp only [Option.some.injEq] at hget
        split at hget
        · rename_i e' he'
          subst hget
          exact hsepA _ (List.mem_of_getElem? he')
        · subst hget; decide
      have hsepE' : ∀ x ∈ el', ¬ nodeTag <+: x.2 := by
        intro x hx
        obtain ⟨ie, hie, e⟩ := hms x hx
        rw [e]; exact hsepE ie hie
      have hsound := verify_sound c hf hlen hnz (vcLeaves arr) t0 root hb0 hr0 hup hsepA' el' hsepE' hne' pf hv
      obtain ⟨rest, hb', hc, _⟩ := build_ok c hlen (vcLeaves arr) hvl_ne
      rw [hb'] at hb0
      simp only [Except.ok.injEq] at hb0
      subst hb0
      have hdep := hsound.2 hcd
      simp only [List.length_cons, Nat.add_sub_cancel] at hdep ⊢
      refine ⟨hdep, ?_⟩
      intro ie hie
      obtain ⟨j, hj, hjmem⟩ := hm.2 ie hie
      simp only [vcIndex] at hj
      split at hj
      · simp at hj
      · rename_i hbound
        simp only [Option.some.injEq] at hj
        subst hj
        have hget := hsound.1 _ hjmem
        simp only at hget
        rw [hdep] at hget hbound
        have hlt : ie.1 < 2 ^ rest.length := by
          simp only [posBound] at hbound
          split at hbound <;> omega
        rw [vcLeaves_at c arr rest hc ie.1 hlt] at hget
        simp only [Option.some.injEq] at hget
        cases ha : arr[ie.1]? with
        | some e =>
          rw [ha] at hget
          left; rw [← hget]
        | none =>
          rw [ha] at hget
          right
          exact ⟨by simpa using ha, hget.symm⟩


/-- core of completeness: on an honest chain of layers, `Verify` accepts the hints `createProof`
collects for any strictly increasing in-range positions, presented with the leaves' pre-images. -/
theorem verify_honest_core (c : Cfg) (hlen : ∀ x, (c.H x).length = c.d) (hvld : c.hashValid = true)
    (L0 : List Bytes) (rest : List (List Bytes)) (hc : Chain c (L0 :: rest)) (hsz : AllSized c (L0 :: rest))
    (hD : rest.length < 64) (hsize : L0.length ≤ 2 ^ rest.length)
    (ps : List Nat) (hps_ne : ps ≠ []) (hinc : Inc ps) (hps_b : ∀ p ∈ ps, p < L0.length)
    (el : List (Nat × Bytes)) (hpos : el.map Prod.fst = ps)
    (hel : ∀ x ∈ el, L0[x.1]? = some (c.H x.2)) :
    ∃ r, (L0 :: rest)[rest.length]? = some [r] ∧ (proveLevels (L0 :: rest) ps).1 = [0] ∧
      verify c r el ⟨(proveLevels (L0 :: rest) ps).2, rest.length⟩ = .ok := by
  obtain ⟨r, hr, hfin, hloop⟩ := verifyLoop_honest c hlen (L0 :: rest) L0 rest ps
    ((proveLevels (L0 :: rest) ps).2.length + el.length) 0
    rfl hc hsz hps_ne hinc hps_b (by
      have := proveLevels_fuel (L0 :: rest) ps (by simp) hps_ne
      have hl : el.length = ps.length := by rw [← hpos]; simp
      omega)
  refine ⟨r, by simpa using hr, hfin, ?_⟩
  have hel_ne : el ≠ [] := by
    intro e; rw [e] at hpos; simp at hpos; exact hps_ne hpos
  have hbound : el.any (fun ie => posBound rest.length ≤ ie.1) = false := by
    rw [List.any_eq_false]
    intro ie hie
    have hmem : ie.1 ∈ ps := by rw [← hpos]; exact List.mem_map_of_mem hie
    have := hps_b ie.1 hmem
    simp only [posBound, hD, if_true, decide_eq_true_eq]
    omega
  have hitems : sortItems (el.map fun ie => (⟨ie.1, c.H ie.2⟩ : Item)) = itemsOf L0 ps := by
    have e1 : (el.map fun ie => (⟨ie.1, c.H ie.2⟩ : Item)) = itemsOf L0 ps := by
      rw [← hpos, itemsOf, List.map_map]
      apply List.map_congr_left
      intro ie hie
      simp [sibOf_of_get _ _ _ (hel ie hie)]
    rw [e1]
    apply sortItems_sorted
    simp only [itemsOf, List.pairwise_map]
    exact hinc
  have hbr : ¬ (c.checkHash = true ∧ c.hashValid = false) := by simp [hvld]
  simp only [verify, hbr, hel_ne, if_false, hbound, hitems]
  simp only [Bool.false_eq_true, if_false]
  rw [hloop]
  simp [inspectRoot]

theorem mapIdx_eq (f : Nat → Option Nat) (g : Nat → Nat) : ∀ (idxs : List Nat),
    (∀ i ∈ idxs, f i = some (g i)) → mapIdx f idxs = some (idxs.map g)
  | [], _ => rfl
  | i :: rest, h => by
    simp [mapIdx, h i (by simp), mapIdx_eq f g rest (fun j hj => h j (by simp [hj]))]

theorem mapElems_eq (f : Nat → Option Nat) (g : Nat → Nat) : ∀ (elems : List (Nat × Bytes)),
    (∀ ie ∈ elems, f ie.1 = some (g ie.1)) → mapElems f elems = some (elems.map fun ie => (g ie.1, ie.2))
  | [], _ => rfl
  | ie :: rest, h => by
    simp [mapElems, h ie (by simp), mapElems_eq f g rest (fun j hj => h j (by simp [hj]))]

/-- **Completeness (vector commitment).**  `BuildVectorCommitmentTree` succeeds, and for every
non-empty list of in-range positions `Prove` succeeds and `VerifyVectorCommitment` accepts the array's
elements at those positions.  PARTIAL in one respect: the Go map of elements is represented by the
list that enumerates it in bit-reversed position order (`hpos`); invariance of `Verify` under the
enumeration order of the map is covered by the tie only. -/
theorem prove_verify_vc (c : Cfg) (hlen : ∀ x, (c.H x).length = c.d) (hvld : c.hashValid = true)
    (arr : List Bytes) (hsize : arr.length ≤ 2 ^ 63)
    (idxs : List Nat) (hidx : idxs ≠ []) (hin : ∀ i ∈ idxs, i < arr.length) :
    ∃ t root, buildVC c arr = .ok t ∧ t.root = some root ∧
      ∀ (elems : List (Nat × Bytes)),
        elems.map (fun ie => bitrev (t.levels.length - 1) ie.1)
            = dedupAdj (sortNat (idxs.map (bitrev (t.levels.length - 1)))) →
        (∀ ie ∈ elems, arr[ie.1]? = some ie.2) →
        ∃ pf, prove t idxs = .ok pf ∧ pf.depth = t.levels.length - 1 ∧ verifyVC c root elems pf = .ok := by
  have hvl_ne : vcLeaves arr ≠ [] := by
    intro e
    have := vcLeaves_length arr
    rw [e] at this
    simp only [vcPadded, List.length_nil] at this
    split at this
    · omega
    · have := Nat.pow_pos (a := 2) (n := vcPath arr.length) (by omega); omega
  obtain ⟨rest, hb, hc, hsz⟩ := build_ok c hlen (vcLeaves arr) hvl_ne
  have hne : arr ≠ [] := by
    intro e; subst e
    cases idxs with
    | nil => exact hidx rfl
    | cons i t => have := hin i (by simp); simp at this
  have hn0 : arr.length ≠ 0 := by intro h0; exact hne (List.length_eq_zero_iff.mp h0)
  obtain ⟨hd0, hd1⟩ := vc_depth c arr rest hc
  -- |L0| = 2^D, D < 64
  have hL0 : ((vcLeaves arr).map c.H).length = 2 ^ rest.length := by
    rw [List.length_map, vcLeaves_length]
    by_cases h1 : arr.length ≤ 1
    · simp [vcPadded, h1, hd0 h1]
    · simp only [vcPadded, h1, if_false, hd1 (by omega)]
  have hD : rest.length < 64 := by
    by_cases h1 : arr.length ≤ 1
    · rw [hd0 h1]; omega
    · rw [hd1 (by omega)]
      have hnz : arr.length - 1 ≠ 0 := by omega
      simp only [vcPath, h1, if_false, bitLen, hnz]
      have : (arr.length - 1).log2 < 63 := (Nat.log2_lt hnz).2 (by omega)
      omega
  have hpad := vcPadded_ge arr.length
  have hn_le : arr.length ≤ 2 ^ rest.length := by
    rw [← hL0, List.length_map, vcLeaves_length]; exact hpad
  refine ⟨⟨(vcLeaves arr).map c.H :: rest, arr.length, true⟩, ?_⟩
  obtain ⟨r0, hr0⟩ := chain_last c _ hc
  refine ⟨r0, by simp [buildVC, hb], root_of_last _ _ _ r0 hr0, ?_⟩
  intro elems hpos hel
  simp only [List.length_cons, Nat.add_sub_cancel] at hpos ⊢
  -- canonical (bit-reversed) positions
  have hinc := canon_inc (idxs.map (bitrev rest.length))
  have hps_ne : dedupAdj (sortNat (idxs.map (bitrev rest.length))) ≠ [] := by
    cases idxs with
    | nil => exact absurd rfl hidx
    | cons i t =>
      intro e
      have : bitrev rest.length i ∈ dedupAdj (sortNat ((i :: t).map (bitrev rest.length))) :=
        (canon_mem _ _).2 (by simp)
      rw [e] at this; simp at this
  have hps_b : ∀ p ∈ dedupAdj (sortNat (idxs.map (bitrev rest.length))), p < ((vcLeaves arr).map c.H).length := by
    intro p hp
    rw [canon_mem] at hp
    simp only [List.mem_map] at hp
    obtain ⟨i, _, rfl⟩ := hp
    rw [hL0]; exact bitrev_lt _ _
  have hel' : ∀ x ∈ (elems.map fun ie => (bitrev rest.length ie.1, ie.2)),
      ((vcLeaves arr).map c.H)[x.1]? = some (c.H x.2) := by
    intro x hx
    simp only [List.mem_map] at hx
    obtain ⟨ie, hie, rfl⟩ := hx
    have hlt : ie.1 < arr.length := (List.getElem?_eq_some_iff.mp (hel ie hie)).1
    have := vcLeaves_at c arr rest hc ie.1 (by omega)
    rw [hel ie hie] at this
    simp [this]
  obtain ⟨r, hr, hfin, hver⟩ := verify_honest_core c hlen hvld _ rest hc hsz hD (by rw [hL0]; exact Nat.le_refl _)
    (dedupAdj (sortNat (idxs.map (bitrev rest.length)))) hps_ne hinc hps_b
    (elems.map fun ie => (bitrev rest.length ie.1, ie.2)) (by rw [List.map_map]; exact hpos) hel'
  have hrr : r = r0 := by
    simp only [List.length_cons, Nat.add_sub_cancel] at hr0
    rw [hr0] at hr; simpa using hr.symm
  subst hrr
  have hany : idxs.any (fun i => arr.length ≤ i) = false := by
    rw [List.any_eq_false]; intro i hi; simpa using hin i hi
  have hmapI : mapIdx (vcIndex rest.length) idxs = some (idxs.map (bitrev rest.length)) := by
    apply mapIdx_eq
    intro i hi
    have := hin i hi
    have hb : ¬ posBound rest.length ≤ i := by simp only [posBound, hD, if_true]; omega
    simp [vcIndex, hb]
  have hmapE : mapElems (vcIndex rest.length) elems = some (elems.map fun ie => (bitrev rest.length ie.1, ie.2)) := by
    apply mapElems_eq
    intro ie hie
    have hlt : ie.1 < arr.length := (List.getElem?_eq_some_iff.mp (hel ie hie)).1
    have hb : ¬ posBound rest.length ≤ ie.1 := by simp only [posBound, hD, if_true]; omega
    simp [vcIndex, hb]
  refine ⟨⟨(proveLevels (List.map c.H (vcLeaves arr) :: rest) (dedupAdj (sortNat (idxs.map (bitrev rest.length))))).2, rest.length⟩, ?_, rfl, ?_⟩
  · simp [prove, hidx, hn0, hany, hmapI, hfin]
  · simp only [verifyVC, hmapE]
    exact hver


/-- non-vacuity of the vector-commitment theorems: the table hash extended to the padded tree over
`[a,b,e]` (leaves a, e, b, bottom in bit-reversed order) is not needed for completeness — any
fixed-length hash meets `hlen`; for soundness the hypotheses are those of `verify_sound` on
`vcLeaves arr`, instantiated above for the plain tree. A concrete accepted instance: -/
def tvc : Tree := ⟨[[[86], [88], [87], [144]], [[61], [118]], [[66]]], 3, true⟩
example : buildVC (cSum true true) [[84, 1], [84, 2], [84, 3]] = .ok tvc := by rfl
example : tvc.root = some [66] := by decide
example : prove tvc [2, 0] = .ok ⟨[[118]], 2⟩ := by rfl
example : verifyVC (cSum true true) [66] [(0, [84, 1]), (2, [84, 3])] ⟨[[118]], 2⟩ = .ok := by decide
/-- the same path re-labelled with another depth is rejected once the depth check is present … -/
example : verifyVC (cSum true true) [66] [(0, [84, 1]), (2, [84, 3])] ⟨[[118]], 3⟩ ≠ .ok := by decide
example : verifyVC (cSum true true) [66] [(0, [84, 1]), (4, [84, 3])] ⟨[[118]], 3⟩ = .unexpectedDepth := by decide
/-- … and accepted without it (element `e` = arr[2] shown at position 4) -/
example : verifyVC (cSum true false) [66] [(0, [84, 1]), (4, [84, 3])] ⟨[[118]], 3⟩ = .ok := by decide

/-! ### the proof's hash factory (third source fact) -/

/-- **A valid hash type never accepts anything against the empty root** (the root of the empty
array): every digest it produces has `d > 0` bytes.  No collision hypothesis needed. -/
theorem empty_root_rejects (c : Cfg) (hlen : ∀ x, (c.H x).length = c.d) (hd : 0 < c.d)
    (elems : List (Nat × Bytes)) (hne : elems ≠ []) (pf : Proof) : verify c [] elems pf ≠ .ok := by
  intro hv
  obtain ⟨l', plf, hloop, ⟨it, rest, rfl, _, hh⟩, _⟩ := verify_ok_inv c [] elems pf hne hv
  have hpl_hash : ∀ it ∈ sortItems (elems.map fun ie => (⟨ie.1, c.H ie.2⟩ : Item)), IsHash c it := by
    intro it hit
    rw [sortItems_mem] at hit
    simp only [List.mem_map] at hit
    obtain ⟨ie, _, rfl⟩ := hit
    exact ⟨ie.2, rfl⟩
  obtain ⟨x, hx⟩ := verifyLoop_isHash c _ _ _ _ _ _ hloop hpl_hash it (by simp)
  have := hlen x
  rw [← hx, hh] at this
  simp at this
  omega

/-- **With the validity check, a proof carrying an invalid hash factory is rejected outright**, by
`Verify` and by `VerifyVectorCommitment`, whatever root, elements and path it comes with. -/
theorem invalid_hash_rejected (c : Cfg) (hck : c.checkHash = true) (hinv : c.hashValid = false)
    (root : Bytes) (elems : List (Nat × Bytes)) (pf : Proof) :
    verify c root elems pf = .invalidHash ∧ verifyVC c root elems pf ≠ .ok := by
  have h1 : ∀ el, verify c root el pf = .invalidHash := by
    intro el; simp [verify, hck, hinv]
  refine ⟨h1 elems, ?_⟩
  simp only [verifyVC]
  split
  · simp
  · rw [h1]; simp

/-- **The third defect (F1c), as a theorem about the model of the code without the check.**  An
invalid `HashFactory` yields `invalidHash` (`Size() = 0`, every digest the empty slice): ANY element
then verifies at position 0 against the root of the EMPTY array (the empty digest), for which every
position is out of range.  (`verify_sound` excludes this hash through `hnz`: `H x = [] = zeros 0`.) -/
theorem invalid_hash_unsound_witness (c c0 : Cfg) (hck : c.checkHash = false) (hH : ∀ x, c.H x = [])
    (x : Bytes) :
    ∃ t, build c0 [] = .ok t ∧ t.root = some [] ∧ verify c [] [(0, x)] ⟨[], 0⟩ = .ok := by
  refine ⟨⟨[], 0, false⟩, by simp [build], by simp [Tree.root], ?_⟩
  simp [verify, hck, posBound, sortItems, insertItem, verifyLoop, inspectRoot, hH]

/-- the invalid factory as the driver instantiates it; it violates `hnz` and meets the witness's hypotheses -/
def cInvalid (check : Bool) : Cfg := ⟨fun _ => [], 0, true, true, false, check⟩
example : (cInvalid false).checkHash = false ∧ ∀ x, (cInvalid false).H x = [] := ⟨rfl, fun _ => rfl⟩
example : ¬ ∀ x, (cInvalid true).H x ≠ zeros (cInvalid true).d := by
  intro h; exact h [] rfl
example : (cInvalid true).checkHash = true ∧ (cInvalid true).hashValid = false := ⟨rfl, rfl⟩
example : verify (cInvalid false) [] [(0, [84, 9])] ⟨[], 0⟩ = .ok := by decide
example : verify (cInvalid true) [] [(0, [84, 9])] ⟨[], 0⟩ = .invalidHash := by decide
example : (0 : Nat) < (cSum true true).d := by decide

end Props.C37
