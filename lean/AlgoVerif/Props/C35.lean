import AlgoVerif.Lemmas.Resources
/-!
C35 — "App programs can touch only resources made available to them".

`Model.Resources` replays resources.go / the eval.go resolvers / box.go; `Spec.Resources.Avail E r` is the declarative
closure ("some transaction of the group declares it / it was created in the group / the transaction's own references
name it / it is the called app or its account"), written without reference to the evaluator.

All theorems quantify over EVERY group, reference list, operand and version; nothing is bounded.
-/
namespace AlgoVerif.Props.C35
open AlgoVerif.Model.Resources AlgoVerif.Spec.Resources AlgoVerif.Lemmas.Resources

/-! ## 1. access_only_if_available -/

/-- **Soundness of every resolver.** Whatever opcode family, operand form (index / address, id / slot) and program
version: if the resolver lets the access through, the resource it then touches is in `Avail`. -/
theorem access_only_if_available (E : Env) (low : Bool) (acc : Access) (r : Resource)
    (h : resolve (E.cx low) acc = .ok r) : Avail E r := by
  have hver : (E.cx low).version = E.version := rfl
  cases acc with
  | acct arg =>
    simp only [resolve] at h
    cases h1 : accountReference (E.cx low) arg with
    | error e => simp [h1, Except.map] at h
    | ok p =>
      simp only [h1, Except.map, Except.ok.injEq] at h
      subst h
      exact (availableAccount_iff E low p.1).1 (accountReference_sound (i := p.2) h1)
  | holding arg ref =>
    simp only [resolve] at h
    cases h1 : holdingReference (E.cx low) arg ref with
    | error e => simp [h1, Except.map] at h
    | ok p =>
      simp only [h1, Except.map, Except.ok.injEq] at h
      subst h
      obtain ⟨h9, h8, h4, _⟩ := holdingReference_sound (a := p.1) (id := p.2) h1
      simp only [Avail]
      by_cases hv : E.version ≥ sharedResourcesVersion
      · rw [if_pos hv]
        exact (allowsHolding_iff E low (by unfold sharedResourcesVersion createdResourcesVersion at *; omega) p.1 p.2).1 (h9 hv)
      · rw [if_neg hv]
        exact ⟨(availableAccount_iff E low p.1).1 (h8 (by rw [hver]; omega)),
          fun hd => (availableAsset_iff E low p.2).1 (h4 hd)⟩
  | assetParams ref =>
    simp only [resolve] at h
    cases h1 : assetReference (E.cx low) ref true with
    | error e => simp [h1, Except.map] at h
    | ok p =>
      simp only [h1, Except.map, Except.ok.injEq] at h
      subst h
      exact (availableAsset_iff E low p).1 ((assetReference_sound h1).1 (Or.inr rfl))
  | appParams ref =>
    simp only [resolve] at h
    cases h1 : appReference (E.cx low) ref true with
    | error e => simp [h1, Except.map] at h
    | ok p =>
      simp only [h1, Except.map, Except.ok.injEq] at h
      subst h
      exact (availableApp_iff E low p).1 ((appReference_sound h1).1 (Or.inr rfl))
  | locals arg ref =>
    simp only [resolve] at h
    cases h1 : localsReference (E.cx low) arg ref with
    | error e => simp [h1, Except.map] at h
    | ok p =>
      simp only [h1, Except.map, Except.ok.injEq] at h
      subst h
      obtain ⟨h9, h8, h4, _⟩ := localsReference_sound (a := p.1) (id := p.2) h1
      simp only [Avail]
      by_cases hv : E.version ≥ sharedResourcesVersion
      · rw [if_pos hv]
        exact (allowsLocals_iff E low (by unfold sharedResourcesVersion createdResourcesVersion at *; omega) p.1 p.2).1 (h9 hv)
      · rw [if_neg hv]
        exact ⟨(availableAccount_iff E low p.1).1 (h8 (by rw [hver]; omega)),
          fun hd => (availableApp_iff E low p.2).1 (h4 hd)⟩
  | localMut arg =>
    simp only [resolve] at h
    cases h1 : localMutation (E.cx low) arg with
    | error e => simp [h1, Except.map] at h
    | ok p =>
      simp only [h1, Except.map, Except.ok.injEq] at h
      subst h
      obtain ⟨hp, ha, h9, _⟩ := localMutation_sound (a := p.1) (p := p.2) h1
      simp only [Avail]
      by_cases hv : E.version ≥ sharedResourcesVersion
      · rw [if_pos hv, hp]
        exact (allowsLocals_iff E low (by unfold sharedResourcesVersion createdResourcesVersion at *; omega) p.1 _).1 (h9 hv)
      · rw [if_neg hv]
        exact ⟨(availableAccount_iff E low p.1).1 ha, fun _ => Or.inr (Or.inr (Or.inl hp))⟩
  | setAccount a =>
    simp only [resolve, assignAccount] at h
    by_cases hav : availableAccount (E.cx low) a = true
    · simp only [hav, if_true, Except.map, Except.ok.injEq] at h
      subst h; exact (availableAccount_iff E low a).1 hav
    · simp [hav, Except.map] at h
  | setAsset id =>
    simp only [resolve, assignAsset] at h
    by_cases hav : availableAsset (E.cx low) id = true
    · simp only [hav, if_true, Except.map, Except.ok.injEq] at h
      subst h; exact (availableAsset_iff E low id).1 hav
    · simp [hav, Except.map] at h
  | setApp id =>
    simp only [resolve, assignApp] at h
    by_cases hav : availableApp (E.cx low) id = true
    · simp only [hav, if_true, Except.map, Except.ok.injEq] at h
      subst h; exact (availableApp_iff E low id).1 hav
    · simp [hav, Except.map] at h

/-- `Avail` is the evaluator's own closure, for EVERY group: what `computeAvailability` puts into the shared sets is
exactly what some transaction of the group declares. -/
theorem shared_sets_are_the_declared (g : List Txn) :
    (∀ a, a ∈ (computeAvailability g).sharedAccounts ↔ ∃ tx ∈ g, DeclaresAccount tx a)
    ∧ (∀ id, id ∈ (computeAvailability g).sharedAsas ↔ ∃ tx ∈ g, DeclaresAsset tx id)
    ∧ (∀ p, p ∈ (computeAvailability g).sharedApps ↔ ∃ tx ∈ g, DeclaresApp tx p)
    ∧ (∀ a id, (a, id) ∈ (computeAvailability g).sharedHoldings ↔ ∃ tx ∈ g, DeclaresHolding tx a id)
    ∧ (∀ a p, (a, p) ∈ (computeAvailability g).sharedLocals ↔ ∃ tx ∈ g, DeclaresLocals tx a p) :=
  ⟨shared_accounts_iff g, shared_asas_iff g, shared_apps_iff g, shared_holdings_iff g, shared_locals_iff g⟩

/-! ## 2. available_access_ok (the converse, where the code intends it: direct references) -/

/-- an available account named by its address resolves -/
theorem available_account_ok (E : Env) (low : Bool) (a : Addr) (h : AvailAccount E a) :
    ∃ i, accountReference (E.cx low) (.addr a) = .ok (a, i) := by
  have hav := (availableAccount_iff E low a).2 h
  unfold accountReference
  simp only [resolveAccount, bind, Except.bind, pure, Except.pure]
  cases hj : indexByAddress (E.cx low).snd (E.cx low).f a with
  | some j => exact ⟨j, rfl⟩
  | none => exact ⟨(E.cx low).f.accounts.length + 1, by simp [hav]⟩

/-- an available asset named by its id resolves to itself (direct references: version ≥ 4; ids ≤ 255 are refused
under AppForbidLowResources) -/
theorem available_asset_ok (E : Env) (low : Bool) (id : Nat) (foreign : Bool) (h : AvailAsset E id)
    (hv : E.version ≥ directRefEnabledVersion) (hl : low = true → id > lastForbiddenResource) :
    assetReference (E.cx low) id foreign = .ok id := by
  have hav := (availableAsset_iff E low id).2 h
  have hv' : (E.cx low).version ≥ directRefEnabledVersion := hv
  unfold assetReference resolveAsset lowGuard
  simp only [hv', if_true, hav]
  have : ¬ ((E.cx low).low = true ∧ id ≤ lastForbiddenResource) := by
    rintro ⟨h1, h2⟩
    have := hl h1
    omega
  simp [this]

theorem available_app_ok (E : Env) (low : Bool) (p : Nat) (foreign : Bool) (h : AvailApp E p)
    (hv : E.version ≥ directRefEnabledVersion) (h0 : p ≠ 0) (hl : low = true → p > lastForbiddenResource) :
    appReference (E.cx low) p foreign = .ok p := by
  have hav := (availableApp_iff E low p).2 h
  have hv' : (E.cx low).version ≥ directRefEnabledVersion := hv
  have hlow : ¬ ((E.cx low).low = true ∧ p ≤ lastForbiddenResource) := by
    rintro ⟨h1, h2⟩
    have := hl h1
    omega
  unfold appReference resolveApp lowGuard
  simp only [hv', if_true]
  by_cases hs : p = (E.cx low).appId
  · have : (p = 0 ∨ p = (E.cx low).appId) := Or.inr hs
    simp only [this, if_true]
    rw [← hs]; simp [hlow]
  · have : ¬ (p = 0 ∨ p = (E.cx low).appId) := by rintro (h | h); exact h0 h; exact hs h
    simp [this, hav, hlow]

/-- from sharedResourcesVersion: a holding that is available as a pair, whose asset is available, resolves -/
theorem available_holding_ok (E : Env) (low : Bool) (a : Addr) (id : Nat)
    (hv : E.version ≥ sharedResourcesVersion) (h : SharedHolding E a id) (hs : AvailAsset E id)
    (hl : low = true → id > lastForbiddenResource) :
    holdingReference (E.cx low) (.addr a) id = .ok (a, id) := by
  have hv' : (E.cx low).version ≥ sharedResourcesVersion := hv
  have hh := (allowsHolding_iff E low (by unfold sharedResourcesVersion createdResourcesVersion at *; omega) a id).2 h
  have hr : resolveAsset (E.cx low) id = .ok id := by
    have := available_asset_ok E low id false hs (by unfold sharedResourcesVersion directRefEnabledVersion at *; omega) hl
    unfold assetReference at this
    have hd : (E.cx low).version ≥ directRefEnabledVersion := by
      unfold sharedResourcesVersion directRefEnabledVersion at *; exact Nat.le_trans (by omega) hv'
    simpa [hd] using this
  unfold holdingReference
  simp [hv', resolveAccount, pure, Except.pure, hr, hh]

theorem available_locals_ok (E : Env) (low : Bool) (a : Addr) (p : Nat)
    (hv : E.version ≥ sharedResourcesVersion) (h : SharedLocals E a p) (hs : AvailApp E p) (h0 : p ≠ 0)
    (hl : low = true → p > lastForbiddenResource) :
    localsReference (E.cx low) (.addr a) p = .ok (a, p) := by
  have hv' : (E.cx low).version ≥ sharedResourcesVersion := hv
  have hh := (allowsLocals_iff E low (by unfold sharedResourcesVersion createdResourcesVersion at *; omega) a p).2 h
  have hr : resolveApp (E.cx low) p = .ok p := by
    have := available_app_ok E low p false hs (by unfold sharedResourcesVersion directRefEnabledVersion at *; omega) h0 hl
    unfold appReference at this
    have hd : (E.cx low).version ≥ directRefEnabledVersion := by
      unfold sharedResourcesVersion directRefEnabledVersion at *; exact Nat.le_trans (by omega) hv'
    simpa [hd] using this
  unfold localsReference
  simp [hv', resolveAccount, pure, Except.pure, hr, hh]

/-- **Converse.** For direct references (the operand names the resource itself: an address, or — from version 4 —
an asset / app id): a resource in `Avail` is let through. (Slot operands always resolve into the transaction's own
arrays; the sub-255 ids under AppForbidLowResources and the id 0 = "called app" convention are the stated exceptions.) -/
theorem available_access_ok (E : Env) (low : Bool) :
    (∀ a, Avail E (.account a) → ∃ r, resolve (E.cx low) (.acct (.addr a)) = .ok r)
    ∧ (∀ a, Avail E (.account a) → resolve (E.cx low) (.setAccount a) = .ok (.account a))
    ∧ (∀ id, Avail E (.asset id) → resolve (E.cx low) (.setAsset id) = .ok (.asset id))
    ∧ (∀ p, Avail E (.app p) → resolve (E.cx low) (.setApp p) = .ok (.app p))
    ∧ (∀ id, E.version ≥ directRefEnabledVersion → (low = true → id > lastForbiddenResource) →
        Avail E (.asset id) → resolve (E.cx low) (.assetParams id) = .ok (.asset id))
    ∧ (∀ p, E.version ≥ directRefEnabledVersion → p ≠ 0 → (low = true → p > lastForbiddenResource) →
        Avail E (.app p) → resolve (E.cx low) (.appParams p) = .ok (.app p))
    ∧ (∀ a id, E.version ≥ sharedResourcesVersion → (low = true → id > lastForbiddenResource) →
        Avail E (.holding a id) → Avail E (.asset id) → resolve (E.cx low) (.holding (.addr a) id) = .ok (.holding a id))
    ∧ (∀ a p, E.version ≥ sharedResourcesVersion → p ≠ 0 → (low = true → p > lastForbiddenResource) →
        Avail E (.locals a p) → Avail E (.app p) → resolve (E.cx low) (.locals (.addr a) p) = .ok (.locals a p)) := by
  refine ⟨?_, ?_, ?_, ?_, ?_, ?_, ?_, ?_⟩
  · intro a h
    obtain ⟨i, hi⟩ := available_account_ok E low a h
    exact ⟨.account a, by simp [resolve, hi, Except.map]⟩
  · intro a h
    simp [resolve, assignAccount, (availableAccount_iff E low a).2 h, Except.map]
  · intro id h
    simp [resolve, assignAsset, (availableAsset_iff E low id).2 h, Except.map]
  · intro p h
    simp [resolve, assignApp, (availableApp_iff E low p).2 h, Except.map]
  · intro id hv hl h
    simp [resolve, available_asset_ok E low id true h hv hl, Except.map]
  · intro p hv h0 hl h
    simp [resolve, available_app_ok E low p true h hv h0 hl, Except.map]
  · intro a id hv hl h hs
    simp only [Avail, if_pos hv] at h
    simp [resolve, available_holding_ok E low a id hv h hs hl, Except.map]
  · intro a p hv h0 hl h hs
    simp only [Avail, if_pos hv] at h
    simp [resolve, available_locals_ok E low a p hv h hs h0 hl, Except.map]

/-! ## 3. holding_needs_both -/

/-- **The exact rule for holdings / local states.**
From sharedResourcesVersion a holding lookup succeeds only if the (account, asset) PAIR is declared by ONE transaction
of the group, or the asset was created in the group (account available), or the account belongs to an app created in
the group (asset available), or — simulation only — the policy grants it. Before sharedResourcesVersion it succeeds
only if account and asset are each available to the transaction on its own. Same for local states. -/
theorem holding_needs_both (E : Env) (low : Bool) (arg : AcctArg) (ref : Nat) (a : Addr) (id : Nat)
    (h : holdingReference (E.cx low) arg ref = .ok (a, id)) :
    (E.version ≥ sharedResourcesVersion →
        (∃ tx ∈ E.group, DeclaresHolding tx a id)
        ∨ (id ∈ E.createdAsas ∧ AvailAccount E a)
        ∨ ((∃ c ∈ E.createdApps, a = appAddr c) ∧ AvailAsset E id)
        ∨ (∃ p, E.policy = some p ∧ AvailAccount E a ∧ AvailAsset E id ∧ (a, id) ∈ p.holdings))
    ∧ (E.version < sharedResourcesVersion →
        AvailAccount E a ∧ (E.version ≥ directRefEnabledVersion → AvailAsset E id)) := by
  have := access_only_if_available E low (.holding arg ref) (.holding a id) (by simp [resolve, h, Except.map])
  simp only [Avail] at this
  constructor
  · intro hv; rw [if_pos hv] at this; exact this
  · intro hv; rw [if_neg (by omega)] at this; exact this

theorem locals_needs_both (E : Env) (low : Bool) (arg : AcctArg) (ref : Nat) (a : Addr) (p : Nat)
    (h : localsReference (E.cx low) arg ref = .ok (a, p)) :
    (E.version ≥ sharedResourcesVersion → SharedLocals E a p)
    ∧ (E.version < sharedResourcesVersion →
        AvailAccount E a ∧ (E.version ≥ directRefEnabledVersion → AvailApp E p)) := by
  have := access_only_if_available E low (.locals arg ref) (.locals a p) (by simp [resolve, h, Except.map])
  simp only [Avail] at this
  constructor
  · intro hv; rw [if_pos hv] at this; exact this
  · intro hv; rw [if_neg (by omega)] at this; exact this

/-- with foreign arrays the pair must come from ONE transaction: its account side and its asset side -/
theorem foreign_pair_same_transaction (snd : Addr) (f : Appl) (hf : f.access = none) (a : Addr) (id : Nat) :
    DeclaresHolding (.appl snd f) a id ↔ ForeignAccount snd f a ∧ id ∈ f.assets := by
  simp [DeclaresHolding, hf]

/-- an account named by one transaction and an asset named by another do NOT make the holding available: with nothing
created in the group and no simulation policy, a holding that no single transaction declares is refused whatever the
operands — even when account and asset are both available -/
theorem holding_not_from_separate_txns (E : Env) (low : Bool) (a : Addr) (id : Nat)
    (hv : E.version ≥ sharedResourcesVersion) (hp : E.policy = none) (hc1 : E.createdAsas = []) (hc2 : E.createdApps = [])
    (hno : ∀ tx ∈ E.group, ¬ DeclaresHolding tx a id) (arg : AcctArg) (ref : Nat) :
    holdingReference (E.cx low) arg ref ≠ .ok (a, id) := by
  intro h
  rcases (holding_needs_both E low arg ref a id h).1 hv with ⟨tx, ht, hd⟩ | ⟨hc, _⟩ | ⟨⟨c, hc, _⟩, _⟩ | ⟨p, hq, _⟩
  · exact hno tx ht hd
  · rw [hc1] at hc; cases hc
  · rw [hc2] at hc; cases hc
  · rw [hp] at hq; cases hq

/-! ## 4. presharing_local -/

/-- **Before sharedResourcesVersion availability is local**: `Avail` does not depend on the other transactions of the
group at all — only on the transaction's own references, what was created earlier in the group, and the called app. -/
theorem presharing_local (E : Env) (g' : List Txn) (hv : E.version < sharedResourcesVersion) (r : Resource) :
    Avail E r ↔ Avail { E with group := g' } r := by
  have n : ¬ E.version ≥ sharedResourcesVersion := by omega
  have eA : ∀ a, AvailAccount E a ↔ AvailAccount { E with group := g' } a := by
    intro a; simp [AvailAccount, OwnAccount, PolAccount, n]
  have eS : ∀ a, AvailAsset E a ↔ AvailAsset { E with group := g' } a := by
    intro a; simp [AvailAsset, OwnAsset, PolAsset, n]
  have eP : ∀ a, AvailApp E a ↔ AvailApp { E with group := g' } a := by
    intro a; simp [AvailApp, OwnApp, PolApp, n]
  cases r with
  | account a => exact eA a
  | asset a => exact eS a
  | app a => exact eP a
  | holding a id => simp only [Avail, n, if_false]; rw [eA a, eS id]
  | locals a p => simp only [Avail, n, if_false]; rw [eA a, eP p]

/-- the same on the evaluator: a pre-sharing program never consults the shared sets -/
theorem presharing_local_model (cx : Ctx) (r' : Res) (hv : cx.version < sharedResourcesVersion)
    (h1 : r'.createdAsas = cx.res.createdAsas) (h2 : r'.createdApps = cx.res.createdApps) :
    (∀ a, availableAccount { cx with res := r' } a = availableAccount cx a)
    ∧ (∀ id, availableAsset { cx with res := r' } id = availableAsset cx id)
    ∧ (∀ p, availableApp { cx with res := r' } p = availableApp cx p)
    ∧ (∀ tx v, allows { cx with res := r' } tx v = .ok ()) := by
  have n : ¬ cx.version ≥ sharedResourcesVersion := by omega
  refine ⟨?_, ?_, ?_, ?_⟩
  · intro a; simp [availableAccount, polAcct, n, h2]
  · intro a; simp [availableAsset, polAsset, n, h1]
  · intro a; simp [availableApp, polApp, n, h2]
  · intro tx v; simp [allows, hv]

/-! ## 5. avail_monotone -/

/-- `tx'` is `tx` with references added (foreign arrays grow; every other transaction type is unchanged) -/
def TxnLe : Txn → Txn → Prop
  | .appl s f, .appl s' f' =>
      s = s' ∧ f.appId = f'.appId ∧ f.access = none ∧ f'.access = none
      ∧ (∀ a ∈ f.accounts, a ∈ f'.accounts) ∧ (∀ a ∈ f.assets, a ∈ f'.assets) ∧ (∀ a ∈ f.apps, a ∈ f'.apps)
  | tx, tx' => tx = tx'

/-- `E'` is `E` with references / transactions / created resources added -/
structure EnvLe (E E' : Env) : Prop where
  version : E.version = E'.version
  appId : E.appId = E'.appId
  snd : E.snd = E'.snd
  policy : E.policy = E'.policy
  group : ∀ tx ∈ E.group, ∃ tx' ∈ E'.group, TxnLe tx tx'
  asas : ∀ x ∈ E.createdAsas, x ∈ E'.createdAsas
  apps : ∀ x ∈ E.createdApps, x ∈ E'.createdApps
  accounts : ∀ a ∈ E.f.accounts, a ∈ E'.f.accounts
  assets : ∀ a ∈ E.f.assets, a ∈ E'.f.assets
  fapps : ∀ a ∈ E.f.apps, a ∈ E'.f.apps
  access : ∀ rr ∈ accessList E.f, rr ∈ accessList E'.f

theorem foreignAccount_mono {s : Addr} {f f' : Appl} (hid : f.appId = f'.appId)
    (h1 : ∀ a ∈ f.accounts, a ∈ f'.accounts) (h3 : ∀ a ∈ f.apps, a ∈ f'.apps) {a : Addr}
    (h : ForeignAccount s f a) : ForeignAccount s f' a := by
  rcases h with h | h | h | ⟨p, hp, h⟩
  · exact Or.inl h
  · exact Or.inr (Or.inl (h1 a h))
  · exact Or.inr (Or.inr (Or.inl (hid ▸ h)))
  · exact Or.inr (Or.inr (Or.inr ⟨p, h3 p hp, h⟩))

theorem foreignApp_mono {f f' : Appl} (hid : f.appId = f'.appId) (h3 : ∀ a ∈ f.apps, a ∈ f'.apps) {p : Nat}
    (h : ForeignApp f p) : ForeignApp f' p := by
  rcases h with h | h
  · exact Or.inl (hid ▸ h)
  · exact Or.inr (h3 p h)

theorem declares_mono {tx tx' : Txn} (hle : TxnLe tx tx') :
    (∀ a, DeclaresAccount tx a → DeclaresAccount tx' a)
    ∧ (∀ a, DeclaresAsset tx a → DeclaresAsset tx' a)
    ∧ (∀ a, DeclaresApp tx a → DeclaresApp tx' a)
    ∧ (∀ a id, DeclaresHolding tx a id → DeclaresHolding tx' a id)
    ∧ (∀ a p, DeclaresLocals tx a p → DeclaresLocals tx' a p) := by
  cases tx with
  | appl s f =>
    cases tx' with
    | appl s' f' =>
      obtain ⟨rfl, hid, hn, hn', h1, h2, h3⟩ := hle
      refine ⟨?_, ?_, ?_, ?_, ?_⟩
      · intro a h; simp only [DeclaresAccount, hn, hn'] at h ⊢; exact foreignAccount_mono hid h1 h3 h
      · intro a h; simp only [DeclaresAsset, hn, hn'] at h ⊢; exact h2 a h
      · intro a h; simp only [DeclaresApp, hn, hn'] at h ⊢; exact foreignApp_mono hid h3 h
      · intro a id h; simp only [DeclaresHolding, hn, hn'] at h ⊢; exact ⟨foreignAccount_mono hid h1 h3 h.1, h2 id h.2⟩
      · intro a p h; simp only [DeclaresLocals, hn, hn'] at h ⊢
        exact ⟨foreignAccount_mono hid h1 h3 h.1, foreignApp_mono hid h3 h.2⟩
    | pay _ _ _ => simp [TxnLe] at hle
    | keyreg _ => simp [TxnLe] at hle
    | acfg _ _ => simp [TxnLe] at hle
    | axfer _ _ _ _ _ => simp [TxnLe] at hle
    | afrz _ _ _ => simp [TxnLe] at hle
    | other _ => simp [TxnLe] at hle
  | pay _ _ _ => simp only [TxnLe] at hle; subst hle; exact ⟨fun _ h => h, fun _ h => h, fun _ h => h, fun _ _ h => h, fun _ _ h => h⟩
  | keyreg _ => simp only [TxnLe] at hle; subst hle; exact ⟨fun _ h => h, fun _ h => h, fun _ h => h, fun _ _ h => h, fun _ _ h => h⟩
  | acfg _ _ => simp only [TxnLe] at hle; subst hle; exact ⟨fun _ h => h, fun _ h => h, fun _ h => h, fun _ _ h => h, fun _ _ h => h⟩
  | axfer _ _ _ _ _ => simp only [TxnLe] at hle; subst hle; exact ⟨fun _ h => h, fun _ h => h, fun _ h => h, fun _ _ h => h, fun _ _ h => h⟩
  | afrz _ _ _ => simp only [TxnLe] at hle; subst hle; exact ⟨fun _ h => h, fun _ h => h, fun _ h => h, fun _ _ h => h, fun _ _ h => h⟩
  | other _ => simp only [TxnLe] at hle; subst hle; exact ⟨fun _ h => h, fun _ h => h, fun _ h => h, fun _ _ h => h, fun _ _ h => h⟩

theorem availAccount_mono {E E' : Env} (le : EnvLe E E') {a : Addr} (h : AvailAccount E a) : AvailAccount E' a := by
  rcases h with h | h | h | h | h | h
  · left
    rcases h with h | h | ⟨rr, hr, h⟩
    · exact Or.inl (le.snd ▸ h)
    · exact Or.inr (Or.inl (le.accounts a h))
    · exact Or.inr (Or.inr ⟨rr, le.access rr hr, h⟩)
  · obtain ⟨hv, c, hc, e⟩ := h
    exact Or.inr (Or.inl ⟨le.version ▸ hv, c, le.apps c hc, e⟩)
  · obtain ⟨hv, tx, ht, hd⟩ := h
    obtain ⟨tx', ht', hle⟩ := le.group tx ht
    exact Or.inr (Or.inr (Or.inl ⟨le.version ▸ hv, tx', ht', (declares_mono hle).1 a hd⟩))
  · obtain ⟨hv, p, hp, e⟩ := h
    exact Or.inr (Or.inr (Or.inr (Or.inl ⟨le.version ▸ hv, p, le.fapps p hp, e⟩)))
  · exact Or.inr (Or.inr (Or.inr (Or.inr (Or.inl (le.appId ▸ h)))))
  · obtain ⟨p, hp, hm⟩ := h
    exact Or.inr (Or.inr (Or.inr (Or.inr (Or.inr ⟨p, le.policy ▸ hp, hm⟩))))

theorem availAsset_mono {E E' : Env} (le : EnvLe E E') {id : Nat} (h : AvailAsset E id) : AvailAsset E' id := by
  rcases h with h | h | h | h
  · left
    rcases h with h | ⟨rr, hr, h⟩
    · exact Or.inl (le.assets id h)
    · exact Or.inr ⟨rr, le.access rr hr, h⟩
  · exact Or.inr (Or.inl ⟨le.version ▸ h.1, le.asas id h.2⟩)
  · obtain ⟨hv, tx, ht, hd⟩ := h
    obtain ⟨tx', ht', hle⟩ := le.group tx ht
    exact Or.inr (Or.inr (Or.inl ⟨le.version ▸ hv, tx', ht', (declares_mono hle).2.1 id hd⟩))
  · obtain ⟨p, hp, hm⟩ := h
    exact Or.inr (Or.inr (Or.inr ⟨p, le.policy ▸ hp, hm⟩))

theorem availApp_mono {E E' : Env} (le : EnvLe E E') {id : Nat} (h : AvailApp E id) : AvailApp E' id := by
  rcases h with h | h | h | h | h
  · left
    rcases h with h | ⟨rr, hr, h⟩
    · exact Or.inl (le.fapps id h)
    · exact Or.inr ⟨rr, le.access rr hr, h⟩
  · exact Or.inr (Or.inl ⟨le.version ▸ h.1, le.apps id h.2⟩)
  · exact Or.inr (Or.inr (Or.inl (le.appId ▸ h)))
  · obtain ⟨hv, tx, ht, hd⟩ := h
    obtain ⟨tx', ht', hle⟩ := le.group tx ht
    exact Or.inr (Or.inr (Or.inr (Or.inl ⟨le.version ▸ hv, tx', ht', (declares_mono hle).2.2.1 id hd⟩)))
  · obtain ⟨p, hp, hm⟩ := h
    exact Or.inr (Or.inr (Or.inr (Or.inr ⟨p, le.policy ▸ hp, hm⟩)))

/-- **Adding a reference never removes availability**: more transactions in the group, more entries in the
transaction's own arrays or in another transaction's foreign arrays, more created resources — `Avail` only grows. -/
theorem avail_monotone {E E' : Env} (le : EnvLe E E') (r : Resource) (h : Avail E r) : Avail E' r := by
  cases r with
  | account a => exact availAccount_mono le h
  | asset a => exact availAsset_mono le h
  | app a => exact availApp_mono le h
  | holding a id =>
    simp only [Avail] at h ⊢
    rw [← le.version]
    by_cases hv : E.version ≥ sharedResourcesVersion
    · rw [if_pos hv] at h ⊢
      rcases h with ⟨tx, ht, hd⟩ | ⟨hc, ha⟩ | ⟨⟨c, hc, e⟩, hs⟩ | ⟨p, hp, ha, hs, hm⟩
      · obtain ⟨tx', ht', hle⟩ := le.group tx ht
        exact Or.inl ⟨tx', ht', (declares_mono hle).2.2.2.1 a id hd⟩
      · exact Or.inr (Or.inl ⟨le.asas id hc, availAccount_mono le ha⟩)
      · exact Or.inr (Or.inr (Or.inl ⟨⟨c, le.apps c hc, e⟩, availAsset_mono le hs⟩))
      · exact Or.inr (Or.inr (Or.inr ⟨p, le.policy ▸ hp, availAccount_mono le ha, availAsset_mono le hs, hm⟩))
    · rw [if_neg hv] at h ⊢
      exact ⟨availAccount_mono le h.1, fun hd => availAsset_mono le (h.2 hd)⟩
  | locals a p =>
    simp only [Avail] at h ⊢
    rw [← le.version]
    by_cases hv : E.version ≥ sharedResourcesVersion
    · rw [if_pos hv] at h ⊢
      rcases h with ⟨tx, ht, hd⟩ | ⟨hc, ha⟩ | ⟨⟨c, hc, e⟩, hs⟩ | ⟨q, hp, hs, ha, hm⟩
      · obtain ⟨tx', ht', hle⟩ := le.group tx ht
        exact Or.inl ⟨tx', ht', (declares_mono hle).2.2.2.2 a p hd⟩
      · exact Or.inr (Or.inl ⟨le.apps p hc, availAccount_mono le ha⟩)
      · exact Or.inr (Or.inr (Or.inl ⟨⟨c, le.apps c hc, e⟩, availApp_mono le hs⟩))
      · exact Or.inr (Or.inr (Or.inr ⟨q, le.policy ▸ hp, availApp_mono le hs, availAccount_mono le ha, hm⟩))
    · rw [if_neg hv] at h ⊢
      exact ⟨availAccount_mono le h.1, fun hd => availApp_mono le (h.2 hd)⟩

/-! ## 6. inner_allows -/

/-- what a pre-sharing callee would get from the inner app call's own arrays: the cross products -/
def innerCrossHoldings (snd : Addr) (appId : Nat) (accounts : List Addr) (assets apps : List Nat) : List (Addr × Nat) :=
  (innerTxAccounts snd appId accounts apps).flatMap fun a => assets.map fun id => (a, id)
def innerCrossLocals (snd : Addr) (appId : Nat) (accounts : List Addr) (apps : List Nat) : List (Addr × Nat) :=
  (innerTxAccounts snd appId accounts apps).flatMap fun a =>
    ((if appId ≠ 0 then [appId] else []) ++ apps).map fun id => (a, id)

/-- the cross products are exactly what `fill` would share for that transaction (the callee's view) -/
theorem innerCross_is_fill (snd : Addr) (appId : Nat) (accounts : List Addr) (assets apps : List Nat) :
    (contrib (.appl snd { appId := appId, accounts := accounts, assets := assets, apps := apps })).holdings
      = innerCrossHoldings snd appId accounts assets apps
    ∧ (contrib (.appl snd { appId := appId, accounts := accounts, assets := assets, apps := apps })).locals
      = innerCrossLocals snd appId accounts apps := by
  constructor <;> rfl

/-- **An inner transaction may only name what the caller has.** If `allows` lets an inner transaction of a
sharing-version caller (≥ 9) through:
 * an inner app call of a PRE-sharing callee (which will treat account × asset / account × app cross products of its
   own arrays as available) only carries cross products the caller itself may touch;
 * an inner asset transfer / freeze only touches holdings the caller itself may touch.
(For a callee of version ≥ 9 nothing is needed: it runs against the same `resources` and checks for itself; for a
caller of version < 9 every resource it can name is one of its own, so all cross products are its own.) -/
theorem inner_allows (cx : Ctx) (hv : cx.version ≥ sharedResourcesVersion) :
    (∀ snd appId accounts assets apps calleeVer, calleeVer < sharedResourcesVersion →
        allows cx (.appl snd appId accounts assets apps) calleeVer = .ok () →
        (∀ h ∈ innerCrossHoldings snd appId accounts assets apps, h.2 = 0 ∨ h.1 = .zero ∨ allowsHolding cx h.1 h.2 = true)
        ∧ (∀ l ∈ innerCrossLocals snd appId accounts apps, allowsLocals cx l.1 l.2 = true))
    ∧ (∀ snd asset rcv asnd aclose v, allows cx (.axfer snd asset rcv asnd aclose) v = .ok () →
        ∀ a, (a = rcv ∨ a = asnd ∨ a = aclose ∨ (asnd = .zero ∧ a = snd)) →
          asset = 0 ∨ a = .zero ∨ allowsHolding cx a asset = true)
    ∧ (∀ snd asset acct v, allows cx (.afrz snd asset acct) v = .ok () →
        asset = 0 ∨ acct = .zero ∨ allowsHolding cx acct asset = true) := by
  have n : ¬ cx.version < sharedResourcesVersion := by omega
  refine ⟨?_, ?_, ?_⟩
  · intro snd appId accounts assets apps cv hcv h
    have ncv : ¬ cv ≥ sharedResourcesVersion := by omega
    simp only [allows, n, if_false, ncv] at h
    rw [forM_ok] at h
    constructor
    · intro hh hm
      simp only [innerCrossHoldings, List.mem_flatMap, List.mem_map] at hm
      obtain ⟨a, ha, id, hid, rfl⟩ := hm
      exact ((allowsApplAddr_ok cx appId assets apps a).1 (h a ha)).1 id hid
    · intro l hm
      simp only [innerCrossLocals, List.mem_flatMap, List.mem_map, List.mem_append] at hm
      obtain ⟨a, ha, id, hid, rfl⟩ := hm
      have := (allowsApplAddr_ok cx appId assets apps a).1 (h a ha)
      rcases hid with hid | hid
      · by_cases h0 : appId ≠ 0
        · simp [h0] at hid; subst hid; exact this.2.1 h0
        · simp [h0] at hid
      · exact this.2.2 id hid
  · intro snd asset rcv asnd aclose v h a ha
    simp only [allows, n, if_false] at h
    by_cases hz : asnd = .zero
    · simp only [hz, if_true, bind, Except.bind] at h
      cases h1 : requireHolding cx snd asset with
      | error e => simp [h1] at h
      | ok u1 =>
        simp only [h1] at h
        cases h2 : requireHolding cx rcv asset with
        | error e => simp [h2] at h
        | ok u2 =>
          simp only [h2] at h
          cases h3 : requireHolding cx .zero asset with
          | error e => simp [h3] at h
          | ok u3 =>
            simp only [h3] at h
            rcases ha with rfl | rfl | rfl | ⟨_, rfl⟩
            · exact (requireHolding_ok cx _ asset).1 h2
            · exact Or.inr (Or.inl hz)
            · exact (requireHolding_ok cx _ asset).1 h
            · exact (requireHolding_ok cx _ asset).1 h1
    · simp only [hz, if_false, bind, Except.bind, pure, Except.pure] at h
      cases h2 : requireHolding cx rcv asset with
      | error e => simp [h2] at h
      | ok u2 =>
        simp only [h2] at h
        cases h3 : requireHolding cx asnd asset with
        | error e => simp [h3] at h
        | ok u3 =>
          simp only [h3] at h
          rcases ha with rfl | rfl | rfl | ⟨hz', _⟩
          · exact (requireHolding_ok cx _ asset).1 h2
          · exact (requireHolding_ok cx _ asset).1 h3
          · exact (requireHolding_ok cx _ asset).1 h
          · exact absurd hz' hz
  · intro snd asset acct v h
    simp only [allows, n, if_false] at h
    exact (requireHolding_ok cx acct asset).1 h

/-! ## 7. boxes -/

/-- box keys a transaction's references name at computeAvailability time, declaratively: index 0 names a box of the
app the REFERENCING transaction calls (never another app's), index i > 0 names a box of ForeignApps[i-1] -/
theorem foreign_box_named (f : Appl) (k : BoxKey) :
    k ∈ foreignBoxKeys f ↔ ∃ br ∈ f.boxes,
      (br.1 = 0 ∧ f.appId ≠ 0 ∧ k = (f.appId, br.2))
      ∨ (br.1 > 0 ∧ ∃ app, f.apps[br.1 - 1]? = some app ∧
          ((app ≠ 0 ∧ k = (app, br.2)) ∨ (app = 0 ∧ f.appId ≠ 0 ∧ k = (f.appId, br.2)))) := by
  unfold foreignBoxKeys
  simp only [List.mem_flatMap]
  constructor
  · rintro ⟨br, hb, hk⟩
    refine ⟨br, hb, ?_⟩
    by_cases h0 : br.1 > 0
    · simp only [h0, if_true] at hk
      right
      refine ⟨h0, ?_⟩
      by_cases hlen : br.1 > f.apps.length
      · simp [hlen] at hk
      · simp only [hlen, if_false] at hk
        cases hg : f.apps[br.1 - 1]? with
        | none => simp [hg] at hk
        | some app =>
          refine ⟨app, rfl, ?_⟩
          simp only [hg, shareBoxKey] at hk
          by_cases ha : app = 0
          · simp only [ha, if_true] at hk
            by_cases hc : f.appId = 0
            · simp [hc] at hk
            · simp only [hc, if_false, List.mem_singleton] at hk
              exact Or.inr ⟨ha, hc, hk⟩
          · simp only [ha, if_false, List.mem_singleton] at hk
            exact Or.inl ⟨ha, hk⟩
    · have hz : br.1 = 0 := by omega
      simp only [h0, if_false, shareBoxKey, if_true] at hk
      left
      by_cases hc : f.appId = 0
      · simp [hc] at hk
      · simp only [hc, if_false, List.mem_singleton] at hk
        exact ⟨hz, hc, hk⟩
  · rintro ⟨br, hb, h⟩
    refine ⟨br, hb, ?_⟩
    rcases h with ⟨hz, hc, rfl⟩ | ⟨h0, app, hg, h⟩
    · have : ¬ br.1 > 0 := by omega
      simp [this, shareBoxKey, hc]
    · have hlen : ¬ br.1 > f.apps.length := by
        intro hl
        have : f.apps[br.1 - 1]? = none := List.getElem?_eq_none (by omega)
        rw [this] at hg; cases hg
      simp only [h0, if_true, hlen, if_false, hg]
      rcases h with ⟨ha, rfl⟩ | ⟨ha, hc, rfl⟩
      · simp [shareBoxKey, ha]
      · simp [shareBoxKey, ha, hc]

/-- **A box access gets past the availability gate only if the box was made available**: its key is in the group's
box map (for every group: exactly the keys some transaction's references name, plus the keys entered by EvalContract
for a creation's index-0 references and by earlier unnamed accesses), or the box belongs to an app created in this
group and a spare (empty) box reference is still unused, or — simulation only — the policy grants it. A ClearState
program never reaches a box. -/
theorem box_access_only_if_available (w : World) (cx : Ctx) (k : BoxKey) (op : BoxOp) (sz : Nat)
    (hn : (availableAppBox w cx k op sz).2 ≠ .deny .nobox) (hc : (availableAppBox w cx k op sz).2 ≠ .deny .clearbox) :
    cx.f.oc ≠ 3 ∧ (k ∈ boxKeys cx.res.boxes
      ∨ (k.1 ∈ cx.res.createdApps ∧ cx.res.unnamedAccess > 0)
      ∨ ∃ p, cx.policy = some p ∧ k ∈ p.boxes) :=
  availableAppBox_named hn hc

/-- the group's box map right after computeAvailability, for EVERY group -/
theorem box_map_is_the_named (g : List Txn) (k : BoxKey) :
    k ∈ boxKeys (computeAvailability g).boxes ↔ ∃ tx ∈ g, k ∈ (contrib tx).boxes :=
  shared_boxes_iff g k

/-! ## non-vacuity: concrete instances -/

def u (n : Nat) : Addr := .user n

instance {α : Type} [DecidableEq α] : DecidableEq (Except Deny α) := fun a b =>
  match a, b with
  | .ok x, .ok y => if h : x = y then isTrue (by rw [h]) else isFalse (fun e => h (by cases e; rfl))
  | .error x, .error y => if h : x = y then isTrue (by rw [h]) else isFalse (fun e => h (by cases e; rfl))
  | .ok _, .error _ => isFalse (fun e => by cases e)
  | .error _, .ok _ => isFalse (fun e => by cases e)

/-- tx0 names account u2, tx1 names asset 300; tx1 runs a version-9 program -/
def exSplit : Env :=
  { group := [.appl (u 1) { appId := 500, accounts := [u 2] }, .appl (u 3) { appId := 501, assets := [300] }]
    createdAsas := [], createdApps := [], version := 9, appId := 501, snd := u 3, f := { appId := 501, assets := [300] } }

-- both components are available to tx1 …
example : availableAccount exSplit.cx (u 2) = true ∧ availableAsset exSplit.cx 300 = true := by decide
-- … the holding is not (holding_not_from_separate_txns applies: no transaction declares the pair)
example : holdingReference exSplit.cx (.addr (u 2)) 300 = .error .nohold := by decide
example : ∀ tx ∈ exSplit.group, ¬ DeclaresHolding tx (u 2) 300 := by
  intro tx ht
  simp only [exSplit, List.mem_cons, List.mem_nil_iff, or_false] at ht
  rcases ht with rfl | rfl <;> simp [DeclaresHolding, ForeignAccount, u, appAddr]
-- the sender's own holding of its own foreign asset is (available_access_ok is not vacuous)
example : resolve exSplit.cx (.holding (.addr (u 3)) 300) = .ok (.holding (u 3) 300) := by decide
-- the same program at version 8 does not even see u2 (presharing_local)
example : accountReference { exSplit.cx with version := 8 } (.addr (u 2)) = .error .noacct := by decide
-- an inner axfer to u2 of asset 300 is refused to the version-9 caller (inner_allows is not vacuous) …
example : allows exSplit.cx (.axfer (appAddr 501) 300 (u 2) .zero .zero) 0 = .error .innerNohold := by decide
-- … and one to the sender passes
example : allows exSplit.cx (.axfer (u 3) 300 (u 3) .zero .zero) 0 = .ok () := by decide
-- EnvLe: adding asset 300 to tx0's ForeignAssets makes the pair available (avail_monotone's hypothesis is satisfiable)
def exJoined : Env :=
  { exSplit with group := [.appl (u 1) { appId := 500, accounts := [u 2], assets := [300] }, .appl (u 3) { appId := 501, assets := [300] }] }
example : EnvLe exSplit exJoined :=
  { version := rfl, appId := rfl, snd := rfl, policy := rfl
    group := by
      intro tx ht
      simp only [exSplit, List.mem_cons, List.mem_nil_iff, or_false] at ht
      rcases ht with rfl | rfl
      · exact ⟨_, List.mem_cons_self, by simp [TxnLe]⟩
      · exact ⟨_, List.mem_cons_of_mem _ List.mem_cons_self, by simp [TxnLe]⟩
    asas := fun _ h => h, apps := fun _ h => h, accounts := fun _ h => h, assets := fun _ h => h
    fapps := fun _ h => h, access := fun _ h => h }
example : holdingReference exJoined.cx (.addr (u 2)) 300 = .ok (u 2, 300) := by decide
-- a box named with index 0 by a call of app 500 is a box of app 500 only
example : foreignBoxKeys { appId := 500, apps := [501], boxes := [(0, "b"), (1, "c")] } = [(500, "b"), (501, "c")] := by decide

end AlgoVerif.Props.C35
