import AlgoVerif.Model.Resources
namespace AlgoVerif.Props.C35
open AlgoVerif.Model.Resources

theorem stub_placeholder : sharedResourcesVersion = 9 := rfl

end AlgoVerif.Props.C35
