import AlgoVerif.Lemmas.Upgrade
import AlgoVerif.Gen.UpgradeParams
/-!
# C26 — Protocol upgrades switch only when approved, at the announced round

Theorems about `Model.Upgrade` (the line-by-line model of `UpgradeState.applyUpgradeVote` and of the upgrade part
of `BlockHeader.PreCheck`).  All history theorems quantify over **every** start state without a pending
proposal, every start round, every configuration table and every finite sequence of votes (valid or erring),
under the single arithmetic hypothesis that rounds stay below the `uint64` wrap (`NoWrap`).

A history is `run cfg s0 r0 votes`; its `trace` lists the accepted blocks newest first.  `AllSteps P trace`
says `P e earlier` for every accepted block `e` together with the blocks accepted before it.
-/
namespace Props.C26
open AlgoVerif.Model.Upgrade AlgoVerif.Spec.Upgrade AlgoVerif.Lemmas.Upgrade

/-! ## The property theorems -/

/-- **switch_justified** (full).  In every history, whenever an accepted block changes the current protocol, the
history up to that block contains a proposal of exactly that protocol, made under the old protocol at some round
`p ≤ r`, with `r = p + voteRounds + delay'` and at least `threshold` approvals recorded in `[p, p+voteRounds)`. -/
theorem switch_justified (cfg : Config) (s0 : State) (r0 : Nat) (votes : List Vote)
    (hq : Quiet s0) (hnw : NoWrap cfg (r0 + votes.length)) :
    AllSteps (SwitchJustified cfg) (run cfg s0 r0 votes).trace :=
  AllSteps.imp (fun _ _ h => h.1) _ (run_good cfg s0 r0 votes hq hnw)

/-- **switch_strictly_after_proposal** (full).  The justifying proposal is strictly earlier (`p < r`) as soon as vote
windows are non-empty (true of every consensus version of the tree: `real_params_sane`). -/
theorem switch_strictly_after_proposal (cfg : Config) (s0 : State) (r0 : Nat) (votes : List Vote)
    (hq : Quiet s0) (hnw : NoWrap cfg (r0 + votes.length))
    (hvr : ∀ n p, cfg n = some p → 1 ≤ p.voteRounds) :
    AllSteps (fun e earlier => e.post.cur ≠ e.pre.cur →
        ∃ pe ∈ e :: earlier, pe.v.propose = e.post.cur ∧ pe.r < e.r) (run cfg s0 r0 votes).trace := by
  refine AllSteps.imp (fun e earlier h hne => ?_) _ (switch_justified cfg s0 r0 votes hq hnw)
  obtain ⟨pe, hpe, p, _, hn, _, hp, _, hr, _⟩ := h hne
  have := hvr _ p hp
  exact ⟨pe, hpe, hn, by omega⟩

/-- **one_pending** (full).  In every history a proposal is accepted only when none is pending, and at that point
every earlier proposal is over (deadline passed; if approved, switched). -/
theorem one_pending (cfg : Config) (s0 : State) (r0 : Nat) (votes : List Vote)
    (hq : Quiet s0) (hnw : NoWrap cfg (r0 + votes.length)) :
    AllSteps (OnePending cfg) (run cfg s0 r0 votes).trace :=
  AllSteps.imp (fun _ _ h => h.2.1) _ (run_good cfg s0 r0 votes hq hnw)

/-- the state keeps a single proposal slot and it is empty unless a proposal is live: stated on any single step -/
theorem propose_needs_empty_slot (cfg : Config) (s : State) (r : Nat) (v : Vote) (s' : State)
    (h : applyUpgradeVote cfg s r v = .ok s') (hp : v.propose ≠ "") : s.next = "" := by
  obtain ⟨p, s1, s2, _, h1, _, _⟩ := apply_ok h
  rcases stagePropose_ok h1 with ⟨h0, _⟩ | ⟨_, hn, _⟩
  · exact absurd h0 hp
  · exact hn

/-- **no_switch_otherwise** (full).  In every history, a block at which no proposal of the history both announces
this round and reached its threshold leaves the current protocol unchanged. -/
theorem no_switch_otherwise (cfg : Config) (s0 : State) (r0 : Nat) (votes : List Vote)
    (hq : Quiet s0) (hnw : NoWrap cfg (r0 + votes.length)) :
    AllSteps (fun e earlier => ¬ Justifies cfg (e :: earlier) e.pre.cur e.post.cur e.r → e.post.cur = e.pre.cur)
      (run cfg s0 r0 votes).trace :=
  AllSteps.imp (fun _ _ h hnj => Classical.byContradiction fun hne => hnj (h.1 hne)) _
    (run_good cfg s0 r0 votes hq hnw)

/-- **deadline_rule** (full; the converse direction).  In every history a proposal short of its threshold is
dropped at its deadline block without a switch, and a proposal that reached it does switch at its announced block. -/
theorem deadline_rule (cfg : Config) (s0 : State) (r0 : Nat) (votes : List Vote)
    (hq : Quiet s0) (hnw : NoWrap cfg (r0 + votes.length)) :
    AllSteps (DeadlineRule cfg) (run cfg s0 r0 votes).trace :=
  AllSteps.imp (fun _ _ h => h.2.2) _ (run_good cfg s0 r0 votes hq hnw)

/-- erring votes never enter the history: the trace of a run is the trace of its accepted votes only, and each
recorded step is an `applyUpgradeVote` success at the next round -/
theorem trace_steps_are_applications (cfg : Config) (votes : List Vote) :
    ∀ (t : Tip), AllSteps (fun e _ => applyUpgradeVote cfg e.pre e.r e.v = .ok e.post) t.trace →
      AllSteps (fun e _ => applyUpgradeVote cfg e.pre e.r e.v = .ok e.post) (votes.foldl (Tip.feed cfg) t).trace := by
  induction votes with
  | nil => intro t h; exact h
  | cons v vs ih =>
    intro t h
    simp only [List.foldl_cons]
    apply ih
    unfold Tip.feed
    cases hap : applyUpgradeVote cfg t.s (u64 (t.r + 1)) v with
    | error _ => exact h
    | ok s' => exact ⟨hap, h⟩

/-! ## PreCheck -/

/-- **precheck_enforces** (full for the modelled part of PreCheck).  A header accepted by `PreCheck` has the next
round, a vote that `applyUpgradeVote` accepts in the previous header's upgrade state, carries exactly the resulting
upgrade state, and names a supported protocol. -/
theorem precheck_enforces (cfg : Config) (bh prev : Hdr) (branchOk restOk : Bool)
    (h : preCheck cfg bh prev branchOk restOk = .ok ()) :
    bh.round = u64 (prev.round + 1) ∧
    applyUpgradeVote cfg prev.us (u64 (prev.round + 1)) bh.vote = .ok bh.us ∧
    (cfg bh.us.cur).isSome = true ∧ branchOk = true ∧ restOk = true := by
  unfold preCheck at h
  split at h
  · cases h
  · rename_i p hp
    simp only [] at h
    split at h
    · cases h
    · rename_i hround
      split at h
      · cases h
      · rename_i hb
        split at h
        · cases h
        · rename_i ns hap
          split at h
          · cases h
          · rename_i hns
            split at h
            · cases h
            · rename_i hrest
              refine ⟨?_, ?_, by rw [hp]; rfl, by simpa using hb, by simpa using hrest⟩
              · exact (Classical.not_not.mp hround).symm
              · rw [hap]; congr 1; exact Classical.not_not.mp hns

/-- converse: `PreCheck` rejects nothing else on account of the upgrade state -/
theorem precheck_accepts (cfg : Config) (bh prev : Hdr)
    (hr : bh.round = u64 (prev.round + 1))
    (hap : applyUpgradeVote cfg prev.us (u64 (prev.round + 1)) bh.vote = .ok bh.us)
    (hsup : (cfg bh.us.cur).isSome = true) :
    preCheck cfg bh prev true true = .ok () := by
  unfold preCheck
  cases hc : cfg bh.us.cur with
  | none => rw [hc] at hsup; cases hsup
  | some p =>
    simp only [hr, hap, ne_eq, not_true_eq_false, if_false, Bool.not_true, Bool.false_eq_true]

/-- a header claiming any other upgrade state than the state machine's is rejected -/
theorem precheck_rejects_wrong_state (cfg : Config) (bh prev : Hdr) (b1 b2 : Bool) (ns : State)
    (hap : applyUpgradeVote cfg prev.us (u64 (prev.round + 1)) bh.vote = .ok ns) (hne : bh.us ≠ ns) :
    preCheck cfg bh prev b1 b2 ≠ .ok () := by
  intro h
  have := (precheck_enforces cfg bh prev b1 b2 h).2.1
  rw [hap] at this
  cases this
  exact hne rfl

/-- a header whose vote the state machine refuses is rejected -/
theorem precheck_rejects_bad_vote (cfg : Config) (bh prev : Hdr) (b1 b2 : Bool) (err : Err)
    (hap : applyUpgradeVote cfg prev.us (u64 (prev.round + 1)) bh.vote = .error err) :
    preCheck cfg bh prev b1 b2 ≠ .ok () := by
  intro h
  have := (precheck_enforces cfg bh prev b1 b2 h).2.1
  rw [hap] at this
  cases this

/-- **chain_follows_votes** (full for the modelled part).  Along any chain of headers accepted by `PreCheck`, the upgrade
states carried by the headers are exactly the states of the vote history `run` on the headers' votes: no vote is
dropped, so every history theorem above speaks about the header chain. -/
theorem chain_follows_votes (cfg : Config) (hs : List Hdr) :
    ∀ (g : Hdr) (tr : List Step), ChainOk cfg g hs →
      ((hs.map (·.vote)).foldl (Tip.feed cfg) ⟨tr, g.us, g.round⟩).s = (hs.getLast?.getD g).us ∧
      ((hs.map (·.vote)).foldl (Tip.feed cfg) ⟨tr, g.us, g.round⟩).r = (hs.getLast?.getD g).round ∧
      ((hs.map (·.vote)).foldl (Tip.feed cfg) ⟨tr, g.us, g.round⟩).trace.length = tr.length + hs.length := by
  induction hs with
  | nil => intro g tr _; exact ⟨rfl, rfl, rfl⟩
  | cons bh rest ih =>
    intro g tr hc
    obtain ⟨⟨b1, b2, hpre⟩, hrest⟩ := hc
    obtain ⟨hr, hap, _, _, _⟩ := precheck_enforces cfg bh g b1 b2 hpre
    have hfeed : Tip.feed cfg ⟨tr, g.us, g.round⟩ bh.vote =
        ⟨⟨u64 (g.round + 1), bh.vote, g.us, bh.us⟩ :: tr, bh.us, bh.round⟩ := by
      unfold Tip.feed
      simp only [hap, hr]
    simp only [List.map_cons, List.foldl_cons, hfeed]
    obtain ⟨h1, h2, h3⟩ := ih bh (⟨u64 (g.round + 1), bh.vote, g.us, bh.us⟩ :: tr) hrest
    refine ⟨?_, ?_, ?_⟩
    · rw [h1]; cases rest <;> simp [List.getLast?]
    · rw [h2]; cases rest <;> simp [List.getLast?]
    · rw [h3]; simp only [List.length_cons]; omega

/-! ## Parameter-level facts (tie F: the table is regenerated from `config.Consensus` of the current tree) -/

/-- **real_params_sane** (full over the dumped table): every consensus version of the tree has a non-empty vote window,
a reachable non-zero threshold, a consistent delay range and only legal approved upgrades. -/
theorem real_params_sane : AlgoVerif.Gen.UpgradeParams.table.all saneEntry = true := by decide

/-- the table is not empty (the extraction did not silently produce nothing) -/
theorem real_params_nonempty : 10 ≤ AlgoVerif.Gen.UpgradeParams.table.length := by decide

/-- **approved_upgrade_vote_ok** (full).  Under sane parameters, the vote `ProcessUpgradeParams` builds when nothing is
pending — propose an approved upgrade `(k, d)` and approve it — is accepted by `applyUpgradeVote`. -/
theorem approved_upgrade_vote_ok (cfg : Config) (s : State) (r : Nat) (p : Params) (k : String) (d : Nat)
    (hp : cfg s.cur = some p) (hq : s.next = "") (hk : k ≠ "")
    (hlen : (k.utf8ByteSize : Int) ≤ p.maxVerLen) (hmin : p.minWait ≤ d) (hmax : d ≤ p.maxWait)
    (hvr : 1 ≤ p.voteRounds) (hnw : NoWrap cfg r) :
    ∃ s', applyUpgradeVote cfg s r ⟨k, d, true⟩ = .ok s' := by
  have hW := hnw.2 _ p hp
  have h1 : stagePropose p s r ⟨k, d, true⟩ = .ok { s with next := k, approvals := 0, voteBefore := u64 (r + p.voteRounds), switchOn := u64 (r + p.voteRounds + effDelay p d) } := by
    unfold stagePropose
    simp only []
    rw [if_pos hk, if_neg (by simpa using hq), if_neg (by omega), if_neg (by omega)]
  have hvb : u64 (r + p.voteRounds) = r + p.voteRounds := u64_of_lt (by omega)
  have h2 : ∃ s2, stageApprove { s with next := k, approvals := 0, voteBefore := u64 (r + p.voteRounds), switchOn := u64 (r + p.voteRounds + effDelay p d) } r ⟨k, d, true⟩ = .ok s2 := by
    unfold stageApprove
    simp only [if_true]
    rw [if_neg hk, hvb, if_neg (by omega)]
    exact ⟨_, rfl⟩
  obtain ⟨s2, h2⟩ := h2
  exact ⟨_, apply_of_stages hp h1 h2⟩

/-- **proposer_vote_accepted** (full).  `ProcessUpgradeParams` never constructs an invalid vote when the current
protocol is supported, its window is non-empty, and the approved upgrade it picks is a legal proposal (all three are
facts of `real_params_sane` for the tree's versions) — in *any* upgrade state. -/
theorem proposer_vote_accepted (cfg : Config) (approvedOf : String → List (String × Nat))
    (pick : Option (String × Nat)) (prev : Hdr) (p : Params)
    (hp : cfg prev.us.cur = some p) (hnw : NoWrap cfg (prev.round + 1)) (hvr : 1 ≤ p.voteRounds)
    (hkeys : ∀ x ∈ approvedOf prev.us.cur, x.1 ≠ "")
    (hpick : ∀ k d, pick = some (k, d) → k ≠ "" ∧ (k.utf8ByteSize : Int) ≤ p.maxVerLen ∧ p.minWait ≤ d ∧ d ≤ p.maxWait) :
    ∃ v s', processUpgradeParams cfg approvedOf pick prev = .ok (v, s') := by
  have hr : u64 (prev.round + 1) = prev.round + 1 := u64_of_lt hnw.1
  suffices h : ∃ s', applyUpgradeVote cfg prev.us (prev.round + 1)
      (proposerVote (approvedOf prev.us.cur) pick prev.us (prev.round + 1)) = .ok s' by
    obtain ⟨s', hs'⟩ := h
    refine ⟨proposerVote (approvedOf prev.us.cur) pick prev.us (prev.round + 1), s', ?_⟩
    unfold processUpgradeParams
    simp only [hp, hr, hs']
  -- an empty vote, or a bare approval of a live proposal, is always accepted
  have hempty : ∀ a : Bool, (a = true → prev.us.next ≠ "" ∧ prev.round + 1 < prev.us.voteBefore) →
      ∃ s', applyUpgradeVote cfg prev.us (prev.round + 1) ⟨"", 0, a⟩ = .ok s' := by
    intro a ha
    have h1 : stagePropose p prev.us (prev.round + 1) ⟨"", 0, a⟩ = .ok prev.us := by
      unfold stagePropose; simp
    cases a with
    | false =>
      have h2 : stageApprove prev.us (prev.round + 1) ⟨"", 0, false⟩ = .ok prev.us := by
        unfold stageApprove; simp
      exact ⟨_, apply_of_stages hp h1 h2⟩
    | true =>
      obtain ⟨hn, hlt⟩ := ha rfl
      have h2 : stageApprove prev.us (prev.round + 1) ⟨"", 0, true⟩ =
          .ok { prev.us with approvals := u64 (prev.us.approvals + 1) } := by
        unfold stageApprove
        simp only [if_true]
        rw [if_neg hn, if_neg (by omega)]
      exact ⟨_, apply_of_stages hp h1 h2⟩
  unfold proposerVote
  by_cases hn : prev.us.next = ""
  · -- nothing pending: propose the picked upgrade (if any)
    have hany : (approvedOf prev.us.cur).any (fun x => x.1 == "") = false := by
      cases h : (approvedOf prev.us.cur).any (fun x => x.1 == "") with
      | false => rfl
      | true =>
        obtain ⟨x, hx, hxe⟩ := List.any_eq_true.mp h
        exact absurd (by simpa using hxe) (hkeys x hx)
    simp only [hn, if_true]
    cases pick with
    | none =>
      simp only []
      split
      · rw [hany]; exact hempty false (fun h => by cases h)
      · exact hempty false (fun h => by cases h)
    | some kd =>
      obtain ⟨k, d⟩ := kd
      obtain ⟨hk, hlen, hmin, hmax⟩ := hpick k d rfl
      simp only []
      split
      · -- (only from an inconsistent state) the approval flag is overwritten by `false`: a bare proposal
        rw [hany]
        have h1 : stagePropose p prev.us (prev.round + 1) ⟨k, d, false⟩ = .ok { prev.us with next := k, approvals := 0, voteBefore := u64 (prev.round + 1 + p.voteRounds), switchOn := u64 (prev.round + 1 + p.voteRounds + effDelay p d) } := by
          unfold stagePropose
          simp only []
          rw [if_pos hk, if_neg (by simpa using hn), if_neg (by omega), if_neg (by omega)]
        have h2 : stageApprove { prev.us with next := k, approvals := 0, voteBefore := u64 (prev.round + 1 + p.voteRounds), switchOn := u64 (prev.round + 1 + p.voteRounds + effDelay p d) } (prev.round + 1) ⟨k, d, false⟩ = .ok { prev.us with next := k, approvals := 0, voteBefore := u64 (prev.round + 1 + p.voteRounds), switchOn := u64 (prev.round + 1 + p.voteRounds + effDelay p d) } := by
          unfold stageApprove; simp only [Bool.false_eq_true, if_false]
        exact ⟨_, apply_of_stages hp h1 h2⟩
      · exact approved_upgrade_vote_ok cfg prev.us (prev.round + 1) p k d hp hn hk hlen hmin hmax hvr hnw
  · -- a proposal is pending: approve it iff it is an approved upgrade and its window is open
    simp only [hn, if_false]
    split
    · rename_i hlt
      exact hempty _ (fun _ => ⟨hn, hlt⟩)
    · exact hempty false (fun h => by cases h)

/-! ## Non-vacuity: concrete instances meeting the hypotheses -/

deriving instance DecidableEq for Except

/-- pA: window 2, threshold 1, default wait 1, explicit waits 0..2; pB: window 1 -/
def cfgEx : Config := fun n =>
  if n = "pA" then some ⟨2, 1, 1, 0, 2, 4⟩ else if n = "pB" then some ⟨1, 1, 1, 0, 0, 4⟩ else none
def s0Ex : State := ⟨"pA", "", 0, 0, 0⟩
/-- propose pB with the proposer's own approval at round 1; window [1,3); switch at 1+2+1 = 4 -/
def votesEx : List Vote := [⟨"pB", 0, true⟩, ⟨"", 0, true⟩, ⟨"", 0, true⟩, ⟨"", 0, false⟩, ⟨"", 0, false⟩]

example : Quiet s0Ex := ⟨rfl, rfl, rfl, rfl⟩
example : NoWrap cfgEx (0 + votesEx.length) := by
  refine ⟨by decide, fun n p h => ?_⟩
  unfold cfgEx at h
  split at h
  · cases h; decide
  · split at h
    · cases h; decide
    · cases h
-- hypothesis `hvr` of switch_strictly_after_proposal / proposer_vote_accepted: both example versions have a non-empty window
example : ∀ n p, cfgEx n = some p → 1 ≤ p.voteRounds := by
  intro n p h
  unfold cfgEx at h
  split at h
  · cases h; decide
  · split at h
    · cases h; decide
    · cases h
-- the third vote (an approval at the deadline round 3) errs and is skipped; the switch happens at round 4
example : (run cfgEx s0Ex 0 votesEx).s.cur = "pB" ∧ (run cfgEx s0Ex 0 votesEx).trace.length = 4 ∧
    (run cfgEx s0Ex 0 votesEx).r = 4 := by decide
-- the switching step is justified by the proposal of round 1 (so `SwitchJustified`'s premise is met in a history)
example : ((run cfgEx s0Ex 0 votesEx).trace.map fun e => (e.r, e.pre.cur, e.post.cur)) =
    [(4, "pA", "pB"), (3, "pA", "pA"), (2, "pA", "pA"), (1, "pA", "pA")] := by decide
-- a failing proposal: no approvals, cleared at the deadline, protocol unchanged, a second proposal is then accepted
example : (run cfgEx s0Ex 0 [⟨"pB", 0, false⟩, ⟨"", 0, false⟩, ⟨"", 0, false⟩, ⟨"pB", 1, true⟩]).s =
    ⟨"pA", "pB", 1, 6, 7⟩ := by decide
-- PreCheck accepts the faithful header and nothing else
example : preCheck cfgEx ⟨1, ⟨"pB", 0, true⟩, ⟨"pA", "pB", 1, 3, 4⟩⟩ ⟨0, default, s0Ex⟩ true true = .ok () := by decide
example : preCheck cfgEx ⟨1, ⟨"pB", 0, true⟩, ⟨"pB", "", 0, 0, 0⟩⟩ ⟨0, default, s0Ex⟩ true true = .error .state := by decide
example : ChainOk cfgEx ⟨0, default, s0Ex⟩ [⟨1, ⟨"pB", 0, true⟩, ⟨"pA", "pB", 1, 3, 4⟩⟩, ⟨2, ⟨"", 0, true⟩, ⟨"pA", "pB", 2, 3, 4⟩⟩] :=
  ⟨⟨true, true, by decide⟩, ⟨true, true, by decide⟩, trivial⟩
-- proposer_vote_accepted: pA approves pB (delay 0): the proposer's vote at round 1 is "propose pB, approve"
example : processUpgradeParams cfgEx (fun n => if n = "pA" then [("pB", 0)] else []) (some ("pB", 0)) ⟨0, default, s0Ex⟩ =
    .ok (⟨"pB", 0, true⟩, ⟨"pA", "pB", 1, 3, 4⟩) := by decide
-- approved_upgrade_vote_ok's hypotheses are met by pA proposing pB with delay 0
example : ∃ s', applyUpgradeVote cfgEx s0Ex 1 ⟨"pB", 0, true⟩ = .ok s' := ⟨⟨"pA", "pB", 1, 3, 4⟩, by decide⟩

end Props.C26
