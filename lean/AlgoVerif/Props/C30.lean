import AlgoVerif.Lemmas.Catchup
/-!
# C30 — Catchup only appends authenticated blocks, in order

Theorems about `Model.Catchup`, the acceptor of the event traces of `catchup/service.go: pipelinedFetch / fetchAndWrite`.
Every theorem quantifies over **every** trace the acceptor accepts: every interleaving of the tasks of the pipeline
window, every sequence of peer answers (`fetched r p` carries an arbitrary response `p`: any block / certificate ids, any
claimed rounds, any ground truth), every number of retries, every interference by the agreement service (`ext`), every
start round, every lookback / window, and every `CatchupBlockValidateMode` through the two flags `cfg.vp` / `cfg.vc`
that tie F extracts from the current tree (`flagsOf`, `Gen.CatchupMode`).

`run cfg (init k) es = .ok s` : the trace `es` is accepted from a ledger at round `k`.
`appended es` : the rounds appended to the ledger (by `wrote`, or by the agreement service), in trace order.
`attempt r es` : the events of the task of round `r` since its latest `fetch r` / `retry r` (`attempt_restart`,
`attempt_filter` characterise it).
-/
namespace Props.C30
open AlgoVerif.Model.Catchup AlgoVerif.Lemmas.Catchup

/-! ## Order -/

/-- **writes_ordered** (full for the model).  In every accepted trace the rounds appended to the ledger are exactly
`k+1, k+2, …, s.last` — no gap, no repetition, no reordering — whatever the peers answer and however the tasks of the
window interleave. -/
theorem writes_ordered (cfg : Cfg) (k : Nat) (es : List Event) (s : St) (h : run cfg (init k) es = .ok s) :
    k ≤ s.last ∧ appended es = List.range' (k + 1) (s.last - k) := by
  have wf : WF (init k) := by simp [WF, init]
  obtain ⟨_, hle, happ⟩ := run_appended h wf
  exact ⟨hle, happ⟩

/-- the same for an arbitrary well-formed start state (e.g. a later `pipelinedFetch` call) -/
theorem writes_ordered_from (cfg : Cfg) (s0 s : St) (es : List Event) (wf : WF s0) (h : run cfg s0 es = .ok s) :
    s0.last ≤ s.last ∧ appended es = List.range' (s0.last + 1) (s.last - s0.last) := by
  obtain ⟨_, hle, happ⟩ := run_appended h wf
  exact ⟨hle, happ⟩

/-- a single write: when `wrote r b c` is accepted the ledger is at `r - 1` and the waiters of `r - 1` were released
(this is the role of `prevFetchCompleteChan`) -/
theorem wrote_is_next (cfg : Cfg) (k : Nat) (pre post : List Event) (r : Nat) (b c : Id) (s : St)
    (h : run cfg (init k) (pre ++ Event.wrote r b c :: post) = .ok s) :
    ∃ s1, run cfg (init k) pre = .ok s1 ∧ r = s1.last + 1 ∧ s1.notified = s1.last := by
  obtain ⟨s1, s1', h1, h2, _⟩ := run_snoc_ok h
  have wf : WF (init k) := by simp [WF, init]
  obtain ⟨wf1, _, _⟩ := run_appended h1 wf
  refine ⟨s1, h1, ?_⟩
  simp only [step, stepWrote] at h2
  split at h2
  · simp at h2
  · rename_i hw
    obtain ⟨p, _, _, _, hr⟩ := writeReady_ok hw
    split at h2
    · simp at h2
    · obtain ⟨w1, w2⟩ := wf1
      omega

/-! ## Authentication -/

/-- a write attempt: `AddBlock` was called with `(b, c)` for round `r` (the ledger appended it, or already had `r`) -/
def IsWrite (e : Event) (r : Nat) (b c : Id) : Prop := e = Event.wrote r b c ∨ e = Event.dup r b c

/-- **writes_authenticated** (full for the model; parametric in the validation mode through `cfg.vp`, `cfg.vc`).
Whenever an accepted trace contains a write attempt of `(b, c)` for round `r`, the events of the task of round `r`
since its latest `fetch`/`retry` are EXACTLY: one answer `fetched r p` carrying that very pair for that very round;
then — iff the mode verifies paysets — `contents r b ok`; then — iff the mode verifies certificates — `auth r b c ok`.
Nothing else: in particular no verdict of an earlier attempt is reused, no second answer was received, and no check
failed in this attempt.  The verdicts are backed by the ground truth carried by the answer (`p.cm`, `p.au`). -/
theorem writes_authenticated (cfg : Cfg) (k : Nat) (pre post : List Event) (e : Event) (r : Nat) (b c : Id) (s : St)
    (he : IsWrite e r b c) (h : run cfg (init k) (pre ++ e :: post) = .ok s) :
    ∃ p : Resp, p.b = b ∧ p.c = c ∧ p.brnd = r ∧ p.crnd = r ∧
      attempt r pre = expected r p cfg.vp cfg.vc ∧
      (cfg.vp = true → p.cm = true) ∧ (cfg.vc = true → p.au = true) := by
  obtain ⟨s1, s1', h1, h2, _⟩ := run_snoc_ok h
  have hinv : TaskInv cfg pre s1.task := by simpa using run_inv h1 (init_inv cfg k)
  have hw : writeReady cfg s1 r b c = .ok () := by
    rcases he with rfl | rfl
    · simp only [step, stepWrote] at h2
      split at h2
      · simp at h2
      · assumption
    · simp only [step, stepDup] at h2
      split at h2
      · simp at h2
      · assumption
  obtain ⟨p, ht, hb, hc, _⟩ := writeReady_ok hw
  have hp := hinv r
  rw [ht] at hp
  simp only [taskOk] at hp
  exact ⟨p, hb, hc, hp.2.1, hp.2.2.1, hp.1, fun hv => (hp.2.2.2.1 hv).1, fun hv => (hp.2.2.2.2 hv).1⟩

/-- the shape of `attempt` that makes the previous theorem readable: everything up to the latest `fetch r`/`retry r`
is forgotten … -/
theorem attempt_restart (r : Nat) (a b : List Event) (e : Event) (he : taskEvent r e = some true) :
    attempt r (a ++ e :: b) = attempt r b :=
  AlgoVerif.Lemmas.Catchup.attempt_restart r a b e he

/-- … and after it every event of that task is kept, in order. -/
theorem attempt_filter (r : Nat) (b : List Event) (h : ∀ x ∈ b, taskEvent r x ≠ some true) :
    attempt r b = b.filter (fun x => taskEvent r x == some false) :=
  AlgoVerif.Lemmas.Catchup.attempt_filter r b h

/-- **written_pair_checked** (corollary, the DESIGN's form).  Under a mode that verifies both (the default, see
`default_mode_verifies_both`) every write attempt of `(b, c)` for round `r` is preceded in the trace by an answer
carrying exactly `(b, c)` for round `r`, a positive contents verdict on `b` and a positive authentication verdict on
`(b, c)`; and the pair is good according to the ground truth. -/
theorem written_pair_checked (cfg : Cfg) (hvp : cfg.vp = true) (hvc : cfg.vc = true) (k : Nat) (pre post : List Event)
    (e : Event) (r : Nat) (b c : Id) (s : St) (he : IsWrite e r b c)
    (h : run cfg (init k) (pre ++ e :: post) = .ok s) :
    ∃ p : Resp, p.b = b ∧ p.c = c ∧ p.cm = true ∧ p.au = true ∧
      Event.fetched r p ∈ pre ∧ Event.contents r b true ∈ pre ∧ Event.auth r b c true ∈ pre := by
  obtain ⟨p, hb, hc, _, _, hatt, hcm, hau⟩ := writes_authenticated cfg k pre post e r b c s he h
  have hsub := attempt_subset r pre
  rw [hatt, hvp, hvc] at hsub
  subst hb hc
  refine ⟨p, rfl, rfl, hcm hvp, hau hvc, ?_, ?_, ?_⟩ <;> apply hsub <;> simp [expected]

/-- every answer in the trace tells the truth about itself w.r.t. the oracles `contentsMatch`, `authOk` -/
def Truthful (contentsMatch : Id → Bool) (authOk : Id → Id → Bool) (es : List Event) : Prop :=
  ∀ r p, Event.fetched r p ∈ es → p.cm = contentsMatch p.b ∧ p.au = authOk p.b p.c

/-- **written_pair_good** (the property text): with ground-truth oracles for "payset matches header" and "certificate
authenticates block", every pair written under a fully-verifying mode satisfies both. -/
theorem written_pair_good (contentsMatch : Id → Bool) (authOk : Id → Id → Bool)
    (cfg : Cfg) (hvp : cfg.vp = true) (hvc : cfg.vc = true) (k : Nat) (pre post : List Event)
    (e : Event) (r : Nat) (b c : Id) (s : St) (he : IsWrite e r b c)
    (h : run cfg (init k) (pre ++ e :: post) = .ok s) (ht : Truthful contentsMatch authOk pre) :
    contentsMatch b = true ∧ authOk b c = true := by
  obtain ⟨p, hb, hc, hcm, hau, hf, _, _⟩ := written_pair_checked cfg hvp hvc k pre post e r b c s he h
  obtain ⟨t1, t2⟩ := ht r p hf
  subst hb hc
  exact ⟨by rw [← t1]; exact hcm, by rw [← t2]; exact hau⟩

/-- partial modes: a mode that verifies only certificates still never writes an unauthenticated pair, and a mode that
verifies only paysets never writes a block whose payset does not match -/
theorem written_pair_good_per_mode (contentsMatch : Id → Bool) (authOk : Id → Id → Bool)
    (cfg : Cfg) (k : Nat) (pre post : List Event)
    (e : Event) (r : Nat) (b c : Id) (s : St) (he : IsWrite e r b c)
    (h : run cfg (init k) (pre ++ e :: post) = .ok s) (ht : Truthful contentsMatch authOk pre) :
    (cfg.vp = true → contentsMatch b = true) ∧ (cfg.vc = true → authOk b c = true) := by
  obtain ⟨p, hb, hc, _, _, hatt, hcm, hau⟩ := writes_authenticated cfg k pre post e r b c s he h
  have hf : Event.fetched r p ∈ pre := by
    apply attempt_subset r pre; rw [hatt]; simp [expected]
  obtain ⟨t1, t2⟩ := ht r p hf
  subst hb hc
  exact ⟨fun hv => by rw [← t1]; exact hcm hv, fun hv => by rw [← t2]; exact hau hv⟩

/-! ## The certificate path (`syncCert` / `fetchRound` → `EnsureBlock`) -/

/-- **cert_path_writes_trusted** (full for the model).  On the path where agreement already holds a verified
certificate `trusted` for round `r`, every accepted trace hands to `EnsureBlock` only (a) that very certificate — never
the certificate a peer sent, whatever round / proposal it claims — together with (b) a block that a peer answered for
round `r`, whose hash equals the digest in the trusted certificate and whose payset matches its header. -/
theorem cert_path_writes_trusted (r : Nat) (trusted : Id) (pre post : List CEvent) (b c : Id) (t : CTask)
    (h : crun r trusted .ready (pre ++ CEvent.ensure b c :: post) = .ok t) :
    c = trusted ∧ ∃ p : CertResp, CEvent.answer p ∈ pre ∧ p.b = b ∧ p.brnd = r ∧ p.hm = true ∧ p.cm = true := by
  rw [crun_append] at h
  cases h1 : crun r trusted .ready pre with
  | error x => rw [h1] at h; simp at h
  | ok t1 =>
    rw [h1] at h
    simp only [crun] at h
    cases h2 : cstep r trusted t1 (.ensure b c) with
    | error x => rw [h2] at h; simp at h
    | ok t2 =>
      have hinv : ctaskOk r pre t1 := by simpa using crun_inv (hist := []) h1 (by trivial)
      simp only [cstep] at h2
      split at h2
      · rename_i p
        split at h2; · simp at h2
        split at h2; · simp at h2
        split at h2; · simp at h2
        split at h2; · simp at h2
        rename_i h3 h4 h5 h6
        simp only [ctaskOk] at hinv
        refine ⟨by simpa using h6, p, hinv.1, by simpa using h5, hinv.2.1, by simpa using h3, by simpa using h4⟩
      · simp at h2

def crule (r : Nat) (trusted : Id) (es : List CEvent) : String :=
  match crun r trusted .ready es with
  | .ok _ => "ok"
  | .error x => x

/-- non-vacuity: a wrong block, then the right block with a forged certificate 999 that claims the same round; the
trusted certificate 205 is written — and writing the peer's one is rejected -/
example : crule 5 205 [.request, .answer ⟨125, 225, 5, 5, false, true⟩, .request, .err, .request,
    .answer ⟨105, 999, 5, 5, true, true⟩, .ensure 105 205] = "ok" := by decide
example : crule 5 205 [.request, .answer ⟨105, 999, 5, 5, true, true⟩, .ensure 105 999] = "ensure-untrusted-cert" := by decide
example : crule 5 205 [.request, .answer ⟨115, 205, 5, 5, true, false⟩, .ensure 115 205] = "ensure-unchecked-contents" := by decide

/-! ## Tie F: the validation modes of the current tree -/

/-- the default `CatchupBlockValidateMode` of the current tree enables both checks in `fetchAndWrite` -/
theorem default_mode_verifies_both : flagsOf Gen.CatchupMode.defaultMode = some (true, true) := by decide

/-- which bit disables which check: bit 1 (value 2) the payset check, bit 0 (value 1) the certificate check; bits 2, 3
do not touch either -/
theorem mode_bits : ∀ m, m < 16 → flagsOf m = some (decide (m / 2 % 2 = 0), decide (m % 2 = 0)) := by decide

/-- the theorems above instantiated at the default mode of the current tree -/
theorem default_mode_writes_good (contentsMatch : Id → Bool) (authOk : Id → Id → Bool) (lb par : Nat) (cfg : Cfg)
    (hcfg : cfgOfMode Gen.CatchupMode.defaultMode lb par = some cfg) (k : Nat) (pre post : List Event)
    (e : Event) (r : Nat) (b c : Id) (s : St) (he : IsWrite e r b c)
    (h : run cfg (init k) (pre ++ e :: post) = .ok s) (ht : Truthful contentsMatch authOk pre) :
    contentsMatch b = true ∧ authOk b c = true := by
  have hf := default_mode_verifies_both
  simp only [cfgOfMode, hf] at hcfg
  cases hcfg
  exact written_pair_good contentsMatch authOk _ rfl rfl k pre post e r b c s he h ht

/-! ## Non-vacuity: concrete accepted traces -/

def accepted (cfg : Cfg) (k : Nat) (es : List Event) : Bool :=
  match run cfg (init k) es with
  | .ok _ => true
  | .error _ => false

def rule (cfg : Cfg) (k : Nat) (es : List Event) : String :=
  match run cfg (init k) es with
  | .ok _ => "ok"
  | .error x => x

def cfgDefault : Cfg := { lb := 2, win := 4, vp := true, vc := true }

/-- good block 105 / cert 205 of round 5, tampered payset 115 (same header, cert still authenticates), fork 125 -/
def g5 : Resp := ⟨105, 205, 5, 5, true, true⟩
def t5 : Resp := ⟨115, 205, 5, 5, false, true⟩
def f5 : Resp := ⟨125, 225, 5, 5, true, false⟩
def g6 : Resp := ⟨106, 206, 6, 6, true, true⟩
def w6 : Resp := ⟨107, 207, 7, 7, true, true⟩

/-- two rounds in flight; round 6 answers first and is fully checked before round 5 is written; round 5 first gets a
tampered payset, then a fork, then the good pair; round 6 first gets a pair of another round -/
def demo : List Event :=
  [.fetch 5, .fetch 6, .fetched 6 w6, .retry 6, .fetched 6 g6, .contents 6 106 true, .fetched 5 t5,
   .contents 5 115 false, .retry 5, .auth 6 106 206 true, .fetched 5 f5, .contents 5 125 true, .auth 5 125 225 false,
   .retry 5, .fetched 5 g5, .contents 5 105 true, .auth 5 105 205 true, .wrote 5 105 205, .done 5,
   .wrote 6 106 206, .done 6]

example : accepted cfgDefault 4 demo = true := by decide
example : appended demo = [5, 6] := by decide
/-- the hypotheses of `writes_authenticated` are met by `demo` at its first write, with a non-trivial attempt history -/
example : attempt 5 (demo.take 17) = expected 5 g5 true true := by decide
example : Truthful (fun b => decide (b ≠ 115)) (fun b c => decide (c = b % 10 + 200)) demo := by
  intro r p hp
  simp [demo, g5, t5, f5, g6, w6] at hp
  rcases hp with ⟨_, rfl⟩ | ⟨_, rfl⟩ | ⟨_, rfl⟩ | ⟨_, rfl⟩ | ⟨_, rfl⟩ <;> decide

/-- the acceptor rejects the four bug classes the check must catch -/
example : rule cfgDefault 4 [.fetch 5, .fetched 5 t5, .auth 5 115 205 true] = "auth-before-contents" := by decide
example : rule cfgDefault 4 [.fetch 5, .fetched 5 t5, .contents 5 115 false, .auth 5 115 205 true] = "auth-after-failed-check" := by decide
example : rule cfgDefault 4 [.fetch 5, .fetched 5 g5, .contents 5 105 true, .wrote 5 105 205] = "write-unauthenticated" := by decide
example : rule cfgDefault 4 [.fetch 5, .fetched 5 f5, .contents 5 125 true, .auth 5 125 225 false, .wrote 5 125 225]
    = "write-after-failed-check" := by decide
example : rule cfgDefault 4 [.fetch 6, .fetched 6 g6, .contents 6 106 true, .auth 6 106 206 true, .wrote 6 106 206]
    = "write-before-prev-done" := by decide
example : rule cfgDefault 4 [.fetch 5, .fetched 5 f5, .contents 5 125 true, .auth 5 125 225 false, .retry 5, .fetched 5 g5,
    .contents 5 105 true, .auth 5 105 205 true, .wrote 5 125 205] = "write-stale-pair" := by decide
/-- with the certificate check switched off (mode bit 0) the same unauthenticated write is accepted: the theorems are
really parametric in the mode -/
example : accepted { cfgDefault with vc := false } 4 [.fetch 5, .fetched 5 f5, .contents 5 125 true, .wrote 5 125 225] = true := by decide
/-- the hypothesis of `default_mode_writes_good` is met by the default mode of the current tree -/
example : cfgOfMode Gen.CatchupMode.defaultMode 2 4 = some cfgDefault := by decide
/-- the hypothesis of `writes_ordered_from` -/
example : WF (init 7) := by simp [WF, init]

end Props.C30
