/-
C01 — Consensus safety: no two honest nodes commit different blocks for a round.

Layer (1) of DESIGN §C01: the abstract model `Spec.AgreementAbs`.  All theorems range over ALL parameters
(any number of nodes, any weights, any honest set) and ALL histories (any number of periods, steps, Byzantine
votes and equivocations, crashes), newest event first.

Hypotheses (each theorem names exactly the ones it uses):
* `hq : HQ P`  —  `W P + F P < 2 * P.T`  (total weight + Byzantine weight below twice the threshold);
* `wf : WF true P h` — every event of an honest node obeys the local rules of `agreement/player.go` w.r.t. the
  votes cast before it (`true` = the lenient, code-level rule set; `WF false`, the strict set, implies it).
Idealisations (not proved here): committees are "every node votes in every step with a fixed weight"; a vote
event of an honest sender is cast by that sender (signatures unforgeable).

The concrete layer (`Model.Player`, `player_votes_justified`) that ties the real player to `WF` is separate.
-/
import AlgoVerif.Lemmas.AgreementAbsLift
namespace Props.C01
open AlgoVerif.Spec.AgreementAbs AlgoVerif.Lemmas.AgreementAbs

/-! ### safety -/

/-- **abs_safety.**  In one round, all cert quorums — of whatever periods — are for the same value. -/
theorem abs_safety {P : Params} (hq : HQ P) {h : List Ev} (wf : WF true P h) {p p' : Nat} {v v' : Val}
    (h1 : certQ P h p v) (h2 : certQ P h p' v') : v = v' :=
  abs_safety_strict hq (wf_strict hq wf) h1 h2

/-- **commit_unique.**  Any two commit events of honest nodes in one round history carry the same value. -/
theorem commit_unique {P : Params} (hq : HQ P) {h : List Ev} (wf : WF true P h)
    {n n' : Node} {p p' : Nat} {v v' : Val}
    (hn : P.honest n = true) (hn' : P.honest n' = true)
    (h1 : Ev.commit n p v ∈ h) (h2 : Ev.commit n' p' v' ∈ h) : v = v' := by
  obtain ⟨pre1, hs1⟩ := mem_split h1
  obtain ⟨pre2, hs2⟩ := mem_split h2
  have c1 : certQ P pre1 p v := wf_ok hs1 wf hn
  have c2 : certQ P pre2 p' v' := wf_ok hs2 wf hn'
  exact abs_safety hq wf (certQ_mono (suffix_of_cons_suffix' hs1) c1)
    (certQ_mono (suffix_of_cons_suffix' hs2) c2)

theorem mem_commits_iff {P : Params} {h : List Ev} {n p v} :
    (n, p, v) ∈ commits P h ↔ (P.honest n = true ∧ Ev.commit n p v ∈ h) := by
  induction h with
  | nil => simp [commits]
  | cons e pre ih =>
      cases e with
      | commit m q u =>
          by_cases hm : P.honest m = true
          · simp only [commits, if_pos hm, List.mem_cons, ih, Prod.mk.injEq, Ev.commit.injEq]
            constructor
            · rintro (⟨rfl, rfl, rfl⟩ | ⟨h1, h2⟩)
              · exact ⟨hm, Or.inl ⟨rfl, rfl, rfl⟩⟩
              · exact ⟨h1, Or.inr h2⟩
            · rintro ⟨h1, (⟨rfl, rfl, rfl⟩ | h2)⟩
              · exact Or.inl ⟨rfl, rfl, rfl⟩
              · exact Or.inr ⟨h1, h2⟩
          · simp only [commits, if_neg hm, ih, List.mem_cons, Ev.commit.injEq]
            constructor
            · rintro ⟨h1, h2⟩; exact ⟨h1, Or.inr h2⟩
            · rintro ⟨h1, (⟨rfl, rfl, rfl⟩ | h2)⟩
              · exact absurd h1 hm
              · exact ⟨h1, h2⟩
      | vote => simp [commits, ih]
      | see => simp [commits, ih]
      | enter => simp [commits, ih]
      | crash => simp [commits, ih]

/-- the monitor of the acceptor (`SAFETY-VIOLATION`) can never fire on a well-formed history -/
theorem commits_agree {P : Params} (hq : HQ P) {h : List Ev} (wf : WF true P h)
    {c c' : Node × Nat × Val} (h1 : c ∈ commits P h) (h2 : c' ∈ commits P h) : c.2.2 = c'.2.2 := by
  obtain ⟨n, p, v⟩ := c
  obtain ⟨n', p', v'⟩ := c'
  obtain ⟨hn, m1⟩ := mem_commits_iff.1 h1
  obtain ⟨hn', m2⟩ := mem_commits_iff.1 h2
  exact commit_unique hq wf hn hn' m1 m2

/-- the acceptor is sound: a history it accepts (under `hq`) has no disagreeing honest commits -/
theorem acceptor_sound {P : Params} (hq : HQ P) {h : List Ev} (acc : wfCheck true P h = true)
    {c c' : Node × Nat × Val} (h1 : c ∈ commits P h) (h2 : c' ∈ commits P h) : c.2.2 = c'.2.2 :=
  commits_agree hq ((wfCheck_iff true P h).1 acc) h1 h2

/-! ### the cross-period facts behind safety (for C05 and the reader) -/

/-- after a cert quorum for `v` in period `p`: every later soft quorum and every next quorum from `p` on is for
`v`; in particular no period `≥ p` has a next quorum for ⊥ -/
theorem locked_after_cert {P : Params} (hq : HQ P) {h : List Ev} (wf : WF true P h) {p : Nat} {v : Val}
    (hc : certQ P h p v) :
    (∀ q, p < q → ∀ x, softQ P h q x → x = v) ∧ (∀ q, p ≤ q → ∀ y, nextQ P h q y → y = some v) := by
  have wfs := wf_strict hq wf
  constructor
  · intro q hpq; exact (inv_after_cert hq wfs hc hpq).1
  · intro q hpq
    obtain ⟨d, rfl⟩ : ∃ d, q = p + d := ⟨q - p, by omega⟩
    exact next_all_after_cert hq wfs hc d

/-! ### for C02 -/

/-- **next_values_unique.**  One period never has next quorums for two different non-⊥ values
(`NextValuesUnique` of DESIGN §C02). -/
theorem next_values_unique {P : Params} (hq : HQ P) {h : List Ev} (wf : WF true P h) {q : Nat} {y z : Val}
    (hy : nextQ P h q (some y)) (hz : nextQ P h q (some z)) : y = z :=
  next_values_unique_strict hq (wf_strict hq wf) q y z hy hz

/-- one period never stages two different values (soft/cert thresholds agree) -/
theorem staged_unique {P : Params} (hq : HQ P) {h : List Ev} (wf : WF true P h) {p : Nat} {a b : Val}
    (ha : stagedQ P h p a) (hb : stagedQ P h p b) : a = b := by
  have wfs := wf_strict hq wf
  exact soft_unique hq wfs (staged_soft hq wfs ha) (staged_soft hq wfs hb)

/-- the excuses of the code-level rules (`Conflict1/2`) are never available, so the code-level rules
coincide with the strict ones; in particular honest nodes never equivocate -/
theorem lenient_is_strict {P : Params} (hq : HQ P) {h : List Ev} (wf : WF true P h) :
    WF false P h ∧ NoConflict P h :=
  ⟨wf_strict hq wf, no_conflict_strict hq (wf_strict hq wf)⟩

theorem honest_never_equivocates {P : Params} (hq : HQ P) {h : List Ev} (wf : WF true P h) {n p s}
    (hn : P.honest n = true) : ¬ Equivocated h n p s :=
  honest_not_equivocator (wf_strict hq wf) hn

/-! ### crashes -/

/-- **crash_preserves_inv.**  A crash (local state := snapshot taken at the node's last vote) may happen at
any point of any history: the history stays well-formed, the quorums are untouched, and every fact the safety
argument uses about the node survives the revert — its cache is still sound, the way it entered its period is
still justified, and everything it knew at any of its votes it still knows. -/
theorem crash_preserves_inv {l : Bool} {P : Params} {h : List Ev} (wf : WF l P h) (n : Node)
    (hn : P.honest n = true) :
    WF l P (.crash n :: h) ∧
    localOf (.crash n :: h) n = (nstate h n).snap ∧
    (∀ p s x, Q P (.crash n :: h) p s x ↔ Q P h p s x) ∧
    CacheSound P (.crash n :: h) (localOf (.crash n :: h) n) ∧
    LocalInv P (.crash n :: h) (localOf (.crash n :: h) n) ∧
    (∀ (v : Vote) pre, (Ev.vote v :: pre) <:+ h → v.n = n →
      ∀ q, CacheLe ((localOf pre n).cache q) ((localOf (.crash n :: h) n).cache q)) := by
  have wf' : WF l P (.crash n :: h) := ⟨wf, trivial⟩
  refine ⟨wf', ?_, ?_, localOf_sound wf' hn, localOf_inv wf' hn, ?_⟩
  · simp [localOf, nstate, stepN]
  · intro p s x; exact Iff.rfl
  · intro v pre hs hvn q
    subst hvn
    exact (sticky (hs.trans (List.suffix_cons _ _))).1 q

theorem wf_crashes {l : Bool} {P : Params} {h : List Ev} (wf : WF l P h) (cs : List Node) :
    WF l P (cs.map Ev.crash ++ h) := by
  induction cs with
  | nil => exact wf
  | cons c cs ih => exact ⟨ih, trivial⟩

/-- safety for histories with arbitrarily many crash events is `abs_safety` itself (crash events are events);
this corollary makes it explicit: prepend any number of crashes to a well-formed history -/
theorem safety_with_crashes {P : Params} (hq : HQ P) {h : List Ev} (wf : WF true P h) (cs : List Node)
    {p p' : Nat} {v v' : Val}
    (h1 : certQ P (cs.map Ev.crash ++ h) p v) (h2 : certQ P (cs.map Ev.crash ++ h) p' v') : v = v' :=
  abs_safety hq (wf_crashes wf cs) h1 h2

/-! ### rounds -/

/-- the events of round `r` of a multi-round history -/
def roundOf (r : Nat) (H : List (Nat × Ev)) : List Ev := (H.filter (fun e => e.1 == r)).map (·.2)

theorem mem_roundOf {r : Nat} {H : List (Nat × Ev)} {e : Ev} : e ∈ roundOf r H ↔ (r, e) ∈ H := by
  unfold roundOf
  simp only [List.mem_map, List.mem_filter, beq_iff_eq]
  constructor
  · rintro ⟨⟨r', e'⟩, ⟨hm, hr⟩, he⟩
    simp only at hr he; subst hr; subst he; exact hm
  · intro hm; exact ⟨(r, e), ⟨hm, rfl⟩, rfl⟩

/-- **rounds_compose.**  A multi-round history whose per-round projections are well-formed (the parameters —
committee weights — may differ per round) commits at most one value per round. -/
theorem rounds_compose {P : Nat → Params} (hq : ∀ r, HQ (P r)) {H : List (Nat × Ev)}
    (wf : ∀ r, WF true (P r) (roundOf r H)) {r : Nat} {n n' : Node} {p p' : Nat} {v v' : Val}
    (hn : (P r).honest n = true) (hn' : (P r).honest n' = true)
    (h1 : (r, Ev.commit n p v) ∈ H) (h2 : (r, Ev.commit n' p' v') ∈ H) : v = v' :=
  commit_unique (hq r) (wf r) hn hn' (mem_roundOf.2 h1) (mem_roundOf.2 h2)

/-! ### non-vacuity

4 nodes of weight 1, `T = 3`, node 3 Byzantine.  Period 0: the Byzantine node equivocates in the soft step
(7 and 8), node 2 soft-votes another proposal, the soft quorum for 7 forms with the equivocator's help, node 0
cert-votes, nodes time out and next-vote (node 2 votes ⊥), a next quorum for 7 forms.  Node 1 crashes
(forgetting the next quorum it had seen) and sees it again.  Period 1: nodes 0 and 1 enter through the next
quorum and soft-vote the starting value 7, node 2 fast-forwards on the soft quorum, node 1 crashes again, all
cert-vote 7, nodes 0 and 2 commit. -/

def exP : Params := ⟨[0, 1, 2, 3], fun _ => 1, fun n => n != 3, 3⟩

def exH : List Ev := [
  .vote ⟨0, 0, .soft, some 7⟩, .vote ⟨1, 0, .soft, some 7⟩, .vote ⟨2, 0, .soft, some 8⟩,
  .vote ⟨3, 0, .soft, some 7⟩, .vote ⟨3, 0, .soft, some 8⟩,
  .vote ⟨0, 0, .cert, some 7⟩,
  .vote ⟨1, 0, .next 1, some 7⟩, .vote ⟨2, 0, .next 1, none⟩,
  .vote ⟨0, 0, .next 1, some 7⟩, .vote ⟨3, 0, .next 1, some 7⟩,
  .see 1 0 (some 7), .crash 1, .see 1 0 (some 7), .enter 1 1 (.viaNext (some 7)),
  .see 0 0 (some 7), .enter 0 1 (.viaNext (some 7)),
  .vote ⟨0, 1, .soft, some 7⟩, .vote ⟨1, 1, .soft, some 7⟩, .vote ⟨3, 1, .soft, some 7⟩,
  .enter 2 1 (.viaSoft 7),
  .crash 1,
  .vote ⟨2, 1, .cert, some 7⟩, .vote ⟨1, 1, .cert, some 7⟩, .vote ⟨0, 1, .cert, some 7⟩,
  .commit 0 1 7, .commit 2 1 7].reverse

example : HQ exP := by decide
example : WF true exP exH := by decide
example : WF false exP exH := by decide
example : wfCheck true exP exH = true := by decide
example : Equivocated exH 3 0 .soft := by decide
example : softQ exP exH 0 7 ∧ ¬ softQ exP exH 0 8 := by decide
example : nextQ exP exH 0 (some 7) ∧ certQ exP exH 1 7 := by decide
example : commits exP exH = [(2, 1, 7), (0, 1, 7)] := by decide
/-- the rules do reject: a cert-voter that next-votes ⊥, a soft vote against the starting value, a commit
without certificate -/
example : checkEv true exP (exH.drop 17) (.vote ⟨0, 0, .next 2, none⟩) = some "next-own-cert" := by decide
example : checkEv true exP (exH.drop 17) (.vote ⟨0, 0, .next 1, none⟩) = some "vote-unique" := by decide
example : checkEv true exP (exH.drop 10) (.vote ⟨0, 0, .next 2, some 7⟩) = some "vote-period" := by decide
example : checkEv true exP (exH.drop 10) (.vote ⟨0, 1, .soft, some 8⟩) = some "soft-start" := by decide
example : checkEv true exP (exH.drop 5) (.commit 0 1 7) = some "commit-cert" := by decide
/-- the quorum hypothesis is needed: with `T = 2` (so `W + F = 5 ≥ 2·T`) the equivocator certifies two values
and two honest nodes commit differently in a history that obeys every local rule -/
def badP : Params := { exP with T := 2 }
def badH : List Ev := [
  .vote ⟨0, 0, .soft, some 7⟩, .vote ⟨1, 0, .soft, some 8⟩,
  .vote ⟨3, 0, .soft, some 7⟩, .vote ⟨3, 0, .soft, some 8⟩,
  .vote ⟨0, 0, .cert, some 7⟩, .vote ⟨1, 0, .cert, some 8⟩,
  .vote ⟨3, 0, .cert, some 7⟩, .vote ⟨3, 0, .cert, some 8⟩,
  .commit 0 0 7, .commit 1 0 8].reverse
example : ¬ HQ badP := by decide
/-- the excuses of the lenient rules are real: after the conflicting cert quorum overwrote `Staging`, node 0
(which cert-voted 7) next-votes ⊥ as the code would; strict rejects, lenient accepts — only possible without `hq` -/
example : checkEv false badP badH (.vote ⟨0, 0, .next 0, none⟩) = some "next-own-cert" ∧
    checkEv true badP badH (.vote ⟨0, 0, .next 0, none⟩) = none := by decide
example : WF false badP badH ∧ commits badP badH = [(1, 0, 8), (0, 0, 7)] := by decide

end Props.C01
