/-
C01 / C02 deepening — the concrete single-node model PlayerM (`Model.Player`, tied to the real rootRouter + player by the
PlayerDrive correspondence of C03/C07) meets the *local rules* under which the abstract model `Spec.AgreementAbs` proves
consensus safety (C01) and `Model.AgreementSvc` proves no-equivocation across crashes (C02).  All theorems range over ALL
event lists fed to PlayerM.

Hypotheses (never axioms; `EnvOK`):
* `GoodSpec good`, `RunOK` — C03's: verified votes have positive sender-determined weight; a payload delivered as verified
  is a block of the player's round;
* `RunOKA` — a payload delivered as verified has a non-bottom proposal-value (a real block never hashes to the zero
  `proposalValue`) and arrives while `Period + 1 < 2^64` (the model wraps periods only in `predPeriod` and the GC test);
  a `roundInterruption` names a round above the player's (`demux.next`: it is produced from `Ledger.NextRound()` after
  `Ledger.Wait(player's round)` fired);
* `NoOverflow` — `Step < 253` in every reached state (the timeout path never reaches the fast-recovery step numbers:
  deadlines double with every next step; stated as a modelling bound in `Model.Player`);
* `StagedStable` — while the player stays in (r, p), the value staged for (r, p) by a soft/cert threshold is not overwritten
  by a different one.  In the code only a cert threshold of (r, p) for another value than its soft threshold's can do that:
  the abstract excuse `Conflict1`, excluded globally by `Props.C01.staged_unique` under the quorum hypothesis;
* `CachedStable` — while the player stays in (r, p), the non-bottom cached next value of (r, p−1) is not replaced by a
  different non-bottom one.  Only a second next threshold of (r, p−1) for another value can do that: the abstract excuse
  `Conflict2`, excluded by `Props.C01.next_values_unique`.
The last three are predicates of the run (decidable: evaluated on the snapshots `snaps`), not of the inputs alone.

Theorems
1. `attest_once` (FULL under `EnvOK`): all attest actions of a run for one (round, period, step) carry one value.
   `attest_once_step` says which hypothesis each step kind needs: soft — none of the three; next s — `NoOverflow`;
   cert — `StagedStable`; late — `StagedStable`, `NoOverflow`; redo — `CachedStable`, `NoOverflow`; down — `NoOverflow`.
2. `playerSvc` makes PlayerM a `Model.AgreementSvc.Player` (a panic halts it); `playerM_no_equivocation` is
   `Props.C02.no_equivocation_on_run` with its hypothesis discharged by (1) for every trace whose final logical run meets
   `EnvOK`.  `player_instantiates_AttestOnce`: PlayerM guarded by the (executable) environment check satisfies the
   unconditional `Props.C02.AttestOnce`, so `Props.C02.no_equivocation` applies verbatim (`guardedPlayerM_no_equivocation`);
   on runs that meet the check the guarded player IS PlayerM (`guard_agrees`).
3. `player_votes_justified_partial`: see the section below.
4. `comm_stable`, `player_next_own_cert` (FULL): the staged value's assembler survives every trim while the player stays in
   the period, hence `RNextOwnCert` holds without excuse for every next-type vote — the invariant that the code before repo
   commit b6f661fbce violated (finding of this file); `threshold_fix_separates` shows the pre-fix handler breaking it.
5. `vote_values`, `vote_rules_abs`, `cached_nextQ`, `commit_certQ`, `histLink_projFull` (FULL under the named links `HistLink`,
   `PrevLink`): `RSoftStart`, `RNextVal`, `RCertStaged`, `RSee`, `RCommit` in ABSTRACT form via the quorum lift
   `Lemmas.PlayerAttestAbs.quorum_abs`; `projFull`: executable complete projection, accepted by `wfCheck` on the example runs.
-/
import AlgoVerif.Lemmas.PlayerAttestKeepStep
import AlgoVerif.Lemmas.PlayerAttestAbs
import AlgoVerif.Props.C02
import AlgoVerif.Props.C03
import AlgoVerif.Spec.AgreementAbs
namespace Props.C01Player
open AlgoVerif.Model AlgoVerif.Model.Player AlgoVerif.Lemmas.Player AlgoVerif.Lemmas.PlayerAttest
open AlgoVerif.Model.VoteTracker (Vote)

/-! ### the node invariant and the environment hypotheses -/

/-- view invariant used for `attest_once`: `Staging ≠ bottom` only if a soft/cert threshold wrote it -/
def PTOK : Nat → Nat → PView → Prop := fun _ _ vw => vw.staging ≠ 0 → vw.set = true

theorem ptok_spec (P : Params) (good : Nat → Nat → Nat → Vote → Bool) : GSpec P good PTOK where
  empty := by intro r p h; exact absurd rfl h
  stage := by intro r p vw e _ _ _ _ _ _; rfl
  cache := by intro r p vw e h _ _ _ _; exact h

theorem ptok_set : ∀ r p vw, PTOK r p vw → vw.staging ≠ 0 → vw.set = true := fun _ _ _ h => h

/-- the node-local invariant (C03's `Inv`, the view invariant, `Step ≥ soft`, `Napping → Step > next`) -/
abbrev NodeInv (P : Params) (good : Nat → Nat → Nat → Vote → Bool) (σ : State) : Prop := SInv P good PTOK σ

/-- a freshly started node (`makeRootRouter(player{Round: r, Step: soft, …})`) -/
def Fresh (σ₀ : State) : Prop := σ₀.root = {} ∧ σ₀.pl.step = 1 ∧ σ₀.pl.napping = false

theorem fresh_inv (P : Params) (good : Nat → Nat → Nat → Vote → Bool) {σ₀ : State} (h : Fresh σ₀) : NodeInv P good σ₀ := by
  obtain ⟨h1, h2, h3⟩ := h
  refine ⟨?_, ?_, by omega, by intro hn; rw [h3] at hn; cases hn⟩
  · rw [h1]; intro kv hkv; exact (List.not_mem_nil hkv).elim
  · rw [h1]; exact GRoot_empty

/-- a node restored from disk (`persistView`, C07) satisfies the node invariant if the crashed node did: `attest_once`
and the rules below therefore also hold for every run that continues from a restored state -/
theorem persistView_inv (P : Params) (good : Nat → Nat → Nat → Vote → Bool) {σ : State} (h : NodeInv P good σ) :
    NodeInv P good (persistView σ) := by
  refine ⟨Props.C03.persistView_inv P good h.q, ?_, h.step, h.nap⟩
  intro kv hkv
  simp only [persistView, List.mem_map, List.mem_filter] at hkv
  obtain ⟨kv₀, ⟨hm, _⟩, rfl⟩ := hkv
  obtain ⟨h1, h2⟩ := h.g kv₀ hm
  refine ⟨?_, h2⟩
  intro pkv hp
  simp only [RoundR.persist, List.mem_map] at hp
  obtain ⟨pkv₀, hm₀, rfl⟩ := hp
  exact h1 pkv₀ hm₀

/-- one event keeps the node invariant -/
theorem handle_inv (P : Params) (good : Nat → Nat → Nat → Vote → Bool) (hg : GoodSpec good) {σ σ' : State}
    {ev : Player.Event} {acts : List Action} (hI : NodeInv P good σ) (hev : EventOK good σ ev) (heva : EventOKA σ ev)
    (h : Player.handle P σ ev = .ok (σ', acts)) : NodeInv P good σ' ∧ HStep σ.pl σ' (atts acts) :=
  sinv_step (ptok_spec P good) ptok_set hg hI hev heva h

/-- the environment hypotheses of a run (see the file header) -/
structure EnvOK (P : Params) (good : Nat → Nat → Nat → Vote → Bool) (σ₀ : State) (es : List Player.Event) : Prop where
  run : RunOK P good σ₀ es
  runA : RunOKA P σ₀ es
  noOverflow : NoOverflow (snaps P σ₀ es)
  staged : StagedStable (snaps P σ₀ es)
  cached : CachedStable (snaps P σ₀ es)

/-! ### 1. attest_once -/

/-- **attest_once_step.**  Per step `s`, with exactly the hypotheses the votes of that step depend on. -/
theorem attest_once_step (P : Params) (good : Nat → Nat → Nat → Vote → Bool) (hg : GoodSpec good) (s : Nat)
    (σ₀ : State) (hI : NodeInv P good σ₀) (es : List Player.Event) (hr : RunOK P good σ₀ es) (hra : RunOKA P σ₀ es)
    (hno : 3 ≤ s → NoOverflow (snaps P σ₀ es)) (hss : s = 2 ∨ s = 253 → StagedStable (snaps P σ₀ es))
    (hcs : s = 254 → CachedStable (snaps P σ₀ es)) :
    ∀ a ∈ allAtts P σ₀ es, ∀ b ∈ allAtts P σ₀ es, a.r = b.r → a.p = b.p → a.s = s → b.s = s → a.v = b.v :=
  AlgoVerif.Lemmas.PlayerAttest.attest_once_step (ptok_spec P good) ptok_set hg s es σ₀ hI hr hra hno hss hcs

/-- soft votes: one value per (round, period), whatever thresholds are delivered -/
theorem attest_once_soft (P : Params) (good : Nat → Nat → Nat → Vote → Bool) (hg : GoodSpec good)
    (σ₀ : State) (hI : NodeInv P good σ₀) (es : List Player.Event) (hr : RunOK P good σ₀ es) (hra : RunOKA P σ₀ es) :
    ∀ a ∈ allAtts P σ₀ es, ∀ b ∈ allAtts P σ₀ es, a.r = b.r → a.p = b.p → a.s = 1 → b.s = 1 → a.v = b.v :=
  attest_once_step P good hg 1 σ₀ hI es hr hra (by omega) (by omega) (by omega)

/-- **attest_once.**  All attest actions of a run for one (round, period, step) carry one value. -/
theorem attest_once (P : Params) (good : Nat → Nat → Nat → Vote → Bool) (hg : GoodSpec good)
    (σ₀ : State) (hI : NodeInv P good σ₀) (es : List Player.Event) (henv : EnvOK P good σ₀ es) :
    ∀ a ∈ allAtts P σ₀ es, ∀ b ∈ allAtts P σ₀ es, a.r = b.r → a.p = b.p → a.s = b.s → a.v = b.v := by
  intro a ha b hb er ep es'
  exact attest_once_step P good hg a.s σ₀ hI es henv.run henv.runA (fun _ => henv.noOverflow) (fun _ => henv.staged)
    (fun _ => henv.cached) a ha b hb er ep rfl es'.symm

/-- the attests of `snaps` are those of `Model.Player.run` -/
theorem allAtts_of_run (P : Params) : ∀ (es : List Player.Event) (σ σ' : State) (ass : List (List Action)),
    Player.run P σ es = .ok (σ', ass) → allAtts P σ es = ass.flatMap atts := by
  intro es
  induction es with
  | nil =>
    intro σ σ' ass h
    simp only [Player.run, Except.ok.injEq, Prod.mk.injEq] at h
    obtain ⟨_, rfl⟩ := h
    rfl
  | cons e rest ih =>
    intro σ σ' ass h
    simp only [Player.run] at h
    split at h
    · cases h
    rename_i σ₁ as₁ hh
    split at h
    · cases h
    rename_i σ₂ ass₂ hr
    simp only [Except.ok.injEq, Prod.mk.injEq] at h
    obtain ⟨_, rfl⟩ := h
    simp only [allAtts, snaps, hh, List.flatMap_cons]
    have := ih σ₁ σ₂ ass₂ hr
    simp only [allAtts] at this
    rw [this]

/-- `attest_once` in terms of `Model.Player.run` -/
theorem attest_once_run (P : Params) (good : Nat → Nat → Nat → Vote → Bool) (hg : GoodSpec good)
    (σ₀ σ : State) (hI : NodeInv P good σ₀) (es : List Player.Event) (ass : List (List Action))
    (henv : EnvOK P good σ₀ es) (h : Player.run P σ₀ es = .ok (σ, ass)) :
    ∀ as ∈ ass, ∀ as' ∈ ass, ∀ r p s v v', Action.attest r p s v ∈ as → Action.attest r p s v' ∈ as' → v = v' := by
  intro as has as' has' r p s v v' hv hv'
  have e := allAtts_of_run P es σ₀ σ ass h
  have m1 : (⟨r, p, s, v⟩ : Attest) ∈ allAtts P σ₀ es := by
    rw [e]; exact List.mem_flatMap.mpr ⟨as, has, List.mem_flatMap.mpr ⟨_, hv, by simp [attOf]⟩⟩
  have m2 : (⟨r, p, s, v'⟩ : Attest) ∈ allAtts P σ₀ es := by
    rw [e]; exact List.mem_flatMap.mpr ⟨as', has', List.mem_flatMap.mpr ⟨_, hv', by simp [attOf]⟩⟩
  exact attest_once P good hg σ₀ hI es henv _ m1 _ m2 rfl rfl rfl

/-! ### 2. PlayerM as the abstract player of `Model.AgreementSvc` (C02) -/

section Svc
open AlgoVerif.Model.AgreementSvc (runSt allAtt Label)

/-- `handle` made total: a panic halts the node (no further attests) -/
def stepO (P : Params) (s : Option State) (e : Player.Event) : Option State × List Attest :=
  match s with
  | none => (none, [])
  | some σ =>
    match Player.handle P σ e with
    | .ok (σ', as) => (some σ', atts as)
    | .error _ => (none, [])

/-- PlayerM as a labelled transition system: state, handle, emitted attest actions -/
def playerSvc (P : Params) (s : Option State) : AgreementSvc.Player (Option State) Player.Event := ⟨s, stepO P⟩

theorem runSt_snoc (P : Params) (s : Option State) (e : Player.Event) : ∀ l : List Player.Event,
    runSt (playerSvc P s) (l ++ [e]) = runSt (playerSvc P (stepO P s e).1) l ∧
    allAtt (playerSvc P s) (l ++ [e]) = allAtt (playerSvc P (stepO P s e).1) l ++ (stepO P s e).2 := by
  intro l
  induction l with
  | nil => exact ⟨rfl, by show (stepO P s e).2 ++ [] = [] ++ (stepO P s e).2; simp⟩
  | cons x rest ih =>
    obtain ⟨ih1, ih2⟩ := ih
    constructor
    · show ((playerSvc P s).handle (runSt (playerSvc P s) (rest ++ [e])) x).1 = _
      rw [ih1]; rfl
    · show ((playerSvc P s).handle (runSt (playerSvc P s) (rest ++ [e])) x).2 ++ allAtt (playerSvc P s) (rest ++ [e]) = _
      rw [ih1, ih2, ← List.append_assoc]; rfl

theorem allAtt_none (P : Params) : ∀ l : List Player.Event,
    runSt (playerSvc P none) l = none ∧ allAtt (playerSvc P none) l = [] := by
  intro l
  induction l with
  | nil => exact ⟨rfl, rfl⟩
  | cons x rest ih =>
    obtain ⟨ih1, ih2⟩ := ih
    constructor
    · show ((playerSvc P none).handle (runSt (playerSvc P none) rest) x).1 = none
      rw [ih1]; rfl
    · show ((playerSvc P none).handle (runSt (playerSvc P none) rest) x).2 ++ allAtt (playerSvc P none) rest = []
      rw [ih1, ih2]; rfl

/-- the attests of the transition system along a log (newest first) are those of the run of the reversed log -/
theorem mem_allAtt_iff (P : Params) (a : Attest) : ∀ (es : List Player.Event) (σ : State),
    a ∈ allAtt (playerSvc P (some σ)) es.reverse ↔ a ∈ allAtts P σ es := by
  intro es
  induction es with
  | nil => intro σ; simp [allAtt, allAtts, snaps]
  | cons e rest ih =>
    intro σ
    rw [List.reverse_cons, (runSt_snoc P (some σ) e rest.reverse).2]
    simp only [allAtts, snaps, stepO]
    cases hh : Player.handle P σ e with
    | error k => simp [(allAtt_none P rest.reverse).2]
    | ok r =>
      obtain ⟨σ', as⟩ := r
      simp only [List.flatMap_cons, List.mem_append]
      rw [ih σ']
      simp only [allAtts]
      exact Or.comm

/-- **playerM_no_equivocation.**  For every trace of the attest → persist → checkpoint → release machine over PlayerM
(any interleaving, any number of crashes) whose final logical run meets the environment hypotheses, all released votes of
one (round, period, step) carry one value. -/
theorem playerM_no_equivocation (P : Params) (good : Nat → Nat → Nat → Vote → Bool) (hg : GoodSpec good)
    (σ₀ : State) (hI : NodeInv P good σ₀) {ls : List (AgreementSvc.Label Player.Event)} {s : AgreementSvc.State (Option State) Player.Event}
    (h : AgreementSvc.run (playerSvc P (some σ₀)) true (AgreementSvc.init (playerSvc P (some σ₀))) ls = some s)
    (henv : EnvOK P good σ₀ s.log.reverse)
    {a b : Attest} (ha : a ∈ s.rho) (hb : b ∈ s.rho) (hr : a.r = b.r) (hp : a.p = b.p) (hs : a.s = b.s) : a.v = b.v := by
  refine Props.C02.no_equivocation_on_run (playerSvc P (some σ₀)) h ?_ ha hb hr hp hs
  intro a' ha' b' hb'
  have e : s.log = s.log.reverse.reverse := (List.reverse_reverse _).symm
  rw [e] at ha' hb'
  exact attest_once P good hg σ₀ hI s.log.reverse henv a' ((mem_allAtt_iff P a' _ σ₀).mp ha') b'
    ((mem_allAtt_iff P b' _ σ₀).mp hb')

/-! #### the guarded player: `AttestOnce` without side conditions -/

variable {Sg E : Type}

/-- a player that halts as soon as its log (newest first) fails the check `ok` -/
def guard (B : AgreementSvc.Player Sg E) (ok : List E → Bool) : AgreementSvc.Player (Sg × List E × Bool) E :=
  ⟨(B.init, [], true), fun s e =>
    if s.2.2 && ok (e :: s.2.1) then (((B.handle s.1 e).1, e :: s.2.1, true), (B.handle s.1 e).2)
    else ((s.1, s.2.1, false), [])⟩

theorem guard_handle (B : AgreementSvc.Player Sg E) (ok : List E → Bool) (s : Sg × List E × Bool) (e : E) :
    (guard B ok).handle s e =
      if s.2.2 && ok (e :: s.2.1) then (((B.handle s.1 e).1, e :: s.2.1, true), (B.handle s.1 e).2)
      else ((s.1, s.2.1, false), []) := rfl

theorem guard_run (B : AgreementSvc.Player Sg E) (ok : List E → Bool) : ∀ es : List E,
    (runSt (guard B ok) es).1 = runSt B (runSt (guard B ok) es).2.1 ∧
    allAtt (guard B ok) es = allAtt B (runSt (guard B ok) es).2.1 ∧
    ((runSt (guard B ok) es).2.1 = [] ∨ ok (runSt (guard B ok) es).2.1 = true) := by
  intro es
  induction es with
  | nil => exact ⟨rfl, rfl, Or.inl rfl⟩
  | cons e rest ih =>
    have hst : runSt (guard B ok) (e :: rest) = ((guard B ok).handle (runSt (guard B ok) rest) e).1 := rfl
    have hat : allAtt (guard B ok) (e :: rest) =
        ((guard B ok).handle (runSt (guard B ok) rest) e).2 ++ allAtt (guard B ok) rest := rfl
    rw [hst, hat, guard_handle]
    generalize runSt (guard B ok) rest = s at ih ⊢
    generalize allAtt (guard B ok) rest = A at ih ⊢
    obtain ⟨ih1, ih2, ih3⟩ := ih
    split
    · rename_i hc
      simp only [Bool.and_eq_true] at hc
      refine ⟨?_, ?_, Or.inr hc.2⟩
      · show (B.handle s.1 e).1 = (B.handle (runSt B s.2.1) e).1
        rw [ih1]
      · show (B.handle s.1 e).2 ++ A = (B.handle (runSt B s.2.1) e).2 ++ allAtt B s.2.1
        rw [ih1, ih2]
    · exact ⟨ih1, by simpa using ih2, ih3⟩

theorem guard_attestOnce (B : AgreementSvc.Player Sg E) (ok : List E → Bool)
    (hU : ∀ l, ok l = true → ∀ a ∈ allAtt B l, ∀ b ∈ allAtt B l, a.r = b.r → a.p = b.p → a.s = b.s → a.v = b.v) :
    Props.C02.AttestOnce (guard B ok) := by
  intro es a b ha hb hr hp hs
  obtain ⟨_, h2, h3⟩ := guard_run B ok es
  rw [h2] at ha hb
  rcases h3 with h3 | h3
  · rw [h3] at ha; cases ha
  · exact hU _ h3 a ha b hb hr hp hs

/-- on a log all of whose non-empty suffixes pass the check, the guarded player is the player -/
theorem guard_agrees (B : AgreementSvc.Player Sg E) (ok : List E → Bool) : ∀ es : List E,
    (∀ l, l <:+ es → l ≠ [] → ok l = true) →
    runSt (guard B ok) es = (runSt B es, es, true) ∧ allAtt (guard B ok) es = allAtt B es := by
  intro es
  induction es with
  | nil => intro _; exact ⟨rfl, rfl⟩
  | cons e rest ih =>
    intro hok
    obtain ⟨ih1, ih2⟩ := ih (fun l hl hne => hok l (hl.trans (List.suffix_cons e rest)) hne)
    have hst : runSt (guard B ok) (e :: rest) = ((guard B ok).handle (runSt (guard B ok) rest) e).1 := rfl
    have hat : allAtt (guard B ok) (e :: rest) =
        ((guard B ok).handle (runSt (guard B ok) rest) e).2 ++ allAtt (guard B ok) rest := rfl
    rw [hst, hat, ih1, ih2, guard_handle]
    have := hok (e :: rest) (List.suffix_refl _) (by simp)
    simp only [this, Bool.and_self, if_true]
    exact ⟨rfl, rfl⟩

end Svc

/-! #### the executable environment check -/

/-- Boolean version of `RunOKA` -/
def eventOKAb (σ : State) : Player.Event → Bool
  | .payload verified bad p _ =>
    !(verified && bad != 2 && bad != 1) ||
      (p.round == σ.pl.round && p.value != 0 && decide (σ.pl.period + 1 < 18446744073709551616))
  | .roundInterruption r => decide (σ.pl.round < r)
  | _ => true

theorem eventOKAb_sound (σ : State) (e : Player.Event) (h : eventOKAb σ e = true) : EventOKA σ e := by
  cases e <;> simp_all [eventOKAb, EventOKA, PayloadOK]
  all_goals (intros; simp_all)

def runOKAb (P : Params) : State → List Player.Event → Bool
  | _, [] => true
  | σ, e :: rest =>
    eventOKAb σ e && (match Player.handle P σ e with
      | .ok (σ', _) => runOKAb P σ' rest
      | .error _ => true)

theorem runOKAb_sound (P : Params) : ∀ (es : List Player.Event) (σ : State), runOKAb P σ es = true → RunOKA P σ es := by
  intro es
  induction es with
  | nil => intro σ _; trivial
  | cons e rest ih =>
    intro σ h
    simp only [runOKAb, Bool.and_eq_true] at h
    refine ⟨eventOKAb_sound σ e h.1, ?_⟩
    intro σ' as hh
    rw [hh] at h
    exact ih σ' h.2

/-- the executable environment check -/
def envOKb (P : Params) (good : Nat → Nat → Nat → Vote → Bool) (σ₀ : State) (es : List Player.Event) : Bool :=
  Props.C03.runOKb P good σ₀ es && runOKAb P σ₀ es && decide (NoOverflow (snaps P σ₀ es)) &&
    decide (StagedStable (snaps P σ₀ es)) && decide (CachedStable (snaps P σ₀ es))

theorem envOKb_sound (P : Params) (good : Nat → Nat → Nat → Vote → Bool) (σ₀ : State) (es : List Player.Event)
    (h : envOKb P good σ₀ es = true) : EnvOK P good σ₀ es := by
  simp only [envOKb, Bool.and_eq_true, decide_eq_true_eq] at h
  obtain ⟨⟨⟨⟨h1, h2⟩, h3⟩, h4⟩, h5⟩ := h
  exact ⟨Props.C03.runOKb_sound P good es σ₀ h1, runOKAb_sound P es σ₀ h2, h3, h4, h5⟩

/-- PlayerM running in an environment that keeps `EnvOK` (it halts when the environment breaks it) -/
def guardedPlayerM (P : Params) (good : Nat → Nat → Nat → Vote → Bool) (σ₀ : State) :=
  guard (playerSvc P (some σ₀)) (fun l => envOKb P good σ₀ l.reverse)

/-- **player_instantiates_AttestOnce.** -/
theorem player_instantiates_AttestOnce (P : Params) (good : Nat → Nat → Nat → Vote → Bool) (hg : GoodSpec good)
    (σ₀ : State) (hI : NodeInv P good σ₀) : Props.C02.AttestOnce (guardedPlayerM P good σ₀) := by
  apply guard_attestOnce
  intro l hok a ha b hb
  have henv := envOKb_sound P good σ₀ l.reverse hok
  have e : l = l.reverse.reverse := (List.reverse_reverse _).symm
  rw [e] at ha hb
  exact attest_once P good hg σ₀ hI l.reverse henv a ((mem_allAtt_iff P a _ σ₀).mp ha) b ((mem_allAtt_iff P b _ σ₀).mp hb)

/-- **guardedPlayerM_no_equivocation** = `Props.C02.no_equivocation` instantiated, no player hypothesis left. -/
theorem guardedPlayerM_no_equivocation (P : Params) (good : Nat → Nat → Nat → Vote → Bool) (hg : GoodSpec good)
    (σ₀ : State) (hI : NodeInv P good σ₀) {ls : List (AgreementSvc.Label Player.Event)}
    {s : AgreementSvc.State (Option State × List Player.Event × Bool) Player.Event}
    (h : AgreementSvc.run (guardedPlayerM P good σ₀) true (AgreementSvc.init (guardedPlayerM P good σ₀)) ls = some s)
    {a b : Attest} (ha : a ∈ s.rho) (hb : b ∈ s.rho) (hr : a.r = b.r) (hp : a.p = b.p) (hs : a.s = b.s) : a.v = b.v :=
  Props.C02.no_equivocation (guardedPlayerM P good σ₀) (player_instantiates_AttestOnce P good hg σ₀ hI) h ha hb hr hp hs

/-! ### 3. player_votes_justified (partial): the local rules of `Spec.AgreementAbs` on the projection of a run

(a) Step discipline — `player_votes_justified_partial`: project the attests of round `r` to abstract `vote` events of a
    node `n` (Go step 1 ↦ soft, 2 ↦ cert, s ≥ 3 ↦ next (s−3); value 0 ↦ ⊥).  Every vote of the projected history
    satisfies `RUnique` (strict disjunct, no excuse used), `RBeforeNext` (soft) and `RCertAfterNext` (cert) w.r.t. the
    history before it.
(b) `votes_in_period` — rule `RPeriod` in concrete form: every attest is for the (Round, Period) the player is in.
(c) Quorum rules in concrete form, w.r.t. the votes *delivered as verified in the run* (`goodIn`):
    `view_justified` — in every reached state, a staged value has a soft or cert quorum bundle (`RCertStaged`, `late`), a
    cached next value / the cached Bottom flag has a next quorum bundle (`RSee`, and hence `REnterCause … viaNext`);
    `cert_vote_staged` — the value of every cert or late vote has a soft or cert quorum of delivered votes;
    `redo_vote_cached` — the value of every redo vote has a next quorum of delivered votes of the previous period;
    `commit_cert_delivered` — every `ensure` carries a cert quorum of delivered votes (C03's `ensure_cert_valid`, reused).
    `runOK_prefix` / `runOKA_prefix`: all of this applies to every prefix of a run, i.e. "delivered so far".
NOT done: the enter / see / commit *events* of the projection (only the facts they need, (c)); the arithmetic lift from
a verifying bundle (`Bundle.verify`: distinct senders, weight ≥ step threshold) to the abstract `Q` (one threshold `T`,
weights summed over a fixed node list) — both done in section 5 (`quorum_Q`, `vote_rules_abs`); `REnterGrow` as an event (the last is `HStep.lex`
+ `Entered`, not projected). -/

section Abstract
open AlgoVerif.Spec

def absStep (s : Nat) : AgreementAbs.Step := if s = 1 then .soft else if s = 2 then .cert else .next (s - 3)
def absVal (v : Nat) : Option Nat := if v = 0 then none else some v
def absVote (n : Nat) (b : Attest) : AgreementAbs.Vote := ⟨n, b.p, absStep b.s, absVal b.v⟩

/-- the abstract votes of node `n` in round `r`, newest first (the order of `Spec.AgreementAbs` histories) -/
def projVotes (n r : Nat) (as : List Attest) : List AgreementAbs.Ev :=
  ((as.filter (fun b => b.r == r)).map (fun b => AgreementAbs.Ev.vote (absVote n b))).reverse

theorem mem_votes_iff (v : AgreementAbs.Vote) : ∀ h : List AgreementAbs.Ev,
    v ∈ AgreementAbs.votes h ↔ AgreementAbs.Ev.vote v ∈ h := by
  intro h
  induction h with
  | nil => simp [AgreementAbs.votes]
  | cons e rest ih =>
    cases e with
    | vote w => simp [AgreementAbs.votes, ih]
    | see n p y => simp [AgreementAbs.votes, ih]
    | enter n p c => simp [AgreementAbs.votes, ih]
    | commit n p w => simp [AgreementAbs.votes, ih]
    | crash n => simp [AgreementAbs.votes, ih]

theorem absStep_soft (s : Nat) : absStep s = .soft ↔ s = 1 := by
  unfold absStep; repeat' split
  all_goals simp_all

theorem absStep_cert (s : Nat) : absStep s = .cert ↔ s = 2 := by
  unfold absStep; repeat' split
  all_goals simp_all

theorem absStep_isNext (s : Nat) : (absStep s).isNext = true ↔ s ≠ 1 ∧ s ≠ 2 := by
  unfold absStep; repeat' split
  all_goals simp_all [AgreementAbs.Step.isNext]

theorem absStep_inj {a b : Nat} (ha : 1 ≤ a) (hb : 1 ≤ b) (h : absStep a = absStep b) : a = b := by
  unfold absStep at h
  repeat' split at h
  all_goals first
    | omega
    | cases h
    | (simp only [AgreementAbs.Step.next.injEq] at h; omega)

/-- what a split of the projected history says about the attests behind it -/
theorem proj_pre {R : Attest → Attest → Prop} {n r : Nat} {L : List Attest} (hR : L.Pairwise R)
    {post pre : List AgreementAbs.Ev} {v : AgreementAbs.Vote}
    (h : projVotes n r L = post ++ AgreementAbs.Ev.vote v :: pre) :
    ∀ v' ∈ AgreementAbs.votes pre, ∃ b' ∈ L, ∃ b ∈ L, b'.r = r ∧ b.r = r ∧ absVote n b' = v' ∧ absVote n b = v ∧ R b' b := by
  let f : Attest → AgreementAbs.Ev := fun b => AgreementAbs.Ev.vote (absVote n b)
  let R' : AgreementAbs.Ev → AgreementAbs.Ev → Prop := fun x y =>
    ∃ b' ∈ L, ∃ b ∈ L, b'.r = r ∧ b.r = r ∧ x = f b' ∧ y = f b ∧ R b' b
  have h1 : (L.filter (fun b => b.r == r)).Pairwise R := hR.filter _
  have h2 : (L.filter (fun b => b.r == r)).Pairwise (fun a b => R' (f a) (f b)) := by
    refine List.Pairwise.imp_of_mem ?_ h1
    intro a b ha hb hab
    obtain ⟨ha1, ha2⟩ := List.mem_filter.mp ha
    obtain ⟨hb1, hb2⟩ := List.mem_filter.mp hb
    exact ⟨a, ha1, b, hb1, by simpa using ha2, by simpa using hb2, rfl, rfl, hab⟩
  have h3 : (projVotes n r L).Pairwise (fun x y => R' y x) := by
    unfold projVotes
    rw [List.pairwise_reverse, List.pairwise_map]
    exact h2
  rw [h] at h3
  obtain ⟨_, h4, _⟩ := List.pairwise_append.mp h3
  obtain ⟨h5, _⟩ := List.pairwise_cons.mp h4
  intro v' hv'
  obtain ⟨b', hb', b, hb, e1, e2, e3, e4, e5⟩ := h5 _ ((mem_votes_iff v' pre).mp hv')
  refine ⟨b', hb', b, hb, e1, e2, ?_, ?_, e5⟩
  · have : AgreementAbs.Ev.vote v' = AgreementAbs.Ev.vote (absVote n b') := e3
    simp only [AgreementAbs.Ev.vote.injEq] at this
    exact this.symm
  · have : AgreementAbs.Ev.vote v = AgreementAbs.Ev.vote (absVote n b) := e4
    simp only [AgreementAbs.Ev.vote.injEq] at this
    exact this.symm

/-- **player_votes_justified_partial (a).**  Whatever abstract parameters `Pabs` and node name `n`: every vote of the
projection of a PlayerM run (round `r`) satisfies `RUnique` without using an excuse, `RBeforeNext` if it is a soft vote and
`RCertAfterNext` if it is a cert vote, w.r.t. the projected history before it. -/
theorem player_votes_justified_partial (P : Params) (good : Nat → Nat → Nat → Vote → Bool) (hg : GoodSpec good)
    (σ₀ : State) (hI : NodeInv P good σ₀) (es : List Player.Event) (henv : EnvOK P good σ₀ es)
    (Pabs : AgreementAbs.Params) (n r : Nat) {post pre : List AgreementAbs.Ev} {v : AgreementAbs.Vote}
    (hsplit : projVotes n r (allAtts P σ₀ es) = post ++ AgreementAbs.Ev.vote v :: pre) :
    AgreementAbs.RUnique false Pabs pre v ∧
    (v.s = .soft → AgreementAbs.RBeforeNext pre v) ∧
    (v.s = .cert → AgreementAbs.RCertAfterNext pre v) := by
  have hord := allAtts_ordered (ptok_spec P good) ptok_set hg es σ₀ hI henv.run henv.runA henv.noOverflow henv.staged
  have hpos := allAtts_step_pos (ptok_spec P good) ptok_set hg es σ₀ hI henv.run henv.runA
  have honce := attest_once P good hg σ₀ hI es henv
  have hboth : (allAtts P σ₀ es).Pairwise (fun a b => OrdA a b ∧
      (a.r = b.r → a.p = b.p → a.s = b.s → a.v = b.v)) :=
    List.Pairwise.imp_of_mem (fun {a b} ha hb hab => ⟨hab, honce a ha b hb⟩) hord
  have hpre := proj_pre hboth hsplit
  refine ⟨Or.inl ?_, ?_, ?_⟩
  · intro v' hv' _ hp hs
    obtain ⟨b', hb', b, hb, e1, e2, e3, e4, _, hu⟩ := hpre v' hv'
    subst e3; subst e4
    have hs' : b'.s = b.s := absStep_inj (hpos b' hb') (hpos b hb) hs
    show absVal b'.v = absVal b.v
    rw [hu (e1.trans e2.symm) hp hs']
  · intro hsoft v' hv' _ hp
    obtain ⟨b', hb', b, hb, e1, e2, e3, e4, ho, _⟩ := hpre v' hv'
    subst e3; subst e4
    have hb1 : b.s = 1 := (absStep_soft b.s).mp hsoft
    cases hn : (absStep b'.s).isNext with
    | false => exact hn
    | true =>
      have h12 := (absStep_isNext b'.s).mp hn
      have := hpos b' hb'
      exact absurd hb1 (ho (e1.trans e2.symm) hp (by omega)).1
  · intro hcert v' hv' _ hp hn
    obtain ⟨b', hb', b, hb, e1, e2, e3, e4, ho, _⟩ := hpre v' hv'
    subst e3; subst e4
    have hb2 : b.s = 2 := (absStep_cert b.s).mp hcert
    have h12 := (absStep_isNext b'.s).mp hn
    have := hpos b' hb'
    show absVal b'.v = absVal b.v
    rw [(ho (e1.trans e2.symm) hp (by omega)).2 hb2]

end Abstract

/-- **(b) votes_in_period** (`RPeriod`): every `handle` emits at most one attest, and it is for the (Round, Period) the
player is in after that `handle`. -/
theorem votes_in_period (P : Params) (good : Nat → Nat → Nat → Vote → Bool) (hg : GoodSpec good)
    (σ₀ : State) (hI : NodeInv P good σ₀) (es : List Player.Event) (hr : RunOK P good σ₀ es) (hra : RunOKA P σ₀ es) :
    ∀ y ∈ snaps P σ₀ es, y.2.length ≤ 1 ∧ ∀ b ∈ y.2, b.r = y.1.pl.round ∧ b.p = y.1.pl.period := by
  intro y hy
  rcases attests_in_period (ptok_spec P good) ptok_set hg es σ₀ hI hr hra y hy with h0 | ⟨b, hb, h1, h2, _⟩
  · rw [h0]; exact ⟨by simp, by intro b hb; cases hb⟩
  · rw [hb]
    refine ⟨by simp, ?_⟩
    intro b' hb'
    simp only [List.mem_singleton] at hb'
    subst hb'
    exact ⟨h1, h2⟩

/-! #### (c) quorum rules w.r.t. the votes delivered in the run -/

section Delivered
open AlgoVerif.Model.VoteTracker (Bundle)

/-- a bundle of `good` votes of (r, p, s) for `v` that passes the structural bundle verification: distinct senders, every
plain vote a good vote for `v`, every equivocation pair two good votes for different values, weight ≥ the step's threshold -/
def Quorum (P : Params) (good : Nat → Nat → Nat → Vote → Bool) (r p s v : Nat) : Prop :=
  ∃ b : Bundle, Bundle.verify (cfgOf P s) (good r p s) b = true ∧ b.proposal = v

/-- view invariant: what is staged / cached is backed by a quorum -/
@[reducible] def JView (P : Params) (good : Nat → Nat → Nat → Vote → Bool) (r p : Nat) (vw : PView) : Prop :=
  (vw.staging ≠ 0 → vw.set = true) ∧
  (vw.set = true → ∃ s, (s = 1 ∨ s = 2) ∧ Quorum P good r p s vw.staging) ∧
  (vw.cached.proposal ≠ 0 → ∃ s, 3 ≤ s ∧ Quorum P good r p s vw.cached.proposal) ∧
  (vw.cached.bottom = true → ∃ s, 3 ≤ s ∧ Quorum P good r p s 0)

theorem quorum_of_thresh {P : Params} {good : Nat → Nat → Nat → Vote → Bool} {r p : Nat} {e : Thresh}
    (hT : ThreshOK P good r e) (hk : e.kind ≠ 0) (hp : e.period = p) : Quorum P good r p e.step e.proposal := by
  obtain ⟨_, h2, _, h4⟩ := hT.1 hk
  exact ⟨e.bundle, hp ▸ h4, h2⟩

theorem jview_spec (P : Params) (good : Nat → Nat → Nat → Vote → Bool) : GSpec P good (JView P good) where
  empty := by
    intro r p
    exact ⟨fun h => absurd rfl h, fun h => (by cases h), fun h => absurd rfl h, fun h => (by cases h)⟩
  stage := by
    intro r p vw e hG hT hK hk hp
    refine ⟨fun _ => rfl, fun _ => ⟨e.step, ?_, quorum_of_thresh hT (by omega) hp⟩, hG.2.2.1, hG.2.2.2⟩
    rcases hK with h0 | ⟨_, h1, _⟩ | ⟨_, h2, _⟩ | ⟨h3, _⟩
    · omega
    · exact Or.inl h1
    · exact Or.inr h2
    · omega
  cache := by
    intro r p vw e hG hT hk h3 hp
    refine ⟨hG.1, hG.2.1, ?_, ?_⟩
    · show (vw.cached.cache e.proposal).proposal ≠ 0 → _
      unfold NextStatus.cache
      split
      · exact hG.2.2.1
      · intro _; exact ⟨e.step, h3, quorum_of_thresh hT hk hp⟩
    · show (vw.cached.cache e.proposal).bottom = true → _
      unfold NextStatus.cache
      split
      · rename_i h0
        intro _
        exact ⟨e.step, h3, h0 ▸ quorum_of_thresh hT hk hp⟩
      · exact hG.2.2.2

theorem jview_set (P : Params) (good : Nat → Nat → Nat → Vote → Bool) :
    ∀ r p vw, JView P good r p vw → vw.staging ≠ 0 → vw.set = true := fun _ _ _ h => h.1

/-- event `e` delivers `x` as a verified vote of (r, p, s) -/
def isDelivery (r p s : Nat) (x : Vote) : Player.Event → Bool
  | .vote verified bad r' p' s' x' =>
    verified && bad != 1 && bad != 2 && bad != 3 && r' == r && p' == p && s' == s && decide (x' = x)
  | .bundle verified bad r' p' s' value votes eqs =>
    verified && bad != 1 && bad != 2 && bad != 3 && r' == r && p' == p && s' == s &&
      (bundleVotes value votes eqs).any (fun x' => decide (x' = x))
  | _ => false

/-- `base`-good votes that were delivered as verified somewhere in `es` -/
def goodIn (base : Nat → Nat → Nat → Vote → Bool) (es : List Player.Event) : Nat → Nat → Nat → Vote → Bool :=
  fun r p s x => base r p s x && es.any (isDelivery r p s x)

theorem goodIn_spec {base : Nat → Nat → Nat → Vote → Bool} (hg : GoodSpec base) (es : List Player.Event) :
    GoodSpec (goodIn base es) where
  pos := by
    intro r p s a h
    simp only [goodIn, Bool.and_eq_true] at h
    exact hg.pos r p s a h.1
  cons := by
    intro r p s a b ha hb hs
    simp only [goodIn, Bool.and_eq_true] at ha hb
    exact hg.cons r p s a b ha.1 hb.1 hs

theorem runOK_goodIn (P : Params) (base : Nat → Nat → Nat → Vote → Bool) (es : List Player.Event) :
    ∀ (es' : List Player.Event) (σ : State), (∀ e ∈ es', e ∈ es) → RunOK P base σ es' → RunOK P (goodIn base es) σ es' := by
  intro es'
  induction es' with
  | nil => intro σ _ _; trivial
  | cons e rest ih =>
    intro σ hmem hr
    refine ⟨?_, fun σ' as hh => ih σ' (fun e' he' => hmem e' (List.mem_cons_of_mem _ he')) (hr.2 σ' as hh)⟩
    have he : e ∈ es := hmem e List.mem_cons_self
    have hev := hr.1
    cases e with
    | vote verified bad r p s x =>
      intro h1 h2 h3 h4
      simp only [goodIn, Bool.and_eq_true]
      refine ⟨hev h1 h2 h3 h4, List.any_eq_true.mpr ⟨_, he, ?_⟩⟩
      simp [isDelivery, h1, h2, h3, h4]
    | bundle verified bad r p s value votes eqs =>
      intro h1 h2 h3 h4 x hx
      simp only [goodIn, Bool.and_eq_true]
      refine ⟨hev h1 h2 h3 h4 x hx, List.any_eq_true.mpr ⟨_, he, ?_⟩⟩
      simp only [isDelivery, h1, Bool.true_and, Bool.and_eq_true, bne_iff_ne, ne_eq, beq_self_eq_true, and_true]
      exact ⟨⟨⟨h4, h2⟩, h3⟩, List.any_eq_true.mpr ⟨x, hx, by simp⟩⟩
    | payload verified bad p own => exact hev
    | pvote verified bad v taskIndex tail => trivial
    | timeout entropy => trivial
    | fastTimeout entropy => trivial
    | roundInterruption r => trivial
    | checkpoint r p s err => trivial

theorem runOK_prefix (P : Params) (good : Nat → Nat → Nat → Vote → Bool) : ∀ (es₁ es₂ : List Player.Event) (σ : State),
    RunOK P good σ (es₁ ++ es₂) → RunOK P good σ es₁ := by
  intro es₁
  induction es₁ with
  | nil => intro _ _ _; trivial
  | cons e rest ih => intro es₂ σ h; exact ⟨h.1, fun σ' as hh => ih es₂ σ' (h.2 σ' as hh)⟩

theorem runOKA_prefix (P : Params) : ∀ (es₁ es₂ : List Player.Event) (σ : State),
    RunOKA P σ (es₁ ++ es₂) → RunOKA P σ es₁ := by
  intro es₁
  induction es₁ with
  | nil => intro _ _ _; trivial
  | cons e rest ih => intro es₂ σ h; exact ⟨h.1, fun σ' as hh => ih es₂ σ' (h.2 σ' as hh)⟩

theorem fresh_jinv (P : Params) (good : Nat → Nat → Nat → Vote → Bool) {σ₀ : State} (h : Fresh σ₀) :
    SInv P good (JView P good) σ₀ := by
  obtain ⟨h1, h2, h3⟩ := h
  refine ⟨?_, ?_, by omega, by intro hn; rw [h3] at hn; cases hn⟩
  · rw [h1]; intro kv hkv; exact (List.not_mem_nil hkv).elim
  · rw [h1]; exact GRoot_empty

/-- **view_justified.**  In every state a fresh node reaches, for every (round, period) of its tree: a staged value has a
soft or cert quorum, a cached next value and a cached Bottom flag have a next quorum — of votes delivered as verified in
the run (apply it to a prefix of the run for "delivered so far": `runOK_prefix`, `runOKA_prefix`). -/
theorem view_justified (P : Params) (base : Nat → Nat → Nat → Vote → Bool) (hg : GoodSpec base)
    (σ₀ : State) (h0 : Fresh σ₀) (es : List Player.Event) (hr : RunOK P base σ₀ es) (hra : RunOKA P σ₀ es) :
    ∀ y ∈ snaps P σ₀ es, ∀ r p vw, viewAt y.1.root r p = some vw → JView P (goodIn base es) r p vw := by
  intro y hy r p vw hv
  have hI := snaps_inv (jview_spec P (goodIn base es)) (jview_set P _) (goodIn_spec hg es) es σ₀
    (fresh_jinv P _ h0) (runOK_goodIn P base es es σ₀ (fun _ h => h) hr) hra y hy
  exact G_of_viewAt hI.g hv

/-- **cert_vote_staged** (`RCertStaged`, and the value of `late` votes): the value of every cert / late attest has a soft
or cert quorum among the votes delivered as verified in the run. -/
theorem cert_vote_staged (P : Params) (base : Nat → Nat → Nat → Vote → Bool) (hg : GoodSpec base)
    (σ₀ : State) (h0 : Fresh σ₀) (es : List Player.Event) (hr : RunOK P base σ₀ es) (hra : RunOKA P σ₀ es)
    (hno : NoOverflow (snaps P σ₀ es)) :
    ∀ b ∈ allAtts P σ₀ es, b.s = 2 ∨ b.s = 253 → ∃ s, (s = 1 ∨ s = 2) ∧ Quorum P (goodIn base es) b.r b.p s b.v := by
  intro b hb hs
  obtain ⟨y, hy, hby⟩ := List.mem_flatMap.mp hb
  have hvj := view_justified P base hg σ₀ h0 es hr hra y hy
  have hatt := attests_in_period (jview_spec P (goodIn base es)) (jview_set P _) (goodIn_spec hg es) es σ₀
    (fresh_jinv P _ h0) (runOK_goodIn P base es es σ₀ (fun _ h => h) hr) hra y hy
  have hstep := hno y hy
  rcases hatt with h0' | ⟨b', hb', _, _, pl, hk⟩
  · rw [h0'] at hby; cases hby
  rw [hb'] at hby
  simp only [List.mem_singleton] at hby
  subst hby
  have key : StagedIs y.1.root b.r b.p b.v → ∃ s, (s = 1 ∨ s = 2) ∧ Quorum P (goodIn base es) b.r b.p s b.v := by
    rintro ⟨vw, h1, h2, h3⟩
    have := (hvj b.r b.p vw h1).2.1 h2
    rw [h3] at this
    exact this
  rcases hk with ⟨k, _⟩ | ⟨_, _, k⟩ | ⟨_, k, _⟩ | ⟨_, _, _, k⟩
  · omega
  · exact key k
  · omega
  · rcases k with ⟨_, k⟩ | ⟨k, _⟩ | ⟨k, _⟩
    · exact key k
    · omega
    · omega

/-- **redo_vote_cached**: the value of every redo attest has a next quorum, in the previous period, among the votes
delivered as verified in the run. -/
theorem redo_vote_cached (P : Params) (base : Nat → Nat → Nat → Vote → Bool) (hg : GoodSpec base)
    (σ₀ : State) (h0 : Fresh σ₀) (es : List Player.Event) (hr : RunOK P base σ₀ es) (hra : RunOKA P σ₀ es)
    (hno : NoOverflow (snaps P σ₀ es)) :
    ∀ b ∈ allAtts P σ₀ es, b.s = 254 → ∃ s, 3 ≤ s ∧ Quorum P (goodIn base es) b.r (predPeriod b.p) s b.v := by
  intro b hb hs
  obtain ⟨y, hy, hby⟩ := List.mem_flatMap.mp hb
  have hvj := view_justified P base hg σ₀ h0 es hr hra y hy
  have hatt := attests_in_period (jview_spec P (goodIn base es)) (jview_set P _) (goodIn_spec hg es) es σ₀
    (fresh_jinv P _ h0) (runOK_goodIn P base es es σ₀ (fun _ h => h) hr) hra y hy
  have hstep := hno y hy
  rcases hatt with h0' | ⟨b', hb', _, _, pl, hk⟩
  · rw [h0'] at hby; cases hby
  rw [hb'] at hby
  simp only [List.mem_singleton] at hby
  subst hby
  rcases hk with ⟨k, _⟩ | ⟨k, _⟩ | ⟨_, k, _⟩ | ⟨_, _, _, k⟩
  · omega
  · omega
  · omega
  · rcases k with ⟨k, _⟩ | ⟨_, knz, vw, h1, _, h3⟩ | ⟨k, _⟩
    · omega
    · have := (hvj b.r (predPeriod b.p) vw h1).2.2.1 (by rw [h3]; exact knz)
      rw [h3] at this
      exact this
    · omega

/-- **commit_cert_delivered** (`RCommit`): every `ensure` action carries a cert-step bundle of votes delivered as verified
in the run, for the payload's value and round, of weight ≥ the cert threshold (C03's `ensure_cert_valid` with `goodIn`). -/
theorem commit_cert_delivered (P : Params) (base : Nat → Nat → Nat → Vote → Bool) (hg : GoodSpec base)
    (σ₀ σ : State) (h0 : Fresh σ₀) (es : List Player.Event) (ass : List (List Action)) (hr : RunOK P base σ₀ es)
    (h : Player.run P σ₀ es = .ok (σ, ass)) :
    ∀ as ∈ ass, ∀ pay c, Action.ensure pay c ∈ as →
      c.step = 2 ∧ c.round = pay.round ∧ c.proposal = pay.value ∧ Quorum P (goodIn base es) c.round c.period 2 c.proposal := by
  intro as has pay c hmem
  have hI : Props.C03.Inv P (goodIn base es) σ₀ := by
    unfold Props.C03.Inv; rw [h0.1]; intro kv hkv; exact (List.not_mem_nil hkv).elim
  obtain ⟨h1, h2, h3, h4⟩ := Props.C03.ensure_cert_valid P (goodIn base es) (goodIn_spec hg es) σ₀ σ es ass hI
    (runOK_goodIn P base es es σ₀ (fun _ h => h) hr) h as has pay c hmem
  refine ⟨h1, h2, h3, ⟨c.proposal, c.votes, c.eqVotes⟩, ?_, rfl⟩
  have : cfgOf P 2 = ⟨2, P.certT⟩ := by simp [cfgOf, stepT]
  rw [this]; exact h4

end Delivered

/-! ### non-vacuity: a concrete run (C03's parameters, weights, initial state) that emits soft, cert, next, late votes in
period 0, moves to period 1 on a next-bottom quorum and emits down and next votes there — all hypotheses met -/

section Example
open Props.C03 (exP exGood exInit)

/-- proposal-vote for 51; filter timeout (soft vote 51); validated payload 51; two soft votes (weights 3 + 4 ≥ 5: soft
threshold ⇒ cert vote 51); deadline timeout (next vote 51, the value is committable); two fast timeouts (late vote 51);
two next votes for bottom (3 + 4 ≥ 6: next threshold ⇒ period 1); timeout (nothing to soft-vote); two fast timeouts
(down vote); two timeouts (Step 3 → nap at 4 → next vote for bottom at Step 4) -/
def exEvents : List Player.Event :=
  [.pvote true 0 ⟨9, 5, 0, 51, 3⟩ 0 none, .timeout 0, .payload true 0 ⟨51, 5⟩ false,
   .vote true 0 5 0 1 ⟨2, 3, 51⟩, .vote true 0 5 0 1 ⟨3, 4, 51⟩, .timeout 0, .fastTimeout 0, .fastTimeout 0,
   .vote true 0 5 0 3 ⟨2, 3, 0⟩, .vote true 0 5 0 3 ⟨3, 4, 0⟩, .timeout 0, .fastTimeout 0, .fastTimeout 0,
   .timeout 0, .timeout 0]

example : GoodSpec exGood where
  pos := by intro r p s a h; simp [exGood] at h; omega
  cons := by intro r p s a b ha hb hs; simp [exGood] at ha hb; omega

example : Fresh exInit := ⟨rfl, rfl, rfl⟩
example : NodeInv exP exGood exInit := fresh_inv exP exGood ⟨rfl, rfl, rfl⟩

/-- every hypothesis of `attest_once`, `playerM_no_equivocation`, `player_votes_justified_partial`, `view_justified`,
`cert_vote_staged`, `redo_vote_cached` holds for this run -/
theorem exEnv : EnvOK exP exGood exInit exEvents := envOKb_sound exP exGood exInit exEvents (by decide)

/-- … and PlayerM really emits soft, cert, next, late, down and next attests -/
example : (allAtts exP exInit exEvents).map (fun a => (a.r, a.p, a.s, a.v)) =
    [(5, 0, 1, 51), (5, 0, 2, 51), (5, 0, 3, 51), (5, 0, 253, 51), (5, 1, 255, 0), (5, 1, 4, 0)] := by decide

/-- the projected abstract history of node 7 in round 5 (newest first) that `player_votes_justified_partial` talks about -/
example : projVotes 7 5 (allAtts exP exInit exEvents) =
    [.vote ⟨7, 1, .next 1, none⟩, .vote ⟨7, 1, .next 252, none⟩, .vote ⟨7, 0, .next 250, some 51⟩,
     .vote ⟨7, 0, .next 0, some 51⟩, .vote ⟨7, 0, .cert, some 51⟩, .vote ⟨7, 0, .soft, some 51⟩] := by decide

/-- the guarded player stays alive along the whole run (every prefix passes the environment check), so it IS PlayerM here -/
example : (AgreementSvc.runSt (guardedPlayerM exP exGood exInit) exEvents.reverse).2.2 = true := by decide

/-- a trace of the attest → persist → checkpoint → release machine over PlayerM with two crashes: the soft vote is released
three times, always with the value 51; the final logical run meets `EnvOK` -/
def exTrace : List (AgreementSvc.Label Player.Event) :=
  [.handle (.pvote true 0 ⟨9, 5, 0, 51, 3⟩ 0 none), .handle (.timeout 0), .doAttest 1, .persisted true, .checkpoint 1,
   .release 1, .crash, .doAttest 2, .persisted true, .checkpoint 2, .release 2, .crash, .doAttest 3, .persisted true,
   .checkpoint 3, .release 3, .handle (.payload true 0 ⟨51, 5⟩ false)]

example : (AgreementSvc.run (playerSvc exP (some exInit)) true (AgreementSvc.init (playerSvc exP (some exInit))) exTrace).map
    (fun s => (s.rho.map (fun a => (a.r, a.p, a.s, a.v)), envOKb exP exGood exInit s.log.reverse)) =
    some ([(5, 0, 1, 51), (5, 0, 1, 51), (5, 0, 1, 51)], true) := by decide

end Example

/-! ### `RNextOwnCert`: next-type votes after the own cert vote

History.  Before repo commit b6f661fbce `proposalStore.handle` (softThreshold / certThreshold) returned `committableEvent`
*without* recording `store.Relevant[te.Period] = e.Proposal` when the payload was already assembled; an assembler referenced
only through `Relevant[Period + 1]` was then dropped by `store.trim` as soon as a better period + 1 proposal-vote arrived, and
the player — having cert-voted the value — next-voted ⊥ (run `dropEvents` below; found with this file, reproduced on the real
player and as a two-block commit by NetDrive).  The model has the fixed handler.

`comm_stable` (FULL): along every run of the fixed model that meets `EnvOK` and `PeriodsFit`, while the player stays in
(r, p) a committable value of (r, p) — Staging with its payload in the round's store — stays committable: the assembler of
the staged value survives every `proposalStore.trim`.  Proof (`Lemmas/PlayerAttestFrame`, `PlayerAttestKeep`,
`PlayerAttestKeepStep`): a state invariant `NRoot` (a Staging set by a threshold is ≠ ⊥ and has `Relevant[period] = Staging`
for the periods the player has not left; no assembler under ⊥) — established by `stage` ONLY because the fixed handler sets
`Relevant` in both branches (`nr_threshold`) — and a relational invariant `DRoot` (Staging = v, `Relevant[p] = v`, payload of v
present) kept by every operation while the player stays in (r, p): later period-p proposal-votes are filtered once Staging ≠ ⊥,
`newPeriod` only runs when the player leaves p, `trim` keeps every Relevant value's assembler, payload events only fill;
a threshold of (r, p) for another value is excluded by `StagedStable`.
`player_next_own_cert` (FULL): hence every next-type vote (next s, late, redo, down) of the projected history satisfies
`RNextOwnCert` WITHOUT excuse.  Hypotheses: `EnvOK`, `PeriodsFit` (Period + 1 < 2^64 in the start state and every reached
state), and the start state satisfies `NodeInv` and `NS` (both hold for a fresh node).
`threshold_fix_separates`: on the store reached in `dropEvents`, the fixed handler keeps `Relevant[0] = 51` and the payload of
51 survives the next proposal-vote, while the pre-fix handler (`thresholdOld`) leaves `Relevant[0]` unset and the payload is
trimmed. -/

section NextOwnCert
open AlgoVerif.Spec
open Props.C03 (exP exGood exInit)

/-- the invariants a run starts from: the node invariant and `NRoot` at the player's own (Round, Period) -/
abbrev NodeInvN (P : Params) (good : Nat → Nat → Nat → Vote → Bool) (σ : State) : Prop := SInvN P good PTOK σ

theorem fresh_invN (P : Params) (good : Nat → Nat → Nat → Vote → Bool) {σ₀ : State} (h : Fresh σ₀) : NodeInvN P good σ₀ :=
  ⟨fresh_inv P good h, by unfold NS; rw [h.1]; intro kv hkv; exact (List.not_mem_nil hkv).elim⟩

/-- **comm_stable** (= the former `CommStableStatement`). -/
theorem comm_stable (P : Params) (good : Nat → Nat → Nat → Vote → Bool) (hg : GoodSpec good) (σ₀ : State)
    (hI : NodeInvN P good σ₀) (es : List Player.Event) (henv : EnvOK P good σ₀ es) (hpf : PeriodsFit (snaps P σ₀ es)) :
    CommStable (snaps P σ₀ es) :=
  AlgoVerif.Lemmas.PlayerAttest.comm_stable (ptok_spec P good) ptok_set hg es σ₀ hI henv.run henv.runA hpf henv.staged

/-- **player_next_own_cert.** -/
theorem player_next_own_cert (P : Params) (good : Nat → Nat → Nat → Vote → Bool) (hg : GoodSpec good)
    (σ₀ : State) (hI : NodeInvN P good σ₀) (es : List Player.Event) (henv : EnvOK P good σ₀ es)
    (hfit : σ₀.pl.period + 1 < 18446744073709551616) (hpf : PeriodsFit (snaps P σ₀ es))
    (Pabs : AgreementAbs.Params) (n r : Nat) {post pre : List AgreementAbs.Ev} {v : AgreementAbs.Vote}
    (hsplit : projVotes n r (allAtts P σ₀ es) = post ++ AgreementAbs.Ev.vote v :: pre)
    (hnext : v.s.isNext = true) : AgreementAbs.RNextOwnCert false Pabs pre v := by
  have hcs := comm_stable P good hg σ₀ hI es henv hpf
  have hnac := allAtts_nextAfterCert (ptok_spec P good) ptok_set hg es σ₀ hI.s henv.run henv.runA hfit hpf hcs
  have hpos := allAtts_step_pos (ptok_spec P good) ptok_set hg es σ₀ hI.s henv.run henv.runA
  have hpre := proj_pre hnac hsplit
  refine Or.inl ?_
  intro v' hv' _ hp hcert
  obtain ⟨b', hb', b, hb, e1, e2, e3, e4, hn⟩ := hpre v' hv'
  subst e3; subst e4
  have hb2 : b'.s = 2 := (absStep_cert b'.s).mp hcert
  have h12 := (absStep_isNext b.s).mp hnext
  have := hpos b hb
  show absVal b'.v = absVal b.v
  rw [hn (e1.trans e2.symm) hp hb2 (by omega)]

/-- period-1 re-proposal of 51 (credential 3); payload 51; soft quorum for 51 in period 0 (⇒ cert vote 51); period-1
proposal 1052 with the better credential 1 (before the fix: assembler of 51 trimmed); filter timeout; deadline timeout
(before the fix: next vote ⊥; now: next vote 51); two fast timeouts (late vote 51); two timeouts (next vote 51 at Step 4) -/
def dropEvents : List Player.Event :=
  [.pvote true 0 ⟨9, 5, 1, 51, 3⟩ 0 none, .payload true 0 ⟨51, 5⟩ false,
   .vote true 0 5 0 1 ⟨2, 3, 51⟩, .vote true 0 5 0 1 ⟨3, 4, 51⟩,
   .pvote true 0 ⟨8, 5, 1, 1052, 1⟩ 0 none, .timeout 0, .timeout 0, .fastTimeout 0, .fastTimeout 0, .timeout 0, .timeout 0]

/-- the old counterexample run meets every hypothesis of `player_next_own_cert` … -/
example : NodeInvN exP exGood exInit ∧ EnvOK exP exGood exInit dropEvents ∧ PeriodsFit (snaps exP exInit dropEvents) :=
  ⟨fresh_invN exP exGood ⟨rfl, rfl, rfl⟩, envOKb_sound exP exGood exInit dropEvents (by decide), by decide⟩

/-- … and now yields next-type votes for the cert-voted value 51 (corpus/player/trim-drops-staged-payload.ops replays the
same events on the real player); `CommStable`, here evaluated directly, is what `comm_stable` proves in general -/
example : (allAtts exP exInit dropEvents).map (fun a => (a.r, a.p, a.s, a.v)) =
    [(5, 0, 2, 51), (5, 0, 3, 51), (5, 0, 253, 51), (5, 0, 4, 51)] ∧ CommStable (snaps exP exInit dropEvents) :=
  ⟨by decide, by decide⟩

/-- the pre-fix `proposalStore` handler for a soft/cert threshold: `Relevant` is only set when the payload is missing -/
def thresholdOld (pl : PlayerF) (rr : RoundR) (e : Thresh) : Except Panic (RoundR × Option (Nat × Option PVote)) :=
  match rr.atPeriod pl e.period 0 (fun pr => pr.stage e.kind e.proposal) with
  | .error err => .error err
  | .ok (rr, ()) =>
    let ea := rr.store.asm e.proposal
    if ea.payload.isSome then .ok (rr, some (e.proposal, ea.authenticator pl.period))
    else
      let st := { rr.store with assemblers := aset rr.store.assemblers e.proposal ea,
                                relevant := aset rr.store.relevant e.period e.proposal }
      .ok ({ rr with store := st.trim pl.period }, none)

/-- the round-5 router of `dropEvents` when the soft threshold for 51 arrives: 51 is known only as a period-1 re-proposal -/
def dropRR : RoundR :=
  { store := { relevant := [(1, 51)], pinned := 0,
               assemblers := [(51, { payload := some ⟨51, 5⟩, auths := [⟨9, 5, 1, 51, 3⟩] })] } }

def dropThresh : Thresh := ⟨1, 5, 0, 1, 51, ⟨51, [⟨3, 4, 51⟩, ⟨2, 3, 51⟩], []⟩⟩

/-- what is left after the threshold and the better period-1 proposal-vote: (`Relevant[0]`, payload of 51 still stored) -/
def afterDrop (thr : PlayerF → RoundR → Thresh → Except Panic (RoundR × Option (Nat × Option PVote))) :
    Option (Option Nat × Option Nat × Bool) :=
  match thr exInit.pl dropRR dropThresh with
  | .error _ => none
  | .ok (rr₁, _) =>
    match rr₁.pvoteVerified exInit.pl ⟨8, 5, 1, 1052, 1⟩ with
    | .error _ => none
    | .ok (rr₂, _) => some (aget rr₁.store.relevant 0, aget rr₂.store.relevant 0, (rr₂.store.asm 51).payload.isSome)

/-- **threshold_fix_separates.**  Fixed handler: `Relevant[0] = 51` (the clause of `NRoot` that `nr_threshold` establishes) and
the payload of the staged value survives; pre-fix handler: `Relevant[0]` unset although Staging(0) = 51 was set by the
threshold — `NRoot` is violated — and the payload is trimmed. -/
theorem threshold_fix_separates :
    afterDrop RoundR.threshold = some (some 51, some 51, true) ∧ afterDrop thresholdOld = some (none, none, false) := by
  constructor <;> decide

end NextOwnCert

/-! ### 5. values of soft / next votes (`RSoftStart`, `RNextVal`) and the quorum rules in ABSTRACT form

`vote_values` (FULL, concrete form): what every soft / next / down vote read from the tree (`ValFact`): a soft vote is never
⊥ and is the cached starting value when cache(p−1) = (Bottom = false, value); a next vote is the committable value, else
⊥ / the cached value as cache(p−1) says; a down vote is cast only when nothing non-⊥ is committable and the cache has Bottom or
no value.  (cert / late / redo values: `AttKind`, `cert_vote_staged`, `redo_vote_cached`.)

`HistLink P good Pabs r h` — how an abstract history `h` must be linked to the concrete run for the quorum lift
(`Lemmas.PlayerAttestAbs.quorum_abs`): every vote of round `r` delivered to the node as verified (`good` = `goodIn base es`)
is in `h` (Go step s ↦ `absStep s`, value 0 ↦ ⊥), its sender is a node of `Pabs` with the credential weight as abstract
weight, and the single abstract threshold is a lower bound of every step threshold (`Pabs.T ≤ stepT P s`).
`PrevLink L root r p` — the abstract local state `L` (the fold of the node's `see` events) shows, for the previous period,
what the tree's period tracker has cached (for p = 0: the Go code reads the tracker of period 2^64 − 1, which must be empty).

Under these two links (`vote_rules_abs`): `RSoftStart`, `RCertStaged`, `RNextVal` hold for the abstract image of every vote;
`cached_nextQ` (`RSee`; with `Pabs.T > 0`): whatever a period tracker has cached has a next quorum in `h`;
`commit_certQ` (`RCommit`): every `ensure` has a cert quorum in `h`.
With `player_votes_justified_partial` (`RUnique`, `RBeforeNext`, `RCertAfterNext`), `player_next_own_cert` (`RNextOwnCert`) and
`votes_in_period` (`RPeriod`, concrete) every rule of `okVote` is covered.

`projFull` is the executable projection of a run to a complete abstract history of one round (delivered votes, `see` for
every change of a cache, `enter` with its cause, own votes, `commit`); the abstract acceptor `wfCheck` accepts the projections
of the three example runs (`by decide`).  `histLink_projFull` (FULL): the constructed projection of a run without panic is
`HistLink`ed (every delivered verified vote of another sender is in it), given only that node set / weights / threshold of
`Pabs` fit the delivered votes.  NOT proved in general: that `projFull` satisfies `PrevLink`, the period tracking
(`localOf.period` = the player's Period, i.e. abstract `RPeriod` / `REnterGrow`) and `REnterCause` — i.e. that the fold of
the projected `see` / `enter` events tracks the tree's caches — and the per-vote "delivered so far" split of `projFull`;
these are the remaining named gaps to "PlayerM ⊑ WF" as a theorem. -/

section AbsRules
open AlgoVerif.Spec AlgoVerif.Lemmas.AgreementAbs
open AlgoVerif.Model.VoteTracker (Bundle)

/-- **vote_values.** -/
theorem vote_values (P : Params) (good : Nat → Nat → Nat → Vote → Bool) (hg : GoodSpec good)
    (σ₀ : State) (hI : NodeInv P good σ₀) (es : List Player.Event) (hr : RunOK P good σ₀ es) (hra : RunOKA P σ₀ es)
    (hno : NoOverflow (snaps P σ₀ es)) : ∀ y ∈ snaps P σ₀ es, ∀ b ∈ y.2, ValFact y.1 b :=
  snaps_val (ptok_spec P good) ptok_set hg es σ₀ hI hr hra hno

theorem absVal_inj : ∀ a b, absVal a = absVal b → a = b := by
  intro a b h
  unfold absVal at h
  split at h <;> split at h <;> simp_all

theorem absVal_some {v : Nat} (h : v ≠ 0) : absVal v = some v := by unfold absVal; rw [if_neg h]

structure HistLink (P : Params) (good : Nat → Nat → Nat → Vote → Bool) (Pabs : AgreementAbs.Params) (r : Nat)
    (h : List AgreementAbs.Ev) : Prop where
  thr : ∀ s, s ≠ 0 → Pabs.T ≤ stepT P s
  link : ∀ p s a, good r p s a = true → a.sender ∈ Pabs.nodes ∧ Pabs.w a.sender = a.weight ∧
    AgreementAbs.VotedFor h a.sender p (absStep s) (absVal a.value)

/-- the quorum lift for the concrete quorum notion of this file -/
theorem quorum_Q {P : Params} {good : Nat → Nat → Nat → Vote → Bool} {Pabs : AgreementAbs.Params} {r : Nat}
    {h : List AgreementAbs.Ev} (hl : HistLink P good Pabs r h) {p s v : Nat} (hs : s ≠ 0) (hq : Quorum P good r p s v) :
    AgreementAbs.Q Pabs h p (absStep s) (absVal v) := by
  obtain ⟨b, hb, rfl⟩ := hq
  exact quorum_abs Pabs h p (absStep s) absVal absVal_inj (cfgOf P s) (good r p s) b (hl.link p s) (hl.thr s hs) hb

def absCache (ns : NextStatus) : AgreementAbs.Cache := ⟨ns.bottom, absVal ns.proposal⟩

def PrevLink (L : AgreementAbs.Local) (root : Root) (r p : Nat) : Prop :=
  ∀ ns, CacheAt root r (predPeriod p) ns → L.prev p = absCache ns

theorem viewAt_some {root : Root} {r p : Nat} {vw : PView} (h : viewAt root r p = some vw) :
    ∃ rr pr, RAt root r p rr pr ∧ pview pr = vw := by
  unfold viewAt at h
  cases hr : aget root.rounds r with
  | none => rw [hr] at h; cases h
  | some rr =>
    rw [hr] at h
    simp only [Option.bind_some] at h
    cases hp : aget rr.periods p with
    | none => rw [hp] at h; cases h
    | some pr =>
      rw [hp] at h
      simp only [Option.map_some, Option.some.injEq] at h
      exact ⟨rr, pr, ⟨hr, hp⟩, h⟩

theorem fresh_jinvN (P : Params) (good : Nat → Nat → Nat → Vote → Bool) {σ₀ : State} (h : Fresh σ₀) :
    SInvN P good (JView P good) σ₀ :=
  ⟨fresh_jinv P good h, by unfold NS; rw [h.1]; intro kv hkv; exact (List.not_mem_nil hkv).elim⟩

/-- a value staged for the player's own (round, period): not ⊥, and a soft or cert quorum in every linked history -/
theorem staged_abs {P : Params} {good : Nat → Nat → Nat → Vote → Bool} {Pabs : AgreementAbs.Params}
    {pre : List AgreementAbs.Ev} {σ : State} (hinv : SInvN P good (JView P good) σ)
    (hl : HistLink P good Pabs σ.pl.round pre) {v : Nat} (h : StagedIs σ.root σ.pl.round σ.pl.period v) :
    v ≠ 0 ∧ AgreementAbs.stagedQ Pabs pre σ.pl.period v := by
  obtain ⟨vw, h1, h2, h3⟩ := h
  obtain ⟨rr, pr, hat, hpv⟩ := viewAt_some h1
  have hj := G_of_viewAt hinv.s.g h1
  obtain ⟨s, hs, hq⟩ := hj.2.1 h2
  rw [h3] at hq
  have hset : (pview pr).set = true := by rw [hpv]; exact h2
  have hv0 : v ≠ 0 := by
    have := (hinv.n (σ.pl.round, rr) (aget_mem hat.1)).2 σ.pl.period pr hat.2 hset
    rw [← h3, ← hpv]; exact this.1
  refine ⟨hv0, ?_⟩
  have hQ := quorum_Q hl (by omega) hq
  rw [absVal_some hv0] at hQ
  rcases hs with rfl | rfl
  · exact Or.inl hQ
  · exact Or.inr hQ

/-- **vote_rules_abs.**  (apply it to the prefix of the run that ends with the vote for "delivered so far") -/
theorem vote_rules_abs (P : Params) (base : Nat → Nat → Nat → Vote → Bool) (hg : GoodSpec base)
    (σ₀ : State) (h0 : Fresh σ₀) (es : List Player.Event) (hr : RunOK P base σ₀ es) (hra : RunOKA P σ₀ es)
    (hno : NoOverflow (snaps P σ₀ es)) (Pabs : AgreementAbs.Params) (n : Nat) (pre : List AgreementAbs.Ev) :
    ∀ y ∈ snaps P σ₀ es, ∀ b ∈ y.2, HistLink P (goodIn base es) Pabs b.r pre →
      PrevLink (AgreementAbs.localOf pre n) y.1.root b.r b.p →
      (b.s = 1 → AgreementAbs.RSoftStart pre (absVote n b)) ∧
      (b.s = 2 → AgreementAbs.RCertStaged Pabs pre (absVote n b)) ∧
      (3 ≤ b.s → AgreementAbs.RNextVal Pabs pre (absVote n b)) := by
  intro y hy b hb hl hpl
  have hs := jview_spec P (goodIn base es)
  have hset := jview_set P (goodIn base es)
  have hg' := goodIn_spec hg es
  have hr' := runOK_goodIn P base es es σ₀ (fun _ h => h) hr
  have hI := fresh_jinvN P (goodIn base es) h0
  have hinv := (snaps_lex hs hset hg' es σ₀ hI hr' hra y hy).2
  have hatt := attests_in_period hs hset hg' es σ₀ hI.s hr' hra y hy
  have hval := snaps_val hs hset hg' es σ₀ hI.s hr' hra hno y hy b hb
  have hstep := hno y hy
  rcases hatt with h0' | ⟨b', hb', hbr, hbp, pl, hk⟩
  · rw [h0'] at hb; cases hb
  rw [hb'] at hb
  simp only [List.mem_singleton] at hb
  subst hb
  rw [hbr] at hl
  have hstg : ∀ v, StagedIs y.1.root b.r b.p v → v ≠ 0 ∧ AgreementAbs.stagedQ Pabs pre b.p v := by
    intro v hv
    rw [hbr, hbp] at hv
    rw [hbp]
    exact staged_abs hinv hl hv
  have hcomm : ∀ v, commVal y.1.root b.r b.p = some v → v ≠ 0 ∧ AgreementAbs.stagedQ Pabs pre b.p v := by
    intro v hv
    rw [hbr, hbp] at hv
    obtain ⟨_, hD⟩ := commVal_droot hset hinv hv
    have := droot_stagedIs hD
    rw [← hbr, ← hbp] at this
    exact hstg v this
  -- the shape of `RNextVal` on the abstract image
  have nv_some : ∀ {v : Nat}, b.v = v → v ≠ 0 →
      (AgreementAbs.stagedQ Pabs pre b.p v ∨ (AgreementAbs.localOf pre n).prev b.p = ⟨false, some v⟩) →
      AgreementAbs.RNextVal Pabs pre (absVote n b) := by
    intro v e hv h
    unfold AgreementAbs.RNextVal
    show match absVal b.v with | some y => _ | none => _
    rw [e, absVal_some hv]; exact h
  have nv_none : b.v = 0 →
      (((AgreementAbs.localOf pre n).prev b.p).bottom = true ∨ ((AgreementAbs.localOf pre n).prev b.p).prop = none) →
      AgreementAbs.RNextVal Pabs pre (absVote n b) := by
    intro e h
    unfold AgreementAbs.RNextVal
    show match absVal b.v with | some y => _ | none => _
    rw [e]; exact h
  have cache_case : ∀ ns, CacheAt y.1.root b.r (predPeriod b.p) ns → (b.v = if ns.bottom then 0 else ns.proposal) →
      AgreementAbs.RNextVal Pabs pre (absVote n b) := by
    intro ns hc hv
    have hp := hpl ns hc
    by_cases hb0 : b.v = 0
    · refine nv_none hb0 ?_
      rw [hp]
      by_cases hbt : ns.bottom = true
      · exact Or.inl hbt
      · rw [if_neg hbt] at hv
        refine Or.inr ?_
        show absVal ns.proposal = none
        rw [← hv, hb0]; rfl
    · have hbt : ns.bottom = false := by
        cases hh : ns.bottom with
        | false => rfl
        | true => rw [hh, if_pos rfl] at hv; exact absurd hv hb0
      rw [hbt] at hv
      simp only [Bool.false_eq_true, if_false] at hv
      refine nv_some rfl hb0 (Or.inr ?_)
      rw [hp]
      show (⟨ns.bottom, absVal ns.proposal⟩ : AgreementAbs.Cache) = _
      rw [hbt, ← hv, absVal_some hb0]
  have down_case : b.v = 0 → (commVal y.1.root b.r b.p = some 0 ∨
      ∃ ns, CacheAt y.1.root b.r (predPeriod b.p) ns ∧ (ns.bottom = true ∨ ns.proposal = 0)) →
      AgreementAbs.RNextVal Pabs pre (absVote n b) := by
    intro hb0 h
    rcases h with h | ⟨ns, hc, h⟩
    · exact absurd rfl (hcomm 0 h).1
    · refine nv_none hb0 ?_
      rw [hpl ns hc]
      rcases h with h | h
      · exact Or.inl h
      · exact Or.inr (by show absVal ns.proposal = none; rw [h]; rfl)
  refine ⟨fun h1 => ?_, fun h2 => ?_, fun h3 => ?_⟩
  · -- soft
    obtain ⟨ns, hc, hne, himp⟩ := hval.1 h1
    refine ⟨(by show absVal b.v ≠ none; rw [absVal_some hne]; intro h; cases h), ?_⟩
    intro hbot0 hprop0
    have hbot : ((AgreementAbs.localOf pre n).prev b.p).bottom = false := hbot0
    have hprop : ((AgreementAbs.localOf pre n).prev b.p).prop ≠ none := hprop0
    show absVal b.v = ((AgreementAbs.localOf pre n).prev b.p).prop
    by_cases hp0 : b.p = 0
    · exfalso
      apply hprop
      unfold AgreementAbs.Local.prev
      rw [if_pos hp0]; rfl
    · rw [hpl ns hc] at hbot hprop ⊢
      have hpn : ns.proposal ≠ 0 := by
        intro e; apply hprop; show absVal ns.proposal = none; rw [e]; rfl
      show absVal b.v = absVal ns.proposal
      rw [himp (by omega) hbot hpn]
  · -- cert
    rcases hk with ⟨k, _⟩ | ⟨_, _, k⟩ | ⟨k, _⟩ | ⟨_, _, _, k⟩
    · omega
    · obtain ⟨hv0, hq⟩ := hstg b.v k
      unfold AgreementAbs.RCertStaged
      show match absVal b.v with | some y => _ | none => _
      rw [absVal_some hv0]; exact hq
    · omega
    · rcases k with ⟨k, _⟩ | ⟨k, _⟩ | ⟨k, _⟩ <;> omega
  · -- next-type
    rcases hk with ⟨k, _⟩ | ⟨k, _⟩ | ⟨_, k2, _⟩ | ⟨_, _, _, k⟩
    · omega
    · omega
    · rcases hval.2.1 h3 (by omega) with h | ⟨ns, hc, hv⟩
      · obtain ⟨hv0, hq⟩ := hcomm b.v h
        exact nv_some rfl hv0 (Or.inl hq)
      · exact cache_case ns hc hv
    · rcases k with ⟨_, k⟩ | ⟨_, knz, vw, h1, hbt, hpr⟩ | ⟨k5, k0⟩
      · obtain ⟨hv0, hq⟩ := hstg b.v k
        exact nv_some rfl hv0 (Or.inl hq)
      · refine nv_some rfl knz (Or.inr ?_)
        rw [hpl vw.cached ⟨vw, h1, rfl⟩]
        show (⟨vw.cached.bottom, absVal vw.cached.proposal⟩ : AgreementAbs.Cache) = _
        rw [hbt, hpr, absVal_some knz]
      · exact down_case k0 (hval.2.2 k5)

/-- **cached_nextQ** (`RSee`, `REnterCause … viaNext`): in every reached state, what a period tracker has cached has a next
quorum in every linked history. -/
theorem cached_nextQ (P : Params) (base : Nat → Nat → Nat → Vote → Bool) (hg : GoodSpec base)
    (σ₀ : State) (h0 : Fresh σ₀) (es : List Player.Event) (hr : RunOK P base σ₀ es) (hra : RunOKA P σ₀ es)
    (Pabs : AgreementAbs.Params) (hT : 0 < Pabs.T) (h : List AgreementAbs.Ev) :
    ∀ y ∈ snaps P σ₀ es, ∀ r q vw, viewAt y.1.root r q = some vw → HistLink P (goodIn base es) Pabs r h →
      (vw.cached.proposal ≠ 0 → AgreementAbs.nextQ Pabs h q (some vw.cached.proposal)) ∧
      (vw.cached.bottom = true → AgreementAbs.nextQ Pabs h q none) := by
  intro y hy r q vw hv hl
  have hj := view_justified P base hg σ₀ h0 es hr hra y hy r q vw hv
  have lift : ∀ (s v : Nat), 3 ≤ s → Quorum P (goodIn base es) r q s v → AgreementAbs.nextQ Pabs h q (absVal v) := by
    intro s v hs3 hq
    have hQ := quorum_Q hl (by omega) hq
    have hS : absStep s = .next (s - 3) := by unfold absStep; rw [if_neg (by omega), if_neg (by omega)]
    rw [hS] at hQ
    have hpos : 0 < AgreementAbs.wtl Pabs.w Pabs.nodes (AgreementAbs.inSupp h q (.next (s - 3)) (absVal v)) :=
      Nat.lt_of_lt_of_le hT hQ
    obtain ⟨a, _, ha⟩ := wtl_pos hpos
    rcases inSupp_iff.mp ha with hvf | ⟨x, hx, _, _, _, hxp, hxs, _⟩
    · exact nextQ_of_Q (v := ⟨a, q, .next (s - 3), absVal v⟩) hvf rfl rfl hQ
    · exact nextQ_of_Q hx hxp hxs hQ
  refine ⟨fun hp => ?_, fun hb => ?_⟩
  · obtain ⟨s, hs3, hq⟩ := hj.2.2.1 hp
    have := lift s _ hs3 hq
    rw [absVal_some hp] at this
    exact this
  · obtain ⟨s, hs3, hq⟩ := hj.2.2.2 hb
    exact lift s 0 hs3 hq

/-- **commit_certQ** (`RCommit`). -/
theorem commit_certQ (P : Params) (base : Nat → Nat → Nat → Vote → Bool) (hg : GoodSpec base)
    (σ₀ σ : State) (h0 : Fresh σ₀) (es : List Player.Event) (ass : List (List Action)) (hr : RunOK P base σ₀ es)
    (h : Player.run P σ₀ es = .ok (σ, ass)) (Pabs : AgreementAbs.Params) (hist : List AgreementAbs.Ev) :
    ∀ as ∈ ass, ∀ pay c, Action.ensure pay c ∈ as → HistLink P (goodIn base es) Pabs c.round hist → c.proposal ≠ 0 →
      AgreementAbs.RCommit Pabs hist c.period c.proposal := by
  intro as has pay c hmem hl hv
  obtain ⟨_, _, _, hq⟩ := commit_cert_delivered P base hg σ₀ σ h0 es ass hr h as has pay c hmem
  have := quorum_Q hl (by decide) hq
  rw [absVal_some hv] at this
  exact this

/-! #### the executable projection to a complete abstract history of one round -/

/-- one handled event: state before, event, state after, actions -/
structure Rec where
  pre : State
  ev : Player.Event
  post : State
  acts : List Action

def recs (P : Params) : State → List Player.Event → List Rec
  | _, [] => []
  | σ, e :: rest =>
    match Player.handle P σ e with
    | .error _ => []
    | .ok (σ', as) => ⟨σ, e, σ', as⟩ :: recs P σ' rest

def cachedOf (root : Root) (r q : Nat) : NextStatus := ((viewAt root r q).map (·.cached)).getD {}

/-- the verified votes of round `r` the event delivers (votes of the node itself are its own attests) -/
def delivOf (n r : Nat) : Player.Event → List AgreementAbs.Ev
  | .vote verified bad r' p s x =>
    if verified = true ∧ bad ≠ 1 ∧ bad ≠ 2 ∧ bad ≠ 3 ∧ r' = r ∧ x.sender ≠ n then
      [.vote ⟨x.sender, p, absStep s, absVal x.value⟩] else []
  | .bundle verified bad r' p s value votes eqs =>
    if verified = true ∧ bad ≠ 1 ∧ bad ≠ 2 ∧ bad ≠ 3 ∧ r' = r then
      ((bundleVotes value votes eqs).filter (fun x => x.sender != n)).map
        (fun x => .vote ⟨x.sender, p, absStep s, absVal x.value⟩) else []
  | _ => []

/-- a `see` for every change of a next-threshold cache of round `r` -/
def seeOf (n r : Nat) (pre post : Root) : List AgreementAbs.Ev :=
  match aget post.rounds r with
  | none => []
  | some rr => rr.periods.flatMap (fun kv =>
      let old := cachedOf pre r kv.1
      let new := cachedOf post r kv.1
      (if !old.bottom && new.bottom then [AgreementAbs.Ev.see n kv.1 none] else []) ++
      (if new.proposal != old.proposal && new.proposal != 0 then [AgreementAbs.Ev.see n kv.1 (some new.proposal)] else []))

/-- the cause of entering period `p`: the staged value's threshold, else the cached next threshold of `p − 1` -/
def causeOf (root : Root) (r p : Nat) : AgreementAbs.Cause :=
  let nextCause : AgreementAbs.Cause :=
    let c := cachedOf root r (p - 1)
    if c.bottom then .viaNext none else .viaNext (absVal c.proposal)
  match (aget root.rounds r).bind (fun rr => aget rr.periods p) with
  | some pr => if pr.ptContract.sawSoft then .viaSoft pr.ptracker.staging
               else if pr.ptContract.sawCert then .viaCert pr.ptracker.staging else nextCause
  | none => nextCause

def enterOf (n r : Nat) (pre post : State) : List AgreementAbs.Ev :=
  let old := if pre.pl.round = r then pre.pl.period else 0
  if post.pl.round = r ∧ post.pl.period ≠ old then [.enter n post.pl.period (causeOf post.root r post.pl.period)] else []

/-- an `ensure` action of round `r` is a commit of the certificate's value.  (A certificate for the bottom value is not
projected: `voteTrackerContract` rules it out — `KindOK` — but the action list does not expose that.) -/
def commitOf (n r : Nat) : Action → List AgreementAbs.Ev
  | .ensure _ c => if c.round = r ∧ c.proposal ≠ 0 then [.commit n c.period c.proposal] else []
  | _ => []

/-- per handled event: delivered votes, `see`, `enter`, own votes, `commit` (oldest first) -/
def evsOf (n r : Nat) (x : Rec) : List AgreementAbs.Ev :=
  delivOf n r x.ev ++ seeOf n r x.pre.root x.post.root ++ enterOf n r x.pre x.post ++
  ((atts x.acts).filter (fun b => b.r == r)).map (fun b => .vote (absVote n b)) ++ x.acts.flatMap (commitOf n r)

/-- the abstract history (newest first) of round `r` as seen by node `n` -/
def projFull (P : Params) (n r : Nat) (σ₀ : State) (es : List Player.Event) : List AgreementAbs.Ev :=
  ((recs P σ₀ es).flatMap (evsOf n r)).reverse

theorem recs_events (P : Params) : ∀ (es : List Player.Event) (σ σ' : State) (ass : List (List Action)),
    Player.run P σ es = .ok (σ', ass) → (recs P σ es).map (·.ev) = es := by
  intro es
  induction es with
  | nil => intro _ _ _ _; rfl
  | cons e rest ih =>
    intro σ σ' ass h
    simp only [Player.run] at h
    split at h
    · cases h
    rename_i σ₁ as₁ hh
    split at h
    · cases h
    rename_i σ₂ ass₂ hr
    simp only [recs, hh, List.map_cons]
    rw [ih σ₁ σ₂ ass₂ hr]

/-- **histLink_projFull** (the "delivered votes are in the history" hypothesis holds for the constructed projection): for
a run without panic, `projFull` contains every vote of round `r` delivered as verified by another sender; so it is linked,
given that the abstract node set, weights and threshold fit the delivered votes, and that no vote delivered to the node
carries the node's own name (its own votes enter the history as attests). -/
theorem histLink_projFull (P : Params) (base : Nat → Nat → Nat → Vote → Bool) (σ₀ σ : State) (es : List Player.Event)
    (ass : List (List Action)) (hrun : Player.run P σ₀ es = .ok (σ, ass)) (Pabs : AgreementAbs.Params) (n r : Nat)
    (hthr : ∀ s, s ≠ 0 → Pabs.T ≤ stepT P s)
    (hnodes : ∀ p s a, goodIn base es r p s a = true → a.sender ∈ Pabs.nodes ∧ Pabs.w a.sender = a.weight ∧ a.sender ≠ n) :
    HistLink P (goodIn base es) Pabs r (projFull P n r σ₀ es) := by
  refine ⟨hthr, fun p s a hga => ?_⟩
  obtain ⟨h1, h2, h3⟩ := hnodes p s a hga
  refine ⟨h1, h2, ?_⟩
  simp only [goodIn, Bool.and_eq_true] at hga
  obtain ⟨e, he, hd⟩ := List.any_eq_true.mp hga.2
  have hev := recs_events P es σ₀ σ ass hrun
  have : e ∈ (recs P σ₀ es).map (·.ev) := by rw [hev]; exact he
  obtain ⟨x, hx, hxe⟩ := List.mem_map.mp this
  show (⟨a.sender, p, absStep s, absVal a.value⟩ : AgreementAbs.Vote) ∈ AgreementAbs.votes _
  rw [mem_votes_iff]
  unfold projFull
  rw [List.mem_reverse, List.mem_flatMap]
  refine ⟨x, hx, ?_⟩
  unfold evsOf
  simp only [List.mem_append]
  refine Or.inl (Or.inl (Or.inl (Or.inl ?_)))
  rw [hxe]
  cases e with
  | vote verified bad r' p' s' x' =>
    simp only [isDelivery, Bool.and_eq_true, bne_iff_ne, ne_eq, beq_iff_eq, decide_eq_true_eq] at hd
    obtain ⟨⟨⟨⟨⟨⟨⟨d1, d2⟩, d3⟩, d4⟩, d5⟩, d6⟩, d7⟩, d8⟩ := hd
    subst d5; subst d6; subst d7; subst d8
    simp only [delivOf]
    rw [if_pos ⟨d1, d2, d3, d4, trivial, h3⟩]
    exact List.mem_singleton.mpr rfl
  | bundle verified bad r' p' s' value votes eqs =>
    simp only [isDelivery, Bool.and_eq_true, bne_iff_ne, ne_eq, beq_iff_eq, List.any_eq_true, decide_eq_true_eq] at hd
    obtain ⟨⟨⟨⟨⟨⟨⟨d1, d2⟩, d3⟩, d4⟩, d5⟩, d6⟩, d7⟩, x', hx', rfl⟩ := hd
    subst d5; subst d6; subst d7
    simp only [delivOf]
    rw [if_pos ⟨d1, d2, d3, d4, trivial⟩]
    exact List.mem_map.mpr ⟨x', List.mem_filter.mpr ⟨hx', by simpa using h3⟩, rfl⟩
  | pvote verified bad v taskIndex tail => simp [isDelivery] at hd
  | payload verified bad pp own => simp [isDelivery] at hd
  | timeout entropy => simp [isDelivery] at hd
  | fastTimeout entropy => simp [isDelivery] at hd
  | roundInterruption rr => simp [isDelivery] at hd
  | checkpoint r1 p1 s1 err => simp [isDelivery] at hd

/-- senders 2 and 3 with their credential weights, the node itself (7); only the node itself is vouched for;
one threshold 5 = min of the step thresholds of `exP` used here -/
def exPabs : AgreementAbs.Params := ⟨[2, 3, 7], fun a => if a = 2 then 3 else if a = 3 then 4 else 1, fun a => a == 7, 5⟩

open Props.C03 (exP exInit) in
/-- the abstract acceptor accepts the complete projections of the example runs: the run of section "non-vacuity" (two periods,
a `see` and an `enter … viaNext ⊥`), the former counterexample run, and C03's committing run (a `commit`) -/
example : AgreementAbs.wfCheck true exPabs (projFull exP 7 5 exInit exEvents) = true ∧
    AgreementAbs.wfCheck true exPabs (projFull exP 7 5 exInit dropEvents) = true ∧
    AgreementAbs.wfCheck true exPabs (projFull exP 7 5 exInit Props.C03.exEvents) = true := by
  refine ⟨by decide, by decide, by decide⟩

open Props.C03 (exP exInit) in
example : (projFull exP 7 5 exInit Props.C03.exEvents).reverse =
    [.vote ⟨2, 0, .cert, some 51⟩, .vote ⟨3, 0, .cert, some 51⟩, .commit 7 0 51] := by decide

end AbsRules

end Props.C01Player
