/-
C46 — Wallet keys are deterministic, unique and password-protected
(daemon/kmd/wallet/driver/sqlite.go: SQLiteWallet GenerateKey / generateKeyTxLocked / ImportKey / DeleteKey / ExportKey /
ExportMasterDerivationKey / CheckPassword / Init, SQLiteWalletDriver.CreateWallet / FetchWallet / RenameWallet).

Model: AlgoVerif/Model/Wallet.lean (one database + its handle; transcribes every operation branch by branch; the skip loop
of generateKeyTxLocked is `genLoop`; the key insert and the max_key_idx update are one state transition because they are
one SQLite transaction).  Lemmas: AlgoVerif/Lemmas/Wallet.lean (invariant `Inv`, bookkeeping over op lists).

All theorems quantify over EVERY wallet (any MDK symbol, password, name, bystander names), EVERY sequence of operations
`ops : List (Op α)` (generate, generate-with-mnemonic, import, delete, export, export-MDK, rename, check-password, init,
fetch, list — with right and wrong passwords, on locked and unlocked handles) and every address type `α`; they are proved
by induction over the op list.

Hypotheses (stated, never axioms):
 * `Function.Injective derive` — index ↦ address (HKDF-Expand + Ed25519 public key) is injective; used ONLY by
   skip_only_imported / restore_regenerates / generated_never_repeats.  generated_sequence, no_duplicate_address and
   password_gates hold for an arbitrary `derive`.
 * ideal password encryption / transactional SQLite are built into the model (see the header of Model/Wallet.lean).

FULL (on the symbolic model): generated_sequence, generated_strictly_increasing, generated_addresses, skip_only_imported,
restore_regenerates, generated_never_repeats, no_duplicate_address, list_no_duplicate, password_gates,
password_gates_everywhere, no_secret_without_password.  Nothing partial on the model; the crypto primitives are ideal and
the model ↔ code tie is the line-protocol correspondence on the real SQLite wallet (checks/C46.py).
-/
import AlgoVerif.Lemmas.Wallet
namespace Props.C46
open AlgoVerif.Model.Wallet Lemmas.Wallet

variable {α : Type} [DecidableEq α]

/-! ## deterministic generation -/

/-- **generated_sequence**: take ANY history `pre` of a freshly created (or restored) wallet and let the next GenerateKey
    succeed with address `a`.  Then `a = derive j` where j is strictly greater than the previously generated index
    (`lastOr 0 (genIdxs … pre)`, 0 if none), derive j is absent, and every index strictly between is present — i.e. j is
    the LEAST index above the previous one whose address is absent; the stored counter becomes j (same transition). -/
theorem generated_sequence (derive : Nat → α) (m : Mdk) (pw : Pw) (name : Name) (others : List Name)
    (pre : List (Op α)) (a : α)
    (h : (step derive (run derive (create m pw name others) pre) .gen).2 = .addr a) :
    ∃ j, a = derive j ∧
      lastOr 0 (genIdxs derive (create m pw name others) pre) < j ∧ j < overflow ∧
      derive j ∉ addrs (run derive (create m pw name others) pre).keys ∧
      (∀ i, lastOr 0 (genIdxs derive (create m pw name others) pre) < i → i < j →
        derive i ∈ addrs (run derive (create m pw name others) pre).keys) ∧
      genIdxs derive (create m pw name others) (pre ++ [.gen]) = genIdxs derive (create m pw name others) pre ++ [j] ∧
      (run derive (create m pw name others) (pre ++ [.gen])).maxIdx = j := by
  have hmax := run_maxIdx derive pre (create m pw name others : Wallet α)
  have h0 : (create m pw name others : Wallet α).maxIdx = 0 := rfl
  rw [h0] at hmax
  generalize hw : run derive (create m pw name others) pre = w at h hmax
  simp only [step] at h
  cases hg : nextGen derive w with
  | none =>
    have := (generate_none derive w hg).2
    rw [h] at this; simp [Res.isErr] at this
  | some j =>
    rw [generate_some derive w j hg] at h
    simp only [Res.addr.injEq] at h
    obtain ⟨_, h1, h2, h3, h4⟩ := nextGen_spec derive w j hg
    refine ⟨j, h.symm, by omega, h2, h3, ?_, ?_, ?_⟩
    · intro i hi hij; exact h4 i (by omega) hij
    · rw [genIdxs_append, hw]; simp [genIdxs, genOf, hg, Option.toList]
    · rw [run_append, hw]; simp only [run, step]; rw [generate_some derive w j hg]

/-- the indices generated along ANY op sequence are strictly increasing and start above 0 -/
theorem generated_strictly_increasing (derive : Nat → α) (m : Mdk) (pw : Pw) (name : Name) (others : List Name)
    (ops : List (Op α)) :
    (genIdxs derive (create m pw name others) ops).Pairwise (· < ·) ∧
    (∀ j ∈ genIdxs derive (create m pw name others) ops, 1 ≤ j ∧ j ≤ (run derive (create m pw name others) ops).maxIdx) ∧
    (run derive (create m pw name others) ops).maxIdx = lastOr 0 (genIdxs derive (create m pw name others) ops) := by
  obtain ⟨h1, h2, _⟩ := genIdxs_bounds derive ops (create m pw name others : Wallet α)
  refine ⟨h2, ?_, run_maxIdx derive ops _⟩
  intro j hj
  have := h1 j hj
  have h0 : (create m pw name others : Wallet α).maxIdx = 0 := rfl
  omega

/-- the addresses GenerateKey returns along a sequence -/
def genAddrs (derive : Nat → α) (w : Wallet α) : List (Op α) → List α
  | [] => []
  | op :: ops =>
    (match op, (step derive w op).2 with
      | .gen, .addr a => [a]
      | _, _ => []) ++ genAddrs derive (step derive w op).1 ops

/-- the i-th address returned by GenerateKey is `derive` of the i-th generated index (any start state) -/
theorem generated_addresses (derive : Nat → α) (ops : List (Op α)) : ∀ (w : Wallet α),
    genAddrs derive w ops = (genIdxs derive w ops).map derive := by
  induction ops with
  | nil => intro w; rfl
  | cons op ops ih =>
    intro w
    simp only [genAddrs, genIdxs, List.map_append]
    rw [ih]
    congr 1
    cases op with
    | gen =>
      simp only [step, genOf]
      cases hg : nextGen derive w with
      | none =>
        have h2 := (generate_none derive w hg).2
        cases hr : (generate derive w).2 <;> simp [hr, Res.isErr, Option.toList] at h2 ⊢
      | some j => rw [generate_some derive w j hg]; simp [Option.toList]
    | _ => simp [genOf, Option.toList]

/-- **skipping only imported keys**: every index the wallet passed over (≤ its counter, never generated) is the index of
    an address that a successful ImportKey of the same history had put there. -/
theorem skip_only_imported (derive : Nat → α) (hinj : Function.Injective derive)
    (m : Mdk) (pw : Pw) (name : Name) (others : List Name) (ops : List (Op α)) (i : Nat)
    (h1 : 1 ≤ i) (h2 : i ≤ (run derive (create m pw name others) ops).maxIdx)
    (h3 : i ∉ genIdxs derive (create m pw name others) ops) :
    derive i ∈ impOks derive (create m pw name others) ops := by
  have h0 : (create m pw name others : Wallet α).maxIdx = 0 := rfl
  rcases skipped_imported derive hinj ops (create m pw name others) (inv_create derive m pw name others) i
    (by omega) h2 h3 with h | h
  · simp [create] at h
  · exact h

/-- … and it had been imported BEFORE the GenerateKey that skipped it: in the situation of `generated_sequence`, every
    index between the previous generated index and the new one is an address imported earlier in `pre`. -/
theorem skip_only_imported_before (derive : Nat → α) (hinj : Function.Injective derive)
    (m : Mdk) (pw : Pw) (name : Name) (others : List Name) (pre : List (Op α)) (j : Nat)
    (h : nextGen derive (run derive (create m pw name others) pre) = some j) (i : Nat)
    (h1 : (run derive (create m pw name others) pre).maxIdx < i) (h2 : i < j) :
    derive i ∈ impOks derive (create m pw name others) pre ∧
      (derive i, none) ∈ (run derive (create m pw name others) pre).keys := by
  have hinv := inv_run derive pre _ (inv_create derive m pw name others)
  obtain ⟨_, _, _, _, hall⟩ := nextGen_spec derive _ j h
  have hp := present_above_is_imported derive hinj _ hinv i h1 (hall i h1 h2)
  refine ⟨?_, hp⟩
  -- i is above the counter of `pre`, so it was never generated; i is ≤ the counter after the next GenerateKey
  have hgen : (run derive (create m pw name others) (pre ++ [.gen])).maxIdx = j := by
    rw [run_append]; simp only [run, step]; rw [generate_some derive _ j h]
  have hnot : i ∉ genIdxs derive (create m pw name others) (pre ++ [.gen]) := by
    rw [genIdxs_append]
    simp only [genIdxs, genOf, h, Option.toList, List.append_nil, List.mem_append, List.mem_singleton, not_or]
    refine ⟨?_, by omega⟩
    intro hmem
    have := (genIdxs_bounds derive pre (create m pw name others : Wallet α)).1 i hmem
    omega
  have h0 : (create m pw name others : Wallet α).maxIdx = 0 := rfl
  have := skip_only_imported derive hinj m pw name others (pre ++ [.gen]) i (by omega) (by omega) hnot
  rw [impOks_append] at this
  simpa [impOks, impOf, Option.toList] using this

/-- **restore_regenerates**: W1 = any wallet on MDK m after ANY history ops1; W2 = a wallet restored from the same MDK
    (fresh database, any password / name) after any history ops2 without ImportKey.  Then
    (1) W2's generated indices are exactly 1, 2, 3, … (so its addresses are derive 1, derive 2, …);
    (2) every index up to W1's counter was either generated by W1 or is an address imported into W1 (the only skips);
    (3) once W2 has generated at least as many keys as W1's counter, every address W1 ever generated has come back. -/
theorem restore_regenerates (derive : Nat → α) (hinj : Function.Injective derive)
    (m : Mdk) (pw1 pw2 : Pw) (n1 n2 : Name) (o1 o2 : List Name) (ops1 ops2 : List (Op α))
    (hno : ∀ op ∈ ops2, ∀ a, op ≠ Op.imp a) :
    genIdxs derive (create m pw2 n2 o2) ops2 = List.range' 1 (genIdxs derive (create m pw2 n2 o2) ops2).length ∧
    (∀ i, 1 ≤ i → i ≤ (run derive (create m pw1 n1 o1) ops1).maxIdx →
        i ∈ genIdxs derive (create m pw1 n1 o1) ops1 ∨ derive i ∈ impOks derive (create m pw1 n1 o1) ops1) ∧
    ((run derive (create m pw1 n1 o1) ops1).maxIdx ≤ (genIdxs derive (create m pw2 n2 o2) ops2).length →
        ∀ a ∈ genAddrs derive (create m pw1 n1 o1) ops1, a ∈ genAddrs derive (create m pw2 n2 o2) ops2) := by
  have hc := genIdxs_consecutive derive hinj ops2 hno (create m pw2 n2 o2) (inv_create derive m pw2 n2 o2)
    (by intro e he; simp [create] at he)
  have h0 : (create m pw2 n2 o2 : Wallet α).maxIdx = 0 := rfl
  rw [h0] at hc
  refine ⟨hc, ?_, ?_⟩
  · intro i h1 h2
    by_cases hin : i ∈ genIdxs derive (create m pw1 n1 o1) ops1
    · exact Or.inl hin
    · exact Or.inr (skip_only_imported derive hinj m pw1 n1 o1 ops1 i h1 h2 hin)
  · intro hlen a ha
    rw [generated_addresses] at ha ⊢
    obtain ⟨j, hj, rfl⟩ := List.mem_map.mp ha
    have hb := (generated_strictly_increasing derive m pw1 n1 o1 ops1).2.1 j hj
    apply List.mem_map.mpr
    refine ⟨j, ?_, rfl⟩
    rw [hc, List.mem_range'_1]
    omega

/-- the general form of (2) for the RESTORED wallet as well: whatever is done to it (imports included), the only
    derived addresses it does not regenerate are those imported into it. -/
theorem restored_skips_only_imported (derive : Nat → α) (hinj : Function.Injective derive)
    (m : Mdk) (pw2 : Pw) (n2 : Name) (o2 : List Name) (ops2 : List (Op α)) (i : Nat)
    (h1 : 1 ≤ i) (h2 : i ≤ (run derive (create m pw2 n2 o2) ops2).maxIdx) :
    i ∈ genIdxs derive (create m pw2 n2 o2) ops2 ∨ derive i ∈ impOks derive (create m pw2 n2 o2) ops2 := by
  by_cases hin : i ∈ genIdxs derive (create m pw2 n2 o2) ops2
  · exact Or.inl hin
  · exact Or.inr (skip_only_imported derive hinj m pw2 n2 o2 ops2 i h1 h2 hin)

/-- a generated address is never issued a second time — also not after it was deleted (the counter is persisted
    with the key and DeleteKey leaves it alone) -/
theorem generated_never_repeats (derive : Nat → α) (hinj : Function.Injective derive)
    (m : Mdk) (pw : Pw) (name : Name) (others : List Name) (ops : List (Op α)) :
    (genAddrs derive (create m pw name others) ops).Nodup := by
  rw [generated_addresses]
  have hp := (generated_strictly_increasing derive m pw name others ops).1
  rw [List.Nodup, List.pairwise_map]
  exact List.Pairwise.imp (fun h e => absurd (hinj e) (Nat.ne_of_lt h)) hp

/-! ## uniqueness -/

/-- **no_duplicate_address**: after EVERY op sequence the key table holds every address at most once (no hypothesis on
    `derive` needed: GenerateKey inserts only an absent address, ImportKey refuses a present one). -/
theorem no_duplicate_address (derive : Nat → α) (m : Mdk) (pw : Pw) (name : Name) (others : List Name)
    (ops : List (Op α)) : (addrs (run derive (create m pw name others) ops).keys).Nodup :=
  (inv_run derive ops _ (inv_create derive m pw name others)).nodup

/-- what ListKeys returns after any history has no repetition -/
theorem list_no_duplicate (derive : Nat → α) (m : Mdk) (pw : Pw) (name : Name) (others : List Name)
    (ops : List (Op α)) (l : List α)
    (h : (step derive (run derive (create m pw name others) ops) .list).2 = .keys l) : l.Nodup := by
  simp only [step, listKeys, Res.keys.injEq] at h
  rw [← h]; exact no_duplicate_address derive m pw name others ops

/-- a key that carries an index is the derived key of that index, and the index is covered by the stored counter -/
theorem generated_rows_derived (derive : Nat → α) (m : Mdk) (pw : Pw) (name : Name) (others : List Name)
    (ops : List (Op α)) (a : α) (k : Nat) (h : (a, some k) ∈ (run derive (create m pw name others) ops).keys) :
    a = derive k ∧ 1 ≤ k ∧ k ≤ (run derive (create m pw name others) ops).maxIdx :=
  (inv_run derive ops _ (inv_create derive m pw name others)).gen_idx a k h

/-! ## password protection -/

/-- **password_gates**: in ANY state (reachable or not, locked or unlocked), with a wrong password DeleteKey, ExportKey,
    ExportMasterDerivationKey, RenameWallet, CheckPassword and Init return an error and leave the state unchanged. -/
theorem password_gates (derive : Nat → α) (w : Wallet α) (p : Pw) (hp : p ≠ w.pw) (a : α) (n : Name) :
    (step derive w (.del a p) = (w, .err .decrypt)) ∧
    (step derive w (.exp a p) = (w, .err .decrypt)) ∧
    (step derive w (.mdk p) = (w, .err .decrypt)) ∧
    ((step derive w (.ren n p)).1 = w ∧ (step derive w (.ren n p)).2.isErr = true) ∧
    (step derive w (.chk p) = (w, .err .decrypt)) ∧
    (step derive w (.init p) = (w, .err .decrypt)) := by
  refine ⟨?_, ?_, ?_, ?_, ?_, ?_⟩
  · simp only [step, deleteKey]; rw [if_neg hp]
  · simp only [step, exportKey]; rw [if_neg hp]
  · simp only [step, exportMDK]; rw [if_neg hp]
  · simp only [step, rename]
    by_cases hc : n = w.name ∨ n ∈ w.others
    · rw [if_pos hc]; exact ⟨rfl, rfl⟩
    · rw [if_neg hc, if_neg hp]; exact ⟨rfl, rfl⟩
  · simp only [step, checkPassword]; rw [if_neg hp]
  · simp only [step, init]; rw [if_neg hp]

/-- the same after every history of a created wallet: the password to know is the one given to CreateWallet — no
    operation changes it. -/
theorem password_gates_everywhere (derive : Nat → α) (m : Mdk) (pw : Pw) (name : Name) (others : List Name)
    (ops : List (Op α)) (op : Op α) (p : Pw) (hop : op.pw? = some p) (hp : p ≠ pw) :
    (step derive (run derive (create m pw name others) ops) op).1 = run derive (create m pw name others) ops ∧
    (step derive (run derive (create m pw name others) ops) op).2.isErr = true := by
  have hpw : (run derive (create m pw name others : Wallet α) ops).pw = pw := by rw [run_pw]; rfl
  generalize run derive (create m pw name others) ops = w at hpw
  have hp' : p ≠ w.pw := by rw [hpw]; exact hp
  cases op with
  | del a q => simp only [Op.pw?, Option.some.injEq] at hop; subst hop; rw [(password_gates derive w q hp' a 0).1]; exact ⟨rfl, rfl⟩
  | exp a q => simp only [Op.pw?, Option.some.injEq] at hop; subst hop; rw [(password_gates derive w q hp' a 0).2.1]; exact ⟨rfl, rfl⟩
  | mdk q =>
    simp only [Op.pw?, Option.some.injEq] at hop; subst hop
    simp only [step, exportMDK]; rw [if_neg hp']; exact ⟨rfl, rfl⟩
  | ren n q =>
    simp only [Op.pw?, Option.some.injEq] at hop; subst hop
    simp only [step, rename]
    by_cases hc : n = w.name ∨ n ∈ w.others
    · rw [if_pos hc]; exact ⟨rfl, rfl⟩
    · rw [if_neg hc, if_neg hp']; exact ⟨rfl, rfl⟩
  | chk q => simp only [Op.pw?, Option.some.injEq] at hop; subst hop; simp only [step, checkPassword]; rw [if_neg hp']; exact ⟨rfl, rfl⟩
  | init q => simp only [Op.pw?, Option.some.injEq] at hop; subst hop; simp only [step, init]; rw [if_neg hp']; exact ⟨rfl, rfl⟩
  | fetch => simp [Op.pw?] at hop
  | gen => simp [Op.pw?] at hop
  | genMn => simp [Op.pw?] at hop
  | imp a => simp [Op.pw?] at hop
  | list => simp [Op.pw?] at hop

/-- a state in which nobody has presented the right password: the handle is locked -/
theorem locked_step (derive : Nat → α) (w : Wallet α) (op : Op α) (hl : w.unlocked = false)
    (hop : ∀ p, op.pw? = some p → p ≠ w.pw) :
    (step derive w op).1 = w ∧ (step derive w op).2.isSecret = false := by
  cases op with
  | fetch => simp only [step, fetch]; refine ⟨?_, rfl⟩; cases w; simp_all
  | init p => have := hop p rfl; simp only [step, init]; rw [if_neg this]; exact ⟨rfl, rfl⟩
  | gen => simp only [step, generate, hl]; exact ⟨rfl, rfl⟩
  | genMn => exact ⟨rfl, rfl⟩
  | imp a => simp only [step, importKey, hl]; exact ⟨rfl, rfl⟩
  | del a p => have := hop p rfl; simp only [step, deleteKey]; rw [if_neg this]; exact ⟨rfl, rfl⟩
  | exp a p => have := hop p rfl; simp only [step, exportKey]; rw [if_neg this]; exact ⟨rfl, rfl⟩
  | mdk p => have := hop p rfl; simp only [step, exportMDK]; rw [if_neg this]; exact ⟨rfl, rfl⟩
  | ren n p =>
    have := hop p rfl
    simp only [step, rename]
    by_cases hc : n = w.name ∨ n ∈ w.others
    · rw [if_pos hc]; exact ⟨rfl, rfl⟩
    · rw [if_neg hc, if_neg this]; exact ⟨rfl, rfl⟩
  | chk p => have := hop p rfl; simp only [step, checkPassword]; rw [if_neg this]; exact ⟨rfl, rfl⟩
  | list => exact ⟨rfl, rfl⟩

/-- **no_secret_without_password**: a whole op sequence in which every password presented is wrong (any interleaving of
    any operations, on a wallet whose handle starts locked) never outputs a secret key or the master derivation key,
    and ends in the state it started from — whatever keys the database holds. -/
theorem no_secret_without_password (derive : Nat → α) (ops : List (Op α)) :
    ∀ (w : Wallet α), w.unlocked = false → (∀ op ∈ ops, ∀ p, op.pw? = some p → p ≠ w.pw) →
      run derive w ops = w ∧ ∀ r ∈ trace derive w ops, r.isSecret = false := by
  induction ops with
  | nil => intro w _ _; exact ⟨rfl, by simp [trace]⟩
  | cons op ops ih =>
    intro w hl hops
    obtain ⟨h1, h2⟩ := locked_step derive w op hl (hops op List.mem_cons_self)
    simp only [run, trace]
    rw [h1]
    obtain ⟨i1, i2⟩ := ih w hl (fun op' h => hops op' (List.mem_cons_of_mem _ h))
    refine ⟨i1, ?_⟩
    intro r hr
    rcases List.mem_cons.mp hr with rfl | hr
    · exact h2
    · exact i2 r hr

/-! ## non-vacuity: the hypotheses are met by concrete instances -/

/-- an injective derivation into a type that also has non-derived addresses -/
example : Function.Injective (Sum.inl : Nat → Nat ⊕ Nat) := fun _ _ h => Sum.inl.inj h

/-- a concrete history with an import that is skipped, a deletion, and a wrong password: indices 1, 3, 4 are generated,
    2 is passed over, nothing is duplicated -/
example :
    let ops : List (Op (Nat ⊕ Nat)) := [.init 7, .gen, .imp (.inl 2), .imp (.inr 5), .gen, .del (.inl 3) 7, .del (.inl 1) 8, .gen, .list]
    genIdxs Sum.inl (create 1 7 1 [9]) ops = [1, 3, 4] ∧
    impOks Sum.inl (create 1 7 1 [9]) ops = [.inl 2, .inr 5] ∧
    addrs (run Sum.inl (create 1 7 1 [9]) ops).keys = [.inl 1, .inl 2, .inr 5, .inl 4] := by
  simp [genIdxs, impOks, run, step, init, generate, importKey, deleteKey, listKeys, genOf, impOf, nextGen, create,
    addrs, genLoop, overflow, Option.toList]

/-- `password_gates` has instances: a wrong password exists for every wallet -/
example (w : Wallet (Nat ⊕ Nat)) : w.pw + 1 ≠ w.pw := Nat.succ_ne_self _

/-- `restore_regenerates`: a history without ImportKey (the hypothesis on ops2) that does generate -/
example : (∀ op ∈ ([.init 3, .gen, .del (.inl 1) 3, .gen] : List (Op (Nat ⊕ Nat))), ∀ a, op ≠ Op.imp a) ∧
    genIdxs Sum.inl (create 1 3 4 [] : Wallet (Nat ⊕ Nat)) [.init 3, .gen, .del (.inl 1) 3, .gen] = [1, 2] := by
  refine ⟨by simp, ?_⟩
  simp [genIdxs, step, init, generate, deleteKey, genOf, nextGen, create, addrs, genLoop, overflow, Option.toList]

/-- `no_secret_without_password`: its premise holds for a locked wallet attacked with wrong passwords only -/
example : let w : Wallet (Nat ⊕ Nat) := { (create 1 3 4 [] : Wallet (Nat ⊕ Nat)) with keys := [(.inl 1, some 1)], maxIdx := 1 }
    w.unlocked = false ∧ ∀ op ∈ ([.exp (.inl 1) 2, .mdk 0, .init 5, .gen, .del (.inl 1) 4] : List (Op (Nat ⊕ Nat))),
      ∀ p, op.pw? = some p → p ≠ w.pw := by
  simp [create, Op.pw?]

end Props.C46
