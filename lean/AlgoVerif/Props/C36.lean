/-
C36 — Participation keys are forward secure (crypto/onetimesig.go).

Model: AlgoVerif/Model/OneTimeSig.lean (symbolic Ed25519; transcribes generate / Sign / Verify /
DeleteBeforeFineGrained branch by branch).  All theorems quantify over EVERY key (start, numBatches), EVERY sequence of
advance operations `ops : List Op` (monotone or not, any numKeysPerBatch per call), every identifier and message;
they are proved by induction over the op list through the invariant `Inv` (Lemmas/OneTimeSig.lean).

Hypotheses (all are stated, none is an axiom):
 * `OpsOK ops`            : `current.Batch + 1` does not wrap around 2^64 in any call;
 * `start + n < 2^64`     : the key's batch numbers do not wrap;
 * ideal signatures       : built into the model (`edVerify` accepts exactly `edSign`);
 * `wrap_is_noop` shows what happens without `OpsOK` (the real code behaves the same, see the harness).
FULL: no_past_signature, retained_authority, future_signable, signable_antitone, sign_iff_authority,
forgery_needs_authority, no_forgery_after_delete, and the round-level forms no_past_round_signature,
retained_round_authority, future_round_signable (via OneTimeIDForRound), and across persistence/restart
(restart_preserves_forward_security, restart_future_signable, restored_signs_as_memory).  Nothing partial on the symbolic model.
Out of scope: wiping of freed Go memory; freshness of keys; concurrency.
-/
import AlgoVerif.Lemmas.OneTimeSig
namespace Props.C36
open AlgoVerif.Model.OneTimeSig Lemmas.OneTimeSig

/-! ## The property -/

/-- **C36 (a)**: after any sequence of advance operations, `Sign` returns the zero signature for every identifier
    lexicographically earlier than the `current` of ANY operation of the sequence. -/
theorem no_past_signature (start n : Nat) (ops : List Op) (hops : OpsOK ops)
    (op : Op) (hop : op ∈ ops) (id : Id) (hlt : Id.lt id op.cur) (m : Nat) :
    sign (run (generate start n) ops) id m = none := by
  have hid := lt_batch_succ id op.cur hlt (hops op hop)
  cases h : sign (run (generate start n) ops) id m with
  | none => rfl
  | some sg =>
    exfalso
    have hs : (sign (run (generate start n) ops) id m).isSome = true := by rw [h]; rfl
    have hc := (sign_isSome_iff _ id m hid).mp hs
    exact (covers_run_sub _ ops (wf_generate start n) hops id hc).2 op hop hlt

/-- **C36 (a'), stronger**: no secret that is still retained has authority over any such identifier. -/
theorem retained_authority (start n : Nat) (hsn : start + n < M64) (ops : List Op) (hops : OpsOK ops)
    (op : Op) (hop : op ∈ ops) (id : Id) (hlt : Id.lt id op.cur) :
    ∀ k ∈ retained (run (generate start n) ops), authority k id = false := by
  intro k hk
  cases ha : authority k id with
  | false => rfl
  | true =>
    have hi := inv_run _ ops (inv_generate start n hsn) hops
    have hc := retained_covers _ hi k hk id ha
    exact absurd hlt ((covers_run_sub _ ops (wf_generate start n) hops id hc).2 op hop)

/-- **C36 (b)**: every identifier inside the key's batch range that is not earlier than any `current`
    (and whose offset is below the `numKeysPerBatch` of the calls) is signed, and the signature verifies. -/
theorem future_signable (start n : Nat) (hsn : start + n < M64) (ops : List Op) (hops : OpsOK ops)
    (id : Id) (hr : start ≤ id.batch ∧ id.batch < start + n)
    (hfut : ∀ op ∈ ops, ¬ Id.lt id op.cur ∧ id.offset < op.numKeys) (m : Nat) :
    ∃ sg, sign (run (generate start n) ops) id m = some sg ∧ verify .master id m sg = true := by
  have hid : id.batch + 1 < M64 := by omega
  have hi := inv_run _ ops (inv_generate start n hsn) hops
  have hc := covers_run_sup _ ops hops id ((covers_generate start n id).mpr hr) hfut
  have hs := (sign_isSome_iff _ id m hid).mpr hc
  cases h : sign (run (generate start n) ops) id m with
  | none => rw [h] at hs; simp at hs
  | some sg => exact ⟨sg, rfl, sign_verifies _ id m sg hi hid h⟩

/-- deletion is monotone: whatever can be signed after more operations could be signed before them -/
theorem signable_antitone (start n : Nat) (ops more : List Op) (hops : OpsOK (ops ++ more)) (id : Id)
    (hid : id.batch + 1 < M64) (m : Nat)
    (h : (sign (run (generate start n) (ops ++ more)) id m).isSome = true) :
    (sign (run (generate start n) ops) id m).isSome = true := by
  have h1 : run (generate start n) (ops ++ more) = run (run (generate start n) ops) more := by
    simp [run, List.foldl_append]
  rw [h1] at h
  have hc := (sign_isSome_iff _ id m hid).mp h
  have hm : OpsOK more := fun o ho => hops o (List.mem_append_right _ ho)
  exact (sign_isSome_iff _ id m hid).mpr
    (covers_run_sub _ more (wf_run _ ops (wf_generate start n)) hm id hc).1

/-- the signing set is exactly the authority of the retained secrets -/
theorem sign_iff_authority (start n : Nat) (hsn : start + n < M64) (ops : List Op) (hops : OpsOK ops)
    (id : Id) (hid : id.batch + 1 < M64) (m : Nat) :
    (sign (run (generate start n) ops) id m).isSome = true ↔
      ∃ k ∈ retained (run (generate start n) ops), authority k id = true := by
  have hi := inv_run _ ops (inv_generate start n hsn) hops
  rw [sign_isSome_iff _ id m hid]
  exact ⟨covers_retained _ hi id, fun ⟨k, hk, ha⟩ => retained_covers _ hi k hk id ha⟩

/-- **Dolev–Yao step.**  An attacker holds the secrets `held` (not the master secret, which generate drops) and has seen
    signatures `seen`, all of honest shape.  If it assembles a OneTimeSignature that `Verify` accepts for `id` on a
    message whose payload signature was never published, it holds a key with authority over `id`. -/
theorem forgery_needs_authority (held : Key → Prop) (seen : SSig → Prop)
    (hseen : ∀ sg, seen sg → HonestShape sg) (hm : ¬ held .master)
    (id : Id) (m : Nat) (sg : OTS) (hv : verify .master id m sg = true)
    (h2 : seen sg.pk2Sig ∨ held sg.pk2Sig.signer)
    (h1 : seen sg.pk1Sig ∨ held sg.pk1Sig.signer)
    (h0 : seen sg.sig ∨ held sg.sig.signer) (hfresh : ¬ seen sg.sig) :
    ∃ k, held k ∧ authority k id = true := by
  obtain ⟨e2, e1, e0⟩ := verify_chain _ id m sg hv
  rw [e2] at h2; rw [e1] at h1; rw [e0] at h0 hfresh
  have h0' : held sg.pk := by
    rcases h0 with h0 | h0
    · exact absurd h0 hfresh
    · exact h0
  -- the master link was published by generate: pk2 is the batch key of id.batch
  have hpk2 : sg.pk2 = .B id.batch := by
    rcases h2 with h2 | h2
    · have := hseen _ h2
      cases hp : sg.pk2 <;> simp [HonestShape, hp] at this
      rw [this]
    · exact absurd h2 hm
  rw [hpk2] at h1
  rcases h1 with h1 | h1
  · -- the offset link was published: pk is the key made for exactly (batch, offset)
    have := hseen _ h1
    cases hp : sg.pk <;> simp [HonestShape, hp] at this
    · rename_i b o
      refine ⟨.O b o, hp ▸ h0', ?_⟩
      simp [authority]; omega
    · rename_i b o
      refine ⟨.T b o, hp ▸ h0', ?_⟩
      simp [authority]; omega
  · exact ⟨.B id.batch, h1, by simp [authority]⟩

/-- **C36, attacker form.**  Whoever obtains the state after the advance operations (all retained secrets) plus any
    keys of its own and every signature ever published cannot assemble a verifying signature on a fresh message for any
    identifier earlier than an advance point. -/
theorem no_forgery_after_delete (start n : Nat) (hsn : start + n < M64) (ops : List Op) (hops : OpsOK ops)
    (op : Op) (hop : op ∈ ops) (id : Id) (hlt : Id.lt id op.cur)
    (seen : SSig → Prop) (hseen : ∀ sg, seen sg → HonestShape sg) (m : Nat) (sg : OTS)
    (held : Key → Prop) (hheld : ∀ k, held k → k ∈ retained (run (generate start n) ops) ∨ ∃ j, k = .adv j)
    (h2 : seen sg.pk2Sig ∨ held sg.pk2Sig.signer) (h1 : seen sg.pk1Sig ∨ held sg.pk1Sig.signer)
    (h0 : seen sg.sig ∨ held sg.sig.signer) (hfresh : ¬ seen sg.sig) :
    verify .master id m sg = false := by
  have hra := retained_authority start n hsn ops hops op hop id hlt
  cases hv : verify .master id m sg with
  | false => rfl
  | true =>
    exfalso
    have hm : ¬ held .master := by
      intro h
      rcases hheld _ h with h | ⟨j, h⟩
      · have := hra _ h; simp [authority] at this
      · cases h
    obtain ⟨k, hk, ha⟩ := forgery_needs_authority held seen hseen hm id m sg hv h2 h1 h0 hfresh
    rcases hheld _ hk with h | ⟨j, h⟩
    · rw [hra _ h] at ha; cases ha
    · subst h; simp [authority] at ha

/-! ## Non-vacuity: concrete instances of the hypotheses, and the wrap boundary -/

def exOps : List Op := [⟨⟨1, 1⟩, 3⟩, ⟨⟨2, 0⟩, 3⟩, ⟨⟨1, 2⟩, 3⟩, ⟨⟨2, 1⟩, 3⟩]

example : OpsOK exOps := by
  intro op h; simp only [exOps, List.mem_cons, List.not_mem_nil, or_false] at h
  rcases h with rfl | rfl | rfl | rfl <;> decide
example : (1:Nat) + 3 < M64 := by decide
example : Inv (run (generate 1 3) exOps) :=
  inv_run _ _ (inv_generate 1 3 (by decide))
    (by intro op h; simp only [exOps, List.mem_cons, List.not_mem_nil, or_false] at h
        rcases h with rfl | rfl | rfl | rfl <;> decide)
-- after exOps the frontier is (2,1): (2,0) is past (no signature), (2,1),(2,2),(3,*) sign and verify, (2,1) from an
-- offset key, (3,0) through the batch key
example : sign (run (generate 1 3) exOps) ⟨2, 0⟩ 7 = none := by decide
example : (sign (run (generate 1 3) exOps) ⟨2, 1⟩ 7).map (fun sg => (sg.pk, verify .master ⟨2, 1⟩ 7 sg))
    = some (.O 2 1, true) := by decide
example : (sign (run (generate 1 3) exOps) ⟨3, 0⟩ 7).map (fun sg => (sg.pk, verify .master ⟨3, 0⟩ 7 sg))
    = some (.T 3 0, true) := by decide
example : retained (run (generate 1 3) exOps) = [.B 3, .O 2 1, .O 2 2] := by decide
-- a signature for one identifier does not verify for another one
example : (sign (generate 1 3) ⟨2, 1⟩ 7).map (fun sg => verify .master ⟨2, 2⟩ 7 sg) = some false := by decide
-- hypotheses of forgery_needs_authority are satisfiable: the attacker who holds B 3 re-signs for (3,1)
example : ∃ sg, verify .master ⟨3, 1⟩ 9 sg = true ∧ HonestShape sg.pk2Sig ∧ sg.pk1Sig.signer = .B 3 ∧
    sg.sig.signer = .adv 0 :=
  ⟨⟨⟨.adv 0, .payload 9⟩, .adv 0, ⟨.B 3, .offsetID (.adv 0) 3 1⟩, .B 3, ⟨.master, .batchID (.B 3) 3⟩⟩,
   by decide, by simp [HonestShape], rfl, rfl⟩

/-- The hypothesis `OpsOK` cannot be dropped: `current.Batch + 1` wraps for Batch = 2^64-1, the call is then treated
    as "same batch as FirstBatch-1" and deletes nothing (tied to the real code by the directed wrap cases of the
    harness).  Unreachable for real rounds (needs round ≥ (2^64-1)·dilution). -/
theorem wrap_is_noop :
    deleteBeforeFineGrained (generate 0 2) ⟨M64 - 1, 5⟩ 3 = generate 0 2 ∧
    Id.lt ⟨0, 0⟩ ⟨M64 - 1, 5⟩ ∧
    (sign (run (generate 0 2) [⟨⟨M64 - 1, 5⟩, 3⟩]) ⟨0, 0⟩ 7).isSome = true := by
  refine ⟨by decide, by decide, by decide⟩

/-! ## The same statements in terms of rounds (the property text) -/

/-- the identifier order is the round order -/
theorem round_lt_iff (r1 r2 dil : Nat) (hd : 0 < dil) :
    Id.lt (idForRound r1 dil hd) (idForRound r2 dil hd) ↔ r1 < r2 := by
  simp only [Id.lt, idForRound]
  have e1 := Nat.div_add_mod r1 dil
  have e2 := Nat.div_add_mod r2 dil
  have m1 := Nat.mod_lt r1 hd
  have m2 := Nat.mod_lt r2 hd
  constructor
  · rintro (h | ⟨h1, h2⟩)
    · false_or_by_contra
      rename_i hn
      have := Nat.div_le_div_right (c := dil) (Nat.le_of_not_lt hn)
      omega
    · rw [h1] at e1; omega
  · intro h
    have hle := Nat.div_le_div_right (c := dil) (Nat.le_of_lt h)
    rcases Nat.lt_or_eq_of_le hle with hlt | heq
    · left; exact hlt
    · right; refine ⟨heq, ?_⟩
      rw [heq] at e1; omega

theorem advanceOps_ok (dil : Nat) (hd : 0 < dil) (rounds : List Nat) (hr : ∀ r ∈ rounds, r + 1 < M64) :
    OpsOK (advanceOps dil hd rounds) := by
  intro op hop
  simp only [advanceOps, List.mem_map] at hop
  obtain ⟨r, hrm, rfl⟩ := hop
  have := hr r hrm
  have : r / dil ≤ r := Nat.div_le_self r dil
  simp only [idForRound]; omega

/-- **C36, first sentence.**  After the node advanced its voting keys to the rounds `rounds` (in any order), `Sign`
    yields no signature for any round earlier than one of them. -/
theorem no_past_round_signature (firstValid lastValid dil : Nat) (hd : 0 < dil) (rounds : List Nat)
    (hr : ∀ r ∈ rounds, r + 1 < M64) (r : Nat) (hrm : r ∈ rounds) (r' : Nat) (hlt : r' < r) (m : Nat) :
    sign (run (generateForRounds firstValid lastValid dil hd) (advanceOps dil hd rounds))
      (idForRound r' dil hd) m = none := by
  refine no_past_signature _ _ _ (advanceOps_ok dil hd rounds hr) ⟨idForRound r dil hd, dil⟩ ?_ _ ?_ m
  · simp only [advanceOps, List.mem_map]; exact ⟨r, hrm, rfl⟩
  · exact (round_lt_iff r' r dil hd).mpr hlt

/-- … and no retained secret has authority over such a round's identifier. -/
theorem retained_round_authority (firstValid lastValid dil : Nat) (hd : 0 < dil) (hv : firstValid ≤ lastValid)
    (hl : lastValid + 1 < M64) (rounds : List Nat)
    (hr : ∀ r ∈ rounds, r + 1 < M64) (r : Nat) (hrm : r ∈ rounds) (r' : Nat) (hlt : r' < r) :
    ∀ k ∈ retained (run (generateForRounds firstValid lastValid dil hd) (advanceOps dil hd rounds)),
      authority k (idForRound r' dil hd) = false := by
  have h1 : firstValid / dil ≤ lastValid / dil := Nat.div_le_div_right hv
  have h2 : lastValid / dil ≤ lastValid := Nat.div_le_self _ _
  refine retained_authority _ _ ?_ _ (advanceOps_ok dil hd rounds hr) ⟨idForRound r dil hd, dil⟩ ?_ _ ?_
  · simp only [idForRound]; omega
  · simp only [advanceOps, List.mem_map]; exact ⟨r, hrm, rfl⟩
  · exact (round_lt_iff r' r dil hd).mpr hlt

/-- **C36, second sentence.**  Every round of the validity range that is not earlier than any advance point is still
    signed, and the signature verifies under the key's verifier. -/
theorem future_round_signable (firstValid lastValid dil : Nat) (hd : 0 < dil) (hl : lastValid + 1 < M64)
    (rounds : List Nat) (hr : ∀ r ∈ rounds, r + 1 < M64)
    (r' : Nat) (hrange : firstValid ≤ r' ∧ r' ≤ lastValid) (hfut : ∀ r ∈ rounds, r ≤ r') (m : Nat) :
    ∃ sg, sign (run (generateForRounds firstValid lastValid dil hd) (advanceOps dil hd rounds))
            (idForRound r' dil hd) m = some sg ∧
          verify .master (idForRound r' dil hd) m sg = true := by
  have h1 : firstValid / dil ≤ r' / dil := Nat.div_le_div_right hrange.1
  have h2 : r' / dil ≤ lastValid / dil := Nat.div_le_div_right hrange.2
  have h3 : lastValid / dil ≤ lastValid := Nat.div_le_self _ _
  refine future_signable _ _ ?_ _ (advanceOps_ok dil hd rounds hr) _ ?_ ?_ m
  · simp only [idForRound]; omega
  · simp only [idForRound]; omega
  · intro op hop
    simp only [advanceOps, List.mem_map] at hop
    obtain ⟨r, hrm, rfl⟩ := hop
    refine ⟨?_, Nat.mod_lt _ hd⟩
    rw [round_lt_iff]
    exact Nat.not_lt_of_le (hfut r hrm)

-- instance: a key for rounds 10..29 with dilution 4, advanced to 13 then 18 then 17
example : ∀ r ∈ [13, 18, 17], r + 1 < M64 := by decide
example : sign (run (generateForRounds 10 29 4 (by decide)) (advanceOps 4 (by decide) [13, 18, 17]))
    (idForRound 17 4 (by decide)) 7 = none := by decide
example : ((sign (run (generateForRounds 10 29 4 (by decide)) (advanceOps 4 (by decide) [13, 18, 17]))
    (idForRound 18 4 (by decide)) 7).map (fun sg => verify .master (idForRound 18 4 (by decide)) 7 sg)) = some true := by
  decide

/-! ## Across restarts (data/account/participation.go: DeleteOldKeys persists, RestoreParticipation reloads)

History = any interleaving of acknowledged advances (`disk := mem` after the deletion) and restarts (`mem := disk`).
All three are corollaries of the one-step deletion lemmas through the node invariant `NInv`. -/

/-- what a restarted node would sign with is what the running node signs with -/
theorem restored_signs_as_memory (start n : Nat) (hsn : start + n < M64) (h : List NOp)
    (hok : OpsOK (advancesOf h)) (id : Id) (m : Nat) :
    sign (reload (nrun (nodeInit start n) h).disk) id m = sign (nrun (nodeInit start n) h).mem id m := by
  have hi := ninv_run _ h (ninv_init start n hsn) hok
  rw [sign_eqv _ _ (eqv_reload _) id m, sign_eqv _ _ hi.eqv id m]

/-- **C36 across restarts.**  After any history of acknowledged advances and restarts, neither the secrets in memory
    nor the secrets a restart would load from the part-key DB sign an identifier earlier than ANY acknowledged
    advance point, and no secret retained in either copy has authority over it. -/
theorem restart_preserves_forward_security (start n : Nat) (hsn : start + n < M64) (h : List NOp)
    (hok : OpsOK (advancesOf h)) (op : Op) (hop : op ∈ advancesOf h) (id : Id) (hlt : Id.lt id op.cur) (m : Nat) :
    sign (nrun (nodeInit start n) h).mem id m = none ∧
    sign (reload (nrun (nodeInit start n) h).disk) id m = none ∧
    (∀ k ∈ retained (nrun (nodeInit start n) h).mem, authority k id = false) ∧
    (∀ k ∈ retained (reload (nrun (nodeInit start n) h).disk), authority k id = false) := by
  have hi := ninv_run _ h (ninv_init start n hsn) hok
  have hid := lt_batch_succ id op.cur hlt (hok op hop)
  have hnc : ¬ covers (nrun (nodeInit start n) h).mem id := fun hc =>
    (node_covers_sub _ h (ninv_init start n hsn) hok id hc).2 op hop hlt
  have hmem : sign (nrun (nodeInit start n) h).mem id m = none := by
    cases hs : sign (nrun (nodeInit start n) h).mem id m with
    | none => rfl
    | some sg =>
      exfalso
      exact hnc ((sign_isSome_iff _ id m hid).mp (by rw [hs]; rfl))
  have hret : ∀ k ∈ retained (nrun (nodeInit start n) h).mem, authority k id = false := by
    intro k hk
    cases ha : authority k id with
    | false => rfl
    | true => exact absurd (retained_covers _ hi.mem k hk id ha) hnc
  refine ⟨hmem, ?_, hret, ?_⟩
  · rw [restored_signs_as_memory start n hsn h hok]; exact hmem
  · rw [retained_eqv _ _ (eqv_reload _), ← retained_eqv _ _ hi.eqv]; exact hret

/-- … and both copies still sign (with a verifying result) every identifier of the key's range that is not earlier
    than any acknowledged advance point. -/
theorem restart_future_signable (start n : Nat) (hsn : start + n < M64) (h : List NOp)
    (hok : OpsOK (advancesOf h)) (id : Id) (hr : start ≤ id.batch ∧ id.batch < start + n)
    (hfut : ∀ op ∈ advancesOf h, ¬ Id.lt id op.cur ∧ id.offset < op.numKeys) (m : Nat) :
    ∃ sg, sign (nrun (nodeInit start n) h).mem id m = some sg ∧
          sign (reload (nrun (nodeInit start n) h).disk) id m = some sg ∧
          verify .master id m sg = true := by
  have hid : id.batch + 1 < M64 := by omega
  have hi := ninv_run _ h (ninv_init start n hsn) hok
  have hc := node_covers_sup _ h (ninv_init start n hsn) hok id ((covers_generate start n id).mpr hr) hfut
  have hs := (sign_isSome_iff _ id m hid).mpr hc
  cases hsg : sign (nrun (nodeInit start n) h).mem id m with
  | none => rw [hsg] at hs; simp at hs
  | some sg =>
    exact ⟨sg, rfl, by rw [restored_signs_as_memory start n hsn h hok, hsg],
      sign_verifies _ id m sg hi.mem hid hsg⟩

-- instance: keys for batches 1..3 (dilution 3); advance to (1,2), restart, advance to (2,1), advance back to (1,0), restart
def exHist : List NOp := [.advance ⟨1, 2⟩ 3, .restart, .advance ⟨2, 1⟩ 3, .advance ⟨1, 0⟩ 3, .restart]
example : OpsOK (advancesOf exHist) := by
  intro op h; simp only [exHist, advancesOf, List.mem_cons, List.not_mem_nil, or_false] at h
  rcases h with rfl | rfl | rfl <;> decide
example : sign (reload (nrun (nodeInit 1 3) exHist).disk) ⟨2, 0⟩ 7 = none := by decide
example : (sign (reload (nrun (nodeInit 1 3) exHist).disk) ⟨2, 1⟩ 7).map (fun sg => verify .master ⟨2, 1⟩ 7 sg)
    = some true := by decide
example : retained (nrun (nodeInit 1 3) exHist).mem = [.B 3, .O 2 1, .O 2 2] := by decide
-- the reload really changes the nil-ness flag (an exhausted key), which is why `Eqv` and not `=` is the invariant
example : (nrun (nodeInit 1 1) [.advance ⟨2, 0⟩ 3, .restart]).mem ≠ (nrun (nodeInit 1 1) [.advance ⟨2, 0⟩ 3, .restart]).disk := by
  decide
end Props.C36
