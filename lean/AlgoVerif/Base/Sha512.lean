/-
SHA-512/256 and SHA-256 (FIPS 180-4), core Lean only, for the drivers that must reproduce the
digests of crypto.HashFactory{Sha512_256, Sha256} byte for byte (C37).  NOT part of any theorem:
all theorems take the hash as a parameter `H`.  Correctness of this file is established on every
run by the tie (the C37 harness emits `sha` ops computed by Go's crypto/sha512 and crypto/sha256
and the driver recomputes them with these definitions; messages of every length 0..300 around the
block/padding boundaries).  Round constants copied from Go's crypto/internal/fips140/sha{256,512}.
-/
namespace AlgoVerif.Sha

def K512 : Array UInt64 := #[
  0x428a2f98d728ae22, 0x7137449123ef65cd, 0xb5c0fbcfec4d3b2f, 0xe9b5dba58189dbbc,
  0x3956c25bf348b538, 0x59f111f1b605d019, 0x923f82a4af194f9b, 0xab1c5ed5da6d8118,
  0xd807aa98a3030242, 0x12835b0145706fbe, 0x243185be4ee4b28c, 0x550c7dc3d5ffb4e2,
  0x72be5d74f27b896f, 0x80deb1fe3b1696b1, 0x9bdc06a725c71235, 0xc19bf174cf692694,
  0xe49b69c19ef14ad2, 0xefbe4786384f25e3, 0x0fc19dc68b8cd5b5, 0x240ca1cc77ac9c65,
  0x2de92c6f592b0275, 0x4a7484aa6ea6e483, 0x5cb0a9dcbd41fbd4, 0x76f988da831153b5,
  0x983e5152ee66dfab, 0xa831c66d2db43210, 0xb00327c898fb213f, 0xbf597fc7beef0ee4,
  0xc6e00bf33da88fc2, 0xd5a79147930aa725, 0x06ca6351e003826f, 0x142929670a0e6e70,
  0x27b70a8546d22ffc, 0x2e1b21385c26c926, 0x4d2c6dfc5ac42aed, 0x53380d139d95b3df,
  0x650a73548baf63de, 0x766a0abb3c77b2a8, 0x81c2c92e47edaee6, 0x92722c851482353b,
  0xa2bfe8a14cf10364, 0xa81a664bbc423001, 0xc24b8b70d0f89791, 0xc76c51a30654be30,
  0xd192e819d6ef5218, 0xd69906245565a910, 0xf40e35855771202a, 0x106aa07032bbd1b8,
  0x19a4c116b8d2d0c8, 0x1e376c085141ab53, 0x2748774cdf8eeb99, 0x34b0bcb5e19b48a8,
  0x391c0cb3c5c95a63, 0x4ed8aa4ae3418acb, 0x5b9cca4f7763e373, 0x682e6ff3d6b2b8a3,
  0x748f82ee5defb2fc, 0x78a5636f43172f60, 0x84c87814a1f0ab72, 0x8cc702081a6439ec,
  0x90befffa23631e28, 0xa4506cebde82bde9, 0xbef9a3f7b2c67915, 0xc67178f2e372532b,
  0xca273eceea26619c, 0xd186b8c721c0c207, 0xeada7dd6cde0eb1e, 0xf57d4f7fee6ed178,
  0x06f067aa72176fba, 0x0a637dc5a2c898a6, 0x113f9804bef90dae, 0x1b710b35131c471b,
  0x28db77f523047d84, 0x32caab7b40c72493, 0x3c9ebe0a15c9bebc, 0x431d67c49c100d4c,
  0x4cc5d4becb3e42b6, 0x597f299cfc657e2a, 0x5fcb6fab3ad6faec, 0x6c44198c4a475817]

def K256 : Array UInt32 := #[
  0x428a2f98, 0x71374491, 0xb5c0fbcf, 0xe9b5dba5, 0x3956c25b, 0x59f111f1, 0x923f82a4, 0xab1c5ed5,
  0xd807aa98, 0x12835b01, 0x243185be, 0x550c7dc3, 0x72be5d74, 0x80deb1fe, 0x9bdc06a7, 0xc19bf174,
  0xe49b69c1, 0xefbe4786, 0x0fc19dc6, 0x240ca1cc, 0x2de92c6f, 0x4a7484aa, 0x5cb0a9dc, 0x76f988da,
  0x983e5152, 0xa831c66d, 0xb00327c8, 0xbf597fc7, 0xc6e00bf3, 0xd5a79147, 0x06ca6351, 0x14292967,
  0x27b70a85, 0x2e1b2138, 0x4d2c6dfc, 0x53380d13, 0x650a7354, 0x766a0abb, 0x81c2c92e, 0x92722c85,
  0xa2bfe8a1, 0xa81a664b, 0xc24b8b70, 0xc76c51a3, 0xd192e819, 0xd6990624, 0xf40e3585, 0x106aa070,
  0x19a4c116, 0x1e376c08, 0x2748774c, 0x34b0bcb5, 0x391c0cb3, 0x4ed8aa4a, 0x5b9cca4f, 0x682e6ff3,
  0x748f82ee, 0x78a5636f, 0x84c87814, 0x8cc70208, 0x90befffa, 0xa4506ceb, 0xbef9a3f7, 0xc67178f2]

def iv512_256 : Array UInt64 := #[
  0x22312194fc2bf72c, 0x9f555fa3c84c64c2, 0x2393b86b6f53b151, 0x963877195940eabd,
  0x96283ee2a88effe3, 0xbe5e1e2553863992, 0x2b0199fc2c85b8aa, 0x0eb72ddc81c52ca2]

def iv512 : Array UInt64 := #[
  0x6a09e667f3bcc908, 0xbb67ae8584caa73b, 0x3c6ef372fe94f82b, 0xa54ff53a5f1d36f1,
  0x510e527fade682d1, 0x9b05688c2b3e6c1f, 0x1f83d9abfb41bd6b, 0x5be0cd19137e2179]

def iv256 : Array UInt32 := #[
  0x6a09e667, 0xbb67ae85, 0x3c6ef372, 0xa54ff53a, 0x510e527f, 0x9b05688c, 0x1f83d9ab, 0x5be0cd19]

@[inline] def rotr64 (x : UInt64) (n : UInt64) : UInt64 := (x >>> n) ||| (x <<< (64 - n))
@[inline] def rotr32 (x : UInt32) (n : UInt32) : UInt32 := (x >>> n) ||| (x <<< (32 - n))

/-- message ‖ 0x80 ‖ 0… ‖ big-endian bit length (lenBytes bytes), total a multiple of `block`. -/
def pad (msg : ByteArray) (block lenBytes : Nat) : ByteArray := Id.run do
  let n := msg.size
  let mut out := msg.push 0x80
  let rem := (n + 1 + lenBytes) % block
  let z := if rem = 0 then 0 else block - rem
  for _ in [0:z] do out := out.push 0
  let bits := n * 8
  for i in [0:lenBytes] do
    let sh := 8 * (lenBytes - 1 - i)
    out := out.push (UInt8.ofNat ((bits >>> sh) % 256))
  return out

def be64 (b : ByteArray) (off : Nat) : UInt64 := Id.run do
  let mut w : UInt64 := 0
  for i in [0:8] do w := (w <<< 8) ||| (b.get! (off + i)).toUInt64
  return w

def be32 (b : ByteArray) (off : Nat) : UInt32 := Id.run do
  let mut w : UInt32 := 0
  for i in [0:4] do w := (w <<< 8) ||| (b.get! (off + i)).toUInt32
  return w

def compress512 (h : Array UInt64) (b : ByteArray) (off : Nat) : Array UInt64 := Id.run do
  let mut w : Array UInt64 := Array.mkEmpty 80
  for i in [0:16] do w := w.push (be64 b (off + 8 * i))
  for i in [16:80] do
    let w15 := w[i - 15]!
    let w2 := w[i - 2]!
    let s0 := rotr64 w15 1 ^^^ rotr64 w15 8 ^^^ (w15 >>> 7)
    let s1 := rotr64 w2 19 ^^^ rotr64 w2 61 ^^^ (w2 >>> 6)
    w := w.push (w[i - 16]! + s0 + w[i - 7]! + s1)
  let mut a := h[0]!; let mut bb := h[1]!; let mut c := h[2]!; let mut d := h[3]!
  let mut e := h[4]!; let mut f := h[5]!; let mut g := h[6]!; let mut hh := h[7]!
  for i in [0:80] do
    let S1 := rotr64 e 14 ^^^ rotr64 e 18 ^^^ rotr64 e 41
    let ch := (e &&& f) ^^^ ((~~~ e) &&& g)
    let t1 := hh + S1 + ch + K512[i]! + w[i]!
    let S0 := rotr64 a 28 ^^^ rotr64 a 34 ^^^ rotr64 a 39
    let maj := (a &&& bb) ^^^ (a &&& c) ^^^ (bb &&& c)
    let t2 := S0 + maj
    hh := g; g := f; f := e; e := d + t1; d := c; c := bb; bb := a; a := t1 + t2
  return #[h[0]! + a, h[1]! + bb, h[2]! + c, h[3]! + d, h[4]! + e, h[5]! + f, h[6]! + g, h[7]! + hh]

def compress256 (h : Array UInt32) (b : ByteArray) (off : Nat) : Array UInt32 := Id.run do
  let mut w : Array UInt32 := Array.mkEmpty 64
  for i in [0:16] do w := w.push (be32 b (off + 4 * i))
  for i in [16:64] do
    let w15 := w[i - 15]!
    let w2 := w[i - 2]!
    let s0 := rotr32 w15 7 ^^^ rotr32 w15 18 ^^^ (w15 >>> 3)
    let s1 := rotr32 w2 17 ^^^ rotr32 w2 19 ^^^ (w2 >>> 10)
    w := w.push (w[i - 16]! + s0 + w[i - 7]! + s1)
  let mut a := h[0]!; let mut bb := h[1]!; let mut c := h[2]!; let mut d := h[3]!
  let mut e := h[4]!; let mut f := h[5]!; let mut g := h[6]!; let mut hh := h[7]!
  for i in [0:64] do
    let S1 := rotr32 e 6 ^^^ rotr32 e 11 ^^^ rotr32 e 25
    let ch := (e &&& f) ^^^ ((~~~ e) &&& g)
    let t1 := hh + S1 + ch + K256[i]! + w[i]!
    let S0 := rotr32 a 2 ^^^ rotr32 a 13 ^^^ rotr32 a 22
    let maj := (a &&& bb) ^^^ (a &&& c) ^^^ (bb &&& c)
    let t2 := S0 + maj
    hh := g; g := f; f := e; e := d + t1; d := c; c := bb; bb := a; a := t1 + t2
  return #[h[0]! + a, h[1]! + bb, h[2]! + c, h[3]! + d, h[4]! + e, h[5]! + f, h[6]! + g, h[7]! + hh]

def out64 (h : Array UInt64) (nbytes : Nat) : List UInt8 := Id.run do
  let mut out : Array UInt8 := Array.mkEmpty nbytes
  for i in [0:nbytes] do
    let wd := h[i / 8]!
    out := out.push (wd >>> (UInt64.ofNat (8 * (7 - i % 8)))).toUInt8
  return out.toList

def out32 (h : Array UInt32) (nbytes : Nat) : List UInt8 := Id.run do
  let mut out : Array UInt8 := Array.mkEmpty nbytes
  for i in [0:nbytes] do
    let wd := h[i / 4]!
    out := out.push (wd >>> (UInt32.ofNat (8 * (3 - i % 4)))).toUInt8
  return out.toList

def sha512With (iv : Array UInt64) (nbytes : Nat) (msg : List UInt8) : List UInt8 := Id.run do
  let p := pad (ByteArray.mk msg.toArray) 128 16
  let mut h := iv
  for k in [0:p.size / 128] do h := compress512 h p (128 * k)
  return out64 h nbytes

/-- SHA-512/256 (crypto.Sha512_256, 32 bytes) -/
def sha512_256 (msg : List UInt8) : List UInt8 := sha512With iv512_256 32 msg
/-- SHA-512 (crypto.Sha512, 64 bytes) -/
def sha512 (msg : List UInt8) : List UInt8 := sha512With iv512 64 msg

/-- SHA-256 (crypto.Sha256, 32 bytes) -/
def sha256 (msg : List UInt8) : List UInt8 := Id.run do
  let p := pad (ByteArray.mk msg.toArray) 64 8
  let mut h := iv256
  for k in [0:p.size / 64] do h := compress256 h p (64 * k)
  return out32 h 32

end AlgoVerif.Sha
