/-
Line-protocol plumbing shared by all drivers: read one op per line from stdin, write one
result line per op to stdout. Core Lean only.
-/
namespace AlgoVerif.Drv

def fields (line : String) : List String :=
  (line.splitOn " ").filter (· ≠ "")

def showBool (b : Bool) : String := if b then "true" else "false"

def nat! (s : String) : Nat := s.toNat?.getD 0
def int! (s : String) : Int := s.toInt?.getD 0

/-- stateless: map every line -/
partial def mapLines (f : String → String) : IO Unit := do
  let stdin ← IO.getStdin
  let stdout ← IO.getStdout
  let rec loop : IO Unit := do
    let line ← stdin.getLine
    if line.isEmpty then return ()
    let l := (line.dropEndWhile (fun c => c == '\n' || c == '\r')).toString
    stdout.putStrLn (f l)
    loop
  loop
  stdout.flush

/-- stateful: fold a state through the lines -/
partial def foldLines {σ : Type} (init : σ) (step : σ → String → σ × String) : IO Unit := do
  let stdin ← IO.getStdin
  let stdout ← IO.getStdout
  let rec loop (s : σ) : IO Unit := do
    let line ← stdin.getLine
    if line.isEmpty then return ()
    let l := (line.dropEndWhile (fun c => c == '\n' || c == '\r')).toString
    let (s', out) := step s l
    stdout.putStrLn out
    loop s'
  loop init
  stdout.flush

end AlgoVerif.Drv
