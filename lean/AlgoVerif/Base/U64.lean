/-
Machine-integer helpers used by the generated (go2lean) definitions.
Unsigned integers of width `w` are `Nat`s `< 2^w`; every wrapping operation is explicit.
Signed integers are `Int`s in `[-2^(w-1), 2^(w-1))` with explicit wrap.
Core Lean only (no Mathlib) so drivers can be linked as executables.
-/
namespace AlgoVerif.U64

def uadd (w a b : Nat) : Nat := (a + b) % 2^w
def usub (w a b : Nat) : Nat := (a + 2^w - b % 2^w) % 2^w
def umul (w a b : Nat) : Nat := (a * b) % 2^w
def unot (w a : Nat) : Nat := 2^w - 1 - a % 2^w
def ushl (w a b : Nat) : Nat := (a <<< b) % 2^w
def uandnot (w a b : Nat) : Nat := a &&& (unot w b)

/-- `bits.Mul64`: (hi, lo) of the 128-bit product. -/
def mul64 (a b : Nat) : Nat × Nat := ((a * b) / 2^64, (a * b) % 2^64)
/-- `bits.Div64`: quotient and remainder of (hi·2^64 + lo) / c. Go panics unless `hi < c`;
    callers in scope test exactly that guard first. The quotient is truncated to 64 bits as the
    hardware would, so the definition is total and faithful on the guarded domain. -/
def div64 (hi lo c : Nat) : Nat × Nat := (((hi * 2^64 + lo) / c) % 2^64, (hi * 2^64 + lo) % c)
/-- `bits.Add64` -/
def add64 (a b carry : Nat) : Nat × Nat := ((a + b + carry) % 2^64, (a + b + carry) / 2^64)
/-- `bits.Len64` -/
def len64 (a : Nat) : Nat := if a = 0 then 0 else Nat.log2 a + 1

/-- wrap an integer into the signed range of width `w` -/
def iwrap (w : Nat) (x : Int) : Int :=
  let m : Int := 2^w
  let r := x % m
  if r < 2^(w-1) then r else r - m
/-- unsigned → signed reinterpretation -/
def u2i (w : Nat) (x : Nat) : Int := iwrap w (x : Int)
/-- signed → unsigned reinterpretation -/
def i2u (w : Nat) (x : Int) : Nat := (x % (2^w : Int)).toNat

end AlgoVerif.U64
