/-
MessagePack as go-algorand uses it (github.com/algorand/msgp generated code, and go-codec with
`Canonical = true`, `WriteExt = true`, `PositiveIntUnsigned = true`; protocol/codec.go:init).

* `V`      value trees (no float / ext / time: no msgp-generated consensus type contains one; the
           decoder rejects those tags explicitly).  Map keys are arbitrary values: the code base has
           string keys (struct fields, `map[string]T`), unsigned keys (`map[AssetIndex]T`, `map[uint64]T`),
           `bin` keys (`map[Address]T`) and even struct keys (`map[proposalValue]T`).
* `enc`    the ONE encoding both Go encoders are supposed to emit: shortest integer form, non-negative
           integers always in the unsigned family (msgp `AppendInt64` / go-codec `PositiveIntUnsigned`),
           `bin8/16/32` (never a fix form), `fixstr/str8/16/32`, `fixarray/16/32`, `fixmap/16/32`.
* `dec`    a total decoder of *every* well-formed msgpack string over these tags, including the
           non-shortest forms (so a non-canonical input is decoded and then classified, not rejected).
* `Canon`  ranges (`WF`) + every map has its keys strictly increasing in the go-codec canonical order
           (`keyLt`: string keys by content, all other keys by their encoding — for unsigned keys that is
           numeric order, `keyLt_uint`), hence no duplicate keys.
* `isCanonicalBytes bs`  `bs` decodes completely to a canonical tree that re-encodes to exactly `bs`.

Core Lean only (imported by drivers).  Proofs: AlgoVerif/Lemmas/Msgpack.lean, AlgoVerif/Props/C40.lean.
-/
namespace AlgoVerif.Msgpack

abbrev Bytes := List UInt8

/-- byte of a natural (callers guarantee `n < 256`) -/
def b8 (n : Nat) : UInt8 := UInt8.ofNat n

/-- big-endian, exactly `k` bytes (of `n % 256^k`) -/
def be : Nat → Nat → Bytes
  | 0, _ => []
  | k+1, n => b8 (n / 256^k % 256) :: be k (n % 256^k)

/-- read `k` big-endian bytes -/
def readBE : Nat → Bytes → Option (Nat × Bytes)
  | 0, bs => some (0, bs)
  | _+1, [] => none
  | k+1, b :: r =>
    match readBE k r with
    | none => none
    | some (n, t) => some (b.toNat * 256^k + n, t)

def takeAux : Nat → Bytes → Bytes → Option (Bytes × Bytes)
  | 0, bs, acc => some (acc.reverse, bs)
  | _+1, [], _ => none
  | k+1, b :: r, acc => takeAux k r (b :: acc)

/-- split off exactly `k` bytes (`none` when fewer remain); linear in `k`, not in the input -/
def takeN (k : Nat) (bs : Bytes) : Option (Bytes × Bytes) := takeAux k bs []

/-! ## value trees -/

inductive V where
  | nil
  | bool (b : Bool)
  | uint (n : Nat)
  /-- signed family; canonical only for negative `i` -/
  | int (i : Int)
  | bin (b : Bytes)
  | str (s : Bytes)
  | arr (vs : List V)
  | map (kvs : List (V × V))

instance : Inhabited V := ⟨.nil⟩

/-! ## headers (everything that is not recursive) -/

inductive Hd where
  | nil
  | bool (b : Bool)
  | uint (n : Nat)
  /-- negative integer -/
  | nint (i : Int)
  | bin (len : Nat)
  | str (len : Nat)
  | arr (n : Nat)
  | map (n : Nat)

def encUint (n : Nat) : Bytes :=
  if n < 128 then [b8 n]
  else if n < 256 then 0xcc :: be 1 n
  else if n < 65536 then 0xcd :: be 2 n
  else if n < 4294967296 then 0xce :: be 4 n
  else 0xcf :: be 8 n

/-- negative integers (`i < 0`), msgp `AppendInt64` / go-codec `EncodeInt` -/
def encNint (i : Int) : Bytes :=
  if -32 ≤ i then [b8 (256 + i).toNat]
  else if -128 ≤ i then 0xd0 :: be 1 (256 + i).toNat
  else if -32768 ≤ i then 0xd1 :: be 2 (65536 + i).toNat
  else if -2147483648 ≤ i then 0xd2 :: be 4 (4294967296 + i).toNat
  else 0xd3 :: be 8 (18446744073709551616 + i).toNat

def encBinHd (n : Nat) : Bytes :=
  if n < 256 then 0xc4 :: be 1 n
  else if n < 65536 then 0xc5 :: be 2 n
  else 0xc6 :: be 4 n

def encStrHd (n : Nat) : Bytes :=
  if n < 32 then [b8 (0xa0 + n)]
  else if n < 256 then 0xd9 :: be 1 n
  else if n < 65536 then 0xda :: be 2 n
  else 0xdb :: be 4 n

def encArrHd (n : Nat) : Bytes :=
  if n < 16 then [b8 (0x90 + n)]
  else if n < 65536 then 0xdc :: be 2 n
  else 0xdd :: be 4 n

def encMapHd (n : Nat) : Bytes :=
  if n < 16 then [b8 (0x80 + n)]
  else if n < 65536 then 0xde :: be 2 n
  else 0xdf :: be 4 n

def encHd : Hd → Bytes
  | .nil => [0xc0]
  | .bool b => [if b then 0xc3 else 0xc2]
  | .uint n => encUint n
  | .nint i => encNint i
  | .bin n => encBinHd n
  | .str n => encStrHd n
  | .arr n => encArrHd n
  | .map n => encMapHd n

/-- two's-complement reading of a `bits`-wide field; non-negative values join the unsigned family -/
def sint (bits n : Nat) : Hd :=
  if n < 2^(bits-1) then .uint n else .nint ((n : Int) - (2^bits : Nat))

def rd (k : Nat) (f : Nat → Hd) (r : Bytes) : Option (Hd × Bytes) :=
  match readBE k r with
  | none => none
  | some (n, t) => some (f n, t)

/-- header decoder: accepts every msgpack form of the supported families; `none` = truncated input or an
unsupported tag (0xc1 reserved, ext/fixext, float32/64) -/
def decHd : Bytes → Option (Hd × Bytes)
  | [] => none
  | b :: r =>
    let t := b.toNat
    if t < 0x80 then some (.uint t, r)
    else if t < 0x90 then some (.map (t - 0x80), r)
    else if t < 0xa0 then some (.arr (t - 0x90), r)
    else if t < 0xc0 then some (.str (t - 0xa0), r)
    else if 0xe0 ≤ t then some (.nint ((t : Int) - 256), r)
    else if t = 0xc0 then some (.nil, r)
    else if t = 0xc2 then some (.bool false, r)
    else if t = 0xc3 then some (.bool true, r)
    else if t = 0xc4 then rd 1 .bin r
    else if t = 0xc5 then rd 2 .bin r
    else if t = 0xc6 then rd 4 .bin r
    else if t = 0xcc then rd 1 .uint r
    else if t = 0xcd then rd 2 .uint r
    else if t = 0xce then rd 4 .uint r
    else if t = 0xcf then rd 8 .uint r
    else if t = 0xd0 then rd 1 (sint 8) r
    else if t = 0xd1 then rd 2 (sint 16) r
    else if t = 0xd2 then rd 4 (sint 32) r
    else if t = 0xd3 then rd 8 (sint 64) r
    else if t = 0xd9 then rd 1 .str r
    else if t = 0xda then rd 2 .str r
    else if t = 0xdb then rd 4 .str r
    else if t = 0xdc then rd 2 .arr r
    else if t = 0xdd then rd 4 .arr r
    else if t = 0xde then rd 2 .map r
    else if t = 0xdf then rd 4 .map r
    else none

/-! ## encoder -/

mutual
def enc : V → Bytes
  | .nil => encHd .nil
  | .bool b => encHd (.bool b)
  | .uint n => encHd (.uint n)
  | .int i => if 0 ≤ i then encHd (.uint i.toNat) else encHd (.nint i)
  | .bin b => encHd (.bin b.length) ++ b
  | .str s => encHd (.str s.length) ++ s
  | .arr vs => encHd (.arr vs.length) ++ encL vs
  | .map kvs => encHd (.map kvs.length) ++ encM kvs
def encL : List V → Bytes
  | [] => []
  | v :: vs => enc v ++ encL vs
def encM : List (V × V) → Bytes
  | [] => []
  | (k, v) :: r => enc k ++ (enc v ++ encM r)
end

/-! ## decoder (fuel = structural; `dec` supplies enough for every input, see `Lemmas.Msgpack.decF_enc`) -/

mutual
def decF : Nat → Bytes → Option (V × Bytes)
  | 0, _ => none
  | f+1, bs =>
    match decHd bs with
    | none => none
    | some (.nil, r) => some (.nil, r)
    | some (.bool b, r) => some (.bool b, r)
    | some (.uint n, r) => some (.uint n, r)
    | some (.nint i, r) => some (.int i, r)
    | some (.bin n, r) =>
      match takeN n r with
      | none => none
      | some (x, t) => some (.bin x, t)
    | some (.str n, r) =>
      match takeN n r with
      | none => none
      | some (x, t) => some (.str x, t)
    | some (.arr n, r) =>
      match decL f n r with
      | none => none
      | some (vs, t) => some (.arr vs, t)
    | some (.map n, r) =>
      match decM f n r with
      | none => none
      | some (kvs, t) => some (.map kvs, t)
def decL : Nat → Nat → Bytes → Option (List V × Bytes)
  | _, 0, bs => some ([], bs)
  | 0, _+1, _ => none
  | f+1, n+1, bs =>
    match decF f bs with
    | none => none
    | some (v, r) =>
      match decL f n r with
      | none => none
      | some (vs, t) => some (v :: vs, t)
def decM : Nat → Nat → Bytes → Option (List (V × V) × Bytes)
  | _, 0, bs => some ([], bs)
  | 0, _+1, _ => none
  | f+1, n+1, bs =>
    match decF f bs with
    | none => none
    | some (k, r) =>
      match decF f r with
      | none => none
      | some (v, r') =>
        match decM f n r' with
        | none => none
        | some (kvs, t) => some ((k, v) :: kvs, t)
end

/-- decode one value from the front of `bs`; `none` = malformed / truncated / unsupported tag -/
def dec (bs : Bytes) : Option (V × Bytes) := decF (2 * bs.length + 1) bs

/-! ## canonical form -/

/-- strict lexicographic order on byte strings (Go `bytes.Compare … < 0`, Go string `<`) -/
def lexLt : Bytes → Bytes → Bool
  | _, [] => false
  | [], _ :: _ => true
  | a :: as, b :: bs => decide (a < b) || (a == b && lexLt as bs)

/-- go-codec `kMapCanonical`: string keys are ordered by content, every other key kind by value, which for
unsigned keys and equal-length `bin` keys is the order of the encodings (the out-of-band rule for all
remaining kinds).  One total order: tag 0 + content for strings, tag 1 + encoding otherwise. -/
def sortKey : V → Bytes
  | .str s => 0 :: s
  | v => 1 :: enc v

def keyLt (a b : V) : Bool := lexLt (sortKey a) (sortKey b)

/-- adjacent keys strictly increasing -/
def sortedKeys : List V → Bool
  | [] => true
  | [_] => true
  | a :: b :: r => keyLt a b && sortedKeys (b :: r)

/- ranges: everything fits the wire format, integers are in the family `enc` uses for them -/
mutual
def wfB : V → Bool
  | .nil => true
  | .bool _ => true
  | .uint n => decide (n < 18446744073709551616)
  | .int i => decide (-9223372036854775808 ≤ i) && decide (i < 0)
  | .bin b => decide (b.length < 4294967296)
  | .str s => decide (s.length < 4294967296)
  | .arr vs => decide (vs.length < 4294967296) && wfL vs
  | .map kvs => decide (kvs.length < 4294967296) && wfM kvs
def wfL : List V → Bool
  | [] => true
  | v :: vs => wfB v && wfL vs
def wfM : List (V × V) → Bool
  | [] => true
  | (k, v) :: r => wfB k && (wfB v && wfM r)
end

/- every map (at any depth, in keys too) has strictly increasing keys -/
mutual
def sortedB : V → Bool
  | .arr vs => sortedL vs
  | .map kvs => sortedKeys (kvs.map Prod.fst) && sortedM kvs
  | _ => true
def sortedL : List V → Bool
  | [] => true
  | v :: vs => sortedB v && sortedL vs
def sortedM : List (V × V) → Bool
  | [] => true
  | (k, v) :: r => sortedB k && (sortedB v && sortedM r)
end

def canonB (v : V) : Bool := wfB v && sortedB v

def WF (v : V) : Prop := wfB v = true
def Canon (v : V) : Prop := canonB v = true

instance (v : V) : Decidable (WF v) := inferInstanceAs (Decidable (wfB v = true))
instance (v : V) : Decidable (Canon v) := inferInstanceAs (Decidable (canonB v = true))

/-- `bs` is exactly the canonical encoding of a canonical tree -/
def isCanonicalBytes (bs : Bytes) : Bool :=
  match dec bs with
  | some (v, []) => canonB v && (enc v == bs)
  | _ => false

/-! ## normalised text dump (drivers / harness comparison) -/

def hexDigit (n : Nat) : Char :=
  if n < 10 then Char.ofNat (48 + n) else Char.ofNat (87 + n)

def hexOf (bs : Bytes) : String :=
  String.ofList (bs.foldr (fun b acc => hexDigit (b.toNat / 16) :: hexDigit (b.toNat % 16) :: acc) [])

def hexVal (c : Char) : Option Nat :=
  let n := c.toNat
  if 48 ≤ n ∧ n ≤ 57 then some (n - 48)
  else if 97 ≤ n ∧ n ≤ 102 then some (n - 87)
  else if 65 ≤ n ∧ n ≤ 70 then some (n - 55)
  else none

def unhexL : List Char → Option Bytes
  | [] => some []
  | [_] => none
  | a :: b :: r =>
    match hexVal a, hexVal b, unhexL r with
    | some x, some y, some t => some (b8 (x * 16 + y) :: t)
    | _, _, _ => none

def unhex (s : String) : Option Bytes := unhexL s.toList

mutual
def dump : V → String
  | .nil => "n"
  | .bool b => if b then "t" else "f"
  | .uint n => "u" ++ toString n
  | .int i => "i" ++ toString i
  | .bin b => "b" ++ hexOf b
  | .str s => "s" ++ hexOf s
  | .arr vs => "[" ++ dumpL vs ++ "]"
  | .map kvs => "{" ++ dumpM kvs ++ "}"
def dumpL : List V → String
  | [] => ""
  | [v] => dump v
  | v :: vs => dump v ++ "," ++ dumpL vs
def dumpM : List (V × V) → String
  | [] => ""
  | [(k, v)] => dump k ++ ":" ++ dump v
  | (k, v) :: r => dump k ++ ":" ++ dump v ++ "," ++ dumpM r
end

end AlgoVerif.Msgpack
