/-!
# Spec.TrackerStore — the tracker-store reader/writer interface as pure functions on sorted maps

One executable specification of `ledger/store/trackerdb` (interface.go): every table is an association list kept
sorted by its key (accounts by address, resources by (address, creatable index), kv by raw key bytes, online-account
history by (address, update round), round params / tx tail / state-proof contexts / catchpoint first-stage infos by
round).  The writers are ordered insert / erase / "delete before a round"; the readers are lookups, ordered range
scans and the pagination loops of `LookupKeysByPrefix`, `LookupKeysByPrefixCursor`, `LookupLimitedResources`,
`AccountsOnlineTop`, `OnlineAccountsAll`.

Both back ends (sqlitedriver = SQL over these tables, generickv+pebbledbdriver = ordered byte keys) are compared with
THIS spec by the C47 check; where one engine deviates from the interface contract the deviation is modelled separately
(Model.TrackerStoreKV, checks/C47.py QUIRKS), never folded into the spec.  Core Lean only (no Mathlib): the driver links it.
-/
namespace Spec.TrackerStore

/-! ## strict total orders given as Boolean functions -/

structure StrictTotal {κ : Type} (lt : κ → κ → Bool) : Prop where
  irrefl : ∀ a, lt a a = false
  trans : ∀ a b c, lt a b = true → lt b c = true → lt a c = true
  total : ∀ a b, lt a b = true ∨ a = b ∨ lt b a = true

def natLt (a b : Nat) : Bool := decide (a < b)

/-- lexicographic order on byte strings (Go string / SQLite BLOB / Pebble default comparer) -/
def lexLt : List Nat → List Nat → Bool
  | [], [] => false
  | [], _ :: _ => true
  | _ :: _, [] => false
  | a :: as, b :: bs => if a < b then true else if b < a then false else lexLt as bs

/-- lexicographic order on pairs (composite keys: (address, creatable index), (address, update round)) -/
def pairLt {α β : Type} [DecidableEq α] (la : α → α → Bool) (lb : β → β → Bool) (x y : α × β) : Bool :=
  la x.1 y.1 || (decide (x.1 = y.1) && lb x.2 y.2)

/-! ## sorted association lists -/

section SMap
variable {κ ν : Type} [DecidableEq κ]

/-- ordered insert-or-replace -/
def ins (lt : κ → κ → Bool) (k : κ) (v : ν) : List (κ × ν) → List (κ × ν)
  | [] => [(k, v)]
  | (k', v') :: t =>
    if lt k k' then (k, v) :: (k', v') :: t
    else if k = k' then (k, v) :: t
    else (k', v') :: ins lt k v t

/-- erase a key -/
def del (k : κ) (l : List (κ × ν)) : List (κ × ν) := l.filter (fun p => decide (p.1 ≠ k))

def find (k : κ) : List (κ × ν) → Option ν
  | [] => none
  | (k', v) :: t => if k = k' then some v else find k t

def has (k : κ) (l : List (κ × ν)) : Bool := (find k l).isSome

/-- the list is strictly increasing in its keys -/
def Sorted (lt : κ → κ → Bool) (l : List (κ × ν)) : Prop := l.Pairwise (fun a b => lt a.1 b.1 = true)

/-- "delete before": keep exactly the entries whose round is not below `r` (txtail forgetBefore, round-params prune,
state-proof DeleteOldSPContexts) -/
def pruneBelow (r : Nat) (l : List (Nat × ν)) : List (Nat × ν) := l.filter (fun p => decide (r ≤ p.1))

/-- delete up to and including `r` (DeleteOldCatchpointFirstStageInfo: `round <= ?`) -/
def pruneUpTo (r : Nat) (l : List (Nat × ν)) : List (Nat × ν) := l.filter (fun p => decide (r < p.1))

end SMap

/-! ## pagination loop (processKvRows in sql.go = the iterator loop of generickv/accounts_reader.go) -/

section Page
variable {α : Type}

/-- `collect qual size limit maxBytes rows collected bytes` = (page, moreData).
Rows are visited in order; non-qualifying rows (at or before the cursor, excluded keys) are skipped; the loop stops
when `limit` rows were collected (limit 0 = unlimited) or when the next qualifying row would exceed `maxBytes`
(0 = unlimited) and at least one row was collected; `moreData` says whether a further qualifying row exists. -/
def collect (qual : α → Bool) (size : α → Nat) (limit maxBytes : Nat) : List α → Nat → Nat → List α × Bool
  | [], _, _ => ([], false)
  | r :: rest, c, b =>
    if !qual r then collect qual size limit maxBytes rest c b
    else if decide (0 < maxBytes) && decide (maxBytes < b + size r) && decide (0 < c) then ([], true)
    else if decide (0 < limit) && decide (limit ≤ c + 1) then ([r], rest.any qual)
    else
      let p := collect qual size limit maxBytes rest (c + 1) (b + size r)
      (r :: p.1, p.2)

/-- count-bounded page without byte budget, the closed form the loop is proved equal to -/
def pageOf (qual : α → Bool) (limit : Nat) (rows : List α) : List α × Bool :=
  let q := rows.filter qual
  if limit = 0 then (q, false) else (q.take limit, decide (limit < q.length))

end Page

/-- keys strictly after the cursor (the cursor is exclusive) -/
def after {κ : Type} (lt : κ → κ → Bool) (cursor : Option κ) (k : κ) : Bool :=
  match cursor with
  | none => true
  | some c => lt c k

/-- repeated paging with cursor = last key of the previous page (what the REST layer does with next-token) -/
def pagesFrom {κ : Type} (lt : κ → κ → Bool) (limit : Nat) : Nat → Option κ → List κ → List (List κ)
  | 0, _, _ => []
  | fuel + 1, cursor, keys =>
    let p := pageOf (after lt cursor) limit keys
    match p.1.getLast?, p.2 with
    | some last, true => p.1 :: pagesFrom lt limit fuel (some last) keys
    | _, _ => [p.1]

/-! ## prefix → half-open key interval (keyPrefixIntervalPreprocessing, identical in both drivers) -/

/-- increment of a byte string seen as a base-256 fraction, dropping trailing 0xff bytes; `none` = no upper bound -/
def prefixIncr : List Nat → Option (List Nat)
  | [] => none
  | b :: rest =>
    match prefixIncr rest with
    | some r => some (b :: r)
    | none => if b + 1 > 255 then none else some [b + 1]

def leKey (a b : List Nat) : Bool := !lexLt b a

def inRange (lo : List Nat) (hi : List Nat) (k : List Nat) : Bool := leKey lo k && lexLt k hi

/-! ## rows -/

structure ResRow where
  kind : String   -- "a" asset, "p" app, "x" neither
  x : Nat         -- asset: holding amount; app: local-state uints
  y : Nat         -- asset: params total; app: global-state uints
  flags : Nat
  upd : Nat
deriving Repr, DecidableEq

structure OnlRow where
  m : Nat   -- MicroAlgos (= normalized balance: RewardsBase 0)
  vf : Nat
  vl : Nat  -- VoteLastValid (= votelastvalid column)
  kd : Nat
deriving Repr, DecidableEq

def OnlRow.votingEmpty (o : OnlRow) : Bool := o.vf == 0 && o.vl == 0 && o.kd == 0
def OnlRow.normBal (o : OnlRow) : Nat := o.m

abbrev Addr := Nat
abbrev Key := List Nat
abbrev OKey := Addr × Nat   -- (address, update round)

def okLt : OKey → OKey → Bool := pairLt natLt natLt

abbrev Online := List (OKey × OnlRow)

/-! ## online accounts -/

/-- `e` is the newest entry of its address strictly below round `r` -/
def newestBelow (r : Nat) (l : Online) (e : OKey × OnlRow) : Bool :=
  l.all (fun e' => !(decide (e'.1.1 = e.1.1) && decide (e'.1.2 < r) && decide (e.1.2 < e'.1.2)))

/-- OnlineAccountsDelete(forgetBefore): entries at or after `r` stay; of the entries below `r` only the newest of
each address stays, and only if it is not the offline marker (empty voting data) -/
def keepOnline (r : Nat) (l : Online) (e : OKey × OnlRow) : Bool :=
  decide (r ≤ e.1.2) || (newestBelow r l e && !e.2.votingEmpty)

def onlineDelete (r : Nat) (l : Online) : Online := l.filter (keepOnline r l)

/-- newest entry of `a` with update round ≤ `q` (LookupOnline; the list is sorted by (address, round)) -/
def lookupOnline (a : Addr) (q : Nat) (l : Online) : Option (OKey × OnlRow) :=
  (l.filter (fun e => decide (e.1.1 = a) && decide (e.1.2 ≤ q))).getLast?

def onlineHistory (a : Addr) (l : Online) : Online := l.filter (fun e => decide (e.1.1 = a))

/-- latest row of every address with update round ≤ `q` (GROUP BY address … max(updround)); ascending by address -/
def latestPerAddr (q : Nat) (l : Online) : Online :=
  let c := l.filter (fun e => decide (e.1.2 ≤ q))
  c.filter (fun e => c.all (fun e' => !(decide (e'.1.1 = e.1.1) && decide (e.1.2 < e'.1.2))))

/-- ORDER BY normalizedonlinebalance DESC, address DESC -/
def topBefore (x y : OKey × OnlRow) : Bool :=
  decide (y.2.normBal < x.2.normBal) || (decide (x.2.normBal = y.2.normBal) && decide (y.1.1 < x.1.1))

def insertBy {α : Type} (before : α → α → Bool) (x : α) : List α → List α
  | [] => [x]
  | y :: t => if before x y then x :: y :: t else y :: insertBy before x t

def sortBy {α : Type} (before : α → α → Bool) (l : List α) : List α := l.foldr (insertBy before) []

def onlineRanked (q : Nat) (l : Online) : Online :=
  sortBy topBefore ((latestPerAddr q l).filter (fun e => decide (0 < e.2.normBal)))

/-- AccountsOnlineTop(rnd, offset, n): LIMIT n OFFSET offset of the ranking -/
def onlineTop (q offset n : Nat) (l : Online) : Online := ((onlineRanked q l).drop offset).take n

/-- ExpiredOnlineAccountsForRound(rnd, voteRnd): HAVING votelastvalid < voteRnd AND votelastvalid > 0 -/
def onlineExpired (q voteRnd : Nat) (l : Online) : Online :=
  (latestPerAddr q l).filter (fun e => decide (e.2.vl < voteRnd) && decide (0 < e.2.vl))

/-- OnlineAccountsAll(maxAccounts): rows in (address, round) order, cut before the (max+1)-th distinct address -/
def onlineAllAux (max : Nat) : Online → Option Addr → Nat → Online
  | [], _, _ => []
  | e :: t, prev, seen =>
    let seen' := if prev = some e.1.1 then seen else seen + 1
    if decide (0 < max) && decide (max < seen') then [] else e :: onlineAllAux max t (some e.1.1) seen'

/-- both drivers initialise "last address seen" with the all-zero address, so a leading zero address is not counted -/
def onlineAll (max : Nat) (l : Online) : Online := onlineAllAux max l (some 0) 0

/-! ## resources -/

abbrev RKey := Addr × Nat
def rkLt : RKey → RKey → Bool := pairLt natLt natLt
abbrev Resources := List (RKey × ResRow)

def ctypeOf (r : ResRow) : Nat := if r.kind = "p" then 1 else 0

def resOf (a : Addr) (l : Resources) : Resources := l.filter (fun e => decide (e.1.1 = a))

/-- LookupLimitedResources: the holder's record merged with the creator's record of the same creatable -/
def mergeRes (act crt : ResRow) : ResRow :=
  -- asset: Amount/Frozen of the holder over the creator's params; app: the holder's local-state schema and key/values
  -- over the creator's params; ResourceFlags of the holder; everything else (incl. UpdateRound) is the creator's
  { kind := act.kind, x := act.x, y := crt.y, flags := act.flags, upd := crt.upd }

/-! ## the store -/

structure Store where
  round : Nat := 0
  accts : List (Addr × String) := []
  res : Resources := []
  creat : List (Nat × (Nat × Addr)) := []          -- cidx ↦ (ctype, creator)
  kv : List (Key × String) := []                   -- value token: "nil" | "_" | hex
  online : Online := []
  rparams : List (Nat × String) := []
  txtail : List (Nat × String) := []
  spctx : List (Nat × String) := []
  totals : List (Nat × String) := []               -- 0 live, 1 catchpoint staging
  cpState : List (String × (Option Nat × Option String)) := []
  cpFS : List (Nat × Nat) := []
  cpUnf : List (Nat × Nat) := []
  cpStored : List (Nat × (String × String × Nat)) := []

def strLt (a b : String) : Bool := decide (a < b)

/-- state after RunMigrations on an empty database (both engines): round 0, zero totals, round-params row 0 -/
def Store.init : Store := { rparams := [(0, "0.0.proto")], totals := [(0, "0.0.0.0")] }

/-- the rows of the kv table inside [lo, hi) in key order -/
def kvRange (lo hi : Key) (s : Store) : List (Key × String) := s.kv.filter (fun e => inRange lo hi e.1)

/-- the row loop of LookupKeysByPrefix: `results` is the caller's map (keys it already decided from its in-memory
deltas: true = present, false = deleted), `count` the number of present keys it holds; rows already in the map are
skipped, new ones are added as present until `maxKeyNum` present keys are held -/
def keysLoop (maxKeyNum : Nat) : List Key → List (Key × Bool) → Nat → List (Key × Bool)
  | [], res, _ => res
  | k :: rest, res, c =>
    if c = maxKeyNum then res
    else if has k res then keysLoop maxKeyNum rest res c
    else keysLoop maxKeyNum rest (ins lexLt k true res) (c + 1)

/-- LookupKeysByPrefix(prefix, maxKeyNum, results, resultCount): (round, the map afterwards, in key order).
The SQL statement reports round 0 when it returns before reading its first row (count = maxKeyNum on entry). -/
def keysByPrefix (pfx : Key) (maxKeyNum : Nat) (pre : List (Key × Bool)) (count : Nat) (s : Store) :
    Option (Nat × List (Key × Bool)) :=
  match prefixIncr pfx with
  | none => none
  | some hi =>
    some (if count = maxKeyNum then 0 else s.round, keysLoop maxKeyNum ((kvRange pfx hi s).map (·.1)) pre count)

def kvSize (withValues : Bool) (e : Key × String) : Nat :=
  e.1.length + (if withValues then (if e.2 = "nil" ∨ e.2 = "_" then 0 else e.2.length / 2) else 0)

/-- LookupKeysByPrefixCursor -/
def keysByPrefixCursor (pfx cursor : Key) (limit maxBytes : Nat) (withValues : Bool) (exclude : List Key) (s : Store) :
    Option (Nat × List (Key × String) × Bool) :=
  match prefixIncr pfx with
  | none => none
  | some hi =>
    let lo := if cursor ≠ [] ∧ leKey pfx cursor then cursor else pfx
    let qual : Key × String → Bool := fun e => lexLt cursor e.1 && !(exclude.contains e.1)
    let p := collect qual (kvSize withValues) limit maxBytes (kvRange lo hi s) 0 0
    some (s.round, p.1, p.2)

/-- LookupLimitedResources(addr, minIdx, max, ctype) -/
def limitedResources (a : Addr) (minIdx max ctype : Nat) (s : Store) : Nat × List (Nat × ResRow × Addr) :=
  if ¬ has a s.accts then (0, []) else
  let rows := ((resOf a s.res).filter (fun e => decide (ctypeOf e.2 = ctype) && decide (minIdx < e.1.2))).take max
  let out := rows.map (fun e =>
    match find e.1.2 s.creat with
    | some (_, creator) =>
      if has creator s.accts then
        match find (creator, e.1.2) s.res with
        | some crt => (e.1.2, mergeRes e.2 crt, creator)
        | none => (e.1.2, e.2, 0)
      else (e.1.2, e.2, 0)
    | none => (e.1.2, e.2, 0))
  (if out.isEmpty then 0 else s.round, out)

/-- LoadTxTail(dbRound): the stored rounds must be dbRound, dbRound-1, … without a gap -/
def txTailCheck : List (Nat × String) → Nat → Bool
  | [], _ => true
  | (r, _) :: t, expected => decide (r = expected) && (match expected with | 0 => t.isEmpty | e + 1 => txTailCheck t e)

def loadTxTail (dbRound : Nat) (s : Store) : Option (Nat × List String) :=
  if txTailCheck s.txtail.reverse dbRound then some (dbRound + 1 - s.txtail.length, s.txtail.map (·.2)) else none

/-- GetOldestCatchpointFiles(fileCount, filesToKeep) -/
def oldestCatchpoints (count keep : Nat) (s : Store) : List (Nat × String) :=
  let thr := match (s.cpStored.reverse.drop keep).head? with | some e => e.1 | none => 0
  ((s.cpStored.filter (fun e => decide (e.1 ≤ thr))).take count).map (fun e => (e.1, e.2.1))

end Spec.TrackerStore
