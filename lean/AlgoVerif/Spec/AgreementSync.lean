import AlgoVerif.Spec.AgreementAbs
/-!
# Spec.AgreementSync — the synchronous phase on top of `Spec.AgreementAbs` (C05)

`Spec.AgreementAbs` describes what honest nodes MAY do (the local rules `WF`); a history satisfying `WF` is an arbitrary
asynchronous run: any drops, delays, partitions, crashes and Byzantine votes.  This file adds what honest nodes DO once the
network is synchronous: a **deterministic step function on configurations**.  A configuration is a history `h : List Ev`
(newest first) — the votes cast so far and, through `localOf h n`, every node's local state.  A synchronous *phase*
(`phase`) lets every honest node that has not committed react once to the **same** history (the history at the start of the
phase: everything sent before a timeout is delivered to every honest node before the timeout fires), and appends the events
of all reactions.  The phases mirror `agreement/player.go`:

| phase | player.go | reaction of node `n` |
|---|---|---|
| `deliver p` | `handleThresholdEvent` (next / soft / cert threshold) → `enterPeriod` | caches every next threshold of period `p-1` contained in the votes cast so far (`see`), and, if it is in a period `< p`, enters `p` through a cached next threshold, else through a soft / cert quorum of `p` |
| `certOnDelivery p` | `handleThresholdEvent` softThreshold / `handleMessageEvent` payloadVerified: `issueCertVote` while `Step ≤ cert` | in period `p`, no next-type and no cert vote of `p` yet: cert-votes the committable value (staged **and** payload available) |
| `commitOnDelivery p` | certThreshold → `ensureAction` | a cert quorum of `p` for a value whose payload is available: `commit` |
| `filterTimeout p` | `handle(timeoutEvent)` at `Step = soft` → `issueSoftVote` | in period `p` without any vote of `p`: soft-votes the starting value if the cache of `p-1` is `(false, some y)`, else the leader's value |
| `deadlineTimeout p` | `handle(timeoutEvent)` at `Step ≥ cert` → `issueNextVote` | next-votes at its next unused next-step `k`: the committable value, else the cache of `p-1` (`⊥` if it holds `Bottom`) |
| `fastTimeout p` | `handleFastTimeout` → `issueFastVote` | `late v` if `v` is committable, else `redo y` if the cache of `p-1` is `(false, some y)`, else `down ⊥` |

and the two runs the C05 lemmas are about:

* `syncFresh p`   = `filterTimeout p` ; `certOnDelivery p` ; `commitOnDelivery p`            (one period, from its start);
* `syncAdvance p` = `deliver p` ; `certOnDelivery p` ; `commitOnDelivery p` ; `deadlineTimeout p` ; `deliver (p+1)` ;
                    `fastTimeout p` ; `deliver (p+1)`                                          (one deadline + the recovery step).

## Abstractions (what the real code does in more steps)

* **Delivery is total.** A phase shows every honest node ALL votes cast so far.  In the code votes of the node's own period
  and the next one are delivered directly; a node further behind receives the freshest bundle when a peer's
  `partitionPolicy` re-broadcasts it (`partitioned()`: `Step ≥ next+3` or `Period ≥ 3`), i.e. up to one more period later.
  The lemmas therefore give K = 1 (after the advance); the implementation monitor of checks/C05.py allows K = 3 and reports the
  observed distribution.
* **Payloads** are one predicate `avail : Val → Bool` for all honest nodes ("some honest node holds the payload, and the
  re-broadcast of the staged / pinned payload by `partitionPolicy` and the proposal relay hand it to everybody").
  *Committable* = staged (soft or cert quorum of the period) ∧ available, as `proposalTracker.Staging` + an assembled payload.
* **Proposals** are one optional value `leader` = the lowest-credential proposal of the period that reached every honest node
  before the filter timeout (`proposalFrozenEvent`); `none` = no proposal reached them.  The re-proposal restriction of
  `issueSoftVote` (a re-proposal is soft-voted only if it equals the cached next value) is folded into the choice of `leader`.
* **Timers**: a tick fires the same kind of timeout at every honest node; the step number of a deadline next-vote is the node's
  first unused one (nodes may be at different next steps — their votes then do not add up, which is exactly why the
  fast-recovery steps `late/redo/down` = `next 250/251/252` exist).  A node whose filter timeout would also expire during the
  deadline tick does not additionally soft-vote (it cannot change what the lemmas conclude).
* Committees are fixed weights and crashes do not occur during the synchronous phase (they are part of the arbitrary prefix).

Everything is core Lean and executable (`decide` evaluates the examples of `Props/C05.lean`).
-/
namespace AlgoVerif.Spec.AgreementSync
open AlgoVerif.Spec.AgreementAbs

/-- environment of one synchronous period -/
structure Env where
  /-- the lowest-credential proposal that reaches every honest node before the filter timeout -/
  leader : Option Val
  /-- the payload of the value is (made) available to every honest node -/
  avail : Val → Bool

def hon (P : Params) : List Node := P.nodes.filter (fun n => P.honest n)

/-- the node has an `ensureAction` in the history: it left the round -/
def committedB (h : List Ev) (n : Node) : Bool :=
  h.any (fun e => match e with
    | .commit m _ _ => m == n
    | _ => false)

/-- one synchronous phase: every honest node still in the round reacts to the same history `h`; the reactions (each in
chronological order) are appended in node order, newest first -/
def phase (P : Params) (h : List Ev) (f : Node → List Ev) : List Ev :=
  ((hon P).flatMap (fun n => if committedB h n then [] else f n)).reverse ++ h

/-! ### what a node reads -/

/-- `stagedValue(...).Committable`: a value staged for period `p` whose payload is available -/
def committable (P : Params) (E : Env) (h : List Ev) (p : Nat) : Option Val :=
  (vals h).find? (fun v => decide (stagedQ P h p v) && E.avail v)

/-- the value of `issueNextVote` -/
def nextValue (P : Params) (E : Env) (h : List Ev) (p : Nat) (c : Cache) : Option Val :=
  match committable P E h p with
  | some v => some v
  | none => if c.bottom then none else c.prop

/-- step and value of `issueFastVote` -/
def fastVote (P : Params) (E : Env) (h : List Ev) (p : Nat) (c : Cache) : Step × Option Val :=
  match committable P E h p with
  | some v => (.next 250, some v)
  | none =>
      if c.bottom then (.next 252, none)
      else match c.prop with
        | some y => (.next 251, some y)
        | none => (.next 252, none)

/-- the value of `issueSoftVote` (`none`: no vote) -/
def softValue (E : Env) (c : Cache) : Option Val :=
  if c.bottom then E.leader
  else match c.prop with
    | some y => some y
    | none => E.leader

/-- the node's votes of period `p` -/
def ownVotes (h : List Ev) (n : Node) (p : Nat) : List Vote :=
  (votes h).filter (fun v => v.n == n && v.p == p)

/-- first next-step number the node has not used in period `p` (fast-recovery steps are not ordinary next steps) -/
def nextK (h : List Ev) (n : Node) (p : Nat) : Nat :=
  (ownVotes h n p).foldl (fun k v => match v.s with
    | .next j => if j < 250 ∧ k ≤ j then j + 1 else k
    | _ => k) 0

/-- `player.partitioned()` for a node at its `k`-th next step (Go step `next + k`) of period `p`: from here on every next / fast
vote and every period change re-broadcasts the freshest bundle and the staged or pinned payload (`partitionPolicy`).  This is the
mechanism the total delivery of `phase` abstracts for nodes that are more than one period behind; the step function itself does
not use it. -/
def partitioned (k p : Nat) : Bool := decide (3 ≤ k ∨ 3 ≤ p)

/-- `bundleFresh` of `agreement/voteAggregator.go`, as the synchronous phase relies on it: a node in round `r`, period `p`
accepts a bundle of its own round iff it is a cert bundle or its period is `≥ p - 1`.  In particular the rule does NOT look at
the bundle's step nor at the step at which the node left the previous period (`LastConcluding`): a next bundle of the period the
node has just concluded is always accepted.  That is what `deliver` assumes when it lets a node that is already in period `p`
cache EVERY next threshold of `p - 1` (a node that entered `p` on a late value quorum must still learn of an earlier ⊥ quorum
from the re-broadcast bundle, or the period stays split).  Tied to the real function on a grid by `TestVerifC05Player`. -/
def bundleFresh (playerRound playerPeriod bundleRound bundlePeriod bundleStep : Nat) : Bool :=
  bundleRound == playerRound && (bundleStep == 2 || !(playerPeriod != 0 && decide (bundlePeriod < playerPeriod - 1)))

/-! ### delivery -/

def nextVals (P : Params) (h : List Ev) (q : Nat) : List Val :=
  (vals h).filter (fun v => decide (nextQ P h q (some v)))

/-- the next thresholds of period `q` contained in the votes cast so far (⊥ first) -/
def thresholds (P : Params) (h : List Ev) (q : Nat) : List (Option Val) :=
  (if nextQ P h q none then [none] else []) ++ (nextVals P h q).map some

/-- local state after caching them -/
def seen (P : Params) (h : List Ev) (q : Nat) (L : Local) : Local :=
  (thresholds P h q).foldl (fun L y => L.see q y) L

/-- `enterPeriod p`, if the node is behind and a threshold justifies it (`L` = the local state after caching) -/
def enterOf (P : Params) (h : List Ev) (n : Node) (p : Nat) (L : Local) : List Ev :=
  if L.period < p then
    match (L.prev p).prop with
    | some v => [.enter n p (.viaNext (some v))]
    | none =>
        if (L.prev p).bottom then [.enter n p (.viaNext none)]
        else match (vals h).find? (fun x => decide (softQ P h p x)) with
          | some x => [.enter n p (.viaSoft x)]
          | none => match (vals h).find? (fun x => decide (certQ P h p x)) with
            | some x => [.enter n p (.viaCert x)]
            | none => []
  else []

/-- reaction of `n` to the delivery of everything, seen from period `p`: cache the next thresholds of `p-1`, enter `p` -/
def deliverOf (P : Params) (h : List Ev) (p : Nat) (n : Node) : List Ev :=
  let ys := if p = 0 then [] else thresholds P h (p - 1)
  let L := if p = 0 then localOf h n else seen P h (p - 1) (localOf h n)
  ys.map (fun y => Ev.see n (p - 1) y) ++ enterOf P h n p L

def deliver (P : Params) (p : Nat) (h : List Ev) : List Ev := phase P h (deliverOf P h p)

def certOf (P : Params) (E : Env) (h : List Ev) (p : Nat) (n : Node) : List Ev :=
  if (localOf h n).period = p ∧ (ownVotes h n p).all (fun v => v.s == .soft) then
    match committable P E h p with
    | some v => [.vote ⟨n, p, .cert, some v⟩]
    | none => []
  else []

def certOnDelivery (P : Params) (E : Env) (p : Nat) (h : List Ev) : List Ev := phase P h (certOf P E h p)

def commitOf (P : Params) (E : Env) (h : List Ev) (p : Nat) (n : Node) : List Ev :=
  match (vals h).find? (fun v => decide (certQ P h p v) && E.avail v) with
  | some v => [.commit n p v]
  | none => []

def commitOnDelivery (P : Params) (E : Env) (p : Nat) (h : List Ev) : List Ev := phase P h (commitOf P E h p)

/-! ### timeouts -/

def softOf (E : Env) (h : List Ev) (p : Nat) (n : Node) : List Ev :=
  if (localOf h n).period = p ∧ ownVotes h n p = [] then
    match softValue E ((localOf h n).prev p) with
    | some w => [.vote ⟨n, p, .soft, some w⟩]
    | none => []
  else []

def filterTimeout (P : Params) (E : Env) (p : Nat) (h : List Ev) : List Ev := phase P h (softOf E h p)

def nextOf (P : Params) (E : Env) (h : List Ev) (p : Nat) (n : Node) : List Ev :=
  if (localOf h n).period = p then
    [.vote ⟨n, p, .next (nextK h n p), nextValue P E h p ((localOf h n).prev p)⟩]
  else []

def deadlineTimeout (P : Params) (E : Env) (p : Nat) (h : List Ev) : List Ev := phase P h (nextOf P E h p)

def fastOf (P : Params) (E : Env) (h : List Ev) (p : Nat) (n : Node) : List Ev :=
  if (localOf h n).period = p then
    [.vote ⟨n, p, (fastVote P E h p ((localOf h n).prev p)).1, (fastVote P E h p ((localOf h n).prev p)).2⟩]
  else []

def fastTimeout (P : Params) (E : Env) (p : Nat) (h : List Ev) : List Ev := phase P h (fastOf P E h p)

/-! ### the two runs -/

/-- one period from its start: filter timeout, cert votes when the soft votes arrive, commit when the cert votes arrive -/
def syncFresh (P : Params) (E : Env) (p : Nat) (h : List Ev) : List Ev :=
  commitOnDelivery P E p (certOnDelivery P E p (filterTimeout P E p h))

/-- one deadline and the recovery step of a period that is in flight -/
def syncAdvance (P : Params) (E : Env) (p : Nat) (h : List Ev) : List Ev :=
  deliver P (p + 1) (fastTimeout P E p (deliver P (p + 1) (deadlineTimeout P E p
    (commitOnDelivery P E p (certOnDelivery P E p (deliver P p h))))))

/-- a tick of the synchronous phase -/
inductive Tick | filter | deadline | fast
  deriving DecidableEq, Repr

/-- **the synchronous step function**: everything sent so far is delivered (thresholds cached, periods entered, cert votes and
commits triggered), then every honest node handles the timeout `t` of the period `p` -/
def syncStep (P : Params) (E : Env) (p : Nat) (t : Tick) (h : List Ev) : List Ev :=
  let h1 := commitOnDelivery P E p (certOnDelivery P E p (deliver P p h))
  match t with
  | .filter => filterTimeout P E p h1
  | .deadline => deadlineTimeout P E p h1
  | .fast => fastTimeout P E p h1

/-- largest period an honest node is in -/
def topPeriod (P : Params) (h : List Ev) : Nat := ((hon P).map (fun n => (localOf h n).period)).foldl max 0

/-- a run of the synchronous phase: each tick is handled in the then largest period -/
def syncRun (P : Params) (E : Nat → Env) : List Tick → List Ev → List Ev
  | [], h => h
  | t :: ts, h => syncRun P E ts (syncStep P (E (topPeriod P h)) (topPeriod P h) t h)

end AlgoVerif.Spec.AgreementSync
