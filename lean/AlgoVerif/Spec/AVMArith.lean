/-
C32 — mathematical specification of the AVM arithmetic / comparison / bitwise / byte-math /
conversion / wide-arithmetic opcodes, written independently of data/transactions/logic/eval.go.

Values: a stack cell is an unsigned integer (`Nat`, in range `< 2^64` for a real cell) or a byte
string (`List UInt8`).  A byte string denotes the natural number `beVal` (big-endian positional
value); `beEnc n` is THE minimal-length big-endian string of `n` (no leading zero byte; `0 ↦ ""`),
`beFixed k n` the `k`-byte big-endian string of `n mod 256^k`.

Every opcode is a function from its operands (deepest stack cell first, exactly the order in which
a TEAL program pushes them) to `Except Err (List Val)`: the cells that replace the operands
(deepest first), or the failure class.  Core Lean only — this file is linked into the driver `c32`.
-/
namespace Spec.AVMArith

abbrev Bytes := List UInt8

inductive Err
  | overflow    -- true result does not fit (+ * exp expw divw)
  | underflow   -- true result negative (- b-)
  | div0        -- divisor is zero
  | range       -- shift amount ≥ 64
  | undefined   -- 0^0
  | toolong     -- btoi operand > 8 bytes, byte-math operand > 64 bytes
  | type        -- operands of different kinds compared / wrong operand kind
  | panic       -- the implementation would panic (never specified; only the model can produce it)
  deriving DecidableEq, Repr

inductive Val
  | int (n : Nat)
  | bytes (b : Bytes)
  deriving DecidableEq, Repr

abbrev Res := Except Err (List Val)

def M64 : Nat := 18446744073709551616
def M128 : Nat := 340282366920938463463374607431768211456
/-- byte-math operands longer than this many bytes are rejected -/
def maxByteMath : Nat := 64

def b2n (b : Bool) : Nat := if b then 1 else 0
def okInt (n : Nat) : Res := .ok [.int n]
def okBool (b : Bool) : Res := .ok [.int (b2n b)]
def okBytes (b : Bytes) : Res := .ok [.bytes b]

/-! ### big-endian byte strings -/

/-- positional value: `b₀·256^(n-1) + … + b_{n-1}` -/
def beVal : Bytes → Nat
  | [] => 0
  | b :: bs => b.toNat * 256 ^ bs.length + beVal bs

/-- minimal-length big-endian digits of `n` -/
def beEnc (n : Nat) : Bytes :=
  if _h : n = 0 then [] else beEnc (n / 256) ++ [UInt8.ofNat (n % 256)]
decreasing_by omega

/-- the `k` low-order base-256 digits of `n`, most significant first -/
def beFixed : Nat → Nat → Bytes
  | 0, _ => []
  | k + 1, n => UInt8.ofNat (n / 256 ^ k % 256) :: beFixed k n

/-! ### integer square root and bit length -/

/-- binary search from the top bit: keeps `r² ≤ x`, adds `2^i` whenever the square still fits -/
def sqrtBits : Nat → Nat → Nat → Nat
  | 0, _, r => r
  | i + 1, x, r => if (r + 2 ^ i) * (r + 2 ^ i) ≤ x then sqrtBits i x (r + 2 ^ i) else sqrtBits i x r

/-- ⌊√x⌋ (characterised by `isqrt_spec` / `isqrt_unique` in Props.C32) -/
def isqrt (x : Nat) : Nat := sqrtBits (x.log2 + 1) x 0

/-- number of significant bits: the least `k` with `n < 2^k` -/
def bitlen (n : Nat) : Nat := if n = 0 then 0 else n.log2 + 1

/-! ### uint64 opcodes (operands are stack cells, `< 2^64`) -/

def add (a b : Nat) : Res := if a + b < M64 then okInt (a + b) else .error .overflow
def sub (a b : Nat) : Res := if b ≤ a then okInt (a - b) else .error .underflow
def mul (a b : Nat) : Res := if a * b < M64 then okInt (a * b) else .error .overflow
def div (a b : Nat) : Res := if b = 0 then .error .div0 else okInt (a / b)
def mod (a b : Nat) : Res := if b = 0 then .error .div0 else okInt (a % b)
def lt (a b : Nat) : Res := okBool (decide (a < b))
def gt (a b : Nat) : Res := okBool (decide (a > b))
def le (a b : Nat) : Res := okBool (decide (a ≤ b))
def ge (a b : Nat) : Res := okBool (decide (a ≥ b))
def land (a b : Nat) : Res := okBool (decide (a ≠ 0 ∧ b ≠ 0))
def lor (a b : Nat) : Res := okBool (decide (a ≠ 0 ∨ b ≠ 0))
def lnot (a : Nat) : Res := okBool (decide (a = 0))
/-- `==` compares two cells of the same kind; byte strings are compared as strings (not as numbers) -/
def eq : Val → Val → Res
  | .int a, .int b => okBool (decide (a = b))
  | .bytes a, .bytes b => okBool (decide (a = b))
  | _, _ => .error .type
def neq : Val → Val → Res
  | .int a, .int b => okBool (decide (a ≠ b))
  | .bytes a, .bytes b => okBool (decide (a ≠ b))
  | _, _ => .error .type
def bitor (a b : Nat) : Res := okInt (a ||| b)
def bitand (a b : Nat) : Res := okInt (a &&& b)
def bitxor (a b : Nat) : Res := okInt (a ^^^ b)
/-- one's complement within 64 bits -/
def bitnot (a : Nat) : Res := okInt (M64 - 1 - a)
def shl (a s : Nat) : Res := if s ≥ 64 then .error .range else okInt (a * 2 ^ s % M64)
def shr (a s : Nat) : Res := if s ≥ 64 then .error .range else okInt (a / 2 ^ s)
def sqrt (a : Nat) : Res := okInt (isqrt a)
def bitlenOp : Val → Res
  | .int a => okInt (bitlen a)
  | .bytes b => okInt (bitlen (beVal b))

/-- pure statement of `exp`: fails iff `0^0` or the true power does not fit -/
def expMath (a e : Nat) : Res :=
  if a = 0 ∧ e = 0 then .error .undefined
  else if a ^ e < M64 then okInt (a ^ e) else .error .overflow
/-- executable form (never computes an astronomically large power); `exp_eq_expMath` proves it
    equal to `expMath` for all operands -/
def exp (a e : Nat) : Res :=
  if a = 0 then (if e = 0 then .error .undefined else okInt 0)
  else if a = 1 then okInt 1
  else if e ≥ 64 then .error .overflow
  else if a ^ e < M64 then okInt (a ^ e) else .error .overflow

def addw (a b : Nat) : Res := .ok [.int ((a + b) / M64), .int ((a + b) % M64)]
def mulw (a b : Nat) : Res := .ok [.int (a * b / M64), .int (a * b % M64)]
/-- (hi·2⁶⁴ + lo) / y; fails iff y = 0 or the quotient does not fit -/
def divw (hi lo y : Nat) : Res :=
  if y = 0 then .error .div0
  else if (hi * M64 + lo) / y < M64 then okInt ((hi * M64 + lo) / y) else .error .overflow
/-- 128-bit by 128-bit division with remainder, both results as hi/lo pairs -/
def divmodw (hiN loN hiD loD : Nat) : Res :=
  let n := hiN * M64 + loN
  let d := hiD * M64 + loD
  if d = 0 then .error .div0
  else .ok [.int (n / d / M64), .int (n / d % M64), .int (n % d / M64), .int (n % d % M64)]

def expwMath (a e : Nat) : Res :=
  if a = 0 ∧ e = 0 then .error .undefined
  else if a ^ e < M128 then .ok [.int (a ^ e / M64), .int (a ^ e % M64)] else .error .overflow
def expw (a e : Nat) : Res :=
  if a = 0 then (if e = 0 then .error .undefined else .ok [.int 0, .int 0])
  else if a = 1 then .ok [.int 0, .int 1]
  else if e ≥ 128 then .error .overflow
  else if a ^ e < M128 then .ok [.int (a ^ e / M64), .int (a ^ e % M64)] else .error .overflow

/-! ### conversions -/
def itob (a : Nat) : Res := okBytes (beFixed 8 a)
def btoi (b : Bytes) : Res := if b.length > 8 then .error .toolong else okInt (beVal b)

/-! ### byte math: operands are big-endian naturals of at most 64 bytes -/
def tooLong2 (a b : Bytes) : Prop := a.length > maxByteMath ∨ b.length > maxByteMath
instance (a b : Bytes) : Decidable (tooLong2 a b) := by unfold tooLong2; exact inferInstance

def badd (a b : Bytes) : Res := if tooLong2 a b then .error .toolong else okBytes (beEnc (beVal a + beVal b))
def bsub (a b : Bytes) : Res :=
  if tooLong2 a b then .error .toolong
  else if beVal a < beVal b then .error .underflow else okBytes (beEnc (beVal a - beVal b))
def bmul (a b : Bytes) : Res := if tooLong2 a b then .error .toolong else okBytes (beEnc (beVal a * beVal b))
def bdiv (a b : Bytes) : Res :=
  if tooLong2 a b then .error .toolong
  else if beVal b = 0 then .error .div0 else okBytes (beEnc (beVal a / beVal b))
def bmod (a b : Bytes) : Res :=
  if tooLong2 a b then .error .toolong
  else if beVal b = 0 then .error .div0 else okBytes (beEnc (beVal a % beVal b))
def blt (a b : Bytes) : Res := if tooLong2 a b then .error .toolong else okBool (decide (beVal a < beVal b))
def bgt (a b : Bytes) : Res := if tooLong2 a b then .error .toolong else okBool (decide (beVal a > beVal b))
def ble (a b : Bytes) : Res := if tooLong2 a b then .error .toolong else okBool (decide (beVal a ≤ beVal b))
def bge (a b : Bytes) : Res := if tooLong2 a b then .error .toolong else okBool (decide (beVal a ≥ beVal b))
def beq (a b : Bytes) : Res := if tooLong2 a b then .error .toolong else okBool (decide (beVal a = beVal b))
def bneq (a b : Bytes) : Res := if tooLong2 a b then .error .toolong else okBool (decide (beVal a ≠ beVal b))
/-- bitwise ops: no length limit; the result is as long as the longer operand (shorter one zero-extended on the left) -/
def bor (a b : Bytes) : Res := okBytes (beFixed (max a.length b.length) (beVal a ||| beVal b))
def band (a b : Bytes) : Res := okBytes (beFixed (max a.length b.length) (beVal a &&& beVal b))
def bxor (a b : Bytes) : Res := okBytes (beFixed (max a.length b.length) (beVal a ^^^ beVal b))
/-- complement within the operand's own width -/
def bnot (a : Bytes) : Res := okBytes (beFixed a.length (256 ^ a.length - 1 - beVal a))
def bsqrt (a : Bytes) : Res :=
  if a.length > maxByteMath then .error .toolong else okBytes (beEnc (isqrt (beVal a)))

/-! ### dispatcher used by the driver -/
def run (op : String) (args : List Val) : Option Res :=
  match op, args with
  | "+", [.int a, .int b] => some (add a b)
  | "-", [.int a, .int b] => some (sub a b)
  | "*", [.int a, .int b] => some (mul a b)
  | "/", [.int a, .int b] => some (div a b)
  | "%", [.int a, .int b] => some (mod a b)
  | "<", [.int a, .int b] => some (lt a b)
  | ">", [.int a, .int b] => some (gt a b)
  | "<=", [.int a, .int b] => some (le a b)
  | ">=", [.int a, .int b] => some (ge a b)
  | "&&", [.int a, .int b] => some (land a b)
  | "||", [.int a, .int b] => some (lor a b)
  | "!", [.int a] => some (lnot a)
  | "==", [a, b] => some (eq a b)
  | "!=", [a, b] => some (neq a b)
  | "|", [.int a, .int b] => some (bitor a b)
  | "&", [.int a, .int b] => some (bitand a b)
  | "^", [.int a, .int b] => some (bitxor a b)
  | "~", [.int a] => some (bitnot a)
  | "shl", [.int a, .int b] => some (shl a b)
  | "shr", [.int a, .int b] => some (shr a b)
  | "sqrt", [.int a] => some (sqrt a)
  | "bitlen", [a] => some (bitlenOp a)
  | "exp", [.int a, .int b] => some (exp a b)
  | "addw", [.int a, .int b] => some (addw a b)
  | "mulw", [.int a, .int b] => some (mulw a b)
  | "divw", [.int a, .int b, .int c] => some (divw a b c)
  | "divmodw", [.int a, .int b, .int c, .int d] => some (divmodw a b c d)
  | "expw", [.int a, .int b] => some (expw a b)
  | "itob", [.int a] => some (itob a)
  | "btoi", [.bytes a] => some (btoi a)
  | "b+", [.bytes a, .bytes b] => some (badd a b)
  | "b-", [.bytes a, .bytes b] => some (bsub a b)
  | "b*", [.bytes a, .bytes b] => some (bmul a b)
  | "b/", [.bytes a, .bytes b] => some (bdiv a b)
  | "b%", [.bytes a, .bytes b] => some (bmod a b)
  | "b<", [.bytes a, .bytes b] => some (blt a b)
  | "b>", [.bytes a, .bytes b] => some (bgt a b)
  | "b<=", [.bytes a, .bytes b] => some (ble a b)
  | "b>=", [.bytes a, .bytes b] => some (bge a b)
  | "b==", [.bytes a, .bytes b] => some (beq a b)
  | "b!=", [.bytes a, .bytes b] => some (bneq a b)
  | "b|", [.bytes a, .bytes b] => some (bor a b)
  | "b&", [.bytes a, .bytes b] => some (band a b)
  | "b^", [.bytes a, .bytes b] => some (bxor a b)
  | "b~", [.bytes a] => some (bnot a)
  | "bsqrt", [.bytes a] => some (bsqrt a)
  | _, _ => none

end Spec.AVMArith
