/-
Spec.OnlineHistory — the oracle of C13: what the BLOCK HISTORY implies about online stake.

A history is genesis (round 0) plus one block per round; a block carries the online-relevant account deltas
(status, MicroAlgos, rewards base, vote first/last valid, the voting keys as one opaque id, incentive flag,
last proposed / heartbeat) and the round parameters (online supply, rewards level, protocol, StateProofNextRound).
Every question consensus asks is answered from the history alone:

* `onlineAt h rnd a`            — `Ledger.LookupAgreement(rnd, a)`
* `circulation h rnd voteRnd`   — `Ledger.OnlineCirculation(rnd, voteRnd)`: supply of `rnd` minus the stake of accounts whose
                                   keys expire before `voteRnd` (`ExcludeExpiredCirculation`; not for `rnd = 0`)
* `topN h rnd voteRnd n`        — the `n` largest online accounts of `rnd` whose keys are valid in `voteRnd`, by
                                   normalised balance then address (both descending), and the stake total next to them
* `votersAt h r`                — what `Ledger.VotersForStateProof(r)` holds for a snapshot round `r`

No flush / cache / DB state appears here. Core Lean only (the driver links it).
Round numbering: genesis is round 0, `blocks[i]` is round `i+1`, `latest = blocks.length`.
-/
namespace AlgoVerif.Spec.OnlineHistory

abbrev Addr := Nat

/-- the online-relevant part of `ledgercore.AccountData` as it appears in a block's `StateDelta.Accts`.
    `st`: 0 Offline, 1 Online, 2 NotParticipating. `key`: opaque id of (VoteID, SelectionID, StateProofID, VoteKeyDilution),
    0 = all empty. A suspended account is Offline with its voting material kept. All-zero = closed account. -/
structure Acct where
  st : Nat := 0
  bal : Nat := 0
  rb : Nat := 0
  vf : Nat := 0
  vl : Nat := 0
  key : Nat := 0
  ie : Bool := false
  lp : Nat := 0
  lh : Nat := 0
  deriving DecidableEq, Repr, Inhabited

/-- `trackerdb.BaseOnlineAccountData`: what one row of the online table holds -/
structure ORec where
  bal : Nat := 0
  rb : Nat := 0
  vf : Nat := 0
  vl : Nat := 0
  key : Nat := 0
  ie : Bool := false
  lp : Nat := 0
  lh : Nat := 0
  deriving DecidableEq, Repr, Inhabited

def ORec.zero : ORec := {}

/-- `BaseVotingData.IsEmpty` -/
def ORec.votingEmpty (r : ORec) : Bool := r.vf == 0 && r.vl == 0 && r.key == 0

def Acct.online (a : Acct) : Bool := a.st == 1

/-- `BaseOnlineAccountData.SetCoreAccountData` -/
def Acct.core (a : Acct) : ORec := ⟨a.bal, a.rb, a.vf, a.vl, a.key, a.ie, a.lp, a.lh⟩

/-- what an account state means for the online table: anything that is not Online is the empty record -/
def Acct.orec (a : Acct) : ORec := if a.online then a.core else ORec.zero

/-- the consensus parameters the tracker reads -/
structure Proto where
  unit : Nat := 0       -- RewardUnit
  mbl : Nat := 0        -- MaxBalLookback
  excl : Bool := false  -- ExcludeExpiredCirculation
  spInt : Nat := 0      -- StateProofInterval
  spLb : Nat := 0       -- StateProofVotersLookback
  spTop : Nat := 0      -- StateProofTopVoters
  spRec : Nat := 0      -- StateProofMaxRecoveryIntervals
  deriving DecidableEq, Repr, Inhabited

/-- `config.Consensus[v]`: a missing key yields the zero parameters, as a Go map does -/
def protoOf (ps : List Proto) (i : Nat) : Proto := ps.getD i {}

abbrev Delta := List (Addr × Acct)

structure Block where
  proto : Nat := 0      -- CurrentProtocol (index into the table)
  level : Nat := 0      -- RewardsLevel
  supply : Nat := 0     -- Totals.Online.Money
  spNext : Nat := 0     -- StateProofTracking[Basic].StateProofNextRound
  deltas : Delta := []
  deriving Repr, Inhabited

structure Hist where
  protos : List Proto
  univ : List Addr      -- the accounts of the case (every address of the history is in here)
  gen : Block           -- round 0: genesis accounts and parameters
  blocks : List Block   -- blocks[i] is round i+1

def Hist.latest (h : Hist) : Nat := h.blocks.length
def Hist.rounds (h : Hist) : List Block := h.gen :: h.blocks
def Hist.block? (h : Hist) (rnd : Nat) : Option Block := h.rounds[rnd]?

/-- the last delta of `ds` (oldest first) that mentions `a` -/
def lastIn : List Delta → Addr → Option Acct
  | [], _ => none
  | d :: ds, a => match lastIn ds a with
    | some x => some x
    | none => d.lookup a

/-- the account state after round `rnd`: the newest delta at or before `rnd` -/
def acctAt (h : Hist) (rnd : Nat) (a : Addr) : Option Acct :=
  lastIn ((h.rounds.take (rnd + 1)).map (·.deltas)) a

def recOfOpt : Option Acct → ORec
  | some x => x.orec
  | none => ORec.zero

/-- the online record of `a` after round `rnd` -/
def recAt (h : Hist) (rnd : Nat) (a : Addr) : ORec := recOfOpt (acctAt h rnd a)

inductive Err where
  | beforeDb | tooHigh | notFound | overflow | panic | stale | other
  deriving DecidableEq, Repr, Inhabited

def U64 : Nat := 2 ^ 64

/-- `basics.WithUpdatedRewards` for an Online account: MicroAlgos + ⌊MicroAlgos / unit⌋ · (level − base).
    `none` = the Go code panics (division by a zero unit, level below base, 64-bit overflow). -/
def withRewards (unit bal rb level : Nat) : Option Nat :=
  if unit = 0 then none
  else if level < rb then none
  else
    let rewards := (bal / unit) * (level - rb)
    if rewards ≥ U64 then none
    else if bal + rewards ≥ U64 then none
    else some (bal + rewards)

/-- `basics.OnlineAccountData` -/
structure OnlineData where
  stake : Nat := 0
  vf : Nat := 0
  vl : Nat := 0
  key : Nat := 0
  ie : Bool := false
  lp : Nat := 0
  lh : Nat := 0
  deriving DecidableEq, Repr, Inhabited

/-- `BaseOnlineAccountData.GetOnlineAccountData` / `ledgercore.AccountData.OnlineAccountData` of an Online account -/
def ORec.view (r : ORec) (unit level : Nat) : Except Err OnlineData :=
  match withRewards unit r.bal r.rb level with
  | none => .error .panic
  | some s => .ok ⟨s, r.vf, r.vl, r.key, r.ie, r.lp, r.lh⟩

/-- LookupAgreement -/
def onlineAt (h : Hist) (rnd : Nat) (a : Addr) : Except Err OnlineData :=
  match h.block? rnd with
  | none => .error .tooHigh
  | some b => (recAt h rnd a).view (protoOf h.protos b.proto).unit b.level

/-- the keys registered at `rnd` expire before `voteRnd` -/
def ORec.expiredBy (r : ORec) (voteRnd : Nat) : Bool := r.vl != 0 && r.vl < voteRnd

/-- sum with the error discipline of the Go loops: any panicking term panics, a total ≥ 2^64 is `overflow` -/
def sumStakes : List (Except Err Nat) → Except Err Nat
  | [] => .ok 0
  | .error e :: _ => .error e
  | .ok x :: rest => match sumStakes rest with
    | .error e => .error e
    | .ok s => if x + s ≥ U64 then .error .overflow else .ok (x + s)

/-- stake (with rewards of round `rnd`) of one account if its keys expire before `voteRnd`, else 0 -/
def expiredTerm (r : ORec) (voteRnd unit level : Nat) : Except Err Nat :=
  if r.expiredBy voteRnd then (r.view unit level).map (·.stake) else .ok 0

/-- total online stake at `rnd` whose keys are expired by `voteRnd` -/
def expiredStake (h : Hist) (rnd voteRnd : Nat) : Except Err Nat :=
  match h.block? rnd with
  | none => .error .tooHigh
  | some b =>
    let p := protoOf h.protos b.proto
    sumStakes (h.univ.map fun a => expiredTerm (recAt h rnd a) voteRnd p.unit b.level)

def subStake (total expired : Nat) : Except Err Nat :=
  if expired > total then .error .overflow else .ok (total - expired)

/-- OnlineCirculation -/
def circulation (h : Hist) (rnd voteRnd : Nat) : Except Err Nat :=
  match h.block? rnd with
  | none => .error .tooHigh
  | some b =>
    if (protoOf h.protos b.proto).excl && rnd != 0 then
      match expiredStake h rnd voteRnd with
      | .error e => .error e
      | .ok x => subStake b.supply x
    else .ok b.supply

/-- `basics.Muldiv` (a·b/c); `none` = panic (c = 0 or the quotient does not fit 64 bits) -/
def muldiv (a b c : Nat) : Option Nat :=
  if c = 0 then none else if a * b / c ≥ U64 then none else some (a * b / c)

/-- `basics.NormalizedOnlineAccountBalance` of an Online account -/
def normBal (unit bal rb : Nat) : Option Nat :=
  if rb + unit ≥ U64 then none else muldiv bal unit (rb + unit)

/-- `ledgercore.OnlineAccount` -/
structure TopEntry where
  addr : Addr
  norm : Nat
  bal : Nat
  rb : Nat
  vf : Nat
  vl : Nat
  key : Nat
  deriving DecidableEq, Repr, Inhabited

/-- heap order of `onlineTopHeap.Less`: larger normalised balance first, then larger address -/
def TopEntry.before (x y : TopEntry) : Bool :=
  x.norm > y.norm || (x.norm == y.norm && x.addr > y.addr)

def insertTop (x : TopEntry) : List TopEntry → List TopEntry
  | [] => [x]
  | y :: ys => if x.before y then x :: y :: ys else y :: insertTop x ys

def sortTop : List TopEntry → List TopEntry
  | [] => []
  | x :: xs => insertTop x (sortTop xs)

def ORec.validAt (r : ORec) (voteRnd : Nat) : Bool := r.vf ≤ voteRnd && voteRnd ≤ r.vl

/-- the candidate entry of one account: Online at `rnd`, keys valid in `voteRnd` -/
def topCandidate (gunit : Nat) (a : Addr) (x : Option Acct) (voteRnd : Nat) : Except Err (Option TopEntry) :=
  match x with
  | none => .ok none
  | some acct =>
    if acct.online && acct.core.validAt voteRnd then
      match normBal gunit acct.bal acct.rb with
      | none => .error .panic
      | some nb => .ok (some ⟨a, nb, acct.bal, acct.rb, acct.vf, acct.vl, acct.key⟩)
    else .ok none

def collect : List (Except Err (Option TopEntry)) → Except Err (List TopEntry)
  | [] => .ok []
  | .error e :: _ => .error e
  | .ok o :: rest => match collect rest with
    | .error e => .error e
    | .ok l => .ok (match o with | some t => t :: l | none => l)

/-- the top `n` online accounts of round `rnd` able to vote in `voteRnd`; normalisation uses the GENESIS reward unit -/
def topList (h : Hist) (rnd voteRnd n : Nat) : Except Err (List TopEntry) :=
  if rnd > h.latest then .error .tooHigh else
  let gunit := (protoOf h.protos h.gen.proto).unit
  match collect (h.univ.map fun a => topCandidate gunit a (acctAt h rnd a) voteRnd) with
  | .error e => .error e
  | .ok l => .ok ((sortTop l).take n)

/-- the stake total `TopOnlineAccounts` returns next to the list (ExcludeExpiredCirculation protocols):
    supply of `rnd` minus the stake expired by `voteRnd` -/
def topTotal (h : Hist) (rnd voteRnd : Nat) : Except Err Nat :=
  match h.block? rnd with
  | none => .error .tooHigh
  | some b => match expiredStake h rnd voteRnd with
    | .error e => .error e
    | .ok x => subStake b.supply x

def topN (h : Hist) (rnd voteRnd n : Nat) : Except Err (List TopEntry × Nat) :=
  match topList h rnd voteRnd n with
  | .error e => .error e
  | .ok l => match topTotal h rnd voteRnd with
    | .error e => .error e
    | .ok t => .ok (l, t)

/-- `basics.PendingRewards` added to the balance (the participant weight of `VotersForRound.LoadTree`) -/
def weightOf (unit level : Nat) (t : TopEntry) : Except Err Nat :=
  match withRewards unit t.bal t.rb level with
  | none => .error .overflow
  | some w => .ok w

def mapM' {α β : Type} (f : α → Except Err β) : List α → Except Err (List β)
  | [] => .ok []
  | x :: xs => match f x with
    | .error e => .error e
    | .ok y => match mapM' f xs with
      | .error e => .error e
      | .ok ys => .ok (y :: ys)

/-- `ledgercore.VotersForRound`: participants (address, weight, state proof key) in order, and the total weight -/
structure Voters where
  parts : List (Addr × Nat × Nat)
  total : Nat
  deriving DecidableEq, Repr, Inhabited

/-- does block `r` (with its protocol) take a voters snapshot? `(r + lookback) % interval == 0` -/
def snapshotRound (p : Proto) (r : Nat) : Bool := p.spInt != 0 && (r + p.spLb) % p.spInt == 0

/-- the voters of snapshot round `r`: top `StateProofTopVoters` of round `r` valid at `r + lookback + interval` -/
def votersAt (h : Hist) (r : Nat) : Except Err Voters :=
  match h.block? r with
  | none => .error .tooHigh
  | some b =>
    let p := protoOf h.protos b.proto
    let spRnd := r + (p.spLb + p.spInt)
    match topN h r spRnd p.spTop with
    | .error e => .error e
    | .ok (l, t) => match mapM' (fun e => (weightOf p.unit b.level e).map fun w => (e.addr, w, e.key)) l with
      | .error e => .error e
      | .ok ps => .ok ⟨ps, t⟩

end AlgoVerif.Spec.OnlineHistory
