import AlgoVerif.Model.Authz
/-!
Declarative specification of transaction authorization (property C28): WHAT a valid authorization is, as plain
propositions, independent of the order in which the Go code tests things.  Props/C28 proves the model
(Model/Authz, transcribed from the Go code) accepts exactly these.
-/
namespace AlgoVerif.Spec.Authz
open AlgoVerif.Model.Authz

variable {T : Types}

/-- A multisignature `m` is valid for message `msg` and address `addr`:
    * it has between 1 and 255 subsigs and the first one is not the zero subsig (as coded),
    * version 1, 1 ≤ threshold ≤ number of subsigs,
    * `addr` is the hash of (version, threshold, all keys in order),
    * at least `threshold` subsigs carry a signature (counted per SUBSIG ENTRY: the code has no rule against the
      same key appearing in several entries — each entry counts),
    * every signature that is present verifies under the key of its own entry. -/
def MsigValid (E : Env T) (msg : Msg T) (addr : T.Addr) (m : MSig T) : Prop :=
  ∃ s0 rest, m.subsigs = some (s0 :: rest) ∧
    ¬ (E.pkIsZero s0.key = true ∧ E.sigBlank s0.sig = true) ∧
    m.version = 1 ∧ 1 ≤ m.threshold ∧ m.threshold ≤ (s0 :: rest).length ∧ (s0 :: rest).length ≤ 255 ∧
    addr = E.msigAddr 1 m.threshold ((s0 :: rest).map (·.key)) ∧
    m.threshold ≤ signatures E (s0 :: rest) ∧
    ∀ s ∈ s0 :: rest, E.sigBlank s.sig = false → E.sigOk s.key msg s.sig = true

/-- A post-quantum proof is valid for `msg` and `auth` -/
def PqValid (E : Env T) (P : Params) (msg : Msg T) (auth : T.Addr) (p : PQSig T) : Prop :=
  p.blank E = false ∧ p.scheme = schemeFalcon1024 ∧ P.pqFalcon1024 = true ∧
  E.pqAddr p.scheme p.salt p.pk = auth ∧ E.pqsEmpty p.sig = false ∧ E.pqOk p.pk msg p.sig = true

/-- who vouches for the program of a logic signature: nobody (contract account: the authorizer IS the program hash)
    or exactly one delegation by the authorizer -/
inductive Delegation (E : Env T) (P : Params) (auth : T.Addr) (l : LSig T) : Prop where
  | contract (hs : E.sigBlank l.sig = true) (hm : l.msig.blank = true) (hl : l.lmsig.blank = true) (hp : l.pqsig.blank E = true)
      (h : auth = E.progAddr l.logic)
  | bySig (hs : E.sigBlank l.sig = false) (hm : l.msig.blank = true) (hl : l.lmsig.blank = true) (hp : l.pqsig.blank E = true)
      (h : E.sigOk (E.addrKey auth) (.prog l.logic) l.sig = true)
  | byMsig (hs : E.sigBlank l.sig = true) (hm : l.msig.blank = false) (hl : l.lmsig.blank = true) (hp : l.pqsig.blank E = true)
      (hen : P.logicSigMsig = true) (h : MsigValid E (.prog l.logic) auth l.msig)
  | byLMsig (hs : E.sigBlank l.sig = true) (hm : l.msig.blank = true) (hl : l.lmsig.blank = false) (hp : l.pqsig.blank E = true)
      (hen : P.logicSigLMsig = true) (h : MsigValid E (.msigProg auth l.logic) auth l.lmsig)
  | byPQ (hs : E.sigBlank l.sig = true) (hm : l.msig.blank = true) (hl : l.lmsig.blank = true) (hp : l.pqsig.blank E = false)
      (h : PqValid E P (.pqProg auth l.logic) auth l.pqsig)

/-- A logic signature authorizes transaction `gi` of `grp` -/
def LsigValid (E : Env T) (P : Params) (gi : Nat) (grp : List (STxn T)) (s : STxn T) : Prop :=
  P.logicSigVersion ≠ 0 ∧
  E.progLen s.lsig.logic ≠ 0 ∧ E.progLen s.lsig.logic ≤ P.maxAbsLogicSigProgramSize ∧
  (∃ v, E.progVersion s.lsig.logic = some v ∧ v ≤ P.logicSigVersion) ∧
  E.progCheck gi grp = true ∧
  Delegation E P (authorizer E s) s.lsig ∧
  E.progEval gi grp = .pass

/-- the kinds of authorization a SignedTxn can carry -/
inductive Kind where
  | sig | msig | lsig | pq
deriving DecidableEq, Repr

def Present (E : Env T) (s : STxn T) : Kind → Prop
  | .sig => E.sigBlank s.sig = false
  | .msig => s.msig.blank = false
  | .lsig => s.lsig.hasProgram E = true
  | .pq => s.pqsig.blank E = false

/-- authorization of kind `k` is valid for the address the transaction claims as its authorizer -/
def ValidFor (E : Env T) (P : Params) (gi : Nat) (grp : List (STxn T)) (s : STxn T) : Kind → Prop
  | .sig => E.sigOk (E.addrKey (authorizer E s)) (.txn s.txn) s.sig = true
  | .msig => MsigValid E (.txn s.txn) (authorizer E s) s.msig
  | .lsig => LsigValid E P gi grp s
  | .pq => PqValid E P (.txn s.txn) (authorizer E s) s.pqsig

/-- exactly one kind is present and it is valid — or none is present and this is the state-proof transaction of the
    special sender (which carries no signature by design) -/
def Authorized (E : Env T) (P : Params) (gi : Nat) (grp : List (STxn T)) (s : STxn T) : Prop :=
  (∃ k, Present E s k ∧ (∀ k', Present E s k' → k' = k) ∧ ValidFor E P gi grp s k) ∨
  ((∀ k, ¬ Present E s k) ∧ E.sender s.txn = E.stateProofSender ∧ E.isStateProofTx s.txn = true)

/-- consensus-version rules on the envelope, and the heartbeat proof carried by heartbeat transactions -/
def EnvelopeOk (E : Env T) (P : Params) (s : STxn T) : Prop :=
  (P.supportRekeying = true ∨ s.authAddr = E.zeroAddr) ∧
  ¬ (P.enforceAuthAddrSenderDiff = true ∧ s.authAddr ≠ E.zeroAddr ∧ s.authAddr = E.sender s.txn) ∧
  (P.pqFalcon1024 = false → s.pqsig.blank E = true ∧ s.lsig.pqsig.blank E = true) ∧
  (E.isHeartbeat s.txn = true → E.hbProofOk s.txn = true)

/-- the stateless check of one transaction on its own batch -/
def txnOk (E : Env T) (P : Params) (gi : Nat) (grp : List (STxn T)) (s : STxn T) : Bool :=
  accepted E (txnBatchPrep E P gi grp s)

/-! ### ideal cryptography, as properties of the oracles (hypotheses of the tamper theorems) -/

/-- a signature value is bound to one key and one message (ideal signature = the pair (signer, message)) -/
def SigBinds (E : Env T) : Prop :=
  ∀ pk m pk' m' s, E.sigOk pk m s = true → E.sigOk pk' m' s = true → pk = pk' ∧ m = m'

/-- one valid signature per key and message (Ed25519 is deterministic and the verifier rejects non-canonical encodings) -/
def SigUnique (E : Env T) : Prop :=
  ∀ pk m s s', E.sigOk pk m s = true → E.sigOk pk m s' = true → s = s'

/-- the same for the post-quantum scheme -/
def PqBinds (E : Env T) : Prop :=
  ∀ pk m pk' m' s, E.pqOk pk m s = true → E.pqOk pk' m' s = true → pk = pk' ∧ m = m'

def MsigAddrInj (E : Env T) : Prop :=
  ∀ v t k v' t' k', E.msigAddr v t k = E.msigAddr v' t' k' → v = v' ∧ t = t' ∧ k = k'

def ProgAddrInj (E : Env T) : Prop := ∀ p p', E.progAddr p = E.progAddr p' → p = p'

end AlgoVerif.Spec.Authz
