import AlgoVerif.Model.Upgrade
/-!
Statement vocabulary of property C26 (what "justified switch", "one pending proposal", "deadline rule" mean on a
history of accepted blocks).  Core Lean only.  The theorems are in `Props/C26.lean`, their proofs' plumbing in
`Lemmas/Upgrade.lean`.
-/
namespace AlgoVerif.Spec.Upgrade
open AlgoVerif.Model.Upgrade

/-- number of accepted blocks in `tr` whose vote approves and whose round lies in `[lo, hi)` -/
def approvalsIn : List Step → Nat → Nat → Nat
  | [], _, _ => 0
  | e :: tr, lo, hi => (if e.v.approve = true ∧ lo ≤ e.r ∧ e.r < hi then 1 else 0) + approvalsIn tr lo hi

/-- no `uint64` wrap up to round `R` -/
def NoWrap (cfg : Config) (R : Nat) : Prop :=
  R < 18446744073709551616 ∧
  ∀ n p, cfg n = some p → R + p.voteRounds + p.maxWait < 18446744073709551616 ∧
                          R + p.voteRounds + p.defaultWait < 18446744073709551616

/-- a switch at round `r+1` justified by the history `tr` (newest first) -/
def Justifies (cfg : Config) (tr : List Step) (oldCur newCur : String) (r1 : Nat) : Prop :=
  ∃ pe ∈ tr, ∃ p, pe.v.propose ≠ "" ∧ pe.v.propose = newCur ∧ pe.pre.cur = oldCur ∧ cfg oldCur = some p ∧
    pe.r ≤ r1 ∧ r1 = pe.r + p.voteRounds + effDelay p pe.v.delay ∧
    p.threshold ≤ approvalsIn tr pe.r (pe.r + p.voteRounds)

/-- no proposal pending (e.g. the genesis block's upgrade state) -/
def Quiet (s : State) : Prop := s.next = "" ∧ s.approvals = 0 ∧ s.voteBefore = 0 ∧ s.switchOn = 0

/-- `P e earlier` holds for every step `e` of the trace, `earlier` being the steps accepted before `e` -/
def AllSteps (P : Step → List Step → Prop) : List Step → Prop
  | [] => True
  | e :: rest => P e rest ∧ AllSteps P rest

/-- **the protocol changes at step `e` only if** some earlier-or-same block `pe` proposed exactly the new protocol
under the old one, `e.r` is the round it announced (`pe.r + voteRounds + delay'`, `delay'` the default when the
proposed delay is 0), and the approvals recorded in `[pe.r, pe.r + voteRounds)` reached the threshold. -/
def SwitchJustified (cfg : Config) (e : Step) (earlier : List Step) : Prop :=
  e.post.cur ≠ e.pre.cur → Justifies cfg (e :: earlier) e.pre.cur e.post.cur e.r

/-- **one pending proposal**: a block may propose only when nothing is pending, and then every earlier proposal's
window is closed and, if it was approved, its switch round is past. -/
def OnePending (cfg : Config) (e : Step) (earlier : List Step) : Prop :=
  e.v.propose ≠ "" →
    e.pre.next = "" ∧
    ∀ pe ∈ earlier, pe.v.propose ≠ "" → ∃ q, cfg pe.pre.cur = some q ∧
      pe.r + q.voteRounds < e.r ∧
      (q.threshold ≤ approvalsIn earlier pe.r (pe.r + q.voteRounds) →
        pe.r + q.voteRounds + effDelay q pe.v.delay < e.r)

/-- **deadline and switch rule**, for every proposal `pe` in the history up to and including `e`:
if `e` is its deadline block and it is short of the threshold, it is dropped and the protocol stays;
if `e` is its announced switch block and it reached the threshold, the protocol becomes the proposed one. -/
def DeadlineRule (cfg : Config) (e : Step) (earlier : List Step) : Prop :=
  ∀ pe ∈ e :: earlier, pe.v.propose ≠ "" → ∀ q, cfg pe.pre.cur = some q →
    (e.r = pe.r + q.voteRounds → approvalsIn (e :: earlier) pe.r (pe.r + q.voteRounds) < q.threshold →
        e.post.next = "" ∧ e.post.cur = e.pre.cur) ∧
    (e.r = pe.r + q.voteRounds + effDelay q pe.v.delay →
      q.threshold ≤ approvalsIn (e :: earlier) pe.r (pe.r + q.voteRounds) →
        e.post.cur = pe.v.propose ∧ e.pre.cur = pe.pre.cur)

def Good (cfg : Config) (e : Step) (earlier : List Step) : Prop :=
  SwitchJustified cfg e earlier ∧ OnePending cfg e earlier ∧ DeadlineRule cfg e earlier

/-- a chain of headers, each accepted by `PreCheck` on top of its predecessor -/
def ChainOk (cfg : Config) : Hdr → List Hdr → Prop
  | _, [] => True
  | prev, bh :: rest => (∃ b1 b2, preCheck cfg bh prev b1 b2 = .ok ()) ∧ ChainOk cfg bh rest

/-- sanity of one consensus version's upgrade parameters and of its `ApprovedUpgrades` -/
def saneEntry (x : String × Params × List (String × Nat × Nat)) : Bool :=
  let p := x.2.1
  decide (1 ≤ p.voteRounds) && decide (1 ≤ p.threshold) && decide (p.threshold ≤ p.voteRounds) &&
  decide (p.minWait ≤ p.maxWait) &&
  -- the default wait is a legal explicit wait, unless explicit waits are disabled (min = max = 0)
  (decide (p.minWait ≤ p.defaultWait ∧ p.defaultWait ≤ p.maxWait) || decide (p.maxWait = 0)) &&
  decide (1 ≤ p.maxVerLen) &&
  -- far from the uint64 wrap
  decide (p.voteRounds + p.maxWait + p.defaultWait < 4294967296) &&
  -- what ProcessUpgradeParams proposes (name, delay) is a legal proposal
  x.2.2.all (fun u => decide (1 ≤ u.2.1) && decide ((u.2.1 : Int) ≤ p.maxVerLen) &&
                      decide (p.minWait ≤ u.2.2) && decide (u.2.2 ≤ p.maxWait))

end AlgoVerif.Spec.Upgrade
