/-!
# Spec.AgreementAbs — abstract one-round model of the agreement protocol (C01, used by C02/C05)

A *history* is a list of events, **newest first** (`e :: pre` = "event `e` happens after history `pre`";
an earlier history is a *suffix* `pre <:+ h` of the list).  Nodes have fixed weights, a fixed honest set
and one threshold `T`.  Byzantine nodes are unconstrained (they may vote anything, equivocate, and their
`see/enter/commit/crash` events are ignored).  Honest nodes obey the *local* rules of
`agreement/player.go` (`okEv`), expressed over

* the votes cast so far (`votes pre`),
* the quorums those votes form (`softQ / certQ / nextQ`, equivocators counted for every value, exactly as
  `agreement/voteTracker.go` counts), and
* the node's local state `localOf pre n` = (period, per-period next-threshold cache), which is a fold of the
  node's own `see / enter / crash` events; a crash reverts it to the snapshot taken at the node's last vote
  (what `agreement/service.go:mainLoop` persists: router + player after the `handle` that produced an
  `attest`).

Two rule sets are defined at once (`lenient : Bool`):

* `lenient = false` (**strict**): the rules as the protocol paper states them;
* `lenient = true`: the rules as the *code* guarantees them locally.  Three rules of the code read values
  that a later threshold event can overwrite (`proposalTracker.Staging` is overwritten by a cert threshold
  of the same period; `voteTrackerPeriod.Cached.Proposal` by a later next threshold of the previous
  period).  For those rules the node is excused when the votes cast so far already contain the conflicting
  quorums (`Conflict1`, `Conflict2`).  `Lemmas/AgreementAbsLift` proves that under the quorum hypothesis no
  conflict ever arises, so `WF true` implies `WF false` and the excuses are never used.

Everything here is core Lean and executable: `wfCheck` is the acceptor, `checkEv` names the first
violated rule.
-/
namespace AlgoVerif.Spec.AgreementAbs

abbrev Node := Nat
abbrev Val := Nat

structure Params where
  nodes : List Node
  w : Node → Nat
  honest : Node → Bool
  T : Nat

/-- weight of the nodes of `l` selected by `a` -/
def wtl (w : Node → Nat) (l : List Node) (a : Node → Bool) : Nat := ((l.filter a).map w).sum
def wt (P : Params) (a : Node → Bool) : Nat := wtl P.w P.nodes a
/-- total weight -/
def W (P : Params) : Nat := wt P (fun _ => true)
/-- Byzantine weight -/
def F (P : Params) : Nat := wt P (fun n => !P.honest n)
/-- the quorum hypothesis of every theorem: `2·T > W + F` -/
def HQ (P : Params) : Prop := W P + F P < 2 * P.T
instance (P : Params) : Decidable (HQ P) := by unfold HQ; infer_instance

/-- `next k`: the k-th next step; the fast-recovery steps late/redo/down are `next k` with reserved `k`
(the driver maps the Go step number `s ≥ 3` to `next (s - 3)`, so `late/redo/down` = `next 250/251/252`). -/
inductive Step | soft | cert | next (k : Nat)
  deriving DecidableEq, Repr

def Step.isNext : Step → Bool
  | .next _ => true
  | _ => false

/-- `x = none` is ⊥ -/
structure Vote where
  n : Node
  p : Nat
  s : Step
  x : Option Val
  deriving DecidableEq, Repr

inductive Cause | viaNext (y : Option Val) | viaSoft (x : Val) | viaCert (x : Val)
  deriving DecidableEq, Repr

inductive Ev
  | vote (v : Vote)                              -- honest or Byzantine according to `honest v.n`
  | see (n : Node) (p : Nat) (y : Option Val)    -- n's period-p tracker caches a next threshold for y
  | enter (n : Node) (p : Nat) (c : Cause)       -- enterPeriod
  | commit (n : Node) (p : Nat) (v : Val)        -- ensureAction with a period-p certificate for v
  | crash (n : Node)                             -- restart from the last persisted state
  deriving DecidableEq, Repr

/-! ### votes, supports, quorums -/

def votes : List Ev → List Vote
  | [] => []
  | .vote v :: h => v :: votes h
  | _ :: h => votes h

def VotedFor (h : List Ev) (n : Node) (p : Nat) (s : Step) (x : Option Val) : Prop :=
  (⟨n, p, s, x⟩ : Vote) ∈ votes h

def Equivocated (h : List Ev) (n : Node) (p : Nat) (s : Step) : Prop :=
  ∃ a ∈ votes h, ∃ b ∈ votes h, a.n = n ∧ a.p = p ∧ a.s = s ∧ b.n = n ∧ b.p = p ∧ b.s = s ∧ a.x ≠ b.x

instance (h n p s x) : Decidable (VotedFor h n p s x) := by unfold VotedFor; infer_instance

/-- the values `n` voted for at `(p, s)` -/
def castAt (h : List Ev) (n : Node) (p : Nat) (s : Step) : List (Option Val) :=
  ((votes h).filter (fun v => v.n == n && v.p == p && v.s == s)).map (·.x)

/-- linear-time test of `Equivocated` -/
def equivocatedB (h : List Ev) (n : Node) (p : Nat) (s : Step) : Bool :=
  let c := castAt h n p s
  c.any (fun a => c.any (fun b => a != b))

theorem equivocatedB_iff (h : List Ev) (n : Node) (p : Nat) (s : Step) :
    equivocatedB h n p s = true ↔ Equivocated h n p s := by
  simp only [equivocatedB, castAt, Equivocated, List.any_eq_true, List.mem_map, List.mem_filter,
    Bool.and_eq_true, beq_iff_eq, bne_iff_ne]
  constructor
  · rintro ⟨_, ⟨a, ⟨ha, ⟨h1, h2⟩, h3⟩, rfl⟩, _, ⟨b, ⟨hb, ⟨h4, h5⟩, h6⟩, rfl⟩, hne⟩
    exact ⟨a, ha, b, hb, h1, h2, h3, h4, h5, h6, hne⟩
  · rintro ⟨a, ha, b, hb, h1, h2, h3, h4, h5, h6, hne⟩
    exact ⟨_, ⟨a, ⟨ha, ⟨h1, h2⟩, h3⟩, rfl⟩, _, ⟨b, ⟨hb, ⟨h4, h5⟩, h6⟩, rfl⟩, hne⟩

instance (h n p s) : Decidable (Equivocated h n p s) :=
  decidable_of_iff _ (equivocatedB_iff h n p s)

/-- membership test of the support of `(p, s, x)`: voters for `x` plus all equivocators of `(p, s)` -/
def inSupp (h : List Ev) (p : Nat) (s : Step) (x : Option Val) (n : Node) : Bool :=
  decide (VotedFor h n p s x ∨ Equivocated h n p s)

def supp (P : Params) (h : List Ev) (p : Nat) (s : Step) (x : Option Val) : List Node :=
  P.nodes.filter (inSupp h p s x)

def Q (P : Params) (h : List Ev) (p : Nat) (s : Step) (x : Option Val) : Prop :=
  P.T ≤ wt P (inSupp h p s x)
instance (P h p s x) : Decidable (Q P h p s x) := by unfold Q; infer_instance

def softQ (P : Params) (h : List Ev) (p : Nat) (v : Val) : Prop := Q P h p .soft (some v)
def certQ (P : Params) (h : List Ev) (p : Nat) (v : Val) : Prop := Q P h p .cert (some v)
instance (P h p v) : Decidable (softQ P h p v) := by unfold softQ; infer_instance
instance (P h p v) : Decidable (certQ P h p v) := by unfold certQ; infer_instance

def insertNew (a : Nat) (l : List Nat) : List Nat := if a ∈ l then l else a :: l

/-- the next-step numbers that occur in votes of period `p` (without repetitions) -/
def nextKs : List Ev → Nat → List Nat
  | [], _ => []
  | .vote v :: h, p =>
      match v.s with
      | .next k => if v.p = p then insertNew k (nextKs h p) else nextKs h p
      | _ => nextKs h p
  | _ :: h, p => nextKs h p

/-- some next step of period `p` (that has votes) reaches the threshold for `y` -/
def nextQ (P : Params) (h : List Ev) (p : Nat) (y : Option Val) : Prop :=
  ∃ k ∈ nextKs h p, Q P h p (.next k) y
instance (P h p y) : Decidable (nextQ P h p y) := by unfold nextQ; infer_instance

/-- the value a period can *stage* (`proposalTracker.Staging` is set by the soft **or** cert threshold of
the period) -/
def stagedQ (P : Params) (h : List Ev) (p : Nat) (v : Val) : Prop := softQ P h p v ∨ certQ P h p v
instance (P h p v) : Decidable (stagedQ P h p v) := by unfold stagedQ; infer_instance

/-- non-⊥ values occurring in votes (without repetitions) -/
def vals : List Ev → List Val
  | [] => []
  | .vote v :: h =>
      match v.x with
      | some a => insertNew a (vals h)
      | none => vals h
  | _ :: h => vals h

/-- two different values are staged for period `p` -/
def Conflict1 (P : Params) (h : List Ev) (p : Nat) : Prop :=
  ∃ a ∈ vals h, ∃ b ∈ vals h, a ≠ b ∧ stagedQ P h p a ∧ stagedQ P h p b
/-- two different non-⊥ values have next quorums in period `p - 1` -/
def Conflict2 (P : Params) (h : List Ev) (p : Nat) : Prop :=
  0 < p ∧ ∃ a ∈ vals h, ∃ b ∈ vals h, a ≠ b ∧ nextQ P h (p - 1) (some a) ∧ nextQ P h (p - 1) (some b)

/-- `l` contains two different elements of `l` satisfying `f` (each `f a` evaluated once) -/
def twoDistinct (l : List Val) (f : Val → Bool) : Bool :=
  let sv := l.filter f
  sv.any (fun a => sv.any (fun b => a != b))

theorem twoDistinct_iff (l : List Val) (f : Val → Bool) :
    twoDistinct l f = true ↔ ∃ a ∈ l, ∃ b ∈ l, a ≠ b ∧ f a = true ∧ f b = true := by
  simp only [twoDistinct, List.any_eq_true, List.mem_filter, bne_iff_ne]
  constructor
  · rintro ⟨a, ⟨ha, fa⟩, b, ⟨hb, fb⟩, hne⟩; exact ⟨a, ha, b, hb, hne, fa, fb⟩
  · rintro ⟨a, ha, b, hb, hne, fa, fb⟩; exact ⟨a, ⟨ha, fa⟩, b, ⟨hb, fb⟩, hne⟩

instance (P h p) : Decidable (Conflict1 P h p) :=
  decidable_of_iff (twoDistinct (vals h) (fun a => decide (stagedQ P h p a)) = true) (by
    rw [twoDistinct_iff]; simp only [decide_eq_true_eq]; rfl)
instance (P h p) : Decidable (Conflict2 P h p) :=
  decidable_of_iff (0 < p ∧ twoDistinct (vals h) (fun a => decide (nextQ P h (p - 1) (some a))) = true) (by
    rw [twoDistinct_iff]; simp only [decide_eq_true_eq]; rfl)

/-! ### local state -/

/-- `voteTrackerPeriod.Cached`: (`Bottom`, `Proposal`) -/
structure Cache where
  bottom : Bool
  prop : Option Val
  deriving DecidableEq, Repr

def Cache.empty : Cache := ⟨false, none⟩

/-- `voteTrackerPeriod.handle`, case `nextThreshold` -/
def Cache.see (c : Cache) : Option Val → Cache
  | none => { c with bottom := true }
  | some v => { c with prop := some v }

structure Local where
  period : Nat
  cache : Nat → Cache

def Local.init : Local := ⟨0, fun _ => Cache.empty⟩

def Local.see (L : Local) (p : Nat) (y : Option Val) : Local :=
  { L with cache := fun q => if q = p then (L.cache p).see y else L.cache q }

/-- the cache of the previous period as the player reads it (`nextThresholdStatusRequest` to period
`p - 1`; for `p = 0` the Go code asks a fresh tracker, which answers the empty cache) -/
def Local.prev (L : Local) (p : Nat) : Cache := if p = 0 then Cache.empty else L.cache (p - 1)

/-- current local state and the snapshot taken at the node's last vote -/
structure NState where
  cur : Local
  snap : Local

def NState.init : NState := ⟨Local.init, Local.init⟩

def stepN (n : Node) (s : NState) : Ev → NState
  | .vote v => if v.n = n then ⟨s.cur, s.cur⟩ else s
  | .see m p y => if m = n then ⟨s.cur.see p y, s.snap⟩ else s
  | .enter m p _ => if m = n then ⟨{ s.cur with period := p }, s.snap⟩ else s
  | .commit _ _ _ => s
  | .crash m => if m = n then ⟨s.snap, s.snap⟩ else s

def nstate : List Ev → Node → NState
  | [], _ => NState.init
  | e :: pre, n => stepN n (nstate pre n) e

def localOf (h : List Ev) (n : Node) : Local := (nstate h n).cur

/-! ### the local rules -/

section Rules
variable (lenient : Bool) (P : Params) (pre : List Ev)

/-- one value per `(n, p, s)` (re-sending the same vote is allowed: a restart replays its `attest`).
Code: `soft` — one `issueSoftVote` per period entry, periods are never re-entered; `cert` — the value is the
period's staged value on every trigger path (overwritable by a cert threshold ⇒ `Conflict1`); `next k` — one
`issueNextVote` per step; `late` — staged value; `redo` — the cached next value of `p-1` (overwritable by a
later next threshold ⇒ `Conflict2`); `down` — always ⊥. -/
def RUnique (v : Vote) : Prop :=
  (∀ v' ∈ votes pre, v'.n = v.n → v'.p = v.p → v'.s = v.s → v'.x = v.x) ∨
  (lenient = true ∧ match v.s with
    | .soft => False
    | .cert => Conflict1 P pre v.p
    | .next _ => Conflict1 P pre v.p ∨ Conflict2 P pre v.p)

/-- a node votes in the period it is in (`pseudonodeAction{Period: p.Period}`) -/
def RPeriod (v : Vote) : Prop := (localOf pre v.n).period = v.p

/-- a soft vote is issued while `p.Step = soft`, i.e. before any next vote of the period.
(`issueFastVote` advances `p.Step` past `soft` when it casts a late/redo/down vote, so this also holds for
fast-recovery votes handled early.) -/
def RBeforeNext (v : Vote) : Prop :=
  ∀ v' ∈ votes pre, v'.n = v.n → v'.p = v.p → v'.s.isNext = false

/-- a cert vote is issued while `p.Step ≤ cert`: no next vote of the period precedes it — except a
fast-recovery `late` vote, which carries the same (committable) value.  Stated as: every earlier next-type
vote of the node in this period is for the same value.  (`issueFastVote` sets `p.Step := next` when it casts
`redo`/`down` at `p.Step ≤ cert`, so no cert vote can follow them.) -/
def RCertAfterNext (v : Vote) : Prop :=
  ∀ v' ∈ votes pre, v'.n = v.n → v'.p = v.p → v'.s.isNext = true → v'.x = v.x

/-- `issueSoftVote`: never ⊥; the starting value if the previous period's cache is `(false, some y)` -/
def RSoftStart (v : Vote) : Prop :=
  v.x ≠ none ∧
  (((localOf pre v.n).prev v.p).bottom = false → ((localOf pre v.n).prev v.p).prop ≠ none →
    v.x = ((localOf pre v.n).prev v.p).prop)

/-- `issueCertVote`: the period's staged value (`proposalCommittable`) -/
def RCertStaged (v : Vote) : Prop :=
  match v.x with
  | some y => stagedQ P pre v.p y
  | none => False

/-- `issueNextVote/issueFastVote` after an own cert vote of the period: the value is still committable,
unless `Staging` was overwritten -/
def RNextOwnCert (v : Vote) : Prop :=
  (∀ v' ∈ votes pre, v'.n = v.n → v'.p = v.p → v'.s = .cert → v'.x = v.x) ∨
  (lenient = true ∧ Conflict1 P pre v.p)

/-- `issueNextVote/issueFastVote`: a value is next-voted only if staged (committable) or cached as
`(false, some y)`; ⊥ only if the cache has `Bottom` or no `Proposal` -/
def RNextVal (v : Vote) : Prop :=
  match v.x with
  | some y => stagedQ P pre v.p y ∨ (localOf pre v.n).prev v.p = ⟨false, some y⟩
  | none => ((localOf pre v.n).prev v.p).bottom = true ∨ ((localOf pre v.n).prev v.p).prop = none

/-- `voteTrackerPeriod` caches a next threshold only when one of its step trackers emitted it -/
def RSee (_n : Node) (p : Nat) (y : Option Val) : Prop := nextQ P pre p y

/-- `handleThresholdEvent`: `enterPeriod` is called with a strictly larger target only -/
def REnterGrow (n : Node) (p : Nat) : Prop := (localOf pre n).period < p

/-- the threshold event that caused `enterPeriod`: a next threshold of `p-1` (already cached),
or a soft / cert threshold of `p` -/
def REnterCause (n : Node) (p : Nat) : Cause → Prop
  | .viaNext none => ((localOf pre n).prev p).bottom = true
  | .viaNext (some v) => ((localOf pre n).prev p).prop = some v
  | .viaSoft x => softQ P pre p x
  | .viaCert x => certQ P pre p x

/-- `ensureAction` carries a certificate -/
def RCommit (p : Nat) (v : Val) : Prop := certQ P pre p v

instance (v) : Decidable (RUnique lenient P pre v) := by
  unfold RUnique; cases v.s <;> infer_instance
instance (v) : Decidable (RPeriod pre v) := by unfold RPeriod; infer_instance
instance (v) : Decidable (RBeforeNext pre v) := by unfold RBeforeNext; infer_instance
instance (v) : Decidable (RCertAfterNext pre v) := by unfold RCertAfterNext; infer_instance
instance (v) : Decidable (RSoftStart pre v) := by unfold RSoftStart; infer_instance
instance (v) : Decidable (RCertStaged P pre v) := by
  unfold RCertStaged; cases v.x <;> infer_instance
instance (v) : Decidable (RNextOwnCert lenient P pre v) := by unfold RNextOwnCert; infer_instance
instance (v) : Decidable (RNextVal P pre v) := by
  unfold RNextVal; cases v.x <;> infer_instance
instance (n p y) : Decidable (RSee P pre n p y) := by unfold RSee; infer_instance
instance (n p) : Decidable (REnterGrow pre n p) := by unfold REnterGrow; infer_instance
instance (n p c) : Decidable (REnterCause P pre n p c) := by
  cases c with
  | viaNext y => cases y <;> (unfold REnterCause; infer_instance)
  | viaSoft x => unfold REnterCause; infer_instance
  | viaCert x => unfold REnterCause; infer_instance
instance (p v) : Decidable (RCommit P pre p v) := by unfold RCommit; infer_instance

/-- the rules an honest vote must satisfy -/
def okVote (v : Vote) : Prop :=
  RUnique lenient P pre v ∧ RPeriod pre v ∧
  match v.s with
  | .soft => RBeforeNext pre v ∧ RSoftStart pre v
  | .cert => RCertAfterNext pre v ∧ RCertStaged P pre v
  | .next _ => RNextOwnCert lenient P pre v ∧ RNextVal P pre v

/-- event `e` is allowed after history `pre` -/
def okEv : Ev → Prop
  | .vote v => P.honest v.n = true → okVote lenient P pre v
  | .see n p y => P.honest n = true → RSee P pre n p y
  | .enter n p c => P.honest n = true → REnterGrow pre n p ∧ REnterCause P pre n p c
  | .commit n p v => P.honest n = true → RCommit P pre p v
  | .crash _ => True

/-- named rule checks, in the order they are reported -/
def rulesB : Ev → List (String × Bool)
  | .vote v =>
      if P.honest v.n then
        [("vote-unique", decide (RUnique lenient P pre v)), ("vote-period", decide (RPeriod pre v))] ++
        (match v.s with
         | .soft => [("soft-after-next", decide (RBeforeNext pre v)), ("soft-start", decide (RSoftStart pre v))]
         | .cert => [("cert-after-next", decide (RCertAfterNext pre v)), ("cert-staged", decide (RCertStaged P pre v))]
         | .next _ => [("next-own-cert", decide (RNextOwnCert lenient P pre v)),
                       ("next-value", decide (RNextVal P pre v))])
      else []
  | .see n p y => if P.honest n then [("see-quorum", decide (RSee P pre n p y))] else []
  | .enter n p c =>
      if P.honest n then
        [("enter-grow", decide (REnterGrow pre n p)), ("enter-cause", decide (REnterCause P pre n p c))]
      else []
  | .commit n p v => if P.honest n then [("commit-cert", decide (RCommit P pre p v))] else []
  | .crash _ => []

/-- name of the first violated rule, `none` if the event is allowed -/
def checkEv (e : Ev) : Option String :=
  ((rulesB lenient P pre e).find? (fun r => !r.2)).map (·.1)

def okEvB (e : Ev) : Bool := (rulesB lenient P pre e).all (·.2)

end Rules

/-- well-formed histories: every event is allowed after the history before it -/
def WF (lenient : Bool) (P : Params) : List Ev → Prop
  | [] => True
  | e :: pre => WF lenient P pre ∧ okEv lenient P pre e

/-- the executable acceptor -/
def wfCheck (lenient : Bool) (P : Params) : List Ev → Bool
  | [] => true
  | e :: pre => wfCheck lenient P pre && okEvB lenient P pre e

theorem okEvB_iff (l : Bool) (P : Params) (pre : List Ev) (e : Ev) :
    okEvB l P pre e = true ↔ okEv l P pre e := by
  cases e with
  | vote v =>
      cases hh : P.honest v.n <;> cases hs : v.s <;>
        simp [okEvB, rulesB, okEv, okVote, hh, hs]
  | see n p y => cases hh : P.honest n <;> simp [okEvB, rulesB, okEv, hh]
  | enter n p c => cases hh : P.honest n <;> simp [okEvB, rulesB, okEv, hh]
  | commit n p v => cases hh : P.honest n <;> simp [okEvB, rulesB, okEv, hh]
  | crash n => simp [okEvB, rulesB, okEv]

theorem wfCheck_iff (l : Bool) (P : Params) (h : List Ev) : wfCheck l P h = true ↔ WF l P h := by
  induction h with
  | nil => simp [wfCheck, WF]
  | cons e pre ih => simp [wfCheck, WF, ih, okEvB_iff]

theorem checkEv_none_iff (l : Bool) (P : Params) (pre : List Ev) (e : Ev) :
    checkEv l P pre e = none ↔ okEv l P pre e := by
  rw [← okEvB_iff]
  unfold checkEv okEvB
  simp only [Option.map_eq_none_iff, List.find?_eq_none, List.all_eq_true]
  constructor
  · intro h r hr
    have := h r hr
    simpa using this
  · intro h r hr
    simp [h r hr]

instance (l P h) : Decidable (WF l P h) := decidable_of_iff _ (wfCheck_iff l P h)

/-- all honest commit events of a history -/
def commits (P : Params) : List Ev → List (Node × Nat × Val)
  | [] => []
  | .commit n p v :: h => if P.honest n then (n, p, v) :: commits P h else commits P h
  | _ :: h => commits P h

end AlgoVerif.Spec.AgreementAbs
