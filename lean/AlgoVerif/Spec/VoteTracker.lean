import AlgoVerif.Model.VoteTracker
/-!
Declarative specification of vote counting over the history `vs` of votes accepted in one step
(oldest first).  Nothing here mentions the tracker's maps.

* the FIRST vote of every sender is the one that counts (`firsts`);
* a sender is an equivocator of `vs` when `vs` contains two of its votes for different values (`IsEquiv`);
* `specCount vs v` = weight of the non-equivocating first-voters of `v` + weight of all equivocators
  (each equivocator counted once, for every value);
* a value can signal only while it has a regular (non-equivocating) voter (`SpecOver`).
-/
namespace AlgoVerif.Spec.VoteTracker
open AlgoVerif.Model.VoteTracker

def firsts : List Vote → List Vote
  | [] => []
  | x :: xs => x :: (firsts xs).filter (fun y => y.sender != x.sender)

def IsEquiv (vs : List Vote) (s : Nat) : Prop :=
  ∃ a ∈ vs, ∃ b ∈ vs, a.sender = s ∧ b.sender = s ∧ a.value ≠ b.value

instance (vs : List Vote) (s : Nat) : Decidable (IsEquiv vs s) := by
  unfold IsEquiv; infer_instance

def wsum (l : List Vote) : Nat := (l.map Vote.weight).sum

def regular (vs : List Vote) : List Vote := (firsts vs).filter (fun a => !decide (IsEquiv vs a.sender))
def equivs (vs : List Vote) : List Vote := (firsts vs).filter (fun a => decide (IsEquiv vs a.sender))

def votersOf (vs : List Vote) (v : Nat) : List Vote := (regular vs).filter (fun a => a.value == v)
def regWeight (vs : List Vote) (v : Nat) : Nat := wsum (votersOf vs v)
def eqWeight (vs : List Vote) : Nat := wsum (equivs vs)
def totalWeight (vs : List Vote) : Nat := wsum (firsts vs)
def specCount (vs : List Vote) (v : Nat) : Nat := regWeight vs v + eqWeight vs

/-- `v` is over the threshold after `vs` -/
def SpecOver (c : Cfg) (vs : List Vote) (v : Nat) : Prop :=
  votersOf vs v ≠ [] ∧ reachesQuorum c (specCount vs v) = true

/-- hypotheses on histories: what `unauthenticatedVote.verify` guarantees -/
def PosWeights (vs : List Vote) : Prop := ∀ a ∈ vs, 0 < a.weight
def Consistent (vs : List Vote) : Prop := ∀ a ∈ vs, ∀ b ∈ vs, a.sender = b.sender → a.weight = b.weight

/-- the Counts entry the history prescribes for value `v` -/
def counterOf (vs : List Vote) (v : Nat) : Option Counter :=
  if votersOf vs v = [] then none else some ⟨wsum (votersOf vs v), votersOf vs v⟩

/-- the tracker state is exactly what the history prescribes -/
structure Refines (vs : List Vote) (t : Tracker) : Prop where
  voters : t.voters = regular vs
  counts : ∀ v, t.counts.lookup v = counterOf vs v
  keys : (t.counts.map Prod.fst).Nodup
  eqMem : ∀ s, (∃ e ∈ t.equivocators, e.sender = s) ↔ IsEquiv vs s
  eqNodup : (t.equivocators.map EqVote.sender).Nodup
  eqCount : t.eqCount = eqWeight vs
  eqSum : (t.equivocators.map EqVote.weight).sum = t.eqCount
  eqPairs : ∀ e ∈ t.equivocators, e.p0 ≠ e.p1 ∧ (⟨e.sender, e.weight, e.p0⟩ : Vote) ∈ vs ∧ (⟨e.sender, e.weight, e.p1⟩ : Vote) ∈ vs

end AlgoVerif.Spec.VoteTracker
