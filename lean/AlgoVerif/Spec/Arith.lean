/-
Mathematical specification of the overflow-checked helpers (C45) — exact arithmetic over Nat/Int,
written independently of the Go source. The theorems of Props/C45 state that the definitions
regenerated from Go equal these on every in-range operand.
-/
namespace Spec.Arith

def M64 : Nat := 18446744073709551616
def MAX64 : Nat := 18446744073709551615

def oadd (w a b : Nat) : Nat × Bool := ((a + b) % 2^w, decide (2^w ≤ a + b))
def osub (w a b : Nat) : Nat × Bool := (if b ≤ a then a - b else a + 2^w - b, decide (a < b))
def omul (w a b : Nat) : Nat × Bool := (if a * b < 2^w then a * b else 0, decide (2^w ≤ a * b))
def addsat (w a b : Nat) : Nat := min (a + b) (2^w - 1)
def subsat (_w a b : Nat) : Nat := a - b
def mulsat (w a b : Nat) : Nat := min (a * b) (2^w - 1)

def fitsI64 (x : Int) : Prop := -(9223372036854775808:Int) ≤ x ∧ x < 9223372036854775808
instance (x : Int) : Decidable (fitsI64 x) := by unfold fitsI64; exact inferInstance
def odiff (a b : Nat) : Int × Bool :=
  (if fitsI64 ((a:Int) - b) then (a:Int) - b else 0, decide (¬ fitsI64 ((a:Int) - b)))

def muldiv (a b c : Nat) : Nat × Bool :=
  (if c ≠ 0 ∧ a * b / c < 2^64 then a * b / c else 0, decide (c = 0 ∨ 2^64 ≤ a * b / c))
def mul2div (a b c d : Nat) : Nat × Nat × Bool :=
  if d ≠ 0 ∧ a * b * c / d < 2^64 then (a * b * c / d, a * b * c % d, false) else (2^64 - 1, 0, true)
def divvy (n d q : Nat) : Nat × Nat := (q * n / d, q - q * n / d)
def microsMul (m m2 : Nat) : Nat × Bool := (min (m * m2 / 1000000) (2^64 - 1), decide (2^64 ≤ m * m2 / 1000000))
def mulInt (m : Nat) (i : Int) : Nat × Bool :=
  if i < 0 then (0, true) else (min (m * i.toNat) (2^64 - 1), decide (2^64 ≤ m * i.toNat))

/-- fee = ⌈(base·usage·mult − residue)/10¹²⌉ style rounding with a carried residue (see C24) -/
def feeForUsage (base usage mult residue : Nat) : Nat × Nat × Bool :=
  let p := base * usage * mult
  let q := p / 1000000000000
  let r := p % 1000000000000
  if 2^64 ≤ q then (MAX64, residue, true)
  else if r ≤ residue then (q, residue - r, false)
  else if q = MAX64 then (q, residue, true)
  else (q + 1, 1000000000000 - (r - residue), false)

end Spec.Arith
