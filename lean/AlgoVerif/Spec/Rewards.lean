/-
Closed-form specification of one round of rewards accounting (C25), over plain naturals, written
independently of the Go source. Props/C25 proves the definition regenerated from
`RewardsState.NextRewardsState` equal to it for all in-range inputs.
-/
namespace Spec.Rewards

def M : Nat := 18446744073709551616

/-- the floor the pool must keep: MinBalance, plus the pending residue when enabled (pool itself if that sum overflows) -/
def floorOf (minBal residue pool : Nat) (pending : Bool) : Nat :=
  if pending then (if minBal + residue < M then minBal + residue else pool) else minBal

/-- (level, rate, residue, recalcRound) after the round `r` -/
def next (lvl rate res recalc r minBal iv : Nat) (pending fix : Bool) (pool units : Nat) : Nat × Nat × Nat × Nat :=
  let rate' := if r = recalc then (pool - floorOf minBal res pool pending) / iv else rate
  let recalc' := if r = recalc then (r + iv) % M else recalc
  if units = 0 then (lvl, rate', res, recalc')
  else
    let tot := (if fix then rate' else rate) + res
    if tot < M ∧ lvl + tot / units < M then (lvl + tot / units, rate', tot % units, recalc')
    else (lvl, rate', res, recalc')

end Spec.Rewards
