/-
Spec.LedgerHistory — the oracle of C08 / C10: a ledger state is *genesis + the list of per-round deltas*.
Every query is answered from the HISTORY alone (`blocks.take rnd`), never from any flush / cache state:
`acctAt`, `resAt`, `kvAt`, `creatorAt` (value as of round `rnd`), the uniform wrapper `at`, and the sorted live
listings `liveKv`, `liveAssets`, `liveApps` with the page rules `pageKv`, `pageAssets`, `pageApps`.
Core Lean only (the driver links it).

Round numbering: genesis is round 0, `blocks[i]` is the delta of round `i+1`, `latest = blocks.length`.
-/
namespace AlgoVerif.Spec.LedgerHistory

abbrev Addr := Nat
abbrev Cidx := Nat
abbrev Key := List Nat      -- bytes
abbrev Bytes := List Nat

inductive CType where
  | asset | app
  deriving DecidableEq, Repr, Inhabited

/-- the part of ledgercore.AccountData the trackers hand through (opaque to them); all-zero = the empty account
    (a closed / never existing account) -/
structure AcctData where
  bal : Nat := 0
  ta : Nat := 0     -- TotalAssets
  tap : Nat := 0    -- TotalAssetParams
  tal : Nat := 0    -- TotalAppLocalStates
  tapp : Nat := 0   -- TotalAppParams
  deriving DecidableEq, Repr, Inhabited

def AcctData.empty : AcctData := {}

/-- one half of a resource record in a delta (`AssetParamsDelta`, `AssetHoldingDelta`, `AppParamsDelta`,
    `AppLocalStateDelta`): pointer set / `Deleted` flag / neither -/
inductive Part where
  | absent | deleted | val (n : Nat)
  deriving DecidableEq, Repr, Inhabited

def Part.toOpt : Part → Option Nat
  | .val n => some n
  | _ => none

/-- the value of a resource (addr, creatable): params (only the creator has them) and holding / local state -/
structure ResVal where
  params : Option Nat := none
  hold : Option Nat := none
  deriving DecidableEq, Repr, Inhabited

def ResVal.isEmpty (v : ResVal) : Bool := v.params.isNone && v.hold.isNone

structure ResRec where
  addr : Addr
  cidx : Cidx
  ctype : CType
  params : Part
  hold : Part
  deriving DecidableEq, Repr, Inhabited

def ResRec.val (r : ResRec) : ResVal := ⟨r.params.toOpt, r.hold.toOpt⟩

structure KvMod where
  key : Key
  data : Option Bytes     -- none = deleted
  old : Option Bytes      -- value before the round (none = did not exist)
  deriving DecidableEq, Repr, Inhabited

structure CreatMod where
  cidx : Cidx
  ctype : CType
  created : Bool
  creator : Addr
  deriving DecidableEq, Repr, Inhabited

/-- ledgercore.StateDelta restricted to what accountUpdates consumes -/
structure Delta where
  ver : Nat := 0
  accts : List (Addr × AcctData) := []
  res : List ResRec := []
  kvs : List KvMod := []
  creat : List CreatMod := []
  deriving Repr, Inhabited

def Delta.acct? (d : Delta) (a : Addr) : Option AcctData :=
  (d.accts.find? (fun p => p.1 == a)).map (·.2)

def Delta.resRec? (d : Delta) (a : Addr) (c : Cidx) (t : CType) : Option ResRec :=
  d.res.find? (fun r => r.addr == a && r.cidx == c && r.ctype == t)

def Delta.res? (d : Delta) (a : Addr) (c : Cidx) (t : CType) : Option ResVal :=
  (d.resRec? a c t).map (·.val)

def Delta.kvMod? (d : Delta) (k : Key) : Option KvMod :=
  d.kvs.find? (fun m => m.key == k)

def Delta.kv? (d : Delta) (k : Key) : Option (Option Bytes) :=
  (d.kvMod? k).map (·.data)

def Delta.creat? (d : Delta) (c : Cidx) : Option CreatMod :=
  d.creat.find? (fun m => m.cidx == c)

/-- the most recent delta of `ds` (a prefix of the history, oldest first) for which `f` is defined -/
def lastIn {α : Type} (f : Delta → Option α) (ds : List Delta) : Option α :=
  ds.reverse.findSome? f

structure History where
  gen : List (Addr × AcctData) := []      -- genesis accounts (no resources, boxes or creatables at genesis)
  blocks : List Delta := []
  deriving Inhabited

def History.latest (h : History) : Nat := h.blocks.length

def History.upTo (h : History) (rnd : Nat) : List Delta := h.blocks.take rnd

def History.genAcct (h : History) (a : Addr) : AcctData :=
  ((h.gen.find? (fun p => p.1 == a)).map (·.2)).getD AcctData.empty

def acctAt (h : History) (rnd : Nat) (a : Addr) : AcctData :=
  (lastIn (·.acct? a) (h.upTo rnd)).getD (h.genAcct a)

def resAt (h : History) (rnd : Nat) (a : Addr) (c : Cidx) (t : CType) : ResVal :=
  (lastIn (·.res? a c t) (h.upTo rnd)).getD {}

def kvAt (h : History) (rnd : Nat) (k : Key) : Option Bytes :=
  (lastIn (·.kv? k) (h.upTo rnd)).getD none

def creatorOfMod (m : CreatMod) (t : CType) : Option Addr :=
  if m.created && m.ctype == t then some m.creator else none

def creatorAt (h : History) (rnd : Nat) (c : Cidx) (t : CType) : Option Addr :=
  match lastIn (·.creat? c) (h.upTo rnd) with
  | some m => creatorOfMod m t
  | none => none

/-! ### uniform wrapper -/

inductive QKey where
  | acct (a : Addr)
  | res (a : Addr) (c : Cidx) (t : CType)
  | kv (k : Key)
  | creator (c : Cidx) (t : CType)
  deriving DecidableEq, Repr

inductive QVal where
  | acct (d : AcctData)
  | res (v : ResVal)
  | kv (v : Option Bytes)
  | creator (a : Option Addr)
  deriving DecidableEq, Repr

/-- value of `key` as of round `rnd`: genesis with exactly the blocks `1..rnd` applied -/
def «at» (h : History) (rnd : Nat) : QKey → QVal
  | .acct a => .acct (acctAt h rnd a)
  | .res a c t => .res (resAt h rnd a c t)
  | .kv k => .kv (kvAt h rnd k)
  | .creator c t => .creator (creatorAt h rnd c t)

/-! ### byte-string order (Go compares strings bytewise) -/

def keyLt : Key → Key → Bool
  | [], [] => false
  | [], _ :: _ => true
  | _ :: _, [] => false
  | a :: as, b :: bs => a < b || (a == b && keyLt as bs)

def keyLe (a b : Key) : Bool := !keyLt b a

def hasPrefix : Key → Key → Bool      -- hasPrefix p k : p is a prefix of k
  | [], _ => true
  | _ :: _, [] => false
  | a :: as, b :: bs => a == b && hasPrefix as bs

/-! ### listings -/

/-- remove duplicates (keeps the last occurrence of each element) -/
def dedup {α : Type} [DecidableEq α] : List α → List α
  | [] => []
  | x :: xs => if x ∈ dedup xs then dedup xs else x :: dedup xs

def History.kvKeys (h : History) : List Key :=
  h.blocks.flatMap (fun d => d.kvs.map (·.key))

def History.cidxs (h : History) : List Cidx :=
  h.blocks.flatMap (fun d => d.res.map (·.cidx) ++ d.creat.map (·.cidx))

/-- all boxes present at `rnd` whose key has the prefix and is strictly greater than the cursor, sorted by key,
    each with its value at `rnd` -/
def liveKv (h : History) (rnd : Nat) (pfx cursor : Key) : List (Key × Bytes) :=
  let ks := (dedup h.kvKeys).filter (fun k => hasPrefix pfx k && keyLt cursor k && (kvAt h rnd k).isSome)
  (ks.mergeSort keyLe).filterMap (fun k => (kvAt h rnd k).map (fun v => (k, v)))

structure ResItem where
  cidx : Cidx
  hold : Option Nat
  creator : Option Addr
  params : Option Nat
  deriving DecidableEq, Repr, Inhabited

def resItem (h : History) (rnd : Nat) (a : Addr) (t : CType) (withParams : Bool) (c : Cidx) : ResItem :=
  let cr := creatorAt h rnd c t
  { cidx := c, hold := (resAt h rnd a c t).hold, creator := cr,
    params := if withParams then cr.bind (fun ca => (resAt h rnd ca c t).params) else none }

/-- the assets `a` holds at `rnd` with id > gt, sorted by id -/
def liveAssets (h : History) (rnd : Nat) (a : Addr) (gt : Cidx) : List ResItem :=
  let cs := (dedup h.cidxs).filter (fun c => gt < c && (resAt h rnd a c .asset).hold.isSome)
  (cs.mergeSort (fun x y => x ≤ y)).map (resItem h rnd a .asset true)

/-- the apps `a` is opted into or has created, at `rnd`, with id > gt, sorted by id -/
def liveApps (h : History) (rnd : Nat) (a : Addr) (gt : Cidx) (withParams : Bool) : List ResItem :=
  let cs := (dedup h.cidxs).filter (fun c => gt < c &&
    ((resAt h rnd a c .app).hold.isSome || creatorAt h rnd c .app == some a))
  (cs.mergeSort (fun x y => x ≤ y)).map (resItem h rnd a .app withParams)

/-! ### page rules -/

/-- the limit / byte-cap rule of a box page: how many leading items of a sorted list are returned.
    Always at least one item (when there is one); stops before the item that would exceed `maxb`; stops at `limit`
    (`limit = 0` = no limit on the number of items, as in the DB layer). -/
def kvTrim {α : Type} (sz : α → Nat) (maxb limit : Nat) : List α → Nat → Nat → Nat
  | [], i, _ => i
  | x :: xs, i, acc =>
    if acc + sz x > maxb && i > 0 then i
    else if limit > 0 && i + 1 ≥ limit then i + 1
    else kvTrim sz maxb limit xs (i + 1) (acc + sz x)

def kvItemSize (vals : Bool) (it : Key × Bytes) : Nat :=
  it.1.length + (if vals then it.2.length else 0)

structure KvPage where
  items : List (Key × Option Bytes)      -- value `none` when values were not requested
  more : Bool
  deriving DecidableEq, Repr, Inhabited

def kvView (vals : Bool) (it : Key × Bytes) : Key × Option Bytes :=
  (it.1, if vals then some it.2 else none)

def pageKv (h : History) (rnd : Nat) (pfx cursor : Key) (limit maxb : Nat) (vals : Bool) : KvPage :=
  let live := liveKv h rnd pfx cursor
  let n := kvTrim (kvItemSize vals) maxb limit live 0 0
  ⟨(live.take n).map (kvView vals), decide (n < live.length)⟩

def pageAssets (h : History) (a : Addr) (gt limit : Nat) : List ResItem :=
  (liveAssets h h.latest a gt).take limit

def pageApps (h : History) (a : Addr) (gt limit : Nat) (withParams : Bool) : List ResItem :=
  (liveApps h h.latest a gt withParams).take limit

/-- last round `M ≤ latest` such that `f` is constant on `[rnd, M]` (the best possible `validThrough`) -/
def validMax {α : Type} [DecidableEq α] (f : Nat → α) (rnd latest : Nat) : Nat :=
  let rec go (fuel m : Nat) : Nat :=
    match fuel with
    | 0 => m
    | fuel + 1 => if m + 1 ≤ latest ∧ f (m + 1) = f rnd then go fuel (m + 1) else m
  go (latest - rnd) rnd

end AlgoVerif.Spec.LedgerHistory
