import AlgoVerif.Model.Resources
/-!
Spec.Resources — the declarative closure `Avail` for C35: which accounts / assets / apps / holdings / local states a
version-`v` program running as transaction `(snd, f)` of a group may touch. Written with ∃ / ∨ over what the
transactions of the group DECLARE, not by replaying the evaluator. Core Lean only.
-/
namespace AlgoVerif.Spec.Resources
open AlgoVerif.Model.Resources

/-! ### what ONE transaction declares -/

/-- accounts an app call with foreign arrays brings: sender, Accounts, the called app's account, ForeignApps' accounts -/
def ForeignAccount (snd : Addr) (f : Appl) (a : Addr) : Prop :=
  a = snd ∨ a ∈ f.accounts ∨ (f.appId ≠ 0 ∧ a = appAddr f.appId) ∨ ∃ p ∈ f.apps, a = appAddr p

def ForeignApp (f : Appl) (p : Nat) : Prop := (f.appId ≠ 0 ∧ p = f.appId) ∨ p ∈ f.apps

/-- a tx.Access element counts as the first kind it has a field for (address, asset, app, holding, locals, box) -/
def IsHoldingElem (rr : RRef) : Prop := rr.address = .zero ∧ rr.asset = 0 ∧ rr.app = 0 ∧ rr.holding ≠ (0, 0)
def IsLocalsElem (rr : RRef) : Prop :=
  rr.address = .zero ∧ rr.asset = 0 ∧ rr.app = 0 ∧ rr.holding = (0, 0) ∧ rr.locals ≠ (0, 0)

/-- the pair a holding element stands for (ill-formed: the zero pair the Go code is left with) -/
def holdingOf (al : List RRef) (snd : Addr) (h : Nat × Nat) : Addr × Nat :=
  match resolveHoldingRef al snd h with | some p => p | none => (.zero, 0)
def localsOf (al : List RRef) (snd : Addr) (cur : Nat) (l : Nat × Nat) : Addr × Nat :=
  match resolveLocalsRef al snd cur l with | some p => p | none => (.zero, 0)

def DeclaresAccount : Txn → Addr → Prop
  | .pay snd rcv close, a => a = snd ∨ a = rcv ∨ (close ≠ .zero ∧ a = close)
  | .keyreg snd, a => a = snd
  | .acfg snd _, a => a = snd
  | .axfer snd _ rcv asnd aclose, a => a = snd ∨ a = rcv ∨ (asnd ≠ .zero ∧ a = asnd) ∨ (aclose ≠ .zero ∧ a = aclose)
  | .afrz snd _ acct, a => a = snd ∨ a = acct
  | .appl snd f, a =>
      match f.access with
      | some al => a = snd ∨ ∃ rr ∈ al, rr.address ≠ .zero ∧ a = rr.address
      | none => ForeignAccount snd f a
  | .other _, _ => False

def DeclaresAsset : Txn → Nat → Prop
  | .acfg _ asset, id => asset ≠ 0 ∧ id = asset
  | .axfer _ asset _ _ _, id => id = asset
  | .afrz _ asset _, id => id = asset
  | .appl _ f, id =>
      match f.access with
      | some al => ∃ rr ∈ al, rr.address = .zero ∧ rr.asset ≠ 0 ∧ id = rr.asset
      | none => id ∈ f.assets
  | _, _ => False

def DeclaresApp : Txn → Nat → Prop
  | .appl _ f, p =>
      match f.access with
      | some al => (f.appId ≠ 0 ∧ p = f.appId) ∨ ∃ rr ∈ al, rr.address = .zero ∧ rr.asset = 0 ∧ rr.app ≠ 0 ∧ p = rr.app
      | none => ForeignApp f p
  | _, _ => False

/-- a holding is declared only as a PAIR by one transaction -/
def DeclaresHolding : Txn → Addr → Nat → Prop
  | .axfer snd asset rcv asnd aclose, a, id =>
      asset ≠ 0 ∧ id = asset ∧ (a = snd ∨ a = rcv ∨ (asnd ≠ .zero ∧ a = asnd) ∨ (aclose ≠ .zero ∧ a = aclose))
  | .afrz _ asset acct, a, id => asset ≠ 0 ∧ id = asset ∧ a = acct
  | .appl snd f, a, id =>
      match f.access with
      | some al => ∃ rr ∈ al, IsHoldingElem rr ∧ (a, id) = holdingOf al snd rr.holding
      | none => ForeignAccount snd f a ∧ id ∈ f.assets
  | _, _, _ => False

def DeclaresLocals : Txn → Addr → Nat → Prop
  | .appl snd f, a, p =>
      match f.access with
      | some al => (f.appId ≠ 0 ∧ a = snd ∧ p = f.appId) ∨ ∃ rr ∈ al, IsLocalsElem rr ∧ (a, p) = localsOf al snd f.appId rr.locals
      | none => ForeignAccount snd f a ∧ ForeignApp f p
  | _, _, _ => False

/-! ### the evaluation environment and `Avail` -/

/-- everything availability depends on: the group, what was created earlier in it, and the running program -/
structure Env where
  group : List Txn
  createdAsas : List Nat
  createdApps : List Nat
  version : Nat
  appId : Nat
  snd : Addr
  f : Appl
  policy : Option Policy := none

/-- named by the transaction's own references -/
def OwnAccount (E : Env) (a : Addr) : Prop :=
  a = E.snd ∨ a ∈ E.f.accounts ∨ ∃ rr ∈ accessList E.f, rr.address = a
def OwnAsset (E : Env) (id : Nat) : Prop := id ∈ E.f.assets ∨ ∃ rr ∈ accessList E.f, rr.asset = id
def OwnApp (E : Env) (p : Nat) : Prop := p ∈ E.f.apps ∨ ∃ rr ∈ accessList E.f, rr.app = p

def PolAccount (E : Env) (a : Addr) : Prop := ∃ p, E.policy = some p ∧ a ∈ p.accts
def PolAsset (E : Env) (id : Nat) : Prop := ∃ p, E.policy = some p ∧ id > lastForbiddenResource ∧ id ∈ p.assets
def PolApp (E : Env) (id : Nat) : Prop := ∃ p, E.policy = some p ∧ id > lastForbiddenResource ∧ id ∈ p.apps

def AvailAccount (E : Env) (a : Addr) : Prop :=
  OwnAccount E a
  ∨ (E.version ≥ createdResourcesVersion ∧ ∃ c ∈ E.createdApps, a = appAddr c)
  ∨ (E.version ≥ sharedResourcesVersion ∧ ∃ tx ∈ E.group, DeclaresAccount tx a)
  ∨ (E.version ≥ appAddressAvailableVersion ∧ ∃ p ∈ E.f.apps, a = appAddr p)
  ∨ a = appAddr E.appId
  ∨ PolAccount E a

def AvailAsset (E : Env) (id : Nat) : Prop :=
  OwnAsset E id
  ∨ (E.version ≥ createdResourcesVersion ∧ id ∈ E.createdAsas)
  ∨ (E.version ≥ sharedResourcesVersion ∧ ∃ tx ∈ E.group, DeclaresAsset tx id)
  ∨ PolAsset E id

def AvailApp (E : Env) (p : Nat) : Prop :=
  OwnApp E p
  ∨ (E.version ≥ createdResourcesVersion ∧ p ∈ E.createdApps)
  ∨ p = E.appId
  ∨ (E.version ≥ sharedResourcesVersion ∧ ∃ tx ∈ E.group, DeclaresApp tx p)
  ∨ PolApp E p

/-- the sharing rule for holdings (program version ≥ sharedResourcesVersion): the PAIR is declared by one transaction,
or the asset was created in the group and the account is available, or the account is that of an app created in the
group and the asset is available, or (simulation) the policy grants the pair of two available components -/
def SharedHolding (E : Env) (a : Addr) (id : Nat) : Prop :=
  (∃ tx ∈ E.group, DeclaresHolding tx a id)
  ∨ (id ∈ E.createdAsas ∧ AvailAccount E a)
  ∨ ((∃ c ∈ E.createdApps, a = appAddr c) ∧ AvailAsset E id)
  ∨ (∃ p, E.policy = some p ∧ AvailAccount E a ∧ AvailAsset E id ∧ (a, id) ∈ p.holdings)

def SharedLocals (E : Env) (a : Addr) (p : Nat) : Prop :=
  (∃ tx ∈ E.group, DeclaresLocals tx a p)
  ∨ (p ∈ E.createdApps ∧ AvailAccount E a)
  ∨ ((∃ c ∈ E.createdApps, a = appAddr c) ∧ AvailApp E p)
  ∨ (∃ q, E.policy = some q ∧ AvailApp E p ∧ AvailAccount E a ∧ (a, p) ∈ q.locals)

/-- `Avail(group, txn, version)`: before resource sharing a holding / local state needs its two components, each
available on its own (before direct references — version < 4 — the asset / app of a holding / local-state lookup is a
plain id that is not checked at all); from sharedResourcesVersion on it needs the pair. -/
def Avail (E : Env) : Resource → Prop
  | .account a => AvailAccount E a
  | .asset id => AvailAsset E id
  | .app p => AvailApp E p
  | .holding a id =>
      if E.version ≥ sharedResourcesVersion then SharedHolding E a id
      else AvailAccount E a ∧ (E.version ≥ directRefEnabledVersion → AvailAsset E id)
  | .locals a p =>
      if E.version ≥ sharedResourcesVersion then SharedLocals E a p
      else AvailAccount E a ∧ (E.version ≥ directRefEnabledVersion → AvailApp E p)

/-- the evaluator's resources for `E`: computeAvailability of the group plus what was created so far -/
def Env.res (E : Env) : Res :=
  { computeAvailability E.group with createdAsas := E.createdAsas, createdApps := E.createdApps }

def Env.cx (E : Env) (low : Bool := false) : Ctx :=
  { version := E.version, appId := E.appId, snd := E.snd, f := E.f, res := E.res, low := low, policy := E.policy }

end AlgoVerif.Spec.Resources
