/-
Closed-form specifications for the fee / payout / absence rules (C24, C27) and the minimum-balance
formula (C21), written independently of the Go source; Props/C24, C27T, C21T prove the regenerated
definitions equal to them.
-/
namespace Spec.Fees

def M : Nat := 18446744073709551616
def MAX : Nat := 18446744073709551615

/-- group fee rule: paid ≥ ⌈minFee·usage/10⁶⌉ -/
def feeOk (paid usage minFee : Nat) : Bool := decide (minFee * usage ≤ paid * 1000000)

/-- proposer payout: min(⌊fees·pct/100⌋ + bonus, sink − sinkMin); error when the sum overflows -/
def payout (pct fees bonus sinkBal sinkMin : Nat) : Option Nat :=
  if fees * pct / 100 + bonus < M then some (min (fees * pct / 100 + bonus) (sinkBal - sinkMin)) else none

def payoutAccepted (claimed pct fees bonus sinkBal sinkMin : Nat) : Bool :=
  match payout pct fees bonus sinkBal sinkMin with
  | none => false
  | some m => decide (claimed ≤ m)

def absent (S s ls r : Nat) : Bool :=
  decide (ls ≠ 0 ∧ s ≠ 0 ∧ 20 * S / s ≤ 4294967295 ∧ (ls + 20 * S / s) % M < r)

def minBalance (mb appParamsMB optInMB boxFlat boxByte perEntry perUint perBytes
    assets nUint nBytes appParams locals extraPages boxes boxBytes : Nat) : Nat :=
  let schema := perEntry * min (nUint + nBytes) MAX + perUint * nUint + perBytes * nBytes
  min (mb + mb * assets + appParamsMB * appParams + optInMB * locals + schema + appParamsMB * extraPages
       + boxFlat * boxes + boxByte * boxBytes) MAX

end Spec.Fees
