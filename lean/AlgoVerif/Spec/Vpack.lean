import AlgoVerif.Model.Vpack
/-!
Specification-side vocabulary for C42 (core Lean only):
  * `IsVaruint d v`   — `d` is a msgpack unsigned integer (fixint / uint8 / 16 / 32 / 64 marker) holding `v`;
  * `SVote`           — a stateless-compressed vote as a record of its fields; `SVote.WF` = what
                        `StatelessEncoder.CompressVote` guarantees about them; `ser` = its byte layout;
  * `LruTable.WF`, `WF` — the table-state invariant (established by `initTables`, preserved by every step);
  * `MVote`, `msgpack` — a vote and its canonical msgpack layout (the one `protocol.Encode` produces).
-/
namespace AlgoVerif.Spec.Vpack
open AlgoVerif.Model.Vpack

def IsVaruint (d : Bytes) (v : Nat) : Prop :=
  ∃ b rest, d = b :: rest ∧ varuintRemaining b = some rest.length ∧
    v = if rest.length = 0 then b.toNat else beNat rest

/-- field `b` if the header bit is set, nothing otherwise -/
def opt (hdr0 bit : UInt8) (b : Bytes) : Bytes := if hdr0 &&& bit ≠ 0 then b else []

/-- a stateless-compressed vote, field by field (`pk` = sig.p ‖ sig.p1s, `pk2` = sig.p2 ‖ sig.p2s) -/
structure SVote where
  hdr0 : UInt8
  pf : Bytes
  per : Bytes
  dig : Bytes
  encdig : Bytes
  oper : Bytes
  oprop : Bytes
  rndVal : Nat
  snd : Bytes
  step : Bytes
  pk : Bytes
  pk2 : Bytes
  sig : Bytes

structure SVote.WF (v : SVote) : Prop where
  pf : v.pf.length = 80
  per : v.hdr0 &&& bitPer ≠ 0 → ∃ x, IsVaruint v.per x
  dig : v.hdr0 &&& bitDig ≠ 0 → v.dig.length = 32
  encdig : v.hdr0 &&& bitEncDig ≠ 0 → v.encdig.length = 32
  oper : v.hdr0 &&& bitOper ≠ 0 → ∃ x, IsVaruint v.oper x
  oprop : v.hdr0 &&& bitOprop ≠ 0 → v.oprop.length = 32
  rnd : v.rndVal < M64
  snd : v.snd.length = 32
  step : v.hdr0 &&& bitStep ≠ 0 → ∃ x, IsVaruint v.step x
  pk : v.pk.length = 96
  pk2 : v.pk2.length = 96
  sig : v.sig.length = 64

/-- the literal proposal fields in stateless order -/
def SVote.propLit (v : SVote) : Bytes :=
  opt v.hdr0 bitDig v.dig ++ (opt v.hdr0 bitEncDig v.encdig ++ (opt v.hdr0 bitOper v.oper ++ opt v.hdr0 bitOprop v.oprop))

/-- everything after the 2-byte header; the round is in canonical (minimal) msgpack width -/
def SVote.body (v : SVote) : Bytes :=
  v.pf ++ (opt v.hdr0 bitPer v.per ++ (v.propLit ++ (appendUint64 v.rndVal ++ (v.snd ++
    (opt v.hdr0 bitStep v.step ++ (v.pk ++ (v.pk2 ++ v.sig)))))))

/-- byte layout produced by `StatelessEncoder` -/
def ser (v : SVote) : Bytes := v.hdr0 :: 0 :: v.body

/-- the `proposalEntry` both sides build for this vote -/
def SVote.entry (v : SVote) : PropEntry :=
  { dig := if v.hdr0 &&& bitDig ≠ 0 then v.dig else zeros 32,
    encdig := if v.hdr0 &&& bitEncDig ≠ 0 then v.encdig else zeros 32,
    oper := if v.hdr0 &&& bitOper ≠ 0 then v.oper else [],
    oprop := if v.hdr0 &&& bitOprop ≠ 0 then v.oprop else zeros 32,
    mask := v.hdr0 &&& propFieldsMask }

/-- invariant of one LRU table: what `newLRUTable` establishes for sizes ≤ 65536 -/
def LruWF (t : LruTable) : Prop :=
  1 ≤ t.numBuckets ∧ t.numBuckets ≤ 32768 ∧ t.buckets.size = t.numBuckets ∧ t.numBuckets ≤ 8 * t.mru.size

/-- invariant of a `dynamicTableState` -/
def WF (s : TableState) : Prop :=
  LruWF s.snd ∧ LruWF s.pk ∧ LruWF s.pk2 ∧ s.win.size ≤ 7 ∧ s.win.head < 7 ∧ s.lastRnd < M64

/-! ### canonical msgpack vote (stateless layer) -/

/-- a vote as `protocol.Encode` lays it out: optional fields are `none` when omitted (omitempty); integers are
    values, encoded in the minimal msgpack width (the only one `readUintBytes` accepts) -/
structure MVote where
  pf : Bytes
  per : Option Nat
  dig : Option Bytes
  encdig : Option Bytes
  oper : Option Nat
  oprop : Option Bytes
  rnd : Nat
  snd : Bytes
  step : Option Nat
  p : Bytes
  p1s : Bytes
  p2 : Bytes
  p2s : Bytes
  s : Bytes

structure MVote.WF (m : MVote) : Prop where
  pf : m.pf.length = 80
  per : ∀ x, m.per = some x → x < M64
  dig : ∀ x, m.dig = some x → x.length = 32
  encdig : ∀ x, m.encdig = some x → x.length = 32
  oper : ∀ x, m.oper = some x → x < M64
  oprop : ∀ x, m.oprop = some x → x.length = 32
  rnd : m.rnd < M64
  snd : m.snd.length = 32
  step : ∀ x, m.step = some x → x < M64
  p : m.p.length = 32
  p1s : m.p1s.length = 64
  p2 : m.p2.length = 32
  p2s : m.p2s.length = 64
  s : m.s.length = 64

/-- `key: bin8(len) value` -/
def bin (key : Bytes) (v : Bytes) : Bytes := fixstr key ++ ([0xc4, UInt8.ofNat v.length] ++ v)
/-- `key: uint` in minimal width -/
def uintField (key : Bytes) (v : Nat) : Bytes := fixstr key ++ appendUint64 v
def optBin (key : Bytes) : Option Bytes → Bytes | none => [] | some v => bin key v
def optUint (key : Bytes) : Option Nat → Bytes | none => [] | some v => uintField key v
def cnt {α : Type} : Option α → Nat | none => 0 | some _ => 1
def bitIf {α : Type} (o : Option α) (bit : UInt8) : UInt8 := match o with | none => 0 | some _ => bit

def MVote.propCount (m : MVote) : Nat := cnt m.dig + cnt m.encdig + cnt m.oper + cnt m.oprop
def MVote.rawCount (m : MVote) : Nat := 2 + cnt m.per + cnt m.step + (if m.propCount = 0 then 0 else 1)

/-- the `r.prop` item (absent for the bottom proposal) -/
def MVote.propItem (m : MVote) : Bytes :=
  if m.propCount = 0 then []
  else fixstr kProp ++ ([UInt8.ofNat (0x80 + m.propCount)] ++
    (optBin kDig m.dig ++ (optBin kEncdig m.encdig ++ (optUint kOper m.oper ++ optBin kOprop m.oprop))))

/-- the `sig` map and everything after it -/
def MVote.sigPart (m : MVote) : Bytes :=
  fixstr kSig ++ ([0x86] ++ (bin kP m.p ++ (bin kP1s m.p1s ++ (bin kP2 m.p2 ++ (bin kP2s m.p2s ++
    (bin kPs (zeros 64) ++ bin kS m.s))))))

/-- canonical msgpack layout of an `unauthenticatedVote` (keys sorted, omitempty) -/
def msgpack (m : MVote) : Bytes :=
  [0x83] ++ (fixstr kCred ++ ([0x81] ++ (bin kPf m.pf ++
  (fixstr kR ++ ([UInt8.ofNat (0x80 + m.rawCount)] ++
    (optUint kPer m.per ++ (m.propItem ++ (uintField kRnd m.rnd ++ (bin kSnd m.snd ++ (optUint kStep m.step ++
  m.sigPart))))))))))

/-- header mask the StatelessEncoder computes for `m` -/
def MVote.mask (m : MVote) : UInt8 :=
  (((((0 ||| bitIf m.per bitPer) ||| bitIf m.dig bitDig) ||| bitIf m.encdig bitEncDig) ||| bitIf m.oper bitOper) |||
    bitIf m.oprop bitOprop) ||| bitIf m.step bitStep

/-- bytes an optional field contributes to the stateless form -/
def obytes : Option Bytes → Bytes | none => [] | some v => v
def ouint : Option Nat → Bytes | none => [] | some v => appendUint64 v

/-- the stateless-compressed form of `m`, as a record -/
def MVote.toSVote (m : MVote) : SVote :=
  { hdr0 := m.mask, pf := m.pf, per := ouint m.per, dig := obytes m.dig, encdig := obytes m.encdig,
    oper := ouint m.oper, oprop := obytes m.oprop, rndVal := m.rnd, snd := m.snd, step := ouint m.step,
    pk := m.p ++ m.p1s, pk2 := m.p2 ++ m.p2s, sig := m.s }

/-- stateless bytes of `m` (it is `ser m.toSVote`, see `sl_eq_ser`) -/
def MVote.sl (m : MVote) : Bytes :=
  m.mask :: 0 :: (m.pf ++ (ouint m.per ++ (obytes m.dig ++ (obytes m.encdig ++ (ouint m.oper ++ (obytes m.oprop ++
    (appendUint64 m.rnd ++ (m.snd ++ (ouint m.step ++ (m.p ++ (m.p1s ++ (m.p2 ++ (m.p2s ++ m.s)))))))))))))

end AlgoVerif.Spec.Vpack
